import RsddModel.Model.UnitProp
/-!
# Lemmas about the unit propagator model (`Model/UnitProp.lean`)

* `LoopRel` / `DecideRel`: big-step relational semantics of the watcher loop and of
  `UnitPropagate::decide`; `loop_rel`, `decideK_rel` show every terminating run of the fuel
  functions is a derivation, so all further facts are proved by rule induction.
* soundness (`LoopRel.sound`), monotonicity, frame properties of the watch lists,
  the watch invariant and the fixpoint property.
-/
namespace UnitProp
open Spec

/-! ## watch-list vectors -/

theorem setPad_getD (l : List (List Nat)) (v : Nat) (xs : List Nat) (v' : Nat) :
    ((setPad l v xs)[v']?).getD [] = if v' = v then xs else (l[v']?).getD [] := by
  induction l, v, xs using setPad.induct generalizing v' with
  | case1 xs => cases v' <;> simp [setPad]
  | case2 v xs ih =>
    cases v' with
    | zero => simp [setPad]
    | succ v' => simpa [setPad] using ih v'
  | case3 h t xs => cases v' <;> simp [setPad]
  | case4 h t v xs ih =>
    cases v' with
    | zero => simp [setPad]
    | succ v' => simpa [setPad] using ih v'

theorem WL.get_upd (wl : WL) (p : Bool) (v : Nat) (xs : List Nat) (p' : Bool) (v' : Nat) :
    (wl.upd p v xs).get p' v' = if p' = p ∧ v' = v then xs else wl.get p' v' := by
  cases p <;> cases p' <;> simp [WL.upd, WL.get, setPad_getD]

theorem WL.get_push (wl : WL) (l : Lit) (ci : Nat) (p : Bool) (v : Nat) :
    (wl.push l ci).get p v = if p = l.pol ∧ v = l.var then wl.get p v ++ [ci] else wl.get p v := by
  unfold WL.push
  rw [WL.get_upd]
  split
  · next h => rw [h.1, h.2]
  · rfl

@[simp] theorem WL.get_empty (p : Bool) (v : Nat) : WL.empty.get p v = [] := by
  cases p <;> simp [WL.empty, WL.get]

instance : LawfulBEq Lit where
  eq_of_beq {a b} h := by
    cases a; cases b
    simp only [BEq.beq] at h
    simpa [instBEqLit.beq] using h
  rfl {a} := by
    cases a
    simp [BEq.beq, instBEqLit.beq]

/-! ## partial models -/

/-- `m'` agrees with `m` wherever `m` is defined -/
def PExt (m m' : PModel) : Prop := ∀ x b, m x = some b → m' x = some b

theorem PExt.refl (m : PModel) : PExt m m := fun _ _ h => h
theorem PExt.trans {a b c : PModel} (h1 : PExt a b) (h2 : PExt b c) : PExt a c :=
  fun x v h => h2 x v (h1 x v h)

@[simp] theorem pset_same (m : PModel) (x : Nat) (b : Bool) : (m.set x b) x = some b := by
  simp [PModel.set]

theorem pset_other (m : PModel) {x y : Nat} (b : Bool) (h : y ≠ x) : (m.set x b) y = m y := by
  simp [PModel.set, h]

theorem PExt.set {m : PModel} {x : Nat} (b : Bool) (h : m x = none) : PExt m (m.set x b) := by
  intro y v hy
  by_cases e : y = x
  · subst e; rw [h] at hy; cases hy
  · rw [pset_other _ _ e]; exact hy

theorem litTrue_iff {m : PModel} {l : Lit} : litTrue m l = true ↔ m l.var = some l.pol := by
  simp [litTrue]

theorem litFalse_iff {m : PModel} {l : Lit} : litFalse m l = true ↔ m l.var = some (!l.pol) := by
  simp [litFalse]

theorem litUnset_iff {m : PModel} {l : Lit} : litUnset m l = true ↔ m l.var = none := by
  simp [litUnset]

theorem lit_cases (m : PModel) (l : Lit) :
    litTrue m l = true ∨ litFalse m l = true ∨ litUnset m l = true := by
  rw [litTrue_iff, litFalse_iff, litUnset_iff]
  cases h : m l.var with
  | none => simp
  | some b => cases b <;> cases l.pol <;> simp

theorem litTrue_mono {m m' : PModel} (h : PExt m m') {l : Lit} (hl : litTrue m l = true) :
    litTrue m' l = true := by
  rw [litTrue_iff] at *; exact h _ _ hl

theorem litFalse_mono {m m' : PModel} (h : PExt m m') {l : Lit} (hl : litFalse m l = true) :
    litFalse m' l = true := by
  rw [litFalse_iff] at *; exact h _ _ hl

theorem anyTrue_mono {m m' : PModel} (h : PExt m m') {c : Clause}
    (hc : c.any (litTrue m) = true) : c.any (litTrue m') = true := by
  rw [List.any_eq_true] at *
  obtain ⟨l, hl, ht⟩ := hc
  exact ⟨l, hl, litTrue_mono h ht⟩

theorem Extends.set {a : Assign} {m : PModel} (h : Extends a m) {x : Nat} {b : Bool} (hx : a x = b) :
    Extends a (m.set x b) := by
  intro y v hy
  by_cases e : y = x
  · subst e; simp at hy; rw [← hy]; exact hx
  · rw [pset_other _ _ e] at hy; exact h y v hy

theorem Extends.mono {a : Assign} {m m' : PModel} (h : Extends a m') (hm : PExt m m') : Extends a m :=
  fun x b hx => h x b (hm x b hx)

/-! ## relational semantics -/

/-- the clause visited at position `idx` of the list watching the negation of `l` -/
def curClause (cnf : Cnf) (wl : WL) (l : Lit) (idx : Nat) : Clause :=
  cnf.getD ((wl.get (!l.pol) l.var).getD idx 0) []

def curIdx (wl : WL) (l : Lit) (idx : Nat) : Nat := (wl.get (!l.pol) l.var).getD idx 0

/-- watch lists after moving the watch at position `idx` of `¬l`'s list to `newLit` -/
def moveWatch (wl : WL) (l : Lit) (idx : Nat) (newLit : Lit) : WL :=
  (wl.upd (!l.pol) l.var (swapRemove (wl.get (!l.pol) l.var) idx)).push newLit (curIdx wl l idx)

/-- Big-step semantics of the watcher loop: `LoopRel cnf rep wl m l idx wl' r` — the loop for the
new assignment `l` (already set in `m`), started at `watcher_idx = idx` with watch lists `wl`,
terminates with watch lists `wl'` and result `r` (`none` = UNSAT). The recursive `decide` on a
new unit `u` is inlined (`u` is unassigned, so its prelude just sets it). -/
inductive LoopRel (cnf : Cnf) (rep : Bool) : WL → PModel → Lit → Nat → WL → Option PModel → Prop
  | done {wl m l idx} :
      (wl.get (!l.pol) l.var).length ≤ idx → LoopRel cnf rep wl m l idx wl (some m)
  | skip {wl m l idx wl' r} :
      idx < (wl.get (!l.pol) l.var).length →
      (curClause cnf wl l idx).any (litTrue m) = true →
      LoopRel cnf rep wl m l (idx + 1) wl' r → LoopRel cnf rep wl m l idx wl' r
  | conflict {wl m l idx} :
      idx < (wl.get (!l.pol) l.var).length →
      (curClause cnf wl l idx).any (litTrue m) = false →
      (curClause cnf wl l idx).filter (litUnset m) = [] → LoopRel cnf rep wl m l idx wl none
  | unitConflict {wl m l idx u wl'} :
      idx < (wl.get (!l.pol) l.var).length →
      (curClause cnf wl l idx).any (litTrue m) = false →
      (curClause cnf wl l idx).filter (litUnset m) = [u] →
      LoopRel cnf rep wl (m.set u.var u.pol) u 0 wl' none → LoopRel cnf rep wl m l idx wl' none
  | unitOk {wl m l idx u wl1 m1 wl' r} :
      idx < (wl.get (!l.pol) l.var).length →
      (curClause cnf wl l idx).any (litTrue m) = false →
      (curClause cnf wl l idx).filter (litUnset m) = [u] →
      LoopRel cnf rep wl (m.set u.var u.pol) u 0 wl1 (some m1) →
      LoopRel cnf rep wl1 m1 l (idx + 1) wl' r → LoopRel cnf rep wl m l idx wl' r
  | move {wl m l idx cand second rest wl' r} :
      idx < (wl.get (!l.pol) l.var).length →
      (curClause cnf wl l idx).any (litTrue m) = false →
      (curClause cnf wl l idx).filter (litUnset m) = cand :: second :: rest →
      LoopRel cnf rep (moveWatch wl l idx (pickWatch rep wl l (curIdx wl l idx) cand second)) m l idx wl' r →
      LoopRel cnf rep wl m l idx wl' r

/-- Big-step semantics of `UnitPropagate::decide` -/
inductive DecideRel (cnf : Cnf) (rep : Bool) : WL → PModel → Lit → WL → Option PModel → Prop
  | same {wl m l} : m l.var = some l.pol → DecideRel cnf rep wl m l wl (some m)
  | clash {wl m l} : m l.var = some (!l.pol) → DecideRel cnf rep wl m l wl none
  | fresh {wl m l wl' r} : m l.var = none →
      LoopRel cnf rep wl (m.set l.var l.pol) l 0 wl' r → DecideRel cnf rep wl m l wl' r

theorem decideK_rel {cnf : Cnf} {rep : Bool} {k : WL → PModel → Lit → Nat → Option UPOut}
    (hk : ∀ wl m l idx out, k wl m l idx = some out → LoopRel cnf rep wl m l idx out.1 out.2)
    {wl m l out} (h : decideK k wl m l = some out) : DecideRel cnf rep wl m l out.1 out.2 := by
  unfold decideK at h
  split at h
  · next v hv =>
    split at h
    · next e => cases h; subst e; exact .same hv
    · next e =>
      cases h
      refine .clash ?_
      rw [hv]; cases v <;> cases hp : l.pol <;> simp_all
  · next hv => exact .fresh hv (hk _ _ _ _ _ h)

theorem mem_filter_unset {m : PModel} {c : Clause} {u : Lit} {rest : List Lit}
    (h : c.filter (litUnset m) = u :: rest) : m u.var = none := by
  have : u ∈ c.filter (litUnset m) := by rw [h]; exact List.mem_cons_self
  exact litUnset_iff.mp (List.mem_filter.mp this).2

theorem loop_rel (cnf : Cnf) (rep : Bool) :
    ∀ fuel wl m l idx out, loop cnf rep fuel wl m l idx = some out →
      LoopRel cnf rep wl m l idx out.1 out.2 := by
  intro fuel
  induction fuel with
  | zero => intro wl m l idx out h; simp [loop] at h
  | succ n ih =>
    intro wl m l idx out h
    rw [loop] at h
    simp only [] at h
    split at h
    · next hge => cases h; exact .done hge
    · next hlt =>
      have hlt' : idx < (wl.get (!l.pol) l.var).length := by omega
      split at h
      · next hs => exact .skip hlt' hs (ih _ _ _ _ _ h)
      · next hs =>
        have hs' : (curClause cnf wl l idx).any (litTrue m) = false := by
          simpa [curClause] using hs
        split at h
        · next hf => cases h; exact .conflict hlt' hs' hf
        · next u hf =>
          have hu : m u.var = none := mem_filter_unset hf
          split at h
          · cases h
          · next wl1 hd =>
            cases h
            have := decideK_rel (cnf := cnf) (rep := rep) ih hd
            cases this with
            | clash h1 => rw [hu] at h1; cases h1
            | fresh _ h2 => exact .unitConflict hlt' hs' hf h2
          · next wl1 m1 hd =>
            have := decideK_rel (cnf := cnf) (rep := rep) ih hd
            cases this with
            | same h1 => rw [hu] at h1; cases h1
            | fresh _ h2 => exact .unitOk hlt' hs' hf h2 (ih _ _ _ _ _ h)
        · next cand second rest hf =>
          exact .move hlt' hs' hf (ih _ _ _ _ _ h)

theorem decide_rel {cnf : Cnf} {rep : Bool} {fuel wl m l out}
    (h : decideK (loop cnf rep fuel) wl m l = some out) : DecideRel cnf rep wl m l out.1 out.2 :=
  decideK_rel (loop_rel cnf rep fuel) h

/-! ## `swap_remove` -/

theorem swapRemove_zero (x : Nat) (xs : List Nat) :
    swapRemove (x :: xs) 0 = match xs with | [] => [] | y :: t => (y :: t).getLastD 0 :: (y :: t).dropLast := by
  cases xs with
  | nil => simp [swapRemove]
  | cons y t => simp [swapRemove, List.getLastD]

theorem swapRemove_succ (x : Nat) (xs : List Nat) (k : Nat) (hk : k < xs.length) :
    swapRemove (x :: xs) (k + 1) = x :: swapRemove xs k := by
  cases xs with
  | nil => simp at hk
  | cons y t =>
    unfold swapRemove
    by_cases h : k + 1 < (y :: t).length
    · have h' : k + 1 + 1 < (x :: y :: t).length := by simpa using h
      rw [if_pos h, if_pos h']
      simp only [List.set_cons_succ]
      have hne : (y :: t).set k ((y :: t).getLastD 0) ≠ [] := by
        intro e; have := congrArg List.length e; simp at this
      have e : (x :: y :: t).getLastD 0 = (y :: t).getLastD 0 := by simp [List.getLastD]
      rw [e, List.dropLast_cons_of_ne_nil hne]
    · have h' : ¬ (k + 1 + 1 < (x :: y :: t).length) := by simpa using h
      rw [if_neg h, if_neg h']
      simp

theorem swapRemove_perm : ∀ (xs : List Nat) (k : Nat), k < xs.length →
    (swapRemove xs k).Perm (xs.eraseIdx k)
  | [], k, h => by simp at h
  | x :: xs, 0, _ => by
    rw [swapRemove_zero]
    cases xs with
    | nil => simp
    | cons y t =>
      simp only [List.eraseIdx_zero, List.tail_cons]
      have h1 : (y :: t).getLastD 0 = (y :: t).getLast (by simp) := by simp [List.getLastD]
      rw [h1]
      have h2 := List.dropLast_concat_getLast (l := y :: t) (by simp)
      have h3 : ((y :: t).getLast (by simp) :: (y :: t).dropLast).Perm
          ((y :: t).dropLast ++ [(y :: t).getLast (by simp)]) := by
        simpa using (List.perm_append_comm (l₁ := [(y :: t).getLast (by simp)]) (l₂ := (y :: t).dropLast))
      rw [h2] at h3
      exact h3
  | x :: xs, k + 1, h => by
    have hk : k < xs.length := by simpa using h
    rw [swapRemove_succ x xs k hk]
    simp only [List.eraseIdx_cons_succ]
    exact (swapRemove_perm xs k hk).cons x

theorem swapRemove_getD_lt : ∀ (xs : List Nat) (k j : Nat), k < xs.length → j < k →
    (swapRemove xs k).getD j 0 = xs.getD j 0
  | [], k, _, h, _ => by simp at h
  | x :: xs, 0, j, _, hj => by omega
  | x :: xs, k + 1, j, h, hj => by
    have hk : k < xs.length := by simpa using h
    rw [swapRemove_succ x xs k hk]
    cases j with
    | zero => simp
    | succ j =>
      have := swapRemove_getD_lt xs k j hk (by omega)
      simpa using this

theorem swapRemove_length (xs : List Nat) (k : Nat) (hk : k < xs.length) :
    (swapRemove xs k).length = xs.length - 1 := by
  rw [(swapRemove_perm xs k hk).length_eq, List.length_eraseIdx]; simp [hk]

theorem mem_swapRemove {xs : List Nat} {k i : Nat} (hk : k < xs.length)
    (h : i ∈ swapRemove xs k) : i ∈ xs :=
  List.mem_of_mem_eraseIdx ((swapRemove_perm xs k hk).mem_iff.mp h)

/-! ## validity of the watch lists, monotonicity, soundness -/

/-- every watch entry is a clause index -/
def WatchValid (cnf : Cnf) (wl : WL) : Prop := ∀ p v i, i ∈ wl.get p v → i < cnf.length

theorem curIdx_mem {wl : WL} {l : Lit} {idx : Nat} (h : idx < (wl.get (!l.pol) l.var).length) :
    curIdx wl l idx ∈ wl.get (!l.pol) l.var := by
  unfold curIdx
  rw [List.getD_eq_getElem?_getD, List.getElem?_eq_getElem h]
  exact List.getElem_mem h

theorem mem_moveWatch {wl : WL} {l : Lit} {idx : Nat} {nl : Lit} {p : Bool} {v i : Nat}
    (hlt : idx < (wl.get (!l.pol) l.var).length)
    (h : i ∈ (moveWatch wl l idx nl).get p v) :
    i ∈ wl.get p v ∨ (i = curIdx wl l idx ∧ p = nl.pol ∧ v = nl.var) := by
  unfold moveWatch at h
  rw [WL.get_push] at h
  have key : ∀ p v, i ∈ (wl.upd (!l.pol) l.var (swapRemove (wl.get (!l.pol) l.var) idx)).get p v →
      i ∈ wl.get p v := by
    intro p v h
    rw [WL.get_upd] at h
    split at h
    · next e => rw [e.1, e.2]; exact mem_swapRemove hlt h
    · exact h
  split at h
  · next e =>
    rw [List.mem_append] at h
    rcases h with h | h
    · exact .inl (key _ _ h)
    · exact .inr ⟨by simpa using h, e.1, e.2⟩
  · exact .inl (key _ _ h)

theorem WatchValid.moveWatch {cnf : Cnf} {wl : WL} {l : Lit} {idx : Nat} {nl : Lit}
    (hv : WatchValid cnf wl) (hlt : idx < (wl.get (!l.pol) l.var).length) :
    WatchValid cnf (moveWatch wl l idx nl) := by
  intro p v i h
  rcases mem_moveWatch hlt h with h | ⟨h, _, _⟩
  · exact hv p v i h
  · rw [h]; exact hv _ _ _ (curIdx_mem hlt)

theorem LoopRel.valid {cnf rep wl m l idx wl' r} (h : LoopRel cnf rep wl m l idx wl' r)
    (hv : WatchValid cnf wl) : WatchValid cnf wl' := by
  induction h with
  | done _ => exact hv
  | skip _ _ _ ih => exact ih hv
  | conflict _ _ _ => exact hv
  | unitConflict _ _ _ _ ih => exact ih hv
  | unitOk _ _ _ _ _ ih1 ih2 => exact ih2 (ih1 hv)
  | move hlt _ _ _ ih => exact ih (hv.moveWatch hlt)

theorem DecideRel.valid {cnf rep wl m l wl' r} (h : DecideRel cnf rep wl m l wl' r)
    (hv : WatchValid cnf wl) : WatchValid cnf wl' := by
  cases h with
  | same _ => exact hv
  | clash _ => exact hv
  | fresh _ h => exact h.valid hv

/-- the loop only adds assignments -/
theorem LoopRel.ext {cnf rep wl m l idx wl' r} (h : LoopRel cnf rep wl m l idx wl' r) :
    ∀ m', r = some m' → PExt m m' := by
  induction h with
  | done _ => intro m' e; cases e; exact PExt.refl _
  | skip _ _ _ ih => exact ih
  | conflict _ _ _ => intro m' e; cases e
  | unitConflict _ _ _ _ _ => intro m' e; cases e
  | unitOk _ _ hf _ _ ih1 ih2 =>
    intro m' e
    exact ((PExt.set _ (mem_filter_unset hf)).trans (ih1 _ rfl)).trans (ih2 _ e)
  | move _ _ _ _ ih => exact ih

theorem DecideRel.ext {cnf rep wl m l wl' m'} (h : DecideRel cnf rep wl m l wl' (some m')) :
    PExt m m' ∧ m' l.var = some l.pol := by
  cases h with
  | same h => exact ⟨PExt.refl _, h⟩
  | fresh hn h =>
    have := h.ext _ rfl
    exact ⟨(PExt.set _ hn).trans this, this _ _ (pset_same _ _ _)⟩

theorem curClause_mem {cnf : Cnf} {wl : WL} {l : Lit} {idx : Nat} (hv : WatchValid cnf wl)
    (h : idx < (wl.get (!l.pol) l.var).length) : curClause cnf wl l idx ∈ cnf := by
  have h1 : curIdx wl l idx < cnf.length := hv _ _ _ (curIdx_mem h)
  show cnf.getD (curIdx wl l idx) [] ∈ cnf
  rw [List.getD_eq_getElem?_getD, List.getElem?_eq_getElem h1]
  exact List.getElem_mem h1

/-- a satisfying total assignment that extends `m` satisfies an unassigned literal of every
clause that has no true literal under `m` -/
theorem sat_unset_lit {a : Assign} {m : PModel} {c : Clause} (he : Extends a m)
    (hc : clauseSat a c = true) (hs : c.any (litTrue m) = false) :
    ∃ lit, lit ∈ c.filter (litUnset m) ∧ litSat a lit = true := by
  unfold clauseSat at hc
  rw [List.any_eq_true] at hc
  obtain ⟨lit, hl, hsat⟩ := hc
  refine ⟨lit, List.mem_filter.mpr ⟨hl, ?_⟩, hsat⟩
  rcases lit_cases m lit with h | h | h
  · have : c.any (litTrue m) = true := List.any_eq_true.mpr ⟨lit, hl, h⟩
    rw [hs] at this; cases this
  · have h1 := he _ _ (litFalse_iff.mp h)
    simp [litSat, h1] at hsat
  · exact h

theorem cnfSat_mem {a : Assign} {cnf : Cnf} {c : Clause} (h : cnfSat a cnf = true) (hc : c ∈ cnf) :
    clauseSat a c = true := by
  unfold cnfSat at h; rw [List.all_eq_true] at h; exact h c hc

/-- Soundness of the loop against every total model of the CNF that extends the current partial
model: the loop does not report UNSAT and the model stays below the total model. -/
theorem LoopRel.sound {cnf rep wl m l idx wl' r} (h : LoopRel cnf rep wl m l idx wl' r)
    (hv : WatchValid cnf wl) (a : Assign) (ha : cnfSat a cnf = true) (he : Extends a m) :
    ∃ m', r = some m' ∧ Extends a m' := by
  induction h with
  | done _ => exact ⟨_, rfl, he⟩
  | skip _ _ _ ih => exact ih hv he
  | conflict hlt hs hf =>
    obtain ⟨lit, hl, _⟩ := sat_unset_lit he (cnfSat_mem ha (curClause_mem hv hlt)) hs
    rw [hf] at hl; cases hl
  | @unitConflict wl m l idx u wl' hlt hs hf _ ih =>
    obtain ⟨lit, hl, hsat⟩ := sat_unset_lit he (cnfSat_mem ha (curClause_mem hv hlt)) hs
    rw [hf] at hl
    have : lit = u := by simpa using hl
    subst this
    have hx : a lit.var = lit.pol := by simpa [litSat] using hsat
    obtain ⟨m', e, _⟩ := ih hv (Extends.set he hx)
    cases e
  | @unitOk wl m l idx u wl1 m1 wl' r hlt hs hf h1 _ ih1 ih2 =>
    obtain ⟨lit, hl, hsat⟩ := sat_unset_lit he (cnfSat_mem ha (curClause_mem hv hlt)) hs
    rw [hf] at hl
    have : lit = u := by simpa using hl
    subst this
    have hx : a lit.var = lit.pol := by simpa [litSat] using hsat
    obtain ⟨m', e, he1⟩ := ih1 hv (Extends.set he hx)
    cases e
    exact ih2 (h1.valid hv) he1
  | move hlt _ _ _ ih => exact ih (hv.moveWatch hlt) he

theorem DecideRel.sound {cnf rep wl m l wl' r} (h : DecideRel cnf rep wl m l wl' r)
    (hv : WatchValid cnf wl) (a : Assign) (ha : cnfSat a cnf = true) (he : Extends a m)
    (hl : litSat a l = true) : ∃ m', r = some m' ∧ Extends a m' := by
  have hx : a l.var = l.pol := by simpa [litSat] using hl
  cases h with
  | same _ => exact ⟨_, rfl, he⟩
  | clash h =>
    have := he _ _ h
    rw [hx] at this
    cases hp : l.pol <;> simp [hp] at this
  | fresh _ h => exact h.sound hv a ha (Extends.set he hx)

/-! ## frame properties of the watch lists -/

theorem pickWatch_cases (rep : Bool) (wl : WL) (l : Lit) (ci : Nat) (cand second : Lit) :
    pickWatch rep wl l ci cand second = cand ∨ pickWatch rep wl l ci cand second = second := by
  unfold pickWatch
  cases rep
  · by_cases h : ci ∈ wl.get l.pol cand.var <;> simp [h]
  · by_cases h : ci ∈ wl.get cand.pol cand.var <;> simp [h]

theorem pickWatch_unset {rep : Bool} {wl : WL} {l : Lit} {ci : Nat} {m : PModel} {c : Clause}
    {cand second : Lit} {rest : List Lit} (hf : c.filter (litUnset m) = cand :: second :: rest) :
    m (pickWatch rep wl l ci cand second).var = none ∧ pickWatch rep wl l ci cand second ∈ c := by
  have h1 : cand ∈ c.filter (litUnset m) := by rw [hf]; simp
  have h2 : second ∈ c.filter (litUnset m) := by rw [hf]; simp
  rw [List.mem_filter, litUnset_iff] at h1 h2
  rcases pickWatch_cases rep wl l ci cand second with e | e <;> rw [e]
  · exact ⟨h1.2, h1.1⟩
  · exact ⟨h2.2, h2.1⟩

theorem moveWatch_get_self {wl : WL} {l : Lit} {idx : Nat} {nl : Lit} (h : nl.var ≠ l.var) :
    (moveWatch wl l idx nl).get (!l.pol) l.var = swapRemove (wl.get (!l.pol) l.var) idx := by
  unfold moveWatch
  rw [WL.get_push, if_neg (by intro e; exact h e.2.symm), WL.get_upd, if_pos ⟨rfl, rfl⟩]

theorem moveWatch_get_other {wl : WL} {l : Lit} {idx : Nat} {nl : Lit} {p : Bool} {v : Nat}
    (h1 : ¬ (p = (!l.pol) ∧ v = l.var)) (h2 : ¬ (p = nl.pol ∧ v = nl.var)) :
    (moveWatch wl l idx nl).get p v = wl.get p v := by
  unfold moveWatch
  rw [WL.get_push, if_neg h2, WL.get_upd, if_neg h1]

/-- the loop for `l` touches only the list of `¬l` and lists of unassigned variables -/
theorem LoopRel.frame {cnf rep wl m l idx wl' r} (h : LoopRel cnf rep wl m l idx wl' r) :
    ∀ p v, m v ≠ none → ¬ (p = (!l.pol) ∧ v = l.var) → wl'.get p v = wl.get p v := by
  induction h with
  | done _ => intros; rfl
  | skip _ _ _ ih => exact ih
  | conflict _ _ _ => intros; rfl
  | @unitConflict wl m l idx u wl' _ _ hf _ ih =>
    intro p v hv _
    have hu := mem_filter_unset hf
    have hne : v ≠ u.var := by intro e; rw [e] at hv; exact hv hu
    exact ih p v (by rw [pset_other _ _ hne]; exact hv) (fun e => hne e.2)
  | @unitOk wl m l idx u wl1 m1 wl' r _ _ hf h1 _ ih1 ih2 =>
    intro p v hv hn
    have hu := mem_filter_unset hf
    have hne : v ≠ u.var := by intro e; rw [e] at hv; exact hv hu
    have hv' : (m.set u.var u.pol) v ≠ none := by rw [pset_other _ _ hne]; exact hv
    have hv1 : m1 v ≠ none := by
      cases hm : m v with
      | none => exact absurd hm hv
      | some b =>
        have := (h1.ext _ rfl) v b (by rw [pset_other _ _ hne]; exact hm)
        rw [this]; simp
    rw [ih2 p v hv1 hn, ih1 p v hv' (fun e => hne e.2)]
  | @move wl m l idx cand second rest wl' r _ _ hf _ ih =>
    intro p v hv hn
    have hnl := (pickWatch_unset (rep := rep) (wl := wl) (l := l) (ci := curIdx wl l idx) hf).1
    rw [ih p v hv hn]
    exact moveWatch_get_other hn (fun e => by rw [e.2] at hv; exact hv hnl)

/-! ## the watch invariant -/

/-- clause `i` is in the watch list of literal `w` -/
def Watches (wl : WL) (i : Nat) (w : Lit) : Prop := i ∈ wl.get w.pol w.var

/-- every watch on a false literal, except watches on literals in `X`, belongs to a clause that has
a true literal -/
def WatchOKX (cnf : Cnf) (wl : WL) (m : PModel) (X : Lit → Prop) : Prop :=
  ∀ i w, Watches wl i w → ¬ X w → litFalse m w = true → (cnf.getD i []).any (litTrue m) = true

/-- the watch invariant for a partial model: a clause watching a false literal has a true literal -/
def WatchOK (cnf : Cnf) (wl : WL) (m : PModel) : Prop := WatchOKX cnf wl m (fun _ => False)

theorem lneg_var (l : Lit) : l.neg.var = l.var := rfl
theorem lneg_pol (l : Lit) : l.neg.pol = !l.pol := rfl

theorem lit_eq_neg {w l : Lit} (hv : w.var = l.var) (hp : w.pol = !l.pol) : w = l.neg := by
  cases w; cases l; simp_all [Lit.neg]

theorem lit_ext {w l : Lit} (hp : w.pol = l.pol) (hv : w.var = l.var) : w = l := by
  cases w; cases l; simp_all

/-- setting `l` makes only `¬l` newly false -/
theorem watchOKX_set {cnf : Cnf} {wl : WL} {m : PModel} {X : Lit → Prop} {l : Lit}
    (hn : m l.var = none) (h : WatchOKX cnf wl m X) :
    WatchOKX cnf wl (m.set l.var l.pol) (fun w => X w ∨ w = l.neg) := by
  intro i w hw hx hf
  have hf' := litFalse_iff.mp hf
  by_cases e : w.var = l.var
  · rw [e, pset_same] at hf'
    have hp : w.pol = !l.pol := by
      have : l.pol = !w.pol := by simpa using hf'
      rw [this]; simp
    exact absurd (.inr (lit_eq_neg e hp)) hx
  · rw [pset_other _ _ e] at hf'
    exact anyTrue_mono (PExt.set _ hn) (h i w hw (fun hX => hx (.inl hX)) (litFalse_iff.mpr hf'))

theorem curClause_congr {cnf : Cnf} {wl wl' : WL} {l : Lit} (k : Nat)
    (h : wl'.get (!l.pol) l.var = wl.get (!l.pol) l.var) :
    curClause cnf wl' l k = curClause cnf wl l k := by
  unfold curClause; rw [h]

/-- Main loop invariant: if all watches except those on `X` and on `¬l` are fine, and the watchers
of `¬l` at positions `< idx` have satisfied clauses, then on normal termination all watches
except those on `X` are fine. (Independent of the choice `pickWatch` makes.) -/
theorem LoopRel.watchOK {cnf rep wl m l idx wl' r} (h : LoopRel cnf rep wl m l idx wl' r) :
    ∀ (X : Lit → Prop), m l.var = some l.pol →
      WatchOKX cnf wl m (fun w => X w ∨ w = l.neg) →
      (∀ k, k < idx → (curClause cnf wl l k).any (litTrue m) = true) →
      ∀ m', r = some m' → WatchOKX cnf wl' m' X := by
  induction h with
  | @done wl m l idx hle =>
    intro X hl P2 P3 m' e i w hw hx hf
    cases e
    by_cases hwl : w = l.neg
    · subst hwl
      have hw' : i ∈ wl.get (!l.pol) l.var := hw
      obtain ⟨k, hk, e⟩ := List.mem_iff_getElem.mp hw'
      have := P3 k (by omega)
      have e2 : (wl.get (!l.pol) l.var).getD k 0 = i := by
        rw [List.getD_eq_getElem?_getD, List.getElem?_eq_getElem hk]; simpa using e
      unfold curClause at this
      rw [e2] at this
      exact this
    · exact P2 i w hw (fun h => h.elim hx hwl) hf
  | @skip wl m l idx wl' r _ hs _ ih =>
    intro X hl P2 P3
    refine ih X hl P2 ?_
    intro k hk
    by_cases e : k = idx
    · subst e; exact hs
    · exact P3 k (by omega)
  | conflict _ _ _ => intro X _ _ _ m' e; cases e
  | unitConflict _ _ _ _ _ => intro X _ _ _ m' e; cases e
  | @unitOk wl m l idx u wl1 m1 wl' r hlt hs hf h1 h2 ih1 ih2 =>
    intro X hl P2 P3
    have hu := mem_filter_unset hf
    have hext : PExt m m1 := (PExt.set _ hu).trans (h1.ext _ rfl)
    have hne : l.var ≠ u.var := by intro e; rw [e, hu] at hl; cases hl
    have hframe : wl1.get (!l.pol) l.var = wl.get (!l.pol) l.var :=
      h1.frame _ _ (by rw [pset_other _ _ hne, hl]; simp) (fun e => hne e.2)
    have inner := ih1 (fun w => X w ∨ w = l.neg) (pset_same _ _ _) (watchOKX_set hu P2)
      (fun k hk => by omega) m1 rfl
    refine ih2 X (hext _ _ hl) inner ?_
    intro k hk
    rw [curClause_congr k hframe]
    by_cases e : k = idx
    · subst e
      have humem : u ∈ curClause cnf wl l k := by
        have : u ∈ (curClause cnf wl l k).filter (litUnset m) := by rw [hf]; simp
        exact (List.mem_filter.mp this).1
      exact List.any_eq_true.mpr ⟨u, humem, litTrue_iff.mpr ((h1.ext _ rfl) _ _ (pset_same _ _ _))⟩
    · exact anyTrue_mono hext (P3 k (by omega))
  | @move wl m l idx cand second rest wl' r hlt hs hf _ ih =>
    intro X hl P2 P3
    have hnl := pickWatch_unset (rep := rep) (wl := wl) (l := l) (ci := curIdx wl l idx) hf
    have hne : (pickWatch rep wl l (curIdx wl l idx) cand second).var ≠ l.var := by
      intro e; rw [e, hl] at hnl; cases hnl.1
    refine ih X hl ?_ ?_
    · intro i w hw hx hfalse
      rcases mem_moveWatch hlt hw with hw | ⟨_, hp, hv⟩
      · exact P2 i w hw hx hfalse
      · have := litFalse_iff.mp hfalse
        rw [hv, hnl.1] at this; cases this
    · intro k hk
      have := P3 k hk
      unfold curClause at this ⊢
      rw [moveWatch_get_self hne, swapRemove_getD_lt _ _ _ hlt hk]
      exact this

theorem DecideRel.watchOK {cnf rep wl m l wl' m'} (h : DecideRel cnf rep wl m l wl' (some m'))
    (X : Lit → Prop) (hok : WatchOKX cnf wl m X) : WatchOKX cnf wl' m' X := by
  cases h with
  | same _ => exact hok
  | fresh hn h =>
    exact h.watchOK X (pset_same _ _ _) (watchOKX_set hn hok) (fun k hk => by omega) m' rfl

/-- new watches are only placed on literals that are unassigned in the model the call started from -/
theorem LoopRel.newWatches {cnf rep wl m l idx wl' r} (h : LoopRel cnf rep wl m l idx wl' r) :
    ∀ i w, Watches wl' i w → Watches wl i w ∨ m w.var = none := by
  induction h with
  | done _ => intro i w h; exact .inl h
  | skip _ _ _ ih => exact ih
  | conflict _ _ _ => intro i w h; exact .inl h
  | @unitConflict wl m l idx u wl' _ _ hf _ ih =>
    intro i w hw
    rcases ih i w hw with h | h
    · exact .inl h
    · refine .inr ?_
      by_cases e : w.var = u.var
      · rw [e, pset_same] at h; cases h
      · rwa [pset_other _ _ e] at h
  | @unitOk wl m l idx u wl1 m1 wl' r _ _ hf h1 _ ih1 ih2 =>
    intro i w hw
    have hu := mem_filter_unset hf
    have hext : PExt m m1 := (PExt.set _ hu).trans (h1.ext _ rfl)
    have hnone : m1 w.var = none → m w.var = none := by
      intro h
      cases hm : m w.var with
      | none => rfl
      | some b => rw [hext _ _ hm] at h; cases h
    rcases ih2 i w hw with h | h
    · rcases ih1 i w h with h | h
      · exact .inl h
      · refine .inr ?_
        by_cases e : w.var = u.var
        · rw [e, pset_same] at h; cases h
        · rwa [pset_other _ _ e] at h
    · exact .inr (hnone h)
  | @move wl m l idx cand second rest wl' r hlt _ hf _ ih =>
    intro i w hw
    have hnl := pickWatch_unset (rep := rep) (wl := wl) (l := l) (ci := curIdx wl l idx) hf
    rcases ih i w hw with h | h
    · rcases mem_moveWatch hlt h with h | ⟨_, _, hv⟩
      · exact .inl h
      · exact .inr (by rw [hv]; exact hnl.1)
    · exact .inr h

theorem DecideRel.newWatches {cnf rep wl m l wl' r} (h : DecideRel cnf rep wl m l wl' r) :
    ∀ i w, Watches wl' i w → Watches wl i w ∨ m w.var = none := by
  cases h with
  | same _ => intro i w h; exact .inl h
  | clash _ => intro i w h; exact .inl h
  | fresh hn h =>
    intro i w hw
    rcases h.newWatches i w hw with h | h
    · exact .inl h
    · refine .inr ?_
      by_cases e : w.var = l.var
      · rw [e, pset_same] at h; cases h
      · rwa [pset_other _ _ e] at h

/-- the watch invariant of a model below the one a call started from survives the call, whatever
its outcome (also `UNSAT`, which leaves the lists partially updated) -/
theorem WatchOK.lower {cnf : Cnf} {wl wl' : WL} {m mj : PModel}
    (hnew : ∀ i w, Watches wl' i w → Watches wl i w ∨ m w.var = none)
    (hle : PExt mj m) (hok : WatchOK cnf wl mj) : WatchOK cnf wl' mj := by
  intro i w hw hx hf
  rcases hnew i w hw with h | h
  · exact hok i w h hx hf
  · have := hle _ _ (litFalse_iff.mp hf)
    rw [h] at this; cases this

end UnitProp
