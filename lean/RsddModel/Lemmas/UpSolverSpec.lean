import RsddModel.Model.UpSolver
import RsddModel.Lemmas.TopDownSolver
import RsddModel.Props.C09
/-!
# The mirrored real `SATSolver` satisfies the solver contract of the top-down compiler (C06)

`TopDown.UpSolver` (`Model/UpSolver.lean`) is the executable model of `SATSolver`/`UnitPropagate`
behind the abstract solver interface of the compiler model.  This file proves that it satisfies
the contract `TopDown.SolverSpec` (+ `NewSpec`, `FreeDecide`, and — under the explicit no-wrap
hypothesis — `HashSound`) for every clause list in `Cnf::new` normal form.

* valid states: `UpInv cnf s := ∃ ds, Reach cnf s ds` (everything reachable from
  `SATSolver::new(cnf)` by decides and matching pops);
* frames: one per `SatState` of the stack (the dummy bottom state included);
* the specification is about `ntCnf cnf`, the NON-tautological clauses of `cnf` (same models:
  `cnfSat_ntCnf`); `SATSolver::new` is called on `cnf` itself.

Why the contract of `Lemmas/TopDownSolver.lean` is weak in three places (`Var`, `pop_ok` above the
bottom only, `cnf0` ≠ `cnf`): see the three witnesses at the end of this file.
-/
namespace TopDown
open Spec

/-! ## tautological clauses -/

/-- the non-tautological clauses: what `SATSolver::new` hashes and counts -/
def ntCnf (cnf : Cnf) : Cnf := cnf.filter fun c => !UnitProp.isTaut c

theorem isTaut_iff {c : Clause} :
    UnitProp.isTaut c = true ↔ ∃ x ∈ c, ∃ y ∈ c, x.var = y.var ∧ x.pol ≠ y.pol := by
  unfold UnitProp.isTaut
  simp only [List.any_eq_true, Bool.and_eq_true, beq_iff_eq, bne_iff_ne, ne_eq]

theorem taut_sat {c : Clause} (h : UnitProp.isTaut c = true) (a : Assign) : clauseSat a c = true := by
  obtain ⟨x, hx, y, hy, hv, hp⟩ := isTaut_iff.1 h
  simp only [clauseSat, List.any_eq_true]
  by_cases e : a x.var = x.pol
  · exact ⟨x, hx, by simp [litSat, e]⟩
  · refine ⟨y, hy, ?_⟩
    simp only [litSat, beq_iff_eq]
    rw [← hv]
    cases h1 : a x.var <;> cases h2 : x.pol <;> cases h3 : y.pol <;> simp_all

/-- dropping the tautological clauses does not change the models -/
theorem cnfSat_ntCnf (a : Assign) (cnf : Cnf) : cnfSat a (ntCnf cnf) = cnfSat a cnf := by
  induction cnf with
  | nil => rfl
  | cons c cs ih =>
    unfold ntCnf at ih ⊢
    simp only [List.filter_cons]
    cases ht : UnitProp.isTaut c
    · simp only [Bool.not_false, if_true, cnfSat, List.all_cons] at ih ⊢
      rw [ih]
    · simp only [Bool.not_true, Bool.false_eq_true, if_false, cnfSat, List.all_cons] at ih ⊢
      rw [ih, taut_sat ht a, Bool.true_and]

theorem mem_ntCnf {cnf : Cnf} {c : Clause} : c ∈ ntCnf cnf ↔ c ∈ cnf ∧ UnitProp.isTaut c = false := by
  simp [ntCnf, List.mem_filter]

/-- a clause list without tautological clauses is its own non-tautological part -/
theorem ntCnf_eq_self {cnf : Cnf} (h : ∀ c, c ∈ cnf → UnitProp.isTaut c = false) : ntCnf cnf = cnf := by
  unfold ntCnf
  rw [List.filter_eq_self]
  intro c hc
  rw [h c hc]; rfl

theorem InCnf_ntCnf {cnf : Cnf} {v : Nat} (h : InCnf (ntCnf cnf) v) : InCnf cnf v := by
  obtain ⟨c, hc, l, hl, e⟩ := h
  exact ⟨c, (mem_ntCnf.1 hc).1, l, hl, e⟩

/-- a tautological clause without a true literal has two different unassigned literals -/
theorem taut_two_unset {c : Clause} {m : PModel} (ht : UnitProp.isTaut c = true)
    (hs : c.any (litTrue m) = false) :
    ∃ x ∈ c.filter (litUnset m), ∃ y ∈ c.filter (litUnset m), x ≠ y := by
  obtain ⟨x, hx, y, hy, hv, hp⟩ := isTaut_iff.1 ht
  have hnt : ∀ z ∈ c, litTrue m z = false := by
    intro z hz
    cases h : litTrue m z
    · rfl
    · have : c.any (litTrue m) = true := List.any_eq_true.2 ⟨z, hz, h⟩
      rw [hs] at this; cases this
  have hxu : m x.var = none := by
    have h1 := hnt x hx
    have h2 := hnt y hy
    simp only [litTrue, beq_eq_false_iff_ne, ne_eq] at h1 h2
    rw [← hv] at h2
    cases hm : m x.var with
    | none => rfl
    | some b =>
      exfalso
      rw [hm] at h1 h2
      cases b <;> cases h3 : x.pol <;> cases h4 : y.pol <;> simp_all
  refine ⟨x, List.mem_filter.2 ⟨hx, by simp [litUnset, hxu]⟩, y,
    List.mem_filter.2 ⟨hy, by simp [litUnset, ← hv, hxu]⟩, ?_⟩
  intro e; subst e; exact hp rfl

/-! ## frames and validity -/

/-- the abstract view of one `SatState` of a solver with `n` hashed clauses -/
def upFrame (n : Nat) (st : UnitProp.SatState) : Frame UpSolver.κ :=
  ⟨st.model, st.hash, decide (UnitProp.satCount n st.sat = n)⟩

/-- the state stack, top first (the dummy bottom state included) -/
def upFrames (s : UnitProp.Solver) : List (Frame UpSolver.κ) := s.stack.map (upFrame s.clauses.length)

/-- valid states: reachable from `SATSolver::new(cnf)` by decides and matching pops -/
def UpInv (cnf : Cnf) (s : UnitProp.Solver) : Prop := ∃ ds, UnitProp.Reach cnf s ds

theorem upFrames_cons {s : UnitProp.Solver} {f : Frame UpSolver.κ} {rest : List (Frame UpSolver.κ)}
    (h : upFrames s = f :: rest) :
    ∃ top srest, s.stack = top :: srest ∧ f = upFrame s.clauses.length top ∧
      rest = srest.map (upFrame s.clauses.length) := by
  unfold upFrames at h
  cases hs : s.stack with
  | nil => rw [hs] at h; cases h
  | cons top srest =>
    rw [hs] at h
    simp only [List.map_cons, List.cons.injEq] at h
    exact ⟨top, srest, rfl, h.1.symm, h.2.symm⟩

theorem upFrames_cons2 {s : UnitProp.Solver} {f1 f0 : Frame UpSolver.κ} {rest : List (Frame UpSolver.κ)}
    (h : upFrames s = f1 :: f0 :: rest) :
    ∃ top below srest, s.stack = top :: below :: srest ∧ f1 = upFrame s.clauses.length top ∧
      f0 = upFrame s.clauses.length below ∧ rest = srest.map (upFrame s.clauses.length) := by
  obtain ⟨top, srest, hs, e1, e2⟩ := upFrames_cons h
  cases srest with
  | nil => cases e2
  | cons below srest' =>
    simp only [List.map_cons, List.cons.injEq] at e2
    exact ⟨top, below, srest', hs, e1, e2.1, e2.2⟩

/-- what a reachable state knows about its top state -/
theorem reach_level {cnf : Cnf} {s : UnitProp.Solver} {ds : List Lit} (h : UnitProp.Reach cnf s ds)
    {top : UnitProp.SatState} {srest : List UnitProp.SatState} (hs : s.stack = top :: srest) :
    UnitProp.LevelOK cnf s.clauses s.numVars top ds := by
  obtain ⟨top', rest', hst', _, hlev⟩ := UnitProp.reach_top h
  rw [hs] at hst'; cases hst'
  exact hlev

/-! ## the observers -/

theorem up_obs_sat {s : UnitProp.Solver} {f : Frame UpSolver.κ} {rest} (hfr : upFrames s = f :: rest) :
    UpSolver.isSat s = f.sat := by
  obtain ⟨top, srest, hs, rfl, _⟩ := upFrames_cons hfr
  show (UnitProp.Solver.isSat s).getD false = _
  simp [UnitProp.Solver.isSat, hs, upFrame]

theorem up_obs_hash {s : UnitProp.Solver} {f : Frame UpSolver.κ} {rest} (hfr : upFrames s = f :: rest) :
    UpSolver.curHash s = f.hash := by
  obtain ⟨top, srest, hs, rfl, _⟩ := upFrames_cons hfr
  show (UnitProp.Solver.curHash s).getD 0 = _
  simp [UnitProp.Solver.curHash, hs, upFrame]

theorem up_obs_set {s : UnitProp.Solver} {f : Frame UpSolver.κ} {rest} (hfr : upFrames s = f :: rest)
    (v : Nat) : UpSolver.isSet s v = (f.model v).isSome := by
  obtain ⟨top, srest, hs, rfl, _⟩ := upFrames_cons hfr
  show (UnitProp.Solver.isSet s v).getD false = _
  simp [UnitProp.Solver.isSet, hs, upFrame]

theorem up_isSat_iff {s : UnitProp.Solver} {top : UnitProp.SatState} {srest}
    (hs : s.stack = top :: srest) :
    s.isSat = some true ↔ (upFrame s.clauses.length top).sat = true := by
  simp [UnitProp.Solver.isSat, hs, upFrame]

/-! ## (d) and (c): `is_sat`, total models -/

theorem up_sat_sound {cnf : Cnf} {s : UnitProp.Solver} {f : Frame UpSolver.κ} {rest}
    (hI : UpInv cnf s) (hfr : upFrames s = f :: rest) (hsat : f.sat = true) :
    ∀ a, Extends a f.model → cnfSat a (ntCnf cnf) = true := by
  obtain ⟨ds, hR⟩ := hI
  obtain ⟨top, srest, hs, rfl, _⟩ := upFrames_cons hfr
  have hall := (UnitProp.satflag_exact hR hs).1 ((up_isSat_iff hs).2 hsat)
  intro a ha
  simp only [cnfSat, List.all_eq_true]
  intro c hc
  obtain ⟨hc1, hc2⟩ := mem_ntCnf.1 hc
  exact clauseSat_of_litTrue ha (hall c hc1 hc2)

theorem up_total_sound {cnf : Cnf} (hN : UnitProp.CnfNormal cnf) {s : UnitProp.Solver}
    {f : Frame UpSolver.κ} {rest}
    (hI : UpInv cnf s) (hfr : upFrames s = f :: rest)
    (htot : ∀ v, InCnf (ntCnf cnf) v → f.model v ≠ none) :
    ∀ a, Extends a f.model → cnfSat a (ntCnf cnf) = true := by
  obtain ⟨ds, hR⟩ := hI
  obtain ⟨top, srest, hs, rfl, _⟩ := upFrames_cons hfr
  have hfix := UnitProp.history_fixpoint hN hR hs
  intro a ha
  simp only [cnfSat, List.all_eq_true]
  intro c hc
  obtain ⟨hc1, hc2⟩ := mem_ntCnf.1 hc
  have hnf := (hfix c hc1).1
  -- some literal of `c` is not false; it is assigned; so it is true
  have : ∃ l ∈ c, litFalse top.model l = false := by
    cases hall : c.all (litFalse top.model)
    · simp only [List.all_eq_false] at hall
      obtain ⟨l, hl, h⟩ := hall
      exact ⟨l, hl, by simpa using h⟩
    · unfold clauseFalsified at hnf; rw [hnf] at hall; cases hall
  obtain ⟨l, hl, hlf⟩ := this
  have hset : top.model l.var ≠ none := htot l.var ⟨c, hc, l, hl, rfl⟩
  have hlt : litTrue top.model l = true := by
    rcases UnitProp.lit_cases top.model l with h | h | h
    · exact h
    · rw [h] at hlf; cases hlf
    · exact absurd (UnitProp.litUnset_iff.1 h) hset
  exact clauseSat_of_litTrue ha (List.any_eq_true.2 ⟨l, hl, hlt⟩)

/-! ## `difference_iter` -/

theorem up_difference {s : UnitProp.Solver} {top below : UnitProp.SatState} {srest}
    (hs : s.stack = top :: below :: srest) :
    UpSolver.difference s = UnitProp.pmDifference s.numVars top.model below.model := by
  show (UnitProp.Solver.differenceIter s).getD [] = _
  simp [UnitProp.Solver.differenceIter, hs]

/-- the model below the top one is extended by it -/
theorem reach_below {cnf : Cnf} {s : UnitProp.Solver} {ds : List Lit} (h : UnitProp.Reach cnf s ds)
    {top below : UnitProp.SatState} {srest} (hs : s.stack = top :: below :: srest) :
    PExt below.model top.model := by
  obtain ⟨hI, _⟩ := UnitProp.reach_inv h
  exact hI.stack.pext_top top (below :: srest) hs below (by rw [hs]; simp)

theorem up_diff_sound {cnf : Cnf} {s : UnitProp.Solver} {f1 f0 : Frame UpSolver.κ} {rest}
    (hI : UpInv cnf s) (hfr : upFrames s = f1 :: f0 :: rest) :
    ∀ l ∈ UpSolver.difference s, f0.model l.var = none ∧ f1.model l.var = some l.pol := by
  obtain ⟨ds, hR⟩ := hI
  obtain ⟨top, below, srest, hs, rfl, rfl, _⟩ := upFrames_cons2 hfr
  intro l hl
  rw [up_difference hs, UnitProp.mem_pmDifference] at hl
  refine ⟨?_, hl.2.1⟩
  show below.model l.var = none
  cases hb : below.model l.var with
  | none => rfl
  | some b =>
    have := reach_below hR hs _ _ hb
    rw [hl.2.1] at this
    cases this
    exact absurd hb hl.2.2

theorem up_diff_complete {cnf : Cnf} {s : UnitProp.Solver} {f1 f0 : Frame UpSolver.κ} {rest}
    (hI : UpInv cnf s) (hfr : upFrames s = f1 :: f0 :: rest) :
    ∀ v b, f1.model v = some b → f0.model v = none → (⟨v, b⟩ : Lit) ∈ UpSolver.difference s := by
  obtain ⟨ds, hR⟩ := hI
  obtain ⟨top, below, srest, hs, rfl, rfl, _⟩ := upFrames_cons2 hfr
  intro v b h1 h0
  rw [up_difference hs, UnitProp.mem_pmDifference]
  have h1' : top.model v = some b := h1
  have h0' : below.model v = none := h0
  refine ⟨(reach_level hR hs).bounded v (by rw [h1']; simp), h1', by rw [h0']; simp⟩

theorem up_diff_nodup {cnf : Cnf} {s : UnitProp.Solver} {f1 f0 : Frame UpSolver.κ} {rest}
    (hI : UpInv cnf s) (hfr : upFrames s = f1 :: f0 :: rest) :
    ((UpSolver.difference s).map (·.var)).Nodup := by
  have hsound := up_diff_sound hI hfr
  obtain ⟨top, below, srest, hs, rfl, rfl, _⟩ := upFrames_cons2 hfr
  rw [up_difference hs] at hsound ⊢
  have hnd := UnitProp.nodup_pmDifference s.numVars top.model below.model
  rw [List.nodup_iff_pairwise_ne] at hnd ⊢
  rw [List.pairwise_map]
  refine List.Pairwise.imp_of_mem ?_ hnd
  intro a b ha hb hne e
  apply hne
  have h1 := (hsound a ha).2
  have h2 := (hsound b hb).2
  rw [e] at h1
  have : some a.pol = some b.pol := h1.symm.trans h2
  cases a; cases b
  simp only [Option.some.injEq] at this
  simp_all

/-! ## relevance of propagated variables -/

/-- a clause that became unit is not tautological -/
theorem unit_not_taut {c : Clause} {m : PModel} {u : Lit} (hs : c.any (litTrue m) = false)
    (hf : c.filter (litUnset m) = [u]) : UnitProp.isTaut c = false := by
  cases ht : UnitProp.isTaut c
  · rfl
  · obtain ⟨x, hx, y, hy, hne⟩ := taut_two_unset ht hs
    rw [hf] at hx hy
    simp only [List.mem_singleton] at hx hy
    exact absurd (hx.trans hy.symm) hne

/-- every variable the watcher loop assigns occurs in the residual (of the non-tautological
clauses) under the model the loop started with: it was the last unassigned literal of a clause
without a true literal -/
theorem loop_relevant {cnf rep wl m l idx wl' r} (h : UnitProp.LoopRel cnf rep wl m l idx wl' r)
    (hv : UnitProp.WatchValid cnf wl) :
    ∀ m', r = some m' → ∀ x, m' x ≠ none → m x = none → InCnf (residual (ntCnf cnf) m) x := by
  induction h with
  | done _ => intro m' e x hx h0; cases e; exact absurd h0 hx
  | skip _ _ _ ih => exact ih hv
  | conflict _ _ _ => intro m' e; cases e
  | unitConflict _ _ _ _ _ => intro m' e; cases e
  | @unitOk wl m l idx u wl1 m1 wl' r hlt hs hf h1 _ ih1 ih2 =>
    intro m' e x hx h0
    have hu0 : m u.var = none := UnitProp.mem_filter_unset hf
    have hext1 : PExt (m.set u.var u.pol) m1 := h1.ext _ rfl
    have hext0 : PExt m (m.set u.var u.pol) := PExt_set _ hu0
    by_cases hm1 : m1 x = none
    · exact residual_mono (hext0.trans hext1) (ih2 (h1.valid hv) m' e x hx hm1)
    · by_cases ex : x = u.var
      · subst ex
        have humem : u ∈ UnitProp.curClause cnf wl l idx := by
          have : u ∈ (UnitProp.curClause cnf wl l idx).filter (litUnset m) := by rw [hf]; simp
          exact (List.mem_filter.mp this).1
        refine InCnf_residual.2 ⟨_, mem_ntCnf.2 ⟨UnitProp.curClause_mem hv hlt, unit_not_taut hs hf⟩,
          hs, u, humem, ?_, rfl⟩
        simp [litFalse, hu0]
      · have h0' : (m.set u.var u.pol) x = none := by rw [UnitProp.pset_other _ _ ex]; exact h0
        exact residual_mono hext0 (ih1 hv m1 rfl x hm1 h0')
  | move hlt _ _ _ ih => exact ih (hv.moveWatch hlt)

theorem decide_relevant {cnf rep wl m l wl' m'} (h : UnitProp.DecideRel cnf rep wl m l wl' (some m'))
    (hv : UnitProp.WatchValid cnf wl) (hl : m l.var = none) :
    ∀ x, m' x ≠ none → m x = none → x = l.var ∨ InCnf (residual (ntCnf cnf) m) x := by
  cases h with
  | same h => rw [hl] at h; cases h
  | fresh _ h =>
    intro x hx h0
    by_cases ex : x = l.var
    · exact .inl ex
    · right
      have h0' : (m.set l.var l.pol) x = none := by rw [UnitProp.pset_other _ _ ex]; exact h0
      exact residual_mono (PExt_set _ hl) (loop_relevant h hv m' rfl x hx h0')

/-! ## `decide` -/

/-- `DecisionResult` of the propagator model ↦ `DecideResult` of the compiler model -/
def tagOf : UnitProp.DecisionResult → DecideResult
  | .sat => .sat | .unsat => .unsat | .unknown => .unknown

theorem up_decide_eq {s s' : UnitProp.Solver} {l : Lit} {r : UnitProp.DecisionResult}
    (h : s.decide l = .ok s' r) : UpSolver.decide s l = (tagOf r, s') := by
  show (match s.decide l with
    | .ok s' .sat => (DecideResult.sat, s')
    | .ok s' .unsat => (.unsat, s')
    | .ok s' .unknown => (.unknown, s')
    | .error => (.unsat, s)) = _
  rw [h]
  cases r <;> rfl

theorem tagOf_unsat {r : UnitProp.DecisionResult} : tagOf r = .unsat ↔ r = .unsat := by
  cases r <;> simp [tagOf]

theorem tagOf_sat {r : UnitProp.DecisionResult} : tagOf r = .sat ↔ r = .sat := by
  cases r <;> simp [tagOf]

/-- the range of decidable variables: labels below `num_vars` -/
def UpVar (cnf : Cnf) (v : Nat) : Prop := v < cnfNumVars cnf

theorem reach_numVars {cnf : Cnf} {s : UnitProp.Solver} {ds : List Lit} (h : UnitProp.Reach cnf s ds) :
    s.numVars = cnfNumVars cnf := by
  obtain ⟨hI, e⟩ := UnitProp.reach_inv h
  rw [hI.numVars, e]

/-- an assignment extending the top model plus a fresh decision satisfies all open decisions -/
theorem extends_decisions {cnf : Cnf} {s : UnitProp.Solver} {ds : List Lit} (hR : UnitProp.Reach cnf s ds)
    {top : UnitProp.SatState} {srest} (hs : s.stack = top :: srest) {l : Lit}
    (hl0 : top.model l.var = none) {a : Assign} (ha : Extends a (top.model.set l.var l.pol)) :
    ∀ d, d ∈ l :: ds → litSat a d = true := by
  intro d hd
  rcases List.mem_cons.1 hd with e | hd
  · subst e
    have := ha d.var d.pol (by simp [PModel.set])
    simp [litSat, this]
  · have hdm := UnitProp.history_decisions_hold hR hs d hd
    by_cases e : d.var = l.var
    · rw [e, hl0] at hdm; cases hdm
    · have := ha d.var d.pol (by simp [PModel.set, e, hdm])
      simp [litSat, this]


theorem frames_of_stack {s s' : UnitProp.Solver} (h1 : s'.stack = s.stack) (h2 : s'.clauses = s.clauses) :
    upFrames s' = upFrames s := by
  unfold upFrames; rw [h1, h2]

/-- (b) UNSAT: nothing is pushed; no extension of model + literal satisfies the clauses -/
theorem up_decide_unsat {cnf : Cnf} (hN : UnitProp.CnfNormal cnf) {s : UnitProp.Solver}
    {f0 : Frame UpSolver.κ} {rest} {l : Lit}
    (hI : UpInv cnf s) (hfr : upFrames s = f0 :: rest) (hvar : UpVar cnf l.var)
    (hl0 : f0.model l.var = none) (hun : (UpSolver.decide s l).1 = .unsat) :
    UpInv cnf (UpSolver.decide s l).2 ∧ upFrames (UpSolver.decide s l).2 = f0 :: rest ∧
    UnsatUnder (ntCnf cnf) (f0.model.set l.var l.pol) := by
  obtain ⟨ds, hR⟩ := hI
  obtain ⟨s', r, hd⟩ := UnitProp.history_decide_total hN hR l
  rw [up_decide_eq hd] at hun ⊢
  have hr : r = .unsat := tagOf_unsat.1 hun
  subst hr
  obtain ⟨top, srest, hs, rfl, _⟩ := upFrames_cons hfr
  have hlt : l.var < s.numVars := by rw [reach_numVars hR]; exact hvar
  refine ⟨⟨ds, .decideUnsat hR hlt hd⟩, ?_, ?_⟩
  · show upFrames s' = _
    rw [frames_of_stack (UnitProp.unsat_keeps_stack hR hd) (UnitProp.decide_static hd).2.2.1, hfr]
  · intro a ha
    rw [cnfSat_ntCnf]
    exact UnitProp.history_unsat_sound hR hd a (extends_decisions hR hs hl0 ha)

/-- (a) not UNSAT: one state is pushed -/
theorem up_decide_ok {cnf : Cnf} (hN : UnitProp.CnfNormal cnf) {s : UnitProp.Solver}
    {f0 : Frame UpSolver.κ} {rest} {l : Lit}
    (hI : UpInv cnf s) (hfr : upFrames s = f0 :: rest) (hvar : UpVar cnf l.var)
    (hl0 : f0.model l.var = none) (hok : (UpSolver.decide s l).1 ≠ .unsat) :
    ∃ f1, UpInv cnf (UpSolver.decide s l).2 ∧ upFrames (UpSolver.decide s l).2 = f1 :: f0 :: rest ∧
      PExt (f0.model.set l.var l.pol) f1.model ∧
      (∀ v b, f1.model v = some b → f0.model v = none →
        Entails (ntCnf cnf) (f0.model.set l.var l.pol) ⟨v, b⟩) ∧
      (∀ v, f1.model v ≠ none → f0.model v = none →
        v = l.var ∨ InCnf (residual (ntCnf cnf) f0.model) v) ∧
      ((UpSolver.decide s l).1 = .sat ↔ f1.sat = true) := by
  obtain ⟨ds, hR⟩ := hI
  obtain ⟨s', r, hd⟩ := UnitProp.history_decide_total hN hR l
  rw [up_decide_eq hd] at hok ⊢
  have hr : r ≠ .unsat := fun e => hok (tagOf_unsat.2 e)
  obtain ⟨top, srest, hs, rfl, _⟩ := upFrames_cons hfr
  have hlt : l.var < s.numVars := by rw [reach_numVars hR]; exact hvar
  have hR' : UnitProp.Reach cnf s' (l :: ds) := .decide hR hlt hd hr
  obtain ⟨hInv, hcnf⟩ := UnitProp.reach_inv hR
  obtain ⟨top', srest', hs', wl', r', hrel, hcase⟩ := UnitProp.decide_cases hd
  rw [hs] at hs'; cases hs'
  rcases hcase with ⟨_, h2, _⟩ | ⟨m', rfl, rfl, _⟩
  · exact absurd h2 hr
  · have hstk : ({ s with wl := wl', stack := UnitProp.pushState s top m' :: s.stack } : UnitProp.Solver).stack
        = UnitProp.pushState s top m' :: top :: srest := by rw [← hs]
    refine ⟨upFrame s.clauses.length (UnitProp.pushState s top m'), ⟨_, hR'⟩, ?_, ?_, ?_, ?_, ?_⟩
    · show upFrames _ = _
      unfold upFrames
      rw [hstk, ← hfr]
      unfold upFrames
      rw [hs]; rfl
    · -- the new model extends model + literal
      have hext := hrel.ext
      intro x b hx
      show m' x = some b
      by_cases e : x = l.var
      · subst e
        simp only [PModel.set, if_true] at hx
        cases hx; exact hext.2
      · simp only [PModel.set, e, if_false] at hx
        exact hext.1 x b hx
    · -- entailed
      intro v b hv _ a ha hsat
      have := UnitProp.history_sound hR' hstk v b hv a (by rw [← cnfSat_ntCnf]; exact hsat)
        (extends_decisions hR hs hl0 ha)
      exact this
    · -- relevance
      intro v hv h0
      rw [← hcnf]
      exact decide_relevant hrel hInv.valid hl0 v hv h0
    · -- the sat flag
      rw [tagOf_sat, UnitProp.decide_result_sat_iff hd hr, up_isSat_iff hstk]

/-! ## (e) `pop` -/

theorem up_pop_ok {cnf : Cnf} {s : UnitProp.Solver} {f1 f0 : Frame UpSolver.κ} {rest}
    (hI : UpInv cnf s) (hfr : upFrames s = f1 :: f0 :: rest) (hrest : rest ≠ []) :
    UpInv cnf (UpSolver.pop s) ∧ upFrames (UpSolver.pop s) = f0 :: rest := by
  obtain ⟨ds, hR⟩ := hI
  obtain ⟨top, below, srest, hs, rfl, rfl, rfl⟩ := upFrames_cons2 hfr
  have hlen := (UnitProp.reach_inv hR).1.stack.length
  cases ds with
  | nil =>
    exfalso
    rw [hs] at hlen
    cases srest with
    | nil => exact hrest rfl
    | cons _ _ => simp at hlen
  | cons d ds' =>
    refine ⟨⟨ds', .pop hR⟩, ?_⟩
    show upFrames s.pop = _
    unfold upFrames UnitProp.Solver.pop
    simp only [hs, List.tail_cons, List.map_cons]

/-! ## the specification instance -/

/-- **the mirrored `SATSolver` satisfies the solver contract**, for the
non-tautological clauses of every clause list in `Cnf::new` normal form -/
def upSpec (cnf : Cnf) (hN : UnitProp.CnfNormal cnf) : SolverSpec (ntCnf cnf) UpSolver where
  Inv := UpInv cnf
  frames := upFrames
  Var := UpVar cnf
  obs_sat := fun _ _ _ _ hfr => up_obs_sat hfr
  obs_hash := fun _ _ _ _ hfr => up_obs_hash hfr
  obs_set := fun _ _ _ _ hfr => up_obs_set hfr
  sat_sound := fun _ _ _ hI hfr hsat => up_sat_sound hI hfr hsat
  total_sound := fun _ _ _ hI hfr htot => up_total_sound hN hI hfr htot
  diff_nodup := fun _ _ _ _ hI hfr => up_diff_nodup hI hfr
  diff_sound := fun _ _ _ _ hI hfr => up_diff_sound hI hfr
  diff_complete := fun _ _ _ _ hI hfr => up_diff_complete hI hfr
  decide_unsat := fun _ _ _ _ hI hfr hvar hl0 hun => up_decide_unsat hN hI hfr hvar hl0 hun
  decide_ok := fun _ _ _ _ hI hfr hvar hl0 hok => up_decide_ok hN hI hfr hvar hl0 hok
  pop_ok := fun _ _ _ _ hI hfr hrest => up_pop_ok hI hfr hrest

theorem upSpec_modelOf {cnf : Cnf} (hN : UnitProp.CnfNormal cnf) {s : UnitProp.Solver}
    {top : UnitProp.SatState} {srest} (hs : s.stack = top :: srest) :
    (upSpec cnf hN).modelOf s = top.model := by
  have : (upSpec cnf hN).frames s = upFrame s.clauses.length top :: srest.map (upFrame s.clauses.length) := by
    show upFrames s = _
    unfold upFrames; rw [hs]; rfl
  rw [(upSpec cnf hN).modelOf_eq this]; rfl

/-! ## `SATSolver::new` -/

theorem up_new_eq_some {cnf : Cnf} {n : Nat} {s : UnitProp.Solver} (h : UpSolver.new cnf n = some s) :
    UnitProp.Solver.new cnf = some (some s) := by
  have h' : (match UnitProp.Solver.new cnf with
    | some (some s) => some s
    | _ => none) = some s := h
  split at h'
  · next s' e => cases h'; exact e
  · cases h'

theorem up_new_eq_none {cnf : Cnf} (hN : UnitProp.CnfNormal cnf) {n : Nat} (h : UpSolver.new cnf n = none) :
    UnitProp.Solver.new cnf = some none := by
  have h' : (match UnitProp.Solver.new cnf with
    | some (some s) => some s
    | _ => none) = none := h
  obtain ⟨o, ho⟩ := UnitProp.new_total_normal hN
  rw [ho] at h' ⊢
  cases o with
  | none => rfl
  | some s => cases h'

/-- **`SATSolver::new`**: `None` only for unsatisfiable clause lists; otherwise a valid state
with the propagated model above the empty dummy state, every assigned literal entailed -/
theorem up_newSpec (cnf : Cnf) (hN : UnitProp.CnfNormal cnf) (n : Nat) :
    NewSpec (upSpec cnf hN) cnf n where
  none_unsat := by
    intro h a
    rw [cnfSat_ntCnf]
    exact UnitProp.new_unsat_sound (up_new_eq_none hN h) a
  some_ok := by
    intro s h
    have hnew := up_new_eq_some h
    have hR : UnitProp.Reach cnf s [] := .init hnew
    obtain ⟨hI, hcnf⟩ := UnitProp.reach_inv hR
    have hstk := hI.stack
    generalize hst : s.stack = stk at hstk
    cases hstk with
    | @base st hlev =>
      refine ⟨upFrame s.clauses.length st, upFrame s.clauses.length UnitProp.initState, ⟨[], hR⟩, ?_, ?_, ?_⟩
      · show upFrames s = _
        unfold upFrames; rw [hst]; rfl
      · intro v; rfl
      · intro v b hv a hsat
        have := hlev.entailed v b hv a (by rw [hcnf, ← cnfSat_ntCnf]; exact hsat) (by intro d hd; cases hd)
        simpa [litSat] using this

/-! ## (f) the hash clause, conditional on no wrap-around -/

/-- without wrap-around, equal hashes mean: the same clauses are satisfied and, in the others,
the same literal occurrences are false (the per-clause content of `UnitProp.hash_inj_of_nowrap`) -/
theorem hash_inj_clauses {clauses : List UnitProp.WClause} (hw : UnitProp.WeightsOK clauses)
    (hT : UnitProp.totalWeight clauses < UnitProp.M128) {m m' : PModel}
    (hf : UnitProp.NoFalsified clauses m) (hf' : UnitProp.NoFalsified clauses m')
    (he : UnitProp.hashOf clauses m % UnitProp.M128 = UnitProp.hashOf clauses m' % UnitProp.M128) :
    ∀ c, c ∈ clauses → UnitProp.wcSat m c = UnitProp.wcSat m' c ∧
      (UnitProp.wcSat m c = false → ∀ lw, lw ∈ c → litFalse m lw.1 = litFalse m' lw.1) := by
  have e : UnitProp.hashOf clauses m = UnitProp.hashOf clauses m' := by
    rw [Nat.mod_eq_of_lt (Nat.lt_of_le_of_lt (UnitProp.hashOf_le_total hw m) hT),
      Nat.mod_eq_of_lt (Nat.lt_of_le_of_lt (UnitProp.hashOf_le_total hw m') hT)] at he
    exact he
  have hrem : ∀ c, c ∈ clauses → ∀ lw, lw ∈ c → UnitProp.removed m c lw = UnitProp.removed m' c lw := by
    intro c hc lw hl
    rw [Bool.eq_iff_iff, ← UnitProp.weight_dvd_hashOf hw m hc hl, ← UnitProp.weight_dvd_hashOf hw m' hc hl, e]
  have hsat : ∀ c, c ∈ clauses → UnitProp.wcSat m c = UnitProp.wcSat m' c := by
    intro c hc
    cases h1 : UnitProp.wcSat m c <;> cases h2 : UnitProp.wcSat m' c
    · rfl
    · exfalso
      apply hf c hc
      intro lw hl
      have := hrem c hc lw hl
      simpa [UnitProp.removed, h1, h2] using this
    · exfalso
      apply hf' c hc
      intro lw hl
      have := hrem c hc lw hl
      simpa [UnitProp.removed, h1, h2] using this.symm
    · rfl
  intro c hc
  refine ⟨hsat c hc, ?_⟩
  intro hs lw hl
  have hs' : UnitProp.wcSat m' c = false := by rw [← hsat c hc]; exact hs
  have := hrem c hc lw hl
  simpa [UnitProp.removed, hs, hs'] using this

/-- the weighted clause of a non-tautological clause of the list -/
theorem wclause_of_nt {cnf : Cnf} {c : Clause} (hc : c ∈ cnf) (ht : UnitProp.isTaut c = false) :
    ∃ wc, wc ∈ UnitProp.weighClauses (UnitProp.normClauses cnf) 1 ∧ wc.map (·.1) = UnitProp.normClause c := by
  have hmem : UnitProp.normClause c ∈ UnitProp.normClauses cnf := by
    unfold UnitProp.normClauses
    exact List.mem_filter.mpr ⟨List.mem_map.mpr ⟨c, hc, rfl⟩, by rw [UnitProp.isTaut_normClause, ht]; rfl⟩
  rw [← (UnitProp.weighClauses_spec (UnitProp.normClauses cnf) 1).1] at hmem
  obtain ⟨wc, hwc, e⟩ := List.mem_map.mp hmem
  exact ⟨wc, hwc, e⟩

theorem wcSat_of_map {wc : UnitProp.WClause} {c : Clause} (e : wc.map (·.1) = UnitProp.normClause c)
    (m : PModel) : UnitProp.wcSat m wc = c.any (litTrue m) := by
  rw [← UnitProp.normClause_any, ← e, List.any_map]; rfl

/-- no weighted clause is falsified in the top model of a reachable state -/
theorem reach_noFalsified {cnf : Cnf} (hN : UnitProp.CnfNormal cnf) {s : UnitProp.Solver} {ds : List Lit}
    (h : UnitProp.Reach cnf s ds) {top : UnitProp.SatState} {srest} (hst : s.stack = top :: srest) :
    UnitProp.NoFalsified (UnitProp.weighClauses (UnitProp.normClauses cnf) 1) top.model := by
  intro wc hwc hall
  have hfix := UnitProp.history_fixpoint hN h hst
  have hmem : wc.map (·.1) ∈ UnitProp.normClauses cnf := by
    rw [← (UnitProp.weighClauses_spec (UnitProp.normClauses cnf) 1).1]
    exact List.mem_map.mpr ⟨wc, hwc, rfl⟩
  unfold UnitProp.normClauses at hmem
  obtain ⟨c0, hc0, e⟩ := List.mem_map.mp (List.mem_filter.mp hmem).1
  have : clauseFalsified top.model c0 = true := by
    unfold clauseFalsified
    rw [List.all_eq_true]
    intro x hx
    have hx' : x ∈ wc.map (·.1) := by rw [← e]; exact UnitProp.mem_normClause.mpr hx
    obtain ⟨lw, hlw, rfl⟩ := List.mem_map.mp hx'
    exact hall lw hlw
  rw [(hfix c0 hc0).1] at this
  cases this

/-- **equal cache keys ⇒ equal residual formulas** (of the non-tautological clauses), IF the
product of all clause-literal primes is below `2^128` (the code multiplies with `wrapping_mul`) -/
theorem up_hashSound (cnf : Cnf) (hN : UnitProp.CnfNormal cnf)
    (hnowrap : UnitProp.totalWeight (UnitProp.weighClauses (UnitProp.normClauses cnf) 1) < 2 ^ 128) :
    HashSound (upSpec cnf hN) := by
  intro (s1 : UnitProp.Solver) (s2 : UnitProp.Solver) h1 h2 hk
  obtain ⟨ds1, hR1⟩ := h1
  obtain ⟨ds2, hR2⟩ := h2
  obtain ⟨top1, rest1, hs1, _, _⟩ := UnitProp.reach_top hR1
  obtain ⟨top2, rest2, hs2, _, _⟩ := UnitProp.reach_top hR2
  rw [upSpec_modelOf hN hs1, upSpec_modelOf hN hs2]
  have hk' : (UnitProp.Solver.curHash s1).getD 0 = (UnitProp.Solver.curHash s2).getD 0 := hk
  rw [UnitProp.hash_formula hR1 hs1, UnitProp.hash_formula hR2 hs2] at hk'
  simp only [Option.getD_some] at hk'
  have key := hash_inj_clauses (UnitProp.weighClauses_ok _ _) hnowrap
    (reach_noFalsified hN hR1 hs1) (reach_noFalsified hN hR2 hs2) hk'
  -- per clause of the list
  have hcl : ∀ c, c ∈ ntCnf cnf → c.any (litTrue top1.model) = c.any (litTrue top2.model) ∧
      (c.any (litTrue top1.model) = false → ∀ l, l ∈ c → litFalse top1.model l = litFalse top2.model l) := by
    intro c hc
    obtain ⟨hc1, hc2⟩ := mem_ntCnf.1 hc
    obtain ⟨wc, hwc, e⟩ := wclause_of_nt hc1 hc2
    obtain ⟨k1, k2⟩ := key wc hwc
    rw [wcSat_of_map e, wcSat_of_map e] at k1
    refine ⟨k1, ?_⟩
    intro hs l hl
    have hl' : l ∈ wc.map (·.1) := by rw [e]; exact UnitProp.mem_normClause.mpr hl
    obtain ⟨lw, hlw, rfl⟩ := List.mem_map.mp hl'
    exact k2 (by rw [wcSat_of_map e]; exact hs) lw hlw
  unfold residual
  have h1 : (ntCnf cnf).filter (fun c => !c.any (litTrue top1.model)) =
      (ntCnf cnf).filter (fun c => !c.any (litTrue top2.model)) := by
    apply List.filter_congr
    intro c hc
    rw [(hcl c hc).1]
  rw [h1]
  apply List.map_congr_left
  intro c hc
  obtain ⟨hc1, hc2⟩ := List.mem_filter.mp hc
  have hs2' : c.any (litTrue top2.model) = false := by simpa using hc2
  have hs1' : c.any (litTrue top1.model) = false := by rw [(hcl c hc1).1]; exact hs2'
  apply List.filter_congr
  intro l hl
  rw [(hcl c hc1).2 hs1' l hl]

/-! ## `FreeDecide`: a variable outside the residual formula triggers nothing -/

theorem watchValid_of_two {cnf : Cnf} {wl : UnitProp.WL} (h2 : UnitProp.TwoWatch cnf wl) :
    UnitProp.WatchValid cnf wl := by
  intro p v i hi
  exact (h2.only i ⟨v, p⟩ hi).1

/-- the clause visited by the watcher loop contains the literal that has just become false -/
theorem neg_mem_curClause {cnf : Cnf} {wl : UnitProp.WL} (h2 : UnitProp.TwoWatch cnf wl) {l : Lit} {idx : Nat}
    (hlt : idx < (wl.get (!l.pol) l.var).length) : l.neg ∈ UnitProp.curClause cnf wl l idx := by
  have hW : UnitProp.Watches wl (UnitProp.curIdx wl l idx) l.neg := UnitProp.curIdx_mem hlt
  obtain ⟨hi, hlen⟩ := h2.only _ _ hW
  obtain ⟨w1, w2, _, hw1, hw2, hiff⟩ := h2.two _ hi hlen
  rcases (hiff l.neg).1 hW with e | e
  · rw [e]; exact hw1
  · rw [e]; exact hw2

/-- if every non-tautological clause that mentions the variable of `l` has a true literal, the
watcher loop for `l` assigns nothing and reports no conflict: satisfied clauses are skipped, and a
tautological clause without a true literal has two unassigned literals, so its watch is moved -/
theorem loop_free {cnf wl m l idx wl' r} (h : UnitProp.LoopRel cnf true wl m l idx wl' r)
    (hN : UnitProp.CnfNormal cnf) :
    m l.var = some l.pol → UnitProp.TwoWatch cnf wl →
    (∀ c, c ∈ cnf → UnitProp.isTaut c = false → (∃ x ∈ c, x.var = l.var) → c.any (litTrue m) = true) →
    r = some m := by
  induction h with
  | done _ => intros; rfl
  | skip _ _ _ ih => exact ih
  | @conflict wl m l idx hlt hs hf =>
    intro _ h2 H
    exfalso
    have ht : UnitProp.isTaut (UnitProp.curClause cnf wl l idx) = true := by
      cases ht : UnitProp.isTaut (UnitProp.curClause cnf wl l idx)
      · have := H _ (UnitProp.curClause_mem (watchValid_of_two h2) hlt) ht ⟨_, neg_mem_curClause h2 hlt, rfl⟩
        rw [hs] at this; cases this
      · rfl
    obtain ⟨x, hx, _⟩ := taut_two_unset ht hs
    rw [hf] at hx; cases hx
  | @unitConflict wl m l idx u wl' hlt hs hf _ _ =>
    intro _ h2 H
    exfalso
    have ht : UnitProp.isTaut (UnitProp.curClause cnf wl l idx) = true := by
      cases ht : UnitProp.isTaut (UnitProp.curClause cnf wl l idx)
      · have := H _ (UnitProp.curClause_mem (watchValid_of_two h2) hlt) ht ⟨_, neg_mem_curClause h2 hlt, rfl⟩
        rw [hs] at this; cases this
      · rfl
    rw [unit_not_taut hs hf] at ht; cases ht
  | @unitOk wl m l idx u wl1 m1 wl' r hlt hs hf _ _ _ _ =>
    intro _ h2 H
    exfalso
    have ht : UnitProp.isTaut (UnitProp.curClause cnf wl l idx) = true := by
      cases ht : UnitProp.isTaut (UnitProp.curClause cnf wl l idx)
      · have := H _ (UnitProp.curClause_mem (watchValid_of_two h2) hlt) ht ⟨_, neg_mem_curClause h2 hlt, rfl⟩
        rw [hs] at this; cases this
      · rfl
    rw [unit_not_taut hs hf] at ht; cases ht
  | move hlt _ hf _ ih => intro hl h2 H; exact ih hl (h2.move hN hl hlt hf) H

/-- a weighted clause that does not mention `v`, or is already satisfied, contributes the same
to hash and satisfied set after `v` is assigned -/
theorem wc_free {m : PModel} {v : Nat} (b : Bool) (hv : m v = none) {wc : UnitProp.WClause}
    (h : (∀ lw, lw ∈ wc → lw.1.var ≠ v) ∨ UnitProp.wcSat m wc = true) :
    UnitProp.wcSat (m.set v b) wc = UnitProp.wcSat m wc ∧
    UnitProp.contrib (m.set v b) wc = UnitProp.contrib m wc := by
  rcases h with h | h
  · have ht : ∀ lw, lw ∈ wc → litTrue (m.set v b) lw.1 = litTrue m lw.1 := by
      intro lw hl; simp only [litTrue]; rw [UnitProp.pset_other _ _ (h lw hl)]
    have hf : ∀ lw, lw ∈ wc → litFalse (m.set v b) lw.1 = litFalse m lw.1 := by
      intro lw hl; simp only [litFalse]; rw [UnitProp.pset_other _ _ (h lw hl)]
    have hsat : UnitProp.wcSat (m.set v b) wc = UnitProp.wcSat m wc := by
      unfold UnitProp.wcSat
      rw [Bool.eq_iff_iff, List.any_eq_true, List.any_eq_true]
      constructor
      · rintro ⟨lw, hl, h1⟩; exact ⟨lw, hl, by rw [← ht lw hl]; exact h1⟩
      · rintro ⟨lw, hl, h1⟩; exact ⟨lw, hl, by rw [ht lw hl]; exact h1⟩
    refine ⟨hsat, ?_⟩
    unfold UnitProp.contrib
    apply UnitProp.bigp_congr
    intro lw hl
    have : UnitProp.removed (m.set v b) wc lw = UnitProp.removed m wc lw := by
      simp only [UnitProp.removed, hsat, hf lw hl]
    rw [this]
  · have h' : UnitProp.wcSat (m.set v b) wc = true := UnitProp.wcSat_mono (UnitProp.PExt.set b hv) h
    refine ⟨by rw [h, h'], ?_⟩
    unfold UnitProp.contrib
    apply UnitProp.bigp_congr
    intro lw hl
    have : UnitProp.removed (m.set v b) wc lw = UnitProp.removed m wc lw := by
      simp only [UnitProp.removed, h, h', Bool.true_or]
    rw [this]

theorem hash_sat_free {clauses : List UnitProp.WClause} {m : PModel} {v : Nat} (b : Bool) (hv : m v = none)
    (h : ∀ wc, wc ∈ clauses → (∀ lw, lw ∈ wc → lw.1.var ≠ v) ∨ UnitProp.wcSat m wc = true) :
    UnitProp.hashOf clauses (m.set v b) = UnitProp.hashOf clauses m ∧
    ∀ i, UnitProp.satOf clauses (m.set v b) i = UnitProp.satOf clauses m i := by
  have hget : ∀ i, (∀ lw, lw ∈ clauses.getD i [] → lw.1.var ≠ v) ∨ UnitProp.wcSat m (clauses.getD i []) = true := by
    intro i
    by_cases hi : i < clauses.length
    · exact h _ (UnitProp.getD_mem_of_lt hi)
    · left
      rw [List.getD_eq_getElem?_getD, List.getElem?_eq_none (by omega)]
      intro lw hl; cases hl
  constructor
  · unfold UnitProp.hashOf
    apply UnitProp.bigp_congr
    intro i _
    exact (wc_free b hv (hget i)).2
  · intro i
    exact (wc_free b hv (hget i)).1

/-- in a reachable state every hashed clause mentioning a variable outside the residual formula
is satisfied -/
theorem free_clauses {cnf : Cnf} {m : PModel} {v : Nat} (hirr : ¬ InCnf (residual (ntCnf cnf) m) v)
    (hv : m v = none) :
    ∀ wc, wc ∈ UnitProp.weighClauses (UnitProp.normClauses cnf) 1 →
      (∀ lw, lw ∈ wc → lw.1.var ≠ v) ∨ UnitProp.wcSat m wc = true := by
  intro wc hwc
  have hmem : wc.map (·.1) ∈ UnitProp.normClauses cnf := by
    rw [← (UnitProp.weighClauses_spec (UnitProp.normClauses cnf) 1).1]
    exact List.mem_map.mpr ⟨wc, hwc, rfl⟩
  unfold UnitProp.normClauses at hmem
  obtain ⟨hm1, hm2⟩ := List.mem_filter.mp hmem
  obtain ⟨c0, hc0, e⟩ := List.mem_map.mp hm1
  have hnt : UnitProp.isTaut c0 = false := by
    rw [← e, UnitProp.isTaut_normClause] at hm2; simpa using hm2
  cases hs : UnitProp.wcSat m wc
  · left
    intro lw hl ev
    apply hirr
    have hl' : lw.1 ∈ c0 := by
      apply UnitProp.mem_normClause.mp
      rw [e]; exact List.mem_map.mpr ⟨lw, hl, rfl⟩
    refine InCnf_residual.2 ⟨c0, mem_ntCnf.2 ⟨hc0, hnt⟩, ?_, lw.1, hl', ?_, ev⟩
    · rw [← wcSat_of_map e.symm]; exact hs
    · simp [litFalse, ev, hv]
  · right; rfl

/-- the same for the clauses of the list: a non-tautological clause mentioning the variable has
a true literal -/
theorem free_cnf {cnf : Cnf} {m : PModel} {v : Nat} (hirr : ¬ InCnf (residual (ntCnf cnf) m) v)
    (hv : m v = none) :
    ∀ c, c ∈ cnf → UnitProp.isTaut c = false → (∃ x ∈ c, x.var = v) → c.any (litTrue m) = true := by
  intro c hc hnt ⟨x, hx, ev⟩
  cases hs : c.any (litTrue m)
  · exfalso
    apply hirr
    exact InCnf_residual.2 ⟨c, mem_ntCnf.2 ⟨hc, hnt⟩, hs, x, hx, by simp [litFalse, ev, hv], ev⟩
  · rfl

theorem satCount_congr {n : Nat} {f g : Nat → Bool} (h : ∀ i, f i = g i) :
    UnitProp.satCount n f = UnitProp.satCount n g := by
  have : f = g := funext h
  rw [this]

/-- **deciding an unassigned in-range variable that does not occur in the residual formula** (of
the non-tautological clauses) is never UNSAT, assigns only that variable, and leaves the hash and
the satisfied flag unchanged -/
theorem up_freeDecide (cnf : Cnf) (hN : UnitProp.CnfNormal cnf) : FreeDecide (upSpec cnf hN) := by
  intro (s : UnitProp.Solver) f0 rest v b hI hfr _ hvar hv0 hirr
  have hfr' : upFrames s = f0 :: rest := hfr
  obtain ⟨ds, hR⟩ := hI
  obtain ⟨s', r, hd⟩ := UnitProp.history_decide_total hN hR ⟨v, b⟩
  obtain ⟨top, srest, hs, rfl, _⟩ := upFrames_cons hfr'
  have hv0' : top.model v = none := hv0
  have hirr' : ¬ InCnf (residual (ntCnf cnf) top.model) v := hirr
  obtain ⟨hInv, hcnf⟩ := UnitProp.reach_inv hR
  have hlt : v < s.numVars := by rw [reach_numVars hR]; exact hvar
  obtain ⟨top', srest', hs', wl', r', hrel, hcase⟩ := UnitProp.decide_cases hd
  rw [hs] at hs'; cases hs'
  -- the propagator assigns `v` and nothing else
  have hr' : r' = some (top.model.set v b) := by
    cases hrel with
    | same h => rw [hv0'] at h; cases h
    | clash h => rw [hv0'] at h; cases h
    | fresh _ hloop =>
      refine loop_free hloop (hcnf ▸ hN) (UnitProp.pset_same _ _ _) (hInv.two (hcnf ▸ hN)) ?_
      intro c hc hnt hx
      have := free_cnf hirr' hv0' c (hcnf ▸ hc) hnt hx
      exact UnitProp.anyTrue_mono (UnitProp.PExt.set b hv0') this
  rcases hcase with ⟨h1, _, _⟩ | ⟨m', hm', hs'eq, hres⟩
  · rw [hr'] at h1; cases h1
  · rw [hr'] at hm'; cases hm'
    have hrne : r ≠ .unsat := by rw [hres]; split <;> simp
    have hR' : UnitProp.Reach cnf s' (⟨v, b⟩ :: ds) := .decide hR hlt hd hrne
    have hstk : s'.stack = UnitProp.pushState s top (top.model.set v b) :: top :: srest := by
      rw [hs'eq, ← hs]
    have hcl' : s'.clauses = s.clauses := (UnitProp.decide_static hd).2.2.1
    have hlev' := reach_level hR' hstk
    have hlev := reach_level hR hs
    rw [hcl'] at hlev'
    have hfree := hash_sat_free b hv0' (by rw [hInv.clauses, hcnf]; exact free_clauses hirr' hv0')
      (clauses := s.clauses)
    rw [up_decide_eq hd]
    refine ⟨fun e => hrne (tagOf_unsat.1 e), ?_⟩
    intro f1 rest' hfr1
    have hfr1' : upFrames s' = f1 :: rest' := hfr1
    obtain ⟨top1, srest1, hs1, rfl, _⟩ := upFrames_cons hfr1'
    rw [hstk] at hs1; cases hs1
    rw [hcl']
    refine ⟨rfl, ?_, ?_⟩
    · show (UnitProp.pushState s top (top.model.set v b)).hash = top.hash
      rw [hlev'.hash, hlev.hash]
      show UnitProp.hashOf s.clauses (top.model.set v b) % UnitProp.M128 = _
      rw [hfree.1]
    · show decide (UnitProp.satCount s.clauses.length (UnitProp.pushState s top (top.model.set v b)).sat = s.clauses.length)
        = decide (UnitProp.satCount s.clauses.length top.sat = s.clauses.length)
      rw [satCount_congr (g := top.sat)]
      intro i
      rw [hlev'.sat i, hlev.sat i]
      exact hfree.2 i

/-! ## why the contract is weak in three places: witnesses on the mirrored real solver

None of these is a defect of the real compiler (it never pops the state `SATSolver::new` returned,
never decides a label out of range, and tautological clauses have no models to lose); they show
that the stronger contract clauses are FALSE of the real solver, so could not be assumed. -/

/-- run `k` on the solver for `cnf`, `dflt` if construction fails -/
def withUp {α : Type} (cnf : Cnf) (dflt : α) (k : UnitProp.Solver → α) : α :=
  match UpSolver.new cnf 0 with
  | some s => k s
  | none => dflt

/-- (1) `pop` below the constructed state: `(x0) ∧ (x1 ∨ x2)`; `new` propagates `x0`; after
`pop` the dummy bottom state is on top, and `decide ¬x0` is NOT reported UNSAT (unit clauses are
not watched); two more decisions give a total model, flag not raised, that falsifies the CNF.
So `pop_ok` cannot be required of the two-frame state of `NewSpec` (with it, `decide_ok` and
`total_sound` would apply to these states). -/
example :
    withUp [[⟨0, true⟩], [⟨1, true⟩, ⟨2, true⟩]] none (fun s =>
      let r0 := UpSolver.decide (UpSolver.pop s) ⟨0, false⟩
      let r1 := UpSolver.decide r0.2 ⟨1, true⟩
      let r2 := UpSolver.decide r1.2 ⟨2, true⟩
      some (s.modelList, [r0.1, r1.1, r2.1], r2.2.modelList, UpSolver.isSat r2.2))
    = some ([some true, none, none], [.unknown, .unknown, .unknown], [some false, some true, some true], false) := by
  decide

/-- (2) a label out of range: the model assigns it (`is_set`), `difference_iter` (which ranges
over `num_vars`) does not list it — `diff_complete` would fail; the Rust code panics instead.
Hence `Var`. -/
example :
    withUp [[⟨0, true⟩], [⟨1, true⟩, ⟨2, true⟩]] none (fun s =>
      let r := UpSolver.decide s ⟨7, true⟩
      some (r.1, UpSolver.isSet r.2 7, UpSolver.difference r.2))
    = some (.unknown, true, []) := by
  decide

/-- (3) a tautological clause: `(x0 ∨ ¬x0) ∧ (x1 ∨ x2)`.  The state after construction and the
state after `decide x0` have the same hash (tautologies are not hashed) but different residuals
of the clause list itself — `HashSound` holds of `ntCnf cnf`, not of `cnf`. -/
example :
    withUp [[⟨0, true⟩, ⟨0, false⟩], [⟨1, true⟩, ⟨2, true⟩]] none (fun s =>
      let r := UpSolver.decide s ⟨0, true⟩
      some (s.curHash, r.2.curHash, r.2.modelList))
    = some (some 1, some 1, [some true, none, none]) ∧
    residual [[⟨0, true⟩, ⟨0, false⟩], [⟨1, true⟩, ⟨2, true⟩]] PModel.empty ≠
    residual [[⟨0, true⟩, ⟨0, false⟩], [⟨1, true⟩, ⟨2, true⟩]] (PModel.empty.set 0 true) := by
  decide

/-! ## axioms -/
#print axioms cnfSat_ntCnf
#print axioms loop_relevant
#print axioms up_decide_unsat
#print axioms up_decide_ok
#print axioms up_pop_ok
#print axioms upSpec
#print axioms up_newSpec
#print axioms up_hashSound
#print axioms loop_free
#print axioms up_freeDecide

end TopDown
