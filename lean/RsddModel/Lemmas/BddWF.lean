import RsddModel.Model.BddBuilder
import RsddModel.Lemmas.BddCanon
import RsddModel.Lemmas.BddCond
/-!
# Lemmas: every builder operation preserves well-formedness

For every lawful cache `C` and every injective level map `lvl`: if the apply cache only holds
well formed results (`CacheWF`) and the arguments are ordered and reduced, then so is the
result, and the cache invariant is kept.  Injectivity of `lvl` is used in exactly one place:
in `ite`, a cofactor whose top variable is not the split variable `x` must start strictly
below `x` (`condEssential_above`).
-/
namespace Bdd
open Spec

/-! ## closure of `Ite.new` under predicates that ignore complementation -/

/-- `P` holds of every component of a standard triple -/
def Ite.All (P : Ptr → Prop) : Ite → Prop
  | .choice f g h => P f ∧ P g ∧ P h
  | .complChoice f g h => P f ∧ P g ∧ P h
  | .const p => P p

section closure
set_option linter.unusedSectionVars false
variable {P : Ptr → Prop} (hiff : ∀ p, P p.neg ↔ P p) (ht : P .tru) (hf : P .fls)
include hiff ht hf

theorem introConst_fwd {f g h : Ptr} (pf : P f) (pg : P g) (ph : P h) :
    P (introConst f g h).1 ∧ P (introConst f g h).2.1 ∧ P (introConst f g h).2.2 := by
  unfold introConst
  (repeat' split) <;> simp_all

theorem introConst_bwd {f g h : Ptr}
    (hr : P (introConst f g h).1 ∧ P (introConst f g h).2.1 ∧ P (introConst f g h).2.2) :
    P f ∧ P g ∧ P h := by
  unfold introConst at hr
  (repeat' split at hr) <;> simp_all

theorem terminal_fwd {f g h r : Ptr} (pf : P f) (pg : P g) (ph : P h)
    (hr : terminal? f g h = some r) : P r := by
  unfold terminal? at hr
  (repeat' split at hr) <;> (cases hr <;> simp_all)

theorem reorder_fwd (ord) {f g h : Ptr} (pf : P f) (pg : P g) (ph : P h) :
    P (reorder ord f g h).1 ∧ P (reorder ord f g h).2.1 ∧ P (reorder ord f g h).2.2 := by
  unfold reorder
  (repeat' split) <;> simp_all

theorem reorder_bwd (ord) {f g h : Ptr}
    (hr : P (reorder ord f g h).1 ∧ P (reorder ord f g h).2.1 ∧ P (reorder ord f g h).2.2) :
    P f ∧ P g ∧ P h := by
  unfold reorder at hr
  (repeat' split at hr) <;> simp_all

theorem standardise_fwd {f g h : Ptr} (pf : P f) (pg : P g) (ph : P h) :
    (standardise f g h).All P := by
  unfold standardise
  (repeat' split) <;> simp_all [Ite.All]

theorem standardise_bwd {f g h : Ptr} (hr : (standardise f g h).All P) : P f ∧ P g ∧ P h := by
  unfold standardise at hr
  (repeat' split at hr) <;> simp_all [Ite.All]

/-- every component of the standard triple satisfies `P` if `f`, `g`, `h` do -/
theorem iteNew_fwd (ord) {f g h : Ptr} (pf : P f) (pg : P g) (ph : P h) :
    (Ite.new ord f g h).All P := by
  have h1 := introConst_fwd hiff ht hf pf pg ph
  simp only [Ite.new]
  generalize introConst f g h = t at h1 ⊢
  obtain ⟨f1, g1, h1'⟩ := t
  simp only at h1 ⊢
  split
  · rename_i r hr
    exact terminal_fwd hiff ht hf h1.1 h1.2.1 h1.2.2 hr
  · have h2 := reorder_fwd hiff ht hf ord h1.1 h1.2.1 h1.2.2
    generalize reorder ord f1 g1 h1' = t2 at h2 ⊢
    obtain ⟨f2, g2, h2'⟩ := t2
    exact standardise_fwd hiff ht hf h2.1 h2.2.1 h2.2.2

/-- conversely, unless the triple is a constant, `f`, `g`, `h` satisfy `P` if the components
of the standard triple do (no component of the original triple is forgotten) -/
theorem iteNew_bwd (ord) {f g h : Ptr} (hr : (Ite.new ord f g h).All P) :
    (∃ r, Ite.new ord f g h = .const r) ∨ (P f ∧ P g ∧ P h) := by
  simp only [Ite.new] at hr ⊢
  have h1 := introConst_bwd (f := f) (g := g) (h := h) hiff ht hf
  generalize introConst f g h = t at h1 hr ⊢
  obtain ⟨f1, g1, h1'⟩ := t
  simp only at h1 hr ⊢
  split
  · exact Or.inl ⟨_, rfl⟩
  · rename_i hnone
    simp only [hnone] at hr
    right
    apply h1
    have h2 := reorder_bwd (f := f1) (g := g1) (h := h1') hiff ht hf ord
    generalize reorder ord f1 g1 h1' = t2 at h2 hr
    obtain ⟨f2, g2, h2'⟩ := t2
    exact h2 (standardise_bwd hiff ht hf hr)

end closure

theorem above_neg_iff (lvl k) (p : Ptr) : p.neg.above lvl k ↔ p.above lvl k :=
  ⟨above_of_neg, above_neg⟩

/-! ## the pieces of `ite` -/

theorem neg_inj {p q : Ptr} (h : p.neg = q.neg) : p = q := by
  have := congrArg Ptr.neg h; simpa using this

theorem mkNode_red {x : Nat} {lo hi : Ptr} (hne : lo ≠ hi) (rl : lo.red) (rh : hi.red) :
    (mkNode x lo hi).red := by
  unfold mkNode
  split
  · rename_i hc
    refine ⟨fun e => hne (neg_inj e), ?_, ?_, red_neg rl, red_neg rh⟩
    · cases hi with
      | tru => rfl
      | fls => rfl
      | node c _ _ _ => cases c <;> simp_all [Ptr.isNeg, Ptr.isFalse, Ptr.neg]
    · cases hi with
      | tru => simp [Ptr.isNeg, Ptr.isFalse] at hc
      | fls => simp [Ptr.neg]
      | node c _ _ _ => simp [Ptr.neg]
  · rename_i hc
    simp only [Bool.or_eq_true, not_or, Bool.not_eq_true] at hc
    refine ⟨hne, hc.1, ?_, rl, rh⟩
    intro e; subst e; simp [Ptr.isFalse] at hc

theorem mkNode_above {lvl : Nat → Nat} {k x : Nat} {lo hi : Ptr} (hk : k ≤ lvl x)
    (al : lo.above lvl (lvl x + 1)) (ah : hi.above lvl (lvl x + 1)) :
    (mkNode x lo hi).above lvl k := by
  unfold mkNode
  split
  · exact ⟨hk, above_neg al, above_neg ah⟩
  · exact ⟨hk, al, ah⟩

/-- the top variable of `p`, if any, is not before `x` -/
def topGe (lvl : Nat → Nat) (x : Nat) (p : Ptr) : Prop := ∀ v, p.top? = some v → lvl x ≤ lvl v

theorem first_cases (lvl a b) : first lvl a b = a ∨ first lvl a b = b := by
  unfold first
  (repeat' split) <;> simp

theorem first_top_left (lvl : Nat → Nat) (a b : Ptr) (v : Nat) (h : a.top? = some v) :
    ∃ w, (first lvl a b).top? = some w ∧ lvl w ≤ lvl v := by
  cases a with
  | tru => simp [Ptr.top?] at h
  | fls => simp [Ptr.top?] at h
  | node ca va la ha =>
    simp only [Ptr.top?, Option.some.injEq] at h; subst h
    cases b with
    | tru => exact ⟨va, by simp [first, Ptr.top?], Nat.le_refl _⟩
    | fls => exact ⟨va, by simp [first, Ptr.top?], Nat.le_refl _⟩
    | node cb vb lb hb =>
      by_cases hlt : lvl va < lvl vb
      · exact ⟨va, by simp [first, Ptr.top?, hlt], Nat.le_refl _⟩
      · exact ⟨vb, by simp [first, Ptr.top?, hlt], by omega⟩

theorem first_top_right (lvl : Nat → Nat) (a b : Ptr) (v : Nat) (h : b.top? = some v) :
    ∃ w, (first lvl a b).top? = some w ∧ lvl w ≤ lvl v := by
  cases b with
  | tru => simp [Ptr.top?] at h
  | fls => simp [Ptr.top?] at h
  | node cb vb lb hb =>
    simp only [Ptr.top?, Option.some.injEq] at h; subst h
    cases a with
    | tru => exact ⟨vb, by simp [first, Ptr.top?], Nat.le_refl _⟩
    | fls => exact ⟨vb, by simp [first, Ptr.top?], Nat.le_refl _⟩
    | node ca va la ha =>
      by_cases hlt : lvl va < lvl vb
      · exact ⟨va, by simp [first, Ptr.top?, hlt], by omega⟩
      · exact ⟨vb, by simp [first, Ptr.top?, hlt], Nat.le_refl _⟩

/-- `first_essential` returns a top variable of one of the three, and no top variable comes
before it -/
theorem firstEssential_spec {lvl : Nat → Nat} {f g h : Ptr} {x : Nat}
    (hx : firstEssential lvl f g h = some x) :
    (f.top? = some x ∨ g.top? = some x ∨ h.top? = some x) ∧
    topGe lvl x f ∧ topGe lvl x g ∧ topGe lvl x h := by
  unfold firstEssential at hx
  refine ⟨?_, ?_, ?_, ?_⟩
  · rcases first_cases lvl (first lvl f g) h with e | e
    · rw [e] at hx
      rcases first_cases lvl f g with e' | e' <;> rw [e'] at hx <;> simp [hx]
    · rw [e] at hx; simp [hx]
  · intro v hv
    obtain ⟨w, hw, hle⟩ := first_top_left lvl f g v hv
    obtain ⟨w', hw', hle'⟩ := first_top_left lvl (first lvl f g) h w hw
    rw [hx] at hw'; cases hw'; omega
  · intro v hv
    obtain ⟨w, hw, hle⟩ := first_top_right lvl f g v hv
    obtain ⟨w', hw', hle'⟩ := first_top_left lvl (first lvl f g) h w hw
    rw [hx] at hw'; cases hw'; omega
  · intro v hv
    obtain ⟨w', hw', hle'⟩ := first_top_right lvl (first lvl f g) h v hv
    rw [hx] at hw'; cases hw'; omega

theorem le_of_top_above {lvl : Nat → Nat} {k x : Nat} {p : Ptr} (ha : p.above lvl k)
    (ht : p.top? = some x) : k ≤ lvl x := by
  cases p with
  | tru => simp [Ptr.top?] at ht
  | fls => simp [Ptr.top?] at ht
  | node c v lo hi => simp only [Ptr.top?, Option.some.injEq] at ht; subst ht; exact ha.1

/-- the cofactor taken by `ite` lives strictly below the split variable (this is where
injectivity of the level map is needed) -/
theorem condEssential_above {lvl : Nat → Nat} (inj : ∀ x y, lvl x = lvl y → x = y)
    {k x : Nat} {p : Ptr} (b : Bool) (ha : p.above lvl k) (hge : topGe lvl x p) :
    (condEssential p x b).above lvl (lvl x + 1) := by
  cases p with
  | tru => trivial
  | fls => trivial
  | node c y lo hi =>
    obtain ⟨_, hlo, hhi⟩ := ha
    simp only [condEssential]
    split
    · rename_i hne
      have h1 := hge y rfl
      have h2 : lvl x ≠ lvl y := fun e => hne (inj _ _ e).symm
      exact ⟨by omega, hlo, hhi⟩
    · rename_i heq
      simp only [ne_eq, Decidable.not_not] at heq
      subst heq
      cases c <;> cases b <;> simp only [if_true, if_false, Bool.false_eq_true] <;>
        first | assumption | exact above_neg ‹_›

theorem condEssential_red {x : Nat} {p : Ptr} (b : Bool) (hr : p.red) :
    (condEssential p x b).red := by
  cases p with
  | tru => trivial
  | fls => trivial
  | node c y lo hi =>
    simp only [condEssential]
    split
    · exact hr
    · obtain ⟨_, _, _, rlo, rhi⟩ := hr
      cases c <;> cases b <;> simp only [if_true, if_false, Bool.false_eq_true] <;>
        first | assumption | exact red_neg ‹_›

/-! ## the cache invariant -/

/-- every cached result is reduced, and it is ordered from level `k` on whenever the three
components of its key are -/
def CacheWF (C : CacheImpl) (lvl : Nat → Nat) (s : C.σ) : Prop :=
  ∀ f g h r, C.get s (f, g, h) = some r →
    r.red ∧ ∀ k, f.above lvl k → g.above lvl k → h.above lvl k → r.above lvl k

theorem cacheWF_empty (C : CacheImpl) (lvl) : CacheWF C lvl C.empty := by
  intro f g h r hget; rw [C.empty_get] at hget; cases hget

theorem cacheGet_wf {C : CacheImpl} {lvl} {s : C.σ} (hs : CacheWF C lvl s) {key : Ite} {v : Ptr}
    (hnc : ∀ p, key = .const p → False) (hget : cacheGet C s key = some v) :
    v.red ∧ ∀ k, key.All (Ptr.above lvl k) → v.above lvl k := by
  cases key with
  | choice f g h =>
    obtain ⟨h1, h2⟩ := hs _ _ _ _ hget
    exact ⟨h1, fun k hk => h2 k hk.1 hk.2.1 hk.2.2⟩
  | complChoice f g h =>
    simp only [cacheGet, Option.map_eq_some_iff] at hget
    obtain ⟨w, hw, rfl⟩ := hget
    obtain ⟨h1, h2⟩ := hs _ _ _ _ hw
    exact ⟨red_neg h1, fun k hk => above_neg (h2 k hk.1 hk.2.1 hk.2.2)⟩
  | const p => exact absurd rfl (hnc p)

theorem cacheInsert_wf {C : CacheImpl} {lvl} {s : C.σ} (hs : CacheWF C lvl s) (key : Ite) {r : Ptr}
    (hr : r.red) (ha : ∀ k, key.All (Ptr.above lvl k) → r.above lvl k) :
    CacheWF C lvl (cacheInsert C s key r) := by
  cases key with
  | choice f g h =>
    intro f' g' h' r' hget
    rcases C.lawful _ _ _ _ _ hget with ⟨hk, hv⟩ | hold
    · cases hk; subst hv
      exact ⟨hr, fun k a1 a2 a3 => ha k ⟨a1, a2, a3⟩⟩
    · exact hs _ _ _ _ hold
  | complChoice f g h =>
    intro f' g' h' r' hget
    rcases C.lawful _ _ _ _ _ hget with ⟨hk, hv⟩ | hold
    · cases hk; subst hv
      exact ⟨red_neg hr, fun k a1 a2 a3 => above_neg (ha k ⟨a1, a2, a3⟩)⟩
    · exact hs _ _ _ _ hold
  | const p => exact hs

/-! ## `ite` -/

/-- **`ite` preserves well-formedness**, general form: the result is reduced, and it is ordered
from every level `k` on from which all three arguments are. -/
theorem ite_wf_gen (C : CacheImpl) (lvl : Nat → Nat) (inj : ∀ x y, lvl x = lvl y → x = y) :
    ∀ fuel s f g h s' r, CacheWF C lvl s →
      f.above lvl 0 → g.above lvl 0 → h.above lvl 0 → f.red → g.red → h.red →
      ite C lvl fuel s f g h = some (s', r) →
      CacheWF C lvl s' ∧ r.red ∧
        ∀ k, f.above lvl k → g.above lvl k → h.above lvl k → r.above lvl k := by
  intro fuel
  induction fuel with
  | zero => intro s f g h s' r _ _ _ _ _ _ _ hrun; simp [ite] at hrun
  | succ n ih =>
    intro s f g h s' r hs af ag ah rf rg rh hrun
    have key_above : ∀ k, f.above lvl k → g.above lvl k → h.above lvl k →
        (Ite.new (ordP lvl) f g h).All (Ptr.above lvl k) := fun k a1 a2 a3 =>
      iteNew_fwd (above_neg_iff lvl k) trivial trivial (ordP lvl) a1 a2 a3
    have key_red : (Ite.new (ordP lvl) f g h).All Ptr.red :=
      iteNew_fwd (fun p => ⟨red_of_neg, red_neg⟩) trivial trivial (ordP lvl) rf rg rh
    have key_bwd : ∀ k, (Ite.new (ordP lvl) f g h).All (Ptr.above lvl k) →
        (∃ r, Ite.new (ordP lvl) f g h = .const r) ∨
          (f.above lvl k ∧ g.above lvl k ∧ h.above lvl k) := fun k =>
      iteNew_bwd (above_neg_iff lvl k) trivial trivial (ordP lvl)
    simp only [ite] at hrun
    generalize hk : Ite.new (ordP lvl) f g h = key at hrun key_above key_red key_bwd
    split at hrun
    · -- const
      simp only [Option.some.injEq, Prod.mk.injEq] at hrun; obtain ⟨rfl, rfl⟩ := hrun
      exact ⟨hs, key_red, key_above⟩
    · rename_i hnc
      split at hrun
      · -- cache hit
        rename_i v hv
        simp only [Option.some.injEq, Prod.mk.injEq] at hrun; obtain ⟨rfl, rfl⟩ := hrun
        obtain ⟨h1, h2⟩ := cacheGet_wf hs hnc hv
        exact ⟨hs, h1, fun k a1 a2 a3 => h2 k (key_above k a1 a2 a3)⟩
      · split at hrun
        · cases hrun
        · rename_i x hx
          split at hrun
          · cases hrun
          · rename_i s1 t ht
            split at hrun
            · cases hrun
            · rename_i s2 e he
              obtain ⟨hmem, gf, gg, gh⟩ := firstEssential_spec hx
              -- cofactors are ordered strictly below `x` and reduced
              have cf := fun b => condEssential_above inj (x := x) b af gf
              have cg := fun b => condEssential_above inj (x := x) b ag gg
              have ch := fun b => condEssential_above inj (x := x) b ah gh
              obtain ⟨hs1, rt, at'⟩ := ih _ _ _ _ _ _ hs (above_zero (cf true)) (above_zero (cg true))
                (above_zero (ch true)) (condEssential_red true rf) (condEssential_red true rg)
                (condEssential_red true rh) ht
              obtain ⟨hs2, re, ae⟩ := ih _ _ _ _ _ _ hs1 (above_zero (cf false)) (above_zero (cg false))
                (above_zero (ch false)) (condEssential_red false rf) (condEssential_red false rg)
                (condEssential_red false rh) he
              have at1 := at' _ (cf true) (cg true) (ch true)
              have ae1 := ae _ (cf false) (cg false) (ch false)
              -- `x` is not before any level from which all of f, g, h are ordered
              have hkx : ∀ k, f.above lvl k → g.above lvl k → h.above lvl k → k ≤ lvl x := by
                intro k a1 a2 a3
                rcases hmem with e | e | e
                · exact le_of_top_above a1 e
                · exact le_of_top_above a2 e
                · exact le_of_top_above a3 e
              split at hrun
              · simp only [Option.some.injEq, Prod.mk.injEq] at hrun; obtain ⟨rfl, rfl⟩ := hrun
                exact ⟨hs2, rt, fun k a1 a2 a3 =>
                  above_mono (by have := hkx k a1 a2 a3; omega) at1⟩
              · rename_i hte
                simp only [Option.some.injEq, Prod.mk.injEq] at hrun; obtain ⟨rfl, rfl⟩ := hrun
                have rr : (mkNode x e t).red := mkNode_red (fun e' => hte e'.symm) re rt
                have ar : ∀ k, f.above lvl k → g.above lvl k → h.above lvl k →
                    (mkNode x e t).above lvl k := fun k a1 a2 a3 =>
                  mkNode_above (hkx k a1 a2 a3) ae1 at1
                refine ⟨cacheInsert_wf hs2 key rr ?_, rr, ar⟩
                intro k hkey
                rcases key_bwd k hkey with ⟨r0, hr0⟩ | ⟨a1, a2, a3⟩
                · exact absurd hr0 (hnc r0)
                · exact ar k a1 a2 a3

/-- `ite` preserves well-formedness (the form used most often) -/
theorem ite_wf (C : CacheImpl) (lvl : Nat → Nat) (inj : ∀ x y, lvl x = lvl y → x = y)
    {fuel : Nat} {s s' : C.σ} {f g h r : Ptr} {k : Nat} (hs : CacheWF C lvl s)
    (hf : f.above lvl k ∧ f.red) (hg : g.above lvl k ∧ g.red) (hh : h.above lvl k ∧ h.red)
    (hrun : ite C lvl fuel s f g h = some (s', r)) :
    CacheWF C lvl s' ∧ r.above lvl k ∧ r.red := by
  obtain ⟨h1, h2, h3⟩ := ite_wf_gen C lvl inj fuel s f g h s' r hs (above_zero hf.1) (above_zero hg.1)
    (above_zero hh.1) hf.2 hg.2 hh.2 hrun
  exact ⟨h1, h3 k hf.1 hg.1 hh.1, h2⟩

theorem ite_WF (C : CacheImpl) (lvl : Nat → Nat) (inj : ∀ x y, lvl x = lvl y → x = y)
    {fuel : Nat} {s s' : C.σ} {f g h r : Ptr} (hs : CacheWF C lvl s)
    (hf : WF lvl f) (hg : WF lvl g) (hh : WF lvl h)
    (hrun : ite C lvl fuel s f g h = some (s', r)) : CacheWF C lvl s' ∧ WF lvl r := by
  obtain ⟨h1, h2, h3⟩ := ite_wf C lvl inj hs hf hg hh hrun
  exact ⟨h1, h2, h3⟩

/-! ## conditioning -/

theorem ite_neg_above {lvl k} {c : Bool} {p : Ptr} (h : p.above lvl k) :
    (if c then p.neg else p).above lvl k := by
  cases c <;> simp only [if_true, if_false, Bool.false_eq_true] <;>
    first | assumption | exact above_neg h

theorem ite_neg_red {c : Bool} {p : Ptr} (h : p.red) : (if c then p.neg else p).red := by
  cases c <;> simp only [if_true, if_false, Bool.false_eq_true] <;>
    first | assumption | exact red_neg h

/-- conditioning keeps a diagram ordered (from the same level on); no injectivity needed -/
theorem condPure_above (lvl : Nat → Nat) (x : Nat) (b : Bool) :
    ∀ (p : Ptr) (k : Nat), p.above lvl k → (condPure lvl x b p).above lvl k := by
  intro p
  induction p with
  | tru => intro k _; trivial
  | fls => intro k _; trivial
  | node c y lo hi ihlo ihhi =>
    intro k ha
    obtain ⟨hk, alo, ahi⟩ := ha
    have alo' := ihlo _ alo
    have ahi' := ihhi _ ahi
    have hk1 : k ≤ lvl y + 1 := by omega
    rw [condPure]
    simp only
    split
    · exact ⟨hk, alo, ahi⟩
    · split
      · cases b <;> simp only [if_true, if_false, Bool.false_eq_true]
        · exact ite_neg_above (above_mono hk1 alo)
        · exact ite_neg_above (above_mono hk1 ahi)
      · split
        · exact ite_neg_above (above_mono hk1 alo')
        · split
          · exact ite_neg_above (mkNode_above hk alo' ahi')
          · exact ⟨hk, alo, ahi⟩

/-- conditioning keeps a diagram reduced -/
theorem condPure_red (lvl : Nat → Nat) (x : Nat) (b : Bool) :
    ∀ (p : Ptr), p.red → (condPure lvl x b p).red := by
  intro p
  induction p with
  | tru => intro _; trivial
  | fls => intro _; trivial
  | node c y lo hi ihlo ihhi =>
    intro hr
    obtain ⟨hne, hreg, hnf, rlo, rhi⟩ := hr
    have rlo' := ihlo rlo
    have rhi' := ihhi rhi
    rw [condPure]
    simp only
    split
    · exact ⟨hne, hreg, hnf, rlo, rhi⟩
    · split
      · cases b <;> simp only [if_true, if_false, Bool.false_eq_true]
        · exact ite_neg_red rlo
        · exact ite_neg_red rhi
      · split
        · exact ite_neg_red rlo'
        · rename_i hlh
          split
          · exact ite_neg_red (mkNode_red hlh rlo' rhi')
          · exact ⟨hne, hreg, hnf, rlo, rhi⟩

theorem condPure_WF (lvl : Nat → Nat) (x : Nat) (b : Bool) {p : Ptr} (h : WF lvl p) :
    WF lvl (condPure lvl x b p) := ⟨condPure_above lvl x b p 0 h.1, condPure_red lvl x b p h.2⟩

theorem condition_above (lvl : Nat → Nat) (x : Nat) (b : Bool) {p : Ptr} {k : Nat}
    (h : p.above lvl k) : (condition lvl p x b).above lvl k := by
  rw [condition_eq_pure]; exact condPure_above lvl x b p k h

theorem condition_red (lvl : Nat → Nat) (x : Nat) (b : Bool) {p : Ptr}
    (h : p.red) : (condition lvl p x b).red := by
  rw [condition_eq_pure]; exact condPure_red lvl x b p h

theorem condition_WF (lvl : Nat → Nat) (x : Nat) (b : Bool) {p : Ptr} (h : WF lvl p) :
    WF lvl (condition lvl p x b) := ⟨condition_above lvl x b h.1, condition_red lvl x b h.2⟩

theorem condModel_WF (lvl : Nat → Nat) : ∀ (m : List (Nat × Bool)) {p : Ptr}, WF lvl p →
    WF lvl (condModel lvl p m)
  | [], _, h => h
  | (x, b) :: rest, _, h => condModel_WF lvl rest (condition_WF lvl x b h)

/-! ## variables and the derived operations -/

theorem mkVar_WF (lvl : Nat → Nat) (x : Nat) (pol : Bool) : WF lvl (mkVar x pol) := by
  have h : WF lvl (mkNode x .fls .tru) :=
    ⟨mkNode_above (Nat.zero_le _) trivial trivial, mkNode_red (by simp) trivial trivial⟩
  unfold mkVar
  cases pol <;> simp only [if_true, if_false, Bool.false_eq_true]
  · exact WF_neg h
  · exact h

section ops
variable (C : CacheImpl) (lvl : Nat → Nat) (inj : ∀ x y, lvl x = lvl y → x = y) {fuel : Nat}
include inj

theorem bAnd_WF {s s' : C.σ} {f g r : Ptr} (hs : CacheWF C lvl s) (hf : WF lvl f) (hg : WF lvl g)
    (hrun : bAnd C lvl fuel s f g = some (s', r)) : CacheWF C lvl s' ∧ WF lvl r :=
  ite_WF C lvl inj hs hf hg (WF_fls lvl) hrun

theorem bIff_WF {s s' : C.σ} {f g r : Ptr} (hs : CacheWF C lvl s) (hf : WF lvl f) (hg : WF lvl g)
    (hrun : bIff C lvl fuel s f g = some (s', r)) : CacheWF C lvl s' ∧ WF lvl r :=
  ite_WF C lvl inj hs hf hg (WF_neg hg) hrun

theorem bXor_WF {s s' : C.σ} {f g r : Ptr} (hs : CacheWF C lvl s) (hf : WF lvl f) (hg : WF lvl g)
    (hrun : bXor C lvl fuel s f g = some (s', r)) : CacheWF C lvl s' ∧ WF lvl r :=
  ite_WF C lvl inj hs hf (WF_neg hg) hg hrun

theorem bOr_WF {s s' : C.σ} {f g r : Ptr} (hs : CacheWF C lvl s) (hf : WF lvl f) (hg : WF lvl g)
    (hrun : bOr C lvl fuel s f g = some (s', r)) : CacheWF C lvl s' ∧ WF lvl r := by
  unfold bOr at hrun
  split at hrun
  · rename_i s1 r1 h1
    simp only [Option.some.injEq, Prod.mk.injEq] at hrun; obtain ⟨rfl, rfl⟩ := hrun
    obtain ⟨h2, h3⟩ := bAnd_WF C lvl inj hs (WF_neg hf) (WF_neg hg) h1
    exact ⟨h2, WF_neg h3⟩
  · cases hrun

theorem bExists_WF {s s' : C.σ} {f r : Ptr} {x : Nat} (hs : CacheWF C lvl s) (hf : WF lvl f)
    (hrun : bExists C lvl fuel s f x = some (s', r)) : CacheWF C lvl s' ∧ WF lvl r :=
  bOr_WF C lvl inj hs (condition_WF lvl x true hf) (condition_WF lvl x false hf) hrun

theorem bCompose_WF {s s' : C.σ} {f g r : Ptr} {x : Nat} (hs : CacheWF C lvl s) (hf : WF lvl f)
    (hg : WF lvl g) (hrun : bCompose C lvl fuel s f x g = some (s', r)) :
    CacheWF C lvl s' ∧ WF lvl r := by
  unfold bCompose at hrun
  split at hrun
  · cases hrun
  · rename_i s1 i h1
    obtain ⟨hs1, wi⟩ := bIff_WF C lvl inj hs (mkVar_WF lvl x true) hg h1
    split at hrun
    · cases hrun
    · rename_i s2 a h2
      obtain ⟨hs2, wa⟩ := bAnd_WF C lvl inj hs1 wi hf h2
      exact bExists_WF C lvl inj hs2 wa hrun

theorem bAndLst_WF : ∀ (ps : List Ptr) {s s' : C.σ} {acc r : Ptr}, CacheWF C lvl s → WF lvl acc →
    (∀ p ∈ ps, WF lvl p) → bAndLst C lvl fuel s acc ps = some (s', r) →
    CacheWF C lvl s' ∧ WF lvl r
  | [], s, s', acc, r, hs, ha, _, hrun => by
    simp only [bAndLst, Option.some.injEq, Prod.mk.injEq] at hrun
    obtain ⟨rfl, rfl⟩ := hrun; exact ⟨hs, ha⟩
  | p :: ps, s, s', acc, r, hs, ha, hps, hrun => by
    simp only [bAndLst] at hrun
    split at hrun
    · cases hrun
    · rename_i s1 r1 h1
      obtain ⟨hs1, w1⟩ := bAnd_WF C lvl inj hs ha (hps p (List.mem_cons_self ..)) h1
      exact bAndLst_WF ps hs1 w1 (fun q hq => hps q (List.mem_cons_of_mem _ hq)) hrun

theorem bOrLst_WF : ∀ (ps : List Ptr) {s s' : C.σ} {acc r : Ptr}, CacheWF C lvl s → WF lvl acc →
    (∀ p ∈ ps, WF lvl p) → bOrLst C lvl fuel s acc ps = some (s', r) →
    CacheWF C lvl s' ∧ WF lvl r
  | [], s, s', acc, r, hs, ha, _, hrun => by
    simp only [bOrLst, Option.some.injEq, Prod.mk.injEq] at hrun
    obtain ⟨rfl, rfl⟩ := hrun; exact ⟨hs, ha⟩
  | p :: ps, s, s', acc, r, hs, ha, hps, hrun => by
    simp only [bOrLst] at hrun
    split at hrun
    · cases hrun
    · rename_i s1 r1 h1
      obtain ⟨hs1, w1⟩ := bOr_WF C lvl inj hs ha (hps p (List.mem_cons_self ..)) h1
      exact bOrLst_WF ps hs1 w1 (fun q hq => hps q (List.mem_cons_of_mem _ hq)) hrun

end ops

#print axioms ite_wf_gen
#print axioms bCompose_WF
#print axioms bAndLst_WF
#print axioms bOrLst_WF
#print axioms condModel_WF
end Bdd
