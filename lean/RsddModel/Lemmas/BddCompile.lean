import RsddModel.Model.BddCompile
import RsddModel.Lemmas.BddSem
/-!
# Lemmas: the compile functions compute the function of their input

Generic part (`namespace Compile`): for ANY record of builder operations `O : Ops σ P` that meets
a specification `S : OpsSpec O` (an invariant on builder states, a predicate on pointers, a
denotation, and one clause per operation), every compile function of `Model/BddCompile` is
partially correct.  ROBDD part (`namespace Bdd`): `bddSpec` shows that the ROBDD builder model
meets the specification for every lawful cache, every injective level map and every fuel
(invariant: cache sound and well formed; pointers: `WF`), and the canonicity theorem turns the
semantic statement about `compile_cnf_with_assignments` into an equality of diagrams.
-/
namespace Compile
open Spec

/-- what the compile functions need from a builder -/
structure OpsSpec {σ P : Type} (O : Ops σ P) where
  Inv : σ → Prop
  Good : P → Prop
  /-- labels the builder accepts (`True` for the ROBDD model, "occurs in the vtree" for SDDs) -/
  VarOk : Nat → Prop
  den : P → BoolFn
  tru_ok : Good O.tru ∧ den O.tru = fTrue
  fls_ok : Good O.fls ∧ den O.fls = fFalse
  var_ok : ∀ x pol, VarOk x → Good (O.var x pol) ∧ den (O.var x pol) = fVar x pol
  neg_ok : ∀ p, Good p → Good (O.neg p) ∧ den (O.neg p) = fNot (den p)
  and_ok : ∀ s p q s' r, Inv s → Good p → Good q → O.and s p q = some (s', r) →
    Inv s' ∧ Good r ∧ den r = fAnd (den p) (den q)
  or_ok : ∀ s p q s' r, Inv s → Good p → Good q → O.or s p q = some (s', r) →
    Inv s' ∧ Good r ∧ den r = fOr (den p) (den q)
  iff_ok : ∀ s p q s' r, Inv s → Good p → Good q → O.iff s p q = some (s', r) →
    Inv s' ∧ Good r ∧ den r = fIff (den p) (den q)
  xor_ok : ∀ s p q s' r, Inv s → Good p → Good q → O.xor s p q = some (s', r) →
    Inv s' ∧ Good r ∧ den r = fXor (den p) (den q)
  ite_ok : ∀ s f g h s' r, Inv s → Good f → Good g → Good h → O.ite s f g h = some (s', r) →
    Inv s' ∧ Good r ∧ den r = fIte (den f) (den g) (den h)

/-! ## spec-level facts -/

theorem fVar_litSat (l : Lit) (a : Assign) : fVar l.var l.pol a = litSat a l := by
  unfold fVar litSat
  cases l.pol <;> cases a l.var <;> rfl

theorem clauseSat_cons (a : Assign) (l : Lit) (c : Clause) :
    clauseSat a (l :: c) = (litSat a l || clauseSat a c) := rfl

theorem cnfSat_cons (a : Assign) (c : Clause) (cs : Cnf) :
    cnfSat a (c :: cs) = (clauseSat a c && cnfSat a cs) := rfl

theorem cnfSat_append (a : Assign) (cs ds : Cnf) :
    cnfSat a (cs ++ ds) = (cnfSat a cs && cnfSat a ds) := by
  simp [cnfSat]

theorem all_perm {α : Type} (p : α → Bool) {l l' : List α} (h : List.Perm l l') :
    l.all p = l'.all p := by
  induction h with
  | nil => rfl
  | cons x _ ih => simp [ih]
  | swap x y l => simp only [List.all_cons]; cases p x <;> cases p y <;> rfl
  | trans _ _ ih1 ih2 => rw [ih1, ih2]

/-- satisfaction of a CNF does not depend on the order of its clauses -/
theorem cnfSat_perm (a : Assign) {cs cs' : Cnf} (h : List.Perm cs cs') :
    cnfSat a cs = cnfSat a cs' := all_perm _ h

/-- the Rust `eval` computes `xor` as `(!l && r) || (l && !r)` -/
theorem fXor_rust (f g : BoolFn) : fXor f g = fun a => (!f a && g a) || (f a && !g a) := by
  funext a; simp only [fXor]; cases f a <;> cases g a <;> rfl

section generic
variable {σ P : Type} {O : Ops σ P} (S : OpsSpec O)

/-! ## `compile_logical_expr` -/

theorem compileExpr_ok : ∀ (e : LogicalExpr) {s s' : σ} {r : P}, S.Inv s → e.AllVars S.VarOk →
    compileExpr O s e = some (s', r) → S.Inv s' ∧ S.Good r ∧ S.den r = exprSem e
  | .lit x pol, s, s', r, hi, hv, h => by
    simp only [compileExpr, Option.some.injEq, Prod.mk.injEq] at h
    obtain ⟨rfl, rfl⟩ := h
    exact ⟨hi, S.var_ok x pol hv⟩
  | .not e, s, s', r, hi, hv, h => by
    simp only [compileExpr] at h
    split at h
    · cases h
    · rename_i s1 r1 h1
      simp only [Option.some.injEq, Prod.mk.injEq] at h; obtain ⟨rfl, rfl⟩ := h
      obtain ⟨i1, g1, d1⟩ := compileExpr_ok e hi hv h1
      obtain ⟨g, d⟩ := S.neg_ok r1 g1
      exact ⟨i1, g, by rw [d, d1]; rfl⟩
  | .and l r', s, s', r, hi, hv, h => by
    simp only [compileExpr] at h
    split at h
    · cases h
    · rename_i s1 r1 h1
      split at h
      · cases h
      · rename_i s2 r2 h2
        obtain ⟨i1, g1, d1⟩ := compileExpr_ok l hi hv.1 h1
        obtain ⟨i2, g2, d2⟩ := compileExpr_ok r' i1 hv.2 h2
        obtain ⟨i3, g3, d3⟩ := S.and_ok _ _ _ _ _ i2 g1 g2 h
        exact ⟨i3, g3, by rw [d3, d1, d2]; rfl⟩
  | .or l r', s, s', r, hi, hv, h => by
    simp only [compileExpr] at h
    split at h
    · cases h
    · rename_i s1 r1 h1
      split at h
      · cases h
      · rename_i s2 r2 h2
        obtain ⟨i1, g1, d1⟩ := compileExpr_ok l hi hv.1 h1
        obtain ⟨i2, g2, d2⟩ := compileExpr_ok r' i1 hv.2 h2
        obtain ⟨i3, g3, d3⟩ := S.or_ok _ _ _ _ _ i2 g1 g2 h
        exact ⟨i3, g3, by rw [d3, d1, d2]; rfl⟩
  | .iff l r', s, s', r, hi, hv, h => by
    simp only [compileExpr] at h
    split at h
    · cases h
    · rename_i s1 r1 h1
      split at h
      · cases h
      · rename_i s2 r2 h2
        obtain ⟨i1, g1, d1⟩ := compileExpr_ok l hi hv.1 h1
        obtain ⟨i2, g2, d2⟩ := compileExpr_ok r' i1 hv.2 h2
        obtain ⟨i3, g3, d3⟩ := S.iff_ok _ _ _ _ _ i2 g1 g2 h
        exact ⟨i3, g3, by rw [d3, d1, d2]; rfl⟩
  | .xor l r', s, s', r, hi, hv, h => by
    simp only [compileExpr] at h
    split at h
    · cases h
    · rename_i s1 r1 h1
      split at h
      · cases h
      · rename_i s2 r2 h2
        obtain ⟨i1, g1, d1⟩ := compileExpr_ok l hi hv.1 h1
        obtain ⟨i2, g2, d2⟩ := compileExpr_ok r' i1 hv.2 h2
        obtain ⟨i3, g3, d3⟩ := S.xor_ok _ _ _ _ _ i2 g1 g2 h
        exact ⟨i3, g3, by rw [d3, d1, d2]; rfl⟩
  | .ite g t e, s, s', r, hi, hv, h => by
    simp only [compileExpr] at h
    split at h
    · cases h
    · rename_i s1 r1 h1
      split at h
      · cases h
      · rename_i s2 r2 h2
        split at h
        · cases h
        · rename_i s3 r3 h3
          obtain ⟨i1, g1, d1⟩ := compileExpr_ok g hi hv.1 h1
          obtain ⟨i2, g2, d2⟩ := compileExpr_ok t i1 hv.2.1 h2
          obtain ⟨i3, g3, d3⟩ := compileExpr_ok e i2 hv.2.2 h3
          obtain ⟨i4, g4, d4⟩ := S.ite_ok _ _ _ _ _ _ i3 g1 g2 g3 h
          exact ⟨i4, g4, by rw [d4, d1, d2, d3]; rfl⟩

/-! ## `compile_plan` -/

theorem compilePlan_ok : ∀ (p : Plan) {s s' : σ} {r : P}, S.Inv s → p.AllVars S.VarOk →
    compilePlan O s p = some (s', r) → S.Inv s' ∧ S.Good r ∧ S.den r = planSem p
  | .lit x pol, s, s', r, hi, hv, h => by
    simp only [compilePlan, Option.some.injEq, Prod.mk.injEq] at h
    obtain ⟨rfl, rfl⟩ := h
    exact ⟨hi, S.var_ok x pol hv⟩
  | .constTrue, s, s', r, hi, _, h => by
    simp only [compilePlan, Option.some.injEq, Prod.mk.injEq] at h
    obtain ⟨rfl, rfl⟩ := h
    exact ⟨hi, S.tru_ok⟩
  | .constFalse, s, s', r, hi, _, h => by
    simp only [compilePlan, Option.some.injEq, Prod.mk.injEq] at h
    obtain ⟨rfl, rfl⟩ := h
    exact ⟨hi, S.fls_ok⟩
  | .not e, s, s', r, hi, hv, h => by
    simp only [compilePlan] at h
    split at h
    · cases h
    · rename_i s1 r1 h1
      simp only [Option.some.injEq, Prod.mk.injEq] at h; obtain ⟨rfl, rfl⟩ := h
      obtain ⟨i1, g1, d1⟩ := compilePlan_ok e hi hv h1
      obtain ⟨g, d⟩ := S.neg_ok r1 g1
      exact ⟨i1, g, by rw [d, d1]; rfl⟩
  | .and l r', s, s', r, hi, hv, h => by
    simp only [compilePlan] at h
    split at h
    · cases h
    · rename_i s1 r1 h1
      split at h
      · cases h
      · rename_i s2 r2 h2
        obtain ⟨i1, g1, d1⟩ := compilePlan_ok l hi hv.1 h1
        obtain ⟨i2, g2, d2⟩ := compilePlan_ok r' i1 hv.2 h2
        obtain ⟨i3, g3, d3⟩ := S.and_ok _ _ _ _ _ i2 g1 g2 h
        exact ⟨i3, g3, by rw [d3, d1, d2]; rfl⟩
  | .or l r', s, s', r, hi, hv, h => by
    simp only [compilePlan] at h
    split at h
    · cases h
    · rename_i s1 r1 h1
      split at h
      · cases h
      · rename_i s2 r2 h2
        obtain ⟨i1, g1, d1⟩ := compilePlan_ok l hi hv.1 h1
        obtain ⟨i2, g2, d2⟩ := compilePlan_ok r' i1 hv.2 h2
        obtain ⟨i3, g3, d3⟩ := S.or_ok _ _ _ _ _ i2 g1 g2 h
        exact ⟨i3, g3, by rw [d3, d1, d2]; rfl⟩
  | .iff l r', s, s', r, hi, hv, h => by
    simp only [compilePlan] at h
    split at h
    · cases h
    · rename_i s1 r1 h1
      split at h
      · cases h
      · rename_i s2 r2 h2
        obtain ⟨i1, g1, d1⟩ := compilePlan_ok l hi hv.1 h1
        obtain ⟨i2, g2, d2⟩ := compilePlan_ok r' i1 hv.2 h2
        obtain ⟨i3, g3, d3⟩ := S.iff_ok _ _ _ _ _ i2 g1 g2 h
        exact ⟨i3, g3, by rw [d3, d1, d2]; rfl⟩
  | .ite g t e, s, s', r, hi, hv, h => by
    simp only [compilePlan] at h
    split at h
    · cases h
    · rename_i s1 r1 h1
      split at h
      · cases h
      · rename_i s2 r2 h2
        split at h
        · cases h
        · rename_i s3 r3 h3
          obtain ⟨i1, g1, d1⟩ := compilePlan_ok g hi hv.1 h1
          obtain ⟨i2, g2, d2⟩ := compilePlan_ok t i1 hv.2.1 h2
          obtain ⟨i3, g3, d3⟩ := compilePlan_ok e i2 hv.2.2 h3
          obtain ⟨i4, g4, d4⟩ := S.ite_ok _ _ _ _ _ _ i3 g1 g2 g3 h
          exact ⟨i4, g4, by rw [d4, d1, d2, d3]; rfl⟩

end generic

/-! ## `from_dtree` -/

theorem planSem_foldl_or (a : Assign) : ∀ (rest : Clause) (p : Plan),
    planSem (rest.foldl (fun acc i => Plan.or acc (.lit i.var i.pol)) p) a
      = (planSem p a || clauseSat a rest)
  | [], p => by simp [clauseSat]
  | l :: ls, p => by
    rw [List.foldl_cons, planSem_foldl_or a ls, clauseSat_cons]
    simp only [planSem, fOr, fVar_litSat, Bool.or_assoc]

/-- the plan of a leaf denotes its clause (empty, unit and longer clauses) -/
theorem planSem_ofClause (c : Clause) : planSem (Plan.ofClause c) = fun a => clauseSat a c := by
  funext a
  match c with
  | [] => rfl
  | [l] => simp [Plan.ofClause, planSem, fVar_litSat, clauseSat, List.any]
  | l :: l' :: ls =>
    simp only [Plan.ofClause]
    rw [planSem_foldl_or]
    simp only [planSem, fVar_litSat, clauseSat_cons]

/-- **the plan of a dtree denotes the conjunction of the clauses at its leaves** -/
theorem planFromDtree_sem : ∀ t : DTree, planSem (Plan.fromDtree t) = cnfFn t.clauses
  | .leaf c => by
    rw [Plan.fromDtree, planSem_ofClause]
    funext a; simp [DTree.clauses, cnfFn, cnfSat]
  | .node l r => by
    rw [Plan.fromDtree, planSem, planFromDtree_sem l, planFromDtree_sem r]
    funext a; simp only [fAnd, cnfFn, DTree.clauses, cnfSat_append]

theorem allVars_foldl_or (Q : Nat → Prop) : ∀ (rest : Clause) (p : Plan), p.AllVars Q →
    (∀ l ∈ rest, Q l.var) →
    (rest.foldl (fun acc i => Plan.or acc (.lit i.var i.pol)) p).AllVars Q
  | [], _, hp, _ => hp
  | l :: ls, p, hp, h => by
    rw [List.foldl_cons]
    exact allVars_foldl_or Q ls _ ⟨hp, h l (List.mem_cons_self ..)⟩
      (fun l' h' => h l' (List.mem_cons_of_mem _ h'))

theorem allVars_ofClause (Q : Nat → Prop) (c : Clause) (h : ∀ l ∈ c, Q l.var) :
    (Plan.ofClause c).AllVars Q := by
  match c with
  | [] => trivial
  | [l] => exact h l (List.mem_cons_self ..)
  | l :: l' :: ls =>
    simp only [Plan.ofClause]
    exact allVars_foldl_or Q _ _ (h l (List.mem_cons_self ..))
      (fun x hx => h x (List.mem_cons_of_mem _ hx))

theorem allVars_fromDtree (Q : Nat → Prop) : ∀ t : DTree, (∀ c ∈ t.clauses, ∀ l ∈ c, Q l.var) →
    (Plan.fromDtree t).AllVars Q
  | .leaf c, h => allVars_ofClause Q c (h c (by simp [DTree.clauses]))
  | .node l r, h => by
    refine ⟨allVars_fromDtree Q l fun c hc => h c ?_, allVars_fromDtree Q r fun c hc => h c ?_⟩
    · simp [DTree.clauses, hc]
    · simp [DTree.clauses, hc]

section generic
variable {σ P : Type} {O : Ops σ P} (S : OpsSpec O)

/-! ## `compile_cnf` -/

theorem compileClause_ok : ∀ (c : Clause) {s s' : σ} {acc r : P}, S.Inv s → S.Good acc →
    (∀ l ∈ c, S.VarOk l.var) → compileClause O s acc c = some (s', r) →
    S.Inv s' ∧ S.Good r ∧ ∀ a, S.den r a = (S.den acc a || clauseSat a c)
  | [], s, s', acc, r, hi, hg, _, h => by
    simp only [compileClause, Option.some.injEq, Prod.mk.injEq] at h
    obtain ⟨rfl, rfl⟩ := h
    exact ⟨hi, hg, fun a => by simp [clauseSat]⟩
  | l :: ls, s, s', acc, r, hi, hg, hv, h => by
    simp only [compileClause] at h
    split at h
    · cases h
    · rename_i s1 r1 h1
      obtain ⟨gv, dv⟩ := S.var_ok l.var l.pol (hv l (List.mem_cons_self ..))
      obtain ⟨i1, g1, d1⟩ := S.or_ok _ _ _ _ _ hi hg gv h1
      obtain ⟨i2, g2, d2⟩ :=
        compileClause_ok ls i1 g1 (fun l' h' => hv l' (List.mem_cons_of_mem _ h')) h
      refine ⟨i2, g2, fun a => ?_⟩
      rw [d2 a, d1, dv, clauseSat_cons]
      simp only [fOr, fVar_litSat, Bool.or_assoc]

/-- every clause diagram denotes its clause: the re-disjoined first literal is absorbed -/
theorem compileClauses_ok : ∀ (cs : List Clause) {s s' : σ} {ps : List P}, S.Inv s →
    (∀ c ∈ cs, ∀ l ∈ c, S.VarOk l.var) → compileClauses O s cs = some (s', ps) →
    S.Inv s' ∧ (∀ p ∈ ps, S.Good p) ∧ ∀ a, ps.all (fun p => S.den p a) = cnfSat a cs
  | [], s, s', ps, hi, _, h => by
    simp only [compileClauses, Option.some.injEq, Prod.mk.injEq] at h
    obtain ⟨rfl, rfl⟩ := h
    exact ⟨hi, fun p hp => (by cases hp), fun a => rfl⟩
  | [] :: cs, s, s', ps, _, _, h => by simp [compileClauses] at h
  | (l :: ls) :: cs, s, s', ps, hi, hv, h => by
    simp only [compileClauses] at h
    split at h
    · cases h
    · rename_i s1 p h1
      split at h
      · cases h
      · rename_i s2 ps' h2
        simp only [Option.some.injEq, Prod.mk.injEq] at h; obtain ⟨rfl, rfl⟩ := h
        have hvc := hv (l :: ls) (List.mem_cons_self ..)
        obtain ⟨gv, dv⟩ := S.var_ok l.var l.pol (hvc l (List.mem_cons_self ..))
        obtain ⟨i1, g1, d1⟩ := compileClause_ok S (l :: ls) hi gv hvc h1
        obtain ⟨i2, g2, d2⟩ :=
          compileClauses_ok cs i1 (fun c hc => hv c (List.mem_cons_of_mem _ hc)) h2
        refine ⟨i2, ?_, fun a => ?_⟩
        · intro q hq
          rcases List.mem_cons.1 hq with rfl | hq
          · exact g1
          · exact g2 q hq
        · rw [List.all_cons, d2 a, cnfSat_cons, d1 a, dv, fVar_litSat, clauseSat_cons]
          cases litSat a l <;> rfl

/-- the value of an optional diagram (`None` stands for the empty conjunction) -/
def optDen (r : Option P) (a : Assign) : Bool :=
  match r with
  | none => true
  | some x => S.den x a

theorem collapse_ok : ∀ (n : Nat) {s s' : σ} (ps : List P) {r : Option P}, S.Inv s →
    (∀ p ∈ ps, S.Good p) → collapse O n s ps = some (s', r) →
    S.Inv s' ∧ (∀ x, r = some x → S.Good x) ∧ ∀ a, optDen S r a = ps.all (fun p => S.den p a)
  | _, s, s', [], r, hi, _, h => by
    simp only [collapse, Option.some.injEq, Prod.mk.injEq] at h
    obtain ⟨rfl, rfl⟩ := h
    exact ⟨hi, fun x hx => (by cases hx), fun a => rfl⟩
  | _, s, s', [p], r, hi, hg, h => by
    simp only [collapse, Option.some.injEq, Prod.mk.injEq] at h
    obtain ⟨rfl, rfl⟩ := h
    refine ⟨hi, fun x hx => ?_, fun a => by simp [optDen]⟩
    cases hx; exact hg _ (List.mem_cons_self ..)
  | 0, s, s', _ :: _ :: _, r, _, _, h => by simp [collapse] at h
  | n + 1, s, s', p :: q :: ps, r, hi, hg, h => by
    simp only [collapse] at h
    generalize hv : p :: q :: ps = v at h hg
    generalize hk : v.length / 2 = k at h
    have hsplit : ∀ a, v.all (fun p => S.den p a)
        = ((v.take k).all (fun p => S.den p a) && (v.drop k).all (fun p => S.den p a)) := by
      intro a; rw [← List.all_append, List.take_append_drop]
    split at h
    · cases h
    · rename_i s1 subL h1
      split at h
      · cases h
      · rename_i s2 subR h2
        obtain ⟨i1, g1, d1⟩ := collapse_ok n (v.take k) hi
          (fun x hx => hg x (List.mem_of_mem_take hx)) h1
        obtain ⟨i2, g2, d2⟩ := collapse_ok n (v.drop k) i1
          (fun x hx => hg x (List.mem_of_mem_drop hx)) h2
        split at h
        · simp only [Option.some.injEq, Prod.mk.injEq] at h; obtain ⟨rfl, rfl⟩ := h
          refine ⟨i2, fun x hx => (by cases hx), fun a => ?_⟩
          rw [hsplit a, ← d1 a, ← d2 a]; rfl
        · rename_i x
          simp only [Option.some.injEq, Prod.mk.injEq] at h; obtain ⟨rfl, rfl⟩ := h
          refine ⟨i2, fun y hy => (by cases hy; exact g1 _ rfl), fun a => ?_⟩
          rw [hsplit a, ← d1 a, ← d2 a]; simp [optDen]
        · rename_i x
          simp only [Option.some.injEq, Prod.mk.injEq] at h; obtain ⟨rfl, rfl⟩ := h
          refine ⟨i2, fun y hy => (by cases hy; exact g2 _ rfl), fun a => ?_⟩
          rw [hsplit a, ← d1 a, ← d2 a]; simp [optDen]
        · rename_i x y
          split at h
          · cases h
          · rename_i s3 z h3
            simp only [Option.some.injEq, Prod.mk.injEq] at h; obtain ⟨rfl, rfl⟩ := h
            obtain ⟨i3, g3, d3⟩ := S.and_ok _ _ _ _ _ i2 (g1 _ rfl) (g2 _ rfl) h3
            refine ⟨i3, fun y hy => (by cases hy; exact g3), fun a => ?_⟩
            rw [hsplit a, ← d1 a, ← d2 a]; simp [optDen, d3, fAnd]

/-- **`compile_cnf` is correct for every permutation of the clause list** -/
theorem compileCnf_ok {cs cs' : Cnf} (hperm : List.Perm cs cs') {s s' : σ} {r : P}
    (hi : S.Inv s) (hv : ∀ c ∈ cs, ∀ l ∈ c, S.VarOk l.var)
    (h : compileCnf O s cs' = some (s', r)) :
    S.Inv s' ∧ S.Good r ∧ S.den r = cnfFn cs := by
  unfold compileCnf at h
  split at h
  · rename_i he
    simp only [Option.some.injEq, Prod.mk.injEq] at h; obtain ⟨rfl, rfl⟩ := h
    have : cs' = [] := by simpa using he
    subst this
    have : cs = [] := hperm.eq_nil
    subst this
    exact ⟨hi, S.tru_ok.1, by rw [S.tru_ok.2]; rfl⟩
  · split at h
    · rename_i _ he
      simp only [Option.some.injEq, Prod.mk.injEq] at h; obtain ⟨rfl, rfl⟩ := h
      refine ⟨hi, S.fls_ok.1, ?_⟩
      rw [S.fls_ok.2]
      funext a
      obtain ⟨c, hc, hce⟩ := List.any_eq_true.1 he
      have hc' : c ∈ cs := hperm.mem_iff.2 hc
      have : c = [] := by simpa using hce
      subst this
      have : cnfSat a cs = false := by
        simp only [cnfSat]
        apply Bool.eq_false_iff.2
        intro hall
        have := List.all_eq_true.1 hall [] hc'
        simp [clauseSat] at this
      simp [cnfFn, this, fFalse]
    · split at h
      · cases h
      · rename_i s1 ps h1
        have hv' : ∀ c ∈ cs', ∀ l ∈ c, S.VarOk l.var := fun c hc => hv c (hperm.mem_iff.2 hc)
        obtain ⟨i1, g1, d1⟩ := compileClauses_ok S cs' hi hv' h1
        unfold collapseClauses at h
        split at h
        · cases h
        · rename_i s2 h2
          simp only [Option.some.injEq, Prod.mk.injEq] at h; obtain ⟨rfl, rfl⟩ := h
          obtain ⟨i2, _, d2⟩ := collapse_ok S _ ps i1 g1 h2
          refine ⟨i2, S.tru_ok.1, ?_⟩
          rw [S.tru_ok.2]; funext a
          have := d2 a
          rw [d1 a, ← cnfSat_perm a hperm] at this
          simp only [optDen] at this
          simp [fTrue, cnfFn, ← this]
        · rename_i s2 x h2
          simp only [Option.some.injEq, Prod.mk.injEq] at h; obtain ⟨rfl, rfl⟩ := h
          obtain ⟨i2, g2, d2⟩ := collapse_ok S _ ps i1 g1 h2
          refine ⟨i2, g2 _ rfl, ?_⟩
          funext a
          have := d2 a
          rw [d1 a, ← cnfSat_perm a hperm] at this
          simpa [optDen, cnfFn] using this

end generic
end Compile

/-! ## `compile_cnf_with_assignments` -/
namespace Compile
open Spec

/-- the total assignment `a` overridden by the partial model `m` -/
def under (m : PModel) (a : Assign) : Assign := fun y => (m y).getD (a y)

/-- the assignment `fCondList` evaluates at: earlier pairs of the list win -/
def ovr : List (Nat × Bool) → Assign → Assign
  | [], a => a
  | (x, b) :: rest, a => upd (ovr rest a) x b

theorem fCondList_eq_ovr : ∀ (lits : List (Nat × Bool)) (f : BoolFn) (a : Assign),
    fCondList f lits a = f (ovr lits a)
  | [], _, _ => rfl
  | (x, b) :: rest, f, a => by
    rw [fCondList, fCondList_eq_ovr rest]; rfl

/-- the list `lits` lists exactly the assigned literals of `m` (any order, repetitions allowed) -/
def Represents (lits : List (Nat × Bool)) (m : PModel) : Prop :=
  ∀ x b, m x = some b ↔ (x, b) ∈ lits

theorem ovr_not_mem : ∀ (lits : List (Nat × Bool)) (a : Assign) (y : Nat),
    (∀ b, (y, b) ∉ lits) → ovr lits a y = a y
  | [], _, _, _ => rfl
  | (x, c) :: rest, a, y, h => by
    have hyx : y ≠ x := by
      intro e; subst e; exact h c (List.mem_cons_self ..)
    rw [ovr, upd_other _ _ hyx]
    exact ovr_not_mem rest a y (fun b hb => h b (List.mem_cons_of_mem _ hb))

theorem ovr_mem : ∀ (lits : List (Nat × Bool)) (a : Assign) (y : Nat) (b : Bool),
    (∀ x b b', (x, b) ∈ lits → (x, b') ∈ lits → b = b') → (y, b) ∈ lits → ovr lits a y = b
  | (x, c) :: rest, a, y, b, hcons, hmem => by
    by_cases hyx : y = x
    · subst hyx
      rw [ovr, upd_same]
      exact hcons y c b (List.mem_cons_self ..) hmem
    · rw [ovr, upd_other _ _ hyx]
      have hmem' : (y, b) ∈ rest := by
        rcases List.mem_cons.1 hmem with e | e
        · exact absurd (congrArg Prod.fst e) hyx
        · exact e
      exact ovr_mem rest a y b
        (fun x b b' h1 h2 => hcons x b b' (List.mem_cons_of_mem _ h1) (List.mem_cons_of_mem _ h2))
        hmem'

theorem ovr_eq_under {lits : List (Nat × Bool)} {m : PModel} (hr : Represents lits m)
    (a : Assign) : ovr lits a = under m a := by
  funext y
  unfold under
  cases hm : m y with
  | none =>
    rw [ovr_not_mem lits a y]; · rfl
    intro b hb
    have := (hr y b).2 hb
    rw [hm] at this; cases this
  | some b =>
    rw [ovr_mem lits a y b]; · rfl
    · intro x b1 b2 h1 h2
      have e1 := (hr x b1).2 h1
      have e2 := (hr x b2).2 h2
      rw [e1] at e2; exact Option.some.inj e2
    · exact (hr y b).1 hm

/-- conditioning a function on the literals of a partial model = evaluating it under the model -/
theorem fCondList_represents {lits : List (Nat × Bool)} {m : PModel} (hr : Represents lits m)
    (f : BoolFn) : fCondList f lits = fun a => f (under m a) := by
  funext a; rw [fCondList_eq_ovr, ovr_eq_under hr]

theorem extract_perm {α : Type} : ∀ (i : Nat) (l : List α) {x : α} {r : List α},
    extract i l = some (x, r) → List.Perm l (x :: r)
  | _, [], _, _, h => by simp [extract] at h
  | 0, y :: ys, x, r, h => by
    simp only [extract, Option.some.injEq, Prod.mk.injEq] at h
    obtain ⟨rfl, rfl⟩ := h; exact List.Perm.refl _
  | i + 1, y :: ys, x, r, h => by
    simp only [extract] at h
    split at h
    · cases h
    · rename_i z r' h1
      simp only [Option.some.injEq, Prod.mk.injEq] at h; obtain ⟨rfl, rfl⟩ := h
      exact ((extract_perm i ys h1).cons y).trans (List.Perm.swap _ _ _)

theorem extract_isSome {α : Type} : ∀ (i : Nat) (l : List α), i < l.length →
    (extract i l).isSome = true
  | _, [], h => by simp at h
  | 0, _ :: _, _ => rfl
  | i + 1, y :: ys, h => by
    have := extract_isSome i ys (by simpa using h)
    simp only [extract]
    cases h1 : extract i ys with
    | none => rw [h1] at this; cases this
    | some p => rfl

section generic
variable {σ P : Type} {O : Ops σ P} (S : OpsSpec O)

theorem clauseUnder_ok (m : PModel) : ∀ (c : Clause) {s s' : σ} {cur r : P}, S.Inv s →
    S.Good cur → (∀ l ∈ c, S.VarOk l.var) → clauseUnder O m s cur c = some (s', r) →
    S.Inv s' ∧ S.Good r ∧ ∀ a, S.den r a = (S.den cur a || clauseSat (under m a) c)
  | [], s, s', cur, r, hi, hg, _, h => by
    simp only [clauseUnder, Option.some.injEq, Prod.mk.injEq] at h
    obtain ⟨rfl, rfl⟩ := h
    exact ⟨hi, hg, fun a => by simp [clauseSat]⟩
  | l :: ls, s, s', cur, r, hi, hg, hv, h => by
    have hvs : ∀ l' ∈ ls, S.VarOk l'.var := fun l' h' => hv l' (List.mem_cons_of_mem _ h')
    simp only [clauseUnder] at h
    split at h
    · -- unassigned
      rename_i hm
      split at h
      · cases h
      · rename_i s1 r1 h1
        obtain ⟨gv, dv⟩ := S.var_ok l.var l.pol (hv l (List.mem_cons_self ..))
        obtain ⟨i1, g1, d1⟩ := S.or_ok _ _ _ _ _ hi gv hg h1
        obtain ⟨i2, g2, d2⟩ := clauseUnder_ok m ls i1 g1 hvs h
        refine ⟨i2, g2, fun a => ?_⟩
        have hl : litSat (under m a) l = litSat a l := by simp [litSat, under, hm]
        rw [d2 a, d1, dv, clauseSat_cons, hl]
        simp only [fOr, fVar_litSat]
        cases litSat a l <;> cases S.den cur a <;> rfl
    · rename_i v hm
      split at h
      · -- the literal is true: `cur = true; break`
        rename_i hvp
        simp only [Option.some.injEq, Prod.mk.injEq] at h; obtain ⟨rfl, rfl⟩ := h
        refine ⟨hi, S.tru_ok.1, fun a => ?_⟩
        have hl : litSat (under m a) l = true := by simp [litSat, under, hm, hvp]
        rw [S.tru_ok.2, clauseSat_cons, hl]; simp [fTrue]
      · -- the literal is false: `continue`
        rename_i hvp
        obtain ⟨i2, g2, d2⟩ := clauseUnder_ok m ls hi hg hvs h
        refine ⟨i2, g2, fun a => ?_⟩
        have hl : litSat (under m a) l = false := by simp [litSat, under, hm, hvp]
        rw [d2 a, clauseSat_cons, hl]; simp

theorem clausesUnder_ok (m : PModel) : ∀ (cs : List Clause) {s s' : σ} {es : List (P × Nat)},
    S.Inv s → (∀ c ∈ cs, ∀ l ∈ c, S.VarOk l.var) → clausesUnder O m s cs = some (s', es) →
    S.Inv s' ∧ (∀ e ∈ es, S.Good e.1) ∧ es.length = cs.length ∧
      ∀ a, es.all (fun e => S.den e.1 a) = cnfSat (under m a) cs
  | [], s, s', es, hi, _, h => by
    simp only [clausesUnder, Option.some.injEq, Prod.mk.injEq] at h
    obtain ⟨rfl, rfl⟩ := h
    exact ⟨hi, fun p hp => (by cases hp), rfl, fun a => rfl⟩
  | c :: cs, s, s', es, hi, hv, h => by
    simp only [clausesUnder] at h
    split at h
    · cases h
    · rename_i s1 p h1
      split at h
      · cases h
      · rename_i s2 es' h2
        simp only [Option.some.injEq, Prod.mk.injEq] at h; obtain ⟨rfl, rfl⟩ := h
        obtain ⟨i1, g1, d1⟩ :=
          clauseUnder_ok S m c hi S.fls_ok.1 (hv c (List.mem_cons_self ..)) h1
        obtain ⟨i2, g2, l2, d2⟩ :=
          clausesUnder_ok m cs i1 (fun c hc => hv c (List.mem_cons_of_mem _ hc)) h2
        refine ⟨i2, ?_, by simp [l2], fun a => ?_⟩
        · intro q hq
          rcases List.mem_cons.1 hq with rfl | hq
          · exact g1
          · exact g2 q hq
        · rw [List.all_cons, d2 a, cnfSat_cons, d1 a, S.fls_ok.2]; simp [fFalse]

/-- **the merge loop conjoins all entries, whatever the strategy picks** -/
theorem mergeLoop_ok (strat : Strategy P) : ∀ (n : Nat) {s s' : σ} (es : List (P × Nat)) {r : P},
    S.Inv s → (∀ e ∈ es, S.Good e.1) → mergeLoop O strat n s es = some (s', r) →
    S.Inv s' ∧ S.Good r ∧ ∀ a, S.den r a = es.all (fun e => S.den e.1 a)
  | _, s, s', [], r, _, _, h => by simp [mergeLoop] at h
  | _, s, s', [e], r, hi, hg, h => by
    simp only [mergeLoop, Option.some.injEq, Prod.mk.injEq] at h
    obtain ⟨rfl, rfl⟩ := h
    exact ⟨hi, hg _ (List.mem_cons_self ..), fun a => by simp⟩
  | 0, s, s', _ :: _ :: _, r, _, _, h => by simp [mergeLoop] at h
  | n + 1, s, s', e :: f :: es, r, hi, hg, h => by
    simp only [mergeLoop] at h
    generalize hv : e :: f :: es = v at h hg
    split at h
    · cases h
    · rename_i e1 rest h1
      split at h
      · cases h
      · rename_i e2 rest2 h2
        split at h
        · cases h
        · rename_i s1 x h3
          have p1 := extract_perm _ _ h1
          have p2 := extract_perm _ _ h2
          have ge1 : S.Good e1.1 := hg e1 (p1.mem_iff.2 (List.mem_cons_self ..))
          have grest : ∀ y ∈ rest, S.Good y.1 :=
            fun y hy => hg y (p1.mem_iff.2 (List.mem_cons_of_mem _ hy))
          have ge2 : S.Good e2.1 := grest e2 (p2.mem_iff.2 (List.mem_cons_self ..))
          obtain ⟨i1, g1, d1⟩ := S.and_ok _ _ _ _ _ hi ge1 ge2 h3
          have gnew : ∀ y ∈ rest2 ++ [(x, O.size x)], S.Good y.1 := by
            intro y hy
            rcases List.mem_append.1 hy with hy | hy
            · exact grest y (p2.mem_iff.2 (List.mem_cons_of_mem _ hy))
            · simp only [List.mem_singleton] at hy; subst hy; exact g1
          obtain ⟨i2, g2, d2⟩ := mergeLoop_ok strat n _ i1 gnew h
          refine ⟨i2, g2, fun a => ?_⟩
          rw [d2 a, all_perm _ p1, List.all_cons, all_perm _ p2, List.all_cons, List.all_append]
          simp only [List.all_cons, List.all_nil, Bool.and_true, d1, fAnd]
          cases S.den e1.1 a <;> cases S.den e2.1 a <;>
            cases rest2.all (fun e => S.den e.1 a) <;> rfl

/-- **`compile_cnf_with_assignments` denotes the CNF evaluated under the partial model, for
every merge strategy** -/
theorem compileWithAssign_ok (strat : Strategy P) (m : PModel) {cs : Cnf} {s s' : σ} {r : P}
    (hi : S.Inv s) (hv : ∀ c ∈ cs, ∀ l ∈ c, S.VarOk l.var)
    (h : compileWithAssign O strat m s cs = some (s', r)) :
    S.Inv s' ∧ S.Good r ∧ S.den r = fun a => cnfSat (under m a) cs := by
  unfold compileWithAssign at h
  split at h
  · rename_i he
    simp only [Option.some.injEq, Prod.mk.injEq] at h; obtain ⟨rfl, rfl⟩ := h
    have : cs = [] := by simpa using he
    subst this
    exact ⟨hi, S.tru_ok.1, by rw [S.tru_ok.2]; rfl⟩
  · split at h
    · cases h
    · rename_i s1 es h1
      obtain ⟨i1, g1, _, d1⟩ := clausesUnder_ok S m cs hi hv h1
      obtain ⟨i2, g2, d2⟩ := mergeLoop_ok S strat _ es i1 g1 h
      exact ⟨i2, g2, funext fun a => by rw [d2 a, d1 a]⟩

end generic
end Compile

/-! ## the recursion bounds and the panics are never the reason for `none`

If the builder operations themselves always return (`isSome`), so do the compile functions: the
depth bound of `collapse`, the iteration bound of `mergeLoop`, the `lit_vec[0]` panic and the
`pop().unwrap()` panic are unreachable from the entry points. -/
namespace Compile
open Spec

section total
variable {σ P : Type} (O : Ops σ P)

theorem extract_length {α : Type} {i : Nat} {l : List α} {x : α} {r : List α}
    (h : extract i l = some (x, r)) : r.length + 1 = l.length := by
  have := (extract_perm i l h).length_eq; simp at this; omega

theorem collapse_total (hand : ∀ s p q, (O.and s p q).isSome = true) :
    ∀ (n : Nat) (s : σ) (ps : List P), ps.length ≤ n + 1 → (collapse O n s ps).isSome = true
  | _, _, [], _ => by simp [collapse]
  | _, _, [_], _ => by simp [collapse]
  | 0, _, _ :: _ :: _, h => by simp at h
  | n + 1, s, p :: q :: ps, h => by
    simp only [collapse]
    generalize hv : p :: q :: ps = v at h
    have hl : 2 ≤ v.length := by subst hv; simp
    obtain ⟨⟨s1, subL⟩, e1⟩ := Option.isSome_iff_exists.1
      (collapse_total hand n s (v.take (v.length / 2)) (by rw [List.length_take]; omega))
    rw [e1]; dsimp only
    obtain ⟨⟨s2, subR⟩, e2⟩ := Option.isSome_iff_exists.1
      (collapse_total hand n s1 (v.drop (v.length / 2)) (by rw [List.length_drop]; omega))
    rw [e2]; dsimp only
    cases subL with
    | none => cases subR <;> rfl
    | some x =>
      cases subR with
      | none => rfl
      | some y =>
        obtain ⟨⟨s3, r⟩, e3⟩ := Option.isSome_iff_exists.1 (hand s2 x y)
        dsimp only; rw [e3]; rfl

theorem compileClause_total (hor : ∀ s p q, (O.or s p q).isSome = true) :
    ∀ (c : Clause) (s : σ) (acc : P), (compileClause O s acc c).isSome = true
  | [], _, _ => rfl
  | l :: ls, s, acc => by
    simp only [compileClause]
    have h1 := hor s acc (O.var l.var l.pol)
    cases e1 : O.or s acc (O.var l.var l.pol) with
    | none => rw [e1] at h1; cases h1
    | some x => exact compileClause_total hor ls x.1 x.2

theorem compileClauses_total (hor : ∀ s p q, (O.or s p q).isSome = true) :
    ∀ (cs : List Clause) (s : σ), (∀ c ∈ cs, c ≠ []) → (compileClauses O s cs).isSome = true
  | [], _, _ => rfl
  | [] :: _, _, h => absurd rfl (h [] (List.mem_cons_self ..))
  | (l :: ls) :: cs, s, h => by
    simp only [compileClauses]
    obtain ⟨⟨s1, p⟩, e1⟩ := Option.isSome_iff_exists.1
      (compileClause_total O hor (l :: ls) s (O.var l.var l.pol))
    rw [e1]; dsimp only
    obtain ⟨⟨s2, ps⟩, e2⟩ := Option.isSome_iff_exists.1
      (compileClauses_total hor cs s1 (fun c hc => h c (List.mem_cons_of_mem _ hc)))
    rw [e2]; rfl

/-- `compile_cnf` returns whenever `and`/`or` do -/
theorem compileCnf_total (hand : ∀ s p q, (O.and s p q).isSome = true)
    (hor : ∀ s p q, (O.or s p q).isSome = true) (s : σ) (cs : Cnf) :
    (compileCnf O s cs).isSome = true := by
  unfold compileCnf
  split
  · rfl
  · split
    · rfl
    · rename_i _ hne
      have hne' : ∀ c ∈ cs, c ≠ [] := by
        intro c hc e
        apply hne
        exact List.any_eq_true.2 ⟨c, hc, by simp [e]⟩
      obtain ⟨⟨s1, ps⟩, e1⟩ := Option.isSome_iff_exists.1 (compileClauses_total O hor cs s hne')
      rw [e1]; dsimp only
      obtain ⟨⟨s2, r⟩, e2⟩ := Option.isSome_iff_exists.1
        (collapse_total O hand ps.length s1 ps (Nat.le_succ _))
      simp only [collapseClauses]
      rw [e2]; cases r <;> rfl

theorem clauseUnder_total (hor : ∀ s p q, (O.or s p q).isSome = true) (m : PModel) :
    ∀ (c : Clause) (s : σ) (cur : P), (clauseUnder O m s cur c).isSome = true
  | [], _, _ => rfl
  | l :: ls, s, cur => by
    simp only [clauseUnder]
    split
    · have h1 := hor s (O.var l.var l.pol) cur
      cases e1 : O.or s (O.var l.var l.pol) cur with
      | none => rw [e1] at h1; cases h1
      | some x => exact clauseUnder_total hor m ls x.1 x.2
    · split
      · rfl
      · exact clauseUnder_total hor m ls s cur

theorem clausesUnder_total (hor : ∀ s p q, (O.or s p q).isSome = true) (m : PModel) :
    ∀ (cs : List Clause) (s : σ), (clausesUnder O m s cs).isSome = true
  | [], _ => rfl
  | c :: cs, s => by
    simp only [clausesUnder]
    obtain ⟨⟨s1, p⟩, e1⟩ := Option.isSome_iff_exists.1 (clauseUnder_total O hor m c s O.fls)
    rw [e1]; dsimp only
    obtain ⟨⟨s2, es⟩, e2⟩ := Option.isSome_iff_exists.1 (clausesUnder_total hor m cs s1)
    rw [e2]; rfl

theorem clausesUnder_length (m : PModel) : ∀ (cs : List Clause) {s s' : σ} {es : List (P × Nat)},
    clausesUnder O m s cs = some (s', es) → es.length = cs.length
  | [], s, s', es, h => by
    simp only [clausesUnder, Option.some.injEq, Prod.mk.injEq] at h
    obtain ⟨_, rfl⟩ := h; rfl
  | c :: cs, s, s', es, h => by
    simp only [clausesUnder] at h
    split at h
    · cases h
    · split at h
      · cases h
      · rename_i h2
        simp only [Option.some.injEq, Prod.mk.injEq] at h; obtain ⟨_, rfl⟩ := h
        simp [clausesUnder_length m cs h2]

theorem mergeLoop_total (hand : ∀ s p q, (O.and s p q).isSome = true) (strat : Strategy P) :
    ∀ (n : Nat) (s : σ) (es : List (P × Nat)), es ≠ [] → es.length ≤ n + 1 →
      (mergeLoop O strat n s es).isSome = true
  | _, _, [], h, _ => absurd rfl h
  | _, _, [_], _, _ => by simp [mergeLoop]
  | 0, _, _ :: _ :: _, _, h => by simp at h
  | n + 1, s, e :: f :: es, _, h => by
    simp only [mergeLoop]
    generalize hv : e :: f :: es = v at h
    have hl : 2 ≤ v.length := by subst hv; simp
    obtain ⟨⟨e1', rest⟩, e1⟩ := Option.isSome_iff_exists.1
      (extract_isSome ((strat v).1 % v.length) v (Nat.mod_lt _ (by omega)))
    have l1 := extract_length e1
    obtain ⟨⟨e2', rest2⟩, e2⟩ := Option.isSome_iff_exists.1
      (extract_isSome ((strat v).2 % rest.length) rest (Nat.mod_lt _ (by omega)))
    have l2 := extract_length e2
    obtain ⟨⟨s1, r⟩, e3⟩ := Option.isSome_iff_exists.1 (hand s e1'.1 e2'.1)
    rw [e1]; dsimp only
    rw [e2]; dsimp only
    rw [e3]; dsimp only
    exact mergeLoop_total hand strat n s1 _ (by simp) (by simp; omega)

/-- `compile_cnf_with_assignments` returns whenever `and`/`or` do, for every strategy -/
theorem compileWithAssign_total (hand : ∀ s p q, (O.and s p q).isSome = true)
    (hor : ∀ s p q, (O.or s p q).isSome = true) (strat : Strategy P) (m : PModel) (s : σ)
    (cs : Cnf) : (compileWithAssign O strat m s cs).isSome = true := by
  unfold compileWithAssign
  split
  · rfl
  · rename_i hne
    obtain ⟨⟨s1, es⟩, e1⟩ := Option.isSome_iff_exists.1 (clausesUnder_total O hor m cs s)
    have hl := clausesUnder_length O m cs e1
    have hne' : es ≠ [] := by
      intro e; subst e
      apply hne
      cases cs with
      | nil => rfl
      | cons _ _ => simp at hl
    rw [e1]
    exact mergeLoop_total O hand strat es.length s1 es hne' (Nat.le_succ _)

end total
end Compile

/-! ## the ROBDD builder meets the specification -/
namespace Bdd
open Spec Compile

/-- builder-state invariant for the compile theorems: the apply cache is semantically sound and
holds only well formed results -/
def CInv (C : CacheImpl) (lvl : Nat → Nat) (s : C.σ) : Prop := CacheSound C s ∧ CacheWF C lvl s

theorem cinv_empty (C : CacheImpl) (lvl : Nat → Nat) : CInv C lvl C.empty :=
  ⟨cacheSound_empty C, cacheWF_empty C lvl⟩

/-- the ROBDD builder model, for every lawful cache, injective level map and fuel -/
def bddSpec (C : CacheImpl) (lvl : Nat → Nat) (inj : ∀ x y, lvl x = lvl y → x = y) (fuel : Nat) :
    OpsSpec (ops C lvl fuel) where
  Inv := CInv C lvl
  Good := WF lvl
  VarOk := fun _ => True
  den := den
  tru_ok := ⟨WF_tru lvl, rfl⟩
  fls_ok := ⟨WF_fls lvl, rfl⟩
  var_ok := fun x pol _ => ⟨mkVar_WF lvl x pol, mkVar_sem x pol⟩
  neg_ok := fun p hp => ⟨WF_neg hp, den_neg p⟩
  and_ok := fun _ _ _ _ _ hi hp hq h =>
    have h1 := bAnd_sem hi.1 h
    have h2 := bAnd_WF C lvl inj hi.2 hp hq h
    ⟨⟨h1.1, h2.1⟩, h2.2, h1.2⟩
  or_ok := fun _ _ _ _ _ hi hp hq h =>
    have h1 := bOr_sem hi.1 h
    have h2 := bOr_WF C lvl inj hi.2 hp hq h
    ⟨⟨h1.1, h2.1⟩, h2.2, h1.2⟩
  iff_ok := fun _ _ _ _ _ hi hp hq h =>
    have h1 := bIff_sem hi.1 h
    have h2 := bIff_WF C lvl inj hi.2 hp hq h
    ⟨⟨h1.1, h2.1⟩, h2.2, h1.2⟩
  xor_ok := fun _ _ _ _ _ hi hp hq h =>
    have h1 := bXor_sem hi.1 h
    have h2 := bXor_WF C lvl inj hi.2 hp hq h
    ⟨⟨h1.1, h2.1⟩, h2.2, h1.2⟩
  ite_ok := fun _ _ _ _ _ _ hi hf hg hh h =>
    have h1 := ite_den hi.1 h
    have h2 := ite_WF C lvl inj hi.2 hf hg hh h
    ⟨⟨h1.1, h2.1⟩, h2.2, h1.2⟩

/-- `assignment_iter` of a partial model given as a vector lists exactly its assigned literals -/
theorem assignmentIter_represents (m : List (Option Bool)) :
    Represents (assignmentIter m) (pmodelOfList m) := by
  intro x b
  simp only [assignmentIter, pmodelOfList, List.mem_append, List.mem_filterMap, Prod.exists,
    List.mem_zipIdx_iff_getElem?]
  constructor
  · intro h
    have hx : m[x]? = some (some b) := by
      cases hm : m[x]? with
      | none => rw [hm] at h; cases h
      | some o => rw [hm] at h; simp only [Option.join, Option.bind_some, id] at h; rw [h]
    cases b
    · exact Or.inl ⟨some false, x, hx, by simp⟩
    · exact Or.inr ⟨some true, x, hx, by simp⟩
  · rintro (⟨o, i, hi, h⟩ | ⟨o, i, hi, h⟩)
    · split at h
      · rename_i ho
        simp only [Option.some.injEq, Prod.mk.injEq] at h; obtain ⟨rfl, rfl⟩ := h
        have : o = some false := by simpa using ho
        subst this; rw [hi]; rfl
      · cases h
    · split at h
      · rename_i ho
        simp only [Option.some.injEq, Prod.mk.injEq] at h; obtain ⟨rfl, rfl⟩ := h
        have : o = some true := by simpa using ho
        subst this; rw [hi]; rfl
      · cases h

/-- the stable insertion sort is a permutation -/
theorem insertClause_perm (lvl : Nat → Nat) (c : Clause) : ∀ ds : List Clause,
    List.Perm (insertClause lvl c ds) (c :: ds)
  | [] => List.Perm.refl _
  | d :: ds => by
    simp only [insertClause]
    split
    · exact ((insertClause_perm lvl c ds).cons d).trans (List.Perm.swap _ _ _)
    · exact List.Perm.refl _

theorem insertLit_perm (l : Lit) : ∀ ds : Clause, List.Perm (insertLit l ds) (l :: ds)
  | [] => List.Perm.refl _
  | d :: ds => by
    simp only [insertLit]
    split
    · exact ((insertLit_perm l ds).cons d).trans (List.Perm.swap _ _ _)
    · exact List.Perm.refl _

theorem sortLits_perm : ∀ c : Clause, List.Perm c (sortLits c)
  | [] => List.Perm.refl _
  | l :: ls => by
    simp only [sortLits, List.foldr_cons]
    exact ((sortLits_perm ls).cons l).trans (insertLit_perm l _).symm

theorem any_perm {α : Type} (p : α → Bool) {l l' : List α} (h : List.Perm l l') :
    l.any p = l'.any p := by
  induction h with
  | nil => rfl
  | cons x _ ih => simp [ih]
  | swap x y l => simp only [List.any_cons]; cases p x <;> cases p y <;> rfl
  | trans _ _ ih1 ih2 => rw [ih1, ih2]

theorem clauseSat_dedupLits (a : Assign) : ∀ c : Clause, clauseSat a (dedupLits c) = clauseSat a c
  | [] => rfl
  | [_] => rfl
  | x :: y :: r => by
    simp only [dedupLits]
    split
    · rename_i e
      subst e
      rw [clauseSat_dedupLits a (x :: r)]
      simp only [clauseSat_cons]; cases litSat a x <;> rfl
    · rw [clauseSat_cons, clauseSat_dedupLits a (y :: r)]; rfl

/-- the normalisation of `Cnf::new` does not change the set of models -/
theorem cnfSat_cnfNew (a : Assign) (cs : List Clause) : cnfSat a (cnfNew cs) = cnfSat a cs := by
  induction cs with
  | nil => rfl
  | cons c cs ih =>
    have : cnfNew (c :: cs) = dedupLits (sortLits c) :: cnfNew cs := rfl
    rw [this, cnfSat_cons, cnfSat_cons, ih, clauseSat_dedupLits]
    congr 1
    exact (any_perm _ (sortLits_perm c)).symm

theorem sortClauses_perm (lvl : Nat → Nat) : ∀ cs : List Clause, List.Perm cs (sortClauses lvl cs)
  | [] => List.Perm.refl _
  | c :: cs => by
    simp only [sortClauses, List.foldr_cons]
    exact ((sortClauses_perm lvl cs).cons c).trans (insertClause_perm lvl c _).symm

end Bdd
