import RsddModel.Lemmas.SddSemantic
/-!
# Lemmas: the canonical SDD builder with compression switched OFF hands out `WFd` pointers

`WF` (C03) records that decision primes are partitions but not on which side of the vtree node the
variables of primes and subs lie; `WFs` (C04) does, syntactically, but only holds with compression
on.  `WFd` (`Lemmas/SddSemantic.lean`: `WF` + primes depend only on the left child's variables,
subs only on the right child's) is kept by the uncompressed builder: this file proves it for
`Sdd.and … false`, `condition`, `ite` and the derived operations, reusing the semantic theorems
of `Lemmas/SddSem.lean` for everything about denotations.  Consequence (`Props/C07Sdd`): the
weighted model count / semantic hash of an uncompressed result is the weighted sum of its
function, too.
-/
namespace Sdd
open Spec SddSem

/-! ## unique_bdd / unique_or / canonicalize without compression -/

theorem uniqueBdd_wfd {vt : VTree} {l idx : Nat} {lo hi : Ptr} (hint : Internal vt idx)
    (hl : l ∈ vt.leftVars idx) (wlo : WFd vt lo) (whi : WFd vt hi)
    (dlo : DepIn (vt.rightVars idx) lo) (dhi : DepIn (vt.rightVars idx) hi) :
    WFd vt (uniqueBdd l lo hi idx) := by
  have hlv : l ∈ vt.leaves := leftVars_leaves hl
  simp only [uniqueBdd]
  split
  · exact whi
  · split
    · exact hlv
    · split
      · exact hlv
      · split
        · exact ⟨hint, hl, depIn_neg dlo, depIn_neg dhi, WFd_neg wlo, WFd_neg whi⟩
        · exact ⟨hint, hl, dlo, dhi, wlo, whi⟩

theorem uniqueOr_wfd {vt : VTree} {es : List Elem} {table : Nat} {r : Ptr}
    (hint : Internal vt table) (hpart : Partition es)
    (hok : ElemsOKd vt (vt.leftVars table) (vt.rightVars table) es)
    (h : uniqueOr es table = some r) : WFd vt r := by
  simp only [uniqueOr] at h
  split at h
  · rename_i l lo hi hb
    cases h
    obtain ⟨x, pol, p1, s0, s1, rfl, rfl, rfl⟩ := asBdd?_some hb
    obtain ⟨rfl, rfl⟩ := partition_two_lits hpart
    obtain ⟨_, ws0, _, ds0⟩ := hok _ (List.mem_cons_self ..)
    obtain ⟨_, ws1, dl1, ds1⟩ := hok _ (List.mem_cons_of_mem _ (List.mem_cons_self ..))
    exact uniqueBdd_wfd hint (depIn_lit_mem dl1)
      (by cases p1 <;> simpa using (by first | exact ws0 | exact ws1))
      (by cases p1 <;> simpa using (by first | exact ws1 | exact ws0))
      (by cases p1 <;> simpa using (by first | exact ds0 | exact ds1))
      (by cases p1 <;> simpa using (by first | exact ds1 | exact ds0))
  · split at h
    · cases h
    · rename_i p0 s0 rest hs
      have hcnt : ∀ a, cnt a ((p0, s0) :: rest) = 1 := by
        intro a; rw [← hs, cnt_sortByPrime]; exact hpart a
      have hok' : ElemsOKd vt (vt.leftVars table) (vt.rightVars table) ((p0, s0) :: rest) := by
        intro e he; rw [← hs, mem_sortByPrime] at he; exact hok e he
      split at h
      · cases h
        exact WFd_dec.2 ⟨hint, fun a => by rw [cnt_negSubs]; exact hcnt a, ElemsOKd_negSubs hok'⟩
      · cases h
        exact WFd_dec.2 ⟨hint, hcnt, hok'⟩

theorem canonBase_wfd {vt : VTree} {L R : List Nat} {es : List Elem} {r : Ptr}
    (hok : ElemsOKd vt L R es) (h : canonBase? es = some r) : WFd vt r := by
  unfold canonBase? at h
  split at h
  · cases h; exact WFd_tru vt
  · have := hok _ (List.mem_cons_self ..)
    split at h
    · cases h; exact this.2.1
    · split at h
      · cases h; exact WFd_fls vt
      · cases h
  · have h0 := hok _ (List.mem_cons_self ..)
    have h1 := hok _ (List.mem_cons_of_mem _ (List.mem_cons_self ..))
    split at h
    · cases h; exact h0.1
    · split at h
      · cases h; exact h1.1
      · cases h
  · cases h

theorem canonicalize_false_wfd {σ : Type} {vt : VTree} {andF : AndF σ} {st st' : σ} {es : List Elem}
    {table : Nat} {r : Ptr} (hint : Internal vt table) (hpart : Partition es)
    (hok : ElemsOKd vt (vt.leftVars table) (vt.rightVars table) es)
    (h : canonicalize false andF st es table = some (st', r)) : st' = st ∧ WFd vt r := by
  simp only [canonicalize] at h
  split at h
  · rename_i r0 hb
    cases h
    exact ⟨rfl, canonBase_wfd hok hb⟩
  · simp only [Bool.false_eq_true, if_false, Option.map_eq_some_iff] at h
    obtain ⟨r0, hr0, he⟩ := h
    cases he
    exact ⟨rfl, uniqueOr_wfd hint hpart hok hr0⟩

/-! ## the recursive call -/

/-- the recursive `and` call keeps the state invariant, returns `WFd` pointers and computes the
conjunction -/
def AndOKD {σ : Type} (P : σ → Prop) (vt : VTree) (andF : AndF σ) : Prop :=
  ∀ st a b st' r, P st → WFd vt a → WFd vt b → andF st a b = some (st', r) →
    P st' ∧ WFd vt r ∧ ∀ asg, r.eval asg = (a.eval asg && b.eval asg)

theorem orF_D {σ : Type} {P : σ → Prop} {vt : VTree} {andF : AndF σ} (hand : AndOKD P vt andF)
    {st a b st' r} (hP : P st) (wa : WFd vt a) (wb : WFd vt b) (h : orF andF st a b = some (st', r)) :
    P st' ∧ WFd vt r ∧ ∀ asg, r.eval asg = (a.eval asg || b.eval asg) := by
  simp only [orF] at h
  split at h
  · rename_i st1 r1 h1
    cases h
    obtain ⟨hp, wr, er⟩ := hand _ _ _ _ _ hP (WFd_neg wa) (WFd_neg wb) h1
    refine ⟨hp, WFd_neg wr, fun asg => ?_⟩
    rw [eval_neg, er, eval_neg, eval_neg]; cases a.eval asg <;> cases b.eval asg <;> rfl
  · cases h

/-! ## the loops: the produced elements keep their sides -/

def LoopD (vt : VTree) (L R : List Nat) : LoopRes → Prop
  | .elems l => ElemsOKd vt L R l
  | .early r => r = .tru

section loopsD
variable {σ : Type} {P : σ → Prop} {vt : VTree} {andF : AndF σ} {L R : List Nat}

theorem innerLoop_D (hand : AndOKD P vt andF) (brk : Bool) {p1 s1 : Ptr}
    (wp1 : WFd vt p1) (ws1 : WFd vt s1) (dp1 : DepIn L p1) (ds1 : DepIn R s1) :
    ∀ (eb : List Elem) (st st' : σ) (res : LoopRes), P st → ElemsOKd vt L R eb →
    innerLoop andF brk p1 s1 st eb = some (st', res) → P st' ∧ LoopD vt L R res := by
  intro eb
  induction eb with
  | nil =>
    intro st st' res hP _ h
    simp only [innerLoop] at h
    cases h
    exact ⟨hP, fun e he => by cases he⟩
  | cons x rest ih =>
    intro st st' res hP hok h
    obtain ⟨p2, s2⟩ := x
    have hx := hok (p2, s2) (List.mem_cons_self ..)
    have hrest : ElemsOKd vt L R rest := fun e he => hok e (List.mem_cons_of_mem _ he)
    simp only [innerLoop] at h
    split at h
    · cases h
    · rename_i st1 p hp
      obtain ⟨hP1, wp, ep⟩ := hand _ _ _ _ _ hP wp1 hx.1 hp
      split at h
      · exact ih _ _ _ hP1 hrest h
      · split at h
        · cases h
        · rename_i st2 s hs
          obtain ⟨hP2, ws, es⟩ := hand _ _ _ _ _ hP1 ws1 hx.2.1 hs
          have dp : DepIn L p := depIn_and dp1 hx.2.2.1 ep
          have ds : DepIn R s := depIn_and ds1 hx.2.2.2 es
          split at h
          · cases h; exact ⟨hP2, rfl⟩
          · split at h
            · cases h
              refine ⟨hP2, ?_⟩
              intro e he
              simp only [List.mem_singleton] at he; subst he
              exact ⟨wp, ws, dp, ds⟩
            · split at h
              · cases h
              · rename_i st3 r hrec
                cases h
                exact ih _ _ _ hP2 hrest hrec
              · rename_i st3 l hrec
                cases h
                obtain ⟨hP', hres⟩ := ih _ _ _ hP2 hrest hrec
                refine ⟨hP', ?_⟩
                intro e he
                rcases List.mem_cons.1 he with rfl | h'
                · exact ⟨wp, ws, dp, ds⟩
                · exact hres e h'

theorem prodLoop_D (hand : AndOKD P vt andF) (cart : Bool) {eb : List Elem}
    (hokb : ElemsOKd vt L R eb) :
    ∀ (ea : List Elem) (st st' : σ) (res : LoopRes), P st → ElemsOKd vt L R ea →
    prodLoop andF cart eb st ea = some (st', res) → P st' ∧ LoopD vt L R res := by
  intro ea
  induction ea with
  | nil =>
    intro st st' res hP _ h
    simp only [prodLoop] at h
    cases h
    exact ⟨hP, fun e he => by cases he⟩
  | cons x rest ih =>
    intro st st' res hP hok h
    obtain ⟨p1, s1⟩ := x
    have hx := hok (p1, s1) (List.mem_cons_self ..)
    have hrest : ElemsOKd vt L R rest := fun e he => hok e (List.mem_cons_of_mem _ he)
    simp only [prodLoop] at h
    split at h
    · rename_i q s2 hfind
      have hf : eb.find? (fun e => decide (e.1 = p1)) = some (q, s2) := by
        cases cart
        · simp at hfind
        · simpa using hfind
      obtain ⟨_, hmem⟩ := find?_prime hf
      have hy := hokb _ hmem
      split at h
      · cases h
      · rename_i st1 s hs
        obtain ⟨hP1, ws, es⟩ := hand _ _ _ _ _ hP hx.2.1 hy.2.1 hs
        have ds : DepIn R s := depIn_and hx.2.2.2 hy.2.2.2 es
        split at h
        · cases h
        · rename_i st2 r hrec
          cases h
          exact ih _ _ _ hP1 hrest hrec
        · rename_i st2 l hrec
          cases h
          obtain ⟨hP', hres⟩ := ih _ _ _ hP1 hrest hrec
          refine ⟨hP', ?_⟩
          intro e he
          rcases List.mem_cons.1 he with rfl | h'
          · exact ⟨hx.1, ws, hx.2.2.1, ds⟩
          · exact hres e h'
    · split at h
      · cases h
      · rename_i st1 r hin
        cases h
        exact innerLoop_D hand cart hx.1 hx.2.1 hx.2.2.1 hx.2.2.2 eb _ _ _ hP hokb hin
      · rename_i st1 l1 hin
        obtain ⟨hP1, hpost⟩ := innerLoop_D hand cart hx.1 hx.2.1 hx.2.2.1 hx.2.2.2 eb _ _ _ hP hokb hin
        split at h
        · cases h
        · rename_i st2 r hrec
          cases h
          exact ih _ _ _ hP1 hrest hrec
        · rename_i st2 l hrec
          cases h
          obtain ⟨hP', hres⟩ := ih _ _ _ hP1 hrest hrec
          refine ⟨hP', ?_⟩
          intro e he
          rcases List.mem_append.1 he with h' | h'
          · exact hpost e h'
          · exact hres e h'

theorem subDescLoop_D (hand : AndOKD P vt andF) {d : Ptr} (wd : WFd vt d) (dd : DepIn R d) :
    ∀ (es : List Elem) (st st' : σ) (v : List Elem), P st → ElemsOKd vt L R es →
    subDescLoop andF d st es = some (st', v) → P st' ∧ ElemsOKd vt L R v := by
  intro es
  induction es with
  | nil =>
    intro st st' v hP _ h
    simp only [subDescLoop] at h
    cases h
    exact ⟨hP, fun e he => by cases he⟩
  | cons x rest ih =>
    intro st st' v hP hok h
    obtain ⟨p, s⟩ := x
    have hx := hok (p, s) (List.mem_cons_self ..)
    simp only [subDescLoop] at h
    split at h
    · cases h
    · rename_i st1 ns hs
      obtain ⟨hP1, wns, ens⟩ := hand _ _ _ _ _ hP hx.2.1 wd hs
      split at h
      · cases h
      · rename_i st2 v2 hrec
        cases h
        obtain ⟨hP', hok'⟩ := ih _ _ _ hP1 (fun e he => hok e (List.mem_cons_of_mem _ he)) hrec
        refine ⟨hP', ?_⟩
        intro e he
        rcases List.mem_cons.1 he with rfl | h'
        · exact ⟨hx.1, wns, hx.2.2.1, depIn_and hx.2.2.2 dd ens⟩
        · exact hok' e h'

end loopsD

/-! ## the four vtree cases (compression off) -/
section casesD
variable {σ : Type} {P P0 : σ → Prop} {vt : VTree} {andF : AndF σ}

theorem andSubDesc_D (hP0 : ∀ st, P st → P0 st) (hsem : AndOK P0 vt andF) (hand : AndOKD P vt andF)
    {st st' : σ} {r d res : Ptr} (hP : P st) (wr : WFd vt r) (wd : WFd vt d)
    (dd : DepIn (vt.rightVars (vtreeIndex vt r)) d)
    (h : andSubDesc false andF st r d = some (st', res)) : P st' ∧ WFd vt res := by
  cases r with
  | tru => simp [andSubDesc] at h
  | fls => simp [andSubDesc] at h
  | lit v p => simp [andSubDesc] at h
  | bdd c l i lo hi =>
    obtain ⟨hint, hl, dlo, dhi, wlo, whi⟩ := wr
    simp only [vtreeIndex] at dd
    simp only [andSubDesc] at h
    split at h
    · cases h
    · rename_i st1 lr h1
      have wlo' : WFd vt (if c then lo.neg else lo) := by cases c <;> simp [WFd_neg, wlo]
      have whi' : WFd vt (if c then hi.neg else hi) := by cases c <;> simp [WFd_neg, whi]
      have dlo' : DepIn (vt.rightVars i) (if c then lo.neg else lo) := by
        cases c <;> simp [depIn_neg, dlo]
      have dhi' : DepIn (vt.rightVars i) (if c then hi.neg else hi) := by
        cases c <;> simp [depIn_neg, dhi]
      obtain ⟨hP1, wlr, elr⟩ := hand _ _ _ _ _ hP wlo' wd h1
      split at h
      · cases h
      · rename_i st2 hr h2
        cases h
        obtain ⟨hP2, whr, ehr⟩ := hand _ _ _ _ _ hP1 whi' wd h2
        exact ⟨hP2, uniqueBdd_wfd hint hl wlr whr (depIn_and dlo' dd elr) (depIn_and dhi' dd ehr)⟩
  | dec c i es =>
    simp only [andSubDesc] at h
    split at h
    · cases h
    · rename_i st1 v hloop
      have hokd := elems?_okd wr (es := if c then negSubs es else es) rfl
      obtain ⟨hok, hpart, hint, _⟩ := elems?_ok (WFd_WF _ wr) (es := if c then negSubs es else es) rfl
      obtain ⟨_, _, hsem'⟩ := subDescLoop_ok hsem (WFd_WF _ wd) _ _ _ _ (hP0 _ hP) hok hloop
      obtain ⟨hP1, hokv⟩ := subDescLoop_D hand wd dd _ _ _ _ hP hokd hloop
      have hpv : Partition v := fun a => by rw [(hsem' a).1]; exact hpart a
      simp only [vtreeIndex] at hokv hint
      obtain ⟨e, w⟩ := canonicalize_false_wfd hint hpv hokv h
      exact ⟨e ▸ hP1, w⟩

theorem andPrimeDesc_D (hP0 : ∀ st, P st → P0 st) (hsem : AndOK P0 vt andF) (hand : AndOKD P vt andF)
    {st st' : σ} {r d res : Ptr} (hP : P st) (wr : WFd vt r) (wd : WFd vt d)
    (dd : DepIn (vt.leftVars (vtreeIndex vt r)) d)
    (h : andPrimeDesc false andF st r d = some (st', res)) : P st' ∧ WFd vt res := by
  simp only [andPrimeDesc] at h
  split at h
  · cases h
  · rename_i er her
    have hokd := elems?_okd wr her
    obtain ⟨hok, hpart, hint, _⟩ := elems?_ok (WFd_WF _ wr) her
    obtain ⟨hokdd, _, _⟩ := pairD_okd (R := vt.rightVars (vtreeIndex vt r)) wd dd
    obtain ⟨hokp, hpd, _⟩ := pairD_ok (ow := vt.leftLeaf? (vtreeIndex vt r)) (WFd_WF _ wd)
      (depW_of_depIn dd)
    split at h
    · cases h
    · rename_i st1 x hloop
      cases h
      obtain ⟨hP1, hpost⟩ := prodLoop_D hand false hokdd _ _ _ _ hP hokd hloop
      simp only [LoopD] at hpost
      exact ⟨hP1, by rw [hpost]; exact WFd_tru vt⟩
    · rename_i st1 l hloop
      obtain ⟨hP1, hpost⟩ := prodLoop_D hand false hokdd _ _ _ _ hP hokd hloop
      simp only [LoopD] at hpost
      obtain ⟨_, hsp⟩ := prodLoop_ok hsem false hokp hpd _ _ _ _ (hP0 _ hP) hok hloop
      simp only [ProdPost] at hsp
      have hpl : Partition l := fun a => by rw [(hsp.2 a).1]; exact hpart a
      have hfin : ∀ i, vtreeIndex vt r = i → canonicalize false andF st1 l i = some (st', res) →
          P st' ∧ WFd vt res := by
        intro i hi hc'
        subst hi
        obtain ⟨e, w⟩ := canonicalize_false_wfd hint hpl hpost hc'
        exact ⟨e ▸ hP1, w⟩
      split at h
      · exact hfin _ rfl h
      · exact hfin _ rfl h
      · cases h

theorem andCartesian_D (hP0 : ∀ st, P st → P0 st) (hsem : AndOK P0 vt andF) (hand : AndOKD P vt andF)
    {st st' : σ} {a b res : Ptr} (hP : P st) (wa : WFd vt a) (wb : WFd vt b)
    (hidx : vtreeIndex vt a = vtreeIndex vt b)
    (h : andCartesian vt false andF st a b (vtreeIndex vt a) = some (st', res)) :
    P st' ∧ WFd vt res := by
  have general : (match a.elems?, b.elems? with
      | some ea, some eb =>
        match prodLoop andF true eb st ea with
        | none => none
        | some (st', .early x) => some (st', x)
        | some (st', .elems l) => canonicalize false andF st' l (vtreeIndex vt a)
      | _, _ => none) = some (st', res) → P st' ∧ WFd vt res := by
    intro h
    split at h
    · rename_i ea eb hea heb
      have hokad := elems?_okd wa hea
      obtain ⟨hoka, hpa, hinta, _⟩ := elems?_ok (WFd_WF _ wa) hea
      have hokbd := elems?_okd wb heb
      obtain ⟨hokb, hpb, _, _⟩ := elems?_ok (WFd_WF _ wb) heb
      rw [← hidx] at hokbd hokb
      split at h
      · cases h
      · rename_i st1 x hloop
        cases h
        obtain ⟨hP1, hpost⟩ := prodLoop_D hand true hokbd _ _ _ _ hP hokad hloop
        simp only [LoopD] at hpost
        exact ⟨hP1, by rw [hpost]; exact WFd_tru vt⟩
      · rename_i st1 l hloop
        obtain ⟨hP1, hpost⟩ := prodLoop_D hand true hokbd _ _ _ _ hP hokad hloop
        simp only [LoopD] at hpost
        obtain ⟨_, hsp⟩ := prodLoop_ok hsem true hokb hpb _ _ _ _ (hP0 _ hP) hoka hloop
        simp only [ProdPost] at hsp
        have hpl : Partition l := fun asg => by rw [(hsp.2 asg).1]; exact hpa asg
        obtain ⟨e, w⟩ := canonicalize_false_wfd hinta hpl hpost h
        exact ⟨e ▸ hP1, w⟩
    · cases h
  simp only [andCartesian] at h
  split at h
  · rename_i c l i lo hi hm
    have hrl : vt.isRLAt (vtreeIndex vt a) = true := by
      cases hr : vt.isRLAt (vtreeIndex vt a)
      · rw [hr] at hm; simp at hm
      · rfl
    rw [hrl] at hm
    simp only [if_true] at hm
    subst hm
    obtain ⟨hint, hl, dlo, dhi, wlo, whi⟩ := wa
    split at h
    · rename_i bl bh hbl hbh
      cases b with
      | bdd c' l' i' lo' hi' =>
        simp only [Ptr.low?, Ptr.high?, Option.some.injEq] at hbl hbh
        subst hbl hbh
        obtain ⟨hint', hl', dlo', dhi', wlo', whi'⟩ := wb
        simp only [vtreeIndex] at hidx hrl
        subst hidx
        have x1 : WFd vt (if c then lo.neg else lo) := by cases c <;> simp [WFd_neg, wlo]
        have x2 : WFd vt (if c then hi.neg else hi) := by cases c <;> simp [WFd_neg, whi]
        have y1 : WFd vt (if c' then lo'.neg else lo') := by cases c' <;> simp [WFd_neg, wlo']
        have y2 : WFd vt (if c' then hi'.neg else hi') := by cases c' <;> simp [WFd_neg, whi']
        have dx1 : DepIn (vt.rightVars i) (if c then lo.neg else lo) := by
          cases c <;> simp [depIn_neg, dlo]
        have dx2 : DepIn (vt.rightVars i) (if c then hi.neg else hi) := by
          cases c <;> simp [depIn_neg, dhi]
        have dy1 : DepIn (vt.rightVars i) (if c' then lo'.neg else lo') := by
          cases c' <;> simp [depIn_neg, dlo']
        have dy2 : DepIn (vt.rightVars i) (if c' then hi'.neg else hi') := by
          cases c' <;> simp [depIn_neg, dhi']
        split at h
        · cases h
        · rename_i st1 lr h1
          obtain ⟨hP1, wlr, elr⟩ := hand _ _ _ _ _ hP x1 y1 h1
          split at h
          · cases h
          · rename_i st2 hr h2
            cases h
            obtain ⟨hP2, whr, ehr⟩ := hand _ _ _ _ _ hP1 x2 y2 h2
            simp only [vtreeIndex]
            exact ⟨hP2, uniqueBdd_wfd hint hl wlr whr (depIn_and dx1 dy1 elr) (depIn_and dx2 dy2 ehr)⟩
      | _ => simp [Ptr.low?] at hbl
    · cases h
  · exact general h

theorem andIndep_D {a b res : Ptr} {k : Nat} (wa : WFd vt a) (wb : WFd vt b) (hint : Internal vt k)
    (da : DepIn (vt.leftVars k) a) (db : DepIn (vt.rightVars k) b)
    (h : andIndep vt a b k = some res) : WFd vt res := by
  simp only [andIndep] at h
  split at h
  · split at h
    · cases h
      exact uniqueBdd_wfd hint (depIn_lit_mem da) (WFd_fls _) wb (depIn_fls _) db
    · cases h
      exact uniqueBdd_wfd hint (depIn_lit_mem da) wb (WFd_fls _) db (depIn_fls _)
    · cases h
  · have hok : ElemsOKd vt (vt.leftVars k) (vt.rightVars k) [(a, b), (a.neg, .fls)] := by
      intro e he
      simp only [List.mem_cons, List.not_mem_nil, or_false] at he
      rcases he with rfl | rfl
      · exact ⟨wa, wb, da, db⟩
      · exact ⟨WFd_neg wa, WFd_fls _, depIn_neg da, depIn_fls _⟩
    have hpart : Partition [(a, b), (a.neg, .fls)] := by
      intro asg; simp only [cnt_cons, cnt_nil, eval_neg]; cases a.eval asg <;> simp
    exact uniqueOr_wfd hint hpart hok h

end casesD

/-! ## `and` without compression -/

/-- apply-cache invariant: semantically sound (C03) and every stored result is `WFd` -/
def AppInvD (A : CacheImpl (Ptr × Ptr)) (vt : VTree) (s : A.σ) : Prop :=
  AppInv A vt s ∧ ∀ k r, A.get s k = some r → WFd vt r

theorem appInvD_empty (A : CacheImpl (Ptr × Ptr)) (vt : VTree) : AppInvD A vt A.empty :=
  ⟨appInv_empty A vt, fun k r h => by rw [A.empty_get] at h; cases h⟩

theorem andCore_D {A : CacheImpl (Ptr × Ptr)} {vt : VTree} {andF : AndF A.σ}
    (hsem : AndOK (AppInv A vt) vt andF) (hand : AndOKD (AppInvD A vt) vt andF)
    {st st' : A.σ} {x y r : Ptr} (hP : AppInvD A vt st) (wx : WFd vt x) (wy : WFd vt y)
    (hx1 : x.isTrue = false) (hx2 : x.isFalse = false)
    (hy1 : y.isTrue = false) (hy2 : y.isFalse = false)
    (hle : vtreeIndex vt x = vtreeIndex vt y ∨ vtreeIndex vt x < vtreeIndex vt y)
    (h : andCore A vt false andF st x y = some (st', r)) :
    AppInvD A vt st' ∧ WFd vt r := by
  have hsemr := andCore_ok hsem hP.1 (WFd_WF _ wx) (WFd_WF _ wy) hx1 hx2 hy1 hy2 hle h
  have hP0 : ∀ s, AppInvD A vt s → AppInv A vt s := fun s hs => hs.1
  simp only [andCore] at h
  split at h
  · rename_i v hget
    cases h
    exact ⟨hP, hP.2 _ _ hget⟩
  · obtain ⟨sx, hsx⟩ := vtreeIndex_sub (WFd_WF x wx) hx1 hx2
    obtain ⟨sy, hsy⟩ := vtreeIndex_sub (WFd_WF y wy) hy1 hy2
    have dx := WFd_depIn wx hx1 hx2
    have dy := WFd_depIn wy hy1 hy2
    rw [varsAt_of_sub hsx] at dx
    rw [varsAt_of_sub hsy] at dy
    have core : ∀ {st1 : A.σ} {r1 : Ptr}, AppInvD A vt st1 → WFd vt r1 → st' = A.insert st1 (x, y) r1 →
        r = r1 → AppInvD A vt st' ∧ WFd vt r := by
      intro st1 r1 h1 h2 e1 e2
      subst e1 e2
      refine ⟨⟨hsemr.1, fun k r' hk => ?_⟩, h2⟩
      rcases A.lawful _ _ _ _ _ hk with ⟨_, rfl⟩ | hk'
      · exact h2
      · exact h1.2 _ _ hk'
    split at h
    · cases h
    · rename_i st1 r1 hr
      simp only [Option.some.injEq, Prod.mk.injEq] at h
      obtain ⟨e1, e2⟩ := h
      split at hr
      · rename_i heq
        rw [← heq, VTree.lca_self hsx] at hr
        obtain ⟨h1, h2⟩ := andCartesian_D hP0 hsem hand hP wx wy heq hr
        exact core h1 h2 e1.symm e2.symm
      · rename_i hne
        have hlt : vtreeIndex vt x < vtreeIndex vt y := by
          rcases hle with h' | h'
          · exact absurd h' hne
          · exact h'
        obtain ⟨l, r0, hlca, hleft, hright, hlo, hhi⟩ := VTree.lca_sides hsx hsy hlt
        split at hr
        · rename_i hka
          have dd : DepIn (vt.rightVars (vtreeIndex vt x)) y := by
            apply depIn_mono dy
            rw [hka] at hlca
            simp only [VTree.rightVars, hlca]
            exact hright (by omega)
          obtain ⟨h1, h2⟩ := andSubDesc_D hP0 hsem hand hP wx wy dd hr
          exact core h1 h2 e1.symm e2.symm
        · rename_i hna
          split at hr
          · rename_i hkb
            have dd : DepIn (vt.leftVars (vtreeIndex vt y)) x := by
              apply depIn_mono dx
              rw [hkb] at hlca
              simp only [VTree.leftVars, hlca]
              exact hleft (by omega)
            obtain ⟨h1, h2⟩ := andPrimeDesc_D hP0 hsem hand hP wy wx dd hr
            exact core h1 h2 e1.symm e2.symm
          · rename_i hnb
            have hint : Internal vt (vt.lca 0 (vtreeIndex vt x) (vtreeIndex vt y)) := ⟨l, r0, hlca⟩
            have da : DepIn (vt.leftVars (vt.lca 0 (vtreeIndex vt x) (vtreeIndex vt y))) x := by
              apply depIn_mono dx
              simp only [VTree.leftVars, hlca]
              exact hleft (by omega)
            have db : DepIn (vt.rightVars (vt.lca 0 (vtreeIndex vt x) (vtreeIndex vt y))) y := by
              apply depIn_mono dy
              simp only [VTree.rightVars, hlca]
              exact hright (by omega)
            simp only [Option.map_eq_some_iff] at hr
            obtain ⟨r2, hr2, he⟩ := hr
            cases he
            exact core hP (andIndep_D wx wy hint da db hr2) e1.symm e2.symm

theorem andBody_D {A : CacheImpl (Ptr × Ptr)} {vt : VTree} {andF : AndF A.σ}
    (hsem : AndOK (AppInv A vt) vt andF) (hand : AndOKD (AppInvD A vt) vt andF) :
    AndOKD (AppInvD A vt) vt (andBody A vt false andF) := by
  intro st a b st' r hP wa wb h
  have hsemr := andBody_ok (cmpr := false) hsem _ _ _ _ _ hP.1 (WFd_WF _ wa) (WFd_WF _ wb) h
  suffices hw : AppInvD A vt st' ∧ WFd vt r from ⟨hw.1, hw.2, hsemr.2.2⟩
  simp only [andBody] at h
  split at h
  · cases h; exact ⟨hP, wb⟩
  · rename_i ha1
    split at h
    · cases h; exact ⟨hP, wa⟩
    · rename_i hb1
      split at h
      · cases h; exact ⟨hP, WFd_fls vt⟩
      · rename_i ha2
        split at h
        · cases h; exact ⟨hP, WFd_fls vt⟩
        · rename_i hb2
          split at h
          · cases h; exact ⟨hP, wa⟩
          · split at h
            · cases h; exact ⟨hP, WFd_fls vt⟩
            · simp only [Bool.not_eq_true] at ha1 hb1 ha2 hb2
              split at h
              · rename_i hle
                exact andCore_D hsem hand hP wa wb ha1 ha2 hb1 hb2 hle h
              · rename_i hle
                exact andCore_D hsem hand hP wb wa hb1 hb2 ha1 ha2 (by omega) h

/-- **`and` without compression hands out `WFd` pointers** -/
theorem and_D (A : CacheImpl (Ptr × Ptr)) (vt : VTree) :
    ∀ fuel, AndOKD (AppInvD A vt) vt (and A vt false fuel)
  | 0 => by intro st a b st' r _ _ _ h; simp [and] at h
  | fuel + 1 => by
    have := andBody_D (and_ok A vt false fuel) (and_D A vt fuel)
    simpa [and] using this

/-! ## `condition` without compression -/
section condD
variable {σ : Type} {P P0 : σ → Prop} {vt : VTree} {andF : AndF σ} {L R : List Nat}

def CondOKD (P : σ → Prop) (vt : VTree) (x : Nat) (v : Bool)
    (condF : σ → Ptr → Option (σ × Ptr)) : Prop :=
  ∀ st f st' r, P st → WFd vt f → condF st f = some (st', r) →
    P st' ∧ WFd vt r ∧ ∀ a, r.eval a = f.eval (upd a x v)

def CondD (vt : VTree) (L R : List Nat) : LoopRes → Prop
  | .elems l => ElemsOKd vt L R l
  | .early r => WFd vt r

theorem condLoop_D {x : Nat} {v : Bool} {condF : σ → Ptr → Option (σ × Ptr)}
    (hc : CondOKD P vt x v condF) :
    ∀ (es : List Elem) (st st' : σ) (res : LoopRes), P st → ElemsOKd vt L R es →
    condLoop condF st es = some (st', res) → P st' ∧ CondD vt L R res := by
  intro es
  induction es with
  | nil =>
    intro st st' res hP _ h
    simp only [condLoop] at h
    cases h
    exact ⟨hP, fun e he => by cases he⟩
  | cons e rest ih =>
    intro st st' res hP hok h
    obtain ⟨p, s⟩ := e
    have hx := hok (p, s) (List.mem_cons_self ..)
    have hrest : ElemsOKd vt L R rest := fun e he => hok e (List.mem_cons_of_mem _ he)
    simp only [condLoop] at h
    split at h
    · cases h
    · rename_i st1 newp hp
      obtain ⟨hP1, wnp, enp⟩ := hc _ _ _ _ hP hx.1 hp
      split at h
      · exact ih _ _ _ hP1 hrest h
      · split at h
        · cases h
        · rename_i st2 news hs
          obtain ⟨hP2, wns, ens⟩ := hc _ _ _ _ hP1 hx.2.1 hs
          split at h
          · cases h; exact ⟨hP2, wns⟩
          · split at h
            · cases h
            · rename_i st3 r hrec
              cases h
              exact ih _ _ _ hP2 hrest hrec
            · rename_i st3 l hrec
              cases h
              obtain ⟨hP', hres⟩ := ih _ _ _ hP2 hrest hrec
              refine ⟨hP', ?_⟩
              intro e he
              rcases List.mem_cons.1 he with rfl | h'
              · exact ⟨wnp, wns, depIn_cond hx.2.2.1 enp, depIn_cond hx.2.2.2 ens⟩
              · exact hres e h'

theorem condition_D (hP0 : ∀ st, P st → P0 st) (hsem : AndOK P0 vt andF) (x : Nat) (v : Bool) :
    ∀ n, CondOKD P vt x v (condition false andF x v n)
  | 0 => by intro st f st' r _ _ h; simp [condition] at h
  | n + 1 => by
    have ih := condition_D hP0 hsem x v n
    have ihc := condition_ok hsem false x v n
    intro st f st' r hP wf h
    have hsemr := condition_ok hsem false x v (n + 1) _ _ _ _ (hP0 _ hP) (WFd_WF _ wf) h
    suffices hw : P st' ∧ WFd vt r from ⟨hw.1, hw.2, hsemr.2.2⟩
    have node : ∀ (es : List Elem) (i : Nat), f.elems? = some es → vtreeIndex vt f = i →
        (match condLoop (condition false andF x v n) st es with
          | none => none
          | some (st', .early r) => some (st', r)
          | some (st', .elems es') => canonicalize false andF st' es' i) = some (st', r) →
        P st' ∧ WFd vt r := by
      intro es i hes hi h
      subst hi
      have hokd := elems?_okd wf hes
      obtain ⟨hok, hpart, hint, _⟩ := elems?_ok (WFd_WF _ wf) hes
      split at h
      · cases h
      · rename_i st1 r1 hloop
        cases h
        obtain ⟨hP1, hpost⟩ := condLoop_D ih _ _ _ _ hP hokd hloop
        exact ⟨hP1, hpost⟩
      · rename_i st1 l hloop
        obtain ⟨hP1, hpost⟩ := condLoop_D ih _ _ _ _ hP hokd hloop
        simp only [CondD] at hpost
        obtain ⟨_, hsp⟩ := condLoop_ok ihc _ _ _ _ (hP0 _ hP) hok hloop
        simp only [CondPost] at hsp
        have hpl : Partition l := fun a => by
          rw [(hsp.2 a (by rw [hpart]; exact Nat.le_refl 1)).1]; exact hpart _
        obtain ⟨e, w⟩ := canonicalize_false_wfd hint hpl hpost h
        exact ⟨e ▸ hP1, w⟩
    cases f with
    | tru => simp only [condition] at h; cases h; exact ⟨hP, WFd_tru vt⟩
    | fls => simp only [condition] at h; cases h; exact ⟨hP, WFd_fls vt⟩
    | lit l p =>
      simp only [condition] at h
      cases h
      refine ⟨hP, ?_⟩
      split
      · split
        · exact WFd_tru vt
        · exact WFd_fls vt
      · exact wf
    | bdd c l i lo hi =>
      simp only [condition] at h
      exact node _ i rfl rfl h
    | dec c i es =>
      simp only [condition] at h
      exact node _ i rfl rfl h

end condD

/-! ## `ite` and the derived operations (compression off) -/

/-- ite-cache invariant: every stored result is `WFd` -/
def IteInvD (I : CacheImpl (Ptr × Ptr × Ptr)) (vt : VTree) (s : I.σ) : Prop :=
  ∀ k r, I.get s k = some r → WFd vt r

theorem iteNew_const_wfd {vt : VTree} {ord} {f g h r : Ptr} (wf : WFd vt f) (wg : WFd vt g)
    (wh : WFd vt h) (hr : Ite.new ord f g h = .const r) : WFd vt r := by
  have hi : WFd vt (introConst f g h).1 ∧ WFd vt (introConst f g h).2.1 ∧
      WFd vt (introConst f g h).2.2 := by
    simp only [introConst]
    split
    · exact ⟨wf, wg, WFd_fls vt⟩
    · split
      · exact ⟨wf, wg, WFd_tru vt⟩
      · split
        · exact ⟨wf, WFd_fls vt, wh⟩
        · exact ⟨wf, wg, wh⟩
  simp only [Ite.new] at hr
  generalize introConst f g h = t at hi hr
  obtain ⟨f1, g1, h1⟩ := t
  simp only at hi hr
  split at hr
  · rename_i r0 ht
    cases hr
    simp only [terminal?] at ht
    split at ht
    · cases ht; exact hi.2.1
    · split at ht
      · cases ht; exact hi.2.2
      · split at ht
        · cases ht; exact hi.1
        · split at ht
          · cases ht; exact WFd_neg hi.1
          · split at ht
            · cases ht; exact hi.2.1
            · cases ht
  · generalize reorder ord f1 g1 h1 = t2 at hr
    obtain ⟨f2, g2, h2⟩ := t2
    simp only [standardise] at hr
    split at hr
    · cases hr
    · split at hr
      · cases hr
      · split at hr <;> cases hr

section opsD
variable (A : CacheImpl (Ptr × Ptr)) (I : CacheImpl (Ptr × Ptr × Ptr)) (cfg : Config)
  (hc : cfg.compress = false) (fuel : Nat)
include hc

theorem bAnd_D : AndOKD (AppInvD A cfg.vt) cfg.vt (bAnd A cfg fuel) := by
  have := and_D A cfg.vt fuel
  simpa [bAnd, hc] using this

theorem bOr_D {st a b st' r} (hP : AppInvD A cfg.vt st) (wa : WFd cfg.vt a) (wb : WFd cfg.vt b)
    (h : bOr A cfg fuel st a b = some (st', r)) : AppInvD A cfg.vt st' ∧ WFd cfg.vt r := by
  obtain ⟨h1, h2, _⟩ := orF_D (bAnd_D A cfg hc fuel) hP wa wb h
  exact ⟨h1, h2⟩

theorem bCond_D {st f st' r} {x : Nat} {v : Bool} (hP : AppInvD A cfg.vt st) (wf : WFd cfg.vt f)
    (h : bCond A cfg fuel st f x v = some (st', r)) : AppInvD A cfg.vt st' ∧ WFd cfg.vt r := by
  simp only [bCond, hc] at h
  have hsem : AndOK (AppInv A cfg.vt) cfg.vt (bAnd A cfg fuel) := bAnd_ok A cfg fuel
  obtain ⟨h1, h2, _⟩ := condition_D (P := AppInvD A cfg.vt) (P0 := AppInv A cfg.vt) (fun _ h => h.1)
    hsem x v fuel _ _ _ _ hP wf h
  exact ⟨h1, h2⟩

theorem bIte_D {s s' : A.σ × I.σ} {f g h r : Ptr}
    (hA : AppInvD A cfg.vt s.1) (hI : IteInvD I cfg.vt s.2)
    (wf : WFd cfg.vt f) (wg : WFd cfg.vt g) (wh : WFd cfg.vt h)
    (hr : bIte A I cfg fuel s f g h = some (s', r)) :
    AppInvD A cfg.vt s'.1 ∧ IteInvD I cfg.vt s'.2 ∧ WFd cfg.vt r := by
  simp only [bIte] at hr
  generalize hk : Ite.new (primeOrd cfg.vt) f g h = key at hr
  have main :
      (match iteCacheGet I s.2 key with
        | some v => some (s, v)
        | none =>
          match bAnd A cfg fuel s.1 f g with
          | none => none
          | some (a1, fg) =>
            match bAnd A cfg fuel a1 f.neg h with
            | none => none
            | some (a2, nfh) =>
              match bOr A cfg fuel a2 fg nfh with
              | none => none
              | some (a3, r) => some ((a3, iteCacheInsert I s.2 key r), r)) = some (s', r) →
      (∀ p, key ≠ .const p) →
      AppInvD A cfg.vt s'.1 ∧ IteInvD I cfg.vt s'.2 ∧ WFd cfg.vt r := by
    intro hr hnc
    split at hr
    · rename_i v hget
      cases hr
      refine ⟨hA, hI, ?_⟩
      cases key with
      | choice f' g' h' => exact hI _ _ hget
      | complChoice f' g' h' =>
        simp only [iteCacheGet, Option.map_eq_some_iff] at hget
        obtain ⟨v0, h0, rfl⟩ := hget
        exact WFd_neg (hI _ _ h0)
      | const p => exact absurd rfl (hnc p)
    · split at hr
      · cases hr
      · rename_i a1 fg h1
        obtain ⟨hA1, wfg, _⟩ := bAnd_D A cfg hc fuel _ _ _ _ _ hA wf wg h1
        split at hr
        · cases hr
        · rename_i a2 nfh h2
          obtain ⟨hA2, wnfh, _⟩ := bAnd_D A cfg hc fuel _ _ _ _ _ hA1 (WFd_neg wf) wh h2
          split at hr
          · cases hr
          · rename_i a3 r3 h3
            cases hr
            obtain ⟨hA3, wr⟩ := bOr_D A cfg hc fuel hA2 wfg wnfh h3
            refine ⟨hA3, ?_, wr⟩
            cases key with
            | choice f' g' h' =>
              intro k' r' hg
              rcases I.lawful _ _ _ _ _ hg with ⟨_, rfl⟩ | h'
              · exact wr
              · exact hI _ _ h'
            | complChoice f' g' h' =>
              intro k' r' hg
              rcases I.lawful _ _ _ _ _ hg with ⟨_, rfl⟩ | h'
              · exact WFd_neg wr
              · exact hI _ _ h'
            | const p => exact hI
  cases key with
  | const p =>
    simp only at hr
    cases hr
    exact ⟨hA, hI, iteNew_const_wfd wf wg wh hk⟩
  | choice f' g' h' => exact main hr (fun p hp => by cases hp)
  | complChoice f' g' h' => exact main hr (fun p hp => by cases hp)

theorem bExists_D {st st' : A.σ} {f r : Ptr} {x : Nat} (hP : AppInvD A cfg.vt st)
    (wf : WFd cfg.vt f) (h : bExists A cfg fuel st f x = some (st', r)) :
    AppInvD A cfg.vt st' ∧ WFd cfg.vt r := by
  simp only [bExists] at h
  split at h
  · cases h
  · rename_i s1 v1 h1
    obtain ⟨hP1, w1⟩ := bCond_D A cfg hc fuel hP wf h1
    split at h
    · cases h
    · rename_i s2 v2 h2
      obtain ⟨hP2, w2⟩ := bCond_D A cfg hc fuel hP1 wf h2
      exact bOr_D A cfg hc fuel hP2 w1 w2 h

theorem bCompose_D {s s' : A.σ × I.σ} {f g r : Ptr} {x : Nat}
    (hA : AppInvD A cfg.vt s.1) (hI : IteInvD I cfg.vt s.2) (hx : cfg.vt.hasVar x = true)
    (wf : WFd cfg.vt f) (wg : WFd cfg.vt g)
    (hr : bCompose A I cfg fuel s f x g = some (s', r)) :
    AppInvD A cfg.vt s'.1 ∧ IteInvD I cfg.vt s'.2 ∧ WFd cfg.vt r := by
  simp only [bCompose] at hr
  split at hr
  · cases hr
  · rename_i s1 i h1
    obtain ⟨hA1, hI1, wi⟩ := bIte_D A I cfg hc fuel hA hI (f := .lit x true)
      (hasVar_iff.1 hx) wg (WFd_neg wg) h1
    split at hr
    · cases hr
    · rename_i a2 c h2
      obtain ⟨hA2, wc, _⟩ := bAnd_D A cfg hc fuel _ _ _ _ _ hA1 wi wf h2
      split at hr
      · cases hr
      · rename_i a3 r3 h3
        cases hr
        obtain ⟨hA3, wr⟩ := bExists_D A cfg hc fuel hA2 wc h3
        exact ⟨hA3, hI1, wr⟩

/-- builder invariant -/
def InvD (st : St A I) : Prop :=
  AppInvD A cfg.vt st.app ∧ IteInvD I cfg.vt st.ite ∧ ∀ p ∈ st.pool, WFd cfg.vt p

omit hc in
theorem invD_init : InvD A I cfg (St.init A I) :=
  ⟨appInvD_empty A cfg.vt, fun k r h => (by simp only [St.init] at h; rw [I.empty_get] at h; cases h),
    fun p hp => (by simp [St.init] at hp)⟩

omit hc in
theorem invD_push {st : St A I} {a : A.σ} {i : I.σ} {r : Ptr} (ha : AppInvD A cfg.vt a)
    (hi : IteInvD I cfg.vt i) (wr : WFd cfg.vt r) (hpool : ∀ p ∈ st.pool, WFd cfg.vt p) :
    InvD A I cfg (st.push a i r) := by
  refine ⟨ha, hi, ?_⟩
  intro p hp
  rcases List.mem_append.1 hp with h | h
  · exact hpool p h
  · simp only [List.mem_singleton] at h; subst h; exact wr

theorem step_D (st st' : St A I) (op : Op) (hinv : InvD A I cfg st)
    (hstep : step A I cfg fuel st op = some st') : InvD A I cfg st' := by
  obtain ⟨hA, hI, hpool⟩ := hinv
  have wfAt : ∀ {i p}, st.pool[i]? = some p → WFd cfg.vt p :=
    fun h => hpool _ (List.mem_of_getElem? h)
  cases op with
  | const b =>
    simp only [step, Option.some.injEq] at hstep; subst hstep
    exact invD_push A I cfg hA hI (by cases b <;> simp [WFd]) hpool
  | var x pol =>
    simp only [step] at hstep
    split at hstep
    · rename_i hx
      simp only [Option.some.injEq] at hstep; subst hstep
      exact invD_push A I cfg hA hI (hasVar_iff.1 hx) hpool
    · cases hstep
  | neg i =>
    simp only [step, Option.map_eq_some_iff] at hstep
    obtain ⟨p, hp, rfl⟩ := hstep
    exact invD_push A I cfg hA hI (WFd_neg (wfAt hp)) hpool
  | and i j =>
    simp only [step] at hstep
    split at hstep
    · rename_i p q hp hq
      simp only [Option.map_eq_some_iff] at hstep
      obtain ⟨⟨s, r⟩, hrun, rfl⟩ := hstep
      obtain ⟨hs', wr, _⟩ := bAnd_D A cfg hc fuel _ _ _ _ _ hA (wfAt hp) (wfAt hq) hrun
      exact invD_push A I cfg hs' hI wr hpool
    · cases hstep
  | or i j =>
    simp only [step] at hstep
    split at hstep
    · rename_i p q hp hq
      simp only [Option.map_eq_some_iff] at hstep
      obtain ⟨⟨s, r⟩, hrun, rfl⟩ := hstep
      obtain ⟨hs', wr⟩ := bOr_D A cfg hc fuel hA (wfAt hp) (wfAt hq) hrun
      exact invD_push A I cfg hs' hI wr hpool
    · cases hstep
  | xor i j =>
    simp only [step] at hstep
    split at hstep
    · rename_i p q hp hq
      simp only [Option.map_eq_some_iff] at hstep
      obtain ⟨⟨s, r⟩, hrun, rfl⟩ := hstep
      obtain ⟨hs', hi', wr⟩ := bIte_D A I cfg hc fuel (s := (st.app, st.ite)) hA hI (wfAt hp)
        (WFd_neg (wfAt hq)) (wfAt hq) hrun
      exact invD_push A I cfg hs' hi' wr hpool
    · cases hstep
  | iff i j =>
    simp only [step] at hstep
    split at hstep
    · rename_i p q hp hq
      simp only [Option.map_eq_some_iff] at hstep
      obtain ⟨⟨s, r⟩, hrun, rfl⟩ := hstep
      obtain ⟨hs', hi', wr⟩ := bIte_D A I cfg hc fuel (s := (st.app, st.ite)) hA hI (wfAt hp)
        (wfAt hq) (WFd_neg (wfAt hq)) hrun
      exact invD_push A I cfg hs' hi' wr hpool
    · cases hstep
  | ite i j k =>
    simp only [step] at hstep
    split at hstep
    · rename_i p q r0 hp hq hr0
      simp only [Option.map_eq_some_iff] at hstep
      obtain ⟨⟨s, r⟩, hrun, rfl⟩ := hstep
      obtain ⟨hs', hi', wr⟩ := bIte_D A I cfg hc fuel (s := (st.app, st.ite)) hA hI (wfAt hp)
        (wfAt hq) (wfAt hr0) hrun
      exact invD_push A I cfg hs' hi' wr hpool
    · cases hstep
  | cond i x b =>
    simp only [step] at hstep
    split at hstep
    · rename_i p hp
      simp only [Option.map_eq_some_iff] at hstep
      obtain ⟨⟨s, r⟩, hrun, rfl⟩ := hstep
      obtain ⟨hs', wr⟩ := bCond_D A cfg hc fuel hA (wfAt hp) hrun
      exact invD_push A I cfg hs' hI wr hpool
    · cases hstep
  | exist i x =>
    simp only [step] at hstep
    split at hstep
    · rename_i p hp
      simp only [Option.map_eq_some_iff] at hstep
      obtain ⟨⟨s, r⟩, hrun, rfl⟩ := hstep
      obtain ⟨hs', wr⟩ := bExists_D A cfg hc fuel hA (wfAt hp) hrun
      exact invD_push A I cfg hs' hI wr hpool
    · cases hstep
  | compose i x j =>
    simp only [step] at hstep
    split at hstep
    · rename_i hx
      split at hstep
      · rename_i p q hp hq
        simp only [Option.map_eq_some_iff] at hstep
        obtain ⟨⟨s, r⟩, hrun, rfl⟩ := hstep
        obtain ⟨hs', hi', wr⟩ := bCompose_D A I cfg hc fuel (s := (st.app, st.ite)) hA hI hx
          (wfAt hp) (wfAt hq) hrun
        exact invD_push A I cfg hs' hi' wr hpool
      · cases hstep
    · cases hstep

theorem runFrom_D : ∀ (ops : List Op) (st st' : St A I), InvD A I cfg st →
    runFrom A I cfg fuel st ops = some st' → InvD A I cfg st'
  | [], st, st', hinv, hrun => by
    simp only [runFrom, Option.some.injEq] at hrun; subst hrun; exact hinv
  | op :: ops, st, st', hinv, hrun => by
    simp only [runFrom] at hrun
    split at hrun
    · cases hrun
    · rename_i st1 h1
      exact runFrom_D ops st1 st' (step_D A I cfg hc fuel st st1 op hinv h1) hrun

end opsD

/-- **every SDD the builder returns with compression off is `WFd`** (hence deterministic and
decomposable): any program, any vtree, any fuel -/
theorem run_wfd_uncompressed (vt : VTree) (fuel : Nat) (ops : List Op) (pool : List Ptr)
    (h : run ⟨vt, false⟩ fuel ops = some pool) : ∀ p ∈ pool, WFd vt p := by
  simp only [run, Option.map_eq_some_iff] at h
  obtain ⟨st, hst, rfl⟩ := h
  exact (runFrom_D _ _ ⟨vt, false⟩ rfl fuel ops _ st (invD_init _ _ _) hst).2.2

end Sdd
