import RsddModel.Model.Sdd
/-!
# Auxiliary definitions for the translator route of the SDD builder core (static, hand-written)

`RsddModel/Model/GenSddCore.lean` (regenerated from the Rust text by `tools/gen_sddcore.py`) refers to
the few names defined here that have no literal counterpart in `Model/Sdd.lean`:

* `vtree?`, `vtreeIndex?` : `SddPtr::vtree()` / `SddBuilder::vtree_index` with their panics explicit;
* `isComplChoice` : `Ite::is_compl_choice` (only used by patched sources);
* `condBody`, `iteBody`, `iffBody`, `xorBody`, `existsBody`, `composeBody` : the bodies of the model's
  `condition`, `bIte`, `bIff`, `bXor`, `bExists`, `bCompose` with the recursive / derived calls abstracted
  (each with the theorem that the model definition IS that body);
* `…G` : the loops of the model re-parametrised the way the generated loops are (raw `node_iter()`
  elements plus the complement flag of the root, instead of the complement-adjusted element list).
-/
namespace TieSddCoreAux
open Sdd

/-- `SddPtr::vtree()`; `none` = the panic on constants and literals -/
def vtree? : Ptr → Option Nat
  | .bdd _ _ i _ _ => some i
  | .dec _ i _ => some i
  | _ => none

/-- `SddBuilder::vtree_index` with the panic on constants explicit -/
def vtreeIndex? (vt : VTree) (p : Ptr) : Option Nat :=
  if p.isTrue || p.isFalse then none else some (vtreeIndex vt p)

def isComplChoice : Ite → Bool
  | .complChoice .. => true
  | _ => false

/-- complement-adjusted elements -/
def adj (c : Bool) (es : List Elem) : List Elem := if c then negSubs es else es

theorem isNeg_dec (c : Bool) (i : Nat) (es : List Elem) : (Ptr.dec c i es).isNeg = c := by cases c <;> rfl
theorem isNeg_bdd (c : Bool) (l i : Nat) (lo hi : Ptr) : (Ptr.bdd c l i lo hi).isNeg = c := by cases c <;> rfl

theorem adj_nil (c : Bool) : adj c [] = [] := by cases c <;> rfl
theorem adj_cons (c : Bool) (p s : Ptr) (l : List Elem) :
    adj c ((p, s) :: l) = (p, if c then s.neg else s) :: adj c l := by
  cases c <;> simp [adj, negSubs]

theorem elems?_eq (r : Ptr) : r.elems? = (r.nodeIter?).map (adj r.isNeg) := by
  cases r with
  | bdd c l i lo hi => cases c <;> simp [Ptr.elems?, Ptr.nodeIter?, Ptr.isNeg, adj, negSubs]
  | dec c i es => cases c <;> simp [Ptr.elems?, Ptr.nodeIter?, Ptr.isNeg, adj]
  | _ => rfl

/-! ## bodies with the recursive calls abstracted -/

section
variable {σ : Type}

/-- one unfolding of `Sdd.condition`, the recursive call being `condF` -/
def condBody (cmpr : Bool) (andF : AndF σ) (condF : σ → Ptr → Nat → Bool → Option (σ × Ptr))
    (st : σ) (f : Ptr) (x : Nat) (v : Bool) : Option (σ × Ptr) :=
  match f with
  | .tru => some (st, .tru)
  | .fls => some (st, .fls)
  | .lit l p => some (st, if l = x then (if p = v then .tru else .fls) else .lit l p)
  | .bdd c l i lo hi =>
    match condLoop (fun st p => condF st p x v) st
        [(.lit l true, if c then hi.neg else hi), (.lit l false, if c then lo.neg else lo)] with
    | none => none
    | some (st', .early r) => some (st', r)
    | some (st', .elems es) => canonicalize cmpr andF st' es i
  | .dec c i es =>
    match condLoop (fun st p => condF st p x v) st (if c then negSubs es else es) with
    | none => none
    | some (st', .early r) => some (st', r)
    | some (st', .elems es') => canonicalize cmpr andF st' es' i

theorem condition_succ (cmpr : Bool) (andF : AndF σ) (x : Nat) (v : Bool) (n : Nat) (st : σ) (f : Ptr) :
    Sdd.condition cmpr andF x v (n + 1) st f =
      condBody cmpr andF (fun st f _ _ => Sdd.condition cmpr andF x v n st f) st f x v := by
  cases f <;> rfl

def existsBody (andF : AndF σ) (condF : σ → Ptr → Nat → Bool → Option (σ × Ptr))
    (st : σ) (f : Ptr) (x : Nat) : Option (σ × Ptr) :=
  match condF st f x true with
  | none => none
  | some (s1, v1) =>
    match condF s1 f x false with
    | none => none
    | some (s2, v2) => orF andF s2 v1 v2

def iffBody {τ : Type} (iteF : τ → Ptr → Ptr → Ptr → Option (τ × Ptr)) (s : τ) (f g : Ptr) := iteF s f g g.neg
def xorBody {τ : Type} (iteF : τ → Ptr → Ptr → Ptr → Option (τ × Ptr)) (s : τ) (f g : Ptr) := iteF s f g.neg g
end

def iteBody (A : CacheImpl (Ptr × Ptr)) (I : CacheImpl (Ptr × Ptr × Ptr)) (vt : VTree) (andF : AndF A.σ)
    (s : A.σ × I.σ) (f g h : Ptr) : Option ((A.σ × I.σ) × Ptr) :=
  match Ite.new (primeOrd vt) f g h with
  | .const r => some (s, r)
  | key =>
    match iteCacheGet I s.2 key with
    | some v => some (s, v)
    | none =>
      match andF s.1 f g with
      | none => none
      | some (a1, fg) =>
        match andF a1 f.neg h with
        | none => none
        | some (a2, nfh) =>
          match orF andF a2 fg nfh with
          | none => none
          | some (a3, r) => some ((a3, iteCacheInsert I s.2 key r), r)

def composeBody (A : CacheImpl (Ptr × Ptr)) (I : CacheImpl (Ptr × Ptr × Ptr)) (andF : AndF A.σ)
    (iffF : A.σ × I.σ → Ptr → Ptr → Option ((A.σ × I.σ) × Ptr))
    (existsF : A.σ → Ptr → Nat → Option (A.σ × Ptr))
    (s : A.σ × I.σ) (f : Ptr) (x : Nat) (g : Ptr) : Option ((A.σ × I.σ) × Ptr) :=
  match iffF s (.lit x true) g with
  | none => none
  | some (s1, i) =>
    match andF s1.1 i f with
    | none => none
    | some (a2, c) =>
      match existsF a2 c x with
      | none => none
      | some (a3, r) => some ((a3, s1.2), r)

section
variable (A : CacheImpl (Ptr × Ptr)) (I : CacheImpl (Ptr × Ptr × Ptr)) (cfg : Config) (fuel : Nat)

theorem bIte_eq : bIte A I cfg fuel = iteBody A I cfg.vt (bAnd A cfg fuel) := rfl
theorem bIff_eq : bIff A I cfg fuel = iffBody (bIte A I cfg fuel) := rfl
theorem bXor_eq : bXor A I cfg fuel = xorBody (bIte A I cfg fuel) := rfl
theorem bExists_eq :
    bExists A cfg fuel = existsBody (bAnd A cfg fuel) (fun st f x v => bCond A cfg fuel st f x v) := by
  funext s f x
  first
  | rfl
  | (simp only [bExists, existsBody, bOr]; grind)
  | (simp only [bExists, existsBody, bOr]; repeat' (first | rfl | (split <;> simp_all)))
theorem bCompose_eq :
    bCompose A I cfg fuel = composeBody A I (bAnd A cfg fuel) (bIff A I cfg fuel) (bExists A cfg fuel) := rfl
theorem bOr_eq : bOr A cfg fuel = orF (bAnd A cfg fuel) := rfl
end

/-! ## the loops of the model, parametrised as the generated loops are -/

section
variable {σ : Type}

def liftList (r : Option (σ × List Elem)) : Option (σ × LoopRes) :=
  match r with
  | none => none
  | some (st, v) => some (st, .elems v)

/-- loop of `and_sub_desc` over the raw elements of `Reg/Compl(or)` with complement flag `c` -/
def subDescLoopG (_cmpr : Bool) (andF : AndF σ) (d : Ptr) (c : Bool) (_i : Nat) (_es : List Elem)
    (st : σ) (l : List Elem) : Option (σ × LoopRes) :=
  liftList (subDescLoop andF d st (adj c l))

/-- inner loop of `and_prime_desc` for the element `a1` of `r` -/
def primeInnerG (_cmpr : Bool) (andF : AndF σ) (r : Ptr) (a1 : Elem) (st : σ) (l : List Elem) :
    Option (σ × LoopRes) :=
  innerLoop andF false a1.1 (if r.isNeg then a1.2.neg else a1.2) st l

/-- outer loop of `and_prime_desc` over the raw elements of `r` -/
def primeOuterG (_cmpr : Bool) (andF : AndF σ) (r d : Ptr) (st : σ) (l : List Elem) : Option (σ × LoopRes) :=
  prodLoop andF false [(d, .tru), (d.neg, .fls)] st (adj r.isNeg l)

/-- inner loop of `and_cartesian` over the raw elements of `b` -/
def cartInnerG (_vt : VTree) (_cmpr : Bool) (andF : AndF σ) (a b : Ptr) (a1 : Elem) (st : σ) (l : List Elem) :
    Option (σ × LoopRes) :=
  innerLoop andF true a1.1 (if a.isNeg then a1.2.neg else a1.2) st (adj b.isNeg l)

/-- outer loop of `and_cartesian` over the raw elements of `a` (`b.node_iter()` is evaluated per element) -/
def cartOuterG (_vt : VTree) (_cmpr : Bool) (andF : AndF σ) (a b : Ptr) (st : σ) (l : List Elem) :
    Option (σ × LoopRes) :=
  match l with
  | [] => some (st, .elems [])
  | _ :: _ =>
    match b.nodeIter? with
    | none => none
    | some eb => prodLoop andF true (adj b.isNeg eb) st (adj a.isNeg l)

/-- loop of `condition` over the raw elements of `f` -/
def condLoopG (_cmpr : Bool) (_andF : AndF σ) (condF : σ → Ptr → Nat → Bool → Option (σ × Ptr))
    (f : Ptr) (x : Nat) (v : Bool) (st : σ) (l : List Elem) : Option (σ × LoopRes) :=
  condLoop (fun st p => condF st p x v) st (adj f.isNeg l)

theorem find?_adj (c : Bool) (p1 : Ptr) (l : List Elem) :
    (adj c l).find? (fun e => e.1 = p1) =
      (l.find? (fun e => decide (e.1 = p1))).map (fun e => (e.1, if c then e.2.neg else e.2)) := by
  induction l with
  | nil => simp [adj_nil]
  | cons hd tl ih =>
    obtain ⟨p, s⟩ := hd
    rw [adj_cons]
    by_cases h : p = p1 <;> simp [h, ih]

end
end TieSddCoreAux
