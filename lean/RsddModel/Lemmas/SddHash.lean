import RsddModel.Lemmas.SddWmc
import RsddModel.Lemmas.Semirings
import RsddModel.Lemmas.Scratch
/-!
# Lemmas: semantic hashing over `FiniteField<P>` — BDDs, SDDs, and the per-node hash cache

* `SROps.Hom`: counts commute with semiring homomorphisms (`Bdd.wmcAux_hom`, `Sdd.wmcAux_hom`).
  The raw operations `Sem.ffOps P` on `Nat` (what the executable model and the Rust compute) are
  the image of the field `Sem.ffOpsFF P` under `FF.v`, so every statement proved from the
  semiring laws transfers to the raw hash for weights `< P`.
* `Sdd.semanticHash_eq`, `Bdd.semanticHash_eq`: the hash is the value of the weighted sum of the
  denoted function.
* the *second* hash computation of the Rust (`cached_semantic_hash`: complemented pointer =
  `negate` of the regular one; binary node `low·low_w + high·high_w`; decision node a `u128` sum
  reduced once) computes the same number: `Sdd.hashTree_eq`, `Scratch.hashTreeB_eq`.
* the cache: for a FIXED prime and weight map, starting from a cache all of whose entries are
  hashes under that map (e.g. the empty one), every call returns the recomputed value and keeps
  the invariant (`Scratch.cachedHash_ok`, `Sdd.cachedHash_ok`; sequences: `…Seq_ok`).
-/

/-- a homomorphism of operation records -/
structure SROps.Hom {α β : Type} (φ : β → α) (S' : SROps β) (S : SROps α) : Prop where
  zero : φ S'.zero = S.zero
  one : φ S'.one = S.one
  add : ∀ x y, φ (S'.add x y) = S.add (φ x) (φ y)
  mul : ∀ x y, φ (S'.mul x y) = S.mul (φ x) (φ y)

namespace Spec
/-- push weights through a map -/
def mapW {α β : Type} (φ : β → α) (w : Weights β) : Weights α := fun v => (φ (w v).1, φ (w v).2)
end Spec

open Spec

namespace Bdd
variable {α β : Type} {S : SROps α} {S' : SROps β} {φ : β → α}

theorem wmcAux_hom (hφ : SROps.Hom φ S' S) (w : Weights β) : ∀ (p : Ptr) (n : Bool),
    wmcAux S (mapW φ w) p n = φ (wmcAux S' w p n)
  | .tru, n => by cases n <;> simp [wmcAux, hφ.zero, hφ.one]
  | .fls, n => by cases n <;> simp [wmcAux, hφ.zero, hφ.one]
  | .node c v lo hi, n => by
    simp only [wmcAux, hφ.add, hφ.mul, wmcAux_hom hφ w lo, wmcAux_hom hφ w hi, mapW]

end Bdd

namespace Sdd
variable {α β : Type} {S : SROps α} {S' : SROps β} {φ : β → α}

mutual
theorem wmcAux_hom (hφ : SROps.Hom φ S' S) (w : Weights β) : ∀ (p : Ptr) (n : Bool),
    wmcAux S (mapW φ w) p n = φ (wmcAux S' w p n)
  | .tru, n => by cases n <;> simp [wmcAux, hφ.zero, hφ.one]
  | .fls, n => by cases n <;> simp [wmcAux, hφ.zero, hφ.one]
  | .lit v pol, n => by simp only [wmcAux, mapW]; split <;> rfl
  | .bdd c l i lo hi, n => by
    simp only [wmcAux, hφ.add, hφ.mul, hφ.zero, wmcAux_hom hφ w lo, wmcAux_hom hφ w hi, mapW]
  | .dec c i es, n => by
    simp only [wmcAux]; rw [← hφ.zero]; exact wmcElems_hom hφ w (xor c n) es S'.zero
theorem wmcElems_hom (hφ : SROps.Hom φ S' S) (w : Weights β) (m : Bool) :
    ∀ (es : List (Ptr × Ptr)) (acc : β),
    wmcElems S (mapW φ w) m es (φ acc) = φ (wmcElems S' w m es acc)
  | [], acc => rfl
  | (p, s) :: rest, acc => by
    simp only [wmcElems, wmcAux_hom hφ w p, wmcAux_hom hφ w s, ← hφ.mul, ← hφ.add]
    exact wmcElems_hom hφ w m rest _
end

end Sdd

/-! ## the field and its raw image -/
namespace Sem

theorem ffHom (P : Nat) (h0 : 0 < P) : SROps.Hom FF.v (ffOpsFF P h0) (ffOps P) :=
  ⟨rfl, rfl, fun _ _ => rfl, fun _ _ => rfl⟩

/-- weights reduced into the field -/
def liftW {P : Nat} (h0 : 0 < P) (w : Weights Nat) : Weights (FF P) :=
  fun v => (FF.new h0 (w v).1, FF.new h0 (w v).2)

/-- every weight is a residue -/
def WBelow (P : Nat) (w : Weights Nat) : Prop := ∀ v, (w v).1 < P ∧ (w v).2 < P

theorem mapW_liftW {P : Nat} (h0 : 0 < P) {w : Weights Nat} (hw : WBelow P w) :
    mapW FF.v (liftW h0 w) = w := by
  funext v
  simp only [mapW, liftW, FF.new, ffNew, Nat.mod_eq_of_lt (hw v).1, Nat.mod_eq_of_lt (hw v).2]

theorem liftW_normalised {P : Nat} (h0 : 0 < P) {w : Weights Nat} (hw : WBelow P w) {vars : List Nat}
    (hn : Normalised (ffOps P) w vars) : Normalised (ffOpsFF P h0) (liftW h0 w) vars := by
  intro v hv
  apply FF.ext
  have := hn v hv
  simp only [ffOps] at this
  show ffAdd P (ffNew P (w v).1) (ffNew P (w v).2) = ffNew P 1
  simp only [ffNew, Nat.mod_eq_of_lt (hw v).1, Nat.mod_eq_of_lt (hw v).2]
  exact this

theorem FF.add_sub {P : Nat} (x y : FF P) : (x.add y).sub y = x :=
  FF.ext (ff_add_sub x.lt y.lt)

theorem FF.add_right_cancel {P : Nat} {x y z : FF P} (h : x.add z = y.add z) : x = y := by
  rw [← FF.add_sub x z, h, FF.add_sub]

/-- `negate` is the unique solution of `y + x = 1` -/
theorem FF.eq_negate {P : Nat} {x y : FF P} (h : y.add x = FF.new x.pos 1) : y = x.negate :=
  FF.add_right_cancel (h.trans (FF.negate_add x).symm)

theorem ffNew_idem (P x : Nat) : ffNew P (ffNew P x) = ffNew P x := Nat.mod_mod _ _
theorem ffNew_ffAdd (P a b : Nat) : ffNew P (ffAdd P a b) = ffAdd P a b := by
  simp only [ffAdd, ffNew_idem]

end Sem

open Sem

/-! ## the hash is the weighted sum of the denoted function -/

namespace Bdd

/-- the raw count is the value of the count in the field -/
theorem wmc_ff {P : Nat} (h0 : 0 < P) {w : Weights Nat} (hw : WBelow P w) (p : Ptr) (n : Bool) :
    wmcAux (ffOps P) w p n = (wmcAux (ffOpsFF P h0) (liftW h0 w) p n).v := by
  rw [← wmcAux_hom (ffHom P h0), mapW_liftW h0 hw]

/-- the semantic hash of a free BDD / decision-DNNF is the value of the weighted sum of its
function -/
theorem semanticHash_eq {P : Nat} (h0 : 0 < P) (hP : P < 2 ^ 128) {w : Weights Nat} (hw : WBelow P w)
    {p : Ptr} (hf : p.free) {vars : List Nat} (hnd : vars.Nodup) (hsub : ∀ v ∈ p.vars, v ∈ vars)
    (hn : Normalised (ffOps P) w vars) (a : Assign) :
    wmc (ffOps P) w p = (wsum (ffOpsFF P h0) vars (liftW h0 w) p.eval a).v := by
  rw [wmc, wmc_ff h0 hw]
  exact congrArg FF.v (wmc_free (ffLaws P h0 hP) _ hf hnd hsub (liftW_normalised h0 hw hn) a)

end Bdd

namespace Sdd

theorem wmc_ff {P : Nat} (h0 : 0 < P) {w : Weights Nat} (hw : WBelow P w) (p : Ptr) (n : Bool) :
    wmcAux (ffOps P) w p n = (wmcAux (ffOpsFF P h0) (liftW h0 w) p n).v := by
  rw [← wmcAux_hom (ffHom P h0), mapW_liftW h0 hw]

/-- the semantic hash of a deterministic decomposable SDD is the value of the weighted sum of its
function -/
theorem semanticHash_eq {P : Nat} (h0 : 0 < P) (hP : P < 2 ^ 128) {w : Weights Nat} (hw : WBelow P w)
    {p : Ptr} (hd : DD p) {vars : List Nat} (hsub : ∀ v ∈ p.vars, v ∈ vars)
    (hn : Normalised (ffOps P) w vars) (a : Assign) :
    semanticHash P w p = (wsum (ffOpsFF P h0) vars (liftW h0 w) (fun b => p.eval b) a).v := by
  rw [semanticHash, wmc, wmc_ff h0 hw]
  exact congrArg FF.v (wmc_dd (ffLaws P h0 hP) _ hd hsub (liftW_normalised h0 hw hn) a)

/-! ## `cached_semantic_hash` (tree level) computes the same number -/

section hashTree
variable {P : Nat} (h0 : 0 < P) (hP : P < 2 ^ 128) {w : Weights Nat} (hw : WBelow P w)

/-- the count in the field -/
abbrev X (p : Ptr) : FF P := wmcAux (ffOpsFF P h0) (liftW h0 w) p false

include hw in
theorem liftW_v (v : Nat) : ((liftW h0 w v).1).v = (w v).1 ∧ ((liftW h0 w v).2).v = (w v).2 := by
  simp only [liftW, FF.new, ffNew, Nat.mod_eq_of_lt (hw v).1, Nat.mod_eq_of_lt (hw v).2, and_self]

include hP hw in
/-- complemented pointer: `negate` of the regular pointer's count -/
theorem X_neg {p : Ptr} (hd : DD p) (hn : ∀ v ∈ p.vars, ffAdd P (w v).1 (w v).2 = ffNew P 1) :
    wmcAux (ffOpsFF P h0) (liftW h0 w) p true = (X h0 (w := w) p).negate := by
  apply FF.eq_negate
  have hN : ∀ v ∈ p.vars, (ffOpsFF P h0).add (liftW h0 w v).1 (liftW h0 w v).2 = (ffOpsFF P h0).one :=
    liftW_normalised h0 hw (vars := p.vars) hn
  have := wmc_add_neg (ffLaws P h0 hP) (liftW h0 w) hd hN
  rw [(ffLaws P h0 hP).add_comm, ← wmcAux_true] at this
  exact this

theorem wmcElems_val (es : List Elem)
    (he : ∀ e ∈ es, hashTree P w e.1 = (X h0 (w := w) e.1).v ∧ hashTree P w e.2 = (X h0 (w := w) e.2).v) :
    ∀ acc : FF P, (wmcElems (ffOpsFF P h0) (liftW h0 w) false es acc).v = (acc.v + hashElems P w es) % P := by
  induction es with
  | nil => intro acc; simp [wmcElems, hashElems, Nat.mod_eq_of_lt acc.lt]
  | cons e rest ih =>
    obtain ⟨p, s⟩ := e
    intro acc
    obtain ⟨hp, hs⟩ := he (p, s) List.mem_cons_self
    simp only [wmcElems, hashElems]
    rw [ih (fun e h => he e (List.mem_cons_of_mem _ h))]
    simp only at hp hs
    rw [hp, hs]
    show (ffAdd P acc.v (ffMul P _ _) + _) % P = _
    rw [ffAdd_spec, Nat.mod_add_mod, Nat.add_assoc]

include hP hw in
theorem hashTree_X : ∀ (k : Nat) (p : Ptr), p.size ≤ k → DD p →
    (∀ v ∈ p.vars, ffAdd P (w v).1 (w v).2 = ffNew P 1) → hashTree P w p = (X h0 (w := w) p).v
  | 0, p, hk, _, _ => by have := size_pos p; omega
  | k + 1, .tru, _, _, _ => rfl
  | k + 1, .fls, _, _, _ => rfl
  | k + 1, .lit v pol, _, _, _ => by
    simp only [hashTree, X, wmcAux, Bool.xor_false]
    cases pol
    · exact (liftW_v h0 hw v).1.symm
    · exact (liftW_v h0 hw v).2.symm
  | k + 1, .bdd c l i lo hi, hk, hd, hn => by
    have hL := ffLaws P h0 hP
    simp only [Ptr.size] at hk
    have nlo : ∀ v ∈ lo.vars, ffAdd P (w v).1 (w v).2 = ffNew P 1 :=
      fun v hv => hn v (by simp [Ptr.vars, hv])
    have nhi : ∀ v ∈ hi.vars, ffAdd P (w v).1 (w v).2 = ffNew P 1 :=
      fun v hv => hn v (by simp [Ptr.vars, hv])
    have ihlo := hashTree_X k lo (by omega) hd.2.2.1 nlo
    have ihhi := hashTree_X k hi (by omega) hd.2.2.2 nhi
    -- the regular node
    have hreg : Sem.ffAdd P (Sem.ffMul P (hashTree P w lo) (w l).1) (Sem.ffMul P (hashTree P w hi) (w l).2) =
        (X h0 (w := w) (.bdd false l i lo hi)).v := by
      rw [ihlo, ihhi, ← (liftW_v h0 hw l).1, ← (liftW_v h0 hw l).2]
      show (((X h0 lo).mul (liftW h0 w l).1).add ((X h0 hi).mul (liftW h0 w l).2)).v = _
      apply congrArg FF.v
      simp only [X, wmcAux, Bool.xor_false]
      show (ffOpsFF P h0).add ((ffOpsFF P h0).mul _ _) ((ffOpsFF P h0).mul _ _) = _
      rw [sr_zero_add hL, hL.add_comm, hL.mul_comm _ (liftW h0 w l).2, hL.mul_comm _ (liftW h0 w l).1]
    cases c
    · simp only [hashTree, Bool.false_eq_true, if_false]; exact hreg
    · have dreg : DD (.bdd false l i lo hi) := hd
      have nreg : ∀ v ∈ (Ptr.bdd false l i lo hi).vars, ffAdd P (w v).1 (w v).2 = ffNew P 1 := hn
      simp only [hashTree, if_true]
      rw [hreg]
      show ((X h0 (Ptr.bdd false l i lo hi)).negate).v = _
      rw [← X_neg h0 hP hw dreg nreg]
      rfl
  | k + 1, .dec c i es, hk, hd, hn => by
    simp only [Ptr.size] at hk
    have hel := ddElems_iff.1 hd.2
    have hes : ∀ e ∈ es, hashTree P w e.1 = (X h0 (w := w) e.1).v ∧ hashTree P w e.2 = (X h0 (w := w) e.2).v := by
      intro e he
      have hsz := size_lt_of_mem he
      have := hel e he
      exact ⟨hashTree_X k e.1 (by omega) this.2.1
          (fun v hv => hn v (by simp only [Ptr.vars]; exact mem_varsElems.2 ⟨e, he, Or.inl hv⟩)),
        hashTree_X k e.2 (by omega) this.2.2
          (fun v hv => hn v (by simp only [Ptr.vars]; exact mem_varsElems.2 ⟨e, he, Or.inr hv⟩))⟩
    have hreg : Sem.ffNew P (hashElems P w es) = (X h0 (w := w) (.dec false i es)).v := by
      simp only [X, wmcAux, Bool.xor_false]
      rw [wmcElems_val h0 es hes]
      show _ = ((ffNew P 0) + _) % P
      simp [ffNew]
    cases c
    · simp only [hashTree, Bool.false_eq_true, if_false]; exact hreg
    · have dreg : DD (.dec false i es) := hd
      have nreg : ∀ v ∈ (Ptr.dec false i es).vars, ffAdd P (w v).1 (w v).2 = ffNew P 1 := hn
      simp only [hashTree, if_true]
      rw [hreg]
      show ((X h0 (Ptr.dec false i es)).negate).v = _
      rw [← X_neg h0 hP hw dreg nreg]
      rfl

include h0 hP hw in
/-- **the two hash computations of the Rust agree**: `SddPtr::cached_semantic_hash` (as a function
of the tree) is `DDNNFPtr::semantic_hash` -/
theorem hashTree_eq {p : Ptr} (hd : DD p) (hn : ∀ v ∈ p.vars, ffAdd P (w v).1 (w v).2 = ffNew P 1) :
    hashTree P w p = semanticHash P w p := by
  rw [hashTree_X h0 hP hw p.size p (Nat.le_refl _) hd hn, semanticHash, wmc, wmc_ff h0 hw]

end hashTree
end Sdd

/-! ## the BDD side: `BddPtr::cached_semantic_hash` -/
namespace Scratch
open Bdd

/-- `BddPtr::cached_semantic_hash` / `BddNode::semantic_hash` as a function of the tree (every
cache miss): a complemented pointer is `negate` of the regular one -/
def hashTreeB (P : Nat) (w : Weights Nat) : Bdd.Ptr → Nat
  | .tru => Sem.ffNew P 1
  | .fls => Sem.ffNew P 0
  | .node c v lo hi =>
    let h := Sem.ffAdd P (Sem.ffMul P (hashTreeB P w lo) (w v).1) (Sem.ffMul P (hashTreeB P w hi) (w v).2)
    if c then Sem.ffNegate P h else h

section
variable {P : Nat} (h0 : 0 < P) (hP : P < 2 ^ 128) {w : Weights Nat} (hw : WBelow P w)

include hP hw in
theorem hashTreeB_X : ∀ (p : Bdd.Ptr), (∀ v ∈ p.vars, ffAdd P (w v).1 (w v).2 = ffNew P 1) →
    hashTreeB P w p = (Bdd.wmcAux (ffOpsFF P h0) (liftW h0 w) p false).v
  | .tru, _ => rfl
  | .fls, _ => rfl
  | .node c v lo hi, hn => by
    have hL := ffLaws P h0 hP
    have ihlo := hashTreeB_X lo (fun u hu => hn u (by simp [Bdd.Ptr.vars, hu]))
    have ihhi := hashTreeB_X hi (fun u hu => hn u (by simp [Bdd.Ptr.vars, hu]))
    have hreg : Sem.ffAdd P (Sem.ffMul P (hashTreeB P w lo) (w v).1) (Sem.ffMul P (hashTreeB P w hi) (w v).2) =
        (Bdd.wmcAux (ffOpsFF P h0) (liftW h0 w) (.node false v lo hi) false).v := by
      rw [ihlo, ihhi, ← (Sdd.liftW_v h0 hw v).1, ← (Sdd.liftW_v h0 hw v).2]
      show (FF.add (FF.mul _ _) (FF.mul _ _)).v = _
      apply congrArg FF.v
      simp only [Bdd.wmcAux, Bool.xor_false]
      show (ffOpsFF P h0).add ((ffOpsFF P h0).mul _ _) ((ffOpsFF P h0).mul _ _) = _
      rw [hL.mul_comm _ (liftW h0 w v).2, hL.mul_comm _ (liftW h0 w v).1]
    cases c
    · simp only [hashTreeB, Bool.false_eq_true, if_false]; exact hreg
    · simp only [hashTreeB, if_true]
      rw [hreg]
      show (FF.negate _).v = _
      apply congrArg FF.v
      symm
      apply FF.eq_negate
      have hN : ∀ u ∈ (Bdd.Ptr.node false v lo hi).vars,
          (ffOpsFF P h0).add (liftW h0 w u).1 (liftW h0 w u).2 = (ffOpsFF P h0).one :=
        liftW_normalised h0 hw (vars := (Bdd.Ptr.node false v lo hi).vars) hn
      have := Bdd.wmcAux_add hL (liftW h0 w) (.node false v lo hi) hN
      rw [hL.add_comm] at this
      exact this

include h0 hP hw in
/-- `cached_semantic_hash` (as a function of the tree) is `semantic_hash` (the fold), for every
diagram, free or not -/
theorem hashTreeB_eq {p : Bdd.Ptr} (hn : ∀ v ∈ p.vars, ffAdd P (w v).1 (w v).2 = ffNew P 1) :
    hashTreeB P w p = Bdd.wmc (ffOps P) w p := by
  rw [hashTreeB_X h0 hP hw p hn, Bdd.wmc, Bdd.wmc_ff h0 hw]

end

/-! ### the cache -/

/-- every entry of the cache (at a node of the store) is that node's hash under THIS prime and
weight map -/
def CacheOK (P : Nat) (w : Weights Nat) (s : Store) (c : HashCache) : Prop :=
  ∀ i h, i < s.length → c i = some h → h = hashTreeB P w (unfold s (.reg i))

theorem cacheOK_empty (P : Nat) (w : Weights Nat) (s : Store) : CacheOK P w s (fun _ => none) :=
  fun _ _ _ h => by cases h

theorem cacheOK_tail {P : Nat} {w : Weights Nat} {n : Node} {rest : Store} {c : HashCache}
    (h : CacheOK P w (n :: rest) c) : CacheOK P w rest c := by
  intro i x hi hc
  have := h i x (by simp only [List.length_cons]; omega) hc
  rwa [unfold_cons_ne n rest (r := .reg i) rfl (by omega)] at this

theorem hashTreeB_node_false (P : Nat) (w : Weights Nat) (v : Nat) (lo hi : Bdd.Ptr) :
    Sem.ffNew P (hashTreeB P w (.node false v lo hi)) = hashTreeB P w (.node false v lo hi) := by
  simp only [hashTreeB, Bool.false_eq_true, if_false, ffNew_ffAdd]

/-- one call: the returned value is the recomputed hash, the invariant is kept, entries outside
the store are untouched -/
theorem cachedHash_ok (P : Nat) (w : Weights Nat) : ∀ (s : Store) (r : Ref) (c : HashCache),
    CacheOK P w s c →
    (cachedHash P w s r c).1 = hashTreeB P w (unfold s r) ∧ CacheOK P w s (cachedHash P w s r c).2 ∧
      ∀ j, s.length ≤ j → (cachedHash P w s r c).2 j = c j
  | [], .tru, c, h => ⟨rfl, h, fun _ _ => rfl⟩
  | [], .fls, c, h => ⟨rfl, h, fun _ _ => rfl⟩
  | [], .reg _, c, h => ⟨rfl, h, fun _ _ => rfl⟩
  | [], .compl _, c, h => ⟨rfl, h, fun _ _ => rfl⟩
  | n :: rest, .tru, c, h => ⟨rfl, h, fun _ _ => rfl⟩
  | n :: rest, .fls, c, h => ⟨rfl, h, fun _ _ => rfl⟩
  | n :: rest, .reg i, c, h => by
    by_cases hi : i = rest.length
    · subst hi
      have hu : unfold (n :: rest) (.reg rest.length) =
          .node false n.var (unfold rest n.lo) (unfold rest n.hi) := unfold_cons_eq n rest rfl
      cases hc : c rest.length with
      | some x =>
        have hx := h rest.length x (by simp) hc
        simp only [cachedHash, if_true, hc]
        refine ⟨?_, h, fun _ _ => trivial⟩
        rw [hx, hu]; exact hashTreeB_node_false P w _ _ _
      | none =>
        obtain ⟨l1, l2, l3⟩ := cachedHash_ok P w rest n.lo c (cacheOK_tail h)
        obtain ⟨h1, h2, h3⟩ := cachedHash_ok P w rest n.hi _ l2
        simp only [cachedHash, if_true, hc]
        refine ⟨?_, ?_, ?_⟩
        · rw [hu, l1, h1]; simp [hashTreeB]
        · intro j x hj hcj
          simp only at hcj
          by_cases hji : j = rest.length
          · subst hji
            simp only [if_true, Option.some.injEq] at hcj
            rw [← hcj, hu, l1, h1]; simp [hashTreeB]
          · simp only [hji, if_false] at hcj
            rw [unfold_cons_ne n rest (r := .reg j) rfl hji]
            exact h2 j x (by simp only [List.length_cons] at hj; omega) hcj
        · intro j hj
          simp only [List.length_cons] at hj
          have : j ≠ rest.length := by omega
          simp only [this, if_false]
          rw [h3 j (by omega), l3 j (by omega)]
    · obtain ⟨a1, a2, a3⟩ := cachedHash_ok P w rest (.reg i) c (cacheOK_tail h)
      simp only [cachedHash, hi, if_false]
      refine ⟨by rw [a1, unfold_cons_ne n rest (r := .reg i) rfl hi], ?_, fun j hj => a3 j (by
        simp only [List.length_cons] at hj; omega)⟩
      intro j x hj hcj
      by_cases hji : j = rest.length
      · rw [a3 j (by omega)] at hcj
        exact h j x hj hcj
      · rw [unfold_cons_ne n rest (r := .reg j) rfl hji]
        exact a2 j x (by simp only [List.length_cons] at hj; omega) hcj
  | n :: rest, .compl i, c, h => by
    by_cases hi : i = rest.length
    · subst hi
      have hu : unfold (n :: rest) (.compl rest.length) =
          .node true n.var (unfold rest n.lo) (unfold rest n.hi) := unfold_cons_eq n rest rfl
      have hur : unfold (n :: rest) (.reg rest.length) =
          .node false n.var (unfold rest n.lo) (unfold rest n.hi) := unfold_cons_eq n rest rfl
      cases hc : c rest.length with
      | some x =>
        have hx := h rest.length x (by simp) hc
        simp only [cachedHash, if_true, hc]
        refine ⟨?_, h, fun _ _ => trivial⟩
        rw [hx, hur, hu, hashTreeB_node_false]; simp [hashTreeB]
      | none =>
        obtain ⟨l1, l2, l3⟩ := cachedHash_ok P w rest n.lo c (cacheOK_tail h)
        obtain ⟨h1, h2, h3⟩ := cachedHash_ok P w rest n.hi _ l2
        simp only [cachedHash, if_true, hc]
        refine ⟨?_, ?_, ?_⟩
        · rw [hu, l1, h1]; simp [hashTreeB]
        · intro j x hj hcj
          simp only at hcj
          by_cases hji : j = rest.length
          · subst hji
            simp only [if_true, Option.some.injEq] at hcj
            rw [← hcj, hur, l1, h1]; simp [hashTreeB]
          · simp only [hji, if_false] at hcj
            rw [unfold_cons_ne n rest (r := .reg j) rfl hji]
            exact h2 j x (by simp only [List.length_cons] at hj; omega) hcj
        · intro j hj
          simp only [List.length_cons] at hj
          have : j ≠ rest.length := by omega
          simp only [this, if_false]
          rw [h3 j (by omega), l3 j (by omega)]
    · obtain ⟨a1, a2, a3⟩ := cachedHash_ok P w rest (.compl i) c (cacheOK_tail h)
      simp only [cachedHash, hi, if_false]
      refine ⟨by rw [a1, unfold_cons_ne n rest (r := .compl i) rfl hi], ?_, fun j hj => a3 j (by
        simp only [List.length_cons] at hj; omega)⟩
      intro j x hj hcj
      by_cases hji : j = rest.length
      · rw [a3 j (by omega)] at hcj
        exact h j x hj hcj
      · rw [unfold_cons_ne n rest (r := .reg j) rfl hji]
        exact a2 j x (by simp only [List.length_cons] at hj; omega) hcj

/-- a sequence of `cached_semantic_hash` calls on roots of one store, threading the cache -/
def cachedHashSeq (P : Nat) (w : Weights Nat) (s : Store) : List Ref → HashCache → List Nat × HashCache
  | [], c => ([], c)
  | r :: rs, c =>
    let a := cachedHash P w s r c
    let b := cachedHashSeq P w s rs a.2
    (a.1 :: b.1, b.2)

theorem cachedHashSeq_ok (P : Nat) (w : Weights Nat) (s : Store) : ∀ (rs : List Ref) (c : HashCache),
    CacheOK P w s c →
    (cachedHashSeq P w s rs c).1 = rs.map (fun r => hashTreeB P w (unfold s r)) ∧
      CacheOK P w s (cachedHashSeq P w s rs c).2
  | [], c, h => ⟨rfl, h⟩
  | r :: rs, c, h => by
    obtain ⟨a1, a2, _⟩ := cachedHash_ok P w s r c h
    obtain ⟨b1, b2⟩ := cachedHashSeq_ok P w s rs _ a2
    exact ⟨by simp only [cachedHashSeq, List.map_cons, a1, b1], b2⟩

end Scratch

/-! ## the SDD side: the per-node cache of `SddPtr::cached_semantic_hash` -/
namespace Sdd

theorem unfold_reg_eq (n : Node) (rest : Store) :
    unfold (n :: rest) (.reg rest.length) = unfoldNodeWith (unfold rest) n false := by
  simp [unfold]
theorem unfold_compl_eq (n : Node) (rest : Store) :
    unfold (n :: rest) (.compl rest.length) = unfoldNodeWith (unfold rest) n true := by
  simp [unfold]
theorem unfold_reg_ne (n : Node) (rest : Store) {i : Nat} (h : i ≠ rest.length) :
    unfold (n :: rest) (.reg i) = unfold rest (.reg i) := by
  simp [unfold, h]
theorem unfold_compl_ne (n : Node) (rest : Store) {i : Nat} (h : i ≠ rest.length) :
    unfold (n :: rest) (.compl i) = unfold rest (.compl i) := by
  simp [unfold, h]

/-- the hash of a regular node pointer is already reduced -/
theorem hashTree_node_false (P : Nat) (w : Weights Nat) (f : Ref → Ptr) (n : Node) :
    Sem.ffNew P (hashTree P w (unfoldNodeWith f n false)) = hashTree P w (unfoldNodeWith f n false) := by
  cases n <;> simp [unfoldNodeWith, hashTree, ffNew_ffAdd, ffNew_idem]

theorem hashTree_node_true (P : Nat) (w : Weights Nat) (f : Ref → Ptr) (n : Node) :
    hashTree P w (unfoldNodeWith f n true) = Sem.ffNegate P (hashTree P w (unfoldNodeWith f n false)) := by
  cases n <;> simp [unfoldNodeWith, hashTree]

/-- every entry of the cache (at a node of the store) is that node's hash under THIS prime and
weight map -/
def CacheOK (P : Nat) (w : Weights Nat) (s : Store) (c : HashCache) : Prop :=
  ∀ i h, i < s.length → c i = some h → h = hashTree P w (unfold s (.reg i))

theorem cacheOK_empty (P : Nat) (w : Weights Nat) (s : Store) : CacheOK P w s (fun _ => none) :=
  fun _ _ _ h => by cases h

theorem cacheOK_tail {P : Nat} {w : Weights Nat} {n : Node} {rest : Store} {c : HashCache}
    (h : CacheOK P w (n :: rest) c) : CacheOK P w rest c := by
  intro i x hi hc
  have := h i x (by simp only [List.length_cons]; omega) hc
  rwa [unfold_reg_ne n rest (by omega)] at this

/-- what the recursive call on the rest of the store is assumed to do -/
def FSpec (P : Nat) (w : Weights Nat) (rest : Store) (f : Ref → HashCache → Nat × HashCache) : Prop :=
  ∀ r c, CacheOK P w rest c →
    (f r c).1 = hashTree P w (unfold rest r) ∧ CacheOK P w rest (f r c).2 ∧
      ∀ j, rest.length ≤ j → (f r c).2 j = c j

theorem cachedElemsWith_ok {P : Nat} {w : Weights Nat} {rest : Store}
    {f : Ref → HashCache → Nat × HashCache} (hf : FSpec P w rest f) :
    ∀ (es : List (Ref × Ref)) (c : HashCache), CacheOK P w rest c →
    (cachedElemsWith P f es c).1 = hashElems P w (es.map fun e => (unfold rest e.1, unfold rest e.2)) ∧
      CacheOK P w rest (cachedElemsWith P f es c).2 ∧
      ∀ j, rest.length ≤ j → (cachedElemsWith P f es c).2 j = c j
  | [], c, h => ⟨rfl, h, fun _ _ => rfl⟩
  | (p, s) :: es, c, h => by
    obtain ⟨a1, a2, a3⟩ := hf p c h
    obtain ⟨b1, b2, b3⟩ := hf s _ a2
    obtain ⟨r1, r2, r3⟩ := cachedElemsWith_ok hf es _ b2
    refine ⟨?_, r2, fun j hj => ?_⟩
    · simp only [cachedElemsWith, List.map_cons, hashElems, a1, b1, r1]
    · simp only [cachedElemsWith]; rw [r3 j hj, b3 j hj, a3 j hj]

theorem cachedNodeWith_ok {P : Nat} {w : Weights Nat} {rest : Store}
    {f : Ref → HashCache → Nat × HashCache} (hf : FSpec P w rest f) (n : Node) (c : HashCache)
    (h : CacheOK P w (n :: rest) c) :
    (cachedNodeWith P w f n rest.length c).1 = hashTree P w (unfoldNodeWith (unfold rest) n false) ∧
      CacheOK P w (n :: rest) (cachedNodeWith P w f n rest.length c).2 ∧
      ∀ j, (n :: rest).length ≤ j → (cachedNodeWith P w f n rest.length c).2 j = c j := by
  have keep : ∀ (c' : HashCache) (v : Nat), CacheOK P w rest c' →
      v = hashTree P w (unfoldNodeWith (unfold rest) n false) →
      CacheOK P w (n :: rest) (fun j => if j = rest.length then some v else c' j) := by
    intro c' v hc' hv j x hj hcj
    by_cases hji : j = rest.length
    · subst hji
      simp only [if_true, Option.some.injEq] at hcj
      rw [← hcj, unfold_reg_eq, hv]
    · simp only [hji, if_false] at hcj
      rw [unfold_reg_ne n rest hji]
      exact hc' j x (by simp only [List.length_cons] at hj; omega) hcj
  cases hc : c rest.length with
  | some x =>
    have hx := h rest.length x (by simp) hc
    rw [unfold_reg_eq] at hx
    cases n with
    | bdd l idx lo hi =>
      simp only [cachedNodeWith, hc]
      exact ⟨by rw [hx]; exact hashTree_node_false P w _ _, h, fun _ _ => trivial⟩
    | dec idx es =>
      simp only [cachedNodeWith, hc]
      exact ⟨by rw [hx]; exact hashTree_node_false P w _ _, h, fun _ _ => trivial⟩
  | none =>
    cases n with
    | bdd l idx lo hi =>
      obtain ⟨a1, a2, a3⟩ := hf lo c (cacheOK_tail h)
      obtain ⟨b1, b2, b3⟩ := hf hi _ a2
      simp only [cachedNodeWith, hc]
      have hv : Sem.ffAdd P (Sem.ffMul P (f lo c).1 (w l).1) (Sem.ffMul P (f hi (f lo c).2).1 (w l).2) =
          hashTree P w (unfoldNodeWith (unfold rest) (.bdd l idx lo hi) false) := by
        rw [a1, b1]; simp [unfoldNodeWith, hashTree]
      refine ⟨hv, keep _ _ b2 hv, fun j hj => ?_⟩
      simp only [List.length_cons] at hj
      have : j ≠ rest.length := by omega
      simp only [this, if_false]
      rw [b3 j (by omega), a3 j (by omega)]
    | dec idx es =>
      obtain ⟨a1, a2, a3⟩ := cachedElemsWith_ok hf es c (cacheOK_tail h)
      simp only [cachedNodeWith, hc]
      have hv : Sem.ffNew P (cachedElemsWith P f es c).1 =
          hashTree P w (unfoldNodeWith (unfold rest) (.dec idx es) false) := by
        rw [a1]; simp [unfoldNodeWith, hashTree]
      refine ⟨hv, keep _ _ a2 hv, fun j hj => ?_⟩
      simp only [List.length_cons] at hj
      have : j ≠ rest.length := by omega
      simp only [this, if_false]
      exact a3 j (by omega)

/-- one call: the returned value is the recomputed hash, the invariant is kept, entries outside
the store are untouched -/
theorem cachedHash_ok (P : Nat) (w : Weights Nat) : ∀ (s : Store), FSpec P w s (cachedHash P w s)
  | [] => by
    intro r c h
    cases r <;> exact ⟨rfl, h, fun _ _ => rfl⟩
  | n :: rest => by
    have ih := cachedHash_ok P w rest
    have lift : ∀ {c c' : HashCache}, CacheOK P w (n :: rest) c → CacheOK P w rest c' →
        (∀ j, rest.length ≤ j → c' j = c j) → CacheOK P w (n :: rest) c' := by
      intro c c' h h' hfr j x hj hcj
      by_cases hji : j = rest.length
      · rw [hfr j (by omega)] at hcj; exact h j x hj hcj
      · rw [unfold_reg_ne n rest hji]
        exact h' j x (by simp only [List.length_cons] at hj; omega) hcj
    intro r c h
    cases r with
    | tru => exact ⟨rfl, h, fun _ _ => rfl⟩
    | fls => exact ⟨rfl, h, fun _ _ => rfl⟩
    | lit v pol => exact ⟨rfl, h, fun _ _ => rfl⟩
    | reg i =>
      by_cases hi : i = rest.length
      · subst hi
        obtain ⟨a1, a2, a3⟩ := cachedNodeWith_ok ih n c h
        simp only [cachedHash, if_true]
        exact ⟨by rw [a1, unfold_reg_eq], a2, a3⟩
      · obtain ⟨a1, a2, a3⟩ := ih (.reg i) c (cacheOK_tail h)
        simp only [cachedHash, hi, if_false]
        exact ⟨by rw [a1, unfold_reg_ne n rest hi], lift h a2 a3,
          fun j hj => a3 j (by simp only [List.length_cons] at hj; omega)⟩
    | compl i =>
      by_cases hi : i = rest.length
      · subst hi
        obtain ⟨a1, a2, a3⟩ := cachedNodeWith_ok ih n c h
        simp only [cachedHash, if_true]
        exact ⟨by rw [a1, unfold_compl_eq, hashTree_node_true], a2, a3⟩
      · obtain ⟨a1, a2, a3⟩ := ih (.compl i) c (cacheOK_tail h)
        simp only [cachedHash, hi, if_false]
        exact ⟨by rw [a1, unfold_compl_ne n rest hi], lift h a2 a3,
          fun j hj => a3 j (by simp only [List.length_cons] at hj; omega)⟩

theorem cachedHashes_ok (P : Nat) (w : Weights Nat) (s : Store) : ∀ (rs : List Ref) (c : HashCache),
    CacheOK P w s c →
    (cachedHashes P w s rs c).1 = rs.map (fun r => hashTree P w (unfold s r)) ∧
      CacheOK P w s (cachedHashes P w s rs c).2
  | [], c, h => ⟨rfl, h⟩
  | r :: rs, c, h => by
    obtain ⟨a1, a2, _⟩ := cachedHash_ok P w s r c h
    obtain ⟨b1, b2⟩ := cachedHashes_ok P w s rs _ a2
    exact ⟨by simp only [cachedHashes, List.map_cons, a1, b1], b2⟩

end Sdd
