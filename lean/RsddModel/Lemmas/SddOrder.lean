import RsddModel.Model.Sdd
/-!
# The derived `Ord` of `SddPtr` (`Ptr.cmp`) is a strict total order on trees

`cmp a b = .eq ↔ a = b`, `cmp b a = (cmp a b).swap`, transitivity; hence the stable insertion
sort by prime returns a strictly increasing list whenever the primes are pairwise different, and
two strictly increasing lists with the same members are equal.
-/
namespace Sdd

/-- "transitivity triple": `x = cmp a b`, `y = cmp b c`, `z = cmp a c` -/
def OT (x y z : Ordering) : Prop :=
  (x = .lt → y = .lt → z = .lt) ∧ (x = .eq → z = y) ∧ (y = .eq → z = x)

theorem OT_then {x y z x' y' z' : Ordering} (h : OT x y z) (h' : OT x' y' z') :
    OT (x.then x') (y.then y') (z.then z') := by
  obtain ⟨h1, h2, h3⟩ := h
  obtain ⟨h1', h2', h3'⟩ := h'
  cases x <;> cases y <;> simp_all [OT, Ordering.then] <;> cases z <;> simp_all

theorem then_eq_eq {a b : Ordering} : a.then b = .eq ↔ a = .eq ∧ b = .eq := by
  cases a <;> cases b <;> simp [Ordering.then]

theorem OT_nat (a b c : Nat) : OT (compare a b) (compare b c) (compare a c) := by
  refine ⟨fun h1 h2 => ?_, fun h1 => ?_, fun h1 => ?_⟩
  · rw [Nat.compare_eq_lt] at *; omega
  · rw [Nat.compare_eq_eq] at h1; subst h1; rfl
  · rw [Nat.compare_eq_eq] at h1; subst h1; rfl

theorem OT_bool (a b c : Bool) : OT (compare a b) (compare b c) (compare a c) := by
  cases a <;> cases b <;> cases c <;> simp [OT] <;> decide

theorem bool_compare_eq {a b : Bool} : compare a b = .eq ↔ a = b := by
  cases a <;> cases b <;> decide
theorem bool_compare_swap (a b : Bool) : compare b a = (compare a b).swap := by
  cases a <;> cases b <;> rfl

/-! ## `cmp a b = eq ↔ a = b` -/

mutual
theorem Ptr.cmp_refl : ∀ a : Ptr, Ptr.cmp a a = .eq
  | .tru => by simp [Ptr.cmp]
  | .fls => by simp [Ptr.cmp]
  | .lit v p => by simp [Ptr.cmp]
  | .bdd c l i lo hi => by simp [Ptr.cmp, Ptr.cmp_refl lo, Ptr.cmp_refl hi]
  | .dec c i es => by simp [Ptr.cmp, cmpElems_refl es]
theorem cmpElems_refl : ∀ l : List (Ptr × Ptr), cmpElems l l = .eq
  | [] => by simp [cmpElems]
  | (p, s) :: r => by simp [cmpElems, Ptr.cmp_refl p, Ptr.cmp_refl s, cmpElems_refl r]
end

/-- ranks of different constructors / complement flags differ -/
theorem Ptr.cmp_of_rank_ne {a b : Ptr} (h : a.rank ≠ b.rank) :
    Ptr.cmp a b = compare a.rank b.rank := by
  cases a with
  | tru => cases b <;> simp_all [Ptr.cmp]
  | fls => cases b <;> simp_all [Ptr.cmp]
  | lit v p => cases b <;> simp_all [Ptr.cmp, Ptr.rank]
  | bdd c l i lo hi =>
    cases b with
    | bdd c' l' i' lo' hi' =>
      have : c ≠ c' := by rintro rfl; cases c <;> simp [Ptr.rank] at h
      simp [Ptr.cmp, this]
    | _ => simp [Ptr.cmp]
  | dec c i es =>
    cases b with
    | dec c' i' es' =>
      have : c ≠ c' := by rintro rfl; cases c <;> simp [Ptr.rank] at h
      simp [Ptr.cmp, this]
    | _ => simp [Ptr.cmp]

/-- pointers of equal rank have the same constructor and complement flag -/
inductive SameShape : Ptr → Ptr → Prop
  | tru : SameShape .tru .tru
  | fls : SameShape .fls .fls
  | lit (v p v' p') : SameShape (.lit v p) (.lit v' p')
  | bdd (c l i lo hi l' i' lo' hi') : SameShape (.bdd c l i lo hi) (.bdd c l' i' lo' hi')
  | dec (c i es i' es') : SameShape (.dec c i es) (.dec c i' es')

theorem sameShape_of_rank {a b : Ptr} (h : a.rank = b.rank) : SameShape a b := by
  cases a with
  | tru => cases b <;> first | exact .tru | (rename_i c _ _ _ _; cases c <;> simp [Ptr.rank] at h) | (rename_i c _ _; cases c <;> simp [Ptr.rank] at h) | simp [Ptr.rank] at h
  | fls => cases b <;> first | exact .fls | (rename_i c _ _ _ _; cases c <;> simp [Ptr.rank] at h) | (rename_i c _ _; cases c <;> simp [Ptr.rank] at h) | simp [Ptr.rank] at h
  | lit v p => cases b <;> first | exact .lit .. | (rename_i c _ _ _ _; cases c <;> simp [Ptr.rank] at h) | (rename_i c _ _; cases c <;> simp [Ptr.rank] at h) | simp [Ptr.rank] at h
  | bdd c l i lo hi =>
    cases b with
    | bdd c' l' i' lo' hi' =>
      have : c = c' := by cases c <;> cases c' <;> simp [Ptr.rank] at h ⊢
      subst this; exact .bdd ..
    | dec c' _ _ => cases c <;> cases c' <;> simp [Ptr.rank] at h
    | _ => cases c <;> simp [Ptr.rank] at h
  | dec c i es =>
    cases b with
    | dec c' i' es' =>
      have : c = c' := by cases c <;> cases c' <;> simp [Ptr.rank] at h ⊢
      subst this; exact .dec ..
    | bdd c' _ _ _ _ => cases c <;> cases c' <;> simp [Ptr.rank] at h
    | _ => cases c <;> simp [Ptr.rank] at h

mutual
theorem Ptr.cmp_eq : ∀ a b : Ptr, Ptr.cmp a b = .eq → a = b
  | a, b, h => by
    by_cases hr : a.rank = b.rank
    · cases sameShape_of_rank hr with
      | tru => rfl
      | fls => rfl
      | lit v p v' p' =>
        simp only [Ptr.cmp, then_eq_eq, Nat.compare_eq_eq, bool_compare_eq] at h
        rw [h.1, h.2]
      | bdd c l i lo hi l' i' lo' hi' =>
        simp only [Ptr.cmp, if_true, then_eq_eq, Nat.compare_eq_eq] at h
        rw [h.1, h.2.1, Ptr.cmp_eq _ _ h.2.2.1, Ptr.cmp_eq _ _ h.2.2.2]
      | dec c i es i' es' =>
        simp only [Ptr.cmp, if_true, then_eq_eq, Nat.compare_eq_eq] at h
        rw [h.1, cmpElems_eq _ _ h.2]
    · rw [Ptr.cmp_of_rank_ne hr, Nat.compare_eq_eq] at h; exact absurd h hr
theorem cmpElems_eq : ∀ a b : List (Ptr × Ptr), cmpElems a b = .eq → a = b
  | [], b, h => by cases b <;> simp_all [cmpElems]
  | (p, s) :: r, b, h => by
    cases b with
    | nil => simp [cmpElems] at h
    | cons x r' =>
      obtain ⟨p', s'⟩ := x
      simp only [cmpElems, then_eq_eq] at h
      rw [Ptr.cmp_eq _ _ h.1, Ptr.cmp_eq _ _ h.2.1, cmpElems_eq _ _ h.2.2]
end

theorem Ptr.cmp_eq_iff {a b : Ptr} : Ptr.cmp a b = .eq ↔ a = b :=
  ⟨Ptr.cmp_eq a b, fun h => h ▸ Ptr.cmp_refl a⟩

/-! ## `cmp b a = (cmp a b).swap` -/

mutual
theorem Ptr.cmp_swap : ∀ a b : Ptr, Ptr.cmp b a = (Ptr.cmp a b).swap
  | a, b => by
    by_cases hr : a.rank = b.rank
    · cases sameShape_of_rank hr with
      | tru => simp [Ptr.cmp]
      | fls => simp [Ptr.cmp]
      | lit v p v' p' =>
        simp only [Ptr.cmp, Ordering.swap_then, Nat.compare_swap, ← bool_compare_swap]
      | bdd c l i lo hi l' i' lo' hi' =>
        simp only [Ptr.cmp, if_true, Ordering.swap_then, Nat.compare_swap,
          ← Ptr.cmp_swap lo lo', ← Ptr.cmp_swap hi hi']
      | dec c i es i' es' =>
        simp only [Ptr.cmp, if_true, Ordering.swap_then, Nat.compare_swap, ← cmpElems_swap es es']
    · rw [Ptr.cmp_of_rank_ne hr, Ptr.cmp_of_rank_ne (fun e => hr e.symm), Nat.compare_swap]
theorem cmpElems_swap : ∀ a b : List (Ptr × Ptr), cmpElems b a = (cmpElems a b).swap
  | [], [] => rfl
  | [], _ :: _ => rfl
  | _ :: _, [] => rfl
  | (p, s) :: r, (p', s') :: r' => by
    simp only [cmpElems, Ordering.swap_then, ← Ptr.cmp_swap p p', ← Ptr.cmp_swap s s',
      ← cmpElems_swap r r']
end

theorem Ptr.cmp_gt_iff {a b : Ptr} : Ptr.cmp a b = .gt ↔ Ptr.cmp b a = .lt := by
  rw [Ptr.cmp_swap a b]; cases Ptr.cmp a b <;> simp

/-! ## transitivity -/

theorem OT_of {x y z : Ordering} (h1 : x = .lt → y = .lt → z = .lt) (h2 : x = .eq → z = y)
    (h3 : y = .eq → z = x) : OT x y z := ⟨h1, h2, h3⟩

mutual
theorem Ptr.cmp_OT : ∀ a b c : Ptr, OT (Ptr.cmp a b) (Ptr.cmp b c) (Ptr.cmp a c)
  | a, b, c => by
    by_cases hab : a.rank = b.rank
    · by_cases hbc : b.rank = c.rank
      · cases sameShape_of_rank hab with
        | tru => cases sameShape_of_rank hbc; simp [Ptr.cmp, OT]
        | fls => cases sameShape_of_rank hbc; simp [Ptr.cmp, OT]
        | lit v p v' p' =>
          cases sameShape_of_rank hbc
          simp only [Ptr.cmp]
          exact OT_then (OT_nat ..) (OT_bool ..)
        | bdd c0 l i lo hi l' i' lo' hi' =>
          cases sameShape_of_rank hbc with
          | bdd _ _ _ _ _ l2 i2 lo2 hi2 =>
            simp only [Ptr.cmp, if_true]
            exact OT_then (OT_nat ..) (OT_then (OT_nat ..)
              (OT_then (Ptr.cmp_OT lo lo' lo2) (Ptr.cmp_OT hi hi' hi2)))
        | dec c0 i es i' es' =>
          cases sameShape_of_rank hbc with
          | dec _ _ _ i2 es2 =>
            simp only [Ptr.cmp, if_true]
            exact OT_then (OT_nat ..) (cmpElems_OT es es' es2)
      · have hac : a.rank ≠ c.rank := fun e => hbc (hab ▸ e)
        rw [Ptr.cmp_of_rank_ne hbc, Ptr.cmp_of_rank_ne hac]
        refine OT_of (fun _ h2 => ?_) (fun h1 => ?_) (fun h2 => ?_)
        · rw [Nat.compare_eq_lt] at *; omega
        · rw [hab]
        · rw [Nat.compare_eq_eq] at h2; exact absurd h2 hbc
    · rw [Ptr.cmp_of_rank_ne hab]
      by_cases hbc : b.rank = c.rank
      · have hac : a.rank ≠ c.rank := fun e => hab (e.trans hbc.symm)
        rw [Ptr.cmp_of_rank_ne hac]
        refine OT_of (fun h1 _ => ?_) (fun h1 => ?_) (fun h2 => ?_)
        · rw [Nat.compare_eq_lt] at *; omega
        · rw [Nat.compare_eq_eq] at h1; exact absurd h1 hab
        · rw [hbc]
      · rw [Ptr.cmp_of_rank_ne hbc]
        refine OT_of (fun h1 h2 => ?_) (fun h1 => ?_) (fun h2 => ?_)
        · rw [Nat.compare_eq_lt] at h1 h2
          have hac : a.rank ≠ c.rank := by omega
          rw [Ptr.cmp_of_rank_ne hac, Nat.compare_eq_lt]; omega
        · rw [Nat.compare_eq_eq] at h1; exact absurd h1 hab
        · rw [Nat.compare_eq_eq] at h2; exact absurd h2 hbc
theorem cmpElems_OT : ∀ a b c : List (Ptr × Ptr),
    OT (cmpElems a b) (cmpElems b c) (cmpElems a c)
  | [], [], c => by cases c <;> simp [cmpElems, OT]
  | [], _ :: _, [] => by simp [cmpElems, OT]
  | [], _ :: _, _ :: _ => by simp [cmpElems, OT]
  | _ :: _, [], [] => by simp [cmpElems, OT]
  | _ :: _, [], _ :: _ => by simp [cmpElems, OT]
  | (p, s) :: r, (p', s') :: r', [] => by simp [cmpElems, OT]
  | (p, s) :: r, (p', s') :: r', (p2, s2) :: r2 => by
    simp only [cmpElems]
    exact OT_then (Ptr.cmp_OT p p' p2) (OT_then (Ptr.cmp_OT s s' s2) (cmpElems_OT r r' r2))
end

theorem Ptr.cmp_lt_trans {a b c : Ptr} (h1 : Ptr.cmp a b = .lt) (h2 : Ptr.cmp b c = .lt) :
    Ptr.cmp a c = .lt := (Ptr.cmp_OT a b c).1 h1 h2

theorem Ptr.cmp_lt_irrefl (a : Ptr) : Ptr.cmp a a ≠ .lt := by rw [Ptr.cmp_refl]; decide

theorem Ptr.cmp_lt_asymm {a b : Ptr} (h : Ptr.cmp a b = .lt) : Ptr.cmp b a ≠ .lt := by
  rw [Ptr.cmp_swap a b, h]; decide

#print axioms Ptr.cmp_eq_iff
#print axioms Ptr.cmp_swap
#print axioms Ptr.cmp_lt_trans
end Sdd
