import RsddModel.Lemmas.SddBasic
/-!
# SDD lemmas, part 2: the builder operations compute the function they name

The invariant `WF vt p` carried by every pointer handed out:
* literals and binary-node labels are variables of the vtree;
* node indices are internal vtree nodes;
* every decision node's primes form a *partition* (pairwise exclusive, exhaustive) — this is
  what the complement representation (`¬⋁pᵢ∧sᵢ = ⋁pᵢ∧¬sᵢ`), the equal-prime / implied-prime
  shortcuts of `and_cartesian`, the `is_true(newp)` exit of `condition` and the BDD test of
  `unique_or` need;
* at a right-linear vtree node the label of a binary node is the left leaf and the primes of a
  decision node depend only on the left leaf (needed for the BDD shortcut of `and_cartesian`,
  which takes the label of `a` for both operands).
-/
namespace Sdd
open Spec

def Internal (vt : VTree) (i : Nat) : Prop := ∃ l r, vt.sub? 0 i = some (.node l r)

def DepOnly (p : Ptr) (w : Nat) : Prop := ∀ a a' : Assign, a w = a' w → p.eval a = p.eval a'
def DepW (ow : Option Nat) (p : Ptr) : Prop := ∀ w, ow = some w → DepOnly p w

mutual
def WF (vt : VTree) : Ptr → Prop
  | .tru => True
  | .fls => True
  | .lit v _ => vt.hasVar v = true
  | .bdd _ l i lo hi =>
    vt.hasVar l = true ∧ Internal vt i ∧ (∀ w, vt.leftLeaf? i = some w → w = l) ∧
      WF vt lo ∧ WF vt hi
  | .dec _ i es => Internal vt i ∧ Partition es ∧ WFElems vt (vt.leftLeaf? i) es
def WFElems (vt : VTree) (ow : Option Nat) : List (Ptr × Ptr) → Prop
  | [] => True
  | (p, s) :: r => WF vt p ∧ WF vt s ∧ DepW ow p ∧ WFElems vt ow r
end

/-- element-wise reading of `WFElems` -/
def ElemsOK (vt : VTree) (ow : Option Nat) (es : List Elem) : Prop :=
  ∀ e ∈ es, WF vt e.1 ∧ WF vt e.2 ∧ DepW ow e.1

theorem wfElems_iff (vt : VTree) (ow) (es : List Elem) : WFElems vt ow es ↔ ElemsOK vt ow es := by
  induction es with
  | nil => simp [WFElems, ElemsOK]
  | cons e l ih =>
    obtain ⟨p, s⟩ := e
    simp only [WFElems, ih, ElemsOK, List.mem_cons, forall_eq_or_imp]
    constructor
    · rintro ⟨h1, h2, h3, h4⟩; exact ⟨⟨h1, h2, h3⟩, h4⟩
    · rintro ⟨⟨h1, h2, h3⟩, h4⟩; exact ⟨h1, h2, h3, h4⟩

theorem WF_tru (vt) : WF vt .tru := by simp [WF]
theorem WF_fls (vt) : WF vt .fls := by simp [WF]

theorem WF_neg {vt} {p : Ptr} (h : WF vt p) : WF vt p.neg := by
  cases p <;> first | exact h | (simp only [Ptr.neg, WF] at h ⊢; exact h)

theorem WF_dec {vt c i es} : WF vt (.dec c i es) ↔
    Internal vt i ∧ Partition es ∧ ElemsOK vt (vt.leftLeaf? i) es := by
  simp [WF, wfElems_iff]

theorem DepW_tru (ow) : DepW ow .tru := fun _ _ _ _ _ => by simp
theorem DepW_fls (ow) : DepW ow .fls := fun _ _ _ _ _ => by simp
theorem DepW_neg {ow p} (h : DepW ow p) : DepW ow p.neg := by
  intro w hw a a' e; simp [h w hw a a' e]
theorem DepW_and {ow p q r} (hp : DepW ow p) (hq : DepW ow q)
    (h : ∀ a, r.eval a = (p.eval a && q.eval a)) : DepW ow r := by
  intro w hw a a' e; rw [h, h, hp w hw a a' e, hq w hw a a' e]
theorem DepW_or {ow p q r} (hp : DepW ow p) (hq : DepW ow q)
    (h : ∀ a, r.eval a = (p.eval a || q.eval a)) : DepW ow r := by
  intro w hw a a' e; rw [h, h, hp w hw a a' e, hq w hw a a' e]

theorem ElemsOK_negSubs {vt ow es} (h : ElemsOK vt ow es) : ElemsOK vt ow (negSubs es) := by
  intro e he
  simp only [negSubs, List.mem_map] at he
  obtain ⟨e', he', rfl⟩ := he
  obtain ⟨h1, h2, h3⟩ := h e' he'
  exact ⟨h1, WF_neg h2, h3⟩

theorem lit_depOnly {l p w} (h : DepOnly (.lit l p) w) : w = l := by
  apply Classical.byContradiction
  intro hne
  have := h (fun _ => false) (upd (fun _ => false) l true) (by simp [upd, hne])
  cases p <;> simp [eval_lit, upd] at this

/-- the index of a well formed non-constant pointer is a node of the vtree -/
theorem vtreeIndex_sub {vt : VTree} {p : Ptr} (h : WF vt p) (h1 : p.isTrue = false)
    (h2 : p.isFalse = false) : ∃ s, vt.sub? 0 (vtreeIndex vt p) = some s := by
  cases p with
  | tru => simp [Ptr.isTrue] at h1
  | fls => simp [Ptr.isFalse] at h2
  | lit v pol =>
    simp only [WF, VTree.hasVar, Option.isSome_iff_exists] at h
    obtain ⟨i, hi⟩ := h
    exact ⟨_, by simp only [vtreeIndex, hi, Option.getD_some]; exact VTree.varIndex?_sub hi⟩
  | bdd c l i lo hi => obtain ⟨_, ⟨l', r', h'⟩, _⟩ := h; exact ⟨_, h'⟩
  | dec c i es => obtain ⟨⟨l', r', h'⟩, _⟩ := h; exact ⟨_, h'⟩

/-! ## unique_bdd / unique_or / base cases -/

theorem uniqueBdd_eval (l : Nat) (lo hi : Ptr) (idx : Nat) (a : Assign) :
    (uniqueBdd l lo hi idx).eval a = (if a l then hi.eval a else lo.eval a) := by
  simp only [uniqueBdd]
  split
  · subst_vars; simp
  · split
    · rename_i h; simp at h
      simp [eval_lit, isFalse_eval h.1, isTrue_eval h.2]
    · split
      · rename_i h; simp at h
        simp [eval_lit, isTrue_eval h.1, isFalse_eval h.2]
      · split
        · simp only [eval_bdd, eval_neg]; cases a l <;> simp
        · simp [eval_bdd]

theorem uniqueBdd_WF {vt : VTree} {l : Nat} {lo hi : Ptr} {idx : Nat} (hl : vt.hasVar l = true)
    (hi' : Internal vt idx) (hw : ∀ w, vt.leftLeaf? idx = some w → w = l)
    (wlo : WF vt lo) (whi : WF vt hi) : WF vt (uniqueBdd l lo hi idx) := by
  simp only [uniqueBdd]
  split
  · exact whi
  · split
    · simpa [WF] using hl
    · split
      · simpa [WF] using hl
      · split
        · exact ⟨hl, hi', hw, WF_neg wlo, WF_neg whi⟩
        · exact ⟨hl, hi', hw, wlo, whi⟩

theorem asBdd?_some {es : List Elem} {l : Nat} {lo hi : Ptr} (h : asBdd? es = some (l, lo, hi)) :
    ∃ x pol p1 s0 s1, es = [(.lit x pol, s0), (.lit l p1, s1)] ∧
      lo = (if !pol then s0 else s1) ∧ hi = (if pol then s0 else s1) := by
  unfold asBdd? at h
  split at h
  · rename_i x pol s0 l' p1 s1
    simp only [Option.some.injEq, Prod.mk.injEq] at h
    obtain ⟨rfl, rfl, rfl⟩ := h
    exact ⟨x, pol, p1, s0, s1, rfl, rfl, rfl⟩
  · cases h

/-- two literal primes that partition are the two literals of one variable -/
theorem partition_two_lits {x l : Nat} {pol p1 : Bool} {s0 s1 : Ptr}
    (h : Partition [(.lit x pol, s0), (.lit l p1, s1)]) : x = l ∧ pol = !p1 := by
  have key : ∀ a : Assign, (if (Ptr.lit x pol).eval a then 1 else 0) +
      (if (Ptr.lit l p1).eval a then 1 else 0) = 1 := by
    intro a; have := h a; simpa [cnt_cons] using this
  by_cases hx : x = l
  · subst hx
    refine ⟨rfl, ?_⟩
    have := key (fun _ => true)
    cases pol <;> cases p1 <;> simp [eval_lit] at this ⊢
  · exfalso
    have := key (fun y => if y = x then pol else p1)
    have hx' : ¬ l = x := fun e => hx e.symm
    cases pol <;> cases p1 <;> simp [eval_lit, hx'] at this

theorem uniqueOr_ok {vt : VTree} {es : List Elem} {table : Nat} {r : Ptr}
    (hok : ElemsOK vt (vt.leftLeaf? table) es) (hpart : Partition es) (hint : Internal vt table)
    (h : uniqueOr es table = some r) : WF vt r ∧ ∀ a, r.eval a = evalElems a es := by
  simp only [uniqueOr] at h
  split at h
  · rename_i l lo hi hb
    cases h
    obtain ⟨x, pol, p1, s0, s1, rfl, rfl, rfl⟩ := asBdd?_some hb
    obtain ⟨rfl, rfl⟩ := partition_two_lits hpart
    obtain ⟨w0, ws0, d0⟩ := hok _ (List.mem_cons_self ..)
    obtain ⟨w1, ws1, d1⟩ := hok _ (List.mem_cons_of_mem _ (List.mem_cons_self ..))
    refine ⟨uniqueBdd_WF (by simpa [WF] using w1) hint ?_ ?_ ?_, ?_⟩
    · intro w hw; exact lit_depOnly (d1 w hw)
    · cases p1 <;> simpa using (by first | exact ws0 | exact ws1)
    · cases p1 <;> simpa using (by first | exact ws1 | exact ws0)
    · intro a
      rw [uniqueBdd_eval]
      cases p1 <;> cases h1 : a x <;> simp [eval_lit, h1]
  · split at h
    · cases h
    · rename_i p0 s0 rest hs
      have hcnt : ∀ a, cnt a ((p0, s0) :: rest) = 1 := by
        intro a; rw [← hs, cnt_sortByPrime]; exact hpart a
      have hev : ∀ a, evalElems a ((p0, s0) :: rest) = evalElems a es := by
        intro a; rw [← hs, evalElems_sortByPrime]
      have hok' : ElemsOK vt (vt.leftLeaf? table) ((p0, s0) :: rest) := by
        intro e he; rw [← hs, mem_sortByPrime] at he; exact hok e he
      split at h
      · cases h
        refine ⟨WF_dec.2 ⟨hint, ?_, ElemsOK_negSubs hok'⟩, ?_⟩
        · intro a; rw [cnt_negSubs]; exact hcnt a
        · intro a; rw [eval_dec, evalElems_negSubs (hcnt a), ← hev a]; simp
      · cases h
        exact ⟨WF_dec.2 ⟨hint, hcnt, hok'⟩, fun a => by rw [eval_dec, ← hev a]; simp⟩

theorem canonBase_ok {vt : VTree} {ow} {es : List Elem} {r : Ptr}
    (hok : ElemsOK vt ow es) (hpart : Partition es) (h : canonBase? es = some r) :
    WF vt r ∧ ∀ a, r.eval a = evalElems a es := by
  refine ⟨?_, ?_⟩
  · unfold canonBase? at h
    split at h
    · cases h; exact WF_tru vt
    · have := hok _ (List.mem_cons_self ..)
      split at h
      · cases h; exact this.2.1
      · split at h
        · cases h; exact WF_fls vt
        · cases h
    · have h0 := hok _ (List.mem_cons_self ..)
      have h1 := hok _ (List.mem_cons_of_mem _ (List.mem_cons_self ..))
      split at h
      · cases h; exact h0.1
      · split at h
        · cases h; exact h1.1
        · cases h
    · cases h
  · intro a
    unfold canonBase? at h
    split at h
    · have := hpart a; simp at this
    · split at h
      · cases h; rename_i hp; simp [isTrue_eval hp]
      · split at h
        · cases h; rename_i hs; simp [isFalse_eval hs]
        · cases h
    · split at h
      · cases h; rename_i hc; simp at hc; simp [isTrue_eval hc.1, isFalse_eval hc.2]
      · split at h
        · cases h; rename_i hc; simp at hc; simp [isFalse_eval hc.1, isTrue_eval hc.2]
        · cases h
    · cases h


/-! ## the recursive call, abstractly -/

/-- what the loops assume about the recursive `and` call: it keeps the state invariant `P`,
returns well formed pointers and computes the conjunction -/
def AndOK {σ : Type} (P : σ → Prop) (vt : VTree) (andF : AndF σ) : Prop :=
  ∀ st a b st' r, P st → WF vt a → WF vt b → andF st a b = some (st', r) →
    P st' ∧ WF vt r ∧ ∀ asg, r.eval asg = (a.eval asg && b.eval asg)

theorem orF_ok {σ : Type} {P : σ → Prop} {vt : VTree} {andF : AndF σ} (hand : AndOK P vt andF)
    {st a b st' r} (hP : P st) (wa : WF vt a) (wb : WF vt b) (h : orF andF st a b = some (st', r)) :
    P st' ∧ WF vt r ∧ ∀ asg, r.eval asg = (a.eval asg || b.eval asg) := by
  simp only [orF] at h
  split at h
  · rename_i st1 r1 h1
    cases h
    obtain ⟨hp, wr, er⟩ := hand _ _ _ _ _ hP (WF_neg wa) (WF_neg wb) h1
    refine ⟨hp, WF_neg wr, fun asg => ?_⟩
    rw [eval_neg, er, eval_neg, eval_neg]; cases a.eval asg <;> cases b.eval asg <;> rfl
  · cases h

/-! ## compress -/

theorem swapRemoveHead_mem {x e : Elem} {xs : List Elem} (h : e ∈ swapRemoveHead (x :: xs)) :
    e ∈ xs := by
  cases xs with
  | nil => simp [swapRemoveHead] at h
  | cons y ys =>
    simp only [swapRemoveHead, List.mem_cons] at h
    rcases h with rfl | h
    · exact List.getLast_mem _
    · exact List.dropLast_subset _ h

theorem swapRemoveHead_cnt (a : Assign) (x : Elem) (xs : List Elem) :
    cnt a (swapRemoveHead (x :: xs)) = cnt a xs := by
  cases xs with
  | nil => simp [swapRemoveHead]
  | cons y ys =>
    simp only [swapRemoveHead]
    have h := List.dropLast_concat_getLast (l := y :: ys) (by simp)
    conv => rhs; rw [← h]
    rw [cnt_cons, cnt_append, cnt_cons, cnt_nil]; omega

theorem swapRemoveHead_eval (a : Assign) (x : Elem) (xs : List Elem) :
    evalElems a (swapRemoveHead (x :: xs)) = evalElems a xs := by
  cases xs with
  | nil => simp [swapRemoveHead]
  | cons y ys =>
    simp only [swapRemoveHead]
    have h := List.dropLast_concat_getLast (l := y :: ys) (by simp)
    conv => rhs; rw [← h]
    rw [evalElems_cons, evalElems_append, evalElems_cons, evalElems_nil]
    generalize evalElems a (y :: ys).dropLast = d
    cases d <;> simp

theorem swapRemoveHead_length (x : Elem) (xs : List Elem) :
    (swapRemoveHead (x :: xs)).length = xs.length := by
  cases xs with
  | nil => rfl
  | cons y ys => simp [swapRemoveHead]

section compress
variable {σ : Type} {P : σ → Prop} {vt : VTree} {andF : AndF σ} {ow : Option Nat}

theorem compressInner_ok (hand : AndOK P vt andF) (s : Ptr) :
    ∀ (n : Nat) (st : σ) (p : Ptr) (done rem : List Elem) (st' : σ) (p' : Ptr) (out : List Elem),
    P st → WF vt p → DepW ow p → ElemsOK vt ow done → ElemsOK vt ow rem →
    compressInner andF s n st p done rem = some (st', p', out) →
    P st' ∧ WF vt p' ∧ DepW ow p' ∧ ElemsOK vt ow out ∧
      ∀ a, cnt a ((p, s) :: (done ++ rem)) ≤ 1 →
        cnt a ((p', s) :: out) = cnt a ((p, s) :: (done ++ rem)) ∧
        evalElems a ((p', s) :: out) = evalElems a ((p, s) :: (done ++ rem)) := by
  intro n
  induction n with
  | zero =>
    intro st p done rem st' p' out hP wp dp hd hr h
    simp only [compressInner] at h
    cases h
    refine ⟨hP, wp, dp, ?_, fun a _ => ⟨rfl, rfl⟩⟩
    intro e he
    rcases List.mem_append.1 he with h | h
    · exact hd e h
    · exact hr e h
  | succ n ih =>
    intro st p done rem st' p' out hP wp dp hd hr h
    cases rem with
    | nil =>
      simp only [compressInner] at h
      cases h
      exact ⟨hP, wp, dp, hd, fun a _ => by simp⟩
    | cons x rest =>
      obtain ⟨q, t⟩ := x
      simp only [compressInner] at h
      have hx := hr (q, t) (List.mem_cons_self ..)
      have hrest : ElemsOK vt ow rest := fun e he => hr e (List.mem_cons_of_mem _ he)
      split at h
      · rename_i hst
        split at h
        · cases h
        · rename_i st1 p1 hor
          obtain ⟨hP1, wp1, ep1⟩ := orF_ok hand hP wp hx.1 hor
          have dp1 : DepW ow p1 := DepW_or dp hx.2.2 ep1
          have hrem' : ElemsOK vt ow (swapRemoveHead ((q, t) :: rest)) :=
            fun e he => hrest e (swapRemoveHead_mem he)
          obtain ⟨hP', wp', dp', hout, hsem⟩ := ih _ _ _ _ _ _ _ hP1 wp1 dp1 hd hrem' h
          refine ⟨hP', wp', dp', hout, ?_⟩
          intro a ha
          have e1 : cnt a ((p1, s) :: (done ++ swapRemoveHead ((q, t) :: rest))) =
              cnt a ((p, s) :: (done ++ (q, t) :: rest)) := by
            rw [cnt_cons, cnt_append, swapRemoveHead_cnt, cnt_cons, cnt_append, cnt_cons]
            rw [cnt_cons, cnt_append, cnt_cons] at ha
            simp only [ep1 a]
            simp only at ha ⊢
            cases hp : p.eval a <;> cases hq : q.eval a <;> simp [hp, hq] at ha ⊢ <;> omega
          have e2 : evalElems a ((p1, s) :: (done ++ swapRemoveHead ((q, t) :: rest))) =
              evalElems a ((p, s) :: (done ++ (q, t) :: rest)) := by
            rw [evalElems_cons, evalElems_append, swapRemoveHead_eval, evalElems_cons,
              evalElems_append, evalElems_cons]
            simp only [ep1 a, hst]
            cases p.eval a <;> cases q.eval a <;> cases t.eval a <;>
              cases evalElems a done <;> cases evalElems a rest <;> rfl
          obtain ⟨h1, h2⟩ := hsem a (by rw [e1]; exact ha)
          exact ⟨h1.trans e1, h2.trans e2⟩
      · have hd' : ElemsOK vt ow (done ++ [(q, t)]) := by
          intro e he
          rcases List.mem_append.1 he with h' | h'
          · exact hd e h'
          · simp only [List.mem_singleton] at h'; subst h'; exact hx
        obtain ⟨hP', wp', dp', hout, hsem⟩ := ih _ _ _ _ _ _ _ hP wp dp hd' hrest h
        refine ⟨hP', wp', dp', hout, ?_⟩
        intro a ha
        have e : (done ++ [(q, t)]) ++ rest = done ++ (q, t) :: rest := by simp
        rw [e] at hsem
        exact hsem a ha

theorem compressOuter_ok (hand : AndOK P vt andF) :
    ∀ (n : Nat) (st : σ) (l : List Elem) (st' : σ) (out : List Elem),
    P st → ElemsOK vt ow l → compressOuter andF n st l = some (st', out) →
    P st' ∧ ElemsOK vt ow out ∧
      ∀ a, cnt a l ≤ 1 → cnt a out = cnt a l ∧ evalElems a out = evalElems a l := by
  intro n
  induction n with
  | zero =>
    intro st l st' out hP hl h
    simp only [compressOuter] at h; cases h
    exact ⟨hP, hl, fun a _ => ⟨rfl, rfl⟩⟩
  | succ n ih =>
    intro st l st' out hP hl h
    cases l with
    | nil =>
      simp only [compressOuter] at h; cases h
      exact ⟨hP, hl, fun a _ => ⟨rfl, rfl⟩⟩
    | cons x rest =>
      obtain ⟨p, s⟩ := x
      simp only [compressOuter] at h
      have hx := hl (p, s) (List.mem_cons_self ..)
      have hrest : ElemsOK vt ow rest := fun e he => hl e (List.mem_cons_of_mem _ he)
      split at h
      · cases h
      · rename_i st1 p' rest' hin
        obtain ⟨hP1, wp', dp', hout1, hsem1⟩ :=
          compressInner_ok hand s _ _ _ _ _ _ _ _ hP hx.1 hx.2.2 (fun e he => by cases he) hrest hin
        split at h
        · cases h
        · rename_i st2 out2 hrec
          cases h
          obtain ⟨hP2, hout2, hsem2⟩ := ih _ _ _ _ hP1 hout1 hrec
          refine ⟨hP2, ?_, ?_⟩
          · intro e he
            rcases List.mem_cons.1 he with rfl | h'
            · exact ⟨wp', hx.2.1, dp'⟩
            · exact hout2 e h'
          · intro a ha
            obtain ⟨c1, v1⟩ := hsem1 a (by simpa using ha)
            simp only [List.nil_append] at c1 v1
            have hle : cnt a rest' ≤ 1 := by
              rw [cnt_cons] at c1; omega
            obtain ⟨c2, v2⟩ := hsem2 a hle
            constructor
            · rw [← c1, cnt_cons, cnt_cons, c2]
            · rw [← v1, evalElems_cons, evalElems_cons, v2]

theorem compress_ok (hand : AndOK P vt andF) {st : σ} {l : List Elem} {st' : σ} {out : List Elem}
    (hP : P st) (hl : ElemsOK vt ow l) (hpart : Partition l)
    (h : compress andF st l = some (st', out)) :
    P st' ∧ ElemsOK vt ow out ∧ Partition out ∧ ∀ a, evalElems a out = evalElems a l := by
  obtain ⟨h1, h2, h3⟩ := compressOuter_ok hand _ _ _ _ _ hP hl h
  refine ⟨h1, h2, fun a => ?_, fun a => ?_⟩
  · rw [(h3 a (by rw [hpart a]; exact Nat.le_refl 1)).1]; exact hpart a
  · exact (h3 a (by rw [hpart a]; exact Nat.le_refl 1)).2

/-- `canonicalize` returns a well formed pointer denoting `⋁ prime ∧ sub` of its input, provided
the input primes partition -/
theorem canonicalize_ok (hand : AndOK P vt andF) {cmpr : Bool} {st : σ} {l : List Elem}
    {table : Nat} {st' : σ} {r : Ptr} (hP : P st) (hl : ElemsOK vt (vt.leftLeaf? table) l)
    (hpart : Partition l) (hint : Internal vt table)
    (h : canonicalize cmpr andF st l table = some (st', r)) :
    P st' ∧ WF vt r ∧ ∀ a, r.eval a = evalElems a l := by
  simp only [canonicalize] at h
  split at h
  · rename_i r0 hb
    cases h
    exact ⟨hP, canonBase_ok hl hpart hb⟩
  · split at h
    · split at h
      · cases h
      · rename_i st1 l1 hc
        obtain ⟨hP1, hl1, hpart1, hev1⟩ := compress_ok hand hP hl hpart hc
        split at h
        · rename_i r0 hb
          cases h
          obtain ⟨w, e⟩ := canonBase_ok hl1 hpart1 hb
          exact ⟨hP1, w, fun a => by rw [e, hev1]⟩
        · simp only [Option.map_eq_some_iff] at h
          obtain ⟨r0, hu, he⟩ := h
          cases he
          obtain ⟨w, e⟩ := uniqueOr_ok hl1 hpart1 hint hu
          exact ⟨hP1, w, fun a => by rw [e, hev1]⟩
    · simp only [Option.map_eq_some_iff] at h
      obtain ⟨r0, hu, he⟩ := h
      cases he
      obtain ⟨w, e⟩ := uniqueOr_ok hl hpart hint hu
      exact ⟨hP, w, e⟩

end compress


/-! ## the elements of a node -/

theorem isRLAt_leftLeaf {vt : VTree} {k : Nat} :
    vt.isRLAt k = true ↔ ∃ w, vt.leftLeaf? k = some w := by
  simp only [VTree.isRLAt, VTree.leftLeaf?]
  cases h : vt.sub? 0 k with
  | none => simp
  | some s =>
    cases s with
    | leaf v => simp [VTree.isRightLinear]
    | node l r => cases l <;> simp [VTree.isRightLinear]

theorem leftLeaf_sub {vt : VTree} {k w : Nat} (h : vt.leftLeaf? k = some w) :
    ∃ r, vt.sub? 0 k = some (.node (.leaf w) r) := by
  simp only [VTree.leftLeaf?] at h
  split at h
  · rename_i w' r hs; cases h; exact ⟨r, hs⟩
  · cases h

theorem leftLeaf_none {vt : VTree} {k : Nat} (h : vt.isRLAt k = false) : vt.leftLeaf? k = none := by
  cases h' : vt.leftLeaf? k with
  | none => rfl
  | some w => rw [(isRLAt_leftLeaf).2 ⟨w, h'⟩] at h; cases h

theorem depOnly_lit (l : Nat) (p : Bool) : DepOnly (.lit l p) l := by
  intro a a' e; simp [eval_lit, e]

/-- the complement-adjusted elements of a well formed node are well formed, partition, and
denote the node -/
theorem elems?_ok {vt : VTree} {r : Ptr} {es : List Elem} (wr : WF vt r) (h : r.elems? = some es) :
    ElemsOK vt (vt.leftLeaf? (vtreeIndex vt r)) es ∧ Partition es ∧ Internal vt (vtreeIndex vt r) ∧
      ∀ a, evalElems a es = r.eval a := by
  cases r with
  | tru => cases h
  | fls => cases h
  | lit v p => cases h
  | bdd c l i lo hi =>
    simp only [Ptr.elems?, Option.some.injEq] at h
    subst h
    obtain ⟨hl, hint, hw, wlo, whi⟩ := wr
    have hd : ∀ pol, DepW (vt.leftLeaf? i) (.lit l pol) := by
      intro pol w hw'; rw [hw w hw']; exact depOnly_lit l pol
    refine ⟨?_, ?_, hint, ?_⟩
    · intro e he
      simp only [List.mem_cons, List.not_mem_nil, or_false] at he
      rcases he with rfl | rfl
      · exact ⟨hl, by cases c <;> simp [WF_neg, whi], hd _⟩
      · exact ⟨hl, by cases c <;> simp [WF_neg, wlo], hd _⟩
    · intro a
      simp only [cnt_cons, cnt_nil, eval_lit]
      cases a l <;> simp
    · intro a
      simp only [evalElems_cons, evalElems_nil, eval_lit, eval_bdd]
      cases c <;> cases a l <;> simp
  | dec c i es0 =>
    simp only [Ptr.elems?, Option.some.injEq] at h
    subst h
    obtain ⟨hint, hpart, hok⟩ := WF_dec.1 wr
    cases c
    · exact ⟨hok, hpart, hint, fun a => by simp [eval_dec]⟩
    · refine ⟨ElemsOK_negSubs hok, fun a => by simp only [if_true]; rw [cnt_negSubs]; exact hpart a,
        hint, ?_⟩
      intro a
      simp only [if_true, eval_dec, evalElems_negSubs (hpart a)]
      simp

/-! ## the product loops of `and_cartesian` / `and_prime_desc` -/

section loops
variable {σ : Type} {P : σ → Prop} {vt : VTree} {andF : AndF σ} {ow : Option Nat}

/-- postcondition of the inner loop for the prime/sub pair `(p1, s1)` against the elements `eb` -/
def InnerPost (vt : VTree) (ow : Option Nat) (p1 s1 : Ptr) (eb : List Elem) : LoopRes → Prop
  | .elems l => ElemsOK vt ow l ∧ ∀ a, cnt a eb ≤ 1 →
      cnt a l = (if p1.eval a then cnt a eb else 0) ∧
      evalElems a l = (p1.eval a && s1.eval a && evalElems a eb)
  | .early r => r = .tru ∧ ∀ a, (p1.eval a && s1.eval a && evalElems a eb) = true

theorem innerLoop_ok (hand : AndOK P vt andF) (brk : Bool) {p1 s1 : Ptr}
    (wp1 : WF vt p1) (ws1 : WF vt s1) (dp1 : DepW ow p1) :
    ∀ (eb : List Elem) (st st' : σ) (res : LoopRes), P st → ElemsOK vt ow eb →
    innerLoop andF brk p1 s1 st eb = some (st', res) →
    P st' ∧ InnerPost vt ow p1 s1 eb res := by
  intro eb
  induction eb with
  | nil =>
    intro st st' res hP _ h
    simp only [innerLoop] at h
    cases h
    refine ⟨hP, ?_⟩
    simp only [InnerPost]
    exact ⟨fun e he => (by cases he), fun a _ => (by simp)⟩
  | cons x rest ih =>
    intro st st' res hP hok h
    obtain ⟨p2, s2⟩ := x
    have hx := hok (p2, s2) (List.mem_cons_self ..)
    have hrest : ElemsOK vt ow rest := fun e he => hok e (List.mem_cons_of_mem _ he)
    simp only [innerLoop] at h
    split at h
    · cases h
    · rename_i st1 p hp
      obtain ⟨hP1, wp, ep⟩ := hand _ _ _ _ _ hP wp1 hx.1 hp
      split at h
      · -- the product prime is the false constant: skip
        rename_i hpf
        have hpf' : ∀ a, (p1.eval a && p2.eval a) = false := fun a => by
          rw [← ep a]; exact isFalse_eval hpf a
        obtain ⟨hP', hres⟩ := ih _ _ _ hP1 hrest h
        refine ⟨hP', ?_⟩
        cases res with
        | elems l =>
          simp only [InnerPost] at hres ⊢
          refine ⟨hres.1, fun a ha => ?_⟩
          have hpa := hpf' a
          rw [cnt_cons] at ha
          obtain ⟨c, v⟩ := hres.2 a (by omega)
          rw [c, v, cnt_cons, evalElems_cons]
          cases h1 : p1.eval a <;> cases h2 : p2.eval a <;> simp [h1, h2] at hpa ⊢
        | early r =>
          simp only [InnerPost] at hres ⊢
          refine ⟨hres.1, fun a => ?_⟩
          have hpa := hpf' a
          have := hres.2 a
          rw [evalElems_cons]
          cases h1 : p1.eval a <;> cases h2 : p2.eval a <;> simp [h1, h2] at hpa this ⊢
          exact this
      · split at h
        · cases h
        · rename_i st2 s hs
          obtain ⟨hP2, ws, es⟩ := hand _ _ _ _ _ hP1 ws1 hx.2.1 hs
          have dp : DepW ow p := DepW_and dp1 hx.2.2 ep
          split at h
          · -- early exit: both are the true constant
            rename_i hts
            cases h
            simp only [Bool.and_eq_true] at hts
            refine ⟨hP2, ?_⟩
            simp only [InnerPost]
            refine ⟨trivial, fun a => ?_⟩
            have e1 := isTrue_eval hts.1 a
            have e2 := isTrue_eval hts.2 a
            rw [ep a] at e1; rw [es a] at e2
            simp only [Bool.and_eq_true] at e1 e2
            simp [evalElems_cons, e1.1, e1.2, e2.1, e2.2]
          · split at h
            · -- implied prime: stop
              rename_i hbrk
              cases h
              simp only [Bool.and_eq_true, decide_eq_true_eq] at hbrk
              obtain ⟨_, hpp⟩ := hbrk
              refine ⟨hP2, ?_⟩
              simp only [InnerPost]
              refine ⟨?_, fun a ha => ?_⟩
              · intro e he
                simp only [List.mem_singleton] at he; subst he
                exact ⟨wp, ws, dp⟩
              · have epa := ep a
                rw [← hpp] at epa
                rw [cnt_cons] at ha
                simp only [cnt_cons, cnt_nil, evalElems_cons, evalElems_nil, es a, ← hpp]
                cases h1 : p1.eval a <;> cases h2 : p2.eval a <;> simp [h1, h2] at epa ha ⊢
                have h0 : cnt a rest = 0 := by omega
                simp [h0, evalElems_of_cnt_zero h0]
            · split at h
              · cases h
              · rename_i st3 r hrec
                cases h
                obtain ⟨hP', hres⟩ := ih _ _ _ hP2 hrest hrec
                refine ⟨hP', ?_⟩
                simp only [InnerPost] at hres ⊢
                refine ⟨hres.1, fun a => ?_⟩
                have := hres.2 a
                rw [evalElems_cons]
                cases h1 : p1.eval a <;> cases h2 : s1.eval a <;> simp [h1, h2] at this ⊢
                simp [this]
              · rename_i st3 l hrec
                cases h
                obtain ⟨hP', hres⟩ := ih _ _ _ hP2 hrest hrec
                refine ⟨hP', ?_⟩
                simp only [InnerPost] at hres ⊢
                refine ⟨?_, fun a ha => ?_⟩
                · intro e he
                  rcases List.mem_cons.1 he with rfl | h'
                  · exact ⟨wp, ws, dp⟩
                  · exact hres.1 e h'
                · rw [cnt_cons] at ha
                  obtain ⟨c, v⟩ := hres.2 a (by omega)
                  rw [cnt_cons, evalElems_cons, c, v, cnt_cons, evalElems_cons]
                  simp only [ep a, es a]
                  cases h1 : p1.eval a <;> cases h2 : p2.eval a <;> cases h3 : s1.eval a <;>
                    simp [h1, h2, h3]

/-- postcondition of the outer product loop over the elements `ea` against `eb` -/
def ProdPost (vt : VTree) (ow : Option Nat) (ea eb : List Elem) : LoopRes → Prop
  | .elems l => ElemsOK vt ow l ∧ ∀ a, cnt a l = cnt a ea ∧
      evalElems a l = (evalElems a ea && evalElems a eb)
  | .early r => r = .tru ∧ ∀ a, (evalElems a ea && evalElems a eb) = true

theorem find?_prime {eb : List Elem} {p1 q s2 : Ptr}
    (h : eb.find? (fun e => decide (e.1 = p1)) = some (q, s2)) : q = p1 ∧ (q, s2) ∈ eb := by
  have h1 := List.find?_some h
  have h2 := List.mem_of_find?_eq_some h
  simp only [decide_eq_true_eq] at h1
  exact ⟨h1, h2⟩

theorem prodLoop_ok (hand : AndOK P vt andF) (cart : Bool) {eb : List Elem}
    (hokb : ElemsOK vt ow eb) (hpb : Partition eb) :
    ∀ (ea : List Elem) (st st' : σ) (res : LoopRes), P st → ElemsOK vt ow ea →
    prodLoop andF cart eb st ea = some (st', res) →
    P st' ∧ ProdPost vt ow ea eb res := by
  intro ea
  induction ea with
  | nil =>
    intro st st' res hP _ h
    simp only [prodLoop] at h
    cases h
    refine ⟨hP, ?_⟩
    simp only [ProdPost]
    exact ⟨fun e he => (by cases he), fun a => (by simp)⟩
  | cons x rest ih =>
    intro st st' res hP hok h
    obtain ⟨p1, s1⟩ := x
    have hx := hok (p1, s1) (List.mem_cons_self ..)
    have hrest : ElemsOK vt ow rest := fun e he => hok e (List.mem_cons_of_mem _ he)
    simp only [prodLoop] at h
    split at h
    · -- equal prime found in `b`
      rename_i q s2 hfind
      have hf : eb.find? (fun e => decide (e.1 = p1)) = some (q, s2) := by
        cases cart
        · simp at hfind
        · simpa using hfind
      obtain ⟨hq, hmem⟩ := find?_prime hf
      subst hq
      have hy := hokb _ hmem
      split at h
      · cases h
      · rename_i st1 s hs
        obtain ⟨hP1, ws, es⟩ := hand _ _ _ _ _ hP hx.2.1 hy.2.1 hs
        have key : ∀ a, (q.eval a && s.eval a) = (q.eval a && s1.eval a && evalElems a eb) := by
          intro a
          cases hqa : q.eval a
          · simp
          · rw [evalElems_of_mem (hpb a) hmem hqa, es a]; simp
        split at h
        · cases h
        · rename_i st2 r hrec
          cases h
          obtain ⟨hP', hres⟩ := ih _ _ _ hP1 hrest hrec
          refine ⟨hP', ?_⟩
          simp only [ProdPost] at hres ⊢
          refine ⟨hres.1, fun a => ?_⟩
          have := hres.2 a
          rw [evalElems_cons]
          simp only [Bool.and_eq_true] at this ⊢
          simp [this.1, this.2]
        · rename_i st2 l hrec
          cases h
          obtain ⟨hP', hres⟩ := ih _ _ _ hP1 hrest hrec
          refine ⟨hP', ?_⟩
          simp only [ProdPost] at hres ⊢
          refine ⟨?_, fun a => ?_⟩
          · intro e he
            rcases List.mem_cons.1 he with rfl | h'
            · exact ⟨hx.1, ws, hx.2.2⟩
            · exact hres.1 e h'
          · obtain ⟨c, v⟩ := hres.2 a
            rw [cnt_cons, cnt_cons, c, evalElems_cons, evalElems_cons, v]
            refine ⟨rfl, ?_⟩
            simp only [key a]
            cases q.eval a <;> cases s1.eval a <;> cases evalElems a eb <;> simp
    · split at h
      · cases h
      · rename_i st1 r hin
        cases h
        obtain ⟨hP1, hpost⟩ := innerLoop_ok hand cart hx.1 hx.2.1 hx.2.2 eb _ _ _ hP hokb hin
        refine ⟨hP1, ?_⟩
        simp only [InnerPost, ProdPost] at hpost ⊢
        refine ⟨hpost.1, fun a => ?_⟩
        have := hpost.2 a
        rw [evalElems_cons]
        simp only [Bool.and_eq_true] at this ⊢
        simp [this.1.1, this.1.2, this.2]
      · rename_i st1 l1 hin
        obtain ⟨hP1, hpost⟩ := innerLoop_ok hand cart hx.1 hx.2.1 hx.2.2 eb _ _ _ hP hokb hin
        simp only [InnerPost] at hpost
        split at h
        · cases h
        · rename_i st2 r hrec
          cases h
          obtain ⟨hP', hres⟩ := ih _ _ _ hP1 hrest hrec
          refine ⟨hP', ?_⟩
          simp only [ProdPost] at hres ⊢
          refine ⟨hres.1, fun a => ?_⟩
          have := hres.2 a
          rw [evalElems_cons]
          simp only [Bool.and_eq_true] at this ⊢
          simp [this.1, this.2]
        · rename_i st2 l hrec
          cases h
          obtain ⟨hP', hres⟩ := ih _ _ _ hP1 hrest hrec
          refine ⟨hP', ?_⟩
          simp only [ProdPost] at hres ⊢
          refine ⟨?_, fun a => ?_⟩
          · intro e he
            rcases List.mem_append.1 he with h' | h'
            · exact hpost.1 e h'
            · exact hres.1 e h'
          · obtain ⟨c, v⟩ := hres.2 a
            obtain ⟨c1, v1⟩ := hpost.2 a (by rw [hpb a]; exact Nat.le_refl 1)
            rw [cnt_append, c1, c, cnt_cons, evalElems_append, v1, v, evalElems_cons, hpb a]
            refine ⟨by cases p1.eval a <;> simp, ?_⟩
            cases p1.eval a <;> cases s1.eval a <;> cases evalElems a eb <;> simp

theorem subDescLoop_ok (hand : AndOK P vt andF) {d : Ptr} (wd : WF vt d) :
    ∀ (es : List Elem) (st st' : σ) (v : List Elem), P st → ElemsOK vt ow es →
    subDescLoop andF d st es = some (st', v) →
    P st' ∧ ElemsOK vt ow v ∧ ∀ a, cnt a v = cnt a es ∧
      evalElems a v = (evalElems a es && d.eval a) := by
  intro es
  induction es with
  | nil =>
    intro st st' v hP _ h
    simp only [subDescLoop] at h
    cases h
    exact ⟨hP, fun e he => (by cases he), fun a => (by simp)⟩
  | cons x rest ih =>
    intro st st' v hP hok h
    obtain ⟨p, s⟩ := x
    have hx := hok (p, s) (List.mem_cons_self ..)
    have hrest : ElemsOK vt ow rest := fun e he => hok e (List.mem_cons_of_mem _ he)
    simp only [subDescLoop] at h
    split at h
    · cases h
    · rename_i st1 ns hs
      obtain ⟨hP1, wns, ens⟩ := hand _ _ _ _ _ hP hx.2.1 wd hs
      split at h
      · cases h
      · rename_i st2 v2 hrec
        cases h
        obtain ⟨hP', hok', hsem⟩ := ih _ _ _ hP1 hrest hrec
        refine ⟨hP', ?_, fun a => ?_⟩
        · intro e he
          rcases List.mem_cons.1 he with rfl | h'
          · exact ⟨hx.1, wns, hx.2.2⟩
          · exact hok' e h'
        · obtain ⟨c, v⟩ := hsem a
          rw [cnt_cons, cnt_cons, c, evalElems_cons, evalElems_cons, v]
          refine ⟨rfl, ?_⟩
          simp only [ens a]
          cases p.eval a <;> cases s.eval a <;> cases d.eval a <;> simp

/-! ## the four vtree cases -/

theorem andSubDesc_ok (hand : AndOK P vt andF) {cmpr : Bool} {st st' : σ} {r d res : Ptr}
    (hP : P st) (wr : WF vt r) (wd : WF vt d)
    (h : andSubDesc cmpr andF st r d = some (st', res)) :
    P st' ∧ WF vt res ∧ ∀ a, res.eval a = (r.eval a && d.eval a) := by
  cases r with
  | tru => simp [andSubDesc] at h
  | fls => simp [andSubDesc] at h
  | lit v p => simp [andSubDesc] at h
  | bdd c l i lo hi =>
    obtain ⟨hl, hint, hw, wlo, whi⟩ := wr
    simp only [andSubDesc] at h
    split at h
    · cases h
    · rename_i st1 lr h1
      obtain ⟨hP1, wlr, elr⟩ := hand _ _ _ _ _ hP (by cases c <;> simp [WF_neg, wlo]) wd h1
      split at h
      · cases h
      · rename_i st2 hr h2
        cases h
        obtain ⟨hP2, whr, ehr⟩ := hand _ _ _ _ _ hP1 (by cases c <;> simp [WF_neg, whi]) wd h2
        refine ⟨hP2, uniqueBdd_WF hl hint hw wlr whr, fun a => ?_⟩
        rw [uniqueBdd_eval, elr, ehr, eval_bdd]
        cases c <;> cases a l <;> simp
  | dec c i es =>
    simp only [andSubDesc] at h
    split at h
    · cases h
    · rename_i st1 v hloop
      obtain ⟨hok, hpart, hint, hev⟩ := elems?_ok wr (es := if c then negSubs es else es) rfl
      obtain ⟨hP1, hokv, hsem⟩ := subDescLoop_ok hand wd _ _ _ _ hP hok hloop
      have hpv : Partition v := fun a => by rw [(hsem a).1]; exact hpart a
      obtain ⟨hP', wres, eres⟩ := canonicalize_ok hand hP1 hokv hpv hint h
      exact ⟨hP', wres, fun a => by rw [eres, (hsem a).2, hev]⟩

theorem pairD_ok {d : Ptr} (wd : WF vt d) (dd : DepW ow d) :
    ElemsOK vt ow [(d, .tru), (d.neg, .fls)] ∧ Partition [(d, .tru), (d.neg, .fls)] ∧
      ∀ a, evalElems a [(d, .tru), (d.neg, .fls)] = d.eval a := by
  refine ⟨?_, ?_, ?_⟩
  · intro e he
    simp only [List.mem_cons, List.not_mem_nil, or_false] at he
    rcases he with rfl | rfl
    · exact ⟨wd, WF_tru vt, dd⟩
    · exact ⟨WF_neg wd, WF_fls vt, DepW_neg dd⟩
  · intro a; simp only [cnt_cons, cnt_nil, eval_neg]; cases d.eval a <;> simp
  · intro a; simp

theorem andPrimeDesc_ok (hand : AndOK P vt andF) {cmpr : Bool} {st st' : σ} {r d res : Ptr}
    (hP : P st) (wr : WF vt r) (wd : WF vt d) (dd : DepW (vt.leftLeaf? (vtreeIndex vt r)) d)
    (h : andPrimeDesc cmpr andF st r d = some (st', res)) :
    P st' ∧ WF vt res ∧ ∀ a, res.eval a = (r.eval a && d.eval a) := by
  simp only [andPrimeDesc] at h
  split at h
  · cases h
  · rename_i er her
    obtain ⟨hok, hpart, hint, hev⟩ := elems?_ok wr her
    obtain ⟨hokd, hpd, hevd⟩ := pairD_ok wd dd
    split at h
    · cases h
    · rename_i st1 x hloop
      cases h
      obtain ⟨hP1, hpost⟩ := prodLoop_ok hand false hokd hpd _ _ _ _ hP hok hloop
      simp only [ProdPost] at hpost
      refine ⟨hP1, by rw [hpost.1]; exact WF_tru vt, fun a => ?_⟩
      have := hpost.2 a
      rw [hev, hevd] at this
      rw [hpost.1, this]; simp
    · rename_i st1 l hloop
      obtain ⟨hP1, hpost⟩ := prodLoop_ok hand false hokd hpd _ _ _ _ hP hok hloop
      simp only [ProdPost] at hpost
      have hpl : Partition l := fun a => by rw [(hpost.2 a).1]; exact hpart a
      have hfin : ∀ i, vtreeIndex vt r = i → canonicalize cmpr andF st1 l i = some (st', res) →
          P st' ∧ WF vt res ∧ ∀ a, res.eval a = (r.eval a && d.eval a) := by
        intro i hi hc
        subst hi
        obtain ⟨hP', wres, eres⟩ := canonicalize_ok hand hP1 hpost.1 hpl hint hc
        exact ⟨hP', wres, fun a => by rw [eres, (hpost.2 a).2, hev, hevd]⟩
      split at h
      · exact hfin _ rfl h
      · exact hfin _ rfl h
      · cases h

theorem andCartesian_ok (hand : AndOK P vt andF) {cmpr : Bool} {st st' : σ} {a b res : Ptr}
    (hP : P st) (wa : WF vt a) (wb : WF vt b) (hidx : vtreeIndex vt a = vtreeIndex vt b)
    (h : andCartesian vt cmpr andF st a b (vtreeIndex vt a) = some (st', res)) :
    P st' ∧ WF vt res ∧ ∀ asg, res.eval asg = (a.eval asg && b.eval asg) := by
  have general : (match a.elems?, b.elems? with
      | some ea, some eb =>
        match prodLoop andF true eb st ea with
        | none => none
        | some (st', .early x) => some (st', x)
        | some (st', .elems l) => canonicalize cmpr andF st' l (vtreeIndex vt a)
      | _, _ => none) = some (st', res) →
      P st' ∧ WF vt res ∧ ∀ asg, res.eval asg = (a.eval asg && b.eval asg) := by
    intro h
    split at h
    · rename_i ea eb hea heb
      obtain ⟨hoka, hpa, hinta, heva⟩ := elems?_ok wa hea
      obtain ⟨hokb, hpb, _, hevb⟩ := elems?_ok wb heb
      rw [← hidx] at hokb
      split at h
      · cases h
      · rename_i st1 x hloop
        cases h
        obtain ⟨hP1, hpost⟩ := prodLoop_ok hand true hokb hpb _ _ _ _ hP hoka hloop
        simp only [ProdPost] at hpost
        refine ⟨hP1, by rw [hpost.1]; exact WF_tru vt, fun asg => ?_⟩
        have := hpost.2 asg
        rw [heva, hevb] at this
        rw [hpost.1, this]; simp
      · rename_i st1 l hloop
        obtain ⟨hP1, hpost⟩ := prodLoop_ok hand true hokb hpb _ _ _ _ hP hoka hloop
        simp only [ProdPost] at hpost
        have hpl : Partition l := fun asg => by rw [(hpost.2 asg).1]; exact hpa asg
        obtain ⟨hP', wres, eres⟩ := canonicalize_ok hand hP1 hpost.1 hpl hinta h
        exact ⟨hP', wres, fun asg => by rw [eres, (hpost.2 asg).2, heva, hevb]⟩
    · cases h
  simp only [andCartesian] at h
  split at h
  · -- both binary at a right-linear node
    rename_i c l i lo hi hm
    have hrl : vt.isRLAt (vtreeIndex vt a) = true := by
      cases hr : vt.isRLAt (vtreeIndex vt a)
      · rw [hr] at hm; simp at hm
      · rfl
    rw [hrl] at hm
    simp only [if_true] at hm
    subst hm
    obtain ⟨hl, hint, hw, wlo, whi⟩ := wa
    split at h
    · rename_i bl bh hbl hbh
      cases b with
      | bdd c' l' i' lo' hi' =>
        simp only [Ptr.low?, Ptr.high?, Option.some.injEq] at hbl hbh
        subst hbl hbh
        obtain ⟨hl', hint', hw', wlo', whi'⟩ := wb
        simp only [vtreeIndex] at hidx hrl
        obtain ⟨w, hw0⟩ := isRLAt_leftLeaf.1 hrl
        have e1 := hw w hw0
        have e2 := hw' w (hidx ▸ hw0)
        have hll : l' = l := by rw [← e1, ← e2]
        subst hll
        split at h
        · cases h
        · rename_i st1 lr h1
          obtain ⟨hP1, wlr, elr⟩ := hand _ _ _ _ _ hP (by cases c <;> simp [WF_neg, wlo])
            (by cases c' <;> simp [WF_neg, wlo']) h1
          split at h
          · cases h
          · rename_i st2 hr h2
            cases h
            obtain ⟨hP2, whr, ehr⟩ := hand _ _ _ _ _ hP1 (by cases c <;> simp [WF_neg, whi])
              (by cases c' <;> simp [WF_neg, whi']) h2
            refine ⟨hP2, uniqueBdd_WF hl hint hw wlr whr, fun asg => ?_⟩
            simp only [vtreeIndex]
            rw [uniqueBdd_eval, elr, ehr, eval_bdd, eval_bdd]
            cases c <;> cases c' <;> cases asg l' <;> simp
      | _ => simp [Ptr.low?] at hbl
    · cases h
  · exact general h

theorem andIndep_ok {a b res : Ptr} (wa : WF vt a) (wb : WF vt b)
    (ha : ∃ s, vt.sub? 0 (vtreeIndex vt a) = some s) (hb : ∃ s, vt.sub? 0 (vtreeIndex vt b) = some s)
    (hlt : vtreeIndex vt a < vtreeIndex vt b)
    (hka : vt.lca 0 (vtreeIndex vt a) (vtreeIndex vt b) ≠ vtreeIndex vt a)
    (h : andIndep vt a b (vt.lca 0 (vtreeIndex vt a) (vtreeIndex vt b)) = some res) :
    WF vt res ∧ ∀ asg, res.eval asg = (a.eval asg && b.eval asg) := by
  obtain ⟨sa, hsa⟩ := ha
  obtain ⟨sb, hsb⟩ := hb
  have hint : Internal vt (vt.lca 0 (vtreeIndex vt a) (vtreeIndex vt b)) :=
    VTree.lca_internal hsa hsb (by omega)
  simp only [andIndep] at h
  split at h
  · rename_i hrl
    obtain ⟨w, hw⟩ := isRLAt_leftLeaf.1 hrl
    obtain ⟨r', hr'⟩ := leftLeaf_sub hw
    have hk := VTree.lca_rl (Nat.zero_le _) hlt hka hr'
    have hlab : ∀ l pol, a = .lit l pol → ∀ w', vt.leftLeaf?
        (vt.lca 0 (vtreeIndex vt a) (vtreeIndex vt b)) = some w' → w' = l := by
      intro l pol hal w' hw'
      rw [hw] at hw'; cases hw'
      subst hal
      simp only [WF, VTree.hasVar, Option.isSome_iff_exists] at wa
      obtain ⟨i, hi⟩ := wa
      simp only [vtreeIndex, hi, Option.getD_some] at hk hr'
      rw [← hk] at hr'
      have h1 := VTree.sub?_leftLeaf hr'
      have h2 := VTree.varIndex?_sub hi
      rw [h1] at h2; cases h2; rfl
    split at h
    · rename_i l
      cases h
      refine ⟨uniqueBdd_WF (by simpa [WF] using wa) hint (hlab l true rfl) (WF_fls vt) wb, ?_⟩
      intro asg; rw [uniqueBdd_eval, eval_lit]; cases asg l <;> simp
    · rename_i l
      cases h
      refine ⟨uniqueBdd_WF (by simpa [WF] using wa) hint (hlab l false rfl) wb (WF_fls vt), ?_⟩
      intro asg; rw [uniqueBdd_eval, eval_lit]; cases asg l <;> simp
    · cases h
  · rename_i hrl
    have hnone := leftLeaf_none (by simpa using hrl)
    have hok : ElemsOK vt (vt.leftLeaf? (vt.lca 0 (vtreeIndex vt a) (vtreeIndex vt b)))
        [(a, b), (a.neg, .fls)] := by
      rw [hnone]
      intro e he
      simp only [List.mem_cons, List.not_mem_nil, or_false] at he
      rcases he with rfl | rfl
      · exact ⟨wa, wb, fun w hw => by cases hw⟩
      · exact ⟨WF_neg wa, WF_fls vt, fun w hw => by cases hw⟩
    have hpart : Partition [(a, b), (a.neg, .fls)] := by
      intro asg; simp only [cnt_cons, cnt_nil, eval_neg]; cases a.eval asg <;> simp
    obtain ⟨w, e⟩ := uniqueOr_ok hok hpart hint h
    exact ⟨w, fun asg => by rw [e]; simp⟩

end loops


/-! ## `and` -/

/-- apply-cache invariant: every cached result is well formed and denotes the conjunction of its
key -/
def AppInv (A : CacheImpl (Ptr × Ptr)) (vt : VTree) (s : A.σ) : Prop :=
  ∀ k r, A.get s k = some r → WF vt r ∧ ∀ a, r.eval a = (k.1.eval a && k.2.eval a)

theorem appInv_empty (A : CacheImpl (Ptr × Ptr)) (vt : VTree) : AppInv A vt A.empty := by
  intro k r h; rw [A.empty_get] at h; cases h

theorem appInv_insert {A : CacheImpl (Ptr × Ptr)} {vt : VTree} {s : A.σ} {k : Ptr × Ptr} {r : Ptr}
    (hs : AppInv A vt s) (wr : WF vt r) (er : ∀ a, r.eval a = (k.1.eval a && k.2.eval a)) :
    AppInv A vt (A.insert s k r) := by
  intro k' r' h
  rcases A.lawful _ _ _ _ _ h with ⟨rfl, rfl⟩ | h'
  · exact ⟨wr, er⟩
  · exact hs k' r' h'

/-- in the `and_prime_desc` situation (`lca = bv ≠ av`, `av < bv`) the descendant depends only on
the left leaf when the ancestor node is right-linear -/
theorem primeDesc_dep {vt : VTree} {x y : Ptr} (wx : WF vt x)
    (hx1 : x.isTrue = false) (hx2 : x.isFalse = false)
    (hlt : vtreeIndex vt x < vtreeIndex vt y)
    (hl : vt.lca 0 (vtreeIndex vt x) (vtreeIndex vt y) = vtreeIndex vt y) :
    DepW (vt.leftLeaf? (vtreeIndex vt y)) x := by
  intro w hw
  obtain ⟨r', hr'⟩ := leftLeaf_sub hw
  have hk := VTree.lca_rl (t := vt) (Nat.zero_le _) hlt (by rw [hl]; omega) (by rw [hl]; exact hr')
  rw [hl] at hk
  rw [← hk] at hr'
  have hleaf := VTree.sub?_leftLeaf hr'
  cases x with
  | tru => simp [Ptr.isTrue] at hx1
  | fls => simp [Ptr.isFalse] at hx2
  | lit l pol =>
    simp only [WF, VTree.hasVar, Option.isSome_iff_exists] at wx
    obtain ⟨i, hi⟩ := wx
    simp only [vtreeIndex, hi, Option.getD_some] at hleaf
    have h2 := VTree.varIndex?_sub hi
    rw [hleaf] at h2; cases h2
    exact depOnly_lit _ _
  | bdd c l i lo hi =>
    obtain ⟨_, ⟨l', r'', h'⟩, _⟩ := wx
    simp only [vtreeIndex] at hleaf
    rw [hleaf] at h'; cases h'
  | dec c i es =>
    obtain ⟨⟨l', r'', h'⟩, _⟩ := wx
    simp only [vtreeIndex] at hleaf
    rw [hleaf] at h'; cases h'

theorem andCore_ok {A : CacheImpl (Ptr × Ptr)} {vt : VTree} {cmpr : Bool} {andF : AndF A.σ}
    (hand : AndOK (AppInv A vt) vt andF) {st st' : A.σ} {x y r : Ptr}
    (hP : AppInv A vt st) (wx : WF vt x) (wy : WF vt y)
    (hx1 : x.isTrue = false) (hx2 : x.isFalse = false)
    (hy1 : y.isTrue = false) (hy2 : y.isFalse = false)
    (hle : vtreeIndex vt x = vtreeIndex vt y ∨ vtreeIndex vt x < vtreeIndex vt y)
    (h : andCore A vt cmpr andF st x y = some (st', r)) :
    AppInv A vt st' ∧ WF vt r ∧ ∀ a, r.eval a = (x.eval a && y.eval a) := by
  simp only [andCore] at h
  split at h
  · rename_i v hget
    cases h
    exact ⟨hP, hP _ _ hget⟩
  · have hsx := vtreeIndex_sub wx hx1 hx2
    have hsy := vtreeIndex_sub wy hy1 hy2
    have core : ∀ {st1 : A.σ} {r1 : Ptr}, AppInv A vt st1 → WF vt r1 →
        (∀ a, r1.eval a = (x.eval a && y.eval a)) →
        AppInv A vt (A.insert st1 (x, y) r1) ∧ WF vt r1 ∧ ∀ a, r1.eval a = (x.eval a && y.eval a) :=
      fun h1 h2 h3 => ⟨appInv_insert h1 h2 h3, h2, h3⟩
    split at h
    · cases h
    · rename_i st1 r1 hr
      cases h
      split at hr
      · -- same vtree node
        rename_i heq
        obtain ⟨sx, hsx'⟩ := hsx
        rw [← heq, VTree.lca_self hsx'] at hr
        obtain ⟨h1, h2, h3⟩ := andCartesian_ok hand hP wx wy heq hr
        exact core h1 h2 h3
      · rename_i hne
        have hlt : vtreeIndex vt x < vtreeIndex vt y := by
          rcases hle with h' | h'
          · exact absurd h' hne
          · exact h'
        split at hr
        · obtain ⟨h1, h2, h3⟩ := andSubDesc_ok hand hP wx wy hr
          exact core h1 h2 h3
        · rename_i hna
          split at hr
          · rename_i hb
            have dd := primeDesc_dep wx hx1 hx2 hlt hb
            obtain ⟨h1, h2, h3⟩ := andPrimeDesc_ok hand hP wy wx dd hr
            exact core h1 h2 (fun a => by rw [h3, Bool.and_comm])
          · simp only [Option.map_eq_some_iff] at hr
            obtain ⟨r0, hr0, he⟩ := hr
            cases he
            obtain ⟨h2, h3⟩ := andIndep_ok wx wy hsx hsy hlt hna hr0
            exact core hP h2 h3

theorem andBody_ok {A : CacheImpl (Ptr × Ptr)} {vt : VTree} {cmpr : Bool} {andF : AndF A.σ}
    (hand : AndOK (AppInv A vt) vt andF) : AndOK (AppInv A vt) vt (andBody A vt cmpr andF) := by
  intro st a b st' r hP wa wb h
  simp only [andBody] at h
  split at h
  · rename_i h1; cases h; exact ⟨hP, wb, fun asg => by simp [isTrue_eval h1]⟩
  · rename_i ha1
    split at h
    · rename_i h1; cases h; exact ⟨hP, wa, fun asg => by simp [isTrue_eval h1]⟩
    · rename_i hb1
      split at h
      · rename_i h1; cases h; exact ⟨hP, WF_fls vt, fun asg => by simp [isFalse_eval h1]⟩
      · rename_i ha2
        split at h
        · rename_i h1; cases h; exact ⟨hP, WF_fls vt, fun asg => by simp [isFalse_eval h1]⟩
        · rename_i hb2
          split at h
          · rename_i h1; cases h; subst h1; exact ⟨hP, wa, fun asg => by simp⟩
          · split at h
            · rename_i h1; cases h; subst h1; exact ⟨hP, WF_fls vt, fun asg => by simp⟩
            · simp only [Bool.not_eq_true] at ha1 hb1 ha2 hb2
              split at h
              · rename_i hle
                exact andCore_ok hand hP wa wb ha1 ha2 hb1 hb2 hle h
              · rename_i hle
                obtain ⟨h1, h2, h3⟩ := andCore_ok hand hP wb wa hb1 hb2 ha1 ha2 (by omega) h
                exact ⟨h1, h2, fun asg => by rw [h3, Bool.and_comm]⟩

/-- **`and` computes the conjunction**, keeps the apply-cache invariant and returns well formed
pointers — for every lawful cache, every vtree, both compression settings, every fuel -/
theorem and_ok (A : CacheImpl (Ptr × Ptr)) (vt : VTree) (cmpr : Bool) :
    ∀ fuel, AndOK (AppInv A vt) vt (and A vt cmpr fuel)
  | 0 => by intro st a b st' r _ _ _ h; simp [and] at h
  | fuel + 1 => by
    have := andBody_ok (cmpr := cmpr) (and_ok A vt cmpr fuel)
    simpa [and] using this


/-! ## `condition` -/

section cond
variable {σ : Type} {P : σ → Prop} {vt : VTree} {andF : AndF σ} {ow : Option Nat}

def CondOK (P : σ → Prop) (vt : VTree) (x : Nat) (v : Bool)
    (condF : σ → Ptr → Option (σ × Ptr)) : Prop :=
  ∀ st f st' r, P st → WF vt f → condF st f = some (st', r) →
    P st' ∧ WF vt r ∧ ∀ a, r.eval a = f.eval (upd a x v)

theorem DepW_cond {p r : Ptr} {x : Nat} {v : Bool} (hp : DepW ow p)
    (h : ∀ a, r.eval a = p.eval (upd a x v)) : DepW ow r := by
  intro w hw a a' e
  rw [h, h]
  apply hp w hw
  by_cases hwx : w = x
  · subst hwx; simp
  · simp [upd, hwx, e]

def CondPost (vt : VTree) (ow : Option Nat) (x : Nat) (v : Bool) (es : List Elem) : LoopRes → Prop
  | .elems l => ElemsOK vt ow l ∧ ∀ a, cnt (upd a x v) es ≤ 1 →
      cnt a l = cnt (upd a x v) es ∧ evalElems a l = evalElems (upd a x v) es
  | .early r => WF vt r ∧ (∀ a, 1 ≤ cnt (upd a x v) es) ∧
      ∀ a, cnt (upd a x v) es ≤ 1 → r.eval a = evalElems (upd a x v) es

theorem condLoop_ok {x : Nat} {v : Bool} {condF : σ → Ptr → Option (σ × Ptr)}
    (hc : CondOK P vt x v condF) :
    ∀ (es : List Elem) (st st' : σ) (res : LoopRes), P st → ElemsOK vt ow es →
    condLoop condF st es = some (st', res) → P st' ∧ CondPost vt ow x v es res := by
  intro es
  induction es with
  | nil =>
    intro st st' res hP _ h
    simp only [condLoop] at h
    cases h
    refine ⟨hP, ?_⟩
    simp only [CondPost]
    exact ⟨fun e he => (by cases he), fun a _ => (by simp)⟩
  | cons e rest ih =>
    intro st st' res hP hok h
    obtain ⟨p, s⟩ := e
    have hx := hok (p, s) (List.mem_cons_self ..)
    have hrest : ElemsOK vt ow rest := fun e he => hok e (List.mem_cons_of_mem _ he)
    simp only [condLoop] at h
    split at h
    · cases h
    · rename_i st1 newp hp
      obtain ⟨hP1, wnp, enp⟩ := hc _ _ _ _ hP hx.1 hp
      split at h
      · rename_i hf
        have hpf : ∀ a, p.eval (upd a x v) = false := fun a => by
          rw [← enp a]; exact isFalse_eval hf a
        obtain ⟨hP', hres⟩ := ih _ _ _ hP1 hrest h
        refine ⟨hP', ?_⟩
        cases res with
        | elems l =>
          simp only [CondPost] at hres ⊢
          refine ⟨hres.1, fun a ha => ?_⟩
          rw [cnt_cons] at ha
          obtain ⟨c, e⟩ := hres.2 a (by omega)
          rw [c, e, cnt_cons, evalElems_cons]
          simp [hpf a]
        | early r =>
          simp only [CondPost] at hres ⊢
          refine ⟨hres.1, fun a => ?_, fun a ha => ?_⟩
          · rw [cnt_cons]; have := hres.2.1 a; omega
          · rw [cnt_cons] at ha
            rw [hres.2.2 a (by omega), evalElems_cons]
            simp [hpf a]
      · split at h
        · cases h
        · rename_i st2 news hs
          obtain ⟨hP2, wns, ens⟩ := hc _ _ _ _ hP1 hx.2.1 hs
          split at h
          · rename_i ht
            cases h
            have hpt : ∀ a, p.eval (upd a x v) = true := fun a => by
              rw [← enp a]; exact isTrue_eval ht a
            refine ⟨hP2, ?_⟩
            simp only [CondPost]
            refine ⟨wns, fun a => ?_, fun a ha => ?_⟩
            · rw [cnt_cons]; simp [hpt a]
            · rw [cnt_cons] at ha
              simp only [hpt a, if_true] at ha
              have h0 : cnt (upd a x v) rest = 0 := by omega
              rw [ens, evalElems_cons, evalElems_of_cnt_zero h0]
              simp [hpt a]
          · have dnp : DepW ow newp := DepW_cond hx.2.2 enp
            split at h
            · cases h
            · rename_i st3 r hrec
              cases h
              obtain ⟨hP', hres⟩ := ih _ _ _ hP2 hrest hrec
              refine ⟨hP', ?_⟩
              simp only [CondPost] at hres ⊢
              refine ⟨hres.1, fun a => ?_, fun a ha => ?_⟩
              · rw [cnt_cons]; have := hres.2.1 a; omega
              · rw [cnt_cons] at ha
                have h1 := hres.2.1 a
                rw [hres.2.2 a (by omega), evalElems_cons]
                cases hpa : p.eval (upd a x v)
                · simp
                · simp only [hpa, if_true] at ha; omega
            · rename_i st3 l hrec
              cases h
              obtain ⟨hP', hres⟩ := ih _ _ _ hP2 hrest hrec
              refine ⟨hP', ?_⟩
              simp only [CondPost] at hres ⊢
              refine ⟨?_, fun a ha => ?_⟩
              · intro e he
                rcases List.mem_cons.1 he with rfl | h'
                · exact ⟨wnp, wns, dnp⟩
                · exact hres.1 e h'
              · rw [cnt_cons] at ha
                obtain ⟨c, e⟩ := hres.2 a (by omega)
                rw [cnt_cons, evalElems_cons, c, e, cnt_cons, evalElems_cons, enp, ens]
                exact ⟨rfl, rfl⟩

theorem condition_ok (hand : AndOK P vt andF) (cmpr : Bool) (x : Nat) (v : Bool) :
    ∀ n, CondOK P vt x v (condition cmpr andF x v n)
  | 0 => by intro st f st' r _ _ h; simp [condition] at h
  | n + 1 => by
    have ih := condition_ok hand cmpr x v n
    intro st f st' r hP wf h
    have node : ∀ (es : List Elem) (i : Nat), f.elems? = some es → vtreeIndex vt f = i →
        (match condLoop (condition cmpr andF x v n) st es with
          | none => none
          | some (st', .early r) => some (st', r)
          | some (st', .elems es') => canonicalize cmpr andF st' es' i) = some (st', r) →
        P st' ∧ WF vt r ∧ ∀ a, r.eval a = f.eval (upd a x v) := by
      intro es i hes hi h
      subst hi
      obtain ⟨hok, hpart, hint, hev⟩ := elems?_ok wf hes
      split at h
      · cases h
      · rename_i st1 r1 hloop
        cases h
        obtain ⟨hP1, hpost⟩ := condLoop_ok ih _ _ _ _ hP hok hloop
        simp only [CondPost] at hpost
        refine ⟨hP1, hpost.1, fun a => ?_⟩
        rw [hpost.2.2 a (by rw [hpart]; exact Nat.le_refl 1), hev]
      · rename_i st1 l hloop
        obtain ⟨hP1, hpost⟩ := condLoop_ok ih _ _ _ _ hP hok hloop
        simp only [CondPost] at hpost
        have hsem := fun a => hpost.2 a (by rw [hpart]; exact Nat.le_refl 1)
        have hpl : Partition l := fun a => by rw [(hsem a).1]; exact hpart _
        obtain ⟨hP', wr, er⟩ := canonicalize_ok hand hP1 hpost.1 hpl hint h
        exact ⟨hP', wr, fun a => by rw [er, (hsem a).2, hev]⟩
    cases f with
    | tru => simp only [condition] at h; cases h; exact ⟨hP, WF_tru vt, fun a => by simp⟩
    | fls => simp only [condition] at h; cases h; exact ⟨hP, WF_fls vt, fun a => by simp⟩
    | lit l p =>
      simp only [condition] at h
      cases h
      refine ⟨hP, ?_, fun a => ?_⟩
      · split
        · split
          · exact WF_tru vt
          · exact WF_fls vt
        · exact wf
      · split
        · rename_i hl; subst hl
          cases p <;> cases v <;> simp [eval_lit]
        · rename_i hl; simp [eval_lit, upd, hl]
    | bdd c l i lo hi =>
      simp only [condition] at h
      exact node _ i rfl rfl h
    | dec c i es =>
      simp only [condition] at h
      exact node _ i rfl rfl h

end cond


/-! ## `ite` and the derived operations -/

/-- ite-cache invariant -/
def IteInv (I : CacheImpl (Ptr × Ptr × Ptr)) (vt : VTree) (s : I.σ) : Prop :=
  ∀ k r, I.get s k = some r →
    WF vt r ∧ ∀ a, r.eval a = iteB (k.1.eval a) (k.2.1.eval a) (k.2.2.eval a)

theorem iteInv_empty (I : CacheImpl (Ptr × Ptr × Ptr)) (vt : VTree) : IteInv I vt I.empty := by
  intro k r h; rw [I.empty_get] at h; cases h

theorem iteCacheGet_ok {I : CacheImpl (Ptr × Ptr × Ptr)} {vt : VTree} {s : I.σ} {key : Ite} {v : Ptr}
    (hs : IteInv I vt s) (hk : ∀ p, key ≠ .const p) (h : iteCacheGet I s key = some v) :
    WF vt v ∧ ∀ a, v.eval a = key.eval a := by
  cases key with
  | choice f g h' =>
    obtain ⟨w, e⟩ := hs _ _ h
    exact ⟨w, fun a => by rw [e]; rfl⟩
  | complChoice f g h' =>
    simp only [iteCacheGet, Option.map_eq_some_iff] at h
    obtain ⟨v0, h0, rfl⟩ := h
    obtain ⟨w, e⟩ := hs _ _ h0
    exact ⟨WF_neg w, fun a => by rw [eval_neg, e]; rfl⟩
  | const p => exact absurd rfl (hk p)

theorem iteCacheInsert_ok {I : CacheImpl (Ptr × Ptr × Ptr)} {vt : VTree} {s : I.σ} {key : Ite}
    {r : Ptr} (hs : IteInv I vt s) (wr : WF vt r) (er : ∀ a, r.eval a = key.eval a) :
    IteInv I vt (iteCacheInsert I s key r) := by
  cases key with
  | choice f g h' =>
    intro k' r' h
    rcases I.lawful _ _ _ _ _ h with ⟨rfl, rfl⟩ | h'
    · exact ⟨wr, fun a => by rw [er]; rfl⟩
    · exact hs _ _ h'
  | complChoice f g h' =>
    intro k' r' h
    rcases I.lawful _ _ _ _ _ h with ⟨rfl, rfl⟩ | h'
    · refine ⟨WF_neg wr, fun a => ?_⟩
      rw [eval_neg, er]; simp [Ite.eval]
    · exact hs _ _ h'
  | const p => exact hs

theorem iteNew_const_WF {vt : VTree} {ord} {f g h r : Ptr} (wf : WF vt f) (wg : WF vt g)
    (wh : WF vt h) (hr : Ite.new ord f g h = .const r) : WF vt r := by
  have hi : WF vt (introConst f g h).1 ∧ WF vt (introConst f g h).2.1 ∧
      WF vt (introConst f g h).2.2 := by
    simp only [introConst]
    split
    · exact ⟨wf, wg, WF_fls vt⟩
    · split
      · exact ⟨wf, wg, WF_tru vt⟩
      · split
        · exact ⟨wf, WF_fls vt, wh⟩
        · exact ⟨wf, wg, wh⟩
  simp only [Ite.new] at hr
  generalize introConst f g h = t at hi hr
  obtain ⟨f1, g1, h1⟩ := t
  simp only at hi hr
  split at hr
  · rename_i r0 ht
    cases hr
    simp only [terminal?] at ht
    split at ht
    · cases ht; exact hi.2.1
    · split at ht
      · cases ht; exact hi.2.2
      · split at ht
        · cases ht; exact hi.1
        · split at ht
          · cases ht; exact WF_neg hi.1
          · split at ht
            · cases ht; exact hi.2.1
            · cases ht
  · generalize reorder ord f1 g1 h1 = t2 at hr
    obtain ⟨f2, g2, h2⟩ := t2
    simp only [standardise] at hr
    split at hr
    · cases hr
    · split at hr
      · cases hr
      · split at hr <;> cases hr

section derived
variable (A : CacheImpl (Ptr × Ptr)) (I : CacheImpl (Ptr × Ptr × Ptr)) (cfg : Config) (fuel : Nat)

theorem bAnd_ok : AndOK (AppInv A cfg.vt) cfg.vt (bAnd A cfg fuel) :=
  and_ok A cfg.vt cfg.compress fuel

theorem bOr_ok {st a b st' r} (hP : AppInv A cfg.vt st) (wa : WF cfg.vt a) (wb : WF cfg.vt b)
    (h : bOr A cfg fuel st a b = some (st', r)) :
    AppInv A cfg.vt st' ∧ WF cfg.vt r ∧ ∀ asg, r.eval asg = (a.eval asg || b.eval asg) :=
  orF_ok (bAnd_ok A cfg fuel) hP wa wb h

theorem bCond_ok {st f st' r} {x : Nat} {v : Bool} (hP : AppInv A cfg.vt st) (wf : WF cfg.vt f)
    (h : bCond A cfg fuel st f x v = some (st', r)) :
    AppInv A cfg.vt st' ∧ WF cfg.vt r ∧ ∀ asg, r.eval asg = f.eval (upd asg x v) :=
  condition_ok (bAnd_ok A cfg fuel) cfg.compress x v fuel _ _ _ _ hP wf h

theorem bIte_ok {s s' : A.σ × I.σ} {f g h r : Ptr}
    (hA : AppInv A cfg.vt s.1) (hI : IteInv I cfg.vt s.2)
    (wf : WF cfg.vt f) (wg : WF cfg.vt g) (wh : WF cfg.vt h)
    (hr : bIte A I cfg fuel s f g h = some (s', r)) :
    AppInv A cfg.vt s'.1 ∧ IteInv I cfg.vt s'.2 ∧ WF cfg.vt r ∧
      ∀ a, r.eval a = iteB (f.eval a) (g.eval a) (h.eval a) := by
  have hsound := iteNew_sound (primeOrd cfg.vt) f g h
  simp only [bIte] at hr
  generalize hk : Ite.new (primeOrd cfg.vt) f g h = key at hr hsound
  have main : ∀ (hnc : ∀ p, key ≠ .const p),
      (match iteCacheGet I s.2 key with
        | some v => some (s, v)
        | none =>
          match bAnd A cfg fuel s.1 f g with
          | none => none
          | some (a1, fg) =>
            match bAnd A cfg fuel a1 f.neg h with
            | none => none
            | some (a2, nfh) =>
              match bOr A cfg fuel a2 fg nfh with
              | none => none
              | some (a3, r) => some ((a3, iteCacheInsert I s.2 key r), r)) = some (s', r) →
      AppInv A cfg.vt s'.1 ∧ IteInv I cfg.vt s'.2 ∧ WF cfg.vt r ∧
        ∀ a, r.eval a = iteB (f.eval a) (g.eval a) (h.eval a) := by
    intro hnc hr
    split at hr
    · rename_i v hget
      cases hr
      obtain ⟨w, e⟩ := iteCacheGet_ok hI hnc hget
      exact ⟨hA, hI, w, fun a => by rw [e, hsound]⟩
    · split at hr
      · cases hr
      · rename_i a1 fg h1
        obtain ⟨hA1, wfg, efg⟩ := bAnd_ok A cfg fuel _ _ _ _ _ hA wf wg h1
        split at hr
        · cases hr
        · rename_i a2 nfh h2
          obtain ⟨hA2, wnfh, enfh⟩ := bAnd_ok A cfg fuel _ _ _ _ _ hA1 (WF_neg wf) wh h2
          split at hr
          · cases hr
          · rename_i a3 r3 h3
            cases hr
            obtain ⟨hA3, wr, er⟩ := bOr_ok A cfg fuel hA2 wfg wnfh h3
            have er' : ∀ a, r.eval a = iteB (f.eval a) (g.eval a) (h.eval a) := by
              intro a; rw [er, efg, enfh, eval_neg]
              cases f.eval a <;> simp [iteB]
            exact ⟨hA3, iteCacheInsert_ok hI wr (fun a => by rw [er', hsound]), wr, er'⟩
  cases key with
  | const p =>
    simp only at hr
    cases hr
    exact ⟨hA, hI, iteNew_const_WF wf wg wh hk, fun a => by rw [← hsound]; rfl⟩
  | choice f' g' h' => exact main (fun p hp => by cases hp) hr
  | complChoice f' g' h' => exact main (fun p hp => by cases hp) hr

theorem bIff_ok {s s' : A.σ × I.σ} {f g r : Ptr}
    (hA : AppInv A cfg.vt s.1) (hI : IteInv I cfg.vt s.2) (wf : WF cfg.vt f) (wg : WF cfg.vt g)
    (hr : bIff A I cfg fuel s f g = some (s', r)) :
    AppInv A cfg.vt s'.1 ∧ IteInv I cfg.vt s'.2 ∧ WF cfg.vt r ∧
      ∀ a, r.eval a = (f.eval a == g.eval a) := by
  obtain ⟨h1, h2, h3, h4⟩ := bIte_ok A I cfg fuel hA hI wf wg (WF_neg wg) hr
  refine ⟨h1, h2, h3, fun a => ?_⟩
  rw [h4, eval_neg]; cases f.eval a <;> cases g.eval a <;> rfl

theorem bXor_ok {s s' : A.σ × I.σ} {f g r : Ptr}
    (hA : AppInv A cfg.vt s.1) (hI : IteInv I cfg.vt s.2) (wf : WF cfg.vt f) (wg : WF cfg.vt g)
    (hr : bXor A I cfg fuel s f g = some (s', r)) :
    AppInv A cfg.vt s'.1 ∧ IteInv I cfg.vt s'.2 ∧ WF cfg.vt r ∧
      ∀ a, r.eval a = xor (f.eval a) (g.eval a) := by
  obtain ⟨h1, h2, h3, h4⟩ := bIte_ok A I cfg fuel hA hI wf (WF_neg wg) wg hr
  refine ⟨h1, h2, h3, fun a => ?_⟩
  rw [h4, eval_neg]; cases f.eval a <;> cases g.eval a <;> rfl

theorem bExists_ok {st st' : A.σ} {f r : Ptr} {x : Nat} (hP : AppInv A cfg.vt st)
    (wf : WF cfg.vt f) (h : bExists A cfg fuel st f x = some (st', r)) :
    AppInv A cfg.vt st' ∧ WF cfg.vt r ∧
      ∀ a, r.eval a = (f.eval (upd a x true) || f.eval (upd a x false)) := by
  simp only [bExists] at h
  split at h
  · cases h
  · rename_i s1 v1 h1
    obtain ⟨hP1, w1, e1⟩ := bCond_ok A cfg fuel hP wf h1
    split at h
    · cases h
    · rename_i s2 v2 h2
      obtain ⟨hP2, w2, e2⟩ := bCond_ok A cfg fuel hP1 wf h2
      obtain ⟨hP3, w3, e3⟩ := bOr_ok A cfg fuel hP2 w1 w2 h
      exact ⟨hP3, w3, fun a => by rw [e3, e1, e2]⟩

theorem bCompose_ok {s s' : A.σ × I.σ} {f g r : Ptr} {x : Nat}
    (hA : AppInv A cfg.vt s.1) (hI : IteInv I cfg.vt s.2) (hx : cfg.vt.hasVar x = true)
    (wf : WF cfg.vt f) (wg : WF cfg.vt g)
    (hr : bCompose A I cfg fuel s f x g = some (s', r)) :
    AppInv A cfg.vt s'.1 ∧ IteInv I cfg.vt s'.2 ∧ WF cfg.vt r ∧
      ∀ a, r.eval a = fCompose (fun a => f.eval a) x (fun a => g.eval a) a := by
  simp only [bCompose] at hr
  split at hr
  · cases hr
  · rename_i s1 i h1
    obtain ⟨hA1, hI1, wi, ei⟩ := bIff_ok A I cfg fuel hA hI (f := .lit x true) (by simpa [WF] using hx) wg h1
    split at hr
    · cases hr
    · rename_i a2 c h2
      obtain ⟨hA2, wc, ec⟩ := bAnd_ok A cfg fuel _ _ _ _ _ hA1 wi wf h2
      split at hr
      · cases hr
      · rename_i a3 r3 h3
        cases hr
        obtain ⟨hA3, wr, er⟩ := bExists_ok A cfg fuel hA2 wc h3
        refine ⟨hA3, hI1, wr, fun a => ?_⟩
        rw [er, ec, ec, ei, ei]
        simp [fCompose, fExists, fAnd, fIff, fVar, eval_lit]

end derived

end Sdd
