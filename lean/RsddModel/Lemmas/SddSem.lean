import RsddModel.Lemmas.SddBasic
/-!
# SDD lemmas, part 2: the builder operations compute the function they name

The invariant `WF vt p` carried by every pointer handed out:
* literals and binary-node labels are variables of the vtree;
* node indices are internal vtree nodes;
* every decision node's primes form a *partition* (pairwise exclusive, exhaustive) — this is
  what the complement representation (`¬⋁pᵢ∧sᵢ = ⋁pᵢ∧¬sᵢ`), the equal-prime / implied-prime
  shortcuts of `and_cartesian`, the `is_true(newp)` exit of `condition` and the BDD test of
  `unique_or` need;
* at a right-linear vtree node the label of a binary node is the left leaf and the primes of a
  decision node depend only on the left leaf (needed for the BDD shortcut of `and_cartesian`,
  which takes the label of `a` for both operands).
-/
namespace Sdd
open Spec

def Internal (vt : VTree) (i : Nat) : Prop := ∃ l r, vt.sub? 0 i = some (.node l r)

def DepOnly (p : Ptr) (w : Nat) : Prop := ∀ a a' : Assign, a w = a' w → p.eval a = p.eval a'
def DepW (ow : Option Nat) (p : Ptr) : Prop := ∀ w, ow = some w → DepOnly p w

mutual
def WF (vt : VTree) : Ptr → Prop
  | .tru => True
  | .fls => True
  | .lit v _ => vt.hasVar v = true
  | .bdd _ l i lo hi =>
    vt.hasVar l = true ∧ Internal vt i ∧ (∀ w, vt.leftLeaf? i = some w → w = l) ∧
      WF vt lo ∧ WF vt hi
  | .dec _ i es => Internal vt i ∧ Partition es ∧ WFElems vt (vt.leftLeaf? i) es
def WFElems (vt : VTree) (ow : Option Nat) : List (Ptr × Ptr) → Prop
  | [] => True
  | (p, s) :: r => WF vt p ∧ WF vt s ∧ DepW ow p ∧ WFElems vt ow r
end

/-- element-wise reading of `WFElems` -/
def ElemsOK (vt : VTree) (ow : Option Nat) (es : List Elem) : Prop :=
  ∀ e ∈ es, WF vt e.1 ∧ WF vt e.2 ∧ DepW ow e.1

theorem wfElems_iff (vt : VTree) (ow) (es : List Elem) : WFElems vt ow es ↔ ElemsOK vt ow es := by
  induction es with
  | nil => simp [WFElems, ElemsOK]
  | cons e l ih =>
    obtain ⟨p, s⟩ := e
    simp only [WFElems, ih, ElemsOK, List.mem_cons, forall_eq_or_imp]
    constructor
    · rintro ⟨h1, h2, h3, h4⟩; exact ⟨⟨h1, h2, h3⟩, h4⟩
    · rintro ⟨⟨h1, h2, h3⟩, h4⟩; exact ⟨h1, h2, h3, h4⟩

theorem WF_tru (vt) : WF vt .tru := by simp [WF]
theorem WF_fls (vt) : WF vt .fls := by simp [WF]

theorem WF_neg {vt} {p : Ptr} (h : WF vt p) : WF vt p.neg := by
  cases p <;> first | exact h | (simp only [Ptr.neg, WF] at h ⊢; exact h)

theorem WF_dec {vt c i es} : WF vt (.dec c i es) ↔
    Internal vt i ∧ Partition es ∧ ElemsOK vt (vt.leftLeaf? i) es := by
  simp [WF, wfElems_iff]

theorem DepW_tru (ow) : DepW ow .tru := fun _ _ _ _ _ => by simp
theorem DepW_fls (ow) : DepW ow .fls := fun _ _ _ _ _ => by simp
theorem DepW_neg {ow p} (h : DepW ow p) : DepW ow p.neg := by
  intro w hw a a' e; simp [h w hw a a' e]
theorem DepW_and {ow p q r} (hp : DepW ow p) (hq : DepW ow q)
    (h : ∀ a, r.eval a = (p.eval a && q.eval a)) : DepW ow r := by
  intro w hw a a' e; rw [h, h, hp w hw a a' e, hq w hw a a' e]
theorem DepW_or {ow p q r} (hp : DepW ow p) (hq : DepW ow q)
    (h : ∀ a, r.eval a = (p.eval a || q.eval a)) : DepW ow r := by
  intro w hw a a' e; rw [h, h, hp w hw a a' e, hq w hw a a' e]

theorem ElemsOK_negSubs {vt ow es} (h : ElemsOK vt ow es) : ElemsOK vt ow (negSubs es) := by
  intro e he
  simp only [negSubs, List.mem_map] at he
  obtain ⟨e', he', rfl⟩ := he
  obtain ⟨h1, h2, h3⟩ := h e' he'
  exact ⟨h1, WF_neg h2, h3⟩

theorem lit_depOnly {l p w} (h : DepOnly (.lit l p) w) : w = l := by
  apply Classical.byContradiction
  intro hne
  have := h (fun _ => false) (upd (fun _ => false) l true) (by simp [upd, hne])
  cases p <;> simp [eval_lit, upd] at this

/-- the index of a well formed non-constant pointer is a node of the vtree -/
theorem vtreeIndex_sub {vt : VTree} {p : Ptr} (h : WF vt p) (h1 : p.isTrue = false)
    (h2 : p.isFalse = false) : ∃ s, vt.sub? 0 (vtreeIndex vt p) = some s := by
  cases p with
  | tru => simp [Ptr.isTrue] at h1
  | fls => simp [Ptr.isFalse] at h2
  | lit v pol =>
    simp only [WF, VTree.hasVar, Option.isSome_iff_exists] at h
    obtain ⟨i, hi⟩ := h
    exact ⟨_, by simp only [vtreeIndex, hi, Option.getD_some]; exact VTree.varIndex?_sub hi⟩
  | bdd c l i lo hi => obtain ⟨_, ⟨l', r', h'⟩, _⟩ := h; exact ⟨_, h'⟩
  | dec c i es => obtain ⟨⟨l', r', h'⟩, _⟩ := h; exact ⟨_, h'⟩

/-! ## unique_bdd / unique_or / base cases -/

theorem uniqueBdd_eval (l : Nat) (lo hi : Ptr) (idx : Nat) (a : Assign) :
    (uniqueBdd l lo hi idx).eval a = (if a l then hi.eval a else lo.eval a) := by
  simp only [uniqueBdd]
  split
  · subst_vars; simp
  · split
    · rename_i h; simp at h
      simp [eval_lit, isFalse_eval h.1, isTrue_eval h.2]
    · split
      · rename_i h; simp at h
        simp [eval_lit, isTrue_eval h.1, isFalse_eval h.2]
      · split
        · simp only [eval_bdd, eval_neg]; cases a l <;> simp
        · simp [eval_bdd]

theorem uniqueBdd_WF {vt : VTree} {l : Nat} {lo hi : Ptr} {idx : Nat} (hl : vt.hasVar l = true)
    (hi' : Internal vt idx) (hw : ∀ w, vt.leftLeaf? idx = some w → w = l)
    (wlo : WF vt lo) (whi : WF vt hi) : WF vt (uniqueBdd l lo hi idx) := by
  simp only [uniqueBdd]
  split
  · exact whi
  · split
    · simpa [WF] using hl
    · split
      · simpa [WF] using hl
      · split
        · exact ⟨hl, hi', hw, WF_neg wlo, WF_neg whi⟩
        · exact ⟨hl, hi', hw, wlo, whi⟩

theorem asBdd?_some {es : List Elem} {l : Nat} {lo hi : Ptr} (h : asBdd? es = some (l, lo, hi)) :
    ∃ x pol p1 s0 s1, es = [(.lit x pol, s0), (.lit l p1, s1)] ∧
      lo = (if !pol then s0 else s1) ∧ hi = (if pol then s0 else s1) := by
  unfold asBdd? at h
  split at h
  · rename_i x pol s0 l' p1 s1
    simp only [Option.some.injEq, Prod.mk.injEq] at h
    obtain ⟨rfl, rfl, rfl⟩ := h
    exact ⟨x, pol, p1, s0, s1, rfl, rfl, rfl⟩
  · cases h

/-- two literal primes that partition are the two literals of one variable -/
theorem partition_two_lits {x l : Nat} {pol p1 : Bool} {s0 s1 : Ptr}
    (h : Partition [(.lit x pol, s0), (.lit l p1, s1)]) : x = l ∧ pol = !p1 := by
  have key : ∀ a : Assign, (if (Ptr.lit x pol).eval a then 1 else 0) +
      (if (Ptr.lit l p1).eval a then 1 else 0) = 1 := by
    intro a; have := h a; simpa [cnt_cons] using this
  by_cases hx : x = l
  · subst hx
    refine ⟨rfl, ?_⟩
    have := key (fun _ => true)
    cases pol <;> cases p1 <;> simp [eval_lit] at this ⊢
  · exfalso
    have := key (fun y => if y = x then pol else p1)
    have hx' : ¬ l = x := fun e => hx e.symm
    cases pol <;> cases p1 <;> simp [eval_lit, hx'] at this

theorem uniqueOr_ok {vt : VTree} {es : List Elem} {table : Nat} {r : Ptr}
    (hok : ElemsOK vt (vt.leftLeaf? table) es) (hpart : Partition es) (hint : Internal vt table)
    (h : uniqueOr es table = some r) : WF vt r ∧ ∀ a, r.eval a = evalElems a es := by
  simp only [uniqueOr] at h
  split at h
  · rename_i l lo hi hb
    cases h
    obtain ⟨x, pol, p1, s0, s1, rfl, rfl, rfl⟩ := asBdd?_some hb
    obtain ⟨rfl, rfl⟩ := partition_two_lits hpart
    obtain ⟨w0, ws0, d0⟩ := hok _ (List.mem_cons_self ..)
    obtain ⟨w1, ws1, d1⟩ := hok _ (List.mem_cons_of_mem _ (List.mem_cons_self ..))
    refine ⟨uniqueBdd_WF (by simpa [WF] using w1) hint ?_ ?_ ?_, ?_⟩
    · intro w hw; exact lit_depOnly (d1 w hw)
    · cases p1 <;> simpa using (by first | exact ws0 | exact ws1)
    · cases p1 <;> simpa using (by first | exact ws1 | exact ws0)
    · intro a
      rw [uniqueBdd_eval]
      cases p1 <;> cases h1 : a x <;> simp [eval_lit, h1]
  · split at h
    · cases h
    · rename_i p0 s0 rest hs
      have hcnt : ∀ a, cnt a ((p0, s0) :: rest) = 1 := by
        intro a; rw [← hs, cnt_sortByPrime]; exact hpart a
      have hev : ∀ a, evalElems a ((p0, s0) :: rest) = evalElems a es := by
        intro a; rw [← hs, evalElems_sortByPrime]
      have hok' : ElemsOK vt (vt.leftLeaf? table) ((p0, s0) :: rest) := by
        intro e he; rw [← hs, mem_sortByPrime] at he; exact hok e he
      split at h
      · cases h
        refine ⟨WF_dec.2 ⟨hint, ?_, ElemsOK_negSubs hok'⟩, ?_⟩
        · intro a; rw [cnt_negSubs]; exact hcnt a
        · intro a; rw [eval_dec, evalElems_negSubs (hcnt a), ← hev a]; simp
      · cases h
        exact ⟨WF_dec.2 ⟨hint, hcnt, hok'⟩, fun a => by rw [eval_dec, ← hev a]; simp⟩

theorem canonBase_ok {vt : VTree} {ow} {es : List Elem} {r : Ptr}
    (hok : ElemsOK vt ow es) (hpart : Partition es) (h : canonBase? es = some r) :
    WF vt r ∧ ∀ a, r.eval a = evalElems a es := by
  refine ⟨?_, ?_⟩
  · unfold canonBase? at h
    split at h
    · cases h; exact WF_tru vt
    · have := hok _ (List.mem_cons_self ..)
      split at h
      · cases h; exact this.2.1
      · split at h
        · cases h; exact WF_fls vt
        · cases h
    · have h0 := hok _ (List.mem_cons_self ..)
      have h1 := hok _ (List.mem_cons_of_mem _ (List.mem_cons_self ..))
      split at h
      · cases h; exact h0.1
      · split at h
        · cases h; exact h1.1
        · cases h
    · cases h
  · intro a
    unfold canonBase? at h
    split at h
    · have := hpart a; simp at this
    · split at h
      · cases h; rename_i hp; simp [isTrue_eval hp]
      · split at h
        · cases h; rename_i hs; simp [isFalse_eval hs]
        · cases h
    · split at h
      · cases h; rename_i hc; simp at hc; simp [isTrue_eval hc.1, isFalse_eval hc.2]
      · split at h
        · cases h; rename_i hc; simp at hc; simp [isFalse_eval hc.1, isTrue_eval hc.2]
        · cases h
    · cases h

end Sdd
