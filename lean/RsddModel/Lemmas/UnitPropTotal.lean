import RsddModel.Lemmas.UnitPropSolver
/-!
# The default fuel always suffices (C09): the model never runs out of fuel

On CNFs in `Cnf::new` normal form, the watcher loop terminates within
`unset variables * (2 * #clauses + 2) + 2 * |current watch list| - watcher_idx` steps, which
`defaultFuel` exceeds. Hence `Solver.new` never answers "fuel" and `decide` never answers `error`
on a reachable state: the partial-correctness theorems of `Props/C09.lean` apply to every history.
-/
namespace UnitProp
open Spec

/-- pigeonhole: a duplicate-free list of numbers below `n` has at most `n` entries -/
theorem nodup_lt_length : ∀ (n : Nat) (l : List Nat), l.Nodup → (∀ x, x ∈ l → x < n) → l.length ≤ n
  | 0, l, _, h => by
    cases l with
    | nil => simp
    | cons a t => exact absurd (h a (by simp)) (by omega)
  | n + 1, l, hnd, h => by
    have hsplit := List.length_eq_countP_add_countP (fun x => x == n) (l := l)
    have hc : l.countP (fun x => x == n) ≤ 1 := by
      rw [← List.count_eq_countP, hnd.count]; split <;> omega
    rw [List.countP_eq_length_filter (p := fun a => Decidable.decide ¬((a == n) = true))] at hsplit
    have ih := nodup_lt_length n (l.filter fun a => Decidable.decide ¬((a == n) = true))
      (List.nodup_iff_pairwise_ne.mpr ((List.nodup_iff_pairwise_ne.mp hnd).filter _))
      (by
        intro x hx
        obtain ⟨h1, h2⟩ := List.mem_filter.mp hx
        have := h x h1
        have hne : x ≠ n := by simpa using h2
        omega)
    omega

theorem TwoWatch.length_le {cnf : Cnf} {wl : WL} (h2 : TwoWatch cnf wl) (p : Bool) (v : Nat) :
    (wl.get p v).length ≤ cnf.length :=
  nodup_lt_length _ _ (h2.nodup p v) (fun i hi => (h2.only i ⟨v, p⟩ hi).1)

/-- number of unassigned variables among the first `n` -/
def unsetCount (n : Nat) (m : PModel) : Nat := (List.range n).countP (fun x => (m x).isNone)

theorem unsetCount_mono {n : Nat} {m m' : PModel} (h : PExt m m') : unsetCount n m' ≤ unsetCount n m := by
  unfold unsetCount
  apply List.countP_mono_left
  intro x _ hx
  cases hm : m x with
  | none => rfl
  | some b => rw [h x b hm] at hx; cases hx

theorem countP_strict {p q : Nat → Bool} : ∀ {l : List Nat} {x : Nat}, x ∈ l →
    (∀ y, y ∈ l → p y = true → q y = true) → q x = true → p x = false →
    l.countP p + 1 ≤ l.countP q
  | [], _, hx, _, _, _ => by cases hx
  | a :: t, x, hx, hpq, hq, hp => by
    rw [List.countP_cons, List.countP_cons]
    rcases List.mem_cons.mp hx with rfl | hx'
    · have := List.countP_mono_left (l := t) (p := p) (q := q) (fun y hy => hpq y (by simp [hy]))
      simp [hq, hp]; omega
    · have ih := countP_strict hx' (fun y hy => hpq y (by simp [hy])) hq hp
      by_cases ha : p a = true
      · have := hpq a (by simp) ha
        simp [ha, this]; omega
      · have ha' : p a = false := by simpa using ha
        simp [ha']; split <;> omega

theorem unsetCount_set {n : Nat} {m : PModel} {x : Nat} (b : Bool) (hx : x < n) (hm : m x = none) :
    unsetCount n (m.set x b) + 1 ≤ unsetCount n m := by
  unfold unsetCount
  apply countP_strict (x := x) (List.mem_range.mpr hx)
  · intro y _ hy
    by_cases e : y = x
    · subst e; rw [hm]; rfl
    · rwa [pset_other _ _ e] at hy
  · rw [hm]; rfl
  · rw [pset_same]; rfl

/-- **Termination of the watcher loop within the fuel bound.** -/
theorem loop_total {cnf : Cnf} (hN : CnfNormal cnf) :
    ∀ (fuel : Nat) (wl : WL) (m : PModel) (l : Lit) (idx : Nat),
      TwoWatch cnf wl → m l.var = some l.pol →
      unsetCount (cnfNumVars cnf) m * (2 * cnf.length + 2)
        + 2 * (wl.get (!l.pol) l.var).length - idx < fuel →
      ∃ out, loop cnf true fuel wl m l idx = some out := by
  intro fuel
  induction fuel with
  | zero => intro wl m l idx _ _ h; omega
  | succ f ih =>
    intro wl m l idx h2 hl hΦ
    have hv : WatchValid cnf wl := fun p v i h => (h2.only i ⟨v, p⟩ h).1
    rw [loop]
    simp only []
    split
    · exact ⟨_, rfl⟩
    · next hge =>
      have hlt : idx < (wl.get (!l.pol) l.var).length := by omega
      split
      · exact ih wl m l (idx + 1) h2 hl (by omega)
      · next hs =>
        split
        · exact ⟨_, rfl⟩
        · next u hf =>
          have hu : m u.var = none := mem_filter_unset hf
          have humem : u ∈ curClause cnf wl l idx := by
            have : u ∈ (curClause cnf wl l idx).filter (litUnset m) := by
              show u ∈ (cnf.getD ((wl.get (!l.pol) l.var).getD idx 0) []).filter (litUnset m)
              rw [hf]; simp
            exact (List.mem_filter.mp this).1
          have huv : u.var < cnfNumVars cnf := var_lt_numVars (curClause_mem hv hlt) humem
          have hcnt := unsetCount_set (n := cnfNumVars cnf) u.pol huv hu
          have hmul : unsetCount (cnfNumVars cnf) (m.set u.var u.pol) * (2 * cnf.length + 2)
              + (2 * cnf.length + 2) ≤ unsetCount (cnfNumVars cnf) m * (2 * cnf.length + 2) := by
            rw [← Nat.succ_mul]; exact Nat.mul_le_mul_right _ hcnt
          have hlen_u := h2.length_le (!u.pol) u.var
          obtain ⟨out, ho⟩ := ih wl (m.set u.var u.pol) u 0 h2 (pset_same _ _ _) (by omega)
          have hdk : decideK (loop cnf true f) wl m u = some out := by
            unfold decideK; rw [hu]; exact ho
          rw [hdk]
          obtain ⟨wl1, r1⟩ := out
          cases r1 with
          | none => exact ⟨_, rfl⟩
          | some m1 =>
            have hrel := loop_rel cnf true f _ _ _ _ _ ho
            have hext1 : PExt (m.set u.var u.pol) m1 := hrel.ext _ rfl
            have hne : l.var ≠ u.var := by intro e; rw [e, hu] at hl; cases hl
            have hframe : wl1.get (!l.pol) l.var = wl.get (!l.pol) l.var :=
              hrel.frame _ _ (by rw [pset_other _ _ hne, hl]; simp) (fun e => hne e.2)
            have hcnt1 := unsetCount_mono (n := cnfNumVars cnf) hext1
            have hmul1 : unsetCount (cnfNumVars cnf) m1 * (2 * cnf.length + 2)
                ≤ unsetCount (cnfNumVars cnf) (m.set u.var u.pol) * (2 * cnf.length + 2) :=
              Nat.mul_le_mul_right _ hcnt1
            have hlen_l := h2.length_le (!l.pol) l.var
            exact ih wl1 m1 l (idx + 1) (hrel.twoWatch hN (pset_same _ _ _) h2)
              (hext1 _ _ (by rw [pset_other _ _ hne]; exact hl)) (by rw [hframe]; omega)
        · next cand second rest hf =>
          have hnl := pickWatch_unset (rep := true) (wl := wl) (l := l) (ci := curIdx wl l idx)
            (c := curClause cnf wl l idx) hf
          have hne : (pickWatch true wl l (curIdx wl l idx) cand second).var ≠ l.var := by
            intro e; rw [e, hl] at hnl; cases hnl.1
          have hlen : ((moveWatch wl l idx (pickWatch true wl l (curIdx wl l idx) cand second)).get
              (!l.pol) l.var).length = (wl.get (!l.pol) l.var).length - 1 := by
            rw [moveWatch_get_self hne, swapRemove_length _ _ hlt]
          exact ih (moveWatch wl l idx (pickWatch true wl l (curIdx wl l idx) cand second)) m l idx
            (h2.move hN hl hlt hf) hl (by rw [hlen]; omega)

theorem fuel_bound (n C t U L : Nat) (hU : U ≤ n) (hL : L ≤ C) :
    U * (2 * C + 2) + 2 * L < (n + 2) * (4 * C + t + 4) := by
  have h1 : U * (2 * C + 2) ≤ n * (2 * C + 2) := Nat.mul_le_mul_right _ hU
  have h2 : (n + 2) * (2 * C + 2) = n * (2 * C + 2) + 2 * (2 * C + 2) := Nat.add_mul _ _ _
  have h3 : (n + 2) * (2 * C + 2) ≤ (n + 2) * (4 * C + t + 4) := Nat.mul_le_mul_left _ (by omega)
  omega

theorem unsetCount_le (n : Nat) (m : PModel) : unsetCount n m ≤ n := by
  unfold unsetCount
  have := List.countP_le_length (p := fun x => (m x).isNone) (l := List.range n)
  simpa using this

/-- `UnitPropagate::decide` terminates within the default fuel -/
theorem decideK_total {cnf : Cnf} (hN : CnfNormal cnf) {wl : WL} (h2 : TwoWatch cnf wl)
    (m : PModel) (l : Lit) :
    ∃ out, decideK (loop cnf true (defaultFuel cnf)) wl m l = some out := by
  unfold decideK
  cases hm : m l.var with
  | some v => simp only []; split <;> exact ⟨_, rfl⟩
  | none =>
    simp only []
    apply loop_total hN _ _ _ _ _ h2 (pset_same _ _ _)
    have := fuel_bound (cnfNumVars cnf) cnf.length (totalLits cnf)
      (unsetCount (cnfNumVars cnf) (m.set l.var l.pol)) (wl.get (!l.pol) l.var).length
      (unsetCount_le _ _) (h2.length_le _ _)
    unfold defaultFuel
    omega

theorem decideAll_total {cnf : Cnf} (hN : CnfNormal cnf) : ∀ (us : List Lit) (wl : WL) (m : PModel),
    TwoWatch cnf wl →
    ∃ out, decideAll (decideK (loop cnf true (defaultFuel cnf))) us wl m = some out
  | [], wl, m, _ => ⟨_, rfl⟩
  | u :: us, wl, m, h2 => by
    obtain ⟨out, ho⟩ := decideK_total hN h2 m u
    unfold decideAll
    rw [ho]
    obtain ⟨wl1, r1⟩ := out
    cases r1 with
    | none => exact ⟨_, rfl⟩
    | some m1 => exact decideAll_total hN us wl1 m1 ((decide_rel ho).twoWatch hN h2)

/-- **`SATSolver::new` never runs out of fuel** (on clause lists in `Cnf::new` normal form) -/
theorem new_total {cnf : Cnf} (hN : CnfNormal cnf) : ∃ o, Solver.new cnf = some o := by
  unfold Solver.new
  simp only []
  have hup : ∃ out, upNew cnf true (defaultFuel cnf) = some out := by
    unfold upNew
    split
    · exact ⟨_, rfl⟩
    · exact decideAll_total hN _ _ _ (initWatches_twoWatch cnf hN)
  obtain ⟨⟨wl, r⟩, ho⟩ := hup
  rw [ho]
  cases r with
  | none => exact ⟨_, rfl⟩
  | some m => exact ⟨_, rfl⟩

/-- **`SATSolver::decide` never runs out of fuel and never finds an empty stack** on a state
satisfying the invariant -/
theorem decide_total {s : Solver} {ds : List Lit} (hI : Inv s ds) (hN : CnfNormal s.cnf) (l : Lit) :
    ∃ s' r, s.decide l = .ok s' r := by
  obtain ⟨top, rest, hst, _, _⟩ := hI.stack.top
  obtain ⟨out, ho⟩ := decideK_total hN (hI.two hN) top.model l
  unfold Solver.decide Solver.decideWith
  rw [hst]
  simp only []
  rw [hI.fuel, ho]
  obtain ⟨wl1, r1⟩ := out
  cases r1 with
  | none => exact ⟨_, _, rfl⟩
  | some m1 => exact ⟨_, _, rfl⟩

end UnitProp
