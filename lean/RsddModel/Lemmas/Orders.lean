import RsddModel.Model.Orders
/-!
# Lemmas: variable orders and order heuristics (C14)

Every order the library constructs (`VarOrder::new` of a permutation, `linear_order`, `new_last`,
`min_fill_order`, `force_order`) is a well-formed order: both vectors are permutations of
`0..n-1` and mutually inverse.
-/
namespace Orders
open Spec List

/-! ## generic list facts -/

theorem getD_eq_getElem' {l : List Nat} {i : Nat} (h : i < l.length) (d : Nat) :
    l.getD i d = l[i] := by
  simp [List.getD_eq_getElem?_getD, h]

theorem getD_set_self {l : List Nat} {i : Nat} (h : i < l.length) (a d : Nat) :
    (l.set i a).getD i d = a := by
  simp [List.getD_eq_getElem?_getD, h]

theorem getD_set_ne {l : List Nat} {i j : Nat} (h : i ≠ j) (a d : Nat) :
    (l.set i a).getD j d = l.getD j d := by
  simp [List.getD_eq_getElem?_getD, h]

/-- a list is the tabulation of its `getD` -/
theorem eq_map_range_getD (l : List Nat) (d : Nat) :
    l = (List.range l.length).map (fun x => l.getD x d) := by
  apply List.ext_getElem
  · simp
  · intro i h1 h2
    simp [List.getD_eq_getElem?_getD, h1]

/-! ## `newLoop` -/

theorem newLoop_length (xs : List Nat) (i : Nat) (v : List Nat) :
    (newLoop xs i v).length = v.length := by
  induction xs generalizing i v with
  | nil => rfl
  | cons x xs ih => simp [newLoop, ih]

theorem newLoop_getD_not_mem (xs : List Nat) (i : Nat) (v : List Nat) (x d : Nat)
    (hx : x ∉ xs) : (newLoop xs i v).getD x d = v.getD x d := by
  induction xs generalizing i v with
  | nil => rfl
  | cons y ys ih =>
    simp only [List.mem_cons, not_or] at hx
    simp only [newLoop]
    rw [ih _ _ hx.2, getD_set_ne (Ne.symm hx.1)]

theorem newLoop_getD_getElem (xs : List Nat) (i : Nat) (v : List Nat) (d : Nat)
    (hnd : xs.Nodup) (hlt : ∀ x ∈ xs, x < v.length) (k : Nat) (hk : k < xs.length) :
    (newLoop xs i v).getD (xs[k]) d = i + k := by
  induction xs generalizing i v k with
  | nil => simp at hk
  | cons y ys ih =>
    rw [List.nodup_cons] at hnd
    simp only [newLoop]
    cases k with
    | zero =>
      simp only [List.getElem_cons_zero, Nat.add_zero]
      rw [newLoop_getD_not_mem _ _ _ _ _ hnd.1]
      exact getD_set_self (hlt y (List.mem_cons_self ..)) _ _
    | succ k =>
      simp only [List.getElem_cons_succ]
      have hk' : k < ys.length := by simpa using hk
      rw [ih (i + 1) (v.set y i) hnd.2 (by
        intro x hx; simpa using hlt x (List.mem_cons_of_mem _ hx)) k hk']
      omega

/-- the vector written by `newLoop p 0 ·` for a permutation `p` of `0..n-1` is a permutation -/
theorem newLoop_perm {p v : List Nat} {n : Nat} (hp : p.Perm (List.range n)) (hv : v.length = n) :
    (newLoop p 0 v).Perm (List.range n) := by
  have hnd : p.Nodup := (hp.nodup_iff).2 List.nodup_range
  have hlt : ∀ x ∈ p, x < v.length := by
    intro x hx; rw [hv]; exact List.mem_range.1 (hp.mem_iff.1 hx)
  have hplen : p.length = n := by simpa using hp.length_eq
  have hwlen : (newLoop p 0 v).length = n := by rw [newLoop_length, hv]
  -- `p.map w = range n`
  have h1 : p.map (fun x => (newLoop p 0 v).getD x 0) = List.range n := by
    apply List.ext_getElem
    · simp [hplen]
    · intro k hk1 hk2
      have hk : k < p.length := by simpa using hk1
      simp only [List.getElem_map, List.getElem_range]
      rw [newLoop_getD_getElem p 0 v 0 hnd hlt k hk]; omega
  have h2 : newLoop p 0 v = (List.range n).map (fun x => (newLoop p 0 v).getD x 0) := by
    have := eq_map_range_getD (newLoop p 0 v) 0
    rw [hwlen] at this; exact this
  rw [h2]
  have h3 := (hp.map (fun x => (newLoop p 0 v).getD x 0)).symm
  rw [h1] at h3
  exact h3

/-- `w[p[i]] = i` -/
theorem newLoop_inv_left {p v : List Nat} {n : Nat} (hp : p.Perm (List.range n))
    (hv : v.length = n) (i : Nat) (hi : i < n) :
    (newLoop p 0 v).getD (p.getD i 0) 0 = i := by
  have hnd : p.Nodup := (hp.nodup_iff).2 List.nodup_range
  have hlt : ∀ x ∈ p, x < v.length := by
    intro x hx; rw [hv]; exact List.mem_range.1 (hp.mem_iff.1 hx)
  have hplen : p.length = n := by simpa using hp.length_eq
  have hk : i < p.length := by omega
  rw [getD_eq_getElem' hk, newLoop_getD_getElem p 0 v 0 hnd hlt i hk]; omega

/-- `p[w[x]] = x` -/
theorem newLoop_inv_right {p v : List Nat} {n : Nat} (hp : p.Perm (List.range n))
    (hv : v.length = n) (x : Nat) (hx : x < n) :
    p.getD ((newLoop p 0 v).getD x 0) 0 = x := by
  have hplen : p.length = n := by simpa using hp.length_eq
  have hmem : x ∈ p := hp.mem_iff.2 (List.mem_range.2 hx)
  obtain ⟨k, hk, hkx⟩ := List.getElem_of_mem hmem
  have := newLoop_inv_left hp hv k (by omega)
  rw [getD_eq_getElem' hk, hkx] at this
  rw [this, getD_eq_getElem' hk, hkx]

/-! ## `VarOrder` -/

/-- well-formedness of an order over `n` variables: both vectors are permutations of `0..n-1`
and they are mutually inverse -/
structure VarOrder.WF (o : VarOrder) (n : Nat) : Prop where
  perm_pos : o.posToVar.Perm (List.range n)
  perm_var : o.varToPos.Perm (List.range n)
  get_varAtLevel : ∀ i, i < n → o.get (o.varAtLevel i) = i
  varAtLevel_get : ∀ v, v < n → o.varAtLevel (o.get v) = v

theorem new_wf {order : List Nat} {n : Nat} (h : order.Perm (List.range n)) :
    (VarOrder.new order).WF n := by
  have hlen : order.length = n := by simpa using h.length_eq
  have hv : (List.replicate order.length 0).length = n := by simp [hlen]
  exact
    { perm_pos := h
      perm_var := newLoop_perm h hv
      get_varAtLevel := fun i hi => newLoop_inv_left h hv i hi
      varAtLevel_get := fun v hvn => newLoop_inv_right h hv v hvn }

theorem linear_wf (n : Nat) : (VarOrder.linear n).WF n := new_wf (List.Perm.refl _)

theorem WF.length_pos {o : VarOrder} {n : Nat} (h : o.WF n) : o.posToVar.length = n := by
  simpa using h.perm_pos.length_eq

theorem WF.length_var {o : VarOrder} {n : Nat} (h : o.WF n) : o.varToPos.length = n := by
  simpa using h.perm_var.length_eq

theorem WF.varAtLevel_lt {o : VarOrder} {n : Nat} (h : o.WF n) {i : Nat} (hi : i < n) :
    o.varAtLevel i < n := by
  have hl := WF.length_pos h
  unfold VarOrder.varAtLevel
  rw [getD_eq_getElem' (by omega)]
  exact List.mem_range.1 (h.perm_pos.mem_iff.1 (List.getElem_mem _))

theorem WF.get_lt {o : VarOrder} {n : Nat} (h : o.WF n) {v : Nat} (hv : v < n) :
    o.get v < n := by
  have hl := WF.length_var h
  unfold VarOrder.get
  rw [getD_eq_getElem' (by omega)]
  exact List.mem_range.1 (h.perm_var.mem_iff.1 (List.getElem_mem _))

theorem getD_append_left' {l : List Nat} {i : Nat} (h : i < l.length) (t : List Nat) (d : Nat) :
    (l ++ t).getD i d = l.getD i d := by
  simp [List.getD_eq_getElem?_getD, List.getElem?_append_left h]

theorem getD_append_singleton_length (l : List Nat) (a d : Nat) :
    (l ++ [a]).getD l.length d = a := by
  simp [List.getD_eq_getElem?_getD]

theorem newLast_wf {o : VarOrder} {n : Nat} (h : o.WF n) :
    o.newLast.1.WF (n + 1) ∧ o.newLast.2 = n := by
  have hlp := WF.length_pos h
  have hlv := WF.length_var h
  refine ⟨?_, hlp⟩
  refine ⟨?_, ?_, ?_, ?_⟩
  · show (o.posToVar ++ [o.posToVar.length]).Perm _
    rw [List.range_succ, hlp]; exact h.perm_pos.append_right _
  · show (o.varToPos ++ [o.posToVar.length]).Perm _
    rw [List.range_succ, hlp]; exact h.perm_var.append_right _
  · intro i hi
    show (o.varToPos ++ [o.posToVar.length]).getD ((o.posToVar ++ [o.posToVar.length]).getD i 0) 0 = i
    by_cases hin : i < n
    · have h1 : (o.posToVar ++ [o.posToVar.length]).getD i 0 = o.varAtLevel i :=
        getD_append_left' (by omega) _ _
      have h2 := WF.varAtLevel_lt h hin
      rw [h1, getD_append_left' (by omega)]
      exact h.get_varAtLevel i hin
    · have hin' : i = o.posToVar.length := by omega
      subst hin'
      rw [getD_append_singleton_length, hlp, ← hlv, getD_append_singleton_length, hlv]
  · intro v hv
    show (o.posToVar ++ [o.posToVar.length]).getD ((o.varToPos ++ [o.posToVar.length]).getD v 0) 0 = v
    by_cases hvn : v < n
    · have h1 : (o.varToPos ++ [o.posToVar.length]).getD v 0 = o.get v :=
        getD_append_left' (by omega) _ _
      have h2 := WF.get_lt h hvn
      rw [h1, getD_append_left' (by omega)]
      exact h.varAtLevel_get v hvn
    · have hvn' : v = o.varToPos.length := by omega
      subst hvn'
      rw [getD_append_singleton_length, getD_append_singleton_length, hlp, hlv]

theorem newLastN_wf {o : VarOrder} {n : Nat} (h : o.WF n) (k : Nat) :
    (o.newLastN k).WF (n + k) := by
  induction k with
  | zero => exact h
  | succ k ih => exact (newLast_wf ih).1

/-! ## the graph and the elimination loop -/

theorem set_append_getD_perm (init : List Nat) (y v : Nat) (hv : v < init.length) :
    (init.set v y ++ [init.getD v 0]).Perm (init ++ [y]) := by
  induction init generalizing v with
  | nil => simp at hv
  | cons a t ih =>
    cases v with
    | zero =>
      simp only [List.set_cons_zero, List.getD_cons_zero, List.cons_append]
      exact ((List.Perm.cons y List.perm_append_comm).trans (List.Perm.swap a y t)).trans
        (List.Perm.cons a (List.perm_append_comm (l₁ := [y]) (l₂ := t)))
    | succ v =>
      simp only [List.set_cons_succ, List.getD_cons_succ, List.cons_append]
      exact List.Perm.cons a (ih v (by simpa using hv))

/-- swap-remove: what is left plus the removed weight is a permutation of the node vector -/
theorem swapRemove_perm (l : List Nat) (v : Nat) (hv : v < l.length) :
    ((l.set v (l.getD (l.length - 1) 0)).take (l.length - 1) ++ [l.getD v 0]).Perm l := by
  have hne : l ≠ [] := by intro h; simp [h] at hv
  have hl := (List.dropLast_concat_getLast hne).symm
  generalize hin : l.dropLast = init at hl
  generalize hy : l.getLast hne = y at hl
  subst hl
  simp only [List.length_append, List.length_singleton, Nat.add_sub_cancel]
  rw [getD_append_singleton_length]
  by_cases hvi : v < init.length
  · have h1 : (init ++ [y]).set v y = init.set v y ++ [y] := by
      rw [List.set_append_left _ _ hvi]
    rw [h1, getD_append_left' hvi]
    have h2 : (init.set v y ++ [y]).take init.length = init.set v y := by
      have : init.length = (init.set v y).length := by simp
      rw [this, List.take_left']
      rfl
    rw [h2]
    exact set_append_getD_perm init y v hvi
  · have hv' : v = init.length := by simp at hv; omega
    subst hv'
    rw [getD_append_singleton_length]
    have h1 : (init ++ [y]).set init.length y = init ++ [y] := by
      rw [List.set_append_right _ _ (Nat.le_refl _)]; simp
    rw [h1, List.take_left']
    rfl

theorem removeNode_nodes_perm (g : UnGraph) (v : Nat) (hv : v < g.nodes.length) :
    ((g.removeNode v).nodes ++ [g.nodes.getD v 0]).Perm g.nodes := by
  unfold UnGraph.removeNode
  rw [if_pos hv]
  exact swapRemove_perm g.nodes v hv

theorem removeNode_nodes_length (g : UnGraph) (v : Nat) (hv : v < g.nodes.length) :
    (g.removeNode v).nodes.length = g.nodes.length - 1 := by
  unfold UnGraph.removeNode
  rw [if_pos hv]
  simp only [List.length_take, List.length_set]
  omega

/-- the elimination loop returns a permutation of the node weights, for ANY choice function and
ANY edge rewriting that leaves the node vector alone -/
theorem elimLoop_perm (pick : UnGraph → Nat) (pre : UnGraph → Nat → UnGraph)
    (hpre : ∀ g v, (pre g v).nodes = g.nodes)
    (hpick : ∀ g, g.nodes ≠ [] → pick g < g.nodes.length) :
    ∀ (fuel : Nat) (g : UnGraph) (ord : List Nat), g.nodes.length ≤ fuel →
      (elimLoop pick pre fuel g ord).Perm (ord ++ g.nodes) := by
  intro fuel
  induction fuel with
  | zero =>
    intro g ord hg
    have : g.nodes = [] := List.eq_nil_of_length_eq_zero (by omega)
    simp [elimLoop, this]
  | succ fuel ih =>
    intro g ord hg
    unfold elimLoop
    by_cases h0 : g.nodes.length = 0
    · rw [if_pos h0]
      have : g.nodes = [] := List.eq_nil_of_length_eq_zero h0
      simp [this]
    · rw [if_neg h0]
      have hne : g.nodes ≠ [] := by intro h; simp [h] at h0
      have hp := hpick g hne
      have hp' : pick g < (pre g (pick g)).nodes.length := by rw [hpre]; exact hp
      have hlen := removeNode_nodes_length (pre g (pick g)) (pick g) hp'
      have hperm := removeNode_nodes_perm (pre g (pick g)) (pick g) hp'
      rw [hpre] at hlen hperm
      show (elimLoop pick pre fuel ((pre g (pick g)).removeNode (pick g))
        (ord ++ [g.nodes.getD (pick g) 0])).Perm _
      refine (ih _ _ (by omega)).trans ?_
      rw [List.append_assoc]
      exact List.Perm.append_left ord (List.perm_append_comm.trans hperm)

/-! ### `nodes` is untouched by the edge rewriting -/

theorem igInner_nodes (a : Nat) (c : List Lit) (g : UnGraph) : (igInner a c g).nodes = g.nodes := by
  induction c generalizing g with
  | nil => rfl
  | cons l rest ih =>
    simp only [igInner]
    rw [ih]
    split <;> rfl

theorem igClause_nodes (c : List Lit) (g : UnGraph) : (igClause c g).nodes = g.nodes := by
  induction c generalizing g with
  | nil => rfl
  | cons l rest ih =>
    simp only [igClause]
    rw [ih, igInner_nodes]

theorem foldl_igClause_nodes (cs : Cnf) (g : UnGraph) :
    (cs.foldl (fun g c => igClause c g) g).nodes = g.nodes := by
  induction cs generalizing g with
  | nil => rfl
  | cons c cs ih =>
    simp only [List.foldl_cons]
    rw [ih, igClause_nodes]

theorem interactionGraph_nodes (cs : Cnf) (n : Nat) : (interactionGraph cs n).nodes = List.range n := by
  unfold interactionGraph
  rw [foldl_igClause_nodes]

theorem fillInner_nodes (a : Nat) (l : List Nat) (g : UnGraph) : (fillInner a l g).nodes = g.nodes := by
  induction l generalizing g with
  | nil => rfl
  | cons b rest ih =>
    simp only [fillInner]
    rw [ih]
    split <;> rfl

theorem fillAll_nodes (l : List Nat) (g : UnGraph) : (fillAll l g).nodes = g.nodes := by
  induction l generalizing g with
  | nil => rfl
  | cons a rest ih =>
    simp only [fillAll]
    rw [ih, fillInner_nodes]

/-! ### the first minimum is a valid index -/

theorem firstMinIdxAux_bound (xs : List Nat) (i best bestVal : Nat) :
    firstMinIdxAux xs i best bestVal = best ∨
      (i ≤ firstMinIdxAux xs i best bestVal ∧ firstMinIdxAux xs i best bestVal < i + xs.length) := by
  induction xs generalizing i best bestVal with
  | nil => left; rfl
  | cons x xs ih =>
    simp only [firstMinIdxAux, List.length_cons]
    split
    · rcases ih (i + 1) i x with h | h
      · right; omega
      · right; omega
    · rcases ih (i + 1) best bestVal with h | h
      · left; exact h
      · right; omega

theorem firstMinIdx_lt (l : List Nat) (h : l ≠ []) : firstMinIdx l < l.length := by
  cases l with
  | nil => exact absurd rfl h
  | cons x xs =>
    simp only [firstMinIdx, List.length_cons]
    rcases firstMinIdxAux_bound xs 1 0 x with h | h <;> omega

theorem minFillPick_lt (g : UnGraph) (h : g.nodes ≠ []) : minFillPick g < g.nodes.length := by
  unfold minFillPick
  have hpos : 0 < g.nodes.length := List.length_pos_iff.2 h
  have hne : (List.range g.nodes.length).map (numFill g) ≠ [] := by
    intro hc
    have hlen : ((List.range g.nodes.length).map (numFill g)).length = 0 := by rw [hc]; rfl
    rw [List.length_map, List.length_range] at hlen
    omega
  have := firstMinIdx_lt _ hne
  simpa using this

theorem minFillSeq_perm (cs : Spec.Cnf) (n : Nat) : (minFillSeq cs n).Perm (List.range n) := by
  unfold minFillSeq
  have h := elimLoop_perm minFillPick (fun g v => fillAll (g.neighbors v) g)
    (fun g v => fillAll_nodes _ g) minFillPick_lt
    (interactionGraph cs n).nodes.length (interactionGraph cs n) [] (Nat.le_refl _)
  have hn := interactionGraph_nodes cs n
  simp only [hn, List.length_range, List.nil_append] at h ⊢
  exact h

theorem minFillOrder_wf (cs : Spec.Cnf) (n : Nat) : (minFillOrder cs n).WF n :=
  new_wf (minFillSeq_perm cs n)

/-! ## FORCE -/

theorem insertBy_perm {α : Type} (le : α → α → Bool) (x : α) (l : List α) :
    (insertBy le x l).Perm (x :: l) := by
  induction l with
  | nil => exact List.Perm.refl _
  | cons y ys ih =>
    simp only [insertBy]
    split
    · exact List.Perm.refl _
    · exact (List.Perm.cons y ih).trans (List.Perm.swap x y ys)

/-- sorting ANY keys with ANY comparison gives a permutation -/
theorem stableSort_perm {α : Type} (le : α → α → Bool) (l : List α) : (stableSort le l).Perm l := by
  induction l with
  | nil => exact List.Perm.refl _
  | cons x xs ih =>
    simp only [stableSort]
    exact (insertBy_perm le x _).trans (List.Perm.cons x ih)

theorem sortedLabels_perm {K : Type} (le : K → K → Bool) (keys : List K) :
    (sortedLabels le keys).Perm (List.range keys.length) := by
  unfold sortedLabels
  have h := (stableSort_perm (fun (a b : K × Nat) => le a.1 b.1)
    (keys.zip (List.range keys.length))).map (·.2)
  have h2 : (keys.zip (List.range keys.length)).map (·.2) = List.range keys.length :=
    List.map_snd_zip (by simp)
  rw [h2] at h
  exact h

theorem forceUpdate_inner_length {K : Type} (ops : ForceOps K) (g : K) (c : Clause)
    (upd : List (K × Nat)) :
    (c.foldl (fun upd l =>
      let (tot, cnt) := upd.getD l.var (ops.zero, 0)
      upd.set l.var (ops.add tot g, cnt + 1)) upd).length = upd.length := by
  induction c generalizing upd with
  | nil => rfl
  | cons l c ih =>
    simp only [List.foldl_cons]
    rw [ih]
    simp

theorem forceUpdate_length {K : Type} (ops : ForceOps K) (cs : Cnf) (cog : List K) (n : Nat) :
    (forceUpdate ops cs cog n).length = n := by
  unfold forceUpdate
  suffices h : ∀ (zs : List (Clause × K)) (upd : List (K × Nat)),
      (zs.foldl (fun upd (x : Clause × K) =>
        match x with
        | (c, g) => c.foldl (fun upd l =>
          let (tot, cnt) := upd.getD l.var (ops.zero, 0)
          upd.set l.var (ops.add tot g, cnt + 1)) upd) upd).length = upd.length by
    rw [h]; simp
  intro zs
  induction zs with
  | nil => intro upd; rfl
  | cons z zs ih =>
    intro upd
    obtain ⟨c, g⟩ := z
    simp only [List.foldl_cons]
    rw [ih, forceUpdate_inner_length]

theorem avgCog_length {K : Type} (ops : ForceOps K) (cs : Cnf) (l : List Nat) (n : Nat) :
    (avgCog ops cs l n).length = n := by
  unfold avgCog
  simp [forceUpdate_length]

/-- one FORCE step: whatever the keys are, the new `lbl_to_pos` is a permutation of `0..n-1` -/
theorem forceStep_perm {K : Type} (ops : ForceOps K) (cs : Spec.Cnf) (n : Nat) (l : List Nat)
    (hl : l.length = n) : (forceStep ops cs n l).Perm (List.range n) := by
  unfold forceStep positionsFrom
  have h := sortedLabels_perm ops.le (avgCog ops cs l n)
  rw [avgCog_length] at h
  exact newLoop_perm h hl

theorem forceLoop_perm {K : Type} (ops : ForceOps K) (cs : Spec.Cnf) (n : Nat) :
    ∀ (fuel : Nat) (l : List Nat) (span : K) (r : List Nat), l.length = n →
      forceLoop ops cs n fuel l span = some r → r.Perm (List.range n) := by
  intro fuel
  induction fuel with
  | zero => intro l span r _ h; simp [forceLoop] at h
  | succ fuel ih =>
    intro l span r hl h
    have hstep := forceStep_perm ops cs n l hl
    simp only [forceLoop] at h
    split at h
    · cases h; exact hstep
    · exact ih _ _ _ (by simpa using hstep.length_eq) h

theorem forceSeq_perm {K : Type} (ops : ForceOps K) (cs : Spec.Cnf) (n fuel : Nat) (l : List Nat)
    (h : forceSeq ops cs n fuel = some l) : l.Perm (List.range n) :=
  forceLoop_perm ops cs n fuel (List.range n) _ l (by simp) h

theorem forceOrder_wf {K : Type} (ops : ForceOps K) (cs : Spec.Cnf) (n fuel : Nat) (o : VarOrder)
    (h : forceOrder ops cs n fuel = some o) : o.WF n := by
  unfold forceOrder at h
  cases hs : forceSeq ops cs n fuel with
  | none => rw [hs] at h; simp at h
  | some l =>
    rw [hs] at h
    simp only [Option.map_some, Option.some.injEq] at h
    subst h
    exact new_wf (forceSeq_perm ops cs n fuel l hs)

/-! ## non-vacuity -/

example : (VarOrder.new [2, 0, 1]).varToPos = [1, 2, 0] := by decide
example : (VarOrder.new [2, 0, 1]).WF 3 := new_wf (by decide)
example : (VarOrder.linear 3).newLast = (⟨[0, 1, 2, 3], [0, 1, 2, 3]⟩, 3) := by decide
example : ((VarOrder.new [2, 0, 1]).newLastN 2).posToVar = [2, 0, 1, 3, 4] := by decide

/-- the CNF `(x0 ∨ x1) ∧ (x1 ∨ x2) ∧ (x2 ∨ x3) ∧ (x0 ∨ x3)` (a 4-cycle): every node has fill 1,
the first one is eliminated, then the swap-remove renumbering is visible in the sequence -/
def exCnf : Spec.Cnf :=
  [[⟨0, true⟩, ⟨1, true⟩], [⟨1, false⟩, ⟨2, true⟩], [⟨2, true⟩, ⟨3, false⟩], [⟨0, true⟩, ⟨3, true⟩]]

/-- newest edge first; the Rust's inner loop starts at `j = i`, so every variable gets a self loop -/
example : (interactionGraph exCnf 4).edges =
    [(0, 3), (3, 3), (2, 3), (2, 2), (1, 2), (1, 1), (0, 1), (0, 0)] := by decide
example : minFillSeq exCnf 4 = [0, 3, 2, 1] := by decide
example : (minFillOrder exCnf 4).varToPos = [0, 3, 2, 1] := by decide
/-- a star with centre `0`: two leaves (fill 0) go first, then the centre ties with the last leaf -/
example : minFillSeq [[⟨0, true⟩, ⟨1, true⟩], [⟨0, true⟩, ⟨2, true⟩], [⟨0, true⟩, ⟨3, true⟩]] 4
    = [1, 3, 0, 2] := by decide
example : (minFillSeq exCnf 4).Perm (List.range 4) := minFillSeq_perm _ _

example : stableSort (fun a b : Nat => decide (a ≤ b)) [3, 1, 2, 1] = [1, 1, 2, 3] := by decide
/-- stability: equal keys keep their input order -/
example : sortedLabels (fun a b : Nat => decide (a ≤ b)) [5, 1, 5, 0, 1] = [3, 1, 4, 0, 2] := by decide

/-- `ForceOps` over `Nat` (truncating arithmetic) is kernel-evaluable: FORCE terminates with a
result, so `forceSeq_perm` and `forceOrder_wf` are not vacuous -/
def natOps : ForceOps Nat :=
  { ofNat := id, zero := 0, one := 1, add := (· + ·), sub := (· - ·), div := (· / ·)
    lt := fun a b => decide (a < b), le := fun a b => decide (a ≤ b) }

example : forceSeq natOps [[⟨0, true⟩, ⟨3, true⟩], [⟨1, true⟩, ⟨3, false⟩], [⟨2, true⟩]] 4 6
    = some [0, 2, 3, 1] := by decide
example : (forceOrder natOps [[⟨0, true⟩, ⟨3, true⟩], [⟨1, true⟩, ⟨3, false⟩], [⟨2, true⟩]] 4 6).isSome
    = true := by decide

/-
`Float` is opaque to the kernel; the executable instance evaluates as follows.
#eval forceSeq floatOps exCnf 4 6                       -- some [0, 1, 2, 3]
#eval (forceOrderFloat exCnf 4).map VarOrder.pair       -- some ([0, 1, 2, 3], [0, 1, 2, 3])
#eval (forceOrderFloat [[⟨0, true⟩, ⟨3, true⟩], [⟨1, true⟩, ⟨3, false⟩], [⟨2, true⟩]] 4).map VarOrder.pair
                                                        -- some ([0, 3, 1, 2], [0, 2, 3, 1])
#eval forceOrderFloat [] 3          -- none: the Rust loop diverges on a CNF without clauses
-/

end Orders

#print axioms Orders.new_wf
#print axioms Orders.linear_wf
#print axioms Orders.newLast_wf
#print axioms Orders.newLastN_wf
#print axioms Orders.elimLoop_perm
#print axioms Orders.minFillSeq_perm
#print axioms Orders.minFillOrder_wf
#print axioms Orders.stableSort_perm
#print axioms Orders.sortedLabels_perm
#print axioms Orders.forceStep_perm
#print axioms Orders.forceSeq_perm
#print axioms Orders.forceOrder_wf
