import RsddModel.Model.SddCompile
import RsddModel.Lemmas.BddCompile
import RsddModel.Lemmas.SddSem
/-!
# Lemmas: the SDD builder meets the specification of the generic compile functions

* `sddSpec` : the record `Sdd.ops` of SDD-builder operations satisfies `Compile.OpsSpec`, for every
  lawful apply cache `A` and ite cache `I`, every vtree, both compression settings and every fuel.
  Invariant `CInv`: both caches semantically sound and holding well formed results (the invariants
  of C03); pointers: `WF` (labels in the vtree, decision primes partition, right-linear labelling);
  `VarOk v`: `v` labels a leaf of the vtree.  Hence `Compile.compileExpr_ok`,
  `Compile.compilePlan_ok`, `Compile.compileCnf_ok` apply to the SDD builder.
* `compileCnf_eq_generic` : the direct mirror `Sdd.compileCnf` of the SDD-specific `compile_cnf` /
  `compile_cnf_helper` is the generic `Compile.compileCnf` instantiated with `Sdd.ops` (the two
  Rust functions have the same shape as their ROBDD counterparts).
* `compileCnf_sem` : `Sdd.compileCnf` is correct for EVERY permutation of the clause list, and
  leaves the ite cache alone.
* `compileCnf_total` : the recursion bound of `cnfHelper` and the `lit_vec[0]` panic are never the
  reason for `none`.
-/
namespace Compile

/-- the variable condition of expressions is monotone in the predicate -/
theorem LogicalExpr.AllVars.mono {Q Q' : Nat → Prop} (hq : ∀ v, Q v → Q' v) :
    ∀ e : LogicalExpr, e.AllVars Q → e.AllVars Q'
  | .lit x _, h => hq x h
  | .not e, h => LogicalExpr.AllVars.mono hq e h
  | .and l r, h => ⟨LogicalExpr.AllVars.mono hq l h.1, LogicalExpr.AllVars.mono hq r h.2⟩
  | .or l r, h => ⟨LogicalExpr.AllVars.mono hq l h.1, LogicalExpr.AllVars.mono hq r h.2⟩
  | .iff l r, h => ⟨LogicalExpr.AllVars.mono hq l h.1, LogicalExpr.AllVars.mono hq r h.2⟩
  | .xor l r, h => ⟨LogicalExpr.AllVars.mono hq l h.1, LogicalExpr.AllVars.mono hq r h.2⟩
  | .ite g t e, h => ⟨LogicalExpr.AllVars.mono hq g h.1, LogicalExpr.AllVars.mono hq t h.2.1,
      LogicalExpr.AllVars.mono hq e h.2.2⟩

/-- the variable condition of plans is monotone in the predicate -/
theorem Plan.AllVars.mono {Q Q' : Nat → Prop} (hq : ∀ v, Q v → Q' v) :
    ∀ p : Plan, p.AllVars Q → p.AllVars Q'
  | .lit x _, h => hq x h
  | .constTrue, _ => trivial
  | .constFalse, _ => trivial
  | .not e, h => Plan.AllVars.mono hq e h
  | .and l r, h => ⟨Plan.AllVars.mono hq l h.1, Plan.AllVars.mono hq r h.2⟩
  | .or l r, h => ⟨Plan.AllVars.mono hq l h.1, Plan.AllVars.mono hq r h.2⟩
  | .iff l r, h => ⟨Plan.AllVars.mono hq l h.1, Plan.AllVars.mono hq r h.2⟩
  | .ite g t e, h => ⟨Plan.AllVars.mono hq g h.1, Plan.AllVars.mono hq t h.2.1,
      Plan.AllVars.mono hq e h.2.2⟩

end Compile

namespace Sdd
open Spec Compile

section
variable {A : CacheImpl (Ptr × Ptr)} {I : CacheImpl (Ptr × Ptr × Ptr)}

theorem withIte_some {α : Type} {i : I.σ} {o : Option (A.σ × α)} {s' : A.σ × I.σ} {r : α}
    (h : withIte i o = some (s', r)) : o = some (s'.1, r) ∧ s'.2 = i := by
  cases o with
  | none => simp [withIte] at h
  | some x =>
    obtain ⟨a, r0⟩ := x
    simp only [withIte, Option.some.injEq, Prod.mk.injEq] at h
    obtain ⟨rfl, rfl⟩ := h
    exact ⟨rfl, rfl⟩

theorem withIte_isSome {α : Type} (i : I.σ) (o : Option (A.σ × α)) :
    (withIte i o).isSome = o.isSome := by
  cases o with
  | none => rfl
  | some x => rfl

end

section
variable (A : CacheImpl (Ptr × Ptr)) (I : CacheImpl (Ptr × Ptr × Ptr))

/-- builder-state invariant for the compile theorems (the cache part of `Sdd.Inv` of C03): both
caches are semantically sound and hold only well formed results -/
def CInv (vt : VTree) (s : A.σ × I.σ) : Prop := AppInv A vt s.1 ∧ IteInv I vt s.2

theorem cinv_empty (vt : VTree) : CInv A I vt (A.empty, I.empty) :=
  ⟨appInv_empty A vt, iteInv_empty I vt⟩

variable (cfg : Config) (fuel : Nat)

/-- **the SDD builder model meets the specification of the compile functions**, for every lawful
cache pair, every vtree, both compression settings, every fuel -/
def sddSpec : OpsSpec (ops A I cfg fuel) where
  Inv := CInv A I cfg.vt
  Good := WF cfg.vt
  VarOk := fun v => cfg.vt.hasVar v = true
  den := fun p a => p.eval a
  tru_ok := ⟨WF_tru _, funext fun a => eval_tru a⟩
  fls_ok := ⟨WF_fls _, funext fun a => eval_fls a⟩
  var_ok := fun x pol hx =>
    ⟨by simpa [ops, WF] using hx, funext fun a => by simp [ops, fVar, eval_lit]⟩
  neg_ok := fun p hp => ⟨WF_neg hp, funext fun a => by simp [ops, fNot]⟩
  and_ok := fun s p q s' r hi hp hq h => by
    obtain ⟨h1, h2⟩ := withIte_some h
    obtain ⟨ha, wr, er⟩ := bAnd_ok A cfg fuel _ _ _ _ _ hi.1 hp hq h1
    exact ⟨⟨ha, h2 ▸ hi.2⟩, wr, funext fun a => er a⟩
  or_ok := fun s p q s' r hi hp hq h => by
    obtain ⟨h1, h2⟩ := withIte_some h
    obtain ⟨ha, wr, er⟩ := bOr_ok A cfg fuel hi.1 hp hq h1
    exact ⟨⟨ha, h2 ▸ hi.2⟩, wr, funext fun a => er a⟩
  iff_ok := fun s p q s' r hi hp hq h => by
    obtain ⟨ha, hi', wr, er⟩ := bIff_ok A I cfg fuel hi.1 hi.2 hp hq h
    exact ⟨⟨ha, hi'⟩, wr, funext fun a => er a⟩
  xor_ok := fun s p q s' r hi hp hq h => by
    obtain ⟨ha, hi', wr, er⟩ := bXor_ok A I cfg fuel hi.1 hi.2 hp hq h
    exact ⟨⟨ha, hi'⟩, wr, funext fun a => er a⟩
  ite_ok := fun s f g h' s' r hi hf hg hh h => by
    obtain ⟨ha, hi', wr, er⟩ := bIte_ok A I cfg fuel hi.1 hi.2 hf hg hh h
    exact ⟨⟨ha, hi'⟩, wr, funext fun a => er a⟩

/-! ## `Sdd.compileCnf` is the generic `compile_cnf` at `Sdd.ops` -/

theorem compileClause_eq (i : I.σ) : ∀ (c : Clause) (a : A.σ) (acc : Ptr),
    Compile.compileClause (ops A I cfg fuel) (a, i) acc c
      = withIte i (clauseLoop A cfg fuel a acc c)
  | [], a, acc => rfl
  | l :: ls, a, acc => by
    simp only [Compile.compileClause, clauseLoop, ops, liftA]
    cases h : bOr A cfg fuel a acc (Ptr.lit l.var l.pol) with
    | none => rfl
    | some x =>
      obtain ⟨a1, r⟩ := x
      exact compileClause_eq i ls a1 r

theorem compileClauses_eq (i : I.σ) : ∀ (cs : List Clause) (a : A.σ),
    Compile.compileClauses (ops A I cfg fuel) (a, i) cs
      = withIte i (clausesLoop A cfg fuel a cs)
  | [], a => rfl
  | [] :: _, a => rfl
  | (l :: ls) :: cs, a => by
    simp only [Compile.compileClauses, clausesLoop]
    have e := compileClause_eq A I cfg fuel i (l :: ls) a (Ptr.lit l.var l.pol)
    simp only [ops] at e ⊢
    rw [e]
    cases h : clauseLoop A cfg fuel a (Ptr.lit l.var l.pol) (l :: ls) with
    | none => rfl
    | some x =>
      obtain ⟨a1, p⟩ := x
      simp only [withIte]
      have e2 := compileClauses_eq i cs a1
      simp only [ops] at e2
      rw [e2]
      cases h2 : clausesLoop A cfg fuel a1 cs with
      | none => rfl
      | some y => rfl

theorem collapse_eq (i : I.σ) : ∀ (n : Nat) (a : A.σ) (ps : List Ptr),
    Compile.collapse (ops A I cfg fuel) n (a, i) ps = withIte i (cnfHelper A cfg fuel n a ps)
  | _, a, [] => by simp only [Compile.collapse, cnfHelper, withIte]
  | _, a, [p] => by simp only [Compile.collapse, cnfHelper, withIte]
  | 0, a, _ :: _ :: _ => by simp only [Compile.collapse, cnfHelper, withIte]
  | n + 1, a, p :: q :: ps => by
    simp only [Compile.collapse, cnfHelper]
    rw [collapse_eq i n a]
    cases h1 : cnfHelper A cfg fuel n a (List.take ((p :: q :: ps).length / 2) (p :: q :: ps)) with
    | none => rfl
    | some x =>
      obtain ⟨a1, subL⟩ := x
      simp only [withIte]
      rw [collapse_eq i n a1]
      cases h2 : cnfHelper A cfg fuel n a1
          (List.drop ((p :: q :: ps).length / 2) (p :: q :: ps)) with
      | none => rfl
      | some y =>
        obtain ⟨a2, subR⟩ := y
        simp only [withIte]
        cases subL with
        | none => cases subR <;> rfl
        | some u =>
          cases subR with
          | none => rfl
          | some w =>
            simp only [ops, liftA]
            cases h3 : bAnd A cfg fuel a2 u w with
            | none => rfl
            | some z => rfl

/-- **the SDD-specific `compile_cnf` is the generic one at `Sdd.ops`** -/
theorem compileCnf_eq_generic (s : A.σ × I.σ) (cs : Cnf) :
    compileCnf A I cfg fuel s cs = Compile.compileCnf (ops A I cfg fuel) s cs := by
  obtain ⟨a, i⟩ := s
  unfold compileCnf compileCnfA Compile.compileCnf Compile.collapseClauses
  split
  · rfl
  · split
    · rfl
    · rw [compileClauses_eq]
      cases h1 : clausesLoop A cfg fuel a cs with
      | none => rfl
      | some x =>
        obtain ⟨a1, ps⟩ := x
        simp only [withIte]
        rw [collapse_eq]
        cases h2 : cnfHelper A cfg fuel ps.length a1 ps with
        | none => rfl
        | some y =>
          obtain ⟨a2, o⟩ := y
          cases o <;> rfl

/-! ## correctness of `Sdd.compileCnf` -/

/-- the ite cache is not touched -/
theorem compileCnf_ite {s s' : A.σ × I.σ} {cs : Cnf} {r : Ptr}
    (h : compileCnf A I cfg fuel s cs = some (s', r)) : s'.2 = s.2 :=
  (withIte_some h).2

/-- **`compile_cnf` of the SDD builder is correct for every permutation of the clause list**:
from a state satisfying the invariant, if all variables of the CNF label leaves of the vtree, a
returned diagram is well formed, denotes the CNF, and the invariant holds again -/
theorem compileCnf_sem {cs cs' : Cnf} (hperm : List.Perm cs cs') {s s' : A.σ × I.σ} {r : Ptr}
    (hi : CInv A I cfg.vt s) (hv : ∀ c ∈ cs, ∀ l ∈ c, cfg.vt.hasVar l.var = true)
    (h : compileCnf A I cfg fuel s cs' = some (s', r)) :
    CInv A I cfg.vt s' ∧ WF cfg.vt r ∧ (fun a => r.eval a) = cnfFn cs := by
  rw [compileCnf_eq_generic] at h
  exact compileCnf_ok (sddSpec A I cfg fuel) hperm hi hv h

/-- the recursion bound of `cnfHelper` and the `lit_vec[0]` panic are never the reason for
`none`: if `and` always returns (enough fuel), so does `compile_cnf` -/
theorem compileCnf_total (hand : ∀ a p q, (bAnd A cfg fuel a p q).isSome = true)
    (s : A.σ × I.σ) (cs : Cnf) : (compileCnf A I cfg fuel s cs).isSome = true := by
  rw [compileCnf_eq_generic]
  apply Compile.compileCnf_total
  · intro s p q
    simp only [ops, liftA, withIte_isSome]; exact hand _ _ _
  · intro s p q
    simp only [ops, liftA, withIte_isSome, bOr, orF]
    have := hand s.1 p.neg q.neg
    cases h : bAnd A cfg fuel s.1 p.neg q.neg with
    | none => rw [h] at this; cases this
    | some x => rfl

end

/-- the `std` permutation is a permutation -/
theorem sortClausesSdd_perm (vt : VTree) (cs : List Clause) :
    List.Perm cs (sortClausesSdd vt cs) :=
  Bdd.sortClauses_perm (varIdx vt) cs

end Sdd
