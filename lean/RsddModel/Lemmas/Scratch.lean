import RsddModel.Model.Scratch
/-!
# Lemmas for C10: the scratch memo is transparent and is cleaned up

* `foldDag_spec`: the memoised pass returns the value of the un-memoised fold on the unfolded
  tree, leaves every reachable cell occupied and touches no other cell;
* `dfs_spec`: the two short-circuiting depth-first walks (`clear_scratch`, `count_h`) as one
  generic walk, characterised exactly under the closure condition that makes the short-circuit
  sound;
* `fold_spec`, `bddFold_spec`, `countNodes_spec`, `runOpt_spec`: the public calls.
-/
namespace Scratch
open Bdd Spec

/-! ## references -/

@[simp] theorem Ref.neg_neg (r : Ref) : r.neg.neg = r := by cases r <;> rfl
@[simp] theorem Ref.idx?_neg (r : Ref) : r.neg.idx? = r.idx? := by cases r <;> rfl
theorem Ref.leafPtr_neg (r : Ref) : r.neg.leafPtr = r.leafPtr.neg := by cases r <;> rfl

theorem Ref.eq_of_idx? {r : Ref} {i : Nat} (h : r.idx? = some i) :
    r = (if r.isNeg then .compl i else .reg i) := by
  cases r <;> simp_all [Ref.idx?, Ref.isNeg]

theorem Ref.isNeg_neg {r : Ref} {i : Nat} (h : r.idx? = some i) : r.neg.isNeg = !r.isNeg := by
  cases r <;> simp_all [Ref.idx?, Ref.isNeg, Ref.neg]

/-! ## `unfold` and `reaches` -/

theorem unfold_cons_eq (n : Node) (rest : Store) {r : Ref} (h : r.idx? = some rest.length) :
    unfold (n :: rest) r = .node r.isNeg n.var (unfold rest n.lo) (unfold rest n.hi) := by
  simp [unfold, h]

theorem unfold_cons_ne (n : Node) (rest : Store) {r : Ref} {i : Nat} (h : r.idx? = some i)
    (hi : i ≠ rest.length) : unfold (n :: rest) r = unfold rest r := by
  simp [unfold, h, hi]

theorem reaches_cons_eq (n : Node) (rest : Store) {r : Ref} (h : r.idx? = some rest.length) (j : Nat) :
    reaches (n :: rest) r j = (j == rest.length || reaches rest n.lo j || reaches rest n.hi j) := by
  simp [reaches, h]

theorem reaches_cons_ne (n : Node) (rest : Store) {r : Ref} {i : Nat} (h : r.idx? = some i)
    (hi : i ≠ rest.length) (j : Nat) : reaches (n :: rest) r j = reaches rest r j := by
  simp [reaches, h, hi]

theorem reaches_none (s : Store) {r : Ref} (h : r.idx? = none) (j : Nat) : reaches s r j = false := by
  cases s <;> simp [reaches, h]

/-- reachability depends on the node only, not on the polarity of the reference -/
theorem reaches_congr {r r' : Ref} (h : r.idx? = r'.idx?) : ∀ (s : Store) (j : Nat),
    reaches s r j = reaches s r' j
  | [], _ => rfl
  | n :: rest, j => by
    simp only [reaches, h]
    cases h' : r'.idx? with
    | none => rfl
    | some i =>
      simp only
      split
      · rfl
      · exact reaches_congr h rest j

@[simp] theorem reaches_neg (s : Store) (r : Ref) (j : Nat) : reaches s r.neg j = reaches s r j :=
  reaches_congr (Ref.idx?_neg r) s j

theorem reaches_lt : ∀ (s : Store) (r : Ref) (j : Nat), reaches s r j = true → j < s.length
  | [], _, _, h => by simp [reaches] at h
  | n :: rest, r, j, h => by
    simp only [reaches] at h
    cases h' : r.idx? with
    | none => simp [h'] at h
    | some i =>
      simp only [h'] at h
      split at h
      · simp only [Bool.or_eq_true, beq_iff_eq] at h
        rcases h with (h | h) | h
        · subst h; simp_all
        · have := reaches_lt rest _ _ h; simp; omega
        · have := reaches_lt rest _ _ h; simp; omega
      · have := reaches_lt rest _ _ h; simp; omega

theorem reaches_self (n : Node) (rest : Store) {r : Ref} (h : r.idx? = some rest.length) :
    reaches (n :: rest) r rest.length = true := by simp [reaches_cons_eq n rest h]

/-- reachability is transitive -/
theorem reaches_trans : ∀ (s : Store) (r : Ref) (j k : Nat),
    reaches s r j = true → reaches s (.reg j) k = true → reaches s r k = true
  | [], _, _, _, h, _ => by simp [reaches] at h
  | n :: rest, r, j, k, h1, h2 => by
    cases h' : r.idx? with
    | none => simp [reaches_none _ h'] at h1
    | some i =>
      by_cases hi : i = rest.length
      · subst hi
        rw [reaches_cons_eq n rest h'] at h1 ⊢
        simp only [Bool.or_eq_true, beq_iff_eq] at h1 ⊢
        rcases h1 with (h1 | h1) | h1
        · subst h1
          rw [reaches_cons_eq n rest (r := .reg rest.length) rfl] at h2
          simpa using h2
        · have hj := reaches_lt _ _ _ h1
          rw [reaches_cons_ne n rest (r := .reg j) rfl (by omega)] at h2
          exact Or.inl (Or.inr (reaches_trans rest _ j k h1 h2))
        · have hj := reaches_lt _ _ _ h1
          rw [reaches_cons_ne n rest (r := .reg j) rfl (by omega)] at h2
          exact Or.inr (reaches_trans rest _ j k h1 h2)
      · rw [reaches_cons_ne n rest h' hi] at h1 ⊢
        have hj := reaches_lt _ _ _ h1
        rw [reaches_cons_ne n rest (r := .reg j) rfl (by omega)] at h2
        exact reaches_trans rest r j k h1 h2

theorem unfold_neg : ∀ (s : Store) (r : Ref), unfold s r.neg = (unfold s r).neg
  | [], r => by simp [unfold, Ref.leafPtr_neg]
  | n :: rest, r => by
    cases h : r.idx? with
    | none => cases r <;> simp_all [unfold, Ref.idx?, Ref.neg, Ref.leafPtr, Ptr.neg]
    | some i =>
      have h' : r.neg.idx? = some i := by simp [h]
      by_cases hi : i = rest.length
      · subst hi
        rw [unfold_cons_eq n rest h, unfold_cons_eq n rest h', Ref.isNeg_neg h]; rfl
      · rw [unfold_cons_ne n rest h hi, unfold_cons_ne n rest h' hi]; exact unfold_neg rest r

/-! ## the tree fold -/

variable {V : Type}

theorem treeFold_neg (A : Alg V) (p : Ptr) (b : Bool) : treeFold A p.neg b = treeFold A p (!b) := by
  cases p with
  | tru => cases b <;> rfl
  | fls => cases b <;> rfl
  | node c v lo hi => cases b <;> cases c <;> rfl

/-- the value the reference denotes: the un-memoised fold of its tree -/
def val (A : Alg V) (s : Store) (r : Ref) : V := treeFold A (unfold s r) false

theorem val_nil (A : Alg V) (r : Ref) : val A [] r = A.leaf r := by cases r <;> rfl

theorem val_none (A : Alg V) (s : Store) {r : Ref} (h : r.idx? = none) : val A s r = A.leaf r := by
  cases r <;> cases s <;> simp_all [val, unfold, Ref.idx?, Ref.leafPtr, treeFold, Alg.leaf]

theorem val_cons_ne (A : Alg V) (n : Node) (rest : Store) {r : Ref} {i : Nat} (h : r.idx? = some i)
    (hi : i ≠ rest.length) : val A (n :: rest) r = val A rest r := by
  simp [val, unfold_cons_ne n rest h hi]

theorem val_cons_eq (A : Alg V) (n : Node) (rest : Store) {r : Ref} (h : r.idx? = some rest.length) :
    val A (n :: rest) r =
      A.node n.var (val A rest (if r.isNeg then n.lo.neg else n.lo))
        (val A rest (if r.isNeg then n.hi.neg else n.hi)) := by
  simp only [val, unfold_cons_eq n rest h, treeFold]
  cases r.isNeg <;> simp [unfold_neg, treeFold_neg]

/-! ## cells -/

set_option linter.unusedSectionVars false
section cells
variable {Tag : Type} [DecidableEq Tag] {U : Tag → Type}

@[simp] theorem Cell.asPair_pair_self (t : Tag) (c r : Option (U t)) :
    (Cell.pair t c r : Cell U).asPair t = some (c, r) := by simp [Cell.asPair]
@[simp] theorem Cell.asPair_empty (t : Tag) : (Cell.empty : Cell U).asPair t = none := rfl
@[simp] theorem Cell.isSome_pair (t : Tag) (c r : Option (U t)) : (Cell.pair t c r : Cell U).isSome = true := rfl
@[simp] theorem Cell.isSome_empty : (Cell.empty : Cell U).isSome = false := rfl
theorem Cell.isSome_eq_false {c : Cell U} : c.isSome = false ↔ c = .empty := by
  cases c <;> simp [Cell.isSome]

@[simp] theorem Scr.set_same (σ : Scr U) (i : Nat) (c : Cell U) : σ.set i c i = c := by simp [Scr.set]
theorem Scr.set_other (σ : Scr U) {i j : Nat} (c : Cell U) (h : j ≠ i) : σ.set i c j = σ j := by
  simp [Scr.set, h]

/-! ## `probeFold` -/

theorem probeFold_hit {neg : Bool} {o : Option (Option V × Option V)} {v : V}
    (h : probeFold neg o = .hit v) : ∃ a b, o = some (a, b) ∧ (if neg then a else b) = some v := by
  rcases o with _ | ⟨_ | a, _ | b⟩ <;> cases neg <;> simp_all [probeFold]

theorem probeFold_miss {neg : Bool} {o : Option (Option V × Option V)} {cached : Option V}
    (h : probeFold neg o = .miss cached) :
    cached = none ∨ ∃ a b, o = some (a, b) ∧ cached = (if neg then b else a) := by
  rcases o with _ | ⟨_ | a, _ | b⟩ <;> cases neg <;> simp_all [probeFold]

/-! ## the memo invariant -/

/-- a cell of node `i` that reads as a pair of this traversal's type holds correct values -/
def CellOK (t : Tag) (A : Alg (U t)) (s : Store) (i : Nat) (c : Cell U) : Prop :=
  ∀ a b, c.asPair t = some (a, b) →
    (∀ v, a = some v → v = val A s (.compl i)) ∧ (∀ v, b = some v → v = val A s (.reg i))

theorem cellOK_cons {t : Tag} {A : Alg (U t)} (n : Node) (rest : Store) {j : Nat} (hj : j ≠ rest.length)
    (c : Cell U) : CellOK t A (n :: rest) j c ↔ CellOK t A rest j c := by
  simp only [CellOK, val_cons_ne A n rest (r := .compl j) rfl hj, val_cons_ne A n rest (r := .reg j) rfl hj]

/-- What the memoised pass needs of the incoming state on the nodes reachable from `r`:
a cell that reads as a pair of this result type is correct and sits above occupied cells only.
(Every other content — empty, a `usize`, a pair of another type — is acceptable.) -/
def PreOK (t : Tag) (A : Alg (U t)) (s : Store) (σ : Scr U) (r : Ref) : Prop :=
  ∀ j, reaches s r j = true → CellOK t A s j (σ j) ∧
    ((σ j).asPair t ≠ none → ∀ k, reaches s (.reg j) k = true → (σ k).isSome = true)

theorem preOK_of_noPair {t : Tag} {A : Alg (U t)} {s : Store} {σ : Scr U} {r : Ref}
    (h : ∀ j, reaches s r j = true → (σ j).asPair t = none) : PreOK t A s σ r := by
  intro j hj
  refine ⟨?_, fun h' => absurd (h j hj) h'⟩
  intro a b hab; rw [h j hj] at hab; cases hab

theorem preOK_clear {t : Tag} {A : Alg (U t)} {s : Store} {r : Ref} : PreOK t A s (Scr.clear (U := U)) r :=
  preOK_of_noPair (fun _ _ => rfl)

/-- restriction of the precondition to a child, in the smaller store -/
theorem preOK_child {t : Tag} {A : Alg (U t)} {n : Node} {rest : Store} {σ : Scr U} {r x : Ref}
    (hx : ∀ j, reaches rest x j = true → reaches (n :: rest) r j = true)
    (h : PreOK t A (n :: rest) σ r) : PreOK t A rest σ x := by
  intro j hj
  have hlt := reaches_lt _ _ _ hj
  have hne : j ≠ rest.length := by omega
  obtain ⟨h1, h2⟩ := h j (hx j hj)
  refine ⟨(cellOK_cons n rest hne _).1 h1, fun h' k hk => h2 h' k ?_⟩
  rw [reaches_cons_ne n rest (r := .reg j) rfl hne]; exact hk

/-- `bottomup_pass_h` is transparent: value of the tree fold; afterwards every reachable cell
is correct *and occupied*; no other cell is touched. -/
theorem foldDag_spec (t : Tag) (A : Alg (U t)) : ∀ (s : Store) (r : Ref) (σ : Scr U),
    PreOK t A s σ r →
    (foldDag t A s r σ).1 = val A s r ∧
    (∀ j, reaches s r j = true →
      CellOK t A s j ((foldDag t A s r σ).2 j) ∧ ((foldDag t A s r σ).2 j).isSome = true) ∧
    (∀ j, reaches s r j = false → (foldDag t A s r σ).2 j = σ j)
  | [], r, σ, _ => by
    simp [foldDag, val_nil, reaches]
  | n :: rest, r, σ, hpre => by
    cases h : r.idx? with
    | none =>
      simp only [foldDag, h, val_none A _ h, reaches_none _ h]
      simp
    | some i =>
      by_cases hi : i = rest.length
      · subst hi
        have hself := reaches_self n rest h
        obtain ⟨hok, hclosed⟩ := hpre _ hself
        simp only [foldDag, h, if_true]
        cases hp : probeFold r.isNeg ((σ rest.length).asPair t) with
        | hit v =>
          simp only
          obtain ⟨a, b, hab, hv⟩ := probeFold_hit hp
          obtain ⟨hca, hcb⟩ := hok a b hab
          refine ⟨?_, ?_, by simp⟩
          · rw [Ref.eq_of_idx? h]
            cases hneg : r.isNeg <;> simp only [hneg] at hv ⊢
            · exact hcb v hv
            · exact hca v hv
          · intro j hj
            refine ⟨(hpre j hj).1, hclosed (by simp [hab]) j ?_⟩
            rw [← hj]; exact reaches_congr (by rw [h]; rfl) _ _
        | miss cached =>
          simp only
          -- the two children, as references into `rest`
          have hlo : ∀ j, reaches rest (if r.isNeg then n.lo.neg else n.lo) j = reaches rest n.lo j := by
            intro j; split <;> simp
          have hhi : ∀ j, reaches rest (if r.isNeg then n.hi.neg else n.hi) j = reaches rest n.hi j := by
            intro j; split <;> simp
          have hreach : ∀ j, reaches (n :: rest) r j =
              (j == rest.length || reaches rest n.lo j || reaches rest n.hi j) := reaches_cons_eq n rest h
          have pre1 : PreOK t A rest σ (if r.isNeg then n.lo.neg else n.lo) :=
            preOK_child (fun j hj => by rw [hreach]; rw [hlo] at hj; simp [hj]) hpre
          obtain ⟨v1, p1, f1⟩ := foldDag_spec t A rest _ σ pre1
          generalize foldDag t A rest (if r.isNeg then n.lo.neg else n.lo) σ = ra at v1 p1 f1
          have pre2 : PreOK t A rest ra.2 (if r.isNeg then n.hi.neg else n.hi) := by
            intro j hj
            have hjlt := reaches_lt _ _ _ hj
            cases hjl : reaches rest (if r.isNeg then n.lo.neg else n.lo) j with
            | true =>
              refine ⟨(p1 j hjl).1, fun _ k hk => (p1 k ?_).2⟩
              exact reaches_trans rest _ j k hjl hk
            | false =>
              rw [f1 j hjl]
              have hj' : reaches (n :: rest) r j = true := by rw [hreach]; rw [hhi] at hj; simp [hj]
              obtain ⟨h1, h2⟩ := hpre j hj'
              refine ⟨(cellOK_cons n rest (by omega) _).1 h1, fun h' k hk => ?_⟩
              have hk' : (σ k).isSome = true := h2 h' k (by
                rw [reaches_cons_ne n rest (r := .reg j) rfl (by omega)]; exact hk)
              cases hkl : reaches rest (if r.isNeg then n.lo.neg else n.lo) k with
              | true => exact (p1 k hkl).2
              | false => rw [f1 k hkl]; exact hk'
          obtain ⟨v2, p2, f2⟩ := foldDag_spec t A rest _ ra.2 pre2
          generalize foldDag t A rest (if r.isNeg then n.hi.neg else n.hi) ra.2 = rb at v2 p2 f2
          refine ⟨?_, ?_, ?_⟩
          · rw [val_cons_eq A n rest h, v1, v2]
          · intro j hj
            by_cases hji : j = rest.length
            · subst hji
              simp only [Scr.set_same, Cell.isSome_pair, and_true]
              intro a b hab
              simp only [Cell.asPair_pair_self, Option.some.injEq, Prod.mk.injEq] at hab
              have hval : A.node n.var ra.1 rb.1 = val A (n :: rest) r := by
                rw [val_cons_eq A n rest h, v1, v2]
              have hcached : ∀ w, cached = some w →
                  w = val A (n :: rest) (if r.isNeg then .reg rest.length else .compl rest.length) := by
                intro w hw
                rcases probeFold_miss hp with hnone | ⟨a0, b0, hab0, hc⟩
                · rw [hnone] at hw; cases hw
                · obtain ⟨hca, hcb⟩ := hok a0 b0 hab0
                  cases hneg : r.isNeg <;> simp only [hneg] at hc ⊢
                  · exact hca w (by simp_all)
                  · exact hcb w (by simp_all)
              rw [Ref.eq_of_idx? h] at hval
              obtain ⟨ha, hb⟩ := hab
              cases hneg : r.isNeg <;> simp only [hneg, storeFold] at ha hb hval hcached
              · subst ha hb
                exact ⟨fun v hv => hcached v hv, fun v hv => by cases hv; exact hval⟩
              · subst ha hb
                exact ⟨fun v hv => by cases hv; exact hval, fun v hv => hcached v hv⟩
            · rw [Scr.set_other _ _ hji]
              rw [hreach] at hj
              have hj2 : reaches rest n.lo j = true ∨ reaches rest n.hi j = true := by
                simp only [Bool.or_eq_true, beq_iff_eq] at hj
                rcases hj with (hj | hj) | hj
                · exact absurd hj hji
                · exact Or.inl hj
                · exact Or.inr hj
              rw [cellOK_cons n rest hji]
              cases hjh : reaches rest (if r.isNeg then n.hi.neg else n.hi) j with
              | true => exact p2 j hjh
              | false =>
                rw [f2 j hjh]
                rw [hhi] at hjh
                rcases hj2 with hj2 | hj2
                · exact p1 j (by rw [hlo]; exact hj2)
                · rw [hj2] at hjh; cases hjh
          · intro j hj
            rw [hreach] at hj
            simp only [Bool.or_eq_false_iff, beq_eq_false_iff_ne, ne_eq] at hj
            obtain ⟨⟨hji, hjl⟩, hjh⟩ := hj
            rw [Scr.set_other _ _ hji, f2 j (by rw [hhi]; exact hjh), f1 j (by rw [hlo]; exact hjl)]
      · simp only [foldDag, h, hi, if_false]
        have pre' : PreOK t A rest σ r := preOK_child (fun j hj => by
          rw [reaches_cons_ne n rest h hi]; exact hj) hpre
        obtain ⟨v1, p1, f1⟩ := foldDag_spec t A rest r σ pre'
        refine ⟨by rw [v1, val_cons_ne A n rest h hi], ?_, ?_⟩
        · intro j hj
          rw [reaches_cons_ne n rest h hi] at hj
          have := reaches_lt _ _ _ hj
          rw [cellOK_cons n rest (by omega)]
          exact p1 j hj
        · intro j hj
          rw [reaches_cons_ne n rest h hi] at hj
          exact f1 j hj

/-! ## the short-circuiting walks -/

/-- `clear_scratch` and `count_h` are the same walk: enter a node iff `visit cell`, overwrite
the cell with `mark`, then both children through the raw edges. -/
def dfs (visit : Cell U → Bool) (mark : Cell U) : Store → Ref → Scr U × Nat → Scr U × Nat
  | [], _, st => st
  | n :: rest, r, st =>
    match r.idx? with
    | none => st
    | some i =>
      if i = rest.length then
        if visit (st.1 i) then
          dfs visit mark rest n.hi (dfs visit mark rest n.lo (st.1.set i mark, st.2 + 1))
        else st
      else dfs visit mark rest r st

theorem clearScratch_eq_dfs : ∀ (s : Store) (r : Ref) (σ : Scr U) (c : Nat),
    clearScratch s r σ = (dfs Cell.isSome .empty s r (σ, c)).1
  | [], _, _, _ => rfl
  | n :: rest, r, σ, c => by
    simp only [clearScratch, dfs]
    cases r.idx? with
    | none => rfl
    | some i =>
      simp only
      split
      · split
        · rw [clearScratch_eq_dfs rest n.hi _ (dfs Cell.isSome .empty rest n.lo (σ.set i .empty, c + 1)).2,
            clearScratch_eq_dfs rest n.lo _ (c + 1)]
        · rfl
      · exact clearScratch_eq_dfs rest r σ c

theorem countH_eq_dfs : ∀ (s : Store) (r : Ref) (st : Scr U × Nat),
    countH s r st = dfs (fun c => c.asCount.isNone) (.count 0) s r st
  | [], _, _ => rfl
  | n :: rest, r, st => by
    simp only [countH, dfs]
    cases r.idx? with
    | none => rfl
    | some i =>
      simp only
      split
      · rw [← countH_eq_dfs rest n.lo, ← countH_eq_dfs rest n.hi]
        split
        · rename_i hh; simp [hh]
        · rename_i hh; simp [hh]
      · exact countH_eq_dfs rest r st

theorem countP_add3 {p q1 q2 q3 : Nat → Bool} : ∀ (l : List Nat),
    (∀ j ∈ l, (p j).toNat = (q1 j).toNat + (q2 j).toNat + (q3 j).toNat) →
    l.countP p = l.countP q1 + l.countP q2 + l.countP q3
  | [], _ => rfl
  | x :: l, h => by
    have ih := countP_add3 l (fun j hj => h j (List.mem_cons_of_mem _ hj))
    have hx := h x (List.mem_cons_self ..)
    simp only [List.countP_cons, ih]
    cases hp : p x <;> cases h1 : q1 x <;> cases h2 : q2 x <;> cases h3 : q3 x <;>
      simp_all <;> omega

theorem countP_beq_range (i : Nat) : ∀ N, (List.range N).countP (fun j => j == i) = if i < N then 1 else 0
  | 0 => by simp
  | N + 1 => by
    rw [List.range_succ, List.countP_append, countP_beq_range i N]
    by_cases h1 : i < N
    · have : ¬ N = i := by omega
      simp [h1, this]; omega
    · by_cases h2 : N = i
      · subst h2; simp
      · have : ¬ i < N + 1 := by omega
        simp [h1, h2, this]

/-- The walk, exactly: under the closure condition ("below a node that is not entered nothing
would be entered"), it overwrites precisely the reachable cells that satisfy `visit`, and counts
them. -/
theorem dfs_spec (visit : Cell U → Bool) (mark : Cell U) (hm : visit mark = false) (N : Nat) :
    ∀ (s : Store) (r : Ref) (σ : Scr U) (c : Nat), s.length ≤ N →
    (∀ j, reaches s r j = true → visit (σ j) = false →
      ∀ k, reaches s (.reg j) k = true → visit (σ k) = false) →
    dfs visit mark s r (σ, c) =
      (fun j => if reaches s r j && visit (σ j) then mark else σ j,
       c + (List.range N).countP (fun j => reaches s r j && visit (σ j)))
  | [], r, σ, c, _, _ => by simp [dfs, reaches]
  | n :: rest, r, σ, c, hN, hcl => by
    simp only [List.length_cons] at hN
    cases h : r.idx? with
    | none => simp [dfs, h, reaches_none _ h]
    | some i =>
      by_cases hi : i = rest.length
      · subst hi
        have hreach : ∀ j, reaches (n :: rest) r j =
            (j == rest.length || reaches rest n.lo j || reaches rest n.hi j) := reaches_cons_eq n rest h
        simp only [dfs, h, if_true]
        cases hv : visit (σ rest.length) with
        | false =>
          have hall : ∀ j, (reaches (n :: rest) r j && visit (σ j)) = false := by
            intro j
            cases hj : reaches (n :: rest) r j with
            | false => rfl
            | true =>
              simp only [Bool.true_and]
              refine hcl _ (reaches_self n rest h) hv j ?_
              rw [← hj]; exact reaches_congr (by rw [h]; rfl) _ _
          simp [hall]
        | true =>
          simp only [if_true]
          -- first child
          have cl1 : ∀ j, reaches rest n.lo j = true → visit ((σ.set rest.length mark) j) = false →
              ∀ k, reaches rest (.reg j) k = true → visit ((σ.set rest.length mark) k) = false := by
            intro j hj hvj k hk
            have hjl := reaches_lt _ _ _ hj
            have hkl := reaches_lt _ _ _ hk
            rw [Scr.set_other _ _ (by omega)] at hvj ⊢
            refine hcl j (by rw [hreach]; simp [hj]) hvj k ?_
            rw [reaches_cons_ne n rest (r := .reg j) rfl (by omega)]; exact hk
          rw [dfs_spec visit mark hm N rest n.lo _ (c + 1) (by omega) cl1]
          -- second child
          have cl2 : ∀ j, reaches rest n.hi j = true →
              visit ((fun j => if reaches rest n.lo j && visit ((σ.set rest.length mark) j) then mark
                else (σ.set rest.length mark) j) j) = false →
              ∀ k, reaches rest (.reg j) k = true →
              visit ((fun j => if reaches rest n.lo j && visit ((σ.set rest.length mark) j) then mark
                else (σ.set rest.length mark) j) k) = false := by
            intro j hj hvj k hk
            have hjl := reaches_lt _ _ _ hj
            have hkl := reaches_lt _ _ _ hk
            simp only [Scr.set_other σ mark (show j ≠ rest.length by omega),
              Scr.set_other σ mark (show k ≠ rest.length by omega)] at hvj ⊢
            cases hkv : visit (σ k) with
            | false => split <;> simp [hm, hkv]
            | true =>
              cases hkr : reaches rest n.lo k with
              | true => simp [hm]
              | false =>
                exfalso
                cases hjr : reaches rest n.lo j with
                | true =>
                  have := reaches_trans rest n.lo j k hjr hk
                  rw [hkr] at this; cases this
                | false =>
                  simp only [hjr, Bool.false_and] at hvj
                  have := hcl j (by rw [hreach]; simp [hj]) (by simpa using hvj) k (by
                    rw [reaches_cons_ne n rest (r := .reg j) rfl (by omega)]; exact hk)
                  rw [hkv] at this; cases this
          rw [dfs_spec visit mark hm N rest n.hi _ _ (by omega) cl2]
          refine Prod.ext ?_ ?_
          · funext j
            simp only [hreach]
            by_cases hji : j = rest.length
            · subst hji
              have h1 : reaches rest n.lo rest.length = false := by
                cases hh : reaches rest n.lo rest.length with
                | false => rfl
                | true => have := reaches_lt _ _ _ hh; omega
              have h2 : reaches rest n.hi rest.length = false := by
                cases hh : reaches rest n.hi rest.length with
                | false => rfl
                | true => have := reaches_lt _ _ _ hh; omega
              simp [h1, h2, hv]
            · simp only [Scr.set_other σ mark hji]
              have : (j == rest.length) = false := by simp [hji]
              rw [this]
              cases reaches rest n.lo j <;> cases reaches rest n.hi j <;> cases hvj : visit (σ j) <;>
                simp [hm, hvj]
          · simp only
            rw [countP_add3 (p := fun j => reaches (n :: rest) r j && visit (σ j))
              (q1 := fun j => j == rest.length)
              (q2 := fun j => reaches rest n.lo j && visit ((σ.set rest.length mark) j))
              (q3 := fun j => reaches rest n.hi j && visit (
                if reaches rest n.lo j && visit ((σ.set rest.length mark) j) then mark
                else (σ.set rest.length mark) j)) (List.range N)]
            · rw [countP_beq_range, if_pos (by omega)]; omega
            · intro j _
              simp only [hreach]
              by_cases hji : j = rest.length
              · subst hji
                have h1 : reaches rest n.lo rest.length = false := by
                  cases hh : reaches rest n.lo rest.length with
                  | false => rfl
                  | true => have := reaches_lt _ _ _ hh; omega
                have h2 : reaches rest n.hi rest.length = false := by
                  cases hh : reaches rest n.hi rest.length with
                  | false => rfl
                  | true => have := reaches_lt _ _ _ hh; omega
                simp [h1, h2, hv]
              · simp only [Scr.set_other σ mark hji]
                have : (j == rest.length) = false := by simp [hji]
                rw [this]
                cases reaches rest n.lo j <;> cases reaches rest n.hi j <;> cases hvj : visit (σ j) <;>
                  simp [hm, hvj]
      · simp only [dfs, h, hi, if_false]
        rw [dfs_spec visit mark hm N rest r σ c (by omega) (by
          intro j hj hvj k hk
          have hjl := reaches_lt _ _ _ hj
          refine hcl j (by rw [reaches_cons_ne n rest h hi]; exact hj) hvj k ?_
          rw [reaches_cons_ne n rest (r := .reg j) rfl (by omega)]; exact hk)]
        simp only [reaches_cons_ne n rest h hi]

/-! ## the public calls -/

/-- the cells of the nodes reachable from `r` are all empty -/
def ClearOn (s : Store) (r : Ref) (σ : Scr U) : Prop := ∀ j, reaches s r j = true → σ j = .empty

theorem emptied_of_clearOn {s : Store} {r : Ref} {σ : Scr U} (h : ClearOn s r σ) :
    (fun j => if reaches s r j then Cell.empty else σ j) = σ := by
  funext j
  cases hj : reaches s r j with
  | true => simp [h j hj]
  | false => simp

/-- `clear_scratch` with its short-circuit: if below every *empty* reachable cell everything is
empty already, exactly the reachable cells are emptied. -/
theorem clearScratch_spec (s : Store) (r : Ref) (σ : Scr U)
    (hcl : ∀ j, reaches s r j = true → (σ j).isSome = false →
      ∀ k, reaches s (.reg j) k = true → (σ k).isSome = false) :
    clearScratch s r σ = fun j => if reaches s r j then .empty else σ j := by
  rw [clearScratch_eq_dfs s r σ 0, dfs_spec Cell.isSome .empty rfl s.length s r σ 0 (Nat.le_refl _) hcl]
  funext j
  cases hj : reaches s r j with
  | false => simp [hj]
  | true =>
    cases hs : (σ j).isSome with
    | true => simp [hj, hs]
    | false => simp [hj, Cell.isSome_eq_false.1 hs]

/-- key step of the clean-up: after a pass every reachable cell is occupied, so the
short-circuit never cuts off a written cell -/
theorem clearScratch_of_occupied (s : Store) (r : Ref) (σ : Scr U)
    (h : ∀ j, reaches s r j = true → (σ j).isSome = true) :
    clearScratch s r σ = fun j => if reaches s r j then .empty else σ j :=
  clearScratch_spec s r σ (fun j hj hn => by rw [h j hj] at hn; cases hn)

theorem clearScratch_clearOn (s : Store) (r : Ref) (σ : Scr U) (h : ClearOn s r σ) :
    clearScratch s r σ = σ := by
  rw [clearScratch_spec s r σ (fun j _ _ k hk => by
    have hjk : reaches s r k = true := reaches_trans s r j k ‹_› hk
    simp [h k hjk]), emptied_of_clearOn h]

@[simp] theorem clearScratch_clear (s : Store) (r : Ref) : clearScratch s r (Scr.clear (U := U)) = Scr.clear :=
  clearScratch_clearOn s r _ (fun _ _ => rfl)

/-- `DDNNFPtr::fold`: the answer is the un-memoised fold of the tree, and afterwards exactly the
reachable cells have been emptied. -/
theorem fold_spec (t : Tag) (A : Alg (U t)) (s : Store) (r : Ref) (σ : Scr U) (h : PreOK t A s σ r) :
    fold t A s r σ = (val A s r, fun j => if reaches s r j then .empty else σ j) := by
  obtain ⟨hv, hp, hf⟩ := foldDag_spec t A s r σ h
  simp only [fold, hv]
  rw [clearScratch_of_occupied s r _ (fun j hj => (hp j hj).2)]
  congr 1
  funext j
  cases hj : reaches s r j with
  | true => simp
  | false => simp [hf j hj]

theorem fold_clearOn (t : Tag) (A : Alg (U t)) (s : Store) (r : Ref) (σ : Scr U) (h : ClearOn s r σ) :
    fold t A s r σ = (val A s r, σ) := by
  rw [fold_spec t A s r σ (preOK_of_noPair (fun j hj => by rw [h j hj]; rfl)), emptied_of_clearOn h]

/-- `bdd_fold_h` is `bottomup_pass_h` for the algebra `(high_v, low_v, f)`: the two `match`es on
the cached pair and the two ways of writing it back agree -/
theorem bddFoldDag_eq (t : Tag) (f : Nat → U t → U t → U t) (lowV highV : U t) :
    ∀ (s : Store) (r : Ref) (σ : Scr U),
    bddFoldDag t f lowV highV s r σ = foldDag t (bddAlg f lowV highV) s r σ
  | [], _, _ => rfl
  | n :: rest, r, σ => by
    simp only [bddFoldDag, foldDag]
    cases r.idx? with
    | none => rfl
    | some i =>
      simp only
      split
      · simp only [bddFoldDag_eq t f lowV highV rest]
        generalize (σ i).asPair t = o
        rcases o with _ | ⟨_ | a, _ | b⟩ <;> cases r.isNeg <;>
          simp [probeBdd, probeFold, storeFold, bddAlg]
      · exact bddFoldDag_eq t f lowV highV rest r σ

theorem bddFold_spec (t : Tag) (f : Nat → U t → U t → U t) (lowV highV : U t) (s : Store) (r : Ref)
    (σ : Scr U) (h : PreOK t (bddAlg f lowV highV) s σ r) :
    bddFold t f lowV highV s r σ =
      (val (bddAlg f lowV highV) s r, fun j => if reaches s r j then .empty else σ j) := by
  have := fold_spec t (bddAlg f lowV highV) s r σ h
  simpa only [bddFold, fold, bddFoldDag_eq] using this

theorem bddFold_clearOn (t : Tag) (f : Nat → U t → U t → U t) (lowV highV : U t) (s : Store) (r : Ref)
    (σ : Scr U) (h : ClearOn s r σ) :
    bddFold t f lowV highV s r σ = (val (bddAlg f lowV highV) s r, σ) := by
  rw [bddFold_spec t f lowV highV s r σ (preOK_of_noPair (fun j hj => by rw [h j hj]; rfl)),
    emptied_of_clearOn h]

/-- `marginal_map`/`meu`/`bb`: every pass sees empty cells and leaves empty cells -/
theorem runOpt_clearOn (t : Tag) (s : Store) (r : Ref) : ∀ (p : OptProg (U t)) (σ : Scr U),
    ClearOn s r σ → runOpt t s r p σ = (optSpec (unfold s r) p, σ)
  | .done v, σ, _ => rfl
  | .pass f lo hi k, σ, h => by
    simp only [runOpt, bddFold_clearOn t f lo hi s r σ h, optSpec]
    exact runOpt_clearOn t s r _ σ h

/-- `count_nodes`: if no reachable cell holds a `usize`, the answer is the number of distinct
reachable nodes and exactly the reachable cells have been emptied. -/
theorem countNodes_spec (s : Store) (r : Ref) (σ : Scr U)
    (h : ∀ j, reaches s r j = true → (σ j).asCount = none) :
    countNodes s r σ = (reachCount s r, fun j => if reaches s r j then .empty else σ j) := by
  have hd := dfs_spec (U := U) (fun c => c.asCount.isNone) (.count 0) rfl s.length s r σ 0 (Nat.le_refl _)
    (fun j hj hn => by simp [h j hj] at hn)
  simp only [countNodes, countH_eq_dfs, hd]
  have hvis : ∀ j, (reaches s r j && (σ j).asCount.isNone) = reaches s r j := by
    intro j
    cases hj : reaches s r j with
    | false => rfl
    | true => simp [h j hj]
  simp only [hvis]
  rw [clearScratch_of_occupied s r _ (fun j hj => by simp [hj, Cell.isSome])]
  refine Prod.ext ?_ ?_
  · simp [reachCount, List.countP_eq_length_filter]
  · funext j
    cases hj : reaches s r j <;> simp [hj]

theorem countNodes_clearOn (s : Store) (r : Ref) (σ : Scr U) (h : ClearOn s r σ) :
    countNodes s r σ = (reachCount s r, σ) := by
  rw [countNodes_spec s r σ (fun j hj => by rw [h j hj]; rfl), emptied_of_clearOn h]

/-! ## query sequences -/

/-- one public call from the all-clear state: the scratch-free answer, the scratch-free store,
and the all-clear state again -/
theorem runQuery_spec (st : St U) (r : Ref) (q : Query U) (h : st.scr = Scr.clear) :
    runQuery st r q = ((specQuery st.store r q).1, ⟨(specQuery st.store r q).2, Scr.clear⟩) := by
  obtain ⟨s, σ⟩ := st
  simp only at h
  subst h
  have hc : ClearOn s r (Scr.clear (U := U)) := fun _ _ => rfl
  cases q with
  | fold t A => simp only [runQuery, specQuery, fold_clearOn t A s r _ hc, val]
  | bddFold t f lo hi => simp only [runQuery, specQuery, bddFold_clearOn t f lo hi s r _ hc, val]
  | optim t p => simp only [runQuery, specQuery, runOpt_clearOn t s r p _ hc]
  | countNodes => simp only [runQuery, specQuery, countNodes_clearOn s r _ hc]
  | condition lt x b => simp only [runQuery, specQuery, condition, clearScratch_clear]
  | dnnfCondition x b => simp only [runQuery, specQuery, dnnfCondition, clearScratch_clear]
  | smooth lvl varAt nv => simp only [runQuery, specQuery]

theorem runQueries_spec : ∀ (qs : List (Ref × Query U)) (st : St U), st.scr = Scr.clear →
    runQueries st qs = ((specQueries st.store qs).1, ⟨(specQueries st.store qs).2, Scr.clear⟩)
  | [], st, h => by
    obtain ⟨s, σ⟩ := st
    simp only at h; subst h; rfl
  | (r, q) :: qs, st, h => by
    simp only [runQueries, specQueries, runQuery_spec st r q h]
    rw [runQueries_spec qs ⟨(specQuery st.store r q).2, Scr.clear⟩ rfl]

end cells

/-! ## the store only grows, and growing it changes no old diagram -/

/-- `s'` is `s` with nodes allocated on top -/
def Extends (s' s : Store) : Prop := ∃ l, s' = l ++ s

theorem Extends.refl (s : Store) : Extends s s := ⟨[], rfl⟩
theorem Extends.trans {a b c : Store} (h1 : Extends a b) (h2 : Extends b c) : Extends a c := by
  obtain ⟨l1, rfl⟩ := h1; obtain ⟨l2, rfl⟩ := h2; exact ⟨l1 ++ l2, by simp⟩
theorem Extends.cons (n : Node) (s : Store) : Extends (n :: s) s := ⟨[n], rfl⟩
theorem Extends.length_le {a b : Store} (h : Extends a b) : b.length ≤ a.length := by
  obtain ⟨l, rfl⟩ := h; simp

/-- the reference points into the store -/
def Ref.ValidIn (r : Ref) (s : Store) : Prop := ∀ i, r.idx? = some i → i < s.length

theorem unfold_append (s : Store) {r : Ref} (hr : r.ValidIn s) : ∀ l : Store, unfold (l ++ s) r = unfold s r
  | [] => rfl
  | m :: l => by
    cases h : r.idx? with
    | none => cases r <;> cases s <;> simp_all [unfold, Ref.idx?]
    | some i =>
      have := hr i h
      rw [List.cons_append, unfold_cons_ne m (l ++ s) h (by simp; omega)]
      exact unfold_append s hr l

theorem reaches_append (s : Store) {r : Ref} (hr : r.ValidIn s) (j : Nat) :
    ∀ l : Store, reaches (l ++ s) r j = reaches s r j
  | [] => rfl
  | m :: l => by
    cases h : r.idx? with
    | none => rw [reaches_none _ h, reaches_none _ h]
    | some i =>
      have := hr i h
      rw [List.cons_append, reaches_cons_ne m (l ++ s) h (by simp; omega)]
      exact reaches_append s hr j l

theorem unfold_extends {s' s : Store} (h : Extends s' s) {r : Ref} (hr : r.ValidIn s) :
    unfold s' r = unfold s r := by obtain ⟨l, rfl⟩ := h; exact unfold_append s hr l

theorem countP_range_of_false (p : Nat → Bool) (n : Nat) (hp : ∀ j, n ≤ j → p j = false) :
    ∀ N, n ≤ N → (List.range N).countP p = (List.range n).countP p := by
  intro N hN
  induction N with
  | zero => have : n = 0 := by omega
            subst this; rfl
  | succ N ih =>
    by_cases h : n = N + 1
    · subst h; rfl
    · rw [List.range_succ, List.countP_append, ih (by omega)]
      simp [hp N (by omega)]

theorem reachCount_extends {s' s : Store} (h : Extends s' s) {r : Ref} (hr : r.ValidIn s) :
    reachCount s' r = reachCount s r := by
  have hlen := h.length_le
  obtain ⟨l, rfl⟩ := h
  simp only [reachCount, ← List.countP_eq_length_filter]
  have : reaches (l ++ s) r = reaches s r := funext fun j => reaches_append s hr j l
  rw [this]
  exact countP_range_of_false _ s.length (fun j hj => by
    cases hh : reaches s r j with
    | false => rfl
    | true => have := reaches_lt _ _ _ hh; omega) _ hlen

theorem insertRaw_extends (s : Store) (n : Node) : Extends (insertRaw s n).1 s := by
  simp only [insertRaw]; split
  · exact Extends.refl s
  · exact Extends.cons n s

theorem getOrInsert_extends (s : Store) (n : Node) : Extends (getOrInsert s n).1 s := by
  simp only [getOrInsert]; split <;> exact insertRaw_extends _ _

theorem getOrInsertDnnf_extends (s : Store) (n : Node) : Extends (getOrInsertDnnf s n).1 s := by
  simp only [getOrInsertDnnf]; split <;> exact insertRaw_extends _ _

theorem condAlloc_extends (lt : Nat → Nat → Bool) (x : Nat) (b : Bool) :
    ∀ (view : Store) (r : Ref) (st : Store × CondCache), Extends (condAlloc lt x b view r st).2.1 st.1
  | [], _, st => Extends.refl _
  | n :: rest, r, st => by
    simp only [condAlloc]
    cases r.idx? with
    | none => exact Extends.refl _
    | some i =>
      simp only
      have h1 := condAlloc_extends lt x b rest n.lo st
      have h2 := condAlloc_extends lt x b rest n.hi (condAlloc lt x b rest n.lo st).2
      have h12 := h2.trans h1
      split
      · split
        · exact Extends.refl _
        · split
          · exact Extends.refl _
          · split
            · exact Extends.refl _
            · split
              · exact h12
              · simp only
                split
                · exact (getOrInsert_extends _ _).trans h12
                · exact h12
      · exact condAlloc_extends lt x b rest r st

section
variable {Tag : Type} [DecidableEq Tag] {U : Tag → Type}

theorem dnnfCondH_extends (x : Nat) (b : Bool) (σ : Scr U) :
    ∀ (view : Store) (r : Ref) (cur : Store), Extends (dnnfCondH x b σ view r cur).2 cur
  | [], _, cur => Extends.refl _
  | n :: rest, r, cur => by
    simp only [dnnfCondH]
    cases r.idx? with
    | none => exact Extends.refl _
    | some i =>
      simp only
      have h1 := dnnfCondH_extends x b σ rest n.lo cur
      have h2 := dnnfCondH_extends x b σ rest n.hi (dnnfCondH x b σ rest n.lo cur).2
      have h12 := h2.trans h1
      split
      · split
        · exact Extends.refl _
        · split
          · exact Extends.refl _
          · split
            · exact h12
            · split
              · exact (getOrInsertDnnf_extends _ _).trans h12
              · exact h12
      · exact dnnfCondH_extends x b σ rest r cur
end

theorem smoothH_extends (lvl varAt : Nat → Nat) :
    ∀ (k cur : Nat) (r : Ref) (s : Store), Extends (smoothH lvl varAt k cur r s).2 s
  | 0, _, _, s => Extends.refl s
  | k + 1, cur, r, s => by
    simp only [smoothH]
    have hd : Extends (getOrInsert (smoothH lvl varAt k (cur + 1) r s).2
        ⟨varAt cur, (smoothH lvl varAt k (cur + 1) r s).1, (smoothH lvl varAt k (cur + 1) r s).1⟩).1 s :=
      (getOrInsert_extends _ _).trans (smoothH_extends lvl varAt k (cur + 1) r s)
    cases r.idx? with
    | none => exact hd
    | some i =>
      simp only
      cases s.get? i with
      | none => exact Extends.refl s
      | some n =>
        simp only
        split
        · exact (getOrInsert_extends _ _).trans
            ((smoothH_extends lvl varAt k (cur + 1) n.hi _).trans (smoothH_extends lvl varAt k (cur + 1) n.lo s))
        · exact (getOrInsert_extends _ _).trans (smoothH_extends lvl varAt k (cur + 1) (.reg i) s)

section
variable {Tag : Type} [DecidableEq Tag] {U : Tag → Type}

theorem specQuery_extends (s : Store) (r : Ref) (q : Query U) : Extends (specQuery s r q).2 s := by
  cases q with
  | fold t A => exact Extends.refl s
  | bddFold t f lo hi => exact Extends.refl s
  | optim t p => exact Extends.refl s
  | countNodes => exact Extends.refl s
  | condition lt x b => exact condAlloc_extends lt x b s r (s, [])
  | dnnfCondition x b => exact dnnfCondH_extends x b _ s r s
  | smooth lvl varAt nv => exact smoothH_extends lvl varAt nv 0 r s

theorem specQueries_extends : ∀ (qs : List (Ref × Query U)) (s : Store), Extends (specQueries s qs).2 s
  | [], s => Extends.refl s
  | (r, q) :: qs, s => (specQueries_extends qs _).trans (specQuery_extends s r q)

/-- the `k`-th answer of a sequence is the answer of the `k`-th query alone, on the store as it
is at that point — an extension of the initial store -/
theorem specQueries_get : ∀ (qs : List (Ref × Query U)) (s : Store) (k : Nat) (r : Ref) (q : Query U),
    qs[k]? = some (r, q) →
    ∃ s', Extends s' s ∧ (specQueries s qs).1[k]? = some (specQuery s' r q).1
  | [], _, _, _, _, h => by simp at h
  | (r0, q0) :: qs, s, 0, r, q, h => by
    simp only [List.getElem?_cons_zero, Option.some.injEq, Prod.mk.injEq] at h
    obtain ⟨rfl, rfl⟩ := h
    exact ⟨s, Extends.refl s, by simp [specQueries]⟩
  | (r0, q0) :: qs, s, k + 1, r, q, h => by
    simp only [List.getElem?_cons_succ] at h
    obtain ⟨s', he, hk⟩ := specQueries_get qs (specQuery s r0 q0).2 k r q h
    exact ⟨s', he.trans (specQuery_extends s r0 q0), by simpa [specQueries] using hk⟩
end

section
variable {Tag : Type} [DecidableEq Tag] {U : Tag → Type}

/-- the calls that allocate nothing -/
def Query.readOnly : Query U → Bool
  | .fold .. | .bddFold .. | .optim .. | .countNodes => true
  | _ => false

theorem specQuery_readOnly (s : Store) (r : Ref) {q : Query U} (h : q.readOnly = true) :
    (specQuery s r q).2 = s := by
  cases q <;> simp_all [Query.readOnly, specQuery]

/-- a sequence of read-only calls is a `map`: no call sees any other -/
theorem specQueries_readOnly : ∀ (qs : List (Ref × Query U)) (s : Store),
    (∀ p ∈ qs, p.2.readOnly = true) →
    specQueries s qs = (qs.map fun p => (specQuery s p.1 p.2).1, s)
  | [], _, _ => rfl
  | (r, q) :: qs, s, h => by
    have h1 := specQuery_readOnly s r (h (r, q) (List.mem_cons_self ..))
    simp only [specQueries, h1, List.map_cons]
    rw [specQueries_readOnly qs s (fun p hp => h p (List.mem_cons_of_mem _ hp))]
end

end Scratch
