import RsddModel.Model.Scratch
/-!
# Lemmas for C10: the scratch memo is transparent and is cleaned up

* `foldDag_spec`: the memoised pass returns the value of the un-memoised fold on the unfolded
  tree, leaves every reachable cell occupied and touches no other cell;
* `dfs_spec`: the two short-circuiting depth-first walks (`clear_scratch`, `count_h`) as one
  generic walk, characterised exactly under the closure condition that makes the short-circuit
  sound;
* `fold_spec`, `bddFold_spec`, `countNodes_spec`, `runOpt_spec`: the public calls.
-/
namespace Scratch
open Bdd Spec

/-! ## references -/

@[simp] theorem Ref.neg_neg (r : Ref) : r.neg.neg = r := by cases r <;> rfl
@[simp] theorem Ref.idx?_neg (r : Ref) : r.neg.idx? = r.idx? := by cases r <;> rfl
theorem Ref.leafPtr_neg (r : Ref) : r.neg.leafPtr = r.leafPtr.neg := by cases r <;> rfl

theorem Ref.eq_of_idx? {r : Ref} {i : Nat} (h : r.idx? = some i) :
    r = (if r.isNeg then .compl i else .reg i) := by
  cases r <;> simp_all [Ref.idx?, Ref.isNeg]

theorem Ref.isNeg_neg {r : Ref} {i : Nat} (h : r.idx? = some i) : r.neg.isNeg = !r.isNeg := by
  cases r <;> simp_all [Ref.idx?, Ref.isNeg, Ref.neg]

/-! ## `unfold` and `reaches` -/

theorem unfold_cons_eq (n : Node) (rest : Store) {r : Ref} (h : r.idx? = some rest.length) :
    unfold (n :: rest) r = .node r.isNeg n.var (unfold rest n.lo) (unfold rest n.hi) := by
  simp [unfold, h]

theorem unfold_cons_ne (n : Node) (rest : Store) {r : Ref} {i : Nat} (h : r.idx? = some i)
    (hi : i ≠ rest.length) : unfold (n :: rest) r = unfold rest r := by
  simp [unfold, h, hi]

theorem reaches_cons_eq (n : Node) (rest : Store) {r : Ref} (h : r.idx? = some rest.length) (j : Nat) :
    reaches (n :: rest) r j = (j == rest.length || reaches rest n.lo j || reaches rest n.hi j) := by
  simp [reaches, h]

theorem reaches_cons_ne (n : Node) (rest : Store) {r : Ref} {i : Nat} (h : r.idx? = some i)
    (hi : i ≠ rest.length) (j : Nat) : reaches (n :: rest) r j = reaches rest r j := by
  simp [reaches, h, hi]

theorem reaches_none (s : Store) {r : Ref} (h : r.idx? = none) (j : Nat) : reaches s r j = false := by
  cases s <;> simp [reaches, h]

/-- reachability depends on the node only, not on the polarity of the reference -/
theorem reaches_congr {r r' : Ref} (h : r.idx? = r'.idx?) : ∀ (s : Store) (j : Nat),
    reaches s r j = reaches s r' j
  | [], _ => rfl
  | n :: rest, j => by
    simp only [reaches, h]
    cases h' : r'.idx? with
    | none => rfl
    | some i =>
      simp only
      split
      · rfl
      · exact reaches_congr h rest j

@[simp] theorem reaches_neg (s : Store) (r : Ref) (j : Nat) : reaches s r.neg j = reaches s r j :=
  reaches_congr (Ref.idx?_neg r) s j

theorem reaches_lt : ∀ (s : Store) (r : Ref) (j : Nat), reaches s r j = true → j < s.length
  | [], _, _, h => by simp [reaches] at h
  | n :: rest, r, j, h => by
    simp only [reaches] at h
    cases h' : r.idx? with
    | none => simp [h'] at h
    | some i =>
      simp only [h'] at h
      split at h
      · simp only [Bool.or_eq_true, beq_iff_eq] at h
        rcases h with (h | h) | h
        · subst h; simp_all
        · have := reaches_lt rest _ _ h; simp; omega
        · have := reaches_lt rest _ _ h; simp; omega
      · have := reaches_lt rest _ _ h; simp; omega

theorem reaches_self (n : Node) (rest : Store) {r : Ref} (h : r.idx? = some rest.length) :
    reaches (n :: rest) r rest.length = true := by simp [reaches_cons_eq n rest h]

/-- reachability is transitive -/
theorem reaches_trans : ∀ (s : Store) (r : Ref) (j k : Nat),
    reaches s r j = true → reaches s (.reg j) k = true → reaches s r k = true
  | [], _, _, _, h, _ => by simp [reaches] at h
  | n :: rest, r, j, k, h1, h2 => by
    cases h' : r.idx? with
    | none => simp [reaches_none _ h'] at h1
    | some i =>
      by_cases hi : i = rest.length
      · subst hi
        rw [reaches_cons_eq n rest h'] at h1 ⊢
        simp only [Bool.or_eq_true, beq_iff_eq] at h1 ⊢
        rcases h1 with (h1 | h1) | h1
        · subst h1
          rw [reaches_cons_eq n rest (r := .reg rest.length) rfl] at h2
          simpa using h2
        · have hj := reaches_lt _ _ _ h1
          rw [reaches_cons_ne n rest (r := .reg j) rfl (by omega)] at h2
          exact Or.inl (Or.inr (reaches_trans rest _ j k h1 h2))
        · have hj := reaches_lt _ _ _ h1
          rw [reaches_cons_ne n rest (r := .reg j) rfl (by omega)] at h2
          exact Or.inr (reaches_trans rest _ j k h1 h2)
      · rw [reaches_cons_ne n rest h' hi] at h1 ⊢
        have hj := reaches_lt _ _ _ h1
        rw [reaches_cons_ne n rest (r := .reg j) rfl (by omega)] at h2
        exact reaches_trans rest r j k h1 h2

theorem unfold_neg : ∀ (s : Store) (r : Ref), unfold s r.neg = (unfold s r).neg
  | [], r => by simp [unfold, Ref.leafPtr_neg]
  | n :: rest, r => by
    cases h : r.idx? with
    | none => cases r <;> simp_all [unfold, Ref.idx?, Ref.neg, Ref.leafPtr, Ptr.neg]
    | some i =>
      have h' : r.neg.idx? = some i := by simp [h]
      by_cases hi : i = rest.length
      · subst hi
        rw [unfold_cons_eq n rest h, unfold_cons_eq n rest h', Ref.isNeg_neg h]; rfl
      · rw [unfold_cons_ne n rest h hi, unfold_cons_ne n rest h' hi]; exact unfold_neg rest r

/-! ## the tree fold -/

variable {V : Type}

theorem treeFold_neg (A : Alg V) (p : Ptr) (b : Bool) : treeFold A p.neg b = treeFold A p (!b) := by
  cases p with
  | tru => cases b <;> rfl
  | fls => cases b <;> rfl
  | node c v lo hi => cases b <;> cases c <;> rfl

/-- the value the reference denotes: the un-memoised fold of its tree -/
def val (A : Alg V) (s : Store) (r : Ref) : V := treeFold A (unfold s r) false

theorem val_nil (A : Alg V) (r : Ref) : val A [] r = A.leaf r := by cases r <;> rfl

theorem val_none (A : Alg V) (s : Store) {r : Ref} (h : r.idx? = none) : val A s r = A.leaf r := by
  cases r <;> cases s <;> simp_all [val, unfold, Ref.idx?, Ref.leafPtr, treeFold, Alg.leaf]

theorem val_cons_ne (A : Alg V) (n : Node) (rest : Store) {r : Ref} {i : Nat} (h : r.idx? = some i)
    (hi : i ≠ rest.length) : val A (n :: rest) r = val A rest r := by
  simp [val, unfold_cons_ne n rest h hi]

theorem val_cons_eq (A : Alg V) (n : Node) (rest : Store) {r : Ref} (h : r.idx? = some rest.length) :
    val A (n :: rest) r =
      A.node n.var (val A rest (if r.isNeg then n.lo.neg else n.lo))
        (val A rest (if r.isNeg then n.hi.neg else n.hi)) := by
  simp only [val, unfold_cons_eq n rest h, treeFold]
  cases r.isNeg <;> simp [unfold_neg, treeFold_neg]

/-! ## cells -/

set_option linter.unusedSectionVars false
section cells
variable {Tag : Type} [DecidableEq Tag] {U : Tag → Type}

@[simp] theorem Cell.asPair_pair_self (t : Tag) (c r : Option (U t)) :
    (Cell.pair t c r : Cell U).asPair t = some (c, r) := by simp [Cell.asPair]
@[simp] theorem Cell.asPair_empty (t : Tag) : (Cell.empty : Cell U).asPair t = none := rfl
@[simp] theorem Cell.isSome_pair (t : Tag) (c r : Option (U t)) : (Cell.pair t c r : Cell U).isSome = true := rfl
@[simp] theorem Cell.isSome_empty : (Cell.empty : Cell U).isSome = false := rfl
theorem Cell.isSome_eq_false {c : Cell U} : c.isSome = false ↔ c = .empty := by
  cases c <;> simp [Cell.isSome]

@[simp] theorem Scr.set_same (σ : Scr U) (i : Nat) (c : Cell U) : σ.set i c i = c := by simp [Scr.set]
theorem Scr.set_other (σ : Scr U) {i j : Nat} (c : Cell U) (h : j ≠ i) : σ.set i c j = σ j := by
  simp [Scr.set, h]

/-! ## `probeFold` -/

theorem probeFold_hit {neg : Bool} {o : Option (Option V × Option V)} {v : V}
    (h : probeFold neg o = .hit v) : ∃ a b, o = some (a, b) ∧ (if neg then a else b) = some v := by
  rcases o with _ | ⟨_ | a, _ | b⟩ <;> cases neg <;> simp_all [probeFold]

theorem probeFold_miss {neg : Bool} {o : Option (Option V × Option V)} {cached : Option V}
    (h : probeFold neg o = .miss cached) :
    cached = none ∨ ∃ a b, o = some (a, b) ∧ cached = (if neg then b else a) := by
  rcases o with _ | ⟨_ | a, _ | b⟩ <;> cases neg <;> simp_all [probeFold]

/-! ## the memo invariant -/

/-- a cell of node `i` that reads as a pair of this traversal's type holds correct values -/
def CellOK (t : Tag) (A : Alg (U t)) (s : Store) (i : Nat) (c : Cell U) : Prop :=
  ∀ a b, c.asPair t = some (a, b) →
    (∀ v, a = some v → v = val A s (.compl i)) ∧ (∀ v, b = some v → v = val A s (.reg i))

theorem cellOK_cons {t : Tag} {A : Alg (U t)} (n : Node) (rest : Store) {j : Nat} (hj : j ≠ rest.length)
    (c : Cell U) : CellOK t A (n :: rest) j c ↔ CellOK t A rest j c := by
  simp only [CellOK, val_cons_ne A n rest (r := .compl j) rfl hj, val_cons_ne A n rest (r := .reg j) rfl hj]

/-- What the memoised pass needs of the incoming state on the nodes reachable from `r`:
a cell that reads as a pair of this result type is correct and sits above occupied cells only.
(Every other content — empty, a `usize`, a pair of another type — is acceptable.) -/
def PreOK (t : Tag) (A : Alg (U t)) (s : Store) (σ : Scr U) (r : Ref) : Prop :=
  ∀ j, reaches s r j = true → CellOK t A s j (σ j) ∧
    ((σ j).asPair t ≠ none → ∀ k, reaches s (.reg j) k = true → (σ k).isSome = true)

theorem preOK_of_noPair {t : Tag} {A : Alg (U t)} {s : Store} {σ : Scr U} {r : Ref}
    (h : ∀ j, reaches s r j = true → (σ j).asPair t = none) : PreOK t A s σ r := by
  intro j hj
  refine ⟨?_, fun h' => absurd (h j hj) h'⟩
  intro a b hab; rw [h j hj] at hab; cases hab

theorem preOK_clear {t : Tag} {A : Alg (U t)} {s : Store} {r : Ref} : PreOK t A s (Scr.clear (U := U)) r :=
  preOK_of_noPair (fun _ _ => rfl)

/-- restriction of the precondition to a child, in the smaller store -/
theorem preOK_child {t : Tag} {A : Alg (U t)} {n : Node} {rest : Store} {σ : Scr U} {r x : Ref}
    (hx : ∀ j, reaches rest x j = true → reaches (n :: rest) r j = true)
    (h : PreOK t A (n :: rest) σ r) : PreOK t A rest σ x := by
  intro j hj
  have hlt := reaches_lt _ _ _ hj
  have hne : j ≠ rest.length := by omega
  obtain ⟨h1, h2⟩ := h j (hx j hj)
  refine ⟨(cellOK_cons n rest hne _).1 h1, fun h' k hk => h2 h' k ?_⟩
  rw [reaches_cons_ne n rest (r := .reg j) rfl hne]; exact hk

/-- `bottomup_pass_h` is transparent: value of the tree fold; afterwards every reachable cell
is correct *and occupied*; no other cell is touched. -/
theorem foldDag_spec (t : Tag) (A : Alg (U t)) : ∀ (s : Store) (r : Ref) (σ : Scr U),
    PreOK t A s σ r →
    (foldDag t A s r σ).1 = val A s r ∧
    (∀ j, reaches s r j = true →
      CellOK t A s j ((foldDag t A s r σ).2 j) ∧ ((foldDag t A s r σ).2 j).isSome = true) ∧
    (∀ j, reaches s r j = false → (foldDag t A s r σ).2 j = σ j)
  | [], r, σ, _ => by
    simp [foldDag, val_nil, reaches]
  | n :: rest, r, σ, hpre => by
    cases h : r.idx? with
    | none =>
      simp only [foldDag, h, val_none A _ h, reaches_none _ h]
      simp
    | some i =>
      by_cases hi : i = rest.length
      · subst hi
        have hself := reaches_self n rest h
        obtain ⟨hok, hclosed⟩ := hpre _ hself
        simp only [foldDag, h, if_true]
        cases hp : probeFold r.isNeg ((σ rest.length).asPair t) with
        | hit v =>
          simp only
          obtain ⟨a, b, hab, hv⟩ := probeFold_hit hp
          obtain ⟨hca, hcb⟩ := hok a b hab
          refine ⟨?_, ?_, by simp⟩
          · rw [Ref.eq_of_idx? h]
            cases hneg : r.isNeg <;> simp only [hneg] at hv ⊢
            · exact hcb v hv
            · exact hca v hv
          · intro j hj
            refine ⟨(hpre j hj).1, hclosed (by simp [hab]) j ?_⟩
            rw [← hj]; exact reaches_congr (by rw [h]; rfl) _ _
        | miss cached =>
          simp only
          -- the two children, as references into `rest`
          have hlo : ∀ j, reaches rest (if r.isNeg then n.lo.neg else n.lo) j = reaches rest n.lo j := by
            intro j; split <;> simp
          have hhi : ∀ j, reaches rest (if r.isNeg then n.hi.neg else n.hi) j = reaches rest n.hi j := by
            intro j; split <;> simp
          have hreach : ∀ j, reaches (n :: rest) r j =
              (j == rest.length || reaches rest n.lo j || reaches rest n.hi j) := reaches_cons_eq n rest h
          have pre1 : PreOK t A rest σ (if r.isNeg then n.lo.neg else n.lo) :=
            preOK_child (fun j hj => by rw [hreach]; rw [hlo] at hj; simp [hj]) hpre
          obtain ⟨v1, p1, f1⟩ := foldDag_spec t A rest _ σ pre1
          generalize foldDag t A rest (if r.isNeg then n.lo.neg else n.lo) σ = ra at v1 p1 f1
          have pre2 : PreOK t A rest ra.2 (if r.isNeg then n.hi.neg else n.hi) := by
            intro j hj
            have hjlt := reaches_lt _ _ _ hj
            cases hjl : reaches rest (if r.isNeg then n.lo.neg else n.lo) j with
            | true =>
              refine ⟨(p1 j hjl).1, fun _ k hk => (p1 k ?_).2⟩
              exact reaches_trans rest _ j k hjl hk
            | false =>
              rw [f1 j hjl]
              have hj' : reaches (n :: rest) r j = true := by rw [hreach]; rw [hhi] at hj; simp [hj]
              obtain ⟨h1, h2⟩ := hpre j hj'
              refine ⟨(cellOK_cons n rest (by omega) _).1 h1, fun h' k hk => ?_⟩
              have hk' : (σ k).isSome = true := h2 h' k (by
                rw [reaches_cons_ne n rest (r := .reg j) rfl (by omega)]; exact hk)
              cases hkl : reaches rest (if r.isNeg then n.lo.neg else n.lo) k with
              | true => exact (p1 k hkl).2
              | false => rw [f1 k hkl]; exact hk'
          obtain ⟨v2, p2, f2⟩ := foldDag_spec t A rest _ ra.2 pre2
          generalize foldDag t A rest (if r.isNeg then n.hi.neg else n.hi) ra.2 = rb at v2 p2 f2
          refine ⟨?_, ?_, ?_⟩
          · rw [val_cons_eq A n rest h, v1, v2]
          · intro j hj
            by_cases hji : j = rest.length
            · subst hji
              simp only [Scr.set_same, Cell.isSome_pair, and_true]
              intro a b hab
              simp only [Cell.asPair_pair_self, Option.some.injEq, Prod.mk.injEq] at hab
              have hval : A.node n.var ra.1 rb.1 = val A (n :: rest) r := by
                rw [val_cons_eq A n rest h, v1, v2]
              have hcached : ∀ w, cached = some w →
                  w = val A (n :: rest) (if r.isNeg then .reg rest.length else .compl rest.length) := by
                intro w hw
                rcases probeFold_miss hp with hnone | ⟨a0, b0, hab0, hc⟩
                · rw [hnone] at hw; cases hw
                · obtain ⟨hca, hcb⟩ := hok a0 b0 hab0
                  cases hneg : r.isNeg <;> simp only [hneg] at hc ⊢
                  · exact hca w (by simp_all)
                  · exact hcb w (by simp_all)
              rw [Ref.eq_of_idx? h] at hval
              obtain ⟨ha, hb⟩ := hab
              cases hneg : r.isNeg <;> simp only [hneg, storeFold] at ha hb hval hcached
              · subst ha hb
                exact ⟨fun v hv => hcached v hv, fun v hv => by cases hv; exact hval⟩
              · subst ha hb
                exact ⟨fun v hv => by cases hv; exact hval, fun v hv => hcached v hv⟩
            · rw [Scr.set_other _ _ hji]
              rw [hreach] at hj
              have hj2 : reaches rest n.lo j = true ∨ reaches rest n.hi j = true := by
                simp only [Bool.or_eq_true, beq_iff_eq] at hj
                rcases hj with (hj | hj) | hj
                · exact absurd hj hji
                · exact Or.inl hj
                · exact Or.inr hj
              rw [cellOK_cons n rest hji]
              cases hjh : reaches rest (if r.isNeg then n.hi.neg else n.hi) j with
              | true => exact p2 j hjh
              | false =>
                rw [f2 j hjh]
                rw [hhi] at hjh
                rcases hj2 with hj2 | hj2
                · exact p1 j (by rw [hlo]; exact hj2)
                · rw [hj2] at hjh; cases hjh
          · intro j hj
            rw [hreach] at hj
            simp only [Bool.or_eq_false_iff, beq_eq_false_iff_ne, ne_eq] at hj
            obtain ⟨⟨hji, hjl⟩, hjh⟩ := hj
            rw [Scr.set_other _ _ hji, f2 j (by rw [hhi]; exact hjh), f1 j (by rw [hlo]; exact hjl)]
      · simp only [foldDag, h, hi, if_false]
        have pre' : PreOK t A rest σ r := preOK_child (fun j hj => by
          rw [reaches_cons_ne n rest h hi]; exact hj) hpre
        obtain ⟨v1, p1, f1⟩ := foldDag_spec t A rest r σ pre'
        refine ⟨by rw [v1, val_cons_ne A n rest h hi], ?_, ?_⟩
        · intro j hj
          rw [reaches_cons_ne n rest h hi] at hj
          have := reaches_lt _ _ _ hj
          rw [cellOK_cons n rest (by omega)]
          exact p1 j hj
        · intro j hj
          rw [reaches_cons_ne n rest h hi] at hj
          exact f1 j hj

end cells

end Scratch
