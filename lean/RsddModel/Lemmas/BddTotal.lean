import RsddModel.Model.BddBuilder
import RsddModel.Lemmas.BddCanon
import RsddModel.Lemmas.BddCond
import RsddModel.Lemmas.BddWF
/-!
# Lemmas: termination / totality of the ROBDD builder model

The recursive `ite` of the model takes fuel and returns `none` when the fuel runs out.  This file
proves that it never does once the fuel exceeds a simple measure of the operands, for EVERY
lawful cache and every cache state (a cache hit only ends the recursion early; the cached value
is whatever it is):

* `Ptr.height` : the tree height of a diagram (`0` for the two constants);
* every recursive call of `ite` is on cofactors w.r.t. the first essential variable `x`; `x` is
  the top variable of at least one operand (`firstEssential_spec`), whose cofactor is a child
  (height strictly smaller), and the other cofactors are the operand itself or a child, so
  `height f + height g + height h` strictly decreases (`condEssential_height_sum`);
* the "panic" branch `firstEssential = none` (three constants) is unreachable, because a triple
  whose first component is a constant is a terminal case of `Ite::new` (`iteNew_const_of_none`);
* `ite_total` : `height f + height g + height h + 1 ≤ fuel → (ite C lvl fuel s f g h).isSome`;
* `ite_fuel_mono` : the result does not depend on the amount of fuel once it suffices.

That bound needs no hypothesis at all (no well-formedness, no cache invariant, no injectivity).
For WELL-FORMED operands over the first `N` variables there is a sharper, uniform bound
(`ite_total_above`): every recursive call is on cofactors that are ordered from level
`lvl x + 1` on, so the number of variables at or after the base level strictly decreases and
`N + 1` fuel suffices (`fuelBound N = N + 1`; tight, see the examples in `Props/C01Total.lean`).
The two measures are related by `height_le_of_above`: an ordered diagram all of whose variables
are `< N` has height `≤ N` (the levels strictly increase along a path).

For the operations that call `ite` on results of earlier calls (`exists`, `compose`, the list
operations) the intermediate results are again well formed (`Lemmas/BddWF`) and over the same
`N` variables — `ite` does not invent variables provided the cache only holds such results
(`CacheVars`, `ite_vars`) — so `fuelBound N` suffices for every call (`*_total_N`).
-/
namespace Bdd
open Spec

/-! ## the measure -/

/-- tree height: the number of decision nodes on a longest path -/
def Ptr.height : Ptr → Nat
  | .tru | .fls => 0
  | .node _ _ lo hi => 1 + max lo.height hi.height

@[simp] theorem height_neg (p : Ptr) : p.neg.height = p.height := by
  cases p <;> simp [Ptr.neg, Ptr.height]

theorem height_ite_neg (c : Bool) (p : Ptr) : (if c then p.neg else p).height = p.height := by
  cases c <;> simp

/-- a cofactor is never higher than the diagram -/
theorem condEssential_height_le (p : Ptr) (x : Nat) (b : Bool) :
    (condEssential p x b).height ≤ p.height := by
  cases p with
  | tru => exact Nat.le_refl _
  | fls => exact Nat.le_refl _
  | node c y lo hi =>
    simp only [condEssential]
    split
    · exact Nat.le_refl _
    · rw [height_ite_neg]
      cases b <;> simp only [if_true, if_false, Bool.false_eq_true, Ptr.height] <;> omega

/-- the cofactor w.r.t. the top variable is a child: strictly lower -/
theorem condEssential_height_lt {p : Ptr} {x : Nat} (b : Bool) (ht : p.top? = some x) :
    (condEssential p x b).height < p.height := by
  cases p with
  | tru => simp [Ptr.top?] at ht
  | fls => simp [Ptr.top?] at ht
  | node c y lo hi =>
    simp only [Ptr.top?, Option.some.injEq] at ht; subst ht
    simp only [condEssential, ne_eq, not_true_eq_false, if_false]
    rw [height_ite_neg]
    cases b <;> simp only [if_true, if_false, Bool.false_eq_true, Ptr.height] <;> omega

/-- **the measure decreases**: cofactoring the three operands of `ite` w.r.t. the first essential
variable strictly decreases the sum of the heights (for arbitrary diagrams and level maps) -/
theorem condEssential_height_sum {lvl : Nat → Nat} {f g h : Ptr} {x : Nat} (b : Bool)
    (hx : firstEssential lvl f g h = some x) :
    (condEssential f x b).height + (condEssential g x b).height + (condEssential h x b).height
      < f.height + g.height + h.height := by
  have lf := condEssential_height_le f x b
  have lg := condEssential_height_le g x b
  have lh := condEssential_height_le h x b
  rcases (firstEssential_spec hx).1 with e | e | e
  · have := condEssential_height_lt b e; omega
  · have := condEssential_height_lt b e; omega
  · have := condEssential_height_lt b e; omega

/-! ## the panic branch is unreachable -/

theorem top_none_cases {p : Ptr} (h : p.top? = none) : p = .tru ∨ p = .fls := by
  cases p <;> simp_all [Ptr.top?]

/-- a triple whose first component is a constant is a terminal case of `Ite::new` -/
theorem iteNew_const_of_const (ord) {f : Ptr} (g h : Ptr) (hf : f = .tru ∨ f = .fls) :
    ∃ r, Ite.new ord f g h = .const r := by
  have h1 : (introConst f g h).1 = f := by
    unfold introConst; (repeat' split) <;> rfl
  simp only [Ite.new]
  generalize introConst f g h = t at h1
  obtain ⟨f1, g1, h1'⟩ := t
  simp only at h1 ⊢; subst h1
  have : ∃ r, terminal? f1 g1 h1' = some r := by
    rcases hf with rfl | rfl
    · exact ⟨g1, by simp [terminal?, Ptr.isTrue]⟩
    · exact ⟨h1', by simp [terminal?, Ptr.isTrue, Ptr.isFalse]⟩
  obtain ⟨r, hr⟩ := this
  rw [hr]; exact ⟨r, rfl⟩

/-- if `first_essential` would panic (all three are constants), `Ite::new` has already returned
a constant, so `ite_helper` never reaches the call -/
theorem iteNew_const_of_none {lvl : Nat → Nat} {f g h : Ptr} (ord)
    (hx : firstEssential lvl f g h = none) : ∃ r, Ite.new ord f g h = .const r := by
  apply iteNew_const_of_const
  apply top_none_cases
  cases hf : f.top? with
  | none => rfl
  | some v =>
    obtain ⟨w, hw, _⟩ := first_top_left lvl f g v hf
    obtain ⟨w', hw', _⟩ := first_top_left lvl (first lvl f g) h w hw
    unfold firstEssential at hx
    rw [hx] at hw'; cases hw'

/-! ## totality of `ite` -/

/-- **`ite` terminates**: for every lawful cache, every cache state, every level map and all
operands, the recursion returns once the fuel exceeds the sum of the heights of the operands. -/
theorem ite_total (C : CacheImpl) (lvl : Nat → Nat) :
    ∀ (fuel : Nat) (s : C.σ) (f g h : Ptr), f.height + g.height + h.height + 1 ≤ fuel →
      (ite C lvl fuel s f g h).isSome := by
  intro fuel
  induction fuel with
  | zero => intro s f g h hb; omega
  | succ n ih =>
    intro s f g h hb
    simp only [ite]
    have hnone := iteNew_const_of_none (lvl := lvl) (f := f) (g := g) (h := h) (ordP lvl)
    generalize Ite.new (ordP lvl) f g h = key at hnone
    split
    · rfl
    · rename_i hnc
      split
      · rfl
      · split
        · rename_i hx
          obtain ⟨r, hr⟩ := hnone hx
          exact absurd hr (hnc r)
        · rename_i x hx
          have dt := condEssential_height_sum true hx
          have de := condEssential_height_sum false hx
          have it := ih s (condEssential f x true) (condEssential g x true) (condEssential h x true)
            (by omega)
          split
          · rename_i hn; rw [hn] at it; cases it
          · rename_i s1 t ht
            have ie := ih s1 (condEssential f x false) (condEssential g x false)
              (condEssential h x false) (by omega)
            split
            · rename_i hn; rw [hn] at ie; cases ie
            · split <;> rfl

/-- one more unit of fuel does not change a result -/
theorem ite_fuel_succ (C : CacheImpl) (lvl : Nat → Nat) :
    ∀ (fuel : Nat) (s : C.σ) (f g h : Ptr) (r : C.σ × Ptr),
      ite C lvl fuel s f g h = some r → ite C lvl (fuel + 1) s f g h = some r := by
  intro fuel
  induction fuel with
  | zero => intro s f g h r hr; simp [ite] at hr
  | succ n ih =>
    intro s f g h r hr
    rw [ite] at hr ⊢
    generalize Ite.new (ordP lvl) f g h = key at hr ⊢
    split at hr
    · exact hr
    · rename_i hnc
      split at hr
      · exact hr
      · split at hr
        · cases hr
        · rename_i x hx
          split at hr
          · cases hr
          · rename_i s1 t ht
            rw [ih _ _ _ _ _ ht]
            simp only
            split at hr
            · cases hr
            · rename_i s2 e he
              rw [ih _ _ _ _ _ he]
              exact hr

/-- **fuel monotonicity**: the result does not depend on the amount of fuel once it suffices -/
theorem ite_fuel_mono (C : CacheImpl) (lvl : Nat → Nat) {fuel fuel' : Nat} {s : C.σ}
    {f g h : Ptr} {r : C.σ × Ptr} (hr : ite C lvl fuel s f g h = some r) (hle : fuel ≤ fuel') :
    ite C lvl fuel' s f g h = some r := by
  induction hle with
  | refl => exact hr
  | step _ ih => exact ite_fuel_succ C lvl _ _ _ _ _ _ ih

/-- with enough fuel the result is the one obtained with exactly `height f + height g + height h
+ 1` units: a closed form of the function the fuelled model computes -/
theorem ite_eq_of_bound (C : CacheImpl) (lvl : Nat → Nat) {fuel : Nat} (s : C.σ) (f g h : Ptr)
    (hb : f.height + g.height + h.height + 1 ≤ fuel) :
    ite C lvl fuel s f g h = ite C lvl (f.height + g.height + h.height + 1) s f g h := by
  have h1 := ite_total C lvl _ s f g h (Nat.le_refl _)
  cases hr : ite C lvl (f.height + g.height + h.height + 1) s f g h with
  | none => rw [hr] at h1; cases h1
  | some r => exact ite_fuel_mono C lvl hr hb

/-! ## the derived operations that call `ite` once: bounds in terms of the heights -/

section simple
variable (C : CacheImpl) (lvl : Nat → Nat) {fuel : Nat}

theorem bAnd_total (s : C.σ) (f g : Ptr) (hb : f.height + g.height + 1 ≤ fuel) :
    (bAnd C lvl fuel s f g).isSome :=
  ite_total C lvl fuel s f g .fls (by simp only [Ptr.height]; omega)

theorem bIff_total (s : C.σ) (f g : Ptr) (hb : f.height + 2 * g.height + 1 ≤ fuel) :
    (bIff C lvl fuel s f g).isSome :=
  ite_total C lvl fuel s f g g.neg (by rw [height_neg]; omega)

theorem bXor_total (s : C.σ) (f g : Ptr) (hb : f.height + 2 * g.height + 1 ≤ fuel) :
    (bXor C lvl fuel s f g).isSome :=
  ite_total C lvl fuel s f g.neg g (by rw [height_neg]; omega)

theorem bOr_total (s : C.σ) (f g : Ptr) (hb : f.height + g.height + 1 ≤ fuel) :
    (bOr C lvl fuel s f g).isSome := by
  have := bAnd_total C lvl (fuel := fuel) s f.neg g.neg (by simpa using hb)
  unfold bOr
  split
  · rfl
  · rename_i hn; rw [hn] at this; cases this

end simple

/-! ## conditioning never raises the height -/

theorem mkNode_height (x : Nat) (lo hi : Ptr) :
    (mkNode x lo hi).height = 1 + max lo.height hi.height := by
  unfold mkNode; split <;> simp [Ptr.height]

theorem condPure_height_le (lvl : Nat → Nat) (x : Nat) (b : Bool) :
    ∀ p : Ptr, (condPure lvl x b p).height ≤ p.height := by
  intro p
  induction p with
  | tru => exact Nat.le_refl _
  | fls => exact Nat.le_refl _
  | node c y lo hi ihlo ihhi =>
    rw [condPure]
    simp only
    split
    · exact Nat.le_refl _
    · split
      · rw [height_ite_neg]
        cases b <;> simp only [if_true, if_false, Bool.false_eq_true, Ptr.height] <;> omega
      · split
        · rw [height_ite_neg]; simp only [Ptr.height]; omega
        · split
          · rw [height_ite_neg, mkNode_height]; simp only [Ptr.height]; omega
          · exact Nat.le_refl _

theorem condition_height_le (lvl : Nat → Nat) (p : Ptr) (x : Nat) (b : Bool) :
    (condition lvl p x b).height ≤ p.height := by
  rw [condition_eq_pure]; exact condPure_height_le lvl x b p

/-- `exists` (two conditionings, one `or`) returns with `2 * height f + 1` fuel -/
theorem bExists_total (C : CacheImpl) (lvl : Nat → Nat) {fuel : Nat} (s : C.σ) (f : Ptr) (x : Nat)
    (hb : 2 * f.height + 1 ≤ fuel) : (bExists C lvl fuel s f x).isSome := by
  have h1 := condition_height_le lvl f x true
  have h2 := condition_height_le lvl f x false
  exact bOr_total C lvl s _ _ (by omega)

/-! ## the variables of a diagram; an ordered diagram over `N` variables has height `≤ N` -/

/-- every variable label of `p` is `< N` -/
def Ptr.varsLt (N : Nat) : Ptr → Prop
  | .tru | .fls => True
  | .node _ v lo hi => v < N ∧ lo.varsLt N ∧ hi.varsLt N

theorem varsLt_neg {N} {p : Ptr} (h : p.varsLt N) : p.neg.varsLt N := by
  cases p <;> simp_all [Ptr.neg, Ptr.varsLt]

theorem varsLt_neg_iff (N) (p : Ptr) : p.neg.varsLt N ↔ p.varsLt N :=
  ⟨fun h => by have := varsLt_neg h; rwa [neg_neg] at this, varsLt_neg⟩

theorem varsLt_ite_neg {N} {c : Bool} {p : Ptr} (h : p.varsLt N) :
    (if c then p.neg else p).varsLt N := by
  cases c <;> simp only [if_true, if_false, Bool.false_eq_true] <;>
    first | assumption | exact varsLt_neg h

theorem varsLt_mono {N M} (hle : N ≤ M) : ∀ {p : Ptr}, p.varsLt N → p.varsLt M
  | .tru, _ => trivial
  | .fls, _ => trivial
  | .node _ _ _ _, ⟨h1, h2, h3⟩ => ⟨Nat.lt_of_lt_of_le h1 hle, varsLt_mono hle h2, varsLt_mono hle h3⟩

theorem lt_of_top_varsLt {N x : Nat} {p : Ptr} (h : p.varsLt N) (ht : p.top? = some x) : x < N := by
  cases p with
  | tru => simp [Ptr.top?] at ht
  | fls => simp [Ptr.top?] at ht
  | node c v lo hi => simp only [Ptr.top?, Option.some.injEq] at ht; subst ht; exact h.1

theorem condEssential_varsLt {N : Nat} {p : Ptr} (x : Nat) (b : Bool) (h : p.varsLt N) :
    (condEssential p x b).varsLt N := by
  cases p with
  | tru => trivial
  | fls => trivial
  | node c y lo hi =>
    simp only [condEssential]
    split
    · exact h
    · apply varsLt_ite_neg
      cases b <;> simp only [if_true, if_false, Bool.false_eq_true]
      · exact h.2.1
      · exact h.2.2

theorem mkNode_varsLt {N x : Nat} {lo hi : Ptr} (hx : x < N) (hl : lo.varsLt N) (hh : hi.varsLt N) :
    (mkNode x lo hi).varsLt N := by
  unfold mkNode
  split
  · exact ⟨hx, varsLt_neg hl, varsLt_neg hh⟩
  · exact ⟨hx, hl, hh⟩

theorem mkVar_varsLt {N x : Nat} (pol : Bool) (hx : x < N) : (mkVar x pol).varsLt N := by
  have h : (mkNode x .fls .tru).varsLt N := mkNode_varsLt hx trivial trivial
  unfold mkVar
  cases pol <;> simp only [if_true, if_false, Bool.false_eq_true]
  · exact varsLt_neg h
  · exact h

theorem condPure_varsLt (lvl : Nat → Nat) (x : Nat) (b : Bool) {N : Nat} :
    ∀ p : Ptr, p.varsLt N → (condPure lvl x b p).varsLt N := by
  intro p
  induction p with
  | tru => intro _; trivial
  | fls => intro _; trivial
  | node c y lo hi ihlo ihhi =>
    intro hv
    obtain ⟨hy, vlo, vhi⟩ := hv
    have vlo' := ihlo vlo
    have vhi' := ihhi vhi
    rw [condPure]
    simp only
    split
    · exact ⟨hy, vlo, vhi⟩
    · split
      · apply varsLt_ite_neg
        cases b <;> simp only [if_true, if_false, Bool.false_eq_true] <;> assumption
      · split
        · exact varsLt_ite_neg vlo'
        · split
          · exact varsLt_ite_neg (mkNode_varsLt hy vlo' vhi')
          · exact ⟨hy, vlo, vhi⟩

theorem condition_varsLt (lvl : Nat → Nat) (x : Nat) (b : Bool) {N : Nat} {p : Ptr}
    (h : p.varsLt N) : (condition lvl p x b).varsLt N := by
  rw [condition_eq_pure]; exact condPure_varsLt lvl x b p h

theorem condModel_varsLt (lvl : Nat → Nat) {N : Nat} : ∀ (m : List (Nat × Bool)) {p : Ptr},
    p.varsLt N → (condModel lvl p m).varsLt N
  | [], _, h => h
  | (x, b) :: rest, _, h => condModel_varsLt lvl rest (condition_varsLt lvl x b h)

/-- the number of variables `v < N` whose level is `≥ k` -/
def cnt (lvl : Nat → Nat) : Nat → Nat → Nat
  | 0, _ => 0
  | N + 1, k => cnt lvl N k + (if k ≤ lvl N then 1 else 0)

theorem cnt_le (lvl : Nat → Nat) : ∀ N k, cnt lvl N k ≤ N
  | 0, _ => Nat.le_refl _
  | N + 1, k => by
    have := cnt_le lvl N k
    simp only [cnt]; split <;> omega

theorem cnt_mono (lvl : Nat → Nat) {k k' : Nat} (h : k ≤ k') : ∀ N, cnt lvl N k' ≤ cnt lvl N k
  | 0 => Nat.le_refl _
  | N + 1 => by
    have := cnt_mono lvl h N
    simp only [cnt]; split <;> split <;> omega

/-- a variable `v < N` at a level `≥ k` is counted from `k` on but not from `lvl v + 1` on -/
theorem cnt_step (lvl : Nat → Nat) {k v : Nat} (hk : k ≤ lvl v) :
    ∀ N, v < N → cnt lvl N (lvl v + 1) + 1 ≤ cnt lvl N k
  | 0, h => by omega
  | N + 1, h => by
    simp only [cnt]
    by_cases e : v = N
    · subst e
      have := cnt_mono lvl (by omega : k ≤ lvl v + 1) v
      rw [if_neg (by omega), if_pos hk]; omega
    · have := cnt_step lvl hk N (by omega)
      split <;> split <;> omega

/-- along a path of an ordered diagram the levels strictly increase, so the path meets every
variable at most once -/
theorem height_le_cnt (lvl : Nat → Nat) (N : Nat) :
    ∀ (p : Ptr) (k : Nat), p.above lvl k → p.varsLt N → p.height ≤ cnt lvl N k := by
  intro p
  induction p with
  | tru => intro k _ _; exact Nat.zero_le _
  | fls => intro k _ _; exact Nat.zero_le _
  | node c v lo hi ihlo ihhi =>
    intro k ha hv
    obtain ⟨hk, alo, ahi⟩ := ha
    obtain ⟨hvN, vlo, vhi⟩ := hv
    have h1 := ihlo _ alo vlo
    have h2 := ihhi _ ahi vhi
    have h3 := cnt_step lvl hk N hvN
    simp only [Ptr.height]; omega

/-- **an ordered diagram over `N` variables has height at most `N`** (every level map) -/
theorem height_le_of_above {lvl : Nat → Nat} {N k : Nat} {p : Ptr} (ha : p.above lvl k)
    (hv : p.varsLt N) : p.height ≤ N :=
  Nat.le_trans (height_le_cnt lvl N p k ha hv) (cnt_le lvl N k)

/-! ## every operation keeps the variables below `N` -/

/-- the apply cache only holds diagrams over the first `N` variables -/
def CacheVars (C : CacheImpl) (N : Nat) (s : C.σ) : Prop :=
  ∀ k r, C.get s k = some r → r.varsLt N

theorem cacheVars_empty (C : CacheImpl) (N) : CacheVars C N C.empty := by
  intro k r hget; rw [C.empty_get] at hget; cases hget

theorem cacheVars_mono {C : CacheImpl} {N M : Nat} {s : C.σ} (hle : N ≤ M)
    (h : CacheVars C N s) : CacheVars C M s := fun k r hg => varsLt_mono hle (h k r hg)

theorem cacheGet_vars {C : CacheImpl} {N} {s : C.σ} (hs : CacheVars C N s) {key : Ite} {v : Ptr}
    (hnc : ∀ p, key = .const p → False) (hget : cacheGet C s key = some v) : v.varsLt N := by
  cases key with
  | choice f g h => exact hs _ _ hget
  | complChoice f g h =>
    simp only [cacheGet, Option.map_eq_some_iff] at hget
    obtain ⟨w, hw, rfl⟩ := hget
    exact varsLt_neg (hs _ _ hw)
  | const p => exact absurd rfl (hnc p)

theorem cacheInsert_vars {C : CacheImpl} {N} {s : C.σ} (hs : CacheVars C N s) (key : Ite) {r : Ptr}
    (hr : r.varsLt N) : CacheVars C N (cacheInsert C s key r) := by
  cases key with
  | choice f g h =>
    intro k' r' hget
    rcases C.lawful _ _ _ _ _ hget with ⟨_, hv⟩ | hold
    · subst hv; exact hr
    · exact hs _ _ hold
  | complChoice f g h =>
    intro k' r' hget
    rcases C.lawful _ _ _ _ _ hget with ⟨_, hv⟩ | hold
    · subst hv; exact varsLt_neg hr
    · exact hs _ _ hold
  | const p => exact hs

/-- `ite` does not invent variables: if the cache and the operands only mention variables `< N`,
so do the result and the new cache (every lawful cache, every level map) -/
theorem ite_vars (C : CacheImpl) (lvl : Nat → Nat) (N : Nat) :
    ∀ fuel s f g h s' r, CacheVars C N s → f.varsLt N → g.varsLt N → h.varsLt N →
      ite C lvl fuel s f g h = some (s', r) → CacheVars C N s' ∧ r.varsLt N := by
  intro fuel
  induction fuel with
  | zero => intro s f g h s' r _ _ _ _ hrun; simp [ite] at hrun
  | succ n ih =>
    intro s f g h s' r hs vf vg vh hrun
    have key_vars : (Ite.new (ordP lvl) f g h).All (Ptr.varsLt N) :=
      iteNew_fwd (varsLt_neg_iff N) trivial trivial (ordP lvl) vf vg vh
    simp only [ite] at hrun
    generalize Ite.new (ordP lvl) f g h = key at hrun key_vars
    split at hrun
    · simp only [Option.some.injEq, Prod.mk.injEq] at hrun; obtain ⟨rfl, rfl⟩ := hrun
      exact ⟨hs, key_vars⟩
    · rename_i hnc
      split at hrun
      · rename_i v hv
        simp only [Option.some.injEq, Prod.mk.injEq] at hrun; obtain ⟨rfl, rfl⟩ := hrun
        exact ⟨hs, cacheGet_vars hs hnc hv⟩
      · split at hrun
        · cases hrun
        · rename_i x hx
          split at hrun
          · cases hrun
          · rename_i s1 t ht
            split at hrun
            · cases hrun
            · rename_i s2 e he
              obtain ⟨hs1, vt⟩ := ih _ _ _ _ _ _ hs (condEssential_varsLt x true vf)
                (condEssential_varsLt x true vg) (condEssential_varsLt x true vh) ht
              obtain ⟨hs2, ve⟩ := ih _ _ _ _ _ _ hs1 (condEssential_varsLt x false vf)
                (condEssential_varsLt x false vg) (condEssential_varsLt x false vh) he
              have hxN : x < N := by
                rcases (firstEssential_spec hx).1 with e' | e' | e'
                · exact lt_of_top_varsLt vf e'
                · exact lt_of_top_varsLt vg e'
                · exact lt_of_top_varsLt vh e'
              split at hrun
              · simp only [Option.some.injEq, Prod.mk.injEq] at hrun; obtain ⟨rfl, rfl⟩ := hrun
                exact ⟨hs2, vt⟩
              · simp only [Option.some.injEq, Prod.mk.injEq] at hrun; obtain ⟨rfl, rfl⟩ := hrun
                have vr := mkNode_varsLt hxN ve vt
                exact ⟨cacheInsert_vars hs2 key vr, vr⟩

/-! ## totality over `N` variables: `N + 1` fuel is enough for every operation -/

/-- **`ite` terminates, the level measure**: for operands ordered from level `k` on, over the
first `N` variables, the recursion is at most as deep as the number of variables at a level
`≥ k`, plus one.  Every recursive call is on cofactors w.r.t. the first essential variable `x`,
which are ordered from level `lvl x + 1` on (this is where injectivity of the level map is
used), and `x` itself is counted from `k` on but not from `lvl x + 1` on (`cnt_step`).
Again for every lawful cache and every cache state. -/
theorem ite_total_above (C : CacheImpl) (lvl : Nat → Nat) (inj : ∀ x y, lvl x = lvl y → x = y)
    (N : Nat) : ∀ (fuel : Nat) (s : C.σ) (f g h : Ptr) (k : Nat),
      f.above lvl k → g.above lvl k → h.above lvl k → f.varsLt N → g.varsLt N → h.varsLt N →
      cnt lvl N k + 1 ≤ fuel → (ite C lvl fuel s f g h).isSome := by
  intro fuel
  induction fuel with
  | zero => intro s f g h k _ _ _ _ _ _ hb; omega
  | succ n ih =>
    intro s f g h k af ag ah vf vg vh hb
    simp only [ite]
    have hnone := iteNew_const_of_none (lvl := lvl) (f := f) (g := g) (h := h) (ordP lvl)
    generalize Ite.new (ordP lvl) f g h = key at hnone
    split
    · rfl
    · rename_i hnc
      split
      · rfl
      · split
        · rename_i hx
          obtain ⟨r, hr⟩ := hnone hx
          exact absurd hr (hnc r)
        · rename_i x hx
          obtain ⟨hmem, gf, gg, gh⟩ := firstEssential_spec hx
          have hkx : k ≤ lvl x ∧ x < N := by
            rcases hmem with e | e | e
            · exact ⟨le_of_top_above af e, lt_of_top_varsLt vf e⟩
            · exact ⟨le_of_top_above ag e, lt_of_top_varsLt vg e⟩
            · exact ⟨le_of_top_above ah e, lt_of_top_varsLt vh e⟩
          have hc := cnt_step lvl hkx.1 N hkx.2
          have recCall := fun (b : Bool) (s' : C.σ) =>
            ih s' (condEssential f x b) (condEssential g x b) (condEssential h x b) (lvl x + 1)
              (condEssential_above inj b af gf) (condEssential_above inj b ag gg)
              (condEssential_above inj b ah gh) (condEssential_varsLt x b vf)
              (condEssential_varsLt x b vg) (condEssential_varsLt x b vh) (by omega)
          have it := recCall true s
          split
          · rename_i hn; rw [hn] at it; cases it
          · rename_i s1 t ht
            have ie := recCall false s1
            split
            · rename_i hn; rw [hn] at ie; cases ie
            · split <;> rfl

/-- the fuel that suffices for every builder call on diagrams over `N` variables: one unit per
variable, plus one for the terminal case at the leaves -/
def fuelBound (N : Nat) : Nat := N + 1

/-- a well formed diagram over the first `N` variables -/
def Good (lvl : Nat → Nat) (N : Nat) (p : Ptr) : Prop := WF lvl p ∧ p.varsLt N

/-- the cache only holds well formed diagrams over the first `N` variables -/
def CacheGood (C : CacheImpl) (lvl : Nat → Nat) (N : Nat) (s : C.σ) : Prop :=
  CacheWF C lvl s ∧ CacheVars C N s

theorem cacheGood_empty (C : CacheImpl) (lvl N) : CacheGood C lvl N C.empty :=
  ⟨cacheWF_empty C lvl, cacheVars_empty C N⟩

/-- hence the height measure of `ite_total` is at most `3 * N` on good operands -/
theorem Good.height_le {lvl N} {p : Ptr} (h : Good lvl N p) : p.height ≤ N :=
  height_le_of_above h.1.1 h.2

theorem Good.neg {lvl N} {p : Ptr} (h : Good lvl N p) : Good lvl N p.neg :=
  ⟨WF_neg h.1, varsLt_neg h.2⟩

theorem Good.mono {lvl N M} {p : Ptr} (hle : N ≤ M) (h : Good lvl N p) : Good lvl M p :=
  ⟨h.1, varsLt_mono hle h.2⟩

theorem CacheGood.mono {C : CacheImpl} {lvl N M} {s : C.σ} (hle : N ≤ M)
    (h : CacheGood C lvl N s) : CacheGood C lvl M s := ⟨h.1, cacheVars_mono hle h.2⟩

theorem good_tru (lvl N) : Good lvl N .tru := ⟨WF_tru lvl, trivial⟩
theorem good_fls (lvl N) : Good lvl N .fls := ⟨WF_fls lvl, trivial⟩
theorem good_mkVar (lvl) {N x} (pol : Bool) (hx : x < N) : Good lvl N (mkVar x pol) :=
  ⟨mkVar_WF lvl x pol, mkVar_varsLt pol hx⟩
theorem good_condition (lvl) {N} {p : Ptr} (x : Nat) (b : Bool) (h : Good lvl N p) :
    Good lvl N (condition lvl p x b) := ⟨condition_WF lvl x b h.1, condition_varsLt lvl x b h.2⟩
theorem good_condModel (lvl) {N} {p : Ptr} (m : List (Nat × Bool)) (h : Good lvl N p) :
    Good lvl N (condModel lvl p m) := ⟨condModel_WF lvl m h.1, condModel_varsLt lvl m h.2⟩

/-- the post-condition every call establishes: it returns, and the new cache and the result
are again good (so the next call can be made) -/
def Post (C : CacheImpl) (lvl : Nat → Nat) (N : Nat) (res : Option (C.σ × Ptr)) : Prop :=
  ∃ s' r, res = some (s', r) ∧ CacheGood C lvl N s' ∧ Good lvl N r

section total
variable (C : CacheImpl) (lvl : Nat → Nat) (inj : ∀ x y, lvl x = lvl y → x = y) {N fuel : Nat}
include inj

/-- **`ite` is total over `N` variables**: on good operands, with a good cache and `N + 1` fuel,
it returns a good result and a good cache -/
theorem ite_total_N {s : C.σ} {f g h : Ptr} (hs : CacheGood C lvl N s) (hf : Good lvl N f)
    (hg : Good lvl N g) (hh : Good lvl N h) (hb : fuelBound N ≤ fuel) :
    Post C lvl N (ite C lvl fuel s f g h) := by
  have ht := ite_total_above C lvl inj N fuel s f g h 0 hf.1.1 hg.1.1 hh.1.1 hf.2 hg.2 hh.2
    (by have := cnt_le lvl N 0; unfold fuelBound at hb; omega)
  cases hr : ite C lvl fuel s f g h with
  | none => rw [hr] at ht; cases ht
  | some sr =>
    obtain ⟨s', r⟩ := sr
    obtain ⟨w1, w2⟩ := ite_WF C lvl inj hs.1 hf.1 hg.1 hh.1 hr
    obtain ⟨v1, v2⟩ := ite_vars C lvl N fuel s f g h s' r hs.2 hf.2 hg.2 hh.2 hr
    exact ⟨s', r, rfl, ⟨w1, v1⟩, ⟨w2, v2⟩⟩

theorem bAnd_total_N {s : C.σ} {f g : Ptr} (hs : CacheGood C lvl N s) (hf : Good lvl N f)
    (hg : Good lvl N g) (hb : fuelBound N ≤ fuel) : Post C lvl N (bAnd C lvl fuel s f g) :=
  ite_total_N C lvl inj hs hf hg (good_fls lvl N) hb

theorem bIff_total_N {s : C.σ} {f g : Ptr} (hs : CacheGood C lvl N s) (hf : Good lvl N f)
    (hg : Good lvl N g) (hb : fuelBound N ≤ fuel) : Post C lvl N (bIff C lvl fuel s f g) :=
  ite_total_N C lvl inj hs hf hg hg.neg hb

theorem bXor_total_N {s : C.σ} {f g : Ptr} (hs : CacheGood C lvl N s) (hf : Good lvl N f)
    (hg : Good lvl N g) (hb : fuelBound N ≤ fuel) : Post C lvl N (bXor C lvl fuel s f g) :=
  ite_total_N C lvl inj hs hf hg.neg hg hb

theorem bOr_total_N {s : C.σ} {f g : Ptr} (hs : CacheGood C lvl N s) (hf : Good lvl N f)
    (hg : Good lvl N g) (hb : fuelBound N ≤ fuel) : Post C lvl N (bOr C lvl fuel s f g) := by
  obtain ⟨s', r, hr, h1, h2⟩ := bAnd_total_N C lvl inj hs hf.neg hg.neg hb
  exact ⟨s', r.neg, by simp only [bOr, hr], h1, h2.neg⟩

theorem bExists_total_N {s : C.σ} {f : Ptr} (x : Nat) (hs : CacheGood C lvl N s)
    (hf : Good lvl N f) (hb : fuelBound N ≤ fuel) : Post C lvl N (bExists C lvl fuel s f x) :=
  bOr_total_N C lvl inj hs (good_condition lvl x true hf) (good_condition lvl x false hf) hb

/-- `compose` (an `iff`, an `and` on its result, an `exists` on the result of that): the
intermediate results are well formed diagrams over the same `N` variables (WF preservation and
`ite_vars`), so the same fuel is enough for the later calls -/
theorem bCompose_total_N {s : C.σ} {f g : Ptr} {x : Nat} (hx : x < N) (hs : CacheGood C lvl N s)
    (hf : Good lvl N f) (hg : Good lvl N g) (hb : fuelBound N ≤ fuel) :
    Post C lvl N (bCompose C lvl fuel s f x g) := by
  obtain ⟨s1, i, h1, hs1, gi⟩ := bIff_total_N C lvl inj hs (good_mkVar lvl true hx) hg hb
  obtain ⟨s2, a, h2, hs2, ga⟩ := bAnd_total_N C lvl inj hs1 gi hf hb
  have h3 := bExists_total_N C lvl inj x hs2 ga hb
  simp only [bCompose, h1, h2]
  exact h3

theorem bAndLst_total_N : ∀ (ps : List Ptr) {s : C.σ} {acc : Ptr}, CacheGood C lvl N s →
    Good lvl N acc → (∀ p ∈ ps, Good lvl N p) → fuelBound N ≤ fuel →
    Post C lvl N (bAndLst C lvl fuel s acc ps)
  | [], s, acc, hs, ha, _, _ => ⟨s, acc, rfl, hs, ha⟩
  | p :: ps, s, acc, hs, ha, hps, hb => by
    obtain ⟨s1, r1, h1, hs1, g1⟩ := bAnd_total_N C lvl inj hs ha (hps p (List.mem_cons_self ..)) hb
    have := bAndLst_total_N ps hs1 g1 (fun q hq => hps q (List.mem_cons_of_mem _ hq)) hb
    simp only [bAndLst, h1]
    exact this

theorem bOrLst_total_N : ∀ (ps : List Ptr) {s : C.σ} {acc : Ptr}, CacheGood C lvl N s →
    Good lvl N acc → (∀ p ∈ ps, Good lvl N p) → fuelBound N ≤ fuel →
    Post C lvl N (bOrLst C lvl fuel s acc ps)
  | [], s, acc, hs, ha, _, _ => ⟨s, acc, rfl, hs, ha⟩
  | p :: ps, s, acc, hs, ha, hps, hb => by
    obtain ⟨s1, r1, h1, hs1, g1⟩ := bOr_total_N C lvl inj hs ha (hps p (List.mem_cons_self ..)) hb
    have := bOrLst_total_N ps hs1 g1 (fun q hq => hps q (List.mem_cons_of_mem _ hq)) hb
    simp only [bOrLst, h1]
    exact this

end total

theorem Post.isSome {C : CacheImpl} {lvl N} {res : Option (C.σ × Ptr)} (h : Post C lvl N res) :
    res.isSome := by
  obtain ⟨_, _, rfl, _⟩ := h; rfl

#print axioms ite_total
#print axioms ite_fuel_mono
#print axioms height_le_of_above
#print axioms ite_vars
#print axioms ite_total_above
#print axioms ite_total_N
#print axioms bExists_total
#print axioms bCompose_total_N
#print axioms bAndLst_total_N
#print axioms bOrLst_total_N
end Bdd
