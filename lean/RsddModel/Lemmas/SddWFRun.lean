import RsddModel.Lemmas.SddWF
/-!
# SDD lemmas, part 4: the compressing builder only hands out `WFs` pointers (towards C04)
-/
namespace Sdd
open Spec

/-! ## leaves, `hasVar`, and the link `WFs → WF` -/

theorem VTree.varIndex?_isSome {t : VTree} {off v : Nat} :
    (t.varIndex? off v).isSome = true ↔ v ∈ t.leaves := by
  induction t generalizing off with
  | leaf w =>
    simp only [VTree.varIndex?, VTree.leaves, List.mem_singleton]
    by_cases h : w = v
    · simp [h]
    · simp [h]; exact fun e => h e.symm
  | node l r ihl ihr =>
    simp only [VTree.varIndex?, VTree.leaves, List.mem_append, ← ihl (off := off),
      ← ihr (off := off + l.size + 1)]
    cases h : l.varIndex? off v <;> simp

theorem hasVar_iff {t : VTree} {v : Nat} : t.hasVar v = true ↔ v ∈ t.leaves :=
  VTree.varIndex?_isSome

theorem leftLeaf_leftVars {vt : VTree} {i w : Nat} (h : vt.leftLeaf? i = some w) :
    vt.leftVars i = [w] := by
  obtain ⟨r, hr⟩ := leftLeaf_sub h
  simp [VTree.leftVars, hr, VTree.leaves]

theorem depW_of_vars {vt : VTree} {i : Nat} {p : Ptr} (h : ∀ v ∈ p.vars, v ∈ vt.leftVars i) :
    DepW (vt.leftLeaf? i) p := by
  intro w hw a a' e
  apply eval_congr
  intro v hv
  have := h v hv
  rw [leftLeaf_leftVars hw, List.mem_singleton] at this
  rw [this]; exact e

mutual
theorem WFs_WF {vt : VTree} : ∀ (p : Ptr), WFs vt p → WF vt p
  | .tru, _ => WF_tru vt
  | .fls, _ => WF_fls vt
  | .lit v _, h => by simp only [WFs] at h; simpa [WF] using hasVar_iff.2 h
  | .bdd c l i lo hi, h => by
    obtain ⟨hint, hl, wlo, whi, _⟩ := h
    have hlv : l ∈ vt.leaves := by
      obtain ⟨l', r', hs⟩ := hint
      simp only [VTree.leftVars, hs] at hl
      exact VTree.sub?_leaves hs l (by simp [VTree.leaves, hl])
    refine ⟨hasVar_iff.2 hlv, hint, ?_, WFs_WF lo wlo, WFs_WF hi whi⟩
    intro w hw
    rw [leftLeaf_leftVars hw, List.mem_singleton] at hl
    exact hl.symm
  | .dec c i es, h => by
    obtain ⟨hint, hpart, hok, _⟩ := h
    exact ⟨hint, hpart, WFsElems_WF es hok⟩
theorem WFsElems_WF {vt : VTree} {i : Nat} : ∀ (es : List (Ptr × Ptr)), WFsElems vt i es →
    WFElems vt (vt.leftLeaf? i) es
  | [], _ => by simp [WFElems]
  | (p, s) :: r, h => by
    obtain ⟨⟨wp, ws, _, vp, _⟩, hr⟩ := h
    exact ⟨WFs_WF p wp, WFs_WF s ws, depW_of_vars vp, WFsElems_WF r hr⟩
end

theorem sat_of_wfs {vt : VTree} (hnd : vt.leaves.Nodup) {p : Ptr} (wp : WFs vt p) (h : p ≠ .fls) :
    ∃ a, p.eval a = true := by
  apply Classical.byContradiction
  intro hno
  apply h
  apply (sdd_canon hnd wp (WFs_fls vt)).1
  intro a
  cases hp : p.eval a
  · simp
  · exact absurd ⟨a, hp⟩ hno

theorem tru_of_wfs {vt : VTree} (hnd : vt.leaves.Nodup) {p : Ptr} (wp : WFs vt p)
    (h : ∀ a, p.eval a = true) : p = .tru :=
  (sdd_canon hnd wp (WFs_tru vt)).1 (fun a => by rw [h]; simp)

theorem fls_of_wfs {vt : VTree} (hnd : vt.leaves.Nodup) {p : Ptr} (wp : WFs vt p)
    (h : ∀ a, p.eval a = false) : p = .fls :=
  (sdd_canon hnd wp (WFs_fls vt)).1 (fun a => by rw [h]; simp)

/-- the variables of a well formed pointer lie under its vtree node -/
theorem wfs_vars_at {vt : VTree} {p : Ptr} (wp : WFs vt p) :
    ∀ v ∈ p.vars, v ∈ vt.varsAt (vtreeIndex vt p) := by
  cases p with
  | tru => intro v hv; cases hv
  | fls => intro v hv; cases hv
  | lit w pol =>
    intro v hv
    simp only [Ptr.vars, List.mem_singleton] at hv; subst hv
    simp only [WFs] at wp
    have := hasVar_iff.2 wp
    simp only [VTree.hasVar, Option.isSome_iff_exists] at this
    obtain ⟨i, hi⟩ := this
    simp [vtreeIndex, hi, VTree.varsAt, VTree.varIndex?_sub hi, VTree.leaves]
  | bdd c l i lo hi =>
    intro v hv
    have hf := nodeFacts_bdd wp
    obtain ⟨l', r', hs⟩ := hf.internal
    have := hf.vars v hv
    simp only [VTree.leftVars, VTree.rightVars, hs] at this
    simpa [vtreeIndex, VTree.varsAt, hs, VTree.leaves] using this
  | dec c i es =>
    intro v hv
    have hf := nodeFacts_dec wp
    obtain ⟨l', r', hs⟩ := hf.internal
    have := hf.vars v hv
    simp only [VTree.leftVars, VTree.rightVars, hs] at this
    simpa [vtreeIndex, VTree.varsAt, hs, VTree.leaves] using this

/-- where the operands of `and` sit relative to their least common ancestor -/
theorem VTree.lca_sides {t : VTree} {off i j : Nat} {si sj : VTree}
    (hi : t.sub? off i = some si) (hj : t.sub? off j = some sj) (hij : i < j) :
    ∃ l r, t.sub? off (t.lca off i j) = some (.node l r) ∧
      (i < t.lca off i j → ∀ v ∈ si.leaves, v ∈ l.leaves) ∧
      (t.lca off i j < j → ∀ v ∈ sj.leaves, v ∈ r.leaves) ∧
      i ≤ t.lca off i j ∧ t.lca off i j ≤ j := by
  induction t generalizing off with
  | leaf w =>
    have := VTree.sub?_range hi; have := VTree.sub?_range hj
    simp only [VTree.size] at *; omega
  | node l r ihl ihr =>
    simp only [VTree.lca]
    split
    · rename_i hc
      rw [VTree.sub?_node_lt hc.1] at hi; rw [VTree.sub?_node_lt hc.2] at hj
      obtain ⟨l', r', h1, h2⟩ := ihl hi hj
      exact ⟨l', r', by rw [VTree.sub?_node_lt (VTree.lca_range l off i j).2]; exact h1, h2⟩
    · split
      · rename_i hc
        rw [VTree.sub?_node_gt hc.1] at hi; rw [VTree.sub?_node_gt hc.2] at hj
        obtain ⟨l', r', h1, h2⟩ := ihr hi hj
        refine ⟨l', r', ?_, h2⟩
        rw [VTree.sub?_node_gt (by have := (VTree.lca_range r (off + l.size + 1) i j).1; omega)]
        exact h1
      · rename_i hc1 hc2
        refine ⟨l, r, VTree.sub?_node_eq l r off, ?_, ?_, by omega, by omega⟩
        · intro h; rw [VTree.sub?_node_lt h] at hi; exact VTree.sub?_leaves hi
        · intro h; rw [VTree.sub?_node_gt h] at hj; exact VTree.sub?_leaves hj


/-! ## unique_bdd / unique_or produce normal forms -/

theorem regular_neg_of_not {s : Ptr} (h : s.regular = false) : s.neg.regular = true := by
  cases s with
  | tru => simp [Ptr.regular, Ptr.isNeg, Ptr.isFalse, Ptr.isNegVar] at h
  | fls => simp [Ptr.neg, Ptr.regular, Ptr.isNeg, Ptr.isFalse, Ptr.isNegVar]
  | lit v p => cases p <;> simp_all [Ptr.neg, Ptr.regular, Ptr.isNeg, Ptr.isFalse, Ptr.isNegVar]
  | bdd c l i lo hi => cases c <;> simp_all [Ptr.neg, Ptr.regular, Ptr.isNeg, Ptr.isFalse, Ptr.isNegVar]
  | dec c i es => cases c <;> simp_all [Ptr.neg, Ptr.regular, Ptr.isNeg, Ptr.isFalse, Ptr.isNegVar]

theorem leftVars_leaves {vt : VTree} {i l : Nat} (hl : l ∈ vt.leftVars i) : l ∈ vt.leaves := by
  simp only [VTree.leftVars] at hl
  cases hs : vt.sub? 0 i with
  | none => simp [hs] at hl
  | some s =>
    cases s with
    | leaf w => simp [hs] at hl
    | node l' r' =>
      simp only [hs] at hl
      exact VTree.sub?_leaves hs l (by simp [VTree.leaves, hl])

theorem uniqueBdd_wfs {vt : VTree} {l i : Nat} {lo hi : Ptr} (hint : Internal vt i)
    (hl : l ∈ vt.leftVars i) (wlo : WFs vt lo) (whi : WFs vt hi)
    (vlo : ∀ v ∈ lo.vars, v ∈ vt.rightVars i) (vhi : ∀ v ∈ hi.vars, v ∈ vt.rightVars i) :
    WFs vt (uniqueBdd l lo hi i) ∧
      ∀ v ∈ (uniqueBdd l lo hi i).vars, v = l ∨ v ∈ lo.vars ∨ v ∈ hi.vars := by
  simp only [uniqueBdd]
  split
  · exact ⟨whi, fun v hv => Or.inr (Or.inr hv)⟩
  · rename_i hne
    split
    · exact ⟨leftVars_leaves hl, fun v hv => Or.inl (by simpa [Ptr.vars] using hv)⟩
    · rename_i h2
      split
      · exact ⟨leftVars_leaves hl, fun v hv => Or.inl (by simpa [Ptr.vars] using hv)⟩
      · rename_i h3
        have hne' : lo ≠ hi := fun e => hne e.symm
        have c1 : ¬(hi = .fls ∧ lo = .tru) := by
          rintro ⟨rfl, rfl⟩; simp [Ptr.isFalse, Ptr.isTrue] at h2
        have c2 : ¬(hi = .tru ∧ lo = .fls) := by
          rintro ⟨rfl, rfl⟩; simp [Ptr.isFalse, Ptr.isTrue] at h3
        split
        · rename_i hneg
          refine ⟨⟨hint, hl, WFs_neg wlo, WFs_neg whi, by rw [vars_neg]; exact vlo,
            by rw [vars_neg]; exact vhi, fun e => hne' (neg_inj e), ?_, ?_, ?_⟩, ?_⟩
          · rintro ⟨e1, e2⟩
            have e1' := congrArg Ptr.neg e1; rw [neg_neg] at e1'
            have e2' := congrArg Ptr.neg e2; rw [neg_neg] at e2'
            exact c1 ⟨e1', e2'⟩
          · rintro ⟨e1, e2⟩
            have e1' := congrArg Ptr.neg e1; rw [neg_neg] at e1'
            have e2' := congrArg Ptr.neg e2; rw [neg_neg] at e2'
            exact c2 ⟨e1', e2'⟩
          · apply regular_neg_of_not
            simp only [Ptr.regular, hneg, Bool.not_true]
          · intro v hv
            simp only [Ptr.vars, vars_neg, List.mem_cons, List.mem_append] at hv
            exact hv
        · rename_i hneg
          refine ⟨⟨hint, hl, wlo, whi, vlo, vhi, hne', c2, c1, ?_⟩, ?_⟩
          · simp only [Ptr.regular]
            simp only [Bool.not_eq_true] at hneg
            rw [hneg]; rfl
          · intro v hv
            simp only [Ptr.vars, List.mem_cons, List.mem_append] at hv
            exact hv

/-- primes of a partition with satisfiable primes are pairwise different -/
theorem primes_nodup {es : List Elem} (hp : ∀ a, cnt a es ≤ 1) (hs : ∀ e ∈ es, ∃ a, e.1.eval a = true) :
    (es.map (·.1)).Nodup := by
  induction es with
  | nil => simp
  | cons x l ih =>
    simp only [List.map_cons, List.nodup_cons]
    refine ⟨?_, ih (fun a => by have := hp a; rw [cnt_cons] at this; omega)
      (fun e he => hs e (List.mem_cons_of_mem _ he))⟩
    intro hmem
    obtain ⟨e, he, hex⟩ := List.mem_map.1 hmem
    obtain ⟨a, ha⟩ := hs x (List.mem_cons_self ..)
    have h1 := hp a
    rw [cnt_cons, ha] at h1
    have h2 := cnt_pos_of_mem (a := a) he (by rw [hex]; exact ha)
    simp only [if_true] at h1; omega

theorem subs_insertByPrime {x : Elem} {l : List Elem} (h : ((x :: l).map (·.2)).Nodup) :
    ((insertByPrime x l).map (·.2)).Nodup := by
  induction l with
  | nil => simpa [insertByPrime] using h
  | cons y ys ih =>
    simp only [insertByPrime]
    split
    · simp only [List.map_cons, List.nodup_cons, List.mem_cons, not_or] at h ⊢
      obtain ⟨⟨h1, h2⟩, h3, h4⟩ := h
      refine ⟨?_, ih (by simp only [List.map_cons, List.nodup_cons]; exact ⟨h2, h4⟩)⟩
      intro hm
      obtain ⟨e, he, hex⟩ := List.mem_map.1 hm
      rcases mem_insertByPrime.1 he with rfl | h'
      · exact h1 hex
      · exact h3 (hex ▸ List.mem_map_of_mem h')
    · exact h

theorem subs_sortByPrime {l : List Elem} (h : (l.map (·.2)).Nodup) :
    ((sortByPrime l).map (·.2)).Nodup := by
  induction l with
  | nil => simp [sortByPrime]
  | cons x xs ih =>
    simp only [sortByPrime]
    apply subs_insertByPrime
    simp only [List.map_cons, List.nodup_cons] at h ⊢
    refine ⟨?_, ih h.2⟩
    intro hm
    obtain ⟨e, he, hex⟩ := List.mem_map.1 hm
    rw [mem_sortByPrime] at he
    exact h.1 (hex ▸ List.mem_map_of_mem he)

theorem subs_negSubs {l : List Elem} (h : (l.map (·.2)).Nodup) :
    ((negSubs l).map (·.2)).Nodup := by
  have : (negSubs l).map (·.2) = (l.map (·.2)).map Ptr.neg := by
    simp [negSubs, List.map_map, Function.comp_def]
  rw [this]
  exact List.Pairwise.map _ (fun a b hab e => hab (neg_inj e)) h

theorem length_insertByPrime (x : Elem) (l : List Elem) :
    (insertByPrime x l).length = l.length + 1 := by
  induction l with
  | nil => rfl
  | cons y ys ih => simp only [insertByPrime]; split <;> simp [ih]

theorem length_sortByPrime (l : List Elem) : (sortByPrime l).length = l.length := by
  induction l with
  | nil => rfl
  | cons x xs ih => simp [sortByPrime, length_insertByPrime, ih]

theorem sortByPrime_two (x y : Elem) :
    sortByPrime [x, y] = [x, y] ∨ sortByPrime [x, y] = [y, x] := by
  simp only [sortByPrime, insertByPrime]
  split
  · exact Or.inr rfl
  · exact Or.inl rfl


/-- the trimmable two-element shapes -/
def Trim2 (es : List Elem) : Prop :=
  ∃ p q, es = [(p, .tru), (q, .fls)] ∨ es = [(p, .fls), (q, .tru)]

theorem trim2_swap {e1 e2 : Elem} (h : Trim2 [e2, e1]) : Trim2 [e1, e2] := by
  obtain ⟨p, q, h | h⟩ := h
  · simp only [List.cons.injEq, and_true] at h
    obtain ⟨rfl, rfl⟩ := h
    exact ⟨q, p, Or.inr rfl⟩
  · simp only [List.cons.injEq, and_true] at h
    obtain ⟨rfl, rfl⟩ := h
    exact ⟨q, p, Or.inl rfl⟩

theorem trim2_negSubs {es : List Elem} (h : Trim2 (negSubs es)) : Trim2 es := by
  obtain ⟨p, q, h⟩ := h
  have hl : es.length = 2 := by
    rcases h with h | h <;> (have := congrArg List.length h; simpa [negSubs] using this)
  match es, hl with
  | [e1, e2], _ =>
    rcases h with h | h
    · simp only [negSubs, List.map_cons, List.map_nil, List.cons.injEq, Prod.mk.injEq, and_true] at h
      obtain ⟨⟨h1, h2⟩, h3, h4⟩ := h
      refine ⟨p, q, Or.inr ?_⟩
      have e1' := congrArg Ptr.neg h2; rw [neg_neg] at e1'
      have e2' := congrArg Ptr.neg h4; rw [neg_neg] at e2'
      rw [← h1, ← h3]
      simp only [List.cons.injEq, and_true]
      exact ⟨Prod.ext rfl e1', Prod.ext rfl e2'⟩
    · simp only [negSubs, List.map_cons, List.map_nil, List.cons.injEq, Prod.mk.injEq, and_true] at h
      obtain ⟨⟨h1, h2⟩, h3, h4⟩ := h
      refine ⟨p, q, Or.inl ?_⟩
      have e1' := congrArg Ptr.neg h2; rw [neg_neg] at e1'
      have e2' := congrArg Ptr.neg h4; rw [neg_neg] at e2'
      rw [← h1, ← h3]
      simp only [List.cons.injEq, and_true]
      exact ⟨Prod.ext rfl e1', Prod.ext rfl e2'⟩

theorem not_trim2_of_canonBase {es : List Elem} (h : canonBase? es = none) : ¬ Trim2 es := by
  rintro ⟨p, q, rfl | rfl⟩ <;> simp [canonBase?, Ptr.isTrue, Ptr.isFalse] at h

theorem asBdd?_swap {e1 e2 : Elem} (h : asBdd? [e1, e2] = none) : asBdd? [e2, e1] = none := by
  obtain ⟨p1, s1⟩ := e1
  obtain ⟨p2, s2⟩ := e2
  cases p1 <;> cases p2 <;> simp_all [asBdd?]

theorem asBdd?_length {es : List Elem} {x} (h : asBdd? es = some x) : es.length = 2 := by
  obtain ⟨l, lo, hi⟩ := x
  obtain ⟨_, _, _, _, _, rfl, _⟩ := asBdd?_some h
  rfl

theorem negSubs_length (es : List Elem) : (negSubs es).length = es.length := by simp [negSubs]

theorem asBdd?_negSubs {es : List Elem} (h : asBdd? es = none) : asBdd? (negSubs es) = none := by
  cases hx : asBdd? (negSubs es) with
  | none => rfl
  | some x =>
    exfalso
    have hl := asBdd?_length hx
    rw [negSubs_length] at hl
    match es, hl with
    | [(p1, s1), (p2, s2)], _ => cases p1 <;> cases p2 <;> simp_all [asBdd?, negSubs]

theorem varsElems_negSubs (es : List Elem) : ∀ v, v ∈ varsElems (negSubs es) ↔ v ∈ varsElems es := by
  intro v
  simp only [mem_varsElems, mem_negSubs]
  constructor
  · rintro ⟨e, ⟨e0, h0, rfl⟩, h⟩
    exact ⟨e0, h0, by simpa [vars_neg] using h⟩
  · rintro ⟨e, he, h⟩
    exact ⟨(e.1, e.2.neg), ⟨e, he, rfl⟩, by simpa [vars_neg] using h⟩

theorem uniqueOr_wfs {vt : VTree} (hnd : vt.leaves.Nodup) {es : List Elem} {i : Nat} {r : Ptr}
    (hint : Internal vt i) (hpart : Partition es) (hok : ∀ e ∈ es, ElemOKs vt i e)
    (hsubs : (es.map (·.2)).Nodup) (hbase : canonBase? es = none)
    (h : uniqueOr es i = some r) : WFs vt r ∧ ∀ v ∈ r.vars, v ∈ varsElems es := by
  simp only [uniqueOr] at h
  split at h
  · rename_i l lo hi hb
    cases h
    obtain ⟨x, pol, p1, s0, s1, rfl, rfl, rfl⟩ := asBdd?_some hb
    obtain ⟨rfl, rfl⟩ := partition_two_lits hpart
    have h0 := hok _ (List.mem_cons_self ..)
    have h1 := hok _ (List.mem_cons_of_mem _ (List.mem_cons_self ..))
    have hl : x ∈ vt.leftVars i := h1.2.2.2.1 x (by simp [Ptr.vars])
    have key := uniqueBdd_wfs (l := x) (lo := if (!(!p1)) = true then s0 else s1)
      (hi := if (!p1) = true then s0 else s1) hint hl
      (by cases p1 <;> simp <;> first | exact h0.2.1 | exact h1.2.1)
      (by cases p1 <;> simp <;> first | exact h0.2.1 | exact h1.2.1)
      (by cases p1 <;> simp <;> first | exact h0.2.2.2.2 | exact h1.2.2.2.2)
      (by cases p1 <;> simp <;> first | exact h0.2.2.2.2 | exact h1.2.2.2.2)
    refine ⟨key.1, fun v hv => ?_⟩
    rcases key.2 v hv with rfl | hv | hv
    · simp [varsElems, Ptr.vars]
    · cases p1 <;> simp at hv <;> simp [varsElems, hv]
    · cases p1 <;> simp at hv <;> simp [varsElems, hv]
  · rename_i hnb
    -- at least two elements
    have hlen : 2 ≤ es.length := by
      match es, hbase, hpart, hok with
      | [], _, hpart, _ => have := hpart (fun _ => true); simp at this
      | [(p, s)], hbase, hpart, hok =>
        exfalso
        have hp : p = .tru := tru_of_wfs hnd (hok (p, s) (by simp)).1 (fun a => by
          have := hpart a
          simp only [cnt_cons, cnt_nil] at this
          cases h : p.eval a
          · simp [h] at this
          · rfl)
        subst hp
        simp [canonBase?, Ptr.isTrue] at hbase
      | _ :: _ :: _, _, _, _ => simp
    have hsat : ∀ e ∈ es, ∃ a, e.1.eval a = true :=
      fun e he => sat_of_wfs hnd (hok e he).1 (hok e he).2.2.1
    have hsorted : StrictSorted (sortByPrime es) :=
      strictSorted_sort (primes_nodup (fun a => by rw [hpart a]; exact Nat.le_refl 1) hsat)
    have hshape : asBdd? (sortByPrime es) = none ∧ ¬ Trim2 (sortByPrime es) := by
      match es, hnb, hbase, hlen with
      | [e1, e2], hnb, hbase, _ =>
        rcases sortByPrime_two e1 e2 with h' | h' <;> rw [h']
        · exact ⟨hnb, not_trim2_of_canonBase hbase⟩
        · exact ⟨asBdd?_swap hnb, fun ht => not_trim2_of_canonBase hbase (trim2_swap ht)⟩
      | e1 :: e2 :: e3 :: rest, _, _, _ =>
        have hl3 : 3 ≤ (sortByPrime (e1 :: e2 :: e3 :: rest)).length := by
          rw [length_sortByPrime]; simp
        constructor
        · cases hx : asBdd? (sortByPrime (e1 :: e2 :: e3 :: rest)) with
          | none => rfl
          | some x => have := asBdd?_length hx; omega
        · rintro ⟨p, q, h' | h'⟩ <;> rw [h'] at hl3 <;> simp at hl3
    have hok' : ∀ e ∈ sortByPrime es, ElemOKs vt i e := fun e he => hok e (mem_sortByPrime.1 he)
    have hvars : ∀ v, v ∈ varsElems (sortByPrime es) ↔ v ∈ varsElems es := by
      intro v; simp only [mem_varsElems, mem_sortByPrime]
    have hlen' : 2 ≤ (sortByPrime es).length := by rw [length_sortByPrime]; exact hlen
    have hsubs' := subs_sortByPrime hsubs
    have hpart' : Partition (sortByPrime es) := fun a => by rw [cnt_sortByPrime]; exact hpart a
    split at h
    · cases h
    · rename_i p0 s0 rest hs
      rw [hs] at hsorted hshape hok' hvars hlen' hsubs' hpart'
      split at h
      · rename_i hreg
        cases h
        refine ⟨⟨hint, fun a => by rw [cnt_negSubs]; exact hpart' a, ?_, subs_negSubs hsubs',
          strictSorted_negSubs hsorted, by rw [negSubs_length]; exact hlen',
          asBdd?_negSubs hshape.1, ?_, ?_⟩, ?_⟩
        · rw [wfsElems_iff]
          intro e he
          obtain ⟨e0, h0, rfl⟩ := mem_negSubs.1 he
          obtain ⟨a1, a2, a3, a4, a5⟩ := hok' e0 h0
          exact ⟨a1, WFs_neg a2, a3, a4, by simpa [vars_neg] using a5⟩
        · intro p q
          constructor
          · intro h'; exact hshape.2 (trim2_negSubs ⟨p, q, Or.inl h'⟩)
          · intro h'; exact hshape.2 (trim2_negSubs ⟨p, q, Or.inr h'⟩)
        · intro e he
          simp only [negSubs, List.map_cons, List.head?_cons, Option.some.injEq] at he
          subst he
          apply regular_neg_of_not
          simp only [Ptr.regular, hreg, Bool.not_true]
        · intro v hv
          simp only [Ptr.vars] at hv
          exact (hvars v).1 ((varsElems_negSubs _ v).1 hv)
      · rename_i hreg
        cases h
        refine ⟨⟨hint, hpart', wfsElems_iff.2 hok', hsubs', hsorted, hlen', hshape.1, ?_, ?_⟩, ?_⟩
        · intro p q
          exact ⟨fun h' => hshape.2 ⟨p, q, Or.inl h'⟩, fun h' => hshape.2 ⟨p, q, Or.inr h'⟩⟩
        · intro e he
          simp only [List.head?_cons, Option.some.injEq] at he
          subst he
          simp only [Ptr.regular]
          simp only [Bool.not_eq_true] at hreg
          rw [hreg]; rfl
        · intro v hv
          simp only [Ptr.vars] at hv
          exact (hvars v).1 hv


/-! ## the recursive call, abstractly (structural version) -/

def AndOKs {σ : Type} (P : σ → Prop) (vt : VTree) (andF : AndF σ) : Prop :=
  ∀ st a b st' r, P st → WFs vt a → WFs vt b → andF st a b = some (st', r) →
    P st' ∧ WFs vt r ∧ (∀ v ∈ r.vars, v ∈ a.vars ∨ v ∈ b.vars) ∧
      ∀ asg, r.eval asg = (a.eval asg && b.eval asg)

theorem orF_oks {σ : Type} {P : σ → Prop} {vt : VTree} {andF : AndF σ} (hand : AndOKs P vt andF)
    {st a b st' r} (hP : P st) (wa : WFs vt a) (wb : WFs vt b) (h : orF andF st a b = some (st', r)) :
    P st' ∧ WFs vt r ∧ (∀ v ∈ r.vars, v ∈ a.vars ∨ v ∈ b.vars) ∧
      ∀ asg, r.eval asg = (a.eval asg || b.eval asg) := by
  simp only [orF] at h
  split at h
  · rename_i st1 r1 h1
    cases h
    obtain ⟨hp, wr, vr, er⟩ := hand _ _ _ _ _ hP (WFs_neg wa) (WFs_neg wb) h1
    refine ⟨hp, WFs_neg wr, ?_, fun asg => ?_⟩
    · intro v hv; rw [vars_neg] at hv; simpa [vars_neg] using vr v hv
    · rw [eval_neg, er, eval_neg, eval_neg]; cases a.eval asg <;> cases b.eval asg <;> rfl
  · cases h

/-- what a prime must satisfy -/
def PrimeOKs (vt : VTree) (i : Nat) (p : Ptr) : Prop :=
  WFs vt p ∧ p ≠ .fls ∧ ∀ v ∈ p.vars, v ∈ vt.leftVars i

section compressS
variable {σ : Type} {P : σ → Prop} {vt : VTree} {andF : AndF σ} {i : Nat}

theorem or_primeOKs (hnd : vt.leaves.Nodup) (hand : AndOKs P vt andF) {st st' : σ} {p q r : Ptr}
    (hP : P st) (hp : PrimeOKs vt i p) (hq : PrimeOKs vt i q) (h : orF andF st p q = some (st', r)) :
    P st' ∧ PrimeOKs vt i r := by
  obtain ⟨hP', wr, vr, er⟩ := orF_oks hand hP hp.1 hq.1 h
  refine ⟨hP', wr, ?_, ?_⟩
  · rintro rfl
    obtain ⟨a, ha⟩ := sat_of_wfs hnd hp.1 hp.2.1
    have := er a; simp [ha] at this
  · intro v hv
    rcases vr v hv with h' | h'
    · exact hp.2.2 v h'
    · exact hq.2.2 v h'

theorem compressInner_oks (hnd : vt.leaves.Nodup) (hand : AndOKs P vt andF) (s : Ptr) :
    ∀ (n : Nat) (st : σ) (p : Ptr) (done rem : List Elem) (st' : σ) (p' : Ptr) (out : List Elem),
    P st → PrimeOKs vt i p → (∀ e ∈ done, ElemOKs vt i e ∧ e.2 ≠ s) → (∀ e ∈ rem, ElemOKs vt i e) →
    rem.length ≤ n →
    compressInner andF s n st p done rem = some (st', p', out) →
    P st' ∧ PrimeOKs vt i p' ∧ (∀ e ∈ out, ElemOKs vt i e ∧ e.2 ≠ s) ∧
      out.length ≤ done.length + rem.length ∧ ∀ e ∈ out, e ∈ done ++ rem := by
  intro n
  induction n with
  | zero =>
    intro st p done rem st' p' out hP hp hd hr hlen h
    have : rem = [] := List.length_eq_zero_iff.1 (by omega)
    subst this
    simp only [compressInner, List.append_nil] at h
    cases h
    exact ⟨hP, hp, hd, by simp, fun e he => by simpa using he⟩
  | succ n ih =>
    intro st p done rem st' p' out hP hp hd hr hlen h
    cases rem with
    | nil =>
      simp only [compressInner] at h
      cases h
      exact ⟨hP, hp, hd, by simp, fun e he => by simpa using he⟩
    | cons x rest =>
      obtain ⟨q, t⟩ := x
      simp only [compressInner] at h
      have hx := hr (q, t) (List.mem_cons_self ..)
      have hrest : ∀ e ∈ rest, ElemOKs vt i e := fun e he => hr e (List.mem_cons_of_mem _ he)
      split at h
      · rename_i hst
        split at h
        · cases h
        · rename_i st1 p1 hor
          obtain ⟨hP1, hp1⟩ := or_primeOKs hnd hand hP hp ⟨hx.1, hx.2.2.1, hx.2.2.2.1⟩ hor
          have hrem' : ∀ e ∈ swapRemoveHead ((q, t) :: rest), ElemOKs vt i e :=
            fun e he => hrest e (swapRemoveHead_mem he)
          have hl' : (swapRemoveHead ((q, t) :: rest)).length ≤ n := by
            rw [swapRemoveHead_length]; simpa using hlen
          obtain ⟨a1, a2, a3, a4, a5⟩ := ih _ _ _ _ _ _ _ hP1 hp1 hd hrem' hl' h
          refine ⟨a1, a2, a3, ?_, ?_⟩
          · rw [swapRemoveHead_length] at a4; simp only [List.length_cons]; omega
          · intro e he
            rcases List.mem_append.1 (a5 e he) with h' | h'
            · exact List.mem_append.2 (Or.inl h')
            · exact List.mem_append.2 (Or.inr (List.mem_cons_of_mem _ (swapRemoveHead_mem h')))
      · rename_i hst
        have hd' : ∀ e ∈ done ++ [(q, t)], ElemOKs vt i e ∧ e.2 ≠ s := by
          intro e he
          rcases List.mem_append.1 he with h' | h'
          · exact hd e h'
          · simp only [List.mem_singleton] at h'; subst h'
            exact ⟨hx, fun e => hst e.symm⟩
        obtain ⟨a1, a2, a3, a4, a5⟩ := ih _ _ _ _ _ _ _ hP hp hd' hrest (by simpa using hlen) h
        refine ⟨a1, a2, a3, ?_, ?_⟩
        · simp only [List.length_append, List.length_cons, List.length_nil] at a4 ⊢; omega
        · intro e he; simpa using a5 e he

theorem compressOuter_oks (hnd : vt.leaves.Nodup) (hand : AndOKs P vt andF) :
    ∀ (n : Nat) (st : σ) (l : List Elem) (st' : σ) (out : List Elem),
    P st → (∀ e ∈ l, ElemOKs vt i e) → l.length ≤ n →
    compressOuter andF n st l = some (st', out) →
    P st' ∧ (∀ e ∈ out, ElemOKs vt i e) ∧ (out.map (·.2)).Nodup ∧
      ∀ e ∈ out, ∃ e' ∈ l, e.2 = e'.2 := by
  intro n
  induction n with
  | zero =>
    intro st l st' out hP hl hlen h
    have : l = [] := List.length_eq_zero_iff.1 (by omega)
    subst this
    simp only [compressOuter] at h; cases h
    exact ⟨hP, hl, by simp, fun e he => by cases he⟩
  | succ n ih =>
    intro st l st' out hP hl hlen h
    cases l with
    | nil =>
      simp only [compressOuter] at h; cases h
      exact ⟨hP, hl, by simp, fun e he => by cases he⟩
    | cons x rest =>
      obtain ⟨p, s⟩ := x
      simp only [compressOuter] at h
      have hx := hl (p, s) (List.mem_cons_self ..)
      have hrest : ∀ e ∈ rest, ElemOKs vt i e := fun e he => hl e (List.mem_cons_of_mem _ he)
      split at h
      · cases h
      · rename_i st1 p' rest' hin
        obtain ⟨hP1, hp', hout1, hlen1, hmem1⟩ :=
          compressInner_oks hnd hand s _ _ _ _ _ _ _ _ hP ⟨hx.1, hx.2.2.1, hx.2.2.2.1⟩
            (fun e he => by cases he) hrest (Nat.le_refl _) hin
        split at h
        · cases h
        · rename_i st2 out2 hrec
          cases h
          simp only [List.length_nil, Nat.zero_add, List.nil_append] at hlen1 hmem1
          obtain ⟨hP2, hout2, hnd2, hsub2⟩ :=
            ih _ _ _ _ hP1 (fun e he => (hout1 e he).1) (by simp only [List.length_cons] at hlen; omega) hrec
          refine ⟨hP2, ?_, ?_, ?_⟩
          · intro e he
            rcases List.mem_cons.1 he with rfl | h'
            · exact ⟨hp'.1, hx.2.1, hp'.2.1, hp'.2.2, hx.2.2.2.2⟩
            · exact hout2 e h'
          · simp only [List.map_cons, List.nodup_cons]
            refine ⟨?_, hnd2⟩
            intro hm
            obtain ⟨e, he, hes⟩ := List.mem_map.1 hm
            obtain ⟨e', he', hee⟩ := hsub2 e he
            exact (hout1 e' he').2 (by rw [← hee]; exact hes)
          · intro e he
            rcases List.mem_cons.1 he with rfl | h'
            · exact ⟨(p, s), List.mem_cons_self .., rfl⟩
            · obtain ⟨e', he', hee⟩ := hsub2 e h'
              exact ⟨e', List.mem_cons_of_mem _ (hmem1 e' he'), hee⟩

theorem canonBase_wfs {es : List Elem} {r : Ptr} (hpart : Partition es)
    (hok : ∀ e ∈ es, ElemOKs vt i e) (h : canonBase? es = some r) :
    WFs vt r ∧ ∀ v ∈ r.vars, v ∈ varsElems es := by
  unfold canonBase? at h
  split at h
  · have := hpart (fun _ => true); simp at this
  · have h0 := hok _ (List.mem_cons_self ..)
    split at h
    · cases h; exact ⟨h0.2.1, fun v hv => by simp [varsElems, hv]⟩
    · split at h
      · cases h; exact ⟨WFs_fls vt, fun v hv => by cases hv⟩
      · cases h
  · have h0 := hok _ (List.mem_cons_self ..)
    have h1 := hok _ (List.mem_cons_of_mem _ (List.mem_cons_self ..))
    split at h
    · cases h; exact ⟨h0.1, fun v hv => by simp [varsElems, hv]⟩
    · split at h
      · cases h; exact ⟨h1.1, fun v hv => by simp [varsElems, hv]⟩
      · cases h
  · cases h

/-- with compression on, `canonicalize` returns a pointer in normal form -/
theorem canonicalize_wfs (hnd : vt.leaves.Nodup) (hand : AndOK P vt andF) (hands : AndOKs P vt andF)
    {st : σ} {l : List Elem} {st' : σ} {r : Ptr} (hP : P st) (hint : Internal vt i)
    (hpart : Partition l) (hok : ∀ e ∈ l, ElemOKs vt i e)
    (h : canonicalize true andF st l i = some (st', r)) :
    P st' ∧ WFs vt r ∧ ∀ v ∈ r.vars, v ∈ vt.leftVars i ∨ v ∈ vt.rightVars i := by
  have hvars : ∀ {es : List Elem}, (∀ e ∈ es, ElemOKs vt i e) → ∀ v ∈ varsElems es,
      v ∈ vt.leftVars i ∨ v ∈ vt.rightVars i := by
    intro es hes v hv
    obtain ⟨e, he, hv | hv⟩ := mem_varsElems.1 hv
    · exact Or.inl ((hes e he).2.2.2.1 v hv)
    · exact Or.inr ((hes e he).2.2.2.2 v hv)
  have hokC : ElemsOK vt (vt.leftLeaf? i) l := fun e he =>
    ⟨WFs_WF _ (hok e he).1, WFs_WF _ (hok e he).2.1, depW_of_vars (hok e he).2.2.2.1⟩
  simp only [canonicalize] at h
  split at h
  · rename_i r0 hb
    cases h
    obtain ⟨w, v⟩ := canonBase_wfs hpart hok hb
    exact ⟨hP, w, fun x hx => hvars hok x (v x hx)⟩
  · rename_i hb0
    simp only [if_true] at h
    split at h
    · cases h
    · rename_i st1 l1 hc
      obtain ⟨hP1, _, hpart1, _⟩ := compress_ok hand hP hokC hpart hc
      obtain ⟨_, hok1, hnd1, _⟩ := compressOuter_oks hnd hands _ _ _ _ _ hP hok (Nat.le_refl _) hc
      split at h
      · rename_i r0 hb
        cases h
        obtain ⟨w, v⟩ := canonBase_wfs hpart1 hok1 hb
        exact ⟨hP1, w, fun x hx => hvars hok1 x (v x hx)⟩
      · rename_i hb
        simp only [Option.map_eq_some_iff] at h
        obtain ⟨r0, hu, he⟩ := h
        cases he
        obtain ⟨w, v⟩ := uniqueOr_wfs hnd hint hpart1 hok1 hnd1 hb hu
        exact ⟨hP1, w, fun x hx => hvars hok1 x (v x hx)⟩

end compressS

end Sdd
