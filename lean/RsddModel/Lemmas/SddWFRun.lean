import RsddModel.Lemmas.SddWF
/-!
# SDD lemmas, part 4: the compressing builder only hands out `WFs` pointers (towards C04)
-/
namespace Sdd
open Spec

/-! ## leaves, `hasVar`, and the link `WFs → WF` -/

theorem VTree.varIndex?_isSome {t : VTree} {off v : Nat} :
    (t.varIndex? off v).isSome = true ↔ v ∈ t.leaves := by
  induction t generalizing off with
  | leaf w =>
    simp only [VTree.varIndex?, VTree.leaves, List.mem_singleton]
    by_cases h : w = v
    · simp [h]
    · simp [h]; exact fun e => h e.symm
  | node l r ihl ihr =>
    simp only [VTree.varIndex?, VTree.leaves, List.mem_append, ← ihl (off := off),
      ← ihr (off := off + l.size + 1)]
    cases h : l.varIndex? off v <;> simp

theorem hasVar_iff {t : VTree} {v : Nat} : t.hasVar v = true ↔ v ∈ t.leaves :=
  VTree.varIndex?_isSome

theorem leftLeaf_leftVars {vt : VTree} {i w : Nat} (h : vt.leftLeaf? i = some w) :
    vt.leftVars i = [w] := by
  obtain ⟨r, hr⟩ := leftLeaf_sub h
  simp [VTree.leftVars, hr, VTree.leaves]

theorem depW_of_vars {vt : VTree} {i : Nat} {p : Ptr} (h : ∀ v ∈ p.vars, v ∈ vt.leftVars i) :
    DepW (vt.leftLeaf? i) p := by
  intro w hw a a' e
  apply eval_congr
  intro v hv
  have := h v hv
  rw [leftLeaf_leftVars hw, List.mem_singleton] at this
  rw [this]; exact e

mutual
theorem WFs_WF {vt : VTree} : ∀ (p : Ptr), WFs vt p → WF vt p
  | .tru, _ => WF_tru vt
  | .fls, _ => WF_fls vt
  | .lit v _, h => by simp only [WFs] at h; simpa [WF] using hasVar_iff.2 h
  | .bdd c l i lo hi, h => by
    obtain ⟨hint, hl, wlo, whi, _⟩ := h
    have hlv : l ∈ vt.leaves := by
      obtain ⟨l', r', hs⟩ := hint
      simp only [VTree.leftVars, hs] at hl
      exact VTree.sub?_leaves hs l (by simp [VTree.leaves, hl])
    refine ⟨hasVar_iff.2 hlv, hint, ?_, WFs_WF lo wlo, WFs_WF hi whi⟩
    intro w hw
    rw [leftLeaf_leftVars hw, List.mem_singleton] at hl
    exact hl.symm
  | .dec c i es, h => by
    obtain ⟨hint, hpart, hok, _⟩ := h
    exact ⟨hint, hpart, WFsElems_WF es hok⟩
theorem WFsElems_WF {vt : VTree} {i : Nat} : ∀ (es : List (Ptr × Ptr)), WFsElems vt i es →
    WFElems vt (vt.leftLeaf? i) es
  | [], _ => by simp [WFElems]
  | (p, s) :: r, h => by
    obtain ⟨⟨wp, ws, _, vp, _⟩, hr⟩ := h
    exact ⟨WFs_WF p wp, WFs_WF s ws, depW_of_vars vp, WFsElems_WF r hr⟩
end

theorem sat_of_wfs {vt : VTree} (hnd : vt.leaves.Nodup) {p : Ptr} (wp : WFs vt p) (h : p ≠ .fls) :
    ∃ a, p.eval a = true := by
  apply Classical.byContradiction
  intro hno
  apply h
  apply (sdd_canon hnd wp (WFs_fls vt)).1
  intro a
  cases hp : p.eval a
  · simp
  · exact absurd ⟨a, hp⟩ hno

theorem tru_of_wfs {vt : VTree} (hnd : vt.leaves.Nodup) {p : Ptr} (wp : WFs vt p)
    (h : ∀ a, p.eval a = true) : p = .tru :=
  (sdd_canon hnd wp (WFs_tru vt)).1 (fun a => by rw [h]; simp)

theorem fls_of_wfs {vt : VTree} (hnd : vt.leaves.Nodup) {p : Ptr} (wp : WFs vt p)
    (h : ∀ a, p.eval a = false) : p = .fls :=
  (sdd_canon hnd wp (WFs_fls vt)).1 (fun a => by rw [h]; simp)

/-- the variables of a well formed pointer lie under its vtree node -/
theorem wfs_vars_at {vt : VTree} {p : Ptr} (wp : WFs vt p) :
    ∀ v ∈ p.vars, v ∈ vt.varsAt (vtreeIndex vt p) := by
  cases p with
  | tru => intro v hv; cases hv
  | fls => intro v hv; cases hv
  | lit w pol =>
    intro v hv
    simp only [Ptr.vars, List.mem_singleton] at hv; subst hv
    simp only [WFs] at wp
    have := hasVar_iff.2 wp
    simp only [VTree.hasVar, Option.isSome_iff_exists] at this
    obtain ⟨i, hi⟩ := this
    simp [vtreeIndex, hi, VTree.varsAt, VTree.varIndex?_sub hi, VTree.leaves]
  | bdd c l i lo hi =>
    intro v hv
    have hf := nodeFacts_bdd wp
    obtain ⟨l', r', hs⟩ := hf.internal
    have := hf.vars v hv
    simp only [VTree.leftVars, VTree.rightVars, hs] at this
    simpa [vtreeIndex, VTree.varsAt, hs, VTree.leaves] using this
  | dec c i es =>
    intro v hv
    have hf := nodeFacts_dec wp
    obtain ⟨l', r', hs⟩ := hf.internal
    have := hf.vars v hv
    simp only [VTree.leftVars, VTree.rightVars, hs] at this
    simpa [vtreeIndex, VTree.varsAt, hs, VTree.leaves] using this

/-- where the operands of `and` sit relative to their least common ancestor -/
theorem VTree.lca_sides {t : VTree} {off i j : Nat} {si sj : VTree}
    (hi : t.sub? off i = some si) (hj : t.sub? off j = some sj) (hij : i < j) :
    ∃ l r, t.sub? off (t.lca off i j) = some (.node l r) ∧
      (i < t.lca off i j → ∀ v ∈ si.leaves, v ∈ l.leaves) ∧
      (t.lca off i j < j → ∀ v ∈ sj.leaves, v ∈ r.leaves) ∧
      i ≤ t.lca off i j ∧ t.lca off i j ≤ j := by
  induction t generalizing off with
  | leaf w =>
    have := VTree.sub?_range hi; have := VTree.sub?_range hj
    simp only [VTree.size] at *; omega
  | node l r ihl ihr =>
    simp only [VTree.lca]
    split
    · rename_i hc
      rw [VTree.sub?_node_lt hc.1] at hi; rw [VTree.sub?_node_lt hc.2] at hj
      obtain ⟨l', r', h1, h2⟩ := ihl hi hj
      exact ⟨l', r', by rw [VTree.sub?_node_lt (VTree.lca_range l off i j).2]; exact h1, h2⟩
    · split
      · rename_i hc
        rw [VTree.sub?_node_gt hc.1] at hi; rw [VTree.sub?_node_gt hc.2] at hj
        obtain ⟨l', r', h1, h2⟩ := ihr hi hj
        refine ⟨l', r', ?_, h2⟩
        rw [VTree.sub?_node_gt (by have := (VTree.lca_range r (off + l.size + 1) i j).1; omega)]
        exact h1
      · rename_i hc1 hc2
        refine ⟨l, r, VTree.sub?_node_eq l r off, ?_, ?_, by omega, by omega⟩
        · intro h; rw [VTree.sub?_node_lt h] at hi; exact VTree.sub?_leaves hi
        · intro h; rw [VTree.sub?_node_gt h] at hj; exact VTree.sub?_leaves hj


/-! ## unique_bdd / unique_or produce normal forms -/

theorem regular_neg_of_not {s : Ptr} (h : s.regular = false) : s.neg.regular = true := by
  cases s with
  | tru => simp [Ptr.regular, Ptr.isNeg, Ptr.isFalse, Ptr.isNegVar] at h
  | fls => simp [Ptr.neg, Ptr.regular, Ptr.isNeg, Ptr.isFalse, Ptr.isNegVar]
  | lit v p => cases p <;> simp_all [Ptr.neg, Ptr.regular, Ptr.isNeg, Ptr.isFalse, Ptr.isNegVar]
  | bdd c l i lo hi => cases c <;> simp_all [Ptr.neg, Ptr.regular, Ptr.isNeg, Ptr.isFalse, Ptr.isNegVar]
  | dec c i es => cases c <;> simp_all [Ptr.neg, Ptr.regular, Ptr.isNeg, Ptr.isFalse, Ptr.isNegVar]

theorem leftVars_leaves {vt : VTree} {i l : Nat} (hl : l ∈ vt.leftVars i) : l ∈ vt.leaves := by
  simp only [VTree.leftVars] at hl
  cases hs : vt.sub? 0 i with
  | none => simp [hs] at hl
  | some s =>
    cases s with
    | leaf w => simp [hs] at hl
    | node l' r' =>
      simp only [hs] at hl
      exact VTree.sub?_leaves hs l (by simp [VTree.leaves, hl])

theorem uniqueBdd_wfs {vt : VTree} {l i : Nat} {lo hi : Ptr} (hint : Internal vt i)
    (hl : l ∈ vt.leftVars i) (wlo : WFs vt lo) (whi : WFs vt hi)
    (vlo : ∀ v ∈ lo.vars, v ∈ vt.rightVars i) (vhi : ∀ v ∈ hi.vars, v ∈ vt.rightVars i) :
    WFs vt (uniqueBdd l lo hi i) ∧
      ∀ v ∈ (uniqueBdd l lo hi i).vars, v = l ∨ v ∈ lo.vars ∨ v ∈ hi.vars := by
  simp only [uniqueBdd]
  split
  · exact ⟨whi, fun v hv => Or.inr (Or.inr hv)⟩
  · rename_i hne
    split
    · exact ⟨leftVars_leaves hl, fun v hv => Or.inl (by simpa [Ptr.vars] using hv)⟩
    · rename_i h2
      split
      · exact ⟨leftVars_leaves hl, fun v hv => Or.inl (by simpa [Ptr.vars] using hv)⟩
      · rename_i h3
        have hne' : lo ≠ hi := fun e => hne e.symm
        have c1 : ¬(hi = .fls ∧ lo = .tru) := by
          rintro ⟨rfl, rfl⟩; simp [Ptr.isFalse, Ptr.isTrue] at h2
        have c2 : ¬(hi = .tru ∧ lo = .fls) := by
          rintro ⟨rfl, rfl⟩; simp [Ptr.isFalse, Ptr.isTrue] at h3
        split
        · rename_i hneg
          refine ⟨⟨hint, hl, WFs_neg wlo, WFs_neg whi, by rw [vars_neg]; exact vlo,
            by rw [vars_neg]; exact vhi, fun e => hne' (neg_inj e), ?_, ?_, ?_⟩, ?_⟩
          · rintro ⟨e1, e2⟩
            have e1' := congrArg Ptr.neg e1; rw [neg_neg] at e1'
            have e2' := congrArg Ptr.neg e2; rw [neg_neg] at e2'
            exact c1 ⟨e1', e2'⟩
          · rintro ⟨e1, e2⟩
            have e1' := congrArg Ptr.neg e1; rw [neg_neg] at e1'
            have e2' := congrArg Ptr.neg e2; rw [neg_neg] at e2'
            exact c2 ⟨e1', e2'⟩
          · apply regular_neg_of_not
            simp only [Ptr.regular, hneg, Bool.not_true]
          · intro v hv
            simp only [Ptr.vars, vars_neg, List.mem_cons, List.mem_append] at hv
            exact hv
        · rename_i hneg
          refine ⟨⟨hint, hl, wlo, whi, vlo, vhi, hne', c2, c1, ?_⟩, ?_⟩
          · simp only [Ptr.regular]
            simp only [Bool.not_eq_true] at hneg
            rw [hneg]; rfl
          · intro v hv
            simp only [Ptr.vars, List.mem_cons, List.mem_append] at hv
            exact hv

/-- primes of a partition with satisfiable primes are pairwise different -/
theorem primes_nodup {es : List Elem} (hp : ∀ a, cnt a es ≤ 1) (hs : ∀ e ∈ es, ∃ a, e.1.eval a = true) :
    (es.map (·.1)).Nodup := by
  induction es with
  | nil => simp
  | cons x l ih =>
    simp only [List.map_cons, List.nodup_cons]
    refine ⟨?_, ih (fun a => by have := hp a; rw [cnt_cons] at this; omega)
      (fun e he => hs e (List.mem_cons_of_mem _ he))⟩
    intro hmem
    obtain ⟨e, he, hex⟩ := List.mem_map.1 hmem
    obtain ⟨a, ha⟩ := hs x (List.mem_cons_self ..)
    have h1 := hp a
    rw [cnt_cons, ha] at h1
    have h2 := cnt_pos_of_mem (a := a) he (by rw [hex]; exact ha)
    simp only [if_true] at h1; omega

theorem subs_insertByPrime {x : Elem} {l : List Elem} (h : ((x :: l).map (·.2)).Nodup) :
    ((insertByPrime x l).map (·.2)).Nodup := by
  induction l with
  | nil => simpa [insertByPrime] using h
  | cons y ys ih =>
    simp only [insertByPrime]
    split
    · simp only [List.map_cons, List.nodup_cons, List.mem_cons, not_or] at h ⊢
      obtain ⟨⟨h1, h2⟩, h3, h4⟩ := h
      refine ⟨?_, ih (by simp only [List.map_cons, List.nodup_cons]; exact ⟨h2, h4⟩)⟩
      intro hm
      obtain ⟨e, he, hex⟩ := List.mem_map.1 hm
      rcases mem_insertByPrime.1 he with rfl | h'
      · exact h1 hex
      · exact h3 (hex ▸ List.mem_map_of_mem h')
    · exact h

theorem subs_sortByPrime {l : List Elem} (h : (l.map (·.2)).Nodup) :
    ((sortByPrime l).map (·.2)).Nodup := by
  induction l with
  | nil => simp [sortByPrime]
  | cons x xs ih =>
    simp only [sortByPrime]
    apply subs_insertByPrime
    simp only [List.map_cons, List.nodup_cons] at h ⊢
    refine ⟨?_, ih h.2⟩
    intro hm
    obtain ⟨e, he, hex⟩ := List.mem_map.1 hm
    rw [mem_sortByPrime] at he
    exact h.1 (hex ▸ List.mem_map_of_mem he)

theorem subs_negSubs {l : List Elem} (h : (l.map (·.2)).Nodup) :
    ((negSubs l).map (·.2)).Nodup := by
  have : (negSubs l).map (·.2) = (l.map (·.2)).map Ptr.neg := by
    simp [negSubs, List.map_map, Function.comp_def]
  rw [this]
  exact List.Pairwise.map _ (fun a b hab e => hab (neg_inj e)) h

theorem length_insertByPrime (x : Elem) (l : List Elem) :
    (insertByPrime x l).length = l.length + 1 := by
  induction l with
  | nil => rfl
  | cons y ys ih => simp only [insertByPrime]; split <;> simp [ih]

theorem length_sortByPrime (l : List Elem) : (sortByPrime l).length = l.length := by
  induction l with
  | nil => rfl
  | cons x xs ih => simp [sortByPrime, length_insertByPrime, ih]

theorem sortByPrime_two (x y : Elem) :
    sortByPrime [x, y] = [x, y] ∨ sortByPrime [x, y] = [y, x] := by
  simp only [sortByPrime, insertByPrime]
  split
  · exact Or.inr rfl
  · exact Or.inl rfl


/-- the trimmable two-element shapes -/
def Trim2 (es : List Elem) : Prop :=
  ∃ p q, es = [(p, .tru), (q, .fls)] ∨ es = [(p, .fls), (q, .tru)]

theorem trim2_swap {e1 e2 : Elem} (h : Trim2 [e2, e1]) : Trim2 [e1, e2] := by
  obtain ⟨p, q, h | h⟩ := h
  · simp only [List.cons.injEq, and_true] at h
    obtain ⟨rfl, rfl⟩ := h
    exact ⟨q, p, Or.inr rfl⟩
  · simp only [List.cons.injEq, and_true] at h
    obtain ⟨rfl, rfl⟩ := h
    exact ⟨q, p, Or.inl rfl⟩

theorem trim2_negSubs {es : List Elem} (h : Trim2 (negSubs es)) : Trim2 es := by
  obtain ⟨p, q, h⟩ := h
  have hl : es.length = 2 := by
    rcases h with h | h <;> (have := congrArg List.length h; simpa [negSubs] using this)
  match es, hl with
  | [e1, e2], _ =>
    rcases h with h | h
    · simp only [negSubs, List.map_cons, List.map_nil, List.cons.injEq, Prod.mk.injEq, and_true] at h
      obtain ⟨⟨h1, h2⟩, h3, h4⟩ := h
      refine ⟨p, q, Or.inr ?_⟩
      have e1' := congrArg Ptr.neg h2; rw [neg_neg] at e1'
      have e2' := congrArg Ptr.neg h4; rw [neg_neg] at e2'
      rw [← h1, ← h3]
      simp only [List.cons.injEq, and_true]
      exact ⟨Prod.ext rfl e1', Prod.ext rfl e2'⟩
    · simp only [negSubs, List.map_cons, List.map_nil, List.cons.injEq, Prod.mk.injEq, and_true] at h
      obtain ⟨⟨h1, h2⟩, h3, h4⟩ := h
      refine ⟨p, q, Or.inl ?_⟩
      have e1' := congrArg Ptr.neg h2; rw [neg_neg] at e1'
      have e2' := congrArg Ptr.neg h4; rw [neg_neg] at e2'
      rw [← h1, ← h3]
      simp only [List.cons.injEq, and_true]
      exact ⟨Prod.ext rfl e1', Prod.ext rfl e2'⟩

theorem not_trim2_of_canonBase {es : List Elem} (h : canonBase? es = none) : ¬ Trim2 es := by
  rintro ⟨p, q, rfl | rfl⟩ <;> simp [canonBase?, Ptr.isTrue, Ptr.isFalse] at h

theorem asBdd?_swap {e1 e2 : Elem} (h : asBdd? [e1, e2] = none) : asBdd? [e2, e1] = none := by
  obtain ⟨p1, s1⟩ := e1
  obtain ⟨p2, s2⟩ := e2
  cases p1 <;> cases p2 <;> simp_all [asBdd?]

theorem asBdd?_length {es : List Elem} {x} (h : asBdd? es = some x) : es.length = 2 := by
  obtain ⟨l, lo, hi⟩ := x
  obtain ⟨_, _, _, _, _, rfl, _⟩ := asBdd?_some h
  rfl

theorem negSubs_length (es : List Elem) : (negSubs es).length = es.length := by simp [negSubs]

theorem asBdd?_negSubs {es : List Elem} (h : asBdd? es = none) : asBdd? (negSubs es) = none := by
  cases hx : asBdd? (negSubs es) with
  | none => rfl
  | some x =>
    exfalso
    have hl := asBdd?_length hx
    rw [negSubs_length] at hl
    match es, hl with
    | [(p1, s1), (p2, s2)], _ => cases p1 <;> cases p2 <;> simp_all [asBdd?, negSubs]

theorem varsElems_negSubs (es : List Elem) : ∀ v, v ∈ varsElems (negSubs es) ↔ v ∈ varsElems es := by
  intro v
  simp only [mem_varsElems, mem_negSubs]
  constructor
  · rintro ⟨e, ⟨e0, h0, rfl⟩, h⟩
    exact ⟨e0, h0, by simpa [vars_neg] using h⟩
  · rintro ⟨e, he, h⟩
    exact ⟨(e.1, e.2.neg), ⟨e, he, rfl⟩, by simpa [vars_neg] using h⟩

theorem uniqueOr_wfs {vt : VTree} (hnd : vt.leaves.Nodup) {es : List Elem} {i : Nat} {r : Ptr}
    (hint : Internal vt i) (hpart : Partition es) (hok : ∀ e ∈ es, ElemOKs vt i e)
    (hsubs : (es.map (·.2)).Nodup) (hbase : canonBase? es = none)
    (h : uniqueOr es i = some r) : WFs vt r ∧ ∀ v ∈ r.vars, v ∈ varsElems es := by
  simp only [uniqueOr] at h
  split at h
  · rename_i l lo hi hb
    cases h
    obtain ⟨x, pol, p1, s0, s1, rfl, rfl, rfl⟩ := asBdd?_some hb
    obtain ⟨rfl, rfl⟩ := partition_two_lits hpart
    have h0 := hok _ (List.mem_cons_self ..)
    have h1 := hok _ (List.mem_cons_of_mem _ (List.mem_cons_self ..))
    have hl : x ∈ vt.leftVars i := h1.2.2.2.1 x (by simp [Ptr.vars])
    have key := uniqueBdd_wfs (l := x) (lo := if (!(!p1)) = true then s0 else s1)
      (hi := if (!p1) = true then s0 else s1) hint hl
      (by cases p1 <;> simp <;> first | exact h0.2.1 | exact h1.2.1)
      (by cases p1 <;> simp <;> first | exact h0.2.1 | exact h1.2.1)
      (by cases p1 <;> simp <;> first | exact h0.2.2.2.2 | exact h1.2.2.2.2)
      (by cases p1 <;> simp <;> first | exact h0.2.2.2.2 | exact h1.2.2.2.2)
    refine ⟨key.1, fun v hv => ?_⟩
    rcases key.2 v hv with rfl | hv | hv
    · simp [varsElems, Ptr.vars]
    · cases p1 <;> simp at hv <;> simp [varsElems, hv]
    · cases p1 <;> simp at hv <;> simp [varsElems, hv]
  · rename_i hnb
    -- at least two elements
    have hlen : 2 ≤ es.length := by
      match es, hbase, hpart, hok with
      | [], _, hpart, _ => have := hpart (fun _ => true); simp at this
      | [(p, s)], hbase, hpart, hok =>
        exfalso
        have hp : p = .tru := tru_of_wfs hnd (hok (p, s) (by simp)).1 (fun a => by
          have := hpart a
          simp only [cnt_cons, cnt_nil] at this
          cases h : p.eval a
          · simp [h] at this
          · rfl)
        subst hp
        simp [canonBase?, Ptr.isTrue] at hbase
      | _ :: _ :: _, _, _, _ => simp
    have hsat : ∀ e ∈ es, ∃ a, e.1.eval a = true :=
      fun e he => sat_of_wfs hnd (hok e he).1 (hok e he).2.2.1
    have hsorted : StrictSorted (sortByPrime es) :=
      strictSorted_sort (primes_nodup (fun a => by rw [hpart a]; exact Nat.le_refl 1) hsat)
    have hshape : asBdd? (sortByPrime es) = none ∧ ¬ Trim2 (sortByPrime es) := by
      match es, hnb, hbase, hlen with
      | [e1, e2], hnb, hbase, _ =>
        rcases sortByPrime_two e1 e2 with h' | h' <;> rw [h']
        · exact ⟨hnb, not_trim2_of_canonBase hbase⟩
        · exact ⟨asBdd?_swap hnb, fun ht => not_trim2_of_canonBase hbase (trim2_swap ht)⟩
      | e1 :: e2 :: e3 :: rest, _, _, _ =>
        have hl3 : 3 ≤ (sortByPrime (e1 :: e2 :: e3 :: rest)).length := by
          rw [length_sortByPrime]; simp
        constructor
        · cases hx : asBdd? (sortByPrime (e1 :: e2 :: e3 :: rest)) with
          | none => rfl
          | some x => have := asBdd?_length hx; omega
        · rintro ⟨p, q, h' | h'⟩ <;> rw [h'] at hl3 <;> simp at hl3
    have hok' : ∀ e ∈ sortByPrime es, ElemOKs vt i e := fun e he => hok e (mem_sortByPrime.1 he)
    have hvars : ∀ v, v ∈ varsElems (sortByPrime es) ↔ v ∈ varsElems es := by
      intro v; simp only [mem_varsElems, mem_sortByPrime]
    have hlen' : 2 ≤ (sortByPrime es).length := by rw [length_sortByPrime]; exact hlen
    have hsubs' := subs_sortByPrime hsubs
    have hpart' : Partition (sortByPrime es) := fun a => by rw [cnt_sortByPrime]; exact hpart a
    split at h
    · cases h
    · rename_i p0 s0 rest hs
      rw [hs] at hsorted hshape hok' hvars hlen' hsubs' hpart'
      split at h
      · rename_i hreg
        cases h
        refine ⟨⟨hint, fun a => by rw [cnt_negSubs]; exact hpart' a, ?_, subs_negSubs hsubs',
          strictSorted_negSubs hsorted, by rw [negSubs_length]; exact hlen',
          asBdd?_negSubs hshape.1, ?_, ?_⟩, ?_⟩
        · rw [wfsElems_iff]
          intro e he
          obtain ⟨e0, h0, rfl⟩ := mem_negSubs.1 he
          obtain ⟨a1, a2, a3, a4, a5⟩ := hok' e0 h0
          exact ⟨a1, WFs_neg a2, a3, a4, by simpa [vars_neg] using a5⟩
        · intro p q
          constructor
          · intro h'; exact hshape.2 (trim2_negSubs ⟨p, q, Or.inl h'⟩)
          · intro h'; exact hshape.2 (trim2_negSubs ⟨p, q, Or.inr h'⟩)
        · intro e he
          simp only [negSubs, List.map_cons, List.head?_cons, Option.some.injEq] at he
          subst he
          apply regular_neg_of_not
          simp only [Ptr.regular, hreg, Bool.not_true]
        · intro v hv
          simp only [Ptr.vars] at hv
          exact (hvars v).1 ((varsElems_negSubs _ v).1 hv)
      · rename_i hreg
        cases h
        refine ⟨⟨hint, hpart', wfsElems_iff.2 hok', hsubs', hsorted, hlen', hshape.1, ?_, ?_⟩, ?_⟩
        · intro p q
          exact ⟨fun h' => hshape.2 ⟨p, q, Or.inl h'⟩, fun h' => hshape.2 ⟨p, q, Or.inr h'⟩⟩
        · intro e he
          simp only [List.head?_cons, Option.some.injEq] at he
          subst he
          simp only [Ptr.regular]
          simp only [Bool.not_eq_true] at hreg
          rw [hreg]; rfl
        · intro v hv
          simp only [Ptr.vars] at hv
          exact (hvars v).1 hv


/-! ## the recursive call, abstractly (structural version) -/

def AndOKs {σ : Type} (P : σ → Prop) (vt : VTree) (andF : AndF σ) : Prop :=
  ∀ st a b st' r, P st → WFs vt a → WFs vt b → andF st a b = some (st', r) →
    P st' ∧ WFs vt r ∧ (∀ v ∈ r.vars, v ∈ a.vars ∨ v ∈ b.vars) ∧
      ∀ asg, r.eval asg = (a.eval asg && b.eval asg)

theorem orF_oks {σ : Type} {P : σ → Prop} {vt : VTree} {andF : AndF σ} (hand : AndOKs P vt andF)
    {st a b st' r} (hP : P st) (wa : WFs vt a) (wb : WFs vt b) (h : orF andF st a b = some (st', r)) :
    P st' ∧ WFs vt r ∧ (∀ v ∈ r.vars, v ∈ a.vars ∨ v ∈ b.vars) ∧
      ∀ asg, r.eval asg = (a.eval asg || b.eval asg) := by
  simp only [orF] at h
  split at h
  · rename_i st1 r1 h1
    cases h
    obtain ⟨hp, wr, vr, er⟩ := hand _ _ _ _ _ hP (WFs_neg wa) (WFs_neg wb) h1
    refine ⟨hp, WFs_neg wr, ?_, fun asg => ?_⟩
    · intro v hv; rw [vars_neg] at hv; simpa [vars_neg] using vr v hv
    · rw [eval_neg, er, eval_neg, eval_neg]; cases a.eval asg <;> cases b.eval asg <;> rfl
  · cases h

/-- what a prime must satisfy -/
def PrimeOKs (vt : VTree) (i : Nat) (p : Ptr) : Prop :=
  WFs vt p ∧ p ≠ .fls ∧ ∀ v ∈ p.vars, v ∈ vt.leftVars i

section compressS
variable {σ : Type} {P : σ → Prop} {vt : VTree} {andF : AndF σ} {i : Nat}

theorem or_primeOKs (hnd : vt.leaves.Nodup) (hand : AndOKs P vt andF) {st st' : σ} {p q r : Ptr}
    (hP : P st) (hp : PrimeOKs vt i p) (hq : PrimeOKs vt i q) (h : orF andF st p q = some (st', r)) :
    P st' ∧ PrimeOKs vt i r ∧ ∀ v ∈ r.vars, v ∈ p.vars ∨ v ∈ q.vars := by
  obtain ⟨hP', wr, vr, er⟩ := orF_oks hand hP hp.1 hq.1 h
  refine ⟨hP', ⟨wr, ?_, ?_⟩, vr⟩
  · rintro rfl
    obtain ⟨a, ha⟩ := sat_of_wfs hnd hp.1 hp.2.1
    have := er a; simp [ha] at this
  · intro v hv
    rcases vr v hv with h' | h'
    · exact hp.2.2 v h'
    · exact hq.2.2 v h'

theorem compressInner_oks (hnd : vt.leaves.Nodup) (hand : AndOKs P vt andF) (s : Ptr) :
    ∀ (n : Nat) (st : σ) (p : Ptr) (done rem : List Elem) (st' : σ) (p' : Ptr) (out : List Elem),
    P st → PrimeOKs vt i p → (∀ e ∈ done, ElemOKs vt i e ∧ e.2 ≠ s) → (∀ e ∈ rem, ElemOKs vt i e) →
    rem.length ≤ n →
    compressInner andF s n st p done rem = some (st', p', out) →
    P st' ∧ PrimeOKs vt i p' ∧ (∀ e ∈ out, ElemOKs vt i e ∧ e.2 ≠ s) ∧
      out.length ≤ done.length + rem.length ∧ (∀ e ∈ out, e ∈ done ++ rem) ∧
      ∀ v ∈ p'.vars, v ∈ p.vars ∨ v ∈ varsElems rem := by
  intro n
  induction n with
  | zero =>
    intro st p done rem st' p' out hP hp hd hr hlen h
    have : rem = [] := List.length_eq_zero_iff.1 (by omega)
    subst this
    simp only [compressInner, List.append_nil] at h
    cases h
    exact ⟨hP, hp, hd, by simp, fun e he => by simpa using he, fun v hv => Or.inl hv⟩
  | succ n ih =>
    intro st p done rem st' p' out hP hp hd hr hlen h
    cases rem with
    | nil =>
      simp only [compressInner] at h
      cases h
      exact ⟨hP, hp, hd, by simp, fun e he => by simpa using he, fun v hv => Or.inl hv⟩
    | cons x rest =>
      obtain ⟨q, t⟩ := x
      simp only [compressInner] at h
      have hx := hr (q, t) (List.mem_cons_self ..)
      have hrest : ∀ e ∈ rest, ElemOKs vt i e := fun e he => hr e (List.mem_cons_of_mem _ he)
      split at h
      · rename_i hst
        split at h
        · cases h
        · rename_i st1 p1 hor
          obtain ⟨hP1, hp1, hv1⟩ := or_primeOKs hnd hand hP hp ⟨hx.1, hx.2.2.1, hx.2.2.2.1⟩ hor
          have hrem' : ∀ e ∈ swapRemoveHead ((q, t) :: rest), ElemOKs vt i e :=
            fun e he => hrest e (swapRemoveHead_mem he)
          have hl' : (swapRemoveHead ((q, t) :: rest)).length ≤ n := by
            rw [swapRemoveHead_length]; simpa using hlen
          obtain ⟨a1, a2, a3, a4, a5, a6⟩ := ih _ _ _ _ _ _ _ hP1 hp1 hd hrem' hl' h
          refine ⟨a1, a2, a3, ?_, ?_, ?_⟩
          · rw [swapRemoveHead_length] at a4; simp only [List.length_cons]; omega
          · intro e he
            rcases List.mem_append.1 (a5 e he) with h' | h'
            · exact List.mem_append.2 (Or.inl h')
            · exact List.mem_append.2 (Or.inr (List.mem_cons_of_mem _ (swapRemoveHead_mem h')))
          · intro v hv
            rcases a6 v hv with h' | h'
            · rcases hv1 v h' with h'' | h''
              · exact Or.inl h''
              · exact Or.inr (by simp [varsElems, h''])
            · obtain ⟨e, he, hve⟩ := mem_varsElems.1 h'
              exact Or.inr (mem_varsElems.2 ⟨e, List.mem_cons_of_mem _ (swapRemoveHead_mem he), hve⟩)
      · rename_i hst
        have hd' : ∀ e ∈ done ++ [(q, t)], ElemOKs vt i e ∧ e.2 ≠ s := by
          intro e he
          rcases List.mem_append.1 he with h' | h'
          · exact hd e h'
          · simp only [List.mem_singleton] at h'; subst h'
            exact ⟨hx, fun e => hst e.symm⟩
        obtain ⟨a1, a2, a3, a4, a5, a6⟩ := ih _ _ _ _ _ _ _ hP hp hd' hrest (by simpa using hlen) h
        refine ⟨a1, a2, a3, ?_, ?_, ?_⟩
        · simp only [List.length_append, List.length_cons, List.length_nil] at a4 ⊢; omega
        · intro e he; simpa using a5 e he
        · intro v hv
          rcases a6 v hv with h' | h'
          · exact Or.inl h'
          · obtain ⟨e, he, hve⟩ := mem_varsElems.1 h'
            exact Or.inr (mem_varsElems.2 ⟨e, List.mem_cons_of_mem _ he, hve⟩)

theorem compressOuter_oks (hnd : vt.leaves.Nodup) (hand : AndOKs P vt andF) :
    ∀ (n : Nat) (st : σ) (l : List Elem) (st' : σ) (out : List Elem),
    P st → (∀ e ∈ l, ElemOKs vt i e) → l.length ≤ n →
    compressOuter andF n st l = some (st', out) →
    P st' ∧ (∀ e ∈ out, ElemOKs vt i e) ∧ (out.map (·.2)).Nodup ∧
      (∀ e ∈ out, ∃ e' ∈ l, e.2 = e'.2) ∧ ∀ v ∈ varsElems out, v ∈ varsElems l := by
  intro n
  induction n with
  | zero =>
    intro st l st' out hP hl hlen h
    have : l = [] := List.length_eq_zero_iff.1 (by omega)
    subst this
    simp only [compressOuter] at h; cases h
    exact ⟨hP, hl, by simp, fun e he => (by cases he), fun v hv => hv⟩
  | succ n ih =>
    intro st l st' out hP hl hlen h
    cases l with
    | nil =>
      simp only [compressOuter] at h; cases h
      exact ⟨hP, hl, by simp, fun e he => (by cases he), fun v hv => hv⟩
    | cons x rest =>
      obtain ⟨p, s⟩ := x
      simp only [compressOuter] at h
      have hx := hl (p, s) (List.mem_cons_self ..)
      have hrest : ∀ e ∈ rest, ElemOKs vt i e := fun e he => hl e (List.mem_cons_of_mem _ he)
      split at h
      · cases h
      · rename_i st1 p' rest' hin
        obtain ⟨hP1, hp', hout1, hlen1, hmem1, hv1⟩ :=
          compressInner_oks hnd hand s _ _ _ _ _ _ _ _ hP ⟨hx.1, hx.2.2.1, hx.2.2.2.1⟩
            (fun e he => by cases he) hrest (Nat.le_refl _) hin
        split at h
        · cases h
        · rename_i st2 out2 hrec
          cases h
          simp only [List.length_nil, Nat.zero_add, List.nil_append] at hlen1 hmem1
          obtain ⟨hP2, hout2, hnd2, hsub2, hv2⟩ :=
            ih _ _ _ _ hP1 (fun e he => (hout1 e he).1) (by simp only [List.length_cons] at hlen; omega) hrec
          refine ⟨hP2, ?_, ?_, ?_, ?_⟩
          · intro e he
            rcases List.mem_cons.1 he with rfl | h'
            · exact ⟨hp'.1, hx.2.1, hp'.2.1, hp'.2.2, hx.2.2.2.2⟩
            · exact hout2 e h'
          · simp only [List.map_cons, List.nodup_cons]
            refine ⟨?_, hnd2⟩
            intro hm
            obtain ⟨e, he, hes⟩ := List.mem_map.1 hm
            obtain ⟨e', he', hee⟩ := hsub2 e he
            exact (hout1 e' he').2 (by rw [← hee]; exact hes)
          · intro e he
            rcases List.mem_cons.1 he with rfl | h'
            · exact ⟨(p, s), List.mem_cons_self .., rfl⟩
            · obtain ⟨e', he', hee⟩ := hsub2 e h'
              exact ⟨e', List.mem_cons_of_mem _ (hmem1 e' he'), hee⟩
          · intro v hv
            simp only [varsElems, List.mem_append] at hv ⊢
            rcases hv with h' | h' | h'
            · rcases hv1 v h' with h'' | h''
              · exact Or.inl h''
              · exact Or.inr (Or.inr h'')
            · exact Or.inr (Or.inl h')
            · obtain ⟨e, he, hve⟩ := mem_varsElems.1 (hv2 v h')
              exact Or.inr (Or.inr (mem_varsElems.2 ⟨e, hmem1 e he, hve⟩))

theorem canonBase_wfs {es : List Elem} {r : Ptr} (hpart : Partition es)
    (hok : ∀ e ∈ es, ElemOKs vt i e) (h : canonBase? es = some r) :
    WFs vt r ∧ ∀ v ∈ r.vars, v ∈ varsElems es := by
  unfold canonBase? at h
  split at h
  · have := hpart (fun _ => true); simp at this
  · have h0 := hok _ (List.mem_cons_self ..)
    split at h
    · cases h; exact ⟨h0.2.1, fun v hv => by simp [varsElems, hv]⟩
    · split at h
      · cases h; exact ⟨WFs_fls vt, fun v hv => by cases hv⟩
      · cases h
  · have h0 := hok _ (List.mem_cons_self ..)
    have h1 := hok _ (List.mem_cons_of_mem _ (List.mem_cons_self ..))
    split at h
    · cases h; exact ⟨h0.1, fun v hv => by simp [varsElems, hv]⟩
    · split at h
      · cases h; exact ⟨h1.1, fun v hv => by simp [varsElems, hv]⟩
      · cases h
  · cases h

/-- with compression on, `canonicalize` returns a pointer in normal form -/
theorem canonicalize_wfs {P0 : σ → Prop} (hP0 : ∀ st, P st → P0 st) (hnd : vt.leaves.Nodup)
    (hand : AndOK P0 vt andF) (hands : AndOKs P vt andF)
    {st : σ} {l : List Elem} {st' : σ} {r : Ptr} (hP : P st) (hint : Internal vt i)
    (hpart : Partition l) (hok : ∀ e ∈ l, ElemOKs vt i e)
    (h : canonicalize true andF st l i = some (st', r)) :
    P st' ∧ WFs vt r ∧ ∀ v ∈ r.vars, v ∈ varsElems l := by
  have hokC : ElemsOK vt (vt.leftLeaf? i) l := fun e he =>
    ⟨WFs_WF _ (hok e he).1, WFs_WF _ (hok e he).2.1, depW_of_vars (hok e he).2.2.2.1⟩
  simp only [canonicalize] at h
  split at h
  · rename_i r0 hb
    cases h
    obtain ⟨w, v⟩ := canonBase_wfs hpart hok hb
    exact ⟨hP, w, v⟩
  · rename_i hb0
    simp only [if_true] at h
    split at h
    · cases h
    · rename_i st1 l1 hc
      obtain ⟨_, _, hpart1, _⟩ := compress_ok hand (hP0 _ hP) hokC hpart hc
      obtain ⟨hP1, hok1, hnd1, _, hv1⟩ := compressOuter_oks hnd hands _ _ _ _ _ hP hok (Nat.le_refl _) hc
      split at h
      · rename_i r0 hb
        cases h
        obtain ⟨w, v⟩ := canonBase_wfs hpart1 hok1 hb
        exact ⟨hP1, w, fun x hx => hv1 x (v x hx)⟩
      · rename_i hb
        simp only [Option.map_eq_some_iff] at h
        obtain ⟨r0, hu, he⟩ := h
        cases he
        obtain ⟨w, v⟩ := uniqueOr_wfs hnd hint hpart1 hok1 hnd1 hb hu
        exact ⟨hP1, w, fun x hx => hv1 x (v x hx)⟩

end compressS


/-! ## the loops, structurally -/

def VarsIn (T : Nat → Prop) (p : Ptr) : Prop := ∀ v ∈ p.vars, T v

theorem varsIn_neg {T : Nat → Prop} {p : Ptr} (h : VarsIn T p) : VarsIn T p.neg := by
  intro v hv; rw [vars_neg] at hv; exact h v hv
theorem varsIn_tru (T : Nat → Prop) : VarsIn T .tru := fun v hv => by cases hv
theorem varsIn_fls (T : Nat → Prop) : VarsIn T .fls := fun v hv => by cases hv

def ElemT (vt : VTree) (Tp Ts : Nat → Prop) (e : Elem) : Prop :=
  WFs vt e.1 ∧ WFs vt e.2 ∧ VarsIn Tp e.1 ∧ VarsIn Ts e.2

def LoopT (vt : VTree) (Tp Ts : Nat → Prop) : LoopRes → Prop
  | .elems l => ∀ e ∈ l, ElemT vt Tp Ts e ∧ e.1 ≠ .fls
  | .early r => r = .tru

section loopsS
variable {σ : Type} {P : σ → Prop} {vt : VTree} {andF : AndF σ} {Tp Ts : Nat → Prop}

theorem and_varsIn (hands : AndOKs P vt andF) {T : Nat → Prop} {st a b st' r} (hP : P st)
    (wa : WFs vt a) (wb : WFs vt b) (va : VarsIn T a) (vb : VarsIn T b)
    (h : andF st a b = some (st', r)) : P st' ∧ WFs vt r ∧ VarsIn T r := by
  obtain ⟨h1, h2, h3, _⟩ := hands _ _ _ _ _ hP wa wb h
  refine ⟨h1, h2, fun v hv => ?_⟩
  rcases h3 v hv with h' | h'
  · exact va v h'
  · exact vb v h'

theorem innerLoop_s (hands : AndOKs P vt andF) (brk : Bool) {p1 s1 : Ptr}
    (wp1 : WFs vt p1) (ws1 : WFs vt s1) (vp1 : VarsIn Tp p1) (vs1 : VarsIn Ts s1) :
    ∀ (eb : List Elem) (st st' : σ) (res : LoopRes), P st → (∀ e ∈ eb, ElemT vt Tp Ts e) →
    innerLoop andF brk p1 s1 st eb = some (st', res) → P st' ∧ LoopT vt Tp Ts res := by
  intro eb
  induction eb with
  | nil =>
    intro st st' res hP _ h
    simp only [innerLoop] at h
    cases h
    exact ⟨hP, fun e he => by cases he⟩
  | cons x rest ih =>
    intro st st' res hP hok h
    obtain ⟨p2, s2⟩ := x
    have hx := hok (p2, s2) (List.mem_cons_self ..)
    have hrest : ∀ e ∈ rest, ElemT vt Tp Ts e := fun e he => hok e (List.mem_cons_of_mem _ he)
    simp only [innerLoop] at h
    split at h
    · cases h
    · rename_i st1 p hp
      obtain ⟨hP1, wp, vp⟩ := and_varsIn hands hP wp1 hx.1 vp1 hx.2.2.1 hp
      split at h
      · exact ih _ _ _ hP1 hrest h
      · rename_i hpf
        have hpne : p ≠ .fls := by rintro rfl; simp [Ptr.isFalse] at hpf
        split at h
        · cases h
        · rename_i st2 s hs
          obtain ⟨hP2, ws, vs⟩ := and_varsIn hands hP1 ws1 hx.2.1 vs1 hx.2.2.2 hs
          split at h
          · cases h; exact ⟨hP2, rfl⟩
          · split at h
            · cases h
              refine ⟨hP2, ?_⟩
              intro e he
              simp only [List.mem_singleton] at he; subst he
              exact ⟨⟨wp, ws, vp, vs⟩, hpne⟩
            · split at h
              · cases h
              · rename_i st3 r hrec
                cases h
                exact ih _ _ _ hP2 hrest hrec
              · rename_i st3 l hrec
                cases h
                obtain ⟨hP', hres⟩ := ih _ _ _ hP2 hrest hrec
                refine ⟨hP', ?_⟩
                intro e he
                rcases List.mem_cons.1 he with rfl | h'
                · exact ⟨⟨wp, ws, vp, vs⟩, hpne⟩
                · exact hres e h'

theorem prodLoop_s (hands : AndOKs P vt andF) (cart : Bool) {eb : List Elem}
    (hokb : ∀ e ∈ eb, ElemT vt Tp Ts e) :
    ∀ (ea : List Elem) (st st' : σ) (res : LoopRes), P st →
    (∀ e ∈ ea, ElemT vt Tp Ts e ∧ e.1 ≠ .fls) →
    prodLoop andF cart eb st ea = some (st', res) → P st' ∧ LoopT vt Tp Ts res := by
  intro ea
  induction ea with
  | nil =>
    intro st st' res hP _ h
    simp only [prodLoop] at h
    cases h
    exact ⟨hP, fun e he => by cases he⟩
  | cons x rest ih =>
    intro st st' res hP hok h
    obtain ⟨p1, s1⟩ := x
    obtain ⟨hx, hxne⟩ := hok (p1, s1) (List.mem_cons_self ..)
    have hrest : ∀ e ∈ rest, ElemT vt Tp Ts e ∧ e.1 ≠ .fls :=
      fun e he => hok e (List.mem_cons_of_mem _ he)
    simp only [prodLoop] at h
    split at h
    · rename_i q s2 hfind
      have hf : eb.find? (fun e => decide (e.1 = p1)) = some (q, s2) := by
        cases cart
        · simp at hfind
        · simpa using hfind
      obtain ⟨_, hmem⟩ := find?_prime hf
      have hy := hokb _ hmem
      split at h
      · cases h
      · rename_i st1 s hs
        obtain ⟨hP1, ws, vs⟩ := and_varsIn hands hP hx.2.1 hy.2.1 hx.2.2.2 hy.2.2.2 hs
        split at h
        · cases h
        · rename_i st2 r hrec
          cases h
          exact ih _ _ _ hP1 hrest hrec
        · rename_i st2 l hrec
          cases h
          obtain ⟨hP', hres⟩ := ih _ _ _ hP1 hrest hrec
          refine ⟨hP', ?_⟩
          intro e he
          rcases List.mem_cons.1 he with rfl | h'
          · exact ⟨⟨hx.1, ws, hx.2.2.1, vs⟩, hxne⟩
          · exact hres e h'
    · split at h
      · cases h
      · rename_i st1 r hin
        cases h
        exact innerLoop_s hands cart hx.1 hx.2.1 hx.2.2.1 hx.2.2.2 eb _ _ _ hP hokb hin
      · rename_i st1 l1 hin
        obtain ⟨hP1, hpost⟩ := innerLoop_s hands cart hx.1 hx.2.1 hx.2.2.1 hx.2.2.2 eb _ _ _ hP hokb hin
        split at h
        · cases h
        · rename_i st2 r hrec
          cases h
          exact ih _ _ _ hP1 hrest hrec
        · rename_i st2 l hrec
          cases h
          obtain ⟨hP', hres⟩ := ih _ _ _ hP1 hrest hrec
          refine ⟨hP', ?_⟩
          intro e he
          rcases List.mem_append.1 he with h' | h'
          · exact hpost e h'
          · exact hres e h'

theorem subDescLoop_s (hands : AndOKs P vt andF) {d : Ptr} (wd : WFs vt d) (vd : VarsIn Ts d) :
    ∀ (es : List Elem) (st st' : σ) (v : List Elem), P st →
    (∀ e ∈ es, ElemT vt Tp Ts e ∧ e.1 ≠ .fls) →
    subDescLoop andF d st es = some (st', v) →
    P st' ∧ ∀ e ∈ v, ElemT vt Tp Ts e ∧ e.1 ≠ .fls := by
  intro es
  induction es with
  | nil =>
    intro st st' v hP _ h
    simp only [subDescLoop] at h
    cases h
    exact ⟨hP, fun e he => by cases he⟩
  | cons x rest ih =>
    intro st st' v hP hok h
    obtain ⟨p, s⟩ := x
    obtain ⟨hx, hxne⟩ := hok (p, s) (List.mem_cons_self ..)
    simp only [subDescLoop] at h
    split at h
    · cases h
    · rename_i st1 ns hs
      obtain ⟨hP1, wns, vns⟩ := and_varsIn hands hP hx.2.1 wd hx.2.2.2 vd hs
      split at h
      · cases h
      · rename_i st2 v2 hrec
        cases h
        obtain ⟨hP', hok'⟩ := ih _ _ _ hP1 (fun e he => hok e (List.mem_cons_of_mem _ he)) hrec
        refine ⟨hP', ?_⟩
        intro e he
        rcases List.mem_cons.1 he with rfl | h'
        · exact ⟨⟨hx.1, wns, hx.2.2.1, vns⟩, hxne⟩
        · exact hok' e h'

end loopsS


/-! ## the four vtree cases, structurally -/

theorem elems?_s {vt : VTree} {r : Ptr} {es : List Elem} (wr : WFs vt r) (h : r.elems? = some es) :
    Internal vt (vtreeIndex vt r) ∧ ∀ e ∈ es, ElemOKs vt (vtreeIndex vt r) e ∧
      (∀ v ∈ e.1.vars, v ∈ r.vars) ∧ (∀ v ∈ e.2.vars, v ∈ r.vars) := by
  cases r with
  | tru => cases h
  | fls => cases h
  | lit v p => cases h
  | bdd c l i lo hi =>
    simp only [Ptr.elems?, Option.some.injEq] at h
    subst h
    have hf := nodeFacts_bdd wr
    refine ⟨hf.internal, ?_⟩
    intro e he
    simp only [List.mem_cons, List.not_mem_nil, or_false] at he
    have h1 := hf.ok (.lit l true, hi) (by simp)
    have h2 := hf.ok (.lit l false, lo) (by simp)
    rcases he with rfl | rfl
    · refine ⟨⟨h1.1, by cases c <;> simp [WFs_neg, h1.2.1], h1.2.2.1, h1.2.2.2.1, ?_⟩, ?_, ?_⟩
      · cases c <;> simp only [if_true, vars_neg] <;> exact h1.2.2.2.2
      · intro v hv; simp only [Ptr.vars, List.mem_singleton] at hv; subst hv; simp [Ptr.vars]
      · intro v hv
        have : v ∈ hi.vars := by cases c <;> simpa [vars_neg] using hv
        simp [Ptr.vars, this]
    · refine ⟨⟨h2.1, by cases c <;> simp [WFs_neg, h2.2.1], h2.2.2.1, h2.2.2.2.1, ?_⟩, ?_, ?_⟩
      · cases c <;> simp only [if_true, vars_neg] <;> exact h2.2.2.2.2
      · intro v hv; simp only [Ptr.vars, List.mem_singleton] at hv; subst hv; simp [Ptr.vars]
      · intro v hv
        have : v ∈ lo.vars := by cases c <;> simpa [vars_neg] using hv
        simp [Ptr.vars, this]
  | dec c i es0 =>
    simp only [Ptr.elems?, Option.some.injEq] at h
    subst h
    have hf := nodeFacts_dec wr
    simp only [vtreeIndex]
    refine ⟨hf.internal, ?_⟩
    have base : ∀ e ∈ es0, ElemOKs vt i e ∧ (∀ v ∈ e.1.vars, v ∈ (Ptr.dec c i es0).vars) ∧
        (∀ v ∈ e.2.vars, v ∈ (Ptr.dec c i es0).vars) := by
      intro e he
      refine ⟨hf.ok e he, ?_, ?_⟩
      · intro v hv; simp only [Ptr.vars]; exact mem_varsElems.2 ⟨e, he, Or.inl hv⟩
      · intro v hv; simp only [Ptr.vars]; exact mem_varsElems.2 ⟨e, he, Or.inr hv⟩
    cases c
    · exact base
    · intro e he
      simp only [if_true] at he
      obtain ⟨e0, h0, rfl⟩ := mem_negSubs.1 he
      obtain ⟨⟨a1, a2, a3, a4, a5⟩, b1, b2⟩ := base e0 h0
      exact ⟨⟨a1, WFs_neg a2, a3, a4, by simpa [vars_neg] using a5⟩, b1, by simpa [vars_neg] using b2⟩

section casesS
variable {σ : Type} {P P0 : σ → Prop} {vt : VTree} {andF : AndF σ}

/-- conversion between the two element predicates -/
theorem elemOKs_of_T {i : Nat} {S : Nat → Prop} {e : Elem}
    (h : ElemT vt (fun v => v ∈ vt.leftVars i ∧ S v) (fun v => v ∈ vt.rightVars i ∧ S v) e ∧
      e.1 ≠ .fls) : ElemOKs vt i e :=
  ⟨h.1.1, h.1.2.1, h.2, fun v hv => (h.1.2.2.1 v hv).1, fun v hv => (h.1.2.2.2 v hv).1⟩

theorem elemT_S {i : Nat} {S : Nat → Prop} {l : List Elem}
    (h : ∀ e ∈ l, ElemT vt (fun v => v ∈ vt.leftVars i ∧ S v) (fun v => v ∈ vt.rightVars i ∧ S v) e ∧
      e.1 ≠ .fls) : ∀ v ∈ varsElems l, S v := by
  intro v hv
  obtain ⟨e, he, hv | hv⟩ := mem_varsElems.1 hv
  · exact ((h e he).1.2.2.1 v hv).2
  · exact ((h e he).1.2.2.2 v hv).2

theorem andSubDesc_s (hP0 : ∀ st, P st → P0 st) (hnd : vt.leaves.Nodup) (hand : AndOK P0 vt andF)
    (hands : AndOKs P vt andF) {st st' : σ} {r d res : Ptr} (hP : P st) (wr : WFs vt r)
    (wd : WFs vt d) (hd : ∀ v ∈ d.vars, v ∈ vt.rightVars (vtreeIndex vt r))
    (h : andSubDesc true andF st r d = some (st', res)) :
    P st' ∧ WFs vt res ∧ ∀ v ∈ res.vars, v ∈ r.vars ∨ v ∈ d.vars := by
  cases r with
  | tru => simp [andSubDesc] at h
  | fls => simp [andSubDesc] at h
  | lit v p => simp [andSubDesc] at h
  | bdd c l i lo hi =>
    obtain ⟨hint, hl, wlo, whi, vlo, vhi, _⟩ := wr
    simp only [vtreeIndex] at hd
    simp only [andSubDesc] at h
    split at h
    · cases h
    · rename_i st1 lr h1
      obtain ⟨hP1, wlr, vlr, _⟩ := hands _ _ _ _ _ hP (by cases c <;> simp [WFs_neg, wlo]) wd h1
      split at h
      · cases h
      · rename_i st2 hr h2
        cases h
        obtain ⟨hP2, whr, vhr, _⟩ := hands _ _ _ _ _ hP1 (by cases c <;> simp [WFs_neg, whi]) wd h2
        have vlr' : ∀ v ∈ lr.vars, v ∈ lo.vars ∨ v ∈ d.vars := by
          intro v hv; rcases vlr v hv with h' | h'
          · left; cases c <;> simpa [vars_neg] using h'
          · exact Or.inr h'
        have vhr' : ∀ v ∈ hr.vars, v ∈ hi.vars ∨ v ∈ d.vars := by
          intro v hv; rcases vhr v hv with h' | h'
          · left; cases c <;> simpa [vars_neg] using h'
          · exact Or.inr h'
        obtain ⟨w, vv⟩ := uniqueBdd_wfs hint hl wlr whr
          (fun v hv => (vlr' v hv).elim (vlo v) (hd v)) (fun v hv => (vhr' v hv).elim (vhi v) (hd v))
        refine ⟨hP2, w, fun v hv => ?_⟩
        rcases vv v hv with rfl | h' | h'
        · left; simp [Ptr.vars]
        · rcases vlr' v h' with h'' | h''
          · left; simp [Ptr.vars, h'']
          · exact Or.inr h''
        · rcases vhr' v h' with h'' | h''
          · left; simp [Ptr.vars, h'']
          · exact Or.inr h''
  | dec c i es =>
    simp only [andSubDesc] at h
    split at h
    · cases h
    · rename_i st1 v hloop
      have hel : (Ptr.dec c i es).elems? = some (if c then negSubs es else es) := rfl
      obtain ⟨hok, hpart, hint, _⟩ := elems?_ok (WFs_WF _ wr) hel
      obtain ⟨_, hes⟩ := elems?_s wr hel
      simp only [vtreeIndex] at hd hes hok hint
      let S : Nat → Prop := fun v => v ∈ (Ptr.dec c i es).vars ∨ v ∈ d.vars
      have hin : ∀ e ∈ (if c then negSubs es else es),
          ElemT vt (fun v => v ∈ vt.leftVars i ∧ S v) (fun v => v ∈ vt.rightVars i ∧ S v) e ∧
            e.1 ≠ .fls := by
        intro e he
        obtain ⟨⟨a1, a2, a3, a4, a5⟩, b1, b2⟩ := hes e he
        exact ⟨⟨a1, a2, fun v hv => ⟨a4 v hv, Or.inl (b1 v hv)⟩, fun v hv => ⟨a5 v hv, Or.inl (b2 v hv)⟩⟩, a3⟩
      obtain ⟨hP1, hout⟩ := subDescLoop_s hands wd (fun v hv => ⟨hd v hv, Or.inr hv⟩) _ _ _ _ hP hin hloop
      obtain ⟨_, _, hsem⟩ := subDescLoop_ok hand (WFs_WF _ wd) _ _ _ _ (hP0 _ hP) hok hloop
      have hpv : Partition v := fun a => by rw [(hsem a).1]; exact hpart a
      obtain ⟨hP', wres, vres⟩ := canonicalize_wfs hP0 hnd hand hands hP1 hint hpv
        (fun e he => elemOKs_of_T (hout e he)) h
      exact ⟨hP', wres, fun x hx => elemT_S hout x (vres x hx)⟩

theorem andPrimeDesc_s (hP0 : ∀ st, P st → P0 st) (hnd : vt.leaves.Nodup) (hand : AndOK P0 vt andF)
    (hands : AndOKs P vt andF) {st st' : σ} {r d res : Ptr} (hP : P st) (wr : WFs vt r)
    (wd : WFs vt d) (hd : ∀ v ∈ d.vars, v ∈ vt.leftVars (vtreeIndex vt r))
    (h : andPrimeDesc true andF st r d = some (st', res)) :
    P st' ∧ WFs vt res ∧ ∀ v ∈ res.vars, v ∈ r.vars ∨ v ∈ d.vars := by
  simp only [andPrimeDesc] at h
  split at h
  · cases h
  · rename_i er her
    obtain ⟨hok, hpart, hint, _⟩ := elems?_ok (WFs_WF _ wr) her
    obtain ⟨_, hes⟩ := elems?_s wr her
    obtain ⟨hokd, hpd, _⟩ := pairD_ok (vt := vt) (WFs_WF _ wd) (depW_of_vars hd)
    let S : Nat → Prop := fun v => v ∈ r.vars ∨ v ∈ d.vars
    let i := vtreeIndex vt r
    have hin : ∀ e ∈ er,
        ElemT vt (fun v => v ∈ vt.leftVars i ∧ S v) (fun v => v ∈ vt.rightVars i ∧ S v) e ∧
          e.1 ≠ .fls := by
      intro e he
      obtain ⟨⟨a1, a2, a3, a4, a5⟩, b1, b2⟩ := hes e he
      exact ⟨⟨a1, a2, fun v hv => ⟨a4 v hv, Or.inl (b1 v hv)⟩, fun v hv => ⟨a5 v hv, Or.inl (b2 v hv)⟩⟩, a3⟩
    have hinb : ∀ e ∈ [(d, Ptr.tru), (d.neg, Ptr.fls)],
        ElemT vt (fun v => v ∈ vt.leftVars i ∧ S v) (fun v => v ∈ vt.rightVars i ∧ S v) e := by
      intro e he
      simp only [List.mem_cons, List.not_mem_nil, or_false] at he
      rcases he with rfl | rfl
      · exact ⟨wd, WFs_tru vt, fun v hv => ⟨hd v hv, Or.inr hv⟩, varsIn_tru _⟩
      · exact ⟨WFs_neg wd, WFs_fls vt, fun v hv => by rw [vars_neg] at hv; exact ⟨hd v hv, Or.inr hv⟩,
          varsIn_fls _⟩
    split at h
    · cases h
    · rename_i st1 x hloop
      cases h
      obtain ⟨hP1, hpost⟩ := prodLoop_s hands false hinb _ _ _ _ hP hin hloop
      simp only [LoopT] at hpost
      subst hpost
      exact ⟨hP1, WFs_tru vt, fun v hv => by cases hv⟩
    · rename_i st1 l hloop
      obtain ⟨hP1, hpost⟩ := prodLoop_s hands false hinb _ _ _ _ hP hin hloop
      simp only [LoopT] at hpost
      obtain ⟨_, hsem⟩ := prodLoop_ok hand false hokd hpd _ _ _ _ (hP0 _ hP) hok hloop
      simp only [ProdPost] at hsem
      have hpl : Partition l := fun a => by rw [(hsem.2 a).1]; exact hpart a
      have hfin : ∀ j, vtreeIndex vt r = j → canonicalize true andF st1 l j = some (st', res) →
          P st' ∧ WFs vt res ∧ ∀ v ∈ res.vars, v ∈ r.vars ∨ v ∈ d.vars := by
        intro j hj hc
        subst hj
        obtain ⟨hP', wres, vres⟩ := canonicalize_wfs hP0 hnd hand hands hP1 hint hpl
          (fun e he => elemOKs_of_T (hpost e he)) hc
        exact ⟨hP', wres, fun x hx => elemT_S hpost x (vres x hx)⟩
      split at h
      · exact hfin _ rfl h
      · exact hfin _ rfl h
      · cases h

theorem andCartesian_s (hP0 : ∀ st, P st → P0 st) (hnd : vt.leaves.Nodup) (hand : AndOK P0 vt andF)
    (hands : AndOKs P vt andF) {st st' : σ} {a b res : Ptr} (hP : P st) (wa : WFs vt a)
    (wb : WFs vt b) (hidx : vtreeIndex vt a = vtreeIndex vt b)
    (h : andCartesian vt true andF st a b (vtreeIndex vt a) = some (st', res)) :
    P st' ∧ WFs vt res ∧ ∀ v ∈ res.vars, v ∈ a.vars ∨ v ∈ b.vars := by
  have general : (match a.elems?, b.elems? with
      | some ea, some eb =>
        match prodLoop andF true eb st ea with
        | none => none
        | some (st', .early x) => some (st', x)
        | some (st', .elems l) => canonicalize true andF st' l (vtreeIndex vt a)
      | _, _ => none) = some (st', res) →
      P st' ∧ WFs vt res ∧ ∀ v ∈ res.vars, v ∈ a.vars ∨ v ∈ b.vars := by
    intro h
    split at h
    · rename_i ea eb hea heb
      obtain ⟨hoka, hpa, hinta, _⟩ := elems?_ok (WFs_WF _ wa) hea
      obtain ⟨hokb, hpb, _, _⟩ := elems?_ok (WFs_WF _ wb) heb
      obtain ⟨_, hesa⟩ := elems?_s wa hea
      obtain ⟨_, hesb⟩ := elems?_s wb heb
      rw [← hidx] at hokb hesb
      let S : Nat → Prop := fun v => v ∈ a.vars ∨ v ∈ b.vars
      let i := vtreeIndex vt a
      have hina : ∀ e ∈ ea,
          ElemT vt (fun v => v ∈ vt.leftVars i ∧ S v) (fun v => v ∈ vt.rightVars i ∧ S v) e ∧
            e.1 ≠ .fls := by
        intro e he
        obtain ⟨⟨a1, a2, a3, a4, a5⟩, b1, b2⟩ := hesa e he
        exact ⟨⟨a1, a2, fun v hv => ⟨a4 v hv, Or.inl (b1 v hv)⟩, fun v hv => ⟨a5 v hv, Or.inl (b2 v hv)⟩⟩, a3⟩
      have hinb : ∀ e ∈ eb,
          ElemT vt (fun v => v ∈ vt.leftVars i ∧ S v) (fun v => v ∈ vt.rightVars i ∧ S v) e := by
        intro e he
        obtain ⟨⟨a1, a2, a3, a4, a5⟩, b1, b2⟩ := hesb e he
        exact ⟨a1, a2, fun v hv => ⟨a4 v hv, Or.inr (b1 v hv)⟩, fun v hv => ⟨a5 v hv, Or.inr (b2 v hv)⟩⟩
      split at h
      · cases h
      · rename_i st1 x hloop
        cases h
        obtain ⟨hP1, hpost⟩ := prodLoop_s hands true hinb _ _ _ _ hP hina hloop
        simp only [LoopT] at hpost
        subst hpost
        exact ⟨hP1, WFs_tru vt, fun v hv => by cases hv⟩
      · rename_i st1 l hloop
        obtain ⟨hP1, hpost⟩ := prodLoop_s hands true hinb _ _ _ _ hP hina hloop
        simp only [LoopT] at hpost
        obtain ⟨_, hsem⟩ := prodLoop_ok hand true hokb hpb _ _ _ _ (hP0 _ hP) hoka hloop
        simp only [ProdPost] at hsem
        have hpl : Partition l := fun asg => by rw [(hsem.2 asg).1]; exact hpa asg
        obtain ⟨hP', wres, vres⟩ := canonicalize_wfs hP0 hnd hand hands hP1 hinta hpl
          (fun e he => elemOKs_of_T (hpost e he)) h
        exact ⟨hP', wres, fun x hx => elemT_S hpost x (vres x hx)⟩
    · cases h
  simp only [andCartesian] at h
  split at h
  · rename_i c l i lo hi hm
    have hrl : vt.isRLAt (vtreeIndex vt a) = true := by
      cases hr : vt.isRLAt (vtreeIndex vt a)
      · rw [hr] at hm; simp at hm
      · rfl
    rw [hrl] at hm
    simp only [if_true] at hm
    subst hm
    obtain ⟨hint, hl, wlo, whi, vlo, vhi, _⟩ := wa
    split at h
    · rename_i bl bh hbl hbh
      cases b with
      | bdd c' l' i' lo' hi' =>
        simp only [Ptr.low?, Ptr.high?, Option.some.injEq] at hbl hbh
        subst hbl hbh
        obtain ⟨_, _, wlo', whi', vlo', vhi', _⟩ := wb
        simp only [vtreeIndex] at hidx
        subst hidx
        split at h
        · cases h
        · rename_i st1 lr h1
          obtain ⟨hP1, wlr, vlr, _⟩ := hands _ _ _ _ _ hP (by cases c <;> simp [WFs_neg, wlo])
            (by cases c' <;> simp [WFs_neg, wlo']) h1
          split at h
          · cases h
          · rename_i st2 hr h2
            cases h
            obtain ⟨hP2, whr, vhr, _⟩ := hands _ _ _ _ _ hP1 (by cases c <;> simp [WFs_neg, whi])
              (by cases c' <;> simp [WFs_neg, whi']) h2
            have vlr' : ∀ v ∈ lr.vars, v ∈ lo.vars ∨ v ∈ lo'.vars := by
              intro v hv; rcases vlr v hv with h' | h'
              · left; cases c <;> simpa [vars_neg] using h'
              · right; cases c' <;> simpa [vars_neg] using h'
            have vhr' : ∀ v ∈ hr.vars, v ∈ hi.vars ∨ v ∈ hi'.vars := by
              intro v hv; rcases vhr v hv with h' | h'
              · left; cases c <;> simpa [vars_neg] using h'
              · right; cases c' <;> simpa [vars_neg] using h'
            simp only [vtreeIndex]
            obtain ⟨w, vv⟩ := uniqueBdd_wfs hint hl wlr whr
              (fun v hv => (vlr' v hv).elim (vlo v) (vlo' v))
              (fun v hv => (vhr' v hv).elim (vhi v) (vhi' v))
            refine ⟨hP2, w, fun v hv => ?_⟩
            rcases vv v hv with rfl | h' | h'
            · left; simp [Ptr.vars]
            · rcases vlr' v h' with h'' | h''
              · left; simp [Ptr.vars, h'']
              · right; simp [Ptr.vars, h'']
            · rcases vhr' v h' with h'' | h''
              · left; simp [Ptr.vars, h'']
              · right; simp [Ptr.vars, h'']
      | _ => simp [Ptr.low?] at hbl
    · cases h
  · exact general h

theorem andIndep_s (hnd : vt.leaves.Nodup) {a b res : Ptr} {k : Nat} (wa : WFs vt a) (wb : WFs vt b)
    (hint : Internal vt k) (ha : ∀ v ∈ a.vars, v ∈ vt.leftVars k)
    (hb : ∀ v ∈ b.vars, v ∈ vt.rightVars k)
    (na1 : a ≠ .tru) (na2 : a ≠ .fls) (nb1 : b ≠ .tru) (nb2 : b ≠ .fls)
    (h : andIndep vt a b k = some res) :
    WFs vt res ∧ ∀ v ∈ res.vars, v ∈ a.vars ∨ v ∈ b.vars := by
  simp only [andIndep] at h
  split at h
  · split at h
    · rename_i l
      cases h
      obtain ⟨w, vv⟩ := uniqueBdd_wfs (l := l) (lo := .fls) (hi := b) hint (ha l (by simp [Ptr.vars]))
        (WFs_fls vt) wb (fun v hv => by cases hv) hb
      refine ⟨w, fun v hv => ?_⟩
      rcases vv v hv with rfl | h' | h'
      · left; simp [Ptr.vars]
      · cases h'
      · exact Or.inr h'
    · rename_i l
      cases h
      obtain ⟨w, vv⟩ := uniqueBdd_wfs (l := l) (lo := b) (hi := .fls) hint (ha l (by simp [Ptr.vars]))
        wb (WFs_fls vt) hb (fun v hv => by cases hv)
      refine ⟨w, fun v hv => ?_⟩
      rcases vv v hv with rfl | h' | h'
      · left; simp [Ptr.vars]
      · exact Or.inr h'
      · cases h'
    · cases h
  · have hok : ∀ e ∈ [(a, b), (a.neg, Ptr.fls)], ElemOKs vt k e := by
      intro e he
      simp only [List.mem_cons, List.not_mem_nil, or_false] at he
      rcases he with rfl | rfl
      · exact ⟨wa, wb, na2, ha, hb⟩
      · refine ⟨WFs_neg wa, WFs_fls vt, ?_, by simpa [vars_neg] using ha, fun v hv => by cases hv⟩
        intro e; apply na1
        have := congrArg Ptr.neg e; rw [neg_neg] at this; exact this
    have hpart : Partition [(a, b), (a.neg, .fls)] := by
      intro asg; simp only [cnt_cons, cnt_nil, eval_neg]; cases a.eval asg <;> simp
    have hsubs : (([(a, b), (a.neg, Ptr.fls)] : List Elem).map (·.2)).Nodup := by
      simp only [List.map_cons, List.map_nil, List.nodup_cons, List.mem_singleton,
        List.not_mem_nil, not_false_eq_true, List.nodup_nil, and_true]
      exact nb2
    have hbase : canonBase? [(a, b), (a.neg, Ptr.fls)] = none := by
      have h1 : b.isTrue = false := by cases b <;> simp_all [Ptr.isTrue]
      have h2 : b.isFalse = false := by cases b <;> simp_all [Ptr.isFalse]
      simp [canonBase?, h1, h2]
    obtain ⟨w, vv⟩ := uniqueOr_wfs hnd hint hpart hok hsubs hbase h
    refine ⟨w, fun v hv => ?_⟩
    have := vv v hv
    simp only [varsElems, vars_neg, Ptr.vars, List.mem_append, List.append_nil, List.not_mem_nil,
      or_false] at this
    rcases this with h' | h' | h'
    · exact Or.inl h'
    · exact Or.inr h'
    · exact Or.inl h'

end casesS


/-! ## `and`, structurally -/

/-- structural apply-cache invariant -/
def AppInvS (A : CacheImpl (Ptr × Ptr)) (vt : VTree) (s : A.σ) : Prop :=
  ∀ k r, A.get s k = some r → WFs vt r ∧ ∀ v ∈ r.vars, v ∈ k.1.vars ∨ v ∈ k.2.vars

/-- the combined state invariant -/
def AppInv2 (A : CacheImpl (Ptr × Ptr)) (vt : VTree) (s : A.σ) : Prop :=
  AppInv A vt s ∧ AppInvS A vt s

theorem appInv2_empty (A : CacheImpl (Ptr × Ptr)) (vt : VTree) : AppInv2 A vt A.empty :=
  ⟨appInv_empty A vt, fun k r h => by rw [A.empty_get] at h; cases h⟩

theorem appInvS_insert {A : CacheImpl (Ptr × Ptr)} {vt : VTree} {s : A.σ} {k : Ptr × Ptr} {r : Ptr}
    (hs : AppInvS A vt s) (wr : WFs vt r) (vr : ∀ v ∈ r.vars, v ∈ k.1.vars ∨ v ∈ k.2.vars) :
    AppInvS A vt (A.insert s k r) := by
  intro k' r' h
  rcases A.lawful _ _ _ _ _ h with ⟨rfl, rfl⟩ | h'
  · exact ⟨wr, vr⟩
  · exact hs k' r' h'

theorem varsAt_sub {vt : VTree} {i : Nat} {s : VTree} (h : vt.sub? 0 i = some s) :
    vt.varsAt i = s.leaves := by simp [VTree.varsAt, h]

section andS
variable {A : CacheImpl (Ptr × Ptr)} {vt : VTree} {andF : AndF A.σ}

theorem andCore_s (hnd : vt.leaves.Nodup) (hand : AndOK (AppInv A vt) vt andF)
    (hands : AndOKs (AppInv2 A vt) vt andF) {st st' : A.σ} {x y r : Ptr}
    (hP : AppInv2 A vt st) (wx : WFs vt x) (wy : WFs vt y)
    (hx1 : x ≠ .tru) (hx2 : x ≠ .fls) (hy1 : y ≠ .tru) (hy2 : y ≠ .fls)
    (hle : vtreeIndex vt x = vtreeIndex vt y ∨ vtreeIndex vt x < vtreeIndex vt y)
    (h : andCore A vt true andF st x y = some (st', r)) :
    AppInvS A vt st' ∧ WFs vt r ∧ ∀ v ∈ r.vars, v ∈ x.vars ∨ v ∈ y.vars := by
  have hP0 : ∀ st, AppInv2 A vt st → AppInv A vt st := fun _ h => h.1
  have ix1 : x.isTrue = false := by cases x <;> simp_all [Ptr.isTrue]
  have ix2 : x.isFalse = false := by cases x <;> simp_all [Ptr.isFalse]
  have iy1 : y.isTrue = false := by cases y <;> simp_all [Ptr.isTrue]
  have iy2 : y.isFalse = false := by cases y <;> simp_all [Ptr.isFalse]
  simp only [andCore] at h
  split at h
  · rename_i v hget
    cases h
    exact ⟨hP.2, hP.2 _ _ hget⟩
  · obtain ⟨sx, hsx⟩ := vtreeIndex_sub (WFs_WF _ wx) ix1 ix2
    obtain ⟨sy, hsy⟩ := vtreeIndex_sub (WFs_WF _ wy) iy1 iy2
    have vx := wfs_vars_at wx
    have vy := wfs_vars_at wy
    rw [varsAt_sub hsx] at vx
    rw [varsAt_sub hsy] at vy
    have core : ∀ {st1 : A.σ} {r1 : Ptr}, AppInv2 A vt st1 → WFs vt r1 →
        (∀ v ∈ r1.vars, v ∈ x.vars ∨ v ∈ y.vars) →
        AppInvS A vt (A.insert st1 (x, y) r1) ∧ WFs vt r1 ∧ ∀ v ∈ r1.vars, v ∈ x.vars ∨ v ∈ y.vars :=
      fun h1 h2 h3 => ⟨appInvS_insert h1.2 h2 h3, h2, h3⟩
    split at h
    · cases h
    · rename_i st1 r1 hr
      cases h
      split at hr
      · rename_i heq
        rw [← heq, VTree.lca_self hsx] at hr
        obtain ⟨h1, h2, h3⟩ := andCartesian_s hP0 hnd hand hands hP wx wy heq hr
        exact core h1 h2 h3
      · rename_i hne
        have hlt : vtreeIndex vt x < vtreeIndex vt y := by
          rcases hle with h' | h'
          · exact absurd h' hne
          · exact h'
        obtain ⟨l, r0, hk, hL, hR, _, _⟩ := VTree.lca_sides hsx hsy hlt
        split at hr
        · rename_i hka
          rw [hka] at hk hR
          have hd : ∀ v ∈ y.vars, v ∈ vt.rightVars (vtreeIndex vt x) := by
            intro v hv
            simp only [VTree.rightVars, hk]
            exact hR hlt v (vy v hv)
          obtain ⟨h1, h2, h3⟩ := andSubDesc_s hP0 hnd hand hands hP wx wy hd hr
          exact core h1 h2 h3
        · rename_i hna
          split at hr
          · rename_i hkb
            rw [hkb] at hk hL
            have hd : ∀ v ∈ x.vars, v ∈ vt.leftVars (vtreeIndex vt y) := by
              intro v hv
              simp only [VTree.leftVars, hk]
              exact hL hlt v (vx v hv)
            obtain ⟨h1, h2, h3⟩ := andPrimeDesc_s hP0 hnd hand hands hP wy wx hd hr
            exact core h1 h2 (fun v hv => (h3 v hv).symm)
          · rename_i hnb
            simp only [Option.map_eq_some_iff] at hr
            obtain ⟨r0', hr0, he⟩ := hr
            cases he
            have hlo : vtreeIndex vt x < vt.lca 0 (vtreeIndex vt x) (vtreeIndex vt y) := by omega
            have hhi : vt.lca 0 (vtreeIndex vt x) (vtreeIndex vt y) < vtreeIndex vt y := by omega
            obtain ⟨h2, h3⟩ := andIndep_s hnd wx wy ⟨l, r0, hk⟩
              (fun v hv => by simp only [VTree.leftVars, hk]; exact hL hlo v (vx v hv))
              (fun v hv => by simp only [VTree.rightVars, hk]; exact hR hhi v (vy v hv))
              hx1 hx2 hy1 hy2 hr0
            exact core hP h2 h3

theorem andBody_s (hnd : vt.leaves.Nodup) (hand : AndOK (AppInv A vt) vt andF)
    (hands : AndOKs (AppInv2 A vt) vt andF) :
    AndOKs (AppInv2 A vt) vt (andBody A vt true andF) := by
  intro st a b st' r hP wa wb h
  -- semantics and the C03 state invariant come from `andBody_ok`
  obtain ⟨hA', _, hsem⟩ := andBody_ok (cmpr := true) hand st a b st' r hP.1 (WFs_WF _ wa) (WFs_WF _ wb) h
  suffices hs : AppInvS A vt st' ∧ WFs vt r ∧ ∀ v ∈ r.vars, v ∈ a.vars ∨ v ∈ b.vars from
    ⟨⟨hA', hs.1⟩, hs.2.1, hs.2.2, hsem⟩
  simp only [andBody] at h
  split at h
  · cases h; exact ⟨hP.2, wb, fun v hv => Or.inr hv⟩
  · rename_i ha1
    split at h
    · cases h; exact ⟨hP.2, wa, fun v hv => Or.inl hv⟩
    · rename_i hb1
      split at h
      · cases h; exact ⟨hP.2, WFs_fls vt, fun v hv => by cases hv⟩
      · rename_i ha2
        split at h
        · cases h; exact ⟨hP.2, WFs_fls vt, fun v hv => by cases hv⟩
        · rename_i hb2
          split at h
          · cases h; exact ⟨hP.2, wa, fun v hv => Or.inl hv⟩
          · split at h
            · cases h; exact ⟨hP.2, WFs_fls vt, fun v hv => by cases hv⟩
            · have na1 : a ≠ .tru := by rintro rfl; simp [Ptr.isTrue] at ha1
              have na2 : a ≠ .fls := by rintro rfl; simp [Ptr.isFalse] at ha2
              have nb1 : b ≠ .tru := by rintro rfl; simp [Ptr.isTrue] at hb1
              have nb2 : b ≠ .fls := by rintro rfl; simp [Ptr.isFalse] at hb2
              split at h
              · rename_i hle
                exact andCore_s hnd hand hands hP wa wb na1 na2 nb1 nb2 hle h
              · rename_i hle
                obtain ⟨h1, h2, h3⟩ := andCore_s hnd hand hands hP wb wa nb1 nb2 na1 na2 (by omega) h
                exact ⟨h1, h2, fun v hv => (h3 v hv).symm⟩

end andS

/-- the compressing `and` only returns pointers in normal form -/
theorem and_s (A : CacheImpl (Ptr × Ptr)) {vt : VTree} (hnd : vt.leaves.Nodup) :
    ∀ fuel, AndOKs (AppInv2 A vt) vt (and A vt true fuel)
  | 0 => by intro st a b st' r _ _ _ h; simp [and] at h
  | fuel + 1 => by
    have := andBody_s hnd (and_ok A vt true fuel) (and_s A hnd fuel)
    simpa [and] using this


/-! ## `condition`, structurally -/

section condS
variable {σ : Type} {P P0 : σ → Prop} {vt : VTree} {andF : AndF σ} {Tp Ts : Nat → Prop}

def CondOKs (P : σ → Prop) (vt : VTree) (condF : σ → Ptr → Option (σ × Ptr)) : Prop :=
  ∀ st f st' r, P st → WFs vt f → condF st f = some (st', r) →
    P st' ∧ WFs vt r ∧ ∀ u ∈ r.vars, u ∈ f.vars

def CondT (vt : VTree) (Tp Ts : Nat → Prop) : LoopRes → Prop
  | .elems l => ∀ e ∈ l, ElemT vt Tp Ts e ∧ e.1 ≠ .fls
  | .early r => WFs vt r ∧ VarsIn Ts r

theorem condLoop_s {condF : σ → Ptr → Option (σ × Ptr)} (hc : CondOKs P vt condF) :
    ∀ (es : List Elem) (st st' : σ) (res : LoopRes), P st → (∀ e ∈ es, ElemT vt Tp Ts e) →
    condLoop condF st es = some (st', res) → P st' ∧ CondT vt Tp Ts res := by
  intro es
  induction es with
  | nil =>
    intro st st' res hP _ h
    simp only [condLoop] at h
    cases h
    exact ⟨hP, fun e he => by cases he⟩
  | cons e rest ih =>
    intro st st' res hP hok h
    obtain ⟨p, s⟩ := e
    have hx := hok (p, s) (List.mem_cons_self ..)
    have hrest : ∀ e ∈ rest, ElemT vt Tp Ts e := fun e he => hok e (List.mem_cons_of_mem _ he)
    simp only [condLoop] at h
    split at h
    · cases h
    · rename_i st1 newp hp
      obtain ⟨hP1, wnp, vnp⟩ := hc _ _ _ _ hP hx.1 hp
      split at h
      · exact ih _ _ _ hP1 hrest h
      · rename_i hnf
        have hne : newp ≠ .fls := by rintro rfl; simp [Ptr.isFalse] at hnf
        split at h
        · cases h
        · rename_i st2 news hs
          obtain ⟨hP2, wns, vns⟩ := hc _ _ _ _ hP1 hx.2.1 hs
          split at h
          · cases h
            exact ⟨hP2, wns, fun u hu => hx.2.2.2 u (vns u hu)⟩
          · split at h
            · cases h
            · rename_i st3 r hrec
              cases h
              exact ih _ _ _ hP2 hrest hrec
            · rename_i st3 l hrec
              cases h
              obtain ⟨hP', hres⟩ := ih _ _ _ hP2 hrest hrec
              refine ⟨hP', ?_⟩
              intro e he
              rcases List.mem_cons.1 he with rfl | h'
              · exact ⟨⟨wnp, wns, fun u hu => hx.2.2.1 u (vnp u hu),
                  fun u hu => hx.2.2.2 u (vns u hu)⟩, hne⟩
              · exact hres e h'

theorem condition_s (hP0 : ∀ st, P st → P0 st) (hnd : vt.leaves.Nodup) (hand : AndOK P0 vt andF)
    (hands : AndOKs P vt andF) (x : Nat) (v : Bool) :
    ∀ n, CondOKs P vt (condition true andF x v n)
  | 0 => by intro st f st' r _ _ h; simp [condition] at h
  | n + 1 => by
    have ih := condition_s hP0 hnd hand hands x v n
    have ihc := condition_ok hand true x v n
    intro st f st' r hP wf h
    have node : ∀ (es : List Elem) (i : Nat), f.elems? = some es → vtreeIndex vt f = i →
        (match condLoop (condition true andF x v n) st es with
          | none => none
          | some (st', .early r) => some (st', r)
          | some (st', .elems es') => canonicalize true andF st' es' i) = some (st', r) →
        P st' ∧ WFs vt r ∧ ∀ u ∈ r.vars, u ∈ f.vars := by
      intro es i hes hi h
      subst hi
      obtain ⟨hok, hpart, hint, _⟩ := elems?_ok (WFs_WF _ wf) hes
      obtain ⟨_, hel⟩ := elems?_s wf hes
      let S : Nat → Prop := fun u => u ∈ f.vars
      let i := vtreeIndex vt f
      have hin : ∀ e ∈ es,
          ElemT vt (fun u => u ∈ vt.leftVars i ∧ S u) (fun u => u ∈ vt.rightVars i ∧ S u) e := by
        intro e he
        obtain ⟨⟨a1, a2, _, a4, a5⟩, b1, b2⟩ := hel e he
        exact ⟨a1, a2, fun u hu => ⟨a4 u hu, b1 u hu⟩, fun u hu => ⟨a5 u hu, b2 u hu⟩⟩
      split at h
      · cases h
      · rename_i st1 r1 hloop
        cases h
        obtain ⟨hP1, hpost⟩ := condLoop_s ih _ _ _ _ hP hin hloop
        simp only [CondT] at hpost
        exact ⟨hP1, hpost.1, fun u hu => (hpost.2 u hu).2⟩
      · rename_i st1 l hloop
        obtain ⟨hP1, hpost⟩ := condLoop_s ih _ _ _ _ hP hin hloop
        simp only [CondT] at hpost
        obtain ⟨_, hsem⟩ := condLoop_ok ihc _ _ _ _ (hP0 _ hP) hok hloop
        simp only [CondPost] at hsem
        have hpl : Partition l := fun a => by
          rw [(hsem.2 a (by rw [hpart]; exact Nat.le_refl 1)).1]; exact hpart _
        obtain ⟨hP', wr, vr⟩ := canonicalize_wfs hP0 hnd hand hands hP1 hint hpl
          (fun e he => elemOKs_of_T (hpost e he)) h
        exact ⟨hP', wr, fun u hu => elemT_S hpost u (vr u hu)⟩
    cases f with
    | tru => simp only [condition] at h; cases h; exact ⟨hP, WFs_tru vt, fun u hu => hu⟩
    | fls => simp only [condition] at h; cases h; exact ⟨hP, WFs_fls vt, fun u hu => hu⟩
    | lit l p =>
      simp only [condition] at h
      cases h
      refine ⟨hP, ?_, ?_⟩
      · split
        · split
          · exact WFs_tru vt
          · exact WFs_fls vt
        · exact wf
      · split
        · split <;> exact fun u hu => by cases hu
        · exact fun u hu => hu
    | bdd c l i lo hi =>
      simp only [condition] at h
      exact node _ i rfl rfl h
    | dec c i es =>
      simp only [condition] at h
      exact node _ i rfl rfl h

end condS

end Sdd
