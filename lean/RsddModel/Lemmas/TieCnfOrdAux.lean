import RsddModel.Model.Orders
import RsddModel.Model.OrdersExtra
/-!
# Support definitions for the translator route of the order heuristics of `src/repr/cnf.rs`
(`tools/gen_cnford.py` ↦ `Model/GenCnfOrd.lean`, tied in `Props/TieCnfOrd.lean`)

Loop combinators of the translator's mapping table and the facts that turn an index loop
`for i in a..v.len() { … v[i] … }` into list recursion (the shape of the hand-written model).
-/
namespace Orders.Tr

/-- `for (idx, x) in it.enumerate() { … }` -/
def forEnum {α σ : Type} (l : List α) (s : σ) (f : Nat → α → σ → σ) : σ :=
  (l.zipIdx).foldl (fun s p => f p.2 p.1 s) s

/-- `it.enumerate()` in value position: pairs `(index, element)` -/
def enumerate {α : Type} (l : List α) : List (Nat × α) := (List.range l.length).zip l

/-- `while c { body }` with fuel (the state is returned unchanged when the fuel runs out) -/
def whileFuel {σ : Type} : Nat → (σ → Bool) → (σ → σ) → σ → σ
  | 0, _, _, s => s
  | n + 1, c, b, s => if c s then whileFuel n c b (b s) else s

/-- `loop { body; if c { break; } }` with fuel: `none` when the fuel runs out; `c` is the exit test as a
function of the state BEFORE the iteration -/
def loopFuel {σ : Type} : Nat → (σ → σ) → (σ → Bool) → σ → Option σ
  | 0, _, _, _ => none
  | n + 1, b, c, s => if c s then some (b s) else loopFuel n b c (b s)

/-- `Iterator::min_by(cmp)`: the FIRST minimum (the running best `x` is replaced by a later `y`
only when `cmp x y == Greater`) -/
def minBy {α : Type} (cmp : α → α → Ordering) : List α → Option α
  | [] => none
  | x :: xs => some (xs.foldl (fun best y => if cmp best y = .gt then y else best) x)

/-- recursion over the suffixes of a list: `G x rest` for every element `x` followed by `rest` -/
def dropRec {α σ : Type} (G : α → List α → σ → σ) : List α → σ → σ
  | [], s => s
  | x :: r, s => dropRec G r (G x r s)

theorem foldl_range'_drop {α σ : Type} (F : Nat → σ → σ) (f : α → σ → σ) (l : List α) (d : α)
    (hF : ∀ j s, j < l.length → F j s = f (l.getD j d) s) :
    ∀ (k i : Nat) (s : σ), i + k = l.length →
      (List.range' i k).foldl (fun s j => F j s) s = (l.drop i).foldl (fun s x => f x s) s := by
  intro k
  induction k with
  | zero =>
    intro i s h
    have : l.drop i = [] := List.drop_eq_nil_of_le (by omega)
    simp [this]
  | succ k ih =>
    intro i s h
    have hi : i < l.length := by omega
    rw [List.range'_succ, List.foldl_cons, List.drop_eq_getElem_cons hi, List.foldl_cons, hF i s hi,
      ih (i + 1) _ (by omega)]
    simp [List.getD_eq_getElem?_getD, List.getElem?_eq_getElem hi]

/-- `for j in i..l.len() { s = F j s }` where `F j` only looks at `l[j]` is a fold over `l[i..]` -/
theorem forRange_drop_foldl {α σ : Type} (F : Nat → σ → σ) (f : α → σ → σ) (l : List α) (d : α)
    (hF : ∀ j s, j < l.length → F j s = f (l.getD j d) s) (i : Nat) (s : σ) :
    forRange i l.length F s = (l.drop i).foldl (fun s x => f x s) s := by
  unfold forRange
  by_cases h : i ≤ l.length
  · exact foldl_range'_drop F f l d hF (l.length - i) i s (by omega)
  · have h1 : l.length - i = 0 := by omega
    have h2 : l.drop i = [] := List.drop_eq_nil_of_le (by omega)
    simp [h1, h2]

theorem foldl_range'_dropRec {α σ : Type} (F : Nat → σ → σ) (G : α → List α → σ → σ) (l : List α) (d : α)
    (hF : ∀ j s, j < l.length → F j s = G (l.getD j d) (l.drop (j + 1)) s) :
    ∀ (k i : Nat) (s : σ), i + k = l.length →
      (List.range' i k).foldl (fun s j => F j s) s = dropRec G (l.drop i) s := by
  intro k
  induction k with
  | zero =>
    intro i s h
    have : l.drop i = [] := List.drop_eq_nil_of_le (by omega)
    simp [this, dropRec]
  | succ k ih =>
    intro i s h
    have hi : i < l.length := by omega
    rw [List.range'_succ, List.foldl_cons, List.drop_eq_getElem_cons hi, dropRec, hF i s hi,
      ih (i + 1) _ (by omega)]
    simp [List.getD_eq_getElem?_getD, List.getElem?_eq_getElem hi]

/-- `for j in i..l.len() { s = F j s }` where `F j` looks at `l[j]` and `l[j+1..]` -/
theorem forRange_dropRec {α σ : Type} (F : Nat → σ → σ) (G : α → List α → σ → σ) (l : List α) (d : α)
    (hF : ∀ j s, j < l.length → F j s = G (l.getD j d) (l.drop (j + 1)) s) (i : Nat) (s : σ) :
    forRange i l.length F s = dropRec G (l.drop i) s := by
  unfold forRange
  by_cases h : i ≤ l.length
  · exact foldl_range'_dropRec F G l d hF (l.length - i) i s (by omega)
  · have h1 : l.length - i = 0 := by omega
    have h2 : l.drop i = [] := List.drop_eq_nil_of_le (by omega)
    simp [h1, h2, dropRec]

/-- `for v in 0..n { s = F v s }` as a fold over `List.range n` -/
theorem forRange_zero {σ : Type} (F : Nat → σ → σ) (n : Nat) (s : σ) :
    forRange 0 n F s = (List.range n).foldl (fun s v => F v s) s := by
  simp [forRange, List.range_eq_range']

/-! ### the model's recursions in fold / `dropRec` form -/

theorem igInner_eq_foldl (a : Nat) (l : List Spec.Lit) (g : UnGraph) :
    igInner a l g = l.foldl (fun g x => if g.hasEdge a x.var then g else g.addEdge a x.var) g := by
  induction l generalizing g with
  | nil => rfl
  | cons x xs ih => simp only [igInner, List.foldl_cons]; exact ih _

theorem igClause_eq_dropRec (c : List Spec.Lit) (g : UnGraph) :
    igClause c g = dropRec (fun x r g => igInner x.var (x :: r) g) c g := by
  induction c generalizing g with
  | nil => rfl
  | cons x xs ih => simp only [igClause, dropRec]; exact ih _

theorem fillInner_eq_foldl (a : Nat) (l : List Nat) (g : UnGraph) :
    fillInner a l g = l.foldl (fun g b => if g.hasEdge a b then g else g.addEdge a b) g := by
  induction l generalizing g with
  | nil => rfl
  | cons x xs ih => simp only [fillInner, List.foldl_cons]; exact ih _

theorem fillAll_eq_dropRec (l : List Nat) (g : UnGraph) :
    fillAll l g = dropRec (fun a r g => fillInner a r g) l g := by
  induction l generalizing g with
  | nil => rfl
  | cons x xs ih => simp only [fillAll, dropRec]; exact ih _

theorem count_foldl (p : Nat → Bool) (l : List Nat) (n : Nat) :
    l.foldl (fun s x => if p x then s + 1 else s) n = n + (l.filter p).length := by
  induction l generalizing n with
  | nil => simp
  | cons x xs ih =>
    simp only [List.foldl_cons, List.filter_cons]
    split <;> simp [ih] <;> omega

theorem countMissing_eq_dropRec (g : UnGraph) (l : List Nat) (n : Nat) :
    dropRec (fun a r s => s + (r.filter fun b => !g.hasEdge a b).length) l n = n + countMissing g l := by
  induction l generalizing n with
  | nil => simp [dropRec, countMissing]
  | cons x xs ih => simp only [dropRec, countMissing, ih]; omega

/-! ### `min_by` on `(index, key)` pairs is the model's `firstMinIdx` -/

theorem minBy_aux (f : Nat → Nat) : ∀ (k i b bv : Nat),
    (((List.range' i k).map fun x => (x, f x)).foldl
        (fun (best : Nat × Nat) y => if compare best.2 y.2 = .gt then y else best) (b, bv)).1
      = firstMinIdxAux ((List.range' i k).map f) i b bv := by
  intro k
  induction k with
  | zero => intro i b bv; rfl
  | succ k ih =>
    intro i b bv
    simp only [List.range'_succ, List.map_cons, List.foldl_cons, firstMinIdxAux]
    by_cases h : f i < bv
    · have : compare bv (f i) = .gt := by simp [Nat.compare_eq_gt, h]
      simp only [this, if_true, h]
      exact ih (i + 1) i (f i)
    · have : compare bv (f i) ≠ .gt := by simp [Nat.compare_eq_gt, h]
      simp only [this, if_false, h]
      exact ih (i + 1) b bv

theorem minBy_firstMinIdx (f : Nat → Nat) (n : Nat) :
    ((minBy (fun (p q : Nat × Nat) => compare p.2 q.2) ((List.range n).map fun x => (x, f x))).getD default).1
      = firstMinIdx ((List.range n).map f) := by
  cases n with
  | zero => rfl
  | succ n =>
    rw [List.range_eq_range', List.range'_succ]
    simp only [List.map_cons, minBy, firstMinIdx, Option.getD_some]
    exact minBy_aux f n 1 0 (f 0)

end Orders.Tr
