import RsddModel.Model.SddSemantic
import RsddModel.Lemmas.SddHash
/-!
# Lemmas: the semantic-hash SDD builder

* ground truth: `equivB` decides equality of the denoted functions for pointers over the vtree;
* the invariant `WFd vt p` of the semantic builder: `WF` (C03) plus *semantic* variable sides —
  the primes of a node depend only on the variables of the left child of its vtree index, the subs
  only on those of the right child.  (Syntactic sides, as in `WFs`, are not maintained: a table
  lookup may return, for the requested node, a stored node of another vtree index that denotes
  the same function.)  `WFd → WF`, `WFd → DD` (so the hash of every pointer handed out is the
  weighted sum of its function), `WFs → WFd`;
* pass 1 (`chk = true`): every operation returns `WFd` pointers denoting the right function and
  keeps the tables well formed — for EVERY hash function `h`: with the collision detector on, a
  run that returns made only judgements that agree with the truth tables;
* pass 2: a run that returns with the detector on returns the same with the detector off
  (`*_unchecked`);
* `never_splits`: for `h = hashTree P w` (normalised weights below `P`), pointers that denote the
  same function have the same hash, so `sdd_eq` never separates them.
-/
namespace SddSem
open Sdd Spec

/-! ## ground truth -/

theorem allAssignments_complete : ∀ (vars : List Nat) (base asg : Assign),
    ∃ b ∈ allAssignments vars base, ∀ v ∈ vars, b v = asg v
  | [], base, _ => ⟨base, by simp [allAssignments], fun _ h => by cases h⟩
  | v :: vs, base, asg => by
    obtain ⟨b, hb, hv⟩ := allAssignments_complete vs (upd base v (asg v)) asg
    refine ⟨b, ?_, ?_⟩
    · simp only [allAssignments, List.mem_append]
      cases h : asg v
      · left; rw [h] at hb; exact hb
      · right; rw [h] at hb; exact hb
    · intro u hu
      by_cases huv : u ∈ vs
      · exact hv u huv
      · have : u = v := by
          rcases List.mem_cons.1 hu with h | h
          · exact h
          · exact absurd h huv
        subst this
        rw [allAssignments_outside vs _ b hb u huv, upd_same]

/-- a property of assignments that only looks at the vtree's variables holds everywhere once it
holds on the listed assignments -/
theorem assignments_all {vt : VTree} {f : Assign → Bool}
    (hf : ∀ a a' : Assign, (∀ v ∈ vt.leaves, a v = a' v) → f a = f a') :
    (assignments vt).all f = true ↔ ∀ asg, f asg = true := by
  constructor
  · intro h asg
    obtain ⟨b, hb, hv⟩ := allAssignments_complete vt.leaves (fun _ => false) asg
    rw [← hf b asg hv]
    exact List.all_eq_true.1 h b hb
  · intro h
    exact List.all_eq_true.2 fun b _ => h b

theorem equivB_iff {vt : VTree} {a b : Ptr} (ha : ∀ v ∈ a.vars, v ∈ vt.leaves)
    (hb : ∀ v ∈ b.vars, v ∈ vt.leaves) :
    equivB vt a b = true ↔ ∀ asg, a.eval asg = b.eval asg := by
  unfold equivB
  rw [assignments_all]
  · simp
  · intro x x' hx
    rw [eval_congr a (fun v hv => hx v (ha v hv)), eval_congr b (fun v hv => hx v (hb v hv))]

theorem equivAndB_iff {vt : VTree} {r a b : Ptr} (hr : ∀ v ∈ r.vars, v ∈ vt.leaves)
    (ha : ∀ v ∈ a.vars, v ∈ vt.leaves) (hb : ∀ v ∈ b.vars, v ∈ vt.leaves) :
    equivAndB vt r a b = true ↔ ∀ asg, r.eval asg = (a.eval asg && b.eval asg) := by
  unfold equivAndB
  rw [assignments_all]
  · simp
  · intro x x' hx
    rw [eval_congr r (fun v hv => hx v (hr v hv)), eval_congr a (fun v hv => hx v (ha v hv)),
      eval_congr b (fun v hv => hx v (hb v hv))]

/-! ## semantic dependence -/

/-- `p` depends only on the variables in `L` -/
def DepIn (L : List Nat) (p : Ptr) : Prop :=
  ∀ a a' : Assign, (∀ v ∈ L, a v = a' v) → p.eval a = p.eval a'

theorem depIn_tru (L) : DepIn L .tru := fun _ _ _ => by simp
theorem depIn_fls (L) : DepIn L .fls := fun _ _ _ => by simp
theorem depIn_neg {L p} (h : DepIn L p) : DepIn L p.neg := fun a a' e => by simp [h a a' e]
theorem depIn_equiv {L p q} (h : DepIn L p) (e : ∀ a, q.eval a = p.eval a) : DepIn L q :=
  fun a a' ha => by rw [e, e, h a a' ha]
theorem depIn_and {L p q r} (hp : DepIn L p) (hq : DepIn L q)
    (e : ∀ a, r.eval a = (p.eval a && q.eval a)) : DepIn L r :=
  fun a a' ha => by rw [e, e, hp a a' ha, hq a a' ha]
theorem depIn_mono {L L' p} (h : DepIn L p) (hs : ∀ v ∈ L, v ∈ L') : DepIn L' p :=
  fun a a' ha => h a a' fun v hv => ha v (hs v hv)
theorem depIn_lit {L : List Nat} {l : Nat} (pol : Bool) (h : l ∈ L) : DepIn L (.lit l pol) :=
  fun a a' ha => by simp [eval_lit, ha l h]
theorem depIn_of_vars {L : List Nat} {p : Ptr} (h : ∀ v ∈ p.vars, v ∈ L) : DepIn L p :=
  fun _ _ ha => eval_congr p fun v hv => ha v (h v hv)
theorem depIn_cond {L p r} {x : Nat} {v : Bool} (hp : DepIn L p)
    (e : ∀ a, r.eval a = p.eval (upd a x v)) : DepIn L r := by
  intro a a' ha
  rw [e, e]
  apply hp
  intro u hu
  by_cases hux : u = x
  · subst hux; simp
  · simp [upd, hux, ha u hu]

theorem depIn_lit_mem {L : List Nat} {l : Nat} {pol : Bool} (h : DepIn L (.lit l pol)) : l ∈ L := by
  apply Classical.byContradiction
  intro hl
  have := h (fun _ => false) (upd (fun _ => false) l true) (fun v hv => by
    have : v ≠ l := fun e => hl (e ▸ hv)
    simp [upd, this])
  cases pol <;> simp [eval_lit, upd] at this

theorem depIn_indep {L : List Nat} {p : Ptr} {v : Nat} (h : DepIn L p) (hv : v ∉ L) : IndepP p v := by
  intro a b
  apply h
  intro u hu
  exact upd_other _ _ (fun e => hv (e ▸ hu))

theorem depW_of_depIn {vt : VTree} {i : Nat} {p : Ptr} (h : DepIn (vt.leftVars i) p) :
    DepW (vt.leftLeaf? i) p := by
  intro w hw a a' e
  apply h
  intro v hv
  rw [leftLeaf_leftVars hw, List.mem_singleton] at hv
  rw [hv]; exact e

theorem evalElems_depIn {L R : List Nat} {es : List Elem}
    (h : ∀ e ∈ es, DepIn L e.1 ∧ DepIn R e.2) {a a' : Assign}
    (hL : ∀ v ∈ L, a v = a' v) (hR : ∀ v ∈ R, a v = a' v) : evalElems a es = evalElems a' es := by
  induction es with
  | nil => rfl
  | cons e l ih =>
    obtain ⟨h1, h2⟩ := h e List.mem_cons_self
    rw [evalElems_cons, evalElems_cons, h1 a a' hL, h2 a a' hR,
      ih (fun e he => h e (List.mem_cons_of_mem _ he))]

/-! ## the invariant -/

mutual
/-- well formed for the semantic builder: labels in the vtree, node indices internal, decision
primes a partition, primes over (semantically) the left child's variables, subs over the right
child's -/
def WFd (vt : VTree) : Ptr → Prop
  | .tru => True
  | .fls => True
  | .lit v _ => v ∈ vt.leaves
  | .bdd _ l i lo hi =>
    Internal vt i ∧ l ∈ vt.leftVars i ∧ DepIn (vt.rightVars i) lo ∧ DepIn (vt.rightVars i) hi ∧
      WFd vt lo ∧ WFd vt hi
  | .dec _ i es => Internal vt i ∧ Partition es ∧ WFdElems vt i es
def WFdElems (vt : VTree) (i : Nat) : List (Ptr × Ptr) → Prop
  | [] => True
  | (p, s) :: r =>
    (WFd vt p ∧ WFd vt s ∧ DepIn (vt.leftVars i) p ∧ DepIn (vt.rightVars i) s) ∧ WFdElems vt i r
end

/-- element-wise reading; `L`, `R` = variables of the left / right child -/
def ElemsOKd (vt : VTree) (L R : List Nat) (es : List Elem) : Prop :=
  ∀ e ∈ es, WFd vt e.1 ∧ WFd vt e.2 ∧ DepIn L e.1 ∧ DepIn R e.2

theorem wfdElems_iff {vt : VTree} {i : Nat} {es : List Elem} :
    WFdElems vt i es ↔ ElemsOKd vt (vt.leftVars i) (vt.rightVars i) es := by
  induction es with
  | nil => simp [WFdElems, ElemsOKd]
  | cons e l ih =>
    obtain ⟨p, s⟩ := e
    simp only [WFdElems, ih, ElemsOKd, List.mem_cons, forall_eq_or_imp]

theorem WFd_tru (vt) : WFd vt .tru := by simp [WFd]
theorem WFd_fls (vt) : WFd vt .fls := by simp [WFd]

theorem WFd_neg {vt} {p : Ptr} (h : WFd vt p) : WFd vt p.neg := by
  cases p <;> first | exact h | (simp only [Ptr.neg, WFd] at h ⊢; exact h)

theorem WFd_dec {vt c i es} : WFd vt (.dec c i es) ↔
    Internal vt i ∧ Partition es ∧ ElemsOKd vt (vt.leftVars i) (vt.rightVars i) es := by
  simp [WFd, wfdElems_iff]

theorem ElemsOKd_negSubs {vt L R es} (h : ElemsOKd vt L R es) : ElemsOKd vt L R (negSubs es) := by
  intro e he
  simp only [negSubs, List.mem_map] at he
  obtain ⟨e', he', rfl⟩ := he
  obtain ⟨h1, h2, h3, h4⟩ := h e' he'
  exact ⟨h1, WFd_neg h2, h3, depIn_neg h4⟩

mutual
theorem WFd_vars {vt : VTree} : ∀ (p : Ptr), WFd vt p → ∀ v ∈ p.vars, v ∈ vt.leaves
  | .tru, _, v, hv => by cases hv
  | .fls, _, v, hv => by cases hv
  | .lit w _, h, v, hv => by
    simp only [Ptr.vars, List.mem_singleton] at hv; subst hv; exact h
  | .bdd _ l i lo hi, h, v, hv => by
    obtain ⟨_, hl, _, _, wlo, whi⟩ := h
    simp only [Ptr.vars, List.mem_cons, List.mem_append] at hv
    rcases hv with rfl | hv | hv
    · exact leftVars_leaves hl
    · exact WFd_vars lo wlo v hv
    · exact WFd_vars hi whi v hv
  | .dec _ i es, h, v, hv => WFdElems_vars es h.2.2 v (by simpa [Ptr.vars] using hv)
theorem WFdElems_vars {vt : VTree} {i : Nat} : ∀ (es : List (Ptr × Ptr)), WFdElems vt i es →
    ∀ v ∈ varsElems es, v ∈ vt.leaves
  | [], _, v, hv => by cases hv
  | (p, s) :: r, h, v, hv => by
    obtain ⟨⟨wp, ws, _, _⟩, hr⟩ := h
    simp only [varsElems, List.mem_append] at hv
    rcases hv with hv | hv | hv
    · exact WFd_vars p wp v hv
    · exact WFd_vars s ws v hv
    · exact WFdElems_vars r hr v hv
end

mutual
theorem WFd_WF {vt : VTree} : ∀ (p : Ptr), WFd vt p → WF vt p
  | .tru, _ => WF_tru vt
  | .fls, _ => WF_fls vt
  | .lit v _, h => by simpa [WF] using hasVar_iff.2 h
  | .bdd c l i lo hi, h => by
    obtain ⟨hint, hl, _, _, wlo, whi⟩ := h
    refine ⟨hasVar_iff.2 (leftVars_leaves hl), hint, ?_, WFd_WF lo wlo, WFd_WF hi whi⟩
    intro w hw
    rw [leftLeaf_leftVars hw, List.mem_singleton] at hl
    exact hl.symm
  | .dec c i es, h => ⟨h.1, h.2.1, WFdElems_WF es h.2.2⟩
theorem WFdElems_WF {vt : VTree} {i : Nat} : ∀ (es : List (Ptr × Ptr)), WFdElems vt i es →
    WFElems vt (vt.leftLeaf? i) es
  | [], _ => by simp [WFElems]
  | (p, s) :: r, h => by
    obtain ⟨⟨wp, ws, dp, _⟩, hr⟩ := h
    exact ⟨WFd_WF p wp, WFd_WF s ws, depW_of_depIn dp, WFdElems_WF r hr⟩
end

mutual
/-- the hash of every `WFd` pointer is the weighted sum of its function: `WFd → DD` -/
theorem WFd_DD {vt : VTree} (hnd : vt.leaves.Nodup) : ∀ (p : Ptr), WFd vt p → DD p
  | .tru, _ => trivial
  | .fls, _ => trivial
  | .lit _ _, _ => trivial
  | .bdd c l i lo hi, h => by
    obtain ⟨_, hl, dlo, dhi, wlo, whi⟩ := h
    have hlr : l ∉ vt.rightVars i := fun hr => VTree.left_right_disj hnd hl hr
    exact ⟨depIn_indep dlo hlr, depIn_indep dhi hlr, WFd_DD hnd lo wlo, WFd_DD hnd hi whi⟩
  | .dec c i es, h => ⟨h.2.1, WFdElems_DD hnd es h.2.2⟩
theorem WFdElems_DD {vt : VTree} (hnd : vt.leaves.Nodup) {i : Nat} : ∀ (es : List (Ptr × Ptr)),
    WFdElems vt i es → DDElems es
  | [], _ => trivial
  | (p, s) :: r, h => by
    obtain ⟨⟨wp, ws, dp, ds⟩, hr⟩ := h
    refine ⟨⟨fun v => ?_, WFd_DD hnd p wp, WFd_DD hnd s ws⟩, WFdElems_DD hnd r hr⟩
    by_cases hv : v ∈ vt.leftVars i
    · exact Or.inr (depIn_indep ds fun hr => VTree.left_right_disj hnd hv hr)
    · exact Or.inl (depIn_indep dp hv)
end

mutual
theorem WFs_WFd {vt : VTree} : ∀ (p : Ptr), WFs vt p → WFd vt p
  | .tru, _ => trivial
  | .fls, _ => trivial
  | .lit _ _, h => h
  | .bdd c l i lo hi, h => by
    obtain ⟨hint, hl, wlo, whi, vlo, vhi, _⟩ := h
    exact ⟨hint, hl, depIn_of_vars vlo, depIn_of_vars vhi, WFs_WFd lo wlo, WFs_WFd hi whi⟩
  | .dec c i es, h => ⟨h.1, h.2.1, WFsElems_WFd es h.2.2.1⟩
theorem WFsElems_WFd {vt : VTree} {i : Nat} : ∀ (es : List (Ptr × Ptr)), WFsElems vt i es →
    WFdElems vt i es
  | [], _ => trivial
  | (p, s) :: r, h => by
    obtain ⟨⟨wp, ws, _, vp, vs⟩, hr⟩ := h
    exact ⟨⟨WFs_WFd p wp, WFs_WFd s ws, depIn_of_vars vp, depIn_of_vars vs⟩, WFsElems_WFd r hr⟩
end

/-! ## vtree facts -/

theorem varsAt_internal {vt : VTree} {i : Nat} (h : Internal vt i) :
    ∀ v, v ∈ vt.varsAt i ↔ v ∈ vt.leftVars i ∨ v ∈ vt.rightVars i := by
  obtain ⟨l, r, hs⟩ := h
  intro v
  simp [VTree.varsAt, VTree.leftVars, VTree.rightVars, hs, VTree.leaves]

/-- a non-constant `WFd` pointer depends only on the variables under its vtree index -/
theorem WFd_depIn {vt : VTree} {p : Ptr} (h : WFd vt p) (h1 : p.isTrue = false) (h2 : p.isFalse = false) :
    DepIn (vt.varsAt (vtreeIndex vt p)) p := by
  cases p with
  | tru => simp [Ptr.isTrue] at h1
  | fls => simp [Ptr.isFalse] at h2
  | lit v pol =>
    have hv := hasVar_iff.2 h
    simp only [VTree.hasVar, Option.isSome_iff_exists] at hv
    obtain ⟨i, hi⟩ := hv
    apply depIn_lit
    simp [vtreeIndex, hi, VTree.varsAt, VTree.varIndex?_sub hi, VTree.leaves]
  | bdd c l i lo hi =>
    obtain ⟨hint, hl, dlo, dhi, _, _⟩ := h
    intro a a' ha
    have hL : a l = a' l := ha l ((varsAt_internal hint l).2 (Or.inl hl))
    have hR : ∀ v ∈ vt.rightVars i, a v = a' v := fun v hv => ha v ((varsAt_internal hint v).2 (Or.inr hv))
    simp only [eval_bdd, hL, dlo a a' hR, dhi a a' hR]
  | dec c i es =>
    obtain ⟨hint, _, hok⟩ := WFd_dec.1 h
    intro a a' ha
    simp only [eval_dec]
    rw [evalElems_depIn (fun e he => ⟨(hok e he).2.2.1, (hok e he).2.2.2⟩)
      (fun v hv => ha v ((varsAt_internal hint v).2 (Or.inl hv)))
      (fun v hv => ha v ((varsAt_internal hint v).2 (Or.inr hv)))]

theorem varsAt_of_sub {vt : VTree} {i : Nat} {s : VTree} (h : vt.sub? 0 i = some s) :
    vt.varsAt i = s.leaves := by simp [VTree.varsAt, h]

/-- the complement-adjusted elements of a `WFd` node -/
theorem elems?_okd {vt : VTree} {r : Ptr} {es : List Elem} (wr : WFd vt r) (h : r.elems? = some es) :
    ElemsOKd vt (vt.leftVars (vtreeIndex vt r)) (vt.rightVars (vtreeIndex vt r)) es := by
  cases r with
  | tru => cases h
  | fls => cases h
  | lit v p => cases h
  | bdd c l i lo hi =>
    simp only [Ptr.elems?, Option.some.injEq] at h
    subst h
    obtain ⟨hint, hl, dlo, dhi, wlo, whi⟩ := wr
    have hlv : l ∈ vt.leaves := leftVars_leaves hl
    intro e he
    simp only [List.mem_cons, List.not_mem_nil, or_false] at he
    rcases he with rfl | rfl
    · exact ⟨hlv, by cases c <;> simp [WFd_neg, whi], depIn_lit _ hl,
        by cases c <;> simp [vtreeIndex, depIn_neg, dhi]⟩
    · exact ⟨hlv, by cases c <;> simp [WFd_neg, wlo], depIn_lit _ hl,
        by cases c <;> simp [vtreeIndex, depIn_neg, dlo]⟩
  | dec c i es0 =>
    simp only [Ptr.elems?, Option.some.injEq] at h
    subst h
    obtain ⟨_, _, hok⟩ := WFd_dec.1 wr
    cases c
    · exact hok
    · exact ElemsOKd_negSubs hok

theorem ElemsOKd_WF {vt : VTree} {i : Nat} {es : List Elem}
    (h : ElemsOKd vt (vt.leftVars i) (vt.rightVars i) es) : ElemsOK vt (vt.leftLeaf? i) es :=
  fun e he => ⟨WFd_WF _ (h e he).1, WFd_WF _ (h e he).2.1, depW_of_depIn (h e he).2.2.1⟩

/-! ## judgements with the detector on -/

theorem guardJ_some {α : Type} {π : Params} {ok : Bool} {x y : α} (h : guardJ π ok x = some y) :
    y = x ∧ (π.chk = true → ok = true) := by
  unfold guardJ at h
  split at h
  · cases h
  · rename_i hc
    cases h
    refine ⟨rfl, fun hchk => ?_⟩
    cases ok
    · simp [hchk] at hc
    · rfl

theorem eqJ_val {π : Params} {a b : Ptr} {r : Bool} (h : eqJ π a b = some r) :
    r = (π.h a == π.h b) := (guardJ_some h).1

/-- a positive equality judgement that passed the detector is true -/
theorem eqJ_true {π : Params} (hc : π.chk = true) {a b : Ptr} (wa : WFd π.vt a) (wb : WFd π.vt b)
    (h : eqJ π a b = some true) : ∀ asg, a.eval asg = b.eval asg := by
  obtain ⟨h1, h2⟩ := guardJ_some h
  have := h2 hc
  rw [← h1] at this
  simp only [beq_iff_eq] at this
  exact (equivB_iff (WFd_vars a wa) (WFd_vars b wb)).1 this.symm

theorem isTrueJ_true {π : Params} (hc : π.chk = true) {a : Ptr} (wa : WFd π.vt a)
    (h : isTrueJ π a = some true) : ∀ asg, a.eval asg = true := fun asg => by
  rw [eqJ_true hc wa (WFd_tru _) h asg]; simp

theorem isFalseJ_true {π : Params} (hc : π.chk = true) {a : Ptr} (wa : WFd π.vt a)
    (h : isFalseJ π a = some true) : ∀ asg, a.eval asg = false := fun asg => by
  rw [eqJ_true hc wa (WFd_fls _) h asg]; simp

/-- the constants are recognised (whatever the hash function) -/
theorem isTrueJ_false_ne {π : Params} {a : Ptr} (h : isTrueJ π a = some false) : a.isTrue = false := by
  cases a with
  | tru => have := eqJ_val h; simp at this
  | _ => rfl

theorem isFalseJ_false_ne {π : Params} {a : Ptr} (h : isFalseJ π a = some false) : a.isFalse = false := by
  cases a with
  | fls => have := eqJ_val h; simp at this
  | _ => rfl

theorem andJ_true {x y : Option Bool} (h : andJ x y = some true) : x = some true ∧ y = some true := by
  unfold andJ at h
  split at h
  · cases h
  · cases h
  · exact ⟨rfl, h⟩

/-! ## state invariant: every stored pointer is well formed -/

def Inv (π : Params) (st : St) : Prop :=
  (∀ k m, ListCache.get st.tbl k = some m → WFd π.vt m) ∧
  (∀ k r, ListCache.get st.app k = some r → WFd π.vt r)

theorem inv_init (π : Params) : Inv π St.init :=
  ⟨fun _ _ h => (by cases h), fun _ _ h => (by cases h)⟩

theorem listGet_cons {k k' : Nat} {v v' : Ptr} {s : List (Nat × Ptr)}
    (h : ListCache.get ((k, v) :: s) k' = some v') : (k' = k ∧ v' = v) ∨ ListCache.get s k' = some v' :=
  (ListCache Nat).lawful s k v k' v' h

theorem shared_wfd {π : Params} {st : St} (hinv : Inv π st) {x : Nat} {r : Ptr}
    (h : shared st x = some r) : WFd π.vt r := by
  unfold shared at h
  split at h
  · cases h; exact WFd_fls _
  · split at h
    · cases h; exact WFd_tru _
    · exact hinv.1 _ _ h

theorem getOrInsert_ok {π : Params} (hc : π.chk = true) {st st' : St} {node r : Ptr}
    (hinv : Inv π st) (wn : WFd π.vt node) (h : getOrInsert π st node = some (st', r)) :
    Inv π st' ∧ WFd π.vt r ∧ ∀ asg, r.eval asg = node.eval asg := by
  have fin : ∀ {st1 : St} {r1 : Ptr}, Inv π st1 → WFd π.vt r1 →
      guardJ π (equivB π.vt r1 node) (st1, r1) = some (st', r) →
      Inv π st' ∧ WFd π.vt r ∧ ∀ asg, r.eval asg = node.eval asg := by
    intro st1 r1 i1 w1 hg
    obtain ⟨h1, h2⟩ := guardJ_some hg
    cases h1
    exact ⟨i1, w1, (equivB_iff (WFd_vars _ w1) (WFd_vars node wn)).1 (h2 hc)⟩
  unfold getOrInsert at h
  cases hs : shared st (π.h node) with
  | some x =>
    simp only [hs] at h
    exact fin hinv (shared_wfd hinv hs) h
  | none =>
    cases hs2 : shared st (π.negH (π.h node)) with
    | some x =>
      simp only [hs, hs2] at h
      exact fin hinv (WFd_neg (shared_wfd hinv hs2)) h
    | none =>
      simp only [hs, hs2] at h
      refine fin (st1 := ⟨(π.h node, node) :: st.tbl, st.app⟩) ⟨fun k m hk => ?_, hinv.2⟩ wn h
      rcases listGet_cons hk with ⟨_, rfl⟩ | hk'
      · exact wn
      · exact hinv.1 _ _ hk'

theorem appGet_ok {π : Params} (hc : π.chk = true) {st : St} {a b x : Ptr}
    (hinv : Inv π st) (wa : WFd π.vt a) (wb : WFd π.vt b) (h : appGet π st a b = some (some x)) :
    WFd π.vt x ∧ ∀ asg, x.eval asg = (a.eval asg && b.eval asg) := by
  simp only [appGet] at h
  split at h
  · cases h
  · rename_i y hy
    obtain ⟨h1, h2⟩ := guardJ_some h
    cases h1
    have wx : WFd π.vt x := by
      split at hy
      · cases hy; exact WFd_fls _
      · split at hy
        · cases hy; exact WFd_tru _
        · exact hinv.2 _ _ hy
    exact ⟨wx, (equivAndB_iff (WFd_vars x wx) (WFd_vars a wa) (WFd_vars b wb)).1 (h2 hc)⟩

theorem appInsert_inv {π : Params} {st : St} {a b r : Ptr} (hinv : Inv π st) (wr : WFd π.vt r) :
    Inv π (appInsert π st a b r) := by
  unfold appInsert
  split
  · refine ⟨hinv.1, fun k x hk => ?_⟩
    rcases listGet_cons hk with ⟨_, rfl⟩ | hk'
    · exact wr
    · exact hinv.2 _ _ hk'
  · exact hinv

/-! ## unique_bdd / unique_or -/

theorem uniqueBdd_ok {π : Params} (hc : π.chk = true) {st st' : St} {l idx : Nat} {lo hi r : Ptr}
    (hinv : Inv π st) (hint : Internal π.vt idx) (hl : l ∈ π.vt.leftVars idx)
    (wlo : WFd π.vt lo) (whi : WFd π.vt hi)
    (dlo : DepIn (π.vt.rightVars idx) lo) (dhi : DepIn (π.vt.rightVars idx) hi)
    (h : uniqueBdd π st l lo hi idx = some (st', r)) :
    Inv π st' ∧ WFd π.vt r ∧ ∀ a, r.eval a = (if a l then hi.eval a else lo.eval a) := by
  have hlv : l ∈ π.vt.leaves := leftVars_leaves hl
  unfold uniqueBdd at h
  split at h
  · cases h
  · rename_i he
    cases h
    have := eqJ_true hc whi wlo he
    exact ⟨hinv, whi, fun a => by rw [this a]; simp⟩
  · split at h
    · cases h
    · rename_i hj
      cases h
      obtain ⟨j1, j2⟩ := andJ_true hj
      have e1 := isFalseJ_true hc whi j1
      have e2 := isTrueJ_true hc wlo j2
      exact ⟨hinv, hlv, fun a => by simp [eval_lit, e1 a, e2 a]⟩
    · split at h
      · cases h
      · rename_i hj
        cases h
        obtain ⟨j1, j2⟩ := andJ_true hj
        have e1 := isTrueJ_true hc whi j1
        have e2 := isFalseJ_true hc wlo j2
        exact ⟨hinv, hlv, fun a => by simp [eval_lit, e1 a, e2 a]⟩
      · split at h
        · cases h
        · split at h
          · cases h
          · rename_i st1 r1 hg
            cases h
            have wn : WFd π.vt (.bdd false l idx lo.neg hi.neg) :=
              ⟨hint, hl, depIn_neg dlo, depIn_neg dhi, WFd_neg wlo, WFd_neg whi⟩
            obtain ⟨i1, w1, e1⟩ := getOrInsert_ok hc hinv wn hg
            refine ⟨i1, WFd_neg w1, fun a => ?_⟩
            rw [eval_neg, e1, eval_bdd]
            cases a l <;> simp
        · have wn : WFd π.vt (.bdd false l idx lo hi) := ⟨hint, hl, dlo, dhi, wlo, whi⟩
          obtain ⟨i1, w1, e1⟩ := getOrInsert_ok hc hinv wn h
          exact ⟨i1, w1, fun a => by rw [e1, eval_bdd]; simp⟩

theorem uniqueOr_ok {π : Params} (hc : π.chk = true) {st st' : St} {es : List Elem} {table : Nat} {r : Ptr}
    (hinv : Inv π st) (hint : Internal π.vt table) (hpart : Partition es)
    (hok : ElemsOKd π.vt (π.vt.leftVars table) (π.vt.rightVars table) es)
    (h : uniqueOr π st es table = some (st', r)) :
    Inv π st' ∧ WFd π.vt r ∧ ∀ a, r.eval a = evalElems a es := by
  unfold uniqueOr at h
  split at h
  · rename_i l lo hi hb
    obtain ⟨x, pol, p1, s0, s1, rfl, rfl, rfl⟩ := asBdd?_some hb
    obtain ⟨rfl, rfl⟩ := partition_two_lits hpart
    obtain ⟨_, ws0, _, ds0⟩ := hok _ (List.mem_cons_self ..)
    obtain ⟨_, ws1, dl1, ds1⟩ := hok _ (List.mem_cons_of_mem _ (List.mem_cons_self ..))
    have hl := depIn_lit_mem dl1
    have := uniqueBdd_ok hc hinv hint hl
      (lo := if !(!p1) then s0 else s1) (hi := if (!p1) then s0 else s1)
      (by cases p1 <;> simpa using (by first | exact ws0 | exact ws1))
      (by cases p1 <;> simpa using (by first | exact ws1 | exact ws0))
      (by cases p1 <;> simpa using (by first | exact ds0 | exact ds1))
      (by cases p1 <;> simpa using (by first | exact ds1 | exact ds0)) h
    refine ⟨this.1, this.2.1, fun a => ?_⟩
    rw [this.2.2 a]
    cases p1 <;> cases h1 : a x <;> simp [eval_lit, h1]
  · split at h
    · cases h
    · rename_i p0 s0 rest hs
      have hcnt : ∀ a, cnt a ((p0, s0) :: rest) = 1 := by
        intro a; rw [← hs, cnt_sortByPrime]; exact hpart a
      have hev : ∀ a, evalElems a ((p0, s0) :: rest) = evalElems a es := by
        intro a; rw [← hs, evalElems_sortByPrime]
      have hok' : ElemsOKd π.vt (π.vt.leftVars table) (π.vt.rightVars table) ((p0, s0) :: rest) := by
        intro e he; rw [← hs, mem_sortByPrime] at he; exact hok e he
      split at h
      · cases h
      · split at h
        · cases h
        · rename_i st1 r1 hg
          cases h
          have wn : WFd π.vt (.dec false table (negSubs ((p0, s0) :: rest))) :=
            WFd_dec.2 ⟨hint, fun a => by rw [cnt_negSubs]; exact hcnt a, ElemsOKd_negSubs hok'⟩
          obtain ⟨i1, w1, e1⟩ := getOrInsert_ok hc hinv wn hg
          refine ⟨i1, WFd_neg w1, fun a => ?_⟩
          rw [eval_neg, e1, eval_dec, evalElems_negSubs (hcnt a), ← hev a]; simp
      · have wn : WFd π.vt (.dec false table ((p0, s0) :: rest)) := WFd_dec.2 ⟨hint, hcnt, hok'⟩
        obtain ⟨i1, w1, e1⟩ := getOrInsert_ok hc hinv wn h
        exact ⟨i1, w1, fun a => by rw [e1, eval_dec, ← hev a]; simp⟩

/-! ## the recursive call, abstractly -/

/-- what the loops assume about the recursive `and` call -/
def AndOKd (π : Params) (andF : AndF) : Prop :=
  ∀ st a b st' r, Inv π st → WFd π.vt a → WFd π.vt b → andF st a b = some (st', r) →
    Inv π st' ∧ WFd π.vt r ∧ ∀ asg, r.eval asg = (a.eval asg && b.eval asg)

theorem orF_okd {π : Params} {andF : AndF} (hand : AndOKd π andF) {st a b st' r}
    (hinv : Inv π st) (wa : WFd π.vt a) (wb : WFd π.vt b) (h : orF andF st a b = some (st', r)) :
    Inv π st' ∧ WFd π.vt r ∧ ∀ asg, r.eval asg = (a.eval asg || b.eval asg) := by
  simp only [orF] at h
  split at h
  · rename_i st1 r1 h1
    cases h
    obtain ⟨hp, wr, er⟩ := hand _ _ _ _ _ hinv (WFd_neg wa) (WFd_neg wb) h1
    refine ⟨hp, WFd_neg wr, fun asg => ?_⟩
    rw [eval_neg, er, eval_neg, eval_neg]; cases a.eval asg <;> cases b.eval asg <;> rfl
  · cases h

section loops
variable {π : Params} {andF : AndF} {L R : List Nat}

/-- postcondition of the inner loop for the pair `(p1, s1)` against the elements `eb` -/
def InnerPostd (π : Params) (L R : List Nat) (p1 s1 : Ptr) (eb : List Elem) : LoopRes → Prop
  | .elems l => ElemsOKd π.vt L R l ∧ ∀ a, cnt a eb ≤ 1 →
      cnt a l = (if p1.eval a then cnt a eb else 0) ∧
      evalElems a l = (p1.eval a && s1.eval a && evalElems a eb)
  | .early r => r = .tru ∧ ∀ a, (p1.eval a && s1.eval a && evalElems a eb) = true

theorem innerLoop_okd (hc : π.chk = true) (hand : AndOKd π andF) (brk : Bool) {p1 s1 : Ptr}
    (wp1 : WFd π.vt p1) (ws1 : WFd π.vt s1) (dp1 : DepIn L p1) (ds1 : DepIn R s1) :
    ∀ (eb : List Elem) (st st' : St) (res : LoopRes), Inv π st → ElemsOKd π.vt L R eb →
    innerLoop π andF brk p1 s1 st eb = some (st', res) →
    Inv π st' ∧ InnerPostd π L R p1 s1 eb res := by
  intro eb
  induction eb with
  | nil =>
    intro st st' res hP _ h
    simp only [innerLoop] at h
    cases h
    refine ⟨hP, ?_⟩
    simp only [InnerPostd]
    exact ⟨fun e he => (by cases he), fun a _ => (by simp)⟩
  | cons x rest ih =>
    intro st st' res hP hok h
    obtain ⟨p2, s2⟩ := x
    have hx := hok (p2, s2) (List.mem_cons_self ..)
    have hrest : ElemsOKd π.vt L R rest := fun e he => hok e (List.mem_cons_of_mem _ he)
    simp only [innerLoop] at h
    split at h
    · cases h
    · rename_i st1 p hp
      obtain ⟨hP1, wp, ep⟩ := hand _ _ _ _ _ hP wp1 hx.1 hp
      split at h
      · cases h
      · -- the product prime is (judged) false: skip
        rename_i hpf
        have hpf' : ∀ a, (p1.eval a && p2.eval a) = false := fun a => by
          rw [← ep a]; exact isFalseJ_true hc wp hpf a
        obtain ⟨hP', hres⟩ := ih _ _ _ hP1 hrest h
        refine ⟨hP', ?_⟩
        cases res with
        | elems l =>
          simp only [InnerPostd] at hres ⊢
          refine ⟨hres.1, fun a ha => ?_⟩
          have hpa := hpf' a
          rw [cnt_cons] at ha
          obtain ⟨c, v⟩ := hres.2 a (by omega)
          rw [c, v, cnt_cons, evalElems_cons]
          cases h1 : p1.eval a <;> cases h2 : p2.eval a <;> simp [h1, h2] at hpa ⊢
        | early r =>
          simp only [InnerPostd] at hres ⊢
          refine ⟨hres.1, fun a => ?_⟩
          have hpa := hpf' a
          have := hres.2 a
          rw [evalElems_cons]
          cases h1 : p1.eval a <;> cases h2 : p2.eval a <;> simp [h1, h2] at hpa this ⊢
          exact this
      · split at h
        · cases h
        · rename_i st2 s hs
          obtain ⟨hP2, ws, es⟩ := hand _ _ _ _ _ hP1 ws1 hx.2.1 hs
          have dp : DepIn L p := depIn_and dp1 hx.2.2.1 ep
          have ds : DepIn R s := depIn_and ds1 hx.2.2.2 es
          split at h
          · cases h
          · -- early exit: both are (judged) true
            rename_i hts
            cases h
            obtain ⟨t1, t2⟩ := andJ_true hts
            refine ⟨hP2, ?_⟩
            simp only [InnerPostd]
            refine ⟨trivial, fun a => ?_⟩
            have e1 := isTrueJ_true hc wp t1 a
            have e2 := isTrueJ_true hc ws t2 a
            rw [ep a] at e1; rw [es a] at e2
            simp only [Bool.and_eq_true] at e1 e2
            simp [evalElems_cons, e1.1, e1.2, e2.1, e2.2]
          · split at h
            · cases h
            · -- implied prime: stop
              rename_i hbrk
              cases h
              have hpp : ∀ a, p1.eval a = p.eval a := by
                cases brk
                · simp at hbrk
                · exact eqJ_true hc wp1 wp (by simpa using hbrk)
              refine ⟨hP2, ?_⟩
              simp only [InnerPostd]
              refine ⟨?_, fun a ha => ?_⟩
              · intro e he
                simp only [List.mem_singleton] at he; subst he
                exact ⟨wp, ws, dp, ds⟩
              · have epa := ep a
                have eqa := hpp a
                rw [cnt_cons] at ha
                simp only [cnt_cons, cnt_nil, evalElems_cons, evalElems_nil, es a]
                rw [epa] at eqa ⊢
                cases h1 : p1.eval a <;> cases h2 : p2.eval a <;> simp [h1, h2] at eqa ha ⊢
                have h0 : cnt a rest = 0 := by omega
                simp [h0, evalElems_of_cnt_zero h0]
            · split at h
              · cases h
              · rename_i st3 r hrec
                cases h
                obtain ⟨hP', hres⟩ := ih _ _ _ hP2 hrest hrec
                refine ⟨hP', ?_⟩
                simp only [InnerPostd] at hres ⊢
                refine ⟨hres.1, fun a => ?_⟩
                have := hres.2 a
                rw [evalElems_cons]
                cases h1 : p1.eval a <;> cases h2 : s1.eval a <;> simp [h1, h2] at this ⊢
                simp [this]
              · rename_i st3 l hrec
                cases h
                obtain ⟨hP', hres⟩ := ih _ _ _ hP2 hrest hrec
                refine ⟨hP', ?_⟩
                simp only [InnerPostd] at hres ⊢
                refine ⟨?_, fun a ha => ?_⟩
                · intro e he
                  rcases List.mem_cons.1 he with rfl | h'
                  · exact ⟨wp, ws, dp, ds⟩
                  · exact hres.1 e h'
                · rw [cnt_cons] at ha
                  obtain ⟨c, v⟩ := hres.2 a (by omega)
                  rw [cnt_cons, evalElems_cons, c, v, cnt_cons, evalElems_cons]
                  simp only [ep a, es a]
                  cases h1 : p1.eval a <;> cases h2 : p2.eval a <;> cases h3 : s1.eval a <;>
                    simp [h1, h2, h3]

/-- postcondition of the outer product loop over the elements `ea` against `eb` -/
def ProdPostd (π : Params) (L R : List Nat) (ea eb : List Elem) : LoopRes → Prop
  | .elems l => ElemsOKd π.vt L R l ∧ ∀ a, cnt a l = cnt a ea ∧
      evalElems a l = (evalElems a ea && evalElems a eb)
  | .early r => r = .tru ∧ ∀ a, (evalElems a ea && evalElems a eb) = true

theorem findJ_some {π : Params} {p1 : Ptr} : ∀ {eb : List Elem} {e : Elem},
    findJ π p1 eb = some (some e) → e ∈ eb ∧ eqJ π e.1 p1 = some true
  | [], e, h => by simp [findJ] at h
  | x :: rest, e, h => by
    simp only [findJ] at h
    split at h
    · cases h
    · rename_i hx
      simp only [Option.some.injEq] at h
      subst h
      exact ⟨List.mem_cons_self, hx⟩
    · obtain ⟨h1, h2⟩ := findJ_some h
      exact ⟨List.mem_cons_of_mem _ h1, h2⟩

theorem prodLoop_okd (hc : π.chk = true) (hand : AndOKd π andF) (cart : Bool) {eb : List Elem}
    (hokb : ElemsOKd π.vt L R eb) (hpb : Partition eb) :
    ∀ (ea : List Elem) (st st' : St) (res : LoopRes), Inv π st → ElemsOKd π.vt L R ea →
    prodLoop π andF cart eb st ea = some (st', res) →
    Inv π st' ∧ ProdPostd π L R ea eb res := by
  intro ea
  induction ea with
  | nil =>
    intro st st' res hP _ h
    simp only [prodLoop] at h
    cases h
    refine ⟨hP, ?_⟩
    simp only [ProdPostd]
    exact ⟨fun e he => (by cases he), fun a => (by simp)⟩
  | cons x rest ih =>
    intro st st' res hP hok h
    obtain ⟨p1, s1⟩ := x
    have hx := hok (p1, s1) (List.mem_cons_self ..)
    have hrest : ElemsOKd π.vt L R rest := fun e he => hok e (List.mem_cons_of_mem _ he)
    simp only [prodLoop] at h
    split at h
    · cases h
    · -- a prime of `b` judged equal to `p1`
      rename_i q s2 hfind
      have hf : findJ π p1 eb = some (some (q, s2)) := by
        cases cart
        · simp at hfind
        · simpa using hfind
      obtain ⟨hmem, hq⟩ := findJ_some hf
      have hy := hokb _ hmem
      have hqe : ∀ a, q.eval a = p1.eval a := eqJ_true hc hy.1 hx.1 hq
      split at h
      · cases h
      · rename_i st1 s hs
        obtain ⟨hP1, ws, es⟩ := hand _ _ _ _ _ hP hx.2.1 hy.2.1 hs
        have ds : DepIn R s := depIn_and hx.2.2.2 hy.2.2.2 es
        have key : ∀ a, (p1.eval a && s.eval a) = (p1.eval a && s1.eval a && evalElems a eb) := by
          intro a
          cases hqa : p1.eval a
          · simp
          · rw [evalElems_of_mem (hpb a) hmem (by rw [hqe a]; exact hqa), es a]; simp
        split at h
        · cases h
        · rename_i st2 r hrec
          cases h
          obtain ⟨hP', hres⟩ := ih _ _ _ hP1 hrest hrec
          refine ⟨hP', ?_⟩
          simp only [ProdPostd] at hres ⊢
          refine ⟨hres.1, fun a => ?_⟩
          have := hres.2 a
          rw [evalElems_cons]
          simp only [Bool.and_eq_true] at this ⊢
          simp [this.1, this.2]
        · rename_i st2 l hrec
          cases h
          obtain ⟨hP', hres⟩ := ih _ _ _ hP1 hrest hrec
          refine ⟨hP', ?_⟩
          simp only [ProdPostd] at hres ⊢
          refine ⟨?_, fun a => ?_⟩
          · intro e he
            rcases List.mem_cons.1 he with rfl | h'
            · exact ⟨hx.1, ws, hx.2.2.1, ds⟩
            · exact hres.1 e h'
          · obtain ⟨c, v⟩ := hres.2 a
            rw [cnt_cons, cnt_cons, c, evalElems_cons, evalElems_cons, v]
            refine ⟨rfl, ?_⟩
            simp only [key a]
            cases p1.eval a <;> cases s1.eval a <;> cases evalElems a eb <;> simp
    · split at h
      · cases h
      · rename_i st1 r hin
        cases h
        obtain ⟨hP1, hpost⟩ := innerLoop_okd hc hand cart hx.1 hx.2.1 hx.2.2.1 hx.2.2.2 eb _ _ _ hP hokb hin
        refine ⟨hP1, ?_⟩
        simp only [InnerPostd, ProdPostd] at hpost ⊢
        refine ⟨hpost.1, fun a => ?_⟩
        have := hpost.2 a
        rw [evalElems_cons]
        simp only [Bool.and_eq_true] at this ⊢
        simp [this.1.1, this.1.2, this.2]
      · rename_i st1 l1 hin
        obtain ⟨hP1, hpost⟩ := innerLoop_okd hc hand cart hx.1 hx.2.1 hx.2.2.1 hx.2.2.2 eb _ _ _ hP hokb hin
        simp only [InnerPostd] at hpost
        split at h
        · cases h
        · rename_i st2 r hrec
          cases h
          obtain ⟨hP', hres⟩ := ih _ _ _ hP1 hrest hrec
          refine ⟨hP', ?_⟩
          simp only [ProdPostd] at hres ⊢
          refine ⟨hres.1, fun a => ?_⟩
          have := hres.2 a
          rw [evalElems_cons]
          simp only [Bool.and_eq_true] at this ⊢
          simp [this.1, this.2]
        · rename_i st2 l hrec
          cases h
          obtain ⟨hP', hres⟩ := ih _ _ _ hP1 hrest hrec
          refine ⟨hP', ?_⟩
          simp only [ProdPostd] at hres ⊢
          refine ⟨?_, fun a => ?_⟩
          · intro e he
            rcases List.mem_append.1 he with h' | h'
            · exact hpost.1 e h'
            · exact hres.1 e h'
          · obtain ⟨c, v⟩ := hres.2 a
            obtain ⟨c1, v1⟩ := hpost.2 a (by rw [hpb a]; exact Nat.le_refl 1)
            rw [cnt_append, c1, c, cnt_cons, evalElems_append, v1, v, evalElems_cons, hpb a]
            refine ⟨by cases p1.eval a <;> simp, ?_⟩
            cases p1.eval a <;> cases s1.eval a <;> cases evalElems a eb <;> simp

theorem subDescLoop_okd (hand : AndOKd π andF) {d : Ptr} (wd : WFd π.vt d) (dd : DepIn R d) :
    ∀ (es : List Elem) (st st' : St) (v : List Elem), Inv π st → ElemsOKd π.vt L R es →
    subDescLoop andF d st es = some (st', v) →
    Inv π st' ∧ ElemsOKd π.vt L R v ∧ ∀ a, cnt a v = cnt a es ∧
      evalElems a v = (evalElems a es && d.eval a) := by
  intro es
  induction es with
  | nil =>
    intro st st' v hP _ h
    simp only [subDescLoop] at h
    cases h
    exact ⟨hP, fun e he => (by cases he), fun a => (by simp)⟩
  | cons x rest ih =>
    intro st st' v hP hok h
    obtain ⟨p, s⟩ := x
    have hx := hok (p, s) (List.mem_cons_self ..)
    have hrest : ElemsOKd π.vt L R rest := fun e he => hok e (List.mem_cons_of_mem _ he)
    simp only [subDescLoop] at h
    split at h
    · cases h
    · rename_i st1 ns hs
      obtain ⟨hP1, wns, ens⟩ := hand _ _ _ _ _ hP hx.2.1 wd hs
      split at h
      · cases h
      · rename_i st2 v2 hrec
        cases h
        obtain ⟨hP', hok', hsem⟩ := ih _ _ _ hP1 hrest hrec
        refine ⟨hP', ?_, fun a => ?_⟩
        · intro e he
          rcases List.mem_cons.1 he with rfl | h'
          · exact ⟨hx.1, wns, hx.2.2.1, depIn_and hx.2.2.2 dd ens⟩
          · exact hok' e h'
        · obtain ⟨c, v⟩ := hsem a
          rw [cnt_cons, cnt_cons, c, evalElems_cons, evalElems_cons, v]
          refine ⟨rfl, ?_⟩
          simp only [ens a]
          cases p.eval a <;> cases s.eval a <;> cases d.eval a <;> simp

end loops

/-! ## the four vtree cases -/
section cases
variable {π : Params} {andF : AndF}

theorem elems?_sem {vt : VTree} {r : Ptr} {es : List Elem} (wr : WFd vt r) (h : r.elems? = some es) :
    Partition es ∧ Internal vt (vtreeIndex vt r) ∧ ∀ a, evalElems a es = r.eval a :=
  (elems?_ok (WFd_WF r wr) h).2

theorem andSubDesc_okd (hc : π.chk = true) (hand : AndOKd π andF) {st st' : St} {r d res : Ptr}
    (hP : Inv π st) (wr : WFd π.vt r) (wd : WFd π.vt d)
    (dd : DepIn (π.vt.rightVars (vtreeIndex π.vt r)) d)
    (h : andSubDesc π andF st r d = some (st', res)) :
    Inv π st' ∧ WFd π.vt res ∧ ∀ a, res.eval a = (r.eval a && d.eval a) := by
  cases r with
  | tru => simp [andSubDesc] at h
  | fls => simp [andSubDesc] at h
  | lit v p => simp [andSubDesc] at h
  | bdd c l i lo hi =>
    obtain ⟨hint, hl, dlo, dhi, wlo, whi⟩ := wr
    simp only [vtreeIndex] at dd
    simp only [andSubDesc] at h
    split at h
    · cases h
    · rename_i st1 lr h1
      have wlo' : WFd π.vt (if c then lo.neg else lo) := by cases c <;> simp [WFd_neg, wlo]
      have whi' : WFd π.vt (if c then hi.neg else hi) := by cases c <;> simp [WFd_neg, whi]
      have dlo' : DepIn (π.vt.rightVars i) (if c then lo.neg else lo) := by
        cases c <;> simp [depIn_neg, dlo]
      have dhi' : DepIn (π.vt.rightVars i) (if c then hi.neg else hi) := by
        cases c <;> simp [depIn_neg, dhi]
      obtain ⟨hP1, wlr, elr⟩ := hand _ _ _ _ _ hP wlo' wd h1
      split at h
      · cases h
      · rename_i st2 hr h2
        obtain ⟨hP2, whr, ehr⟩ := hand _ _ _ _ _ hP1 whi' wd h2
        obtain ⟨hP3, wres, eres⟩ := uniqueBdd_ok hc hP2 hint hl wlr whr
          (depIn_and dlo' dd elr) (depIn_and dhi' dd ehr) h
        refine ⟨hP3, wres, fun a => ?_⟩
        rw [eres, elr, ehr, eval_bdd]
        cases c <;> cases a l <;> simp
  | dec c i es =>
    simp only [andSubDesc] at h
    split at h
    · cases h
    · rename_i st1 v hloop
      have hok := elems?_okd wr (es := if c then negSubs es else es) rfl
      obtain ⟨hpart, hint, hev⟩ := elems?_sem wr (es := if c then negSubs es else es) rfl
      obtain ⟨hP1, hokv, hsem⟩ := subDescLoop_okd hand wd dd _ _ _ _ hP hok hloop
      have hpv : Partition v := fun a => by rw [(hsem a).1]; exact hpart a
      simp only [vtreeIndex] at hokv hint
      obtain ⟨hP', wres, eres⟩ := uniqueOr_ok hc hP1 hint hpv hokv h
      exact ⟨hP', wres, fun a => by rw [eres, (hsem a).2, hev]⟩

theorem pairD_okd {vt : VTree} {L R : List Nat} {d : Ptr} (wd : WFd vt d) (dd : DepIn L d) :
    ElemsOKd vt L R [(d, .tru), (d.neg, .fls)] ∧ Partition [(d, .tru), (d.neg, .fls)] ∧
      ∀ a, evalElems a [(d, .tru), (d.neg, .fls)] = d.eval a := by
  refine ⟨?_, ?_, ?_⟩
  · intro e he
    simp only [List.mem_cons, List.not_mem_nil, or_false] at he
    rcases he with rfl | rfl
    · exact ⟨wd, WFd_tru vt, dd, depIn_tru R⟩
    · exact ⟨WFd_neg wd, WFd_fls vt, depIn_neg dd, depIn_fls R⟩
  · intro a; simp only [cnt_cons, cnt_nil, eval_neg]; cases d.eval a <;> simp
  · intro a; simp

theorem andPrimeDesc_okd (hc : π.chk = true) (hand : AndOKd π andF) {st st' : St} {r d res : Ptr}
    (hP : Inv π st) (wr : WFd π.vt r) (wd : WFd π.vt d)
    (dd : DepIn (π.vt.leftVars (vtreeIndex π.vt r)) d)
    (h : andPrimeDesc π andF st r d = some (st', res)) :
    Inv π st' ∧ WFd π.vt res ∧ ∀ a, res.eval a = (r.eval a && d.eval a) := by
  simp only [andPrimeDesc] at h
  split at h
  · cases h
  · rename_i er her
    have hok := elems?_okd wr her
    obtain ⟨hpart, hint, hev⟩ := elems?_sem wr her
    obtain ⟨hokd, hpd, hevd⟩ := pairD_okd (R := π.vt.rightVars (vtreeIndex π.vt r)) wd dd
    split at h
    · cases h
    · rename_i st1 x hloop
      cases h
      obtain ⟨hP1, hpost⟩ := prodLoop_okd hc hand false hokd hpd _ _ _ _ hP hok hloop
      simp only [ProdPostd] at hpost
      refine ⟨hP1, by rw [hpost.1]; exact WFd_tru _, fun a => ?_⟩
      have := hpost.2 a
      rw [hev, hevd] at this
      rw [hpost.1, this]; simp
    · rename_i st1 l hloop
      obtain ⟨hP1, hpost⟩ := prodLoop_okd hc hand false hokd hpd _ _ _ _ hP hok hloop
      simp only [ProdPostd] at hpost
      have hpl : Partition l := fun a => by rw [(hpost.2 a).1]; exact hpart a
      have hfin : ∀ i, vtreeIndex π.vt r = i → uniqueOr π st1 l i = some (st', res) →
          Inv π st' ∧ WFd π.vt res ∧ ∀ a, res.eval a = (r.eval a && d.eval a) := by
        intro i hi hc'
        subst hi
        obtain ⟨hP', wres, eres⟩ := uniqueOr_ok hc hP1 hint hpl hpost.1 hc'
        exact ⟨hP', wres, fun a => by rw [eres, (hpost.2 a).2, hev, hevd]⟩
      split at h
      · exact hfin _ rfl h
      · exact hfin _ rfl h
      · cases h

theorem andCartesian_okd (hc : π.chk = true) (hand : AndOKd π andF) {st st' : St} {a b res : Ptr}
    (hP : Inv π st) (wa : WFd π.vt a) (wb : WFd π.vt b)
    (hidx : vtreeIndex π.vt a = vtreeIndex π.vt b)
    (h : andCartesian π andF st a b (vtreeIndex π.vt a) = some (st', res)) :
    Inv π st' ∧ WFd π.vt res ∧ ∀ asg, res.eval asg = (a.eval asg && b.eval asg) := by
  have general : (match a.elems?, b.elems? with
      | some ea, some eb =>
        match prodLoop π andF true eb st ea with
        | none => none
        | some (st', .early x) => some (st', x)
        | some (st', .elems l) => uniqueOr π st' l (vtreeIndex π.vt a)
      | _, _ => none) = some (st', res) →
      Inv π st' ∧ WFd π.vt res ∧ ∀ asg, res.eval asg = (a.eval asg && b.eval asg) := by
    intro h
    split at h
    · rename_i ea eb hea heb
      have hoka := elems?_okd wa hea
      obtain ⟨hpa, hinta, heva⟩ := elems?_sem wa hea
      have hokb := elems?_okd wb heb
      obtain ⟨hpb, _, hevb⟩ := elems?_sem wb heb
      rw [← hidx] at hokb
      split at h
      · cases h
      · rename_i st1 x hloop
        cases h
        obtain ⟨hP1, hpost⟩ := prodLoop_okd hc hand true hokb hpb _ _ _ _ hP hoka hloop
        simp only [ProdPostd] at hpost
        refine ⟨hP1, by rw [hpost.1]; exact WFd_tru _, fun asg => ?_⟩
        have := hpost.2 asg
        rw [heva, hevb] at this
        rw [hpost.1, this]; simp
      · rename_i st1 l hloop
        obtain ⟨hP1, hpost⟩ := prodLoop_okd hc hand true hokb hpb _ _ _ _ hP hoka hloop
        simp only [ProdPostd] at hpost
        have hpl : Partition l := fun asg => by rw [(hpost.2 asg).1]; exact hpa asg
        obtain ⟨hP', wres, eres⟩ := uniqueOr_ok hc hP1 hinta hpl hpost.1 h
        exact ⟨hP', wres, fun asg => by rw [eres, (hpost.2 asg).2, heva, hevb]⟩
    · cases h
  simp only [andCartesian] at h
  split at h
  · -- both binary at a right-linear node
    rename_i c l i lo hi hm
    have hrl : π.vt.isRLAt (vtreeIndex π.vt a) = true := by
      cases hr : π.vt.isRLAt (vtreeIndex π.vt a)
      · rw [hr] at hm; simp at hm
      · rfl
    rw [hrl] at hm
    simp only [if_true] at hm
    subst hm
    obtain ⟨hint, hl, dlo, dhi, wlo, whi⟩ := wa
    split at h
    · rename_i bl bh hbl hbh
      cases b with
      | bdd c' l' i' lo' hi' =>
        simp only [Ptr.low?, Ptr.high?, Option.some.injEq] at hbl hbh
        subst hbl hbh
        obtain ⟨hint', hl', dlo', dhi', wlo', whi'⟩ := wb
        simp only [vtreeIndex] at hidx hrl
        subst hidx
        obtain ⟨w, hw0⟩ := isRLAt_leftLeaf.1 hrl
        have hlv := leftLeaf_leftVars hw0
        rw [hlv, List.mem_singleton] at hl hl'
        have hll : l' = l := by rw [hl, hl']
        subst hll
        have hl2 : l' ∈ π.vt.leftVars i := by rw [hlv, hl']; exact List.mem_singleton.2 rfl
        have x1 : WFd π.vt (if c then lo.neg else lo) := by cases c <;> simp [WFd_neg, wlo]
        have x2 : WFd π.vt (if c then hi.neg else hi) := by cases c <;> simp [WFd_neg, whi]
        have y1 : WFd π.vt (if c' then lo'.neg else lo') := by cases c' <;> simp [WFd_neg, wlo']
        have y2 : WFd π.vt (if c' then hi'.neg else hi') := by cases c' <;> simp [WFd_neg, whi']
        have dx1 : DepIn (π.vt.rightVars i) (if c then lo.neg else lo) := by
          cases c <;> simp [depIn_neg, dlo]
        have dx2 : DepIn (π.vt.rightVars i) (if c then hi.neg else hi) := by
          cases c <;> simp [depIn_neg, dhi]
        have dy1 : DepIn (π.vt.rightVars i) (if c' then lo'.neg else lo') := by
          cases c' <;> simp [depIn_neg, dlo']
        have dy2 : DepIn (π.vt.rightVars i) (if c' then hi'.neg else hi') := by
          cases c' <;> simp [depIn_neg, dhi']
        split at h
        · cases h
        · rename_i st1 lr h1
          obtain ⟨hP1, wlr, elr⟩ := hand _ _ _ _ _ hP x1 y1 h1
          split at h
          · cases h
          · rename_i st2 hr h2
            obtain ⟨hP2, whr, ehr⟩ := hand _ _ _ _ _ hP1 x2 y2 h2
            simp only [vtreeIndex] at h
            obtain ⟨hP3, wres, eres⟩ := uniqueBdd_ok hc hP2 hint hl2 wlr whr
              (depIn_and dx1 dy1 elr) (depIn_and dx2 dy2 ehr) h
            refine ⟨hP3, wres, fun asg => ?_⟩
            rw [eres, elr, ehr, eval_bdd, eval_bdd]
            cases c <;> cases c' <;> cases asg l' <;> simp
      | _ => simp [Ptr.low?] at hbl
    · cases h
  · exact general h

theorem andIndep_okd (hc : π.chk = true) {st st' : St} {a b res : Ptr} {k : Nat}
    (hP : Inv π st) (wa : WFd π.vt a) (wb : WFd π.vt b) (hint : Internal π.vt k)
    (da : DepIn (π.vt.leftVars k) a) (db : DepIn (π.vt.rightVars k) b)
    (h : andIndep π st a b k = some (st', res)) :
    Inv π st' ∧ WFd π.vt res ∧ ∀ asg, res.eval asg = (a.eval asg && b.eval asg) := by
  simp only [andIndep] at h
  split at h
  · split at h
    · rename_i l
      obtain ⟨h1, h2, h3⟩ := uniqueBdd_ok hc hP hint (depIn_lit_mem da) (WFd_fls _) wb
        (depIn_fls _) db h
      exact ⟨h1, h2, fun asg => by rw [h3, eval_lit]; cases asg l <;> simp⟩
    · rename_i l
      obtain ⟨h1, h2, h3⟩ := uniqueBdd_ok hc hP hint (depIn_lit_mem da) wb (WFd_fls _)
        db (depIn_fls _) h
      exact ⟨h1, h2, fun asg => by rw [h3, eval_lit]; cases asg l <;> simp⟩
    · cases h
  · have hok : ElemsOKd π.vt (π.vt.leftVars k) (π.vt.rightVars k) [(a, b), (a.neg, .fls)] := by
      intro e he
      simp only [List.mem_cons, List.not_mem_nil, or_false] at he
      rcases he with rfl | rfl
      · exact ⟨wa, wb, da, db⟩
      · exact ⟨WFd_neg wa, WFd_fls _, depIn_neg da, depIn_fls _⟩
    have hpart : Partition [(a, b), (a.neg, .fls)] := by
      intro asg; simp only [cnt_cons, cnt_nil, eval_neg]; cases a.eval asg <;> simp
    obtain ⟨h1, h2, h3⟩ := uniqueOr_ok hc hP hint hpart hok h
    exact ⟨h1, h2, fun asg => by rw [h3]; simp⟩

/-! ## `and` -/

theorem andCore_okd (hc : π.chk = true) (hand : AndOKd π andF) {st st' : St} {x y r : Ptr}
    (hP : Inv π st) (wx : WFd π.vt x) (wy : WFd π.vt y)
    (hx1 : x.isTrue = false) (hx2 : x.isFalse = false)
    (hy1 : y.isTrue = false) (hy2 : y.isFalse = false)
    (hle : vtreeIndex π.vt x = vtreeIndex π.vt y ∨ vtreeIndex π.vt x < vtreeIndex π.vt y)
    (h : andCore π andF st x y = some (st', r)) :
    Inv π st' ∧ WFd π.vt r ∧ ∀ a, r.eval a = (x.eval a && y.eval a) := by
  simp only [andCore] at h
  split at h
  · cases h
  · rename_i v hget
    cases h
    obtain ⟨w, e⟩ := appGet_ok hc hP wx wy hget
    exact ⟨hP, w, e⟩
  · obtain ⟨sx, hsx⟩ := vtreeIndex_sub (WFd_WF x wx) hx1 hx2
    obtain ⟨sy, hsy⟩ := vtreeIndex_sub (WFd_WF y wy) hy1 hy2
    have dx := WFd_depIn wx hx1 hx2
    have dy := WFd_depIn wy hy1 hy2
    rw [varsAt_of_sub hsx] at dx
    rw [varsAt_of_sub hsy] at dy
    have core : ∀ {st1 : St} {r1 : Ptr}, Inv π st1 → WFd π.vt r1 →
        (∀ a, r1.eval a = (x.eval a && y.eval a)) →
        Inv π (appInsert π st1 x y r1) ∧ WFd π.vt r1 ∧ ∀ a, r1.eval a = (x.eval a && y.eval a) :=
      fun h1 h2 h3 => ⟨appInsert_inv h1 h2, h2, h3⟩
    split at h
    · cases h
    · rename_i st1 r1 hr
      cases h
      split at hr
      · -- same vtree node
        rename_i heq
        rw [← heq, VTree.lca_self hsx] at hr
        obtain ⟨h1, h2, h3⟩ := andCartesian_okd hc hand hP wx wy heq hr
        exact core h1 h2 h3
      · rename_i hne
        have hlt : vtreeIndex π.vt x < vtreeIndex π.vt y := by
          rcases hle with h' | h'
          · exact absurd h' hne
          · exact h'
        obtain ⟨l, r0, hlca, hleft, hright, hlo, hhi⟩ := VTree.lca_sides hsx hsy hlt
        split at hr
        · rename_i hka
          -- `y` lives in the right child of `x`'s node
          have dd : DepIn (π.vt.rightVars (vtreeIndex π.vt x)) y := by
            apply depIn_mono dy
            rw [hka] at hlca
            simp only [VTree.rightVars, hlca]
            exact hright (by omega)
          obtain ⟨h1, h2, h3⟩ := andSubDesc_okd hc hand hP wx wy dd hr
          exact core h1 h2 h3
        · rename_i hna
          split at hr
          · rename_i hkb
            have dd : DepIn (π.vt.leftVars (vtreeIndex π.vt y)) x := by
              apply depIn_mono dx
              rw [hkb] at hlca
              simp only [VTree.leftVars, hlca]
              exact hleft (by omega)
            obtain ⟨h1, h2, h3⟩ := andPrimeDesc_okd hc hand hP wy wx dd hr
            exact core h1 h2 (fun a => by rw [h3, Bool.and_comm])
          · rename_i hnb
            have hint : Internal π.vt (π.vt.lca 0 (vtreeIndex π.vt x) (vtreeIndex π.vt y)) :=
              ⟨l, r0, hlca⟩
            have da : DepIn (π.vt.leftVars (π.vt.lca 0 (vtreeIndex π.vt x) (vtreeIndex π.vt y))) x := by
              apply depIn_mono dx
              simp only [VTree.leftVars, hlca]
              exact hleft (by omega)
            have db : DepIn (π.vt.rightVars (π.vt.lca 0 (vtreeIndex π.vt x) (vtreeIndex π.vt y))) y := by
              apply depIn_mono dy
              simp only [VTree.rightVars, hlca]
              exact hright (by omega)
            obtain ⟨h1, h2, h3⟩ := andIndep_okd hc hP wx wy hint da db hr
            exact core h1 h2 h3

theorem andBody_okd (hc : π.chk = true) (hand : AndOKd π andF) : AndOKd π (andBody π andF) := by
  intro st a b st' r hP wa wb h
  simp only [andBody] at h
  split at h
  · cases h
  · rename_i h1; cases h
    exact ⟨hP, wb, fun asg => by simp [isTrueJ_true hc wa h1 asg]⟩
  · rename_i ha1
    split at h
    · cases h
    · rename_i h1; cases h
      exact ⟨hP, wa, fun asg => by simp [isTrueJ_true hc wb h1 asg]⟩
    · rename_i hb1
      split at h
      · cases h
      · rename_i h1; cases h
        exact ⟨hP, WFd_fls _, fun asg => by simp [isFalseJ_true hc wa h1 asg]⟩
      · rename_i ha2
        split at h
        · cases h
        · rename_i h1; cases h
          exact ⟨hP, WFd_fls _, fun asg => by simp [isFalseJ_true hc wb h1 asg]⟩
        · rename_i hb2
          split at h
          · cases h
          · rename_i h1; cases h
            exact ⟨hP, wa, fun asg => by simp [eqJ_true hc wa wb h1 asg]⟩
          · split at h
            · cases h
            · rename_i h1; cases h
              refine ⟨hP, WFd_fls _, fun asg => ?_⟩
              have := eqJ_true hc wa (WFd_neg wb) h1 asg
              rw [eval_neg] at this
              rw [this]; simp
            · have a1 := isTrueJ_false_ne ha1
              have b1 := isTrueJ_false_ne hb1
              have a2 := isFalseJ_false_ne ha2
              have b2 := isFalseJ_false_ne hb2
              split at h
              · rename_i hle
                exact andCore_okd hc hand hP wa wb a1 a2 b1 b2 hle h
              · rename_i hle
                obtain ⟨h1, h2, h3⟩ := andCore_okd hc hand hP wb wa b1 b2 a1 a2 (by omega) h
                exact ⟨h1, h2, fun asg => by rw [h3, Bool.and_comm]⟩

/-- **`and` computes the conjunction** with the collision detector on: for every hash function,
every vtree, every fuel -/
theorem and_okd (hc : π.chk = true) : ∀ fuel, AndOKd π (and π fuel)
  | 0 => by intro st a b st' r _ _ _ h; simp [and] at h
  | fuel + 1 => by
    have := andBody_okd hc (and_okd hc fuel)
    simpa [and] using this

end cases

/-! ## `condition` -/
section cond
variable {π : Params} {L R : List Nat}

def CondOKd (π : Params) (x : Nat) (v : Bool) (condF : St → Ptr → Option (St × Ptr)) : Prop :=
  ∀ st f st' r, Inv π st → WFd π.vt f → condF st f = some (st', r) →
    Inv π st' ∧ WFd π.vt r ∧ ∀ a, r.eval a = f.eval (upd a x v)

def CondPostd (π : Params) (L R : List Nat) (x : Nat) (v : Bool) (es : List Elem) : LoopRes → Prop
  | .elems l => ElemsOKd π.vt L R l ∧ ∀ a, cnt (upd a x v) es ≤ 1 →
      cnt a l = cnt (upd a x v) es ∧ evalElems a l = evalElems (upd a x v) es
  | .early r => WFd π.vt r ∧ (∀ a, 1 ≤ cnt (upd a x v) es) ∧
      ∀ a, cnt (upd a x v) es ≤ 1 → r.eval a = evalElems (upd a x v) es

theorem condLoop_okd (hc : π.chk = true) {x : Nat} {v : Bool} {condF : St → Ptr → Option (St × Ptr)}
    (hcf : CondOKd π x v condF) :
    ∀ (es : List Elem) (st st' : St) (res : LoopRes), Inv π st → ElemsOKd π.vt L R es →
    condLoop π condF st es = some (st', res) → Inv π st' ∧ CondPostd π L R x v es res := by
  intro es
  induction es with
  | nil =>
    intro st st' res hP _ h
    simp only [condLoop] at h
    cases h
    refine ⟨hP, ?_⟩
    simp only [CondPostd]
    exact ⟨fun e he => (by cases he), fun a _ => (by simp)⟩
  | cons e rest ih =>
    intro st st' res hP hok h
    obtain ⟨p, s⟩ := e
    have hx := hok (p, s) (List.mem_cons_self ..)
    have hrest : ElemsOKd π.vt L R rest := fun e he => hok e (List.mem_cons_of_mem _ he)
    simp only [condLoop] at h
    split at h
    · cases h
    · rename_i st1 newp hp
      obtain ⟨hP1, wnp, enp⟩ := hcf _ _ _ _ hP hx.1 hp
      split at h
      · cases h
      · rename_i hf
        have hpf : ∀ a, p.eval (upd a x v) = false := fun a => by
          rw [← enp a]; exact isFalseJ_true hc wnp hf a
        obtain ⟨hP', hres⟩ := ih _ _ _ hP1 hrest h
        refine ⟨hP', ?_⟩
        cases res with
        | elems l =>
          simp only [CondPostd] at hres ⊢
          refine ⟨hres.1, fun a ha => ?_⟩
          rw [cnt_cons] at ha
          obtain ⟨c, e⟩ := hres.2 a (by omega)
          rw [c, e, cnt_cons, evalElems_cons]
          simp [hpf a]
        | early r =>
          simp only [CondPostd] at hres ⊢
          refine ⟨hres.1, fun a => ?_, fun a ha => ?_⟩
          · rw [cnt_cons]; have := hres.2.1 a; omega
          · rw [cnt_cons] at ha
            rw [hres.2.2 a (by omega), evalElems_cons]
            simp [hpf a]
      · split at h
        · cases h
        · rename_i st2 news hs
          obtain ⟨hP2, wns, ens⟩ := hcf _ _ _ _ hP1 hx.2.1 hs
          split at h
          · cases h
          · rename_i ht
            cases h
            have hpt : ∀ a, p.eval (upd a x v) = true := fun a => by
              rw [← enp a]; exact isTrueJ_true hc wnp ht a
            refine ⟨hP2, ?_⟩
            simp only [CondPostd]
            refine ⟨wns, fun a => ?_, fun a ha => ?_⟩
            · rw [cnt_cons]; simp [hpt a]
            · rw [cnt_cons] at ha
              simp only [hpt a, if_true] at ha
              have h0 : cnt (upd a x v) rest = 0 := by omega
              rw [ens, evalElems_cons, evalElems_of_cnt_zero h0]
              simp [hpt a]
          · have dnp : DepIn L newp := depIn_cond hx.2.2.1 enp
            have dns : DepIn R news := depIn_cond hx.2.2.2 ens
            split at h
            · cases h
            · rename_i st3 r hrec
              cases h
              obtain ⟨hP', hres⟩ := ih _ _ _ hP2 hrest hrec
              refine ⟨hP', ?_⟩
              simp only [CondPostd] at hres ⊢
              refine ⟨hres.1, fun a => ?_, fun a ha => ?_⟩
              · rw [cnt_cons]; have := hres.2.1 a; omega
              · rw [cnt_cons] at ha
                have h1 := hres.2.1 a
                rw [hres.2.2 a (by omega), evalElems_cons]
                cases hpa : p.eval (upd a x v)
                · simp
                · simp only [hpa, if_true] at ha; omega
            · rename_i st3 l hrec
              cases h
              obtain ⟨hP', hres⟩ := ih _ _ _ hP2 hrest hrec
              refine ⟨hP', ?_⟩
              simp only [CondPostd] at hres ⊢
              refine ⟨?_, fun a ha => ?_⟩
              · intro e he
                rcases List.mem_cons.1 he with rfl | h'
                · exact ⟨wnp, wns, dnp, dns⟩
                · exact hres.1 e h'
              · rw [cnt_cons] at ha
                obtain ⟨c, e⟩ := hres.2 a (by omega)
                rw [cnt_cons, evalElems_cons, c, e, cnt_cons, evalElems_cons, enp, ens]
                exact ⟨rfl, rfl⟩

theorem condition_okd (hc : π.chk = true) (x : Nat) (v : Bool) :
    ∀ n, CondOKd π x v (condition π x v n)
  | 0 => by intro st f st' r _ _ h; simp [condition] at h
  | n + 1 => by
    have ih := condition_okd hc x v n
    intro st f st' r hP wf h
    have node : ∀ (es : List Elem) (i : Nat), f.elems? = some es → vtreeIndex π.vt f = i →
        (match condLoop π (condition π x v n) st es with
          | none => none
          | some (st', .early r) => some (st', r)
          | some (st', .elems es') => uniqueOr π st' es' i) = some (st', r) →
        Inv π st' ∧ WFd π.vt r ∧ ∀ a, r.eval a = f.eval (upd a x v) := by
      intro es i hes hi h
      subst hi
      have hok := elems?_okd wf hes
      obtain ⟨hpart, hint, hev⟩ := elems?_sem wf hes
      split at h
      · cases h
      · rename_i st1 r1 hloop
        cases h
        obtain ⟨hP1, hpost⟩ := condLoop_okd hc ih _ _ _ _ hP hok hloop
        simp only [CondPostd] at hpost
        refine ⟨hP1, hpost.1, fun a => ?_⟩
        rw [hpost.2.2 a (by rw [hpart]; exact Nat.le_refl 1), hev]
      · rename_i st1 l hloop
        obtain ⟨hP1, hpost⟩ := condLoop_okd hc ih _ _ _ _ hP hok hloop
        simp only [CondPostd] at hpost
        have hsem := fun a => hpost.2 a (by rw [hpart]; exact Nat.le_refl 1)
        have hpl : Partition l := fun a => by rw [(hsem a).1]; exact hpart _
        obtain ⟨hP', wr, er⟩ := uniqueOr_ok hc hP1 hint hpl hpost.1 h
        exact ⟨hP', wr, fun a => by rw [er, (hsem a).2, hev]⟩
    cases f with
    | tru => simp only [condition] at h; cases h; exact ⟨hP, WFd_tru _, fun a => by simp⟩
    | fls => simp only [condition] at h; cases h; exact ⟨hP, WFd_fls _, fun a => by simp⟩
    | lit l p =>
      simp only [condition] at h
      cases h
      refine ⟨hP, ?_, fun a => ?_⟩
      · split
        · split
          · exact WFd_tru _
          · exact WFd_fls _
        · exact wf
      · split
        · rename_i hl; subst hl
          cases p <;> cases v <;> simp [eval_lit]
        · rename_i hl; simp [eval_lit, upd, hl]
    | bdd c l i lo hi =>
      simp only [condition] at h
      exact node _ i rfl rfl h
    | dec c i es =>
      simp only [condition] at h
      exact node _ i rfl rfl h

end cond

/-! ## the derived operations -/
section ops
variable {π : Params} (hc : π.chk = true) (fuel : Nat)
include hc

theorem bAnd_okd : AndOKd π (bAnd π fuel) := and_okd hc fuel

theorem bOr_okd {st a b st' r} (hP : Inv π st) (wa : WFd π.vt a) (wb : WFd π.vt b)
    (h : bOr π fuel st a b = some (st', r)) :
    Inv π st' ∧ WFd π.vt r ∧ ∀ asg, r.eval asg = (a.eval asg || b.eval asg) :=
  orF_okd (and_okd hc fuel) hP wa wb h

theorem bCond_okd {st f st' r} {x : Nat} {v : Bool} (hP : Inv π st) (wf : WFd π.vt f)
    (h : bCond π fuel st f x v = some (st', r)) :
    Inv π st' ∧ WFd π.vt r ∧ ∀ a, r.eval a = f.eval (upd a x v) :=
  condition_okd hc x v fuel _ _ _ _ hP wf h

theorem bExists_okd {st st' : St} {f r : Ptr} {x : Nat} (hP : Inv π st) (wf : WFd π.vt f)
    (h : bExists π fuel st f x = some (st', r)) :
    Inv π st' ∧ WFd π.vt r ∧ ∀ a, r.eval a = (f.eval (upd a x true) || f.eval (upd a x false)) := by
  simp only [bExists] at h
  split at h
  · cases h
  · rename_i s1 v1 h1
    obtain ⟨hP1, w1, e1⟩ := bCond_okd hc fuel hP wf h1
    split at h
    · cases h
    · rename_i s2 v2 h2
      obtain ⟨hP2, w2, e2⟩ := bCond_okd hc fuel hP1 wf h2
      obtain ⟨hP3, w3, e3⟩ := bOr_okd hc fuel hP2 w1 w2 h
      exact ⟨hP3, w3, fun a => by rw [e3, e1, e2]⟩

/-! ## `compile_cnf` -/

omit hc in
theorem lit_eval (a : Assign) (l : Lit) : (Ptr.lit l.var l.pol).eval a = litSat a l := by
  simp only [eval_lit, litSat]; cases l.pol <;> cases a l.var <;> rfl

theorem clauseLoop_okd : ∀ (ls : List Lit) (st st' : St) (acc r : Ptr), Inv π st → WFd π.vt acc →
    (∀ l ∈ ls, l.var ∈ π.vt.leaves) → clauseLoop π fuel st acc ls = some (st', r) →
    Inv π st' ∧ WFd π.vt r ∧ ∀ a, r.eval a = (acc.eval a || clauseSat a ls)
  | [], st, st', acc, r, hP, wa, _, h => by
    simp only [clauseLoop] at h; cases h
    exact ⟨hP, wa, fun a => by simp [clauseSat]⟩
  | l :: ls, st, st', acc, r, hP, wa, hl, h => by
    simp only [clauseLoop] at h
    split at h
    · cases h
    · rename_i st1 r1 h1
      have wl : WFd π.vt (.lit l.var l.pol) := hl l List.mem_cons_self
      obtain ⟨hP1, w1, e1⟩ := bOr_okd hc fuel hP wa wl h1
      obtain ⟨hP2, w2, e2⟩ := clauseLoop_okd ls _ _ _ _ hP1 w1
        (fun x hx => hl x (List.mem_cons_of_mem _ hx)) h
      refine ⟨hP2, w2, fun a => ?_⟩
      rw [e2, e1, lit_eval]
      simp [clauseSat, Bool.or_assoc]

theorem compileClause_okd {c : Clause} {st st' : St} {r : Ptr} (hP : Inv π st)
    (hl : ∀ l ∈ c, l.var ∈ π.vt.leaves) (h : compileClause π fuel st c = some (st', r)) :
    Inv π st' ∧ WFd π.vt r ∧ ∀ a, r.eval a = clauseSat a c := by
  cases c with
  | nil => simp [compileClause] at h
  | cons l ls =>
    simp only [compileClause] at h
    have wl : WFd π.vt (.lit l.var l.pol) := hl l List.mem_cons_self
    obtain ⟨h1, h2, h3⟩ := clauseLoop_okd hc fuel _ _ _ _ _ hP wl hl h
    refine ⟨h1, h2, fun a => ?_⟩
    rw [h3, lit_eval]
    simp only [clauseSat, List.any_cons]
    cases litSat a l <;> simp

theorem compileClauses_okd : ∀ (cs : List Clause) (st st' : St) (ps : List Ptr), Inv π st →
    (∀ c ∈ cs, ∀ l ∈ c, l.var ∈ π.vt.leaves) → compileClauses π fuel st cs = some (st', ps) →
    Inv π st' ∧ (∀ p ∈ ps, WFd π.vt p) ∧ ∀ a, ps.all (fun p => p.eval a) = cnfSat a cs
  | [], st, st', ps, hP, _, h => by
    simp only [compileClauses] at h; cases h
    exact ⟨hP, fun p hp => (by cases hp), fun a => (by simp [cnfSat])⟩
  | c :: cs, st, st', ps, hP, hl, h => by
    simp only [compileClauses] at h
    split at h
    · cases h
    · rename_i st1 p h1
      obtain ⟨hP1, w1, e1⟩ := compileClause_okd hc fuel hP (hl c List.mem_cons_self) h1
      split at h
      · cases h
      · rename_i st2 ps2 h2
        cases h
        obtain ⟨hP2, w2, e2⟩ := compileClauses_okd cs _ _ _ hP1
          (fun c' hc' => hl c' (List.mem_cons_of_mem _ hc')) h2
        refine ⟨hP2, ?_, fun a => ?_⟩
        · intro q hq
          rcases List.mem_cons.1 hq with rfl | hq'
          · exact w1
          · exact w2 q hq'
        · simp only [List.all_cons, cnfSat, e1 a]
          rw [e2 a]; rfl

theorem cnfHelper_okd : ∀ (n : Nat) (st st' : St) (v : List Ptr) (o : Option Ptr), Inv π st →
    (∀ p ∈ v, WFd π.vt p) → cnfHelper π fuel n st v = some (st', o) →
    Inv π st' ∧ match o with
      | none => v = []
      | some x => WFd π.vt x ∧ ∀ a, x.eval a = v.all (fun p => p.eval a)
  | 0, _, _, _, _, _, _, h => by simp [cnfHelper] at h
  | n + 1, st, st', [], o, hP, _, h => by
    simp only [cnfHelper] at h; cases h; exact ⟨hP, rfl⟩
  | n + 1, st, st', [x], o, hP, hw, h => by
    simp only [cnfHelper] at h; cases h
    exact ⟨hP, hw x List.mem_cons_self, fun a => by simp⟩
  | n + 1, st, st', x :: y :: rest, o, hP, hw, h => by
    simp only [cnfHelper] at h
    have hsplit : ∀ a, (x :: y :: rest).all (fun p => p.eval a) =
        (((x :: y :: rest).take ((x :: y :: rest).length / 2)).all (fun p => p.eval a) &&
          ((x :: y :: rest).drop ((x :: y :: rest).length / 2)).all (fun p => p.eval a)) := by
      intro a; rw [← List.all_append, List.take_append_drop]
    split at h
    · cases h
    · rename_i st1 l h1
      obtain ⟨hP1, r1⟩ := cnfHelper_okd n _ _ _ _ hP
        (fun p hp => hw p (List.mem_of_mem_take hp)) h1
      split at h
      · cases h
      · rename_i st2 r h2
        obtain ⟨hP2, r2⟩ := cnfHelper_okd n _ _ _ _ hP1
          (fun p hp => hw p (List.mem_of_mem_drop hp)) h2
        cases l with
        | none =>
          cases r with
          | none =>
            simp only at h; cases h
            simp only at r1 r2
            have := List.take_append_drop ((x :: y :: rest).length / 2) (x :: y :: rest)
            rw [r1, r2] at this
            cases this
          | some yv =>
            simp only at h; cases h
            simp only at r1 r2
            refine ⟨hP2, r2.1, fun a => ?_⟩
            rw [hsplit a, r1, r2.2 a]; simp
        | some xv =>
          cases r with
          | none =>
            simp only at h; cases h
            simp only at r1 r2
            refine ⟨hP2, r1.1, fun a => ?_⟩
            rw [hsplit a, r2, r1.2 a]; simp
          | some yv =>
            simp only at h r1 r2
            split at h
            · cases h
            · rename_i st3 z h3
              cases h
              obtain ⟨hP3, w3, e3⟩ := bAnd_okd hc fuel _ _ _ _ _ hP2 r1.1 r2.1 h3
              exact ⟨hP3, w3, fun a => by rw [e3, hsplit a, r1.2 a, r2.2 a]⟩

/-- **`compile_cnf`** on the clause list in the order given -/
theorem compileCnf_okd {cnf : Cnf} {st st' : St} {r : Ptr} (hP : Inv π st)
    (hl : ∀ c ∈ cnf, ∀ l ∈ c, l.var ∈ π.vt.leaves) (h : compileCnf π fuel st cnf = some (st', r)) :
    Inv π st' ∧ WFd π.vt r ∧ ∀ a, r.eval a = cnfSat a cnf := by
  simp only [compileCnf] at h
  split at h
  · rename_i he
    cases h
    refine ⟨hP, WFd_tru _, fun a => ?_⟩
    cases cnf with
    | nil => simp [cnfSat]
    | cons c cs => simp at he
  · split at h
    · rename_i he
      cases h
      refine ⟨hP, WFd_fls _, fun a => ?_⟩
      simp only [eval_fls, cnfSat]
      symm
      rw [Bool.eq_false_iff]
      intro hall
      rw [List.any_eq_true] at he
      obtain ⟨c, hc', hce⟩ := he
      have := List.all_eq_true.1 hall c hc'
      cases c with
      | nil => simp [clauseSat] at this
      | cons l ls => simp at hce
    · split at h
      · cases h
      · rename_i st1 ps h1
        obtain ⟨hP1, w1, e1⟩ := compileClauses_okd hc fuel _ _ _ _ hP hl h1
        split at h
        · cases h
        · rename_i st2 h2
          cases h
          obtain ⟨hP2, r2⟩ := cnfHelper_okd hc fuel _ _ _ _ _ hP1 w1 h2
          simp only at r2
          refine ⟨hP2, WFd_tru _, fun a => ?_⟩
          have := e1 a
          rw [r2] at this
          rw [eval_tru, ← this]; rfl
        · rename_i st2 x h2
          cases h
          obtain ⟨hP2, r2⟩ := cnfHelper_okd hc fuel _ _ _ _ _ hP1 w1 h2
          simp only at r2
          exact ⟨hP2, r2.1, fun a => by rw [r2.2 a, e1 a]⟩

end ops

/-! ## pass 2: a run that returns with the detector on returns the same with the detector off -/

/-- the builder as shipped: detector off -/
def Params.off (π : Params) : Params := { π with chk := false }

@[simp] theorem off_vt (π : Params) : π.off.vt = π.vt := rfl
@[simp] theorem off_h (π : Params) : π.off.h = π.h := rfl
@[simp] theorem off_negH (π : Params) : π.off.negH = π.negH := rfl
@[simp] theorem off_mulH (π : Params) : π.off.mulH = π.mulH := rfl
@[simp] theorem off_chk (π : Params) : π.off.chk = false := rfl

section off
variable {π : Params}

theorem guardJ_off {α : Type} {ok : Bool} {x y : α} (h : guardJ π ok x = some y) :
    guardJ π.off ok x = some y := by
  rw [(guardJ_some h).1]; simp [guardJ]

theorem eqJ_off {a b : Ptr} {r : Bool} (h : eqJ π a b = some r) : eqJ π.off a b = some r := by
  unfold eqJ at h ⊢
  have := guardJ_off h
  simpa using this

theorem andJ_off {a b c d : Ptr} {r : Bool} (h : andJ (eqJ π a b) (eqJ π c d) = some r) :
    andJ (eqJ π.off a b) (eqJ π.off c d) = some r := by
  unfold andJ at h ⊢
  split at h
  · cases h
  · rename_i h1; rw [eqJ_off h1]; exact h
  · rename_i h1; rw [eqJ_off h1]; exact eqJ_off h

theorem flipJ_off {s : Ptr} {r : Bool} (h : flipJ π s = some r) : flipJ π.off s = some r := by
  unfold flipJ at h ⊢
  split
  · rename_i hn; simpa [hn] using h
  · rename_i hn
    simp only [hn, Bool.false_eq_true, if_false, isFalseJ, orJ] at h ⊢
    split at h
    · cases h
    · rename_i h1; rw [eqJ_off h1]; exact h
    · rename_i h1; rw [eqJ_off h1]; exact h

theorem getOrInsert_off {st : St} {node : Ptr} {y : St × Ptr} (h : getOrInsert π st node = some y) :
    getOrInsert π.off st node = some y := by
  unfold getOrInsert at h ⊢
  exact guardJ_off h

theorem appGet_off {st : St} {a b : Ptr} {y : Option Ptr} (h : appGet π st a b = some y) :
    appGet π.off st a b = some y := by
  have e : appKey π.off a b = appKey π a b := rfl
  simp only [appGet] at h ⊢
  rw [e, off_vt]
  split at h
  · exact h
  · exact guardJ_off h

theorem appInsert_off (st : St) (a b r : Ptr) : appInsert π.off st a b r = appInsert π st a b r := rfl

theorem uniqueBdd_off {st : St} {l idx : Nat} {lo hi : Ptr} {y : St × Ptr}
    (h : uniqueBdd π st l lo hi idx = some y) : uniqueBdd π.off st l lo hi idx = some y := by
  unfold uniqueBdd at h ⊢
  simp only [isTrueJ, isFalseJ] at h ⊢
  split at h
  · cases h
  · rename_i h1; simp only [eqJ_off h1]; exact h
  · rename_i h1; simp only [eqJ_off h1]
    split at h
    · cases h
    · rename_i h2; simp only [andJ_off h2]; exact h
    · rename_i h2; simp only [andJ_off h2]
      split at h
      · cases h
      · rename_i h3; simp only [andJ_off h3]; exact h
      · rename_i h3; simp only [andJ_off h3]
        split at h
        · cases h
        · rename_i h4; simp only [flipJ_off h4]
          split at h
          · cases h
          · rename_i st1 r1 h5; simp only [getOrInsert_off h5]; exact h
        · rename_i h4; simp only [flipJ_off h4]; exact getOrInsert_off h

theorem uniqueOr_off {st : St} {es : List Elem} {table : Nat} {y : St × Ptr}
    (h : uniqueOr π st es table = some y) : uniqueOr π.off st es table = some y := by
  unfold uniqueOr at h ⊢
  split at h
  · exact uniqueBdd_off h
  · split at h
    · cases h
    · split at h
      · cases h
      · rename_i h1; simp only [flipJ_off h1]
        split at h
        · cases h
        · rename_i st1 r1 h2; simp only [getOrInsert_off h2]; exact h
      · rename_i h1; simp only [flipJ_off h1]; exact getOrInsert_off h

/-- refinement of the recursive call -/
def AndRef (andF andF' : AndF) : Prop := ∀ st a b y, andF st a b = some y → andF' st a b = some y

variable {andF andF' : AndF}

theorem orF_off (hr : AndRef andF andF') {st a b y} (h : orF andF st a b = some y) :
    orF andF' st a b = some y := by
  unfold orF at h ⊢
  split at h
  · rename_i st1 r1 h1; rw [hr _ _ _ _ h1]; exact h
  · cases h

theorem andIndep_off {st : St} {a b : Ptr} {k : Nat} {y : St × Ptr}
    (h : andIndep π st a b k = some y) : andIndep π.off st a b k = some y := by
  unfold andIndep at h ⊢
  rw [off_vt]
  split at h
  · rename_i hrl; rw [if_pos hrl]
    split at h
    · exact uniqueBdd_off h
    · exact uniqueBdd_off h
    · cases h
  · rename_i hrl; rw [if_neg hrl]; exact uniqueOr_off h

theorem subDescLoop_off (hr : AndRef andF andF') {d : Ptr} : ∀ (es : List Elem) (st : St) y,
    subDescLoop andF d st es = some y → subDescLoop andF' d st es = some y
  | [], st, y, h => h
  | (p, s) :: rest, st, y, h => by
    simp only [subDescLoop] at h ⊢
    split at h
    · cases h
    · rename_i st1 ns h1; simp only [hr _ _ _ _ h1]
      split at h
      · cases h
      · rename_i st2 v h2; simp only [subDescLoop_off hr rest _ _ h2]; exact h

theorem andSubDesc_off (hr : AndRef andF andF') {st : St} {r d : Ptr} {y : St × Ptr}
    (h : andSubDesc π andF st r d = some y) : andSubDesc π.off andF' st r d = some y := by
  unfold andSubDesc at h ⊢
  split at h
  · split at h
    · cases h
    · rename_i st1 lr h1; simp only [hr _ _ _ _ h1]
      split at h
      · cases h
      · rename_i st2 hr2 h2; simp only [hr _ _ _ _ h2]; exact uniqueBdd_off h
  · split at h
    · cases h
    · rename_i st1 v h1; simp only [subDescLoop_off hr _ _ _ h1]; exact uniqueOr_off h
  · cases h

theorem innerLoop_off (hr : AndRef andF andF') (brk : Bool) (p1 s1 : Ptr) : ∀ (eb : List Elem) (st : St) y,
    innerLoop π andF brk p1 s1 st eb = some y → innerLoop π.off andF' brk p1 s1 st eb = some y
  | [], st, y, h => h
  | (p2, s2) :: rest, st, y, h => by
    simp only [innerLoop, isTrueJ, isFalseJ] at h ⊢
    split at h
    · cases h
    · rename_i st1 p h1; simp only [hr _ _ _ _ h1]
      split at h
      · cases h
      · rename_i h2; simp only [eqJ_off h2]; exact innerLoop_off hr brk p1 s1 rest _ _ h
      · rename_i h2; simp only [eqJ_off h2]
        split at h
        · cases h
        · rename_i st2 s h3; simp only [hr _ _ _ _ h3]
          split at h
          · cases h
          · rename_i h4; simp only [andJ_off h4]; exact h
          · rename_i h4; simp only [andJ_off h4]
            have hb : ∀ r, (if brk then eqJ π p1 p else some false) = some r →
                (if brk then eqJ π.off p1 p else some false) = some r := by
              intro r hbr
              cases brk
              · exact hbr
              · exact eqJ_off hbr
            split at h
            · cases h
            · rename_i h5; simp only [hb _ h5]; exact h
            · rename_i h5; simp only [hb _ h5]
              split at h
              · cases h
              · rename_i st3 r h6; simp only [innerLoop_off hr brk p1 s1 rest _ _ h6]; exact h
              · rename_i st3 l h6; simp only [innerLoop_off hr brk p1 s1 rest _ _ h6]; exact h

theorem findJ_off {p1 : Ptr} : ∀ (eb : List Elem) y, findJ π p1 eb = some y → findJ π.off p1 eb = some y
  | [], y, h => h
  | e :: rest, y, h => by
    simp only [findJ] at h ⊢
    split at h
    · cases h
    · rename_i h1; simp only [eqJ_off h1]; exact h
    · rename_i h1; simp only [eqJ_off h1]; exact findJ_off rest _ h

theorem prodLoop_off (hr : AndRef andF andF') (cart : Bool) (eb : List Elem) : ∀ (ea : List Elem) (st : St) y,
    prodLoop π andF cart eb st ea = some y → prodLoop π.off andF' cart eb st ea = some y
  | [], st, y, h => h
  | (p1, s1) :: rest, st, y, h => by
    simp only [prodLoop] at h ⊢
    have hf : ∀ r, (if cart then findJ π p1 eb else some none) = some r →
        (if cart then findJ π.off p1 eb else some none) = some r := by
      intro r hfr
      cases cart
      · exact hfr
      · exact findJ_off _ _ hfr
    split at h
    · cases h
    · rename_i q s2 h1; simp only [hf _ h1]
      split at h
      · cases h
      · rename_i st1 s h2; simp only [hr _ _ _ _ h2]
        split at h
        · cases h
        · rename_i st2 r h3; simp only [prodLoop_off hr cart eb rest _ _ h3]; exact h
        · rename_i st2 l h3; simp only [prodLoop_off hr cart eb rest _ _ h3]; exact h
    · rename_i h1; simp only [hf _ h1]
      split at h
      · cases h
      · rename_i st1 r h2; simp only [innerLoop_off hr cart p1 s1 eb _ _ h2]; exact h
      · rename_i st1 l1 h2; simp only [innerLoop_off hr cart p1 s1 eb _ _ h2]
        split at h
        · cases h
        · rename_i st2 r h3; simp only [prodLoop_off hr cart eb rest _ _ h3]; exact h
        · rename_i st2 l h3; simp only [prodLoop_off hr cart eb rest _ _ h3]; exact h

theorem andPrimeDesc_off (hr : AndRef andF andF') {st : St} {r d : Ptr} {y : St × Ptr}
    (h : andPrimeDesc π andF st r d = some y) : andPrimeDesc π.off andF' st r d = some y := by
  unfold andPrimeDesc at h ⊢
  split at h
  · cases h
  · split at h
    · cases h
    · rename_i st1 x h1; simp only [prodLoop_off hr _ _ _ _ _ h1]; exact h
    · rename_i st1 l h1; simp only [prodLoop_off hr _ _ _ _ _ h1]
      split at h
      · exact uniqueOr_off h
      · exact uniqueOr_off h
      · cases h

theorem andCartesian_off (hr : AndRef andF andF') {st : St} {a b : Ptr} {k : Nat} {y : St × Ptr}
    (h : andCartesian π andF st a b k = some y) : andCartesian π.off andF' st a b k = some y := by
  unfold andCartesian at h ⊢
  rw [off_vt]
  split at h
  · split at h
    · split at h
      · cases h
      · rename_i st1 lr h1; simp only [hr _ _ _ _ h1]
        split at h
        · cases h
        · rename_i st2 hr2 h2; simp only [hr _ _ _ _ h2]; exact uniqueBdd_off h
    · cases h
  · split at h
    · split at h
      · cases h
      · rename_i st1 x h1; simp only [prodLoop_off hr _ _ _ _ _ h1]; exact h
      · rename_i st1 l h1; simp only [prodLoop_off hr _ _ _ _ _ h1]; exact uniqueOr_off h
    · cases h

theorem andCore_off (hr : AndRef andF andF') {st : St} {a b : Ptr} {y : St × Ptr}
    (h : andCore π andF st a b = some y) : andCore π.off andF' st a b = some y := by
  simp only [andCore, appInsert_off] at h ⊢
  rw [off_vt]
  split at h
  · cases h
  · rename_i x h1; simp only [appGet_off h1]; exact h
  · rename_i h1; simp only [appGet_off h1]
    split at h
    · cases h
    · rename_i st1 r1 h2
      have : (if vtreeIndex π.vt a = vtreeIndex π.vt b then
            andCartesian π.off andF' st a b (π.vt.lca 0 (vtreeIndex π.vt a) (vtreeIndex π.vt b))
          else if π.vt.lca 0 (vtreeIndex π.vt a) (vtreeIndex π.vt b) = vtreeIndex π.vt a then
            andSubDesc π.off andF' st a b
          else if π.vt.lca 0 (vtreeIndex π.vt a) (vtreeIndex π.vt b) = vtreeIndex π.vt b then
            andPrimeDesc π.off andF' st b a
          else andIndep π.off st a b (π.vt.lca 0 (vtreeIndex π.vt a) (vtreeIndex π.vt b))) =
          some (st1, r1) := by
        split at h2
        · rename_i c; rw [if_pos c]; exact andCartesian_off hr h2
        · rename_i c; rw [if_neg c]
          split at h2
          · rename_i c2; rw [if_pos c2]; exact andSubDesc_off hr h2
          · rename_i c2; rw [if_neg c2]
            split at h2
            · rename_i c3; rw [if_pos c3]; exact andPrimeDesc_off hr h2
            · rename_i c3; rw [if_neg c3]; exact andIndep_off h2
      rw [this]; exact h

theorem andBody_off (hr : AndRef andF andF') : AndRef (andBody π andF) (andBody π.off andF') := by
  intro st a b y h
  simp only [andBody, isTrueJ, isFalseJ] at h ⊢
  rw [off_vt]
  split at h
  · cases h
  · rename_i h1; simp only [eqJ_off h1]; exact h
  · rename_i h1; simp only [eqJ_off h1]
    split at h
    · cases h
    · rename_i h2; simp only [eqJ_off h2]; exact h
    · rename_i h2; simp only [eqJ_off h2]
      split at h
      · cases h
      · rename_i h3; simp only [eqJ_off h3]; exact h
      · rename_i h3; simp only [eqJ_off h3]
        split at h
        · cases h
        · rename_i h4; simp only [eqJ_off h4]; exact h
        · rename_i h4; simp only [eqJ_off h4]
          split at h
          · cases h
          · rename_i h5; simp only [eqJ_off h5]; exact h
          · rename_i h5; simp only [eqJ_off h5]
            split at h
            · cases h
            · rename_i h6; simp only [eqJ_off h6]; exact h
            · rename_i h6; simp only [eqJ_off h6]
              split at h
              · rename_i c; rw [if_pos c]; exact andCore_off hr h
              · rename_i c; rw [if_neg c]; exact andCore_off hr h

theorem and_off : ∀ fuel, AndRef (and π fuel) (and π.off fuel)
  | 0 => fun _ _ _ _ h => by simp [and] at h
  | fuel + 1 => by
    have := andBody_off (π := π) (and_off fuel)
    simpa [and] using this

theorem condLoop_off {condF condF' : St → Ptr → Option (St × Ptr)}
    (hr : ∀ st f y, condF st f = some y → condF' st f = some y) : ∀ (es : List Elem) (st : St) y,
    condLoop π condF st es = some y → condLoop π.off condF' st es = some y
  | [], st, y, h => h
  | (p, s) :: rest, st, y, h => by
    simp only [condLoop, isTrueJ, isFalseJ] at h ⊢
    split at h
    · cases h
    · rename_i st1 newp h1; simp only [hr _ _ _ h1]
      split at h
      · cases h
      · rename_i h2; simp only [eqJ_off h2]; exact condLoop_off hr rest _ _ h
      · rename_i h2; simp only [eqJ_off h2]
        split at h
        · cases h
        · rename_i st2 news h3; simp only [hr _ _ _ h3]
          split at h
          · cases h
          · rename_i h4; simp only [eqJ_off h4]; exact h
          · rename_i h4; simp only [eqJ_off h4]
            split at h
            · cases h
            · rename_i st3 r h5; simp only [condLoop_off hr rest _ _ h5]; exact h
            · rename_i st3 l h5; simp only [condLoop_off hr rest _ _ h5]; exact h

theorem condition_off (x : Nat) (v : Bool) : ∀ (n : Nat) (st : St) (f : Ptr) y,
    condition π x v n st f = some y → condition π.off x v n st f = some y
  | 0, _, _, _, h => by simp [condition] at h
  | n + 1, st, f, y, h => by
    have ih := condition_off x v n
    cases f with
    | tru => exact h
    | fls => exact h
    | lit l p => exact h
    | bdd c l i lo hi =>
      simp only [condition] at h ⊢
      split at h
      · cases h
      · rename_i st1 r h1; simp only [condLoop_off ih _ _ _ h1]; exact h
      · rename_i st1 es h1; simp only [condLoop_off ih _ _ _ h1]; exact uniqueOr_off h
    | dec c i es =>
      simp only [condition] at h ⊢
      split at h
      · cases h
      · rename_i st1 r h1; simp only [condLoop_off ih _ _ _ h1]; exact h
      · rename_i st1 es' h1; simp only [condLoop_off ih _ _ _ h1]; exact uniqueOr_off h

variable (fuel : Nat)

theorem bAnd_off : AndRef (bAnd π fuel) (bAnd π.off fuel) := and_off fuel

theorem bOr_off {st a b y} (h : bOr π fuel st a b = some y) : bOr π.off fuel st a b = some y :=
  orF_off (and_off fuel) h

theorem bCond_off {st f x v y} (h : bCond π fuel st f x v = some y) :
    bCond π.off fuel st f x v = some y := condition_off x v fuel st f y h

theorem bExists_off {st f x y} (h : bExists π fuel st f x = some y) :
    bExists π.off fuel st f x = some y := by
  simp only [bExists] at h ⊢
  split at h
  · cases h
  · rename_i s1 v1 h1; simp only [bCond_off fuel h1]
    split at h
    · cases h
    · rename_i s2 v2 h2; simp only [bCond_off fuel h2]; exact bOr_off fuel h

theorem clauseLoop_off : ∀ (ls : List Lit) (st : St) (acc : Ptr) y,
    clauseLoop π fuel st acc ls = some y → clauseLoop π.off fuel st acc ls = some y
  | [], _, _, _, h => h
  | l :: ls, st, acc, y, h => by
    simp only [clauseLoop] at h ⊢
    split at h
    · cases h
    · rename_i st1 r1 h1; simp only [bOr_off fuel h1]; exact clauseLoop_off ls _ _ _ h

theorem compileClause_off {st : St} {c : Clause} {y} (h : compileClause π fuel st c = some y) :
    compileClause π.off fuel st c = some y := by
  cases c with
  | nil => simp [compileClause] at h
  | cons l ls => exact clauseLoop_off fuel _ _ _ _ h

theorem compileClauses_off : ∀ (cs : List Clause) (st : St) y,
    compileClauses π fuel st cs = some y → compileClauses π.off fuel st cs = some y
  | [], _, _, h => h
  | c :: cs, st, y, h => by
    simp only [compileClauses] at h ⊢
    split at h
    · cases h
    · rename_i st1 p h1; simp only [compileClause_off fuel h1]
      split at h
      · cases h
      · rename_i st2 ps h2; simp only [compileClauses_off cs _ _ h2]; exact h

theorem cnfHelper_off : ∀ (n : Nat) (st : St) (v : List Ptr) y,
    cnfHelper π fuel n st v = some y → cnfHelper π.off fuel n st v = some y
  | 0, _, _, _, h => by simp [cnfHelper] at h
  | n + 1, st, [], y, h => h
  | n + 1, st, [x], y, h => h
  | n + 1, st, x :: x2 :: rest, y, h => by
    simp only [cnfHelper] at h ⊢
    split at h
    · cases h
    · rename_i st1 l h1; simp only [cnfHelper_off n _ _ _ h1]
      split at h
      · cases h
      · rename_i st2 r h2; simp only [cnfHelper_off n _ _ _ h2]
        cases l <;> cases r <;> simp only at h ⊢
        · exact h
        · exact h
        · exact h
        · split at h
          · cases h
          · rename_i st3 z h3; simp only [bAnd_off fuel _ _ _ _ h3]; exact h

theorem compileCnf_off {st : St} {cnf : Cnf} {y} (h : compileCnf π fuel st cnf = some y) :
    compileCnf π.off fuel st cnf = some y := by
  simp only [compileCnf] at h ⊢
  split at h
  · rename_i c; simp only [c, if_true]; exact h
  · rename_i c; simp only [c, if_false]
    split at h
    · rename_i c2; simp only [c2, if_true]; exact h
    · rename_i c2; simp only [c2, if_false]
      split at h
      · cases h
      · rename_i st1 ps h1; simp only [compileClauses_off fuel _ _ _ h1]
        split at h
        · cases h
        · rename_i st2 h2; simp only [cnfHelper_off fuel _ _ _ _ h2]; exact h
        · rename_i st2 x h2; simp only [cnfHelper_off fuel _ _ _ _ h2]; exact h

theorem step_off {rs rs' : RunSt} {op : Op} (h : step π fuel rs op = some rs') :
    step π.off fuel rs op = some rs' := by
  cases op with
  | const b => exact h
  | var x pol => exact h
  | neg i => exact h
  | and i j =>
    simp only [step] at h ⊢
    split at h
    · simp only [Option.map_eq_some_iff] at h ⊢
      obtain ⟨a, ha, rfl⟩ := h
      exact ⟨a, bAnd_off fuel _ _ _ _ ha, rfl⟩
    · cases h
  | or i j =>
    simp only [step] at h ⊢
    split at h
    · simp only [Option.map_eq_some_iff] at h ⊢
      obtain ⟨a, ha, rfl⟩ := h
      exact ⟨a, bOr_off fuel ha, rfl⟩
    · cases h
  | cond i x b =>
    simp only [step] at h ⊢
    split at h
    · simp only [Option.map_eq_some_iff] at h ⊢
      obtain ⟨a, ha, rfl⟩ := h
      exact ⟨a, bCond_off fuel ha, rfl⟩
    · cases h
  | exist i x =>
    simp only [step] at h ⊢
    split at h
    · simp only [Option.map_eq_some_iff] at h ⊢
      obtain ⟨a, ha, rfl⟩ := h
      exact ⟨a, bExists_off fuel ha, rfl⟩
    · cases h
  | xor i j => simp [step] at h
  | iff i j => simp [step] at h
  | ite i j k => simp [step] at h
  | compose i x j => simp [step] at h

theorem runFrom_off : ∀ (ops : List Op) (rs rs' : RunSt),
    runFrom π fuel rs ops = some rs' → runFrom π.off fuel rs ops = some rs'
  | [], _, _, h => h
  | op :: ops, rs, rs', h => by
    simp only [runFrom] at h ⊢
    split at h
    · cases h
    · rename_i rs1 h1; simp only [step_off fuel h1]; exact runFrom_off ops _ _ h

end off

end SddSem
