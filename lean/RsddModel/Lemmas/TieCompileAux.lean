import Lean.Meta.Tactic.Simp.RegisterCommand
import RsddModel.Model.BddCompile
import RsddModel.Model.Serialize
/-!
# Support for the translator route of the compile / serialise group (`tools/gen_compile.py`)

The Lean text regenerated from the Rust source (`Model/GenCompile.lean`) is written in terms of
a few loop combinators and one abstract data type, defined here, so that the generated
definitions can mirror the Rust literally (statement by statement) while the hand-written model
uses dedicated recursive functions:

* `forIn body init xs`      – `for x in xs { body }` with `break` (`.done`) / `continue` (`.yield`)
  in the monad `Option` (`none` = a panic of the Rust or a builder operation out of fuel);
* `whileFuel cond body fuel init` – `while cond { body }`, at most `fuel` iterations;
* `AHeap P`                 – what `compile_cnf_with_assignments` uses of `BinaryHeap<CompiledCNF>`:
  the entries in push order plus the second half of the answer of the merge strategy
  (`Compile.Strategy` names the two entries to pop next from the entries it sees; the first `pop`
  asks the strategy and remembers the second index, the second `pop` uses it).

The uniqueness lemmas (`forIn_unique`, `whileFuel_unique`) are what `Props/TieCompile.lean` uses
to identify a generated loop with the recursive function of the model, without naming the
generated loop body.
-/

/-- definitions that the tie proofs unfold without naming them (generated loop bodies) -/
register_simp_attr tie_unfold

namespace TieAuxC
open Compile

def forIn {α β : Type} (f : β → α → Option (ForInStep β)) : β → List α → Option β
  | b, [] => some b
  | b, x :: xs =>
    match f b x with
    | none => none
    | some (.done b') => some b'
    | some (.yield b') => forIn f b' xs

theorem forIn_unique {α β : Type} (f : β → α → Option (ForInStep β)) (g : β → List α → Option β)
    (h : ∀ b xs, g b xs =
      match xs with
      | [] => some b
      | x :: xs =>
        match f b x with
        | none => none
        | some (.done b') => some b'
        | some (.yield b') => g b' xs) :
    ∀ xs b, forIn f b xs = g b xs := by
  intro xs
  induction xs with
  | nil => intro b; rw [h]; rfl
  | cons x xs ih =>
    intro b; rw [h]; simp only [forIn]
    cases f b x with
    | none => rfl
    | some st => cases st <;> simp [ih]

def whileFuel {β : Type} (c : β → Bool) (f : β → Option β) : Nat → β → Option β
  | fuel, b =>
    if c b then
      match fuel with
      | 0 => none
      | n + 1 =>
        match f b with
        | none => none
        | some b' => whileFuel c f n b'
    else some b

theorem whileFuel_unique {β : Type} (c : β → Bool) (f : β → Option β) (g : Nat → β → Option β)
    (h : ∀ fuel b, g fuel b =
      if c b then
        match fuel with
        | 0 => none
        | n + 1 =>
          match f b with
          | none => none
          | some b' => g n b'
      else some b) :
    ∀ fuel b, whileFuel c f fuel b = g fuel b := by
  intro fuel
  induction fuel with
  | zero => intro b; rw [h]; unfold whileFuel; rfl
  | succ n ih =>
    intro b; rw [h]; unfold whileFuel
    split
    · cases f b with
      | none => rfl
      | some b' => simp [ih]
    · rfl

/-- `Iterator::reduce` -/
def reduce {α : Type} (f : α → α → α) : List α → Option α
  | [] => none
  | x :: xs => some (xs.foldl f x)

/-- `Vec::dedup_by_key`: of every run of consecutive elements with the same key the first one stays -/
def dedupByKey {α κ : Type} [DecidableEq κ] (key : α → κ) : List α → List α
  | [] => []
  | [x] => [x]
  | x :: y :: r => if key x = key y then dedupByKey key (x :: r) else x :: dedupByKey key (y :: r)
termination_by l => l.length

/-! ## the heap of `compile_cnf_with_assignments` -/

structure AHeap (P : Type) where
  es : List (P × Nat)
  pending : Option Nat

namespace AHeap
variable {P : Type}

/-- `BinaryHeap::new()` -/
def new : AHeap P := ⟨[], none⟩
/-- `heap.push(CompiledCNF { ptr, sz })` -/
def push (h : AHeap P) (e : P × Nat) : AHeap P := ⟨h.es ++ [e], none⟩
/-- `heap.len()` -/
def len (h : AHeap P) : Nat := h.es.length
/-- `heap.pop()`; `none` = the heap is empty -/
def pop (strat : Strategy P) (h : AHeap P) : Option ((P × Nat) × AHeap P) :=
  match h.pending with
  | some j =>
    match extract (j % h.es.length) h.es with
    | none => none
    | some (e, rest) => some (e, ⟨rest, none⟩)
  | none =>
    match extract ((strat h.es).1 % h.es.length) h.es with
    | none => none
    | some (e, rest) => some (e, ⟨rest, some (strat h.es).2⟩)
end AHeap


/-! ## loops of `compile_cnf` / `compile_cnf_with_assignments` against the recursive functions of the model

Each lemma takes the loop body `f` abstractly, together with its pointwise description `hf`; the
tie proofs instantiate `f` with the generated body and prove `hf` by unfolding it. -/
section loops
variable {σ P : Type} (O : Ops σ P)

/-- `compile_cnf` on the clause list `cs`, the `sort_by` call being the permutation `perm` (the early
returns look at the unsorted list, the clause loop at the sorted one) -/
def compileCnfPerm (perm : List Spec.Clause → List Spec.Clause) (s : σ) (cs : Spec.Cnf) : Option (σ × P) :=
  if cs.isEmpty then some (s, O.tru)
  else if cs.any List.isEmpty then some (s, O.fls)
  else
    match compileClauses O s (perm cs) with
    | none => none
    | some (s1, ps) =>
      match collapseClauses O s1 ps with
      | none => none
      | some (s2, none) => some (s2, O.tru)
      | some (s2, some r) => some (s2, r)

theorem compileCnfPerm_id (s : σ) (cs : Spec.Cnf) : compileCnfPerm O (fun x => x) s cs = compileCnf O s cs := rfl

/-- for every permutation-like `perm` (it keeps emptiness of the list and of some clause) the
translated function is the model's `compileCnf` on the permuted list -/
theorem compileCnfPerm_eq (perm : List Spec.Clause → List Spec.Clause) (s : σ) (cs : Spec.Cnf)
    (h1 : (perm cs).isEmpty = cs.isEmpty) (h2 : (perm cs).any List.isEmpty = cs.any List.isEmpty) :
    compileCnfPerm O perm s cs = compileCnf O s (perm cs) := by
  unfold compileCnfPerm compileCnf
  rw [h1, h2]
  rfl

theorem clause_loop (f : σ × P → Spec.Lit → Option (ForInStep (σ × P)))
    (hf : ∀ s acc l, f (s, acc) l =
      match O.or s acc (O.var l.var l.pol) with
      | none => none
      | some (s1, r) => some (.yield (s1, r))) :
    ∀ c s acc, forIn f (s, acc) c = compileClause O s acc c := by
  intro c
  induction c with
  | nil => intro s acc; rfl
  | cons l ls ih =>
    intro s acc
    simp only [forIn, compileClause, hf]
    cases O.or s acc (O.var l.var l.pol) with
    | none => rfl
    | some r => obtain ⟨s1, r⟩ := r; exact ih s1 r

theorem clauses_loop (f : σ × List P → Spec.Clause → Option (ForInStep (σ × List P)))
    (hf : ∀ s acc c, f (s, acc) c =
      match c with
      | [] => none
      | l :: ls =>
        match compileClause O s (O.var l.var l.pol) (l :: ls) with
        | none => none
        | some (s1, p) => some (.yield (s1, acc ++ [p]))) :
    ∀ cs s acc, forIn f (s, acc) cs =
      match compileClauses O s cs with
      | none => none
      | some (s1, ps) => some (s1, acc ++ ps) := by
  intro cs
  induction cs with
  | nil => intro s acc; simp [forIn, compileClauses]
  | cons c cs ih =>
    intro s acc
    cases c with
    | nil => simp [forIn, compileClauses, hf]
    | cons l ls =>
      simp only [forIn, compileClauses, hf]
      cases compileClause O s (O.var l.var l.pol) (l :: ls) with
      | none => rfl
      | some r =>
        obtain ⟨s1, p⟩ := r
        simp only [ih]
        cases compileClauses O s1 cs with
        | none => rfl
        | some r => obtain ⟨s2, ps⟩ := r; simp

theorem clauseUnder_loop (m : Spec.PModel) (f : σ × P → Spec.Lit → Option (ForInStep (σ × P)))
    (hf : ∀ s cur l, f (s, cur) l =
      match m l.var with
      | none =>
        match O.or s (O.var l.var l.pol) cur with
        | none => none
        | some (s1, r) => some (.yield (s1, r))
      | some v => if v = l.pol then some (.done (s, O.tru)) else some (.yield (s, cur))) :
    ∀ c s cur, forIn f (s, cur) c = clauseUnder O m s cur c := by
  intro c
  induction c with
  | nil => intro s cur; rfl
  | cons l ls ih =>
    intro s cur
    simp only [forIn, clauseUnder, hf]
    cases m l.var with
    | none =>
      simp only []
      cases O.or s (O.var l.var l.pol) cur with
      | none => rfl
      | some r => obtain ⟨s1, r⟩ := r; exact ih s1 r
    | some v =>
      simp only []
      by_cases hv : v = l.pol
      · simp [hv]
      · simp [hv, ih]

theorem clausesUnder_loop (m : Spec.PModel)
    (f : σ × AHeap P → Spec.Clause → Option (ForInStep (σ × AHeap P)))
    (hf : ∀ s h c, f (s, h) c =
      match clauseUnder O m s O.fls c with
      | none => none
      | some (s1, p) => some (.yield (s1, h.push (p, O.size p)))) :
    ∀ cs s acc, forIn f (s, ⟨acc, none⟩) cs =
      match clausesUnder O m s cs with
      | none => none
      | some (s1, es) => some (s1, ⟨acc ++ es, none⟩) := by
  intro cs
  induction cs with
  | nil => intro s acc; simp [forIn, clausesUnder]
  | cons c cs ih =>
    intro s acc
    simp only [forIn, clausesUnder, hf]
    cases clauseUnder O m s O.fls c with
    | none => rfl
    | some r =>
      obtain ⟨s1, p⟩ := r
      simp only [AHeap.push, ih]
      cases clausesUnder O m s1 cs with
      | none => rfl
      | some r => obtain ⟨s2, es⟩ := r; simp

theorem merge_loop (strat : Strategy P) (c : σ × AHeap P → Bool) (f : σ × AHeap P → Option (σ × AHeap P))
    (hc : ∀ s h, c (s, h) = decide (h.len > 1))
    (hf : ∀ s h, f (s, h) =
      match h.pop strat with
      | none => none
      | some (e1, h1) =>
        match h1.pop strat with
        | none => none
        | some (e2, h2) =>
          match O.and s e1.1 e2.1 with
          | none => none
          | some (s1, r) => some (s1, h2.push (r, O.size r))) :
    ∀ fuel s es,
      (match whileFuel c f fuel (s, ⟨es, none⟩) with
       | none => none
       | some (s', h') =>
         match h'.pop strat with
         | none => none
         | some (e, _) => some (s', e.1)) = mergeLoop O strat fuel s es := by
  intro fuel
  induction fuel with
  | zero =>
    intro s es
    unfold whileFuel
    match es with
    | [] => simp [hc, AHeap.len, AHeap.pop, extract, mergeLoop]
    | [e] => simp [hc, AHeap.len, AHeap.pop, extract, mergeLoop, Nat.mod_one]
    | e :: e' :: es => simp [hc, AHeap.len, mergeLoop]
  | succ n ih =>
    intro s es
    unfold whileFuel
    match es with
    | [] => simp [hc, AHeap.len, AHeap.pop, extract, mergeLoop]
    | [e] => simp [hc, AHeap.len, AHeap.pop, extract, mergeLoop, Nat.mod_one]
    | e :: e' :: es =>
      rw [hc, if_pos (by simp [AHeap.len])]
      simp only [hf, mergeLoop, AHeap.pop, List.length_cons]
      cases h1 : extract ((strat (e :: e' :: es)).1 % (es.length + 1 + 1)) (e :: e' :: es) with
      | none => simp
      | some r1 =>
        obtain ⟨e1, rest⟩ := r1
        simp only []
        cases h2 : extract ((strat (e :: e' :: es)).2 % rest.length) rest with
        | none => simp
        | some r2 =>
          obtain ⟨e2, rest2⟩ := r2
          simp only []
          cases O.and s e1.1 e2.1 with
          | none => simp
          | some r3 =>
            obtain ⟨s1, r⟩ := r3
            simp only [AHeap.push]
            exact ih s1 (rest2 ++ [(r, O.size r)])

/-- the condition of the merge loop, `compiled_heap.len() > 1` -/
def mergeCond : σ × AHeap P → Bool := fun b => decide (b.2.len > 1)

/-- the body of the merge loop: pop twice, conjoin, push -/
def mergeBody (strat : Strategy P) : σ × AHeap P → Option (σ × AHeap P) := fun b =>
  match b.2.pop strat with
  | none => none
  | some (e1, h1) =>
    match h1.pop strat with
    | none => none
    | some (e2, h2) =>
      match O.and b.1 e1.1 e2.1 with
      | none => none
      | some (s1, r) => some (s1, h2.push (r, O.size r))

theorem merge_loop' (strat : Strategy P) (fuel : Nat) (s : σ) (es : List (P × Nat)) :
    (match whileFuel mergeCond (mergeBody O strat) fuel (s, ⟨es, none⟩) with
     | none => none
     | some (s', h') =>
       match h'.pop strat with
       | none => none
       | some (e, _) => some (s', e.1)) = mergeLoop O strat fuel s es :=
  merge_loop O strat _ _ (by intro s h; rfl) (by intro s h; rfl) fuel s es

end loops

theorem whileFuel_congr {β : Type} {c c' : β → Bool} {f f' : β → Option β}
    (hc : ∀ b, c b = c' b) (hf : ∀ b, f b = f' b) : whileFuel c f = whileFuel c' f' := by
  have h1 : c = c' := funext hc
  have h2 : f = f' := funext hf
  rw [h1, h2]

/-! ## the SDD serialiser: the Rust looks every pointer up in the table, the model only nodes

`SDDSerializer::serialize_helper` starts with `table.get(&reg)` for EVERY pointer, also constants and
literals; `Ser.serSddAux` looks only binary and decision nodes up.  The two agree on the tables the
serialiser itself builds: all keys are regular node pointers (`NodeKeys`). -/

/-- a regular pointer to a binary or decision node (what `table.insert` is called with) -/
def IsNodeKey : Sdd.Ptr → Prop
  | .bdd false _ _ _ _ => True
  | .dec false _ _ => True
  | _ => False

/-- every key of the table is a regular node pointer -/
def NodeKeys (t : List (Sdd.Ptr × Nat)) : Prop := ∀ k i, (k, i) ∈ t → IsNodeKey k

theorem nodeKeys_nil : NodeKeys [] := by intro k i h; cases h

theorem nodeKeys_cons {t : List (Sdd.Ptr × Nat)} {k : Sdd.Ptr} {i : Nat} (hk : IsNodeKey k) (ht : NodeKeys t) :
    NodeKeys ((k, i) :: t) := by
  intro k' i' h
  rcases List.mem_cons.mp h with e | h
  · cases e; exact hk
  · exact ht k' i' h

theorem assocGet_none_of_not_key : ∀ (t : List (Sdd.Ptr × Nat)) (k : Sdd.Ptr), NodeKeys t → ¬ IsNodeKey k →
    Ser.assocGet t k = none
  | [], _, _, _ => rfl
  | (k', v) :: rest, k, ht, hk => by
    have h1 : IsNodeKey k' := ht k' v (List.mem_cons_self ..)
    have h2 : k ≠ k' := fun e => hk (e ▸ h1)
    simp only [Ser.assocGet, h2, if_false]
    exact assocGet_none_of_not_key rest k (fun a b h => ht a b (List.mem_cons_of_mem _ h)) hk

mutual
theorem serSddAux_nodeKeys : ∀ (d : Sdd.Ptr) (s : Ser.SddSt), NodeKeys s.table → NodeKeys (Ser.serSddAux d s).2.table
  | .tru, s, h => by simpa [Ser.serSddAux] using h
  | .fls, s, h => by simpa [Ser.serSddAux] using h
  | .lit _ _, s, h => by simpa [Ser.serSddAux] using h
  | .bdd c l i lo hi, s, h => by
    simp only [Ser.serSddAux]
    cases Ser.assocGet s.table (.bdd false l i lo hi) with
    | some idx => exact h
    | none =>
      exact nodeKeys_cons (by simp [IsNodeKey]) (serSddAux_nodeKeys hi _ (serSddAux_nodeKeys lo s h))
  | .dec c i es, s, h => by
    simp only [Ser.serSddAux]
    cases Ser.assocGet s.table (.dec false i es) with
    | some idx => exact h
    | none => exact nodeKeys_cons (by simp [IsNodeKey]) (serSddElems_nodeKeys es s h)
theorem serSddElems_nodeKeys : ∀ (es : List (Sdd.Ptr × Sdd.Ptr)) (s : Ser.SddSt), NodeKeys s.table →
    NodeKeys (Ser.serSddElems es s).2.table
  | [], s, h => by simpa [Ser.serSddElems] using h
  | (p, sub) :: rest, s, h => by
    simp only [Ser.serSddElems]
    exact serSddElems_nodeKeys rest _ (serSddAux_nodeKeys sub _ (serSddAux_nodeKeys p s h))
end

end TieAuxC
