import RsddModel.Model.SddWmc
import RsddModel.Lemmas.Wmc
import RsddModel.Lemmas.SddWFRun
/-!
# Lemmas: the weighted model count and the semantic hash of SDDs

Part 1 (`namespace Spec`): three more facts about `wsum`: the sum of the constant `false`, of a
disjunction of exclusive functions, and of a conjunction of two functions that share no variable
(for normalised weights the sum over a list factorises as soon as every listed variable is
ignored by one of the two factors).

Part 2 (`namespace Sdd`): the structural hypothesis of the count, `DD` ("deterministic and
decomposable"): every decision node's primes are a partition, and in every element `(p, s)` no
variable is relevant to both `p` and `s` (*semantic* independence: weaker than the syntactic
"primes over the left child's variables, subs over the right child's" of `WFs`, and it is what
the semantic-hash builder maintains, whose table lookups may return a node of another vtree
index for the same function).  `wmcAux_dd`: for a `DD` pointer, normalised weights and a variable
list covering the pointer, `wmc = wsum` of the denoted function — including complemented
pointers.  `WFs → DD` (vtrees with distinct leaves).

Part 3: Boolean evaluation (needs the partition property only), `hash_neg`, and the second hash
computation of the Rust (`cached_semantic_hash`, here `hashTree`) is the count over `FiniteField<P>`.
-/

namespace Spec
open Bdd
variable {α : Type} {S : SROps α}

theorem wsum_false (hS : S.Laws) (w : Weights α) : ∀ (vars : List Nat) (a : Assign),
    wsum S vars w (fun _ => false) a = S.zero
  | [], _ => rfl
  | v :: vs, a => by
    simp only [wsum, wsum_false hS w vs, hS.mul_zero, hS.add_zero]

/-- exclusive functions: the sum of the disjunction is the sum of the sums -/
theorem wsum_or_disj (hS : S.Laws) (w : Weights α) {f g : BoolFn} (hd : ∀ b, f b = true → g b = false) :
    ∀ (vars : List Nat) (a : Assign),
    wsum S vars w (fun b => f b || g b) a = S.add (wsum S vars w f a) (wsum S vars w g a)
  | [], a => by
    simp only [wsum]
    rcases Bool.eq_false_or_eq_true (f a) with hf | hf
    · simp [hf, hd a hf, hS.add_zero]
    · rcases Bool.eq_false_or_eq_true (g a) with hg | hg <;> simp [hf, hg, hS.add_zero, sr_zero_add hS]
  | v :: vs, a => by
    simp only [wsum, wsum_or_disj hS w hd vs, hS.left_distrib]
    rw [sr_add4 hS]

/-- decomposable conjunction: if every listed variable is irrelevant to `f` or to `g`, the sum of
`f ∧ g` is the product of the sums (normalised weights) -/
theorem wsum_and_indep (hS : S.Laws) (w : Weights α) {f g : BoolFn} :
    ∀ (vars : List Nat) (a : Assign), Normalised S w vars →
    (∀ v ∈ vars, Indep f v ∨ Indep g v) →
    wsum S vars w (fun b => f b && g b) a = S.mul (wsum S vars w f a) (wsum S vars w g a)
  | [], a, _, _ => by
    simp only [wsum]
    rcases Bool.eq_false_or_eq_true (f a) with hf | hf <;>
      rcases Bool.eq_false_or_eq_true (g a) with hg | hg <;>
      simp [hf, hg, hS.mul_zero, hS.mul_one]
  | v :: vs, a, hw, hi => by
    have hw' : Normalised S w vs := fun u hu => hw u (List.mem_cons_of_mem _ hu)
    have hi' : ∀ u ∈ vs, Indep f u ∨ Indep g u := fun u hu => hi u (List.mem_cons_of_mem _ hu)
    have hv := hw v List.mem_cons_self
    have ih := fun a => wsum_and_indep hS w vs a hw' hi'
    rcases hi v List.mem_cons_self with hf | hg
    · rw [wsum_indep_normalised hS w hf hv]
      simp only [wsum, ih, wsum_indep_upd S w hf]
      rw [hS.left_distrib, sr_mul_left_comm hS (w v).1, sr_mul_left_comm hS (w v).2]
    · rw [wsum_indep_normalised hS w hg hv]
      simp only [wsum, ih, wsum_indep_upd S w hg]
      rw [sr_right_distrib hS, hS.mul_assoc, hS.mul_assoc]

/-- the sum of a literal is its weight -/
theorem wsum_lit (hS : S.Laws) (w : Weights α) (v : Nat) (q : Bool) :
    ∀ (vars : List Nat) (a : Assign), Normalised S w vars → v ∈ vars →
    wsum S vars w (fun b => if q then b v else !(b v)) a = if q then (w v).2 else (w v).1
  | [], _, _, h => by cases h
  | u :: us, a, hw, hv => by
    have hw' : Normalised S w us := fun x hx => hw x (List.mem_cons_of_mem _ hx)
    by_cases hin : v ∈ us
    · simp only [wsum, wsum_lit hS w v q us _ hw' hin]
      rw [← sr_right_distrib hS, hw u List.mem_cons_self, sr_one_mul hS]
    · have huv : u = v := by
        rcases List.mem_cons.1 hv with h | h
        · exact h.symm
        · exact absurd h hin
      subst huv
      have key : ∀ c : Bool, wsum S us w (fun b => if q then b u else !(b u)) (upd a u c) =
          if (if q then c else !c) then S.one else S.zero := by
        intro c
        rw [← wsum_const hS w (if q then c else !c) us (upd a u c) hw']
        apply wsum_congr'
        intro b hb
        rw [hb u hin, upd_same]
      simp only [wsum, key]
      cases q <;> simp [hS.mul_zero, hS.mul_one, hS.add_zero, sr_zero_add hS]

end Spec

namespace Sdd
open Spec Bdd
variable {α : Type} {S : SROps α}

/-! ## independence -/

/-- `p` does not depend on `v` -/
abbrev IndepP (p : Ptr) (v : Nat) : Prop := Indep (fun a => p.eval a) v

theorem indep_of_not_mem {p : Ptr} {v : Nat} (h : v ∉ p.vars) : IndepP p v := by
  intro a b
  apply eval_congr
  intro u hu
  exact upd_other _ _ (fun e => h (e ▸ hu))

theorem indepP_neg {p : Ptr} {v : Nat} (h : IndepP p v) : IndepP p.neg v := by
  intro a b; simp only [eval_neg]; exact congrArg (!·) (h a b)

/-! ## the structural hypothesis of the count -/

mutual
/-- deterministic and decomposable: primes are a partition, no variable is relevant to both the
prime and the sub of an element; a binary node does not test its label below -/
def DD : Ptr → Prop
  | .tru => True
  | .fls => True
  | .lit _ _ => True
  | .bdd _ l _ lo hi => IndepP lo l ∧ IndepP hi l ∧ DD lo ∧ DD hi
  | .dec _ _ es => Partition es ∧ DDElems es
def DDElems : List (Ptr × Ptr) → Prop
  | [] => True
  | (p, s) :: r => ((∀ v, IndepP p v ∨ IndepP s v) ∧ DD p ∧ DD s) ∧ DDElems r
end

theorem ddElems_iff {es : List Elem} :
    DDElems es ↔ ∀ e ∈ es, (∀ v, IndepP e.1 v ∨ IndepP e.2 v) ∧ DD e.1 ∧ DD e.2 := by
  induction es with
  | nil => simp [DDElems]
  | cons e l ih =>
    obtain ⟨p, s⟩ := e
    simp only [DDElems, ih, List.mem_cons, forall_eq_or_imp]

theorem DD_neg {p : Ptr} (h : DD p) : DD p.neg := by
  cases p <;> first | exact h | (simp only [Ptr.neg, DD] at h ⊢; exact h)

/-! ## complement flag -/

theorem wmcAux_neg (S : SROps α) (w : Weights α) (p : Ptr) (n : Bool) :
    wmcAux S w p.neg n = wmcAux S w p (!n) := by
  cases p with
  | tru => cases n <;> simp [Ptr.neg, wmcAux]
  | fls => cases n <;> simp [Ptr.neg, wmcAux]
  | lit v pol => cases n <;> cases pol <;> simp [Ptr.neg, wmcAux]
  | bdd c l i lo hi => cases n <;> cases c <;> simp [Ptr.neg, wmcAux]
  | dec c i es => cases n <;> cases c <;> simp [Ptr.neg, wmcAux]

/-- the count below a complement is the count of the negated pointer -/
theorem wmcAux_true (S : SROps α) (w : Weights α) (p : Ptr) : wmcAux S w p true = wmc S w p.neg := by
  rw [wmc, wmcAux_neg]; rfl

theorem wmcAux_flag (S : SROps α) (w : Weights α) (p : Ptr) (n : Bool) :
    wmcAux S w p n = wmc S w (if n then p.neg else p) := by
  cases n
  · rfl
  · exact wmcAux_true S w p

/-- a binary node is folded as the two-element decision `(label, high), (¬label, low)` -/
theorem wmcAux_bdd (S : SROps α) (w : Weights α) (c : Bool) (l i : Nat) (lo hi : Ptr) (n : Bool) :
    wmcAux S w (.bdd c l i lo hi) n =
      wmcElems S w (xor c n) [(.lit l true, hi), (.lit l false, lo)] S.zero := by
  simp [wmcAux, wmcElems]

/-! ## the element loop -/

/-- `⋁ pᵢ ∧ (sᵢ xor m)`: what the loop sums when the pointer is complemented (`m`) -/
def evalM (m : Bool) (b : Assign) : List Elem → Bool
  | [] => false
  | e :: r => (e.1.eval b && xor m (e.2.eval b)) || evalM m b r

theorem evalM_of_cnt_zero {m : Bool} {b : Assign} {es : List Elem} (h : cnt b es = 0) :
    evalM m b es = false := by
  induction es with
  | nil => rfl
  | cons e l ih =>
    rw [cnt_cons] at h
    cases hp : e.1.eval b
    · simp [hp] at h; simp [evalM, hp, ih h]
    · simp [hp] at h

/-- under a partition the complement can be pushed into the subs -/
theorem evalM_eq {m : Bool} {b : Assign} {es : List Elem} (h : cnt b es = 1) :
    evalM m b es = xor m (evalElems b es) := by
  induction es with
  | nil => simp at h
  | cons e l ih =>
    rw [cnt_cons] at h
    cases hp : e.1.eval b
    · simp [hp] at h; simp [evalM, hp, ih h]
    · simp [hp] at h
      simp [evalM, hp, evalM_of_cnt_zero h, evalElems_of_cnt_zero h]

/-- the loop, given the count of every prime and sub: `or_v` grows by the sum of `⋁ pᵢ ∧ sᵢ'` -/
theorem wmcElems_sum (hS : S.Laws) (w : Weights α) {vars : List Nat} (hw : Normalised S w vars)
    (m : Bool) : ∀ (es : List Elem), (∀ b, cnt b es ≤ 1) →
    (∀ e ∈ es, (∀ v, IndepP e.1 v ∨ IndepP e.2 v) ∧
      (∀ a, wmcAux S w e.1 false = wsum S vars w (fun b => e.1.eval b) a) ∧
      (∀ a, wmcAux S w e.2 m = wsum S vars w (fun b => xor m (e.2.eval b)) a)) →
    ∀ (acc : α) (a : Assign),
      wmcElems S w m es acc = S.add acc (wsum S vars w (fun b => evalM m b es) a)
  | [], _, _, acc, a => by
    simp only [wmcElems, evalM, wsum_false hS, hS.add_zero]
  | (p, s) :: rest, hc, he, acc, a => by
    have hc' : ∀ b, cnt b rest ≤ 1 := fun b => by
      have := hc b; rw [cnt_cons] at this; omega
    obtain ⟨hind, hp, hs⟩ := he (p, s) List.mem_cons_self
    simp only [wmcElems]
    rw [wmcElems_sum hS w hw m rest hc' (fun e h => he e (List.mem_cons_of_mem _ h)) _ a,
      hS.add_assoc, hp a, hs a]
    congr 1
    have hd : ∀ b, (p.eval b && xor m (s.eval b)) = true → evalM m b rest = false := by
      intro b hb
      simp only [Bool.and_eq_true] at hb
      apply evalM_of_cnt_zero
      have := hc b; rw [cnt_cons] at this; simp only [hb.1, if_true] at this; omega
    have e1 := wsum_or_disj hS w (f := fun b => p.eval b && xor m (s.eval b))
      (g := fun b => evalM m b rest) hd vars a
    have e2 := wsum_and_indep hS w (f := fun b => p.eval b) (g := fun b => xor m (s.eval b)) vars a hw
      (fun v _ => by
        rcases hind v with h | h
        · exact Or.inl h
        · right; intro a b; exact congrArg (xor m) (h a b))
    simp only [evalM]
    rw [e1, e2]

/-! ## the count of a `DD` pointer is the weighted sum of its function -/

theorem wmcAux_dd (hS : S.Laws) (w : Weights α) {vars : List Nat} (hw : Normalised S w vars) :
    ∀ (k : Nat) (p : Ptr), p.size ≤ k → DD p → (∀ v ∈ p.vars, v ∈ vars) → ∀ (n : Bool) (a : Assign),
    wmcAux S w p n = wsum S vars w (fun b => xor n (p.eval b)) a
  | 0, p, hk, _, _, _, _ => by have := size_pos p; omega
  | k + 1, .tru, _, _, _, n, a => by
    simp only [eval_tru, wsum_const hS w _ vars a hw, wmcAux]; cases n <;> rfl
  | k + 1, .fls, _, _, _, n, a => by
    simp only [eval_fls, wsum_const hS w _ vars a hw, wmcAux]; cases n <;> rfl
  | k + 1, .lit v pol, _, _, hsub, n, a => by
    have hv : v ∈ vars := hsub v (by simp [Ptr.vars])
    rw [wmcAux, ← wsum_lit hS w v (xor pol n) vars a hw hv]
    apply wsum_congr; intro b
    simp only [eval_lit]; cases pol <;> cases n <;> cases b v <;> rfl
  | k + 1, .bdd c l i lo hi, hk, hdd, hsub, n, a => by
    obtain ⟨hilo, hihi, dlo, dhi⟩ := hdd
    simp only [Ptr.size] at hk
    have hl : l ∈ vars := hsub l (by simp [Ptr.vars])
    have slo : ∀ v ∈ lo.vars, v ∈ vars := fun v hv => hsub v (by simp [Ptr.vars, hv])
    have shi : ∀ v ∈ hi.vars, v ∈ vars := fun v hv => hsub v (by simp [Ptr.vars, hv])
    have ihlo := wmcAux_dd hS w hw k lo (by omega) dlo slo
    have ihhi := wmcAux_dd hS w hw k hi (by omega) dhi shi
    have litc : ∀ (q : Bool) (a : Assign),
        wmcAux S w (.lit l q) false = wsum S vars w (fun b => (Ptr.lit l q).eval b) a := by
      intro q a
      simp only [wmcAux, Bool.xor_false]
      rw [← wsum_lit hS w l q vars a hw hl]
      apply wsum_congr; intro b; simp only [eval_lit]
    have litind : ∀ (q : Bool) (s : Ptr), IndepP s l → ∀ v, IndepP (.lit l q) v ∨ IndepP s v := by
      intro q s hs v
      by_cases hvl : v = l
      · right; rw [hvl]; exact hs
      · left; exact indep_of_not_mem (by simp [Ptr.vars, hvl])
    have hcnt : ∀ b, cnt b [(Ptr.lit l true, hi), (Ptr.lit l false, lo)] = 1 := by
      intro b; simp only [cnt_cons, cnt_nil, eval_lit]; cases b l <;> rfl
    rw [wmcAux_bdd, wmcElems_sum hS w hw (xor c n) _ (fun b => Nat.le_of_eq (hcnt b)) ?_ S.zero a,
      sr_zero_add hS]
    · apply wsum_congr; intro b
      rw [evalM_eq (hcnt b)]
      simp only [evalElems_cons, evalElems_nil, eval_lit, eval_bdd]
      cases c <;> cases n <;> cases b l <;> simp
    · intro e he
      simp only [List.mem_cons, List.mem_nil_iff, or_false] at he
      rcases he with rfl | rfl
      · exact ⟨litind true hi hihi, litc true, fun a => ihhi _ a⟩
      · exact ⟨litind false lo hilo, litc false, fun a => ihlo _ a⟩
  | k + 1, .dec c i es, hk, hdd, hsub, n, a => by
    obtain ⟨hpart, hel⟩ := hdd
    rw [ddElems_iff] at hel
    simp only [Ptr.size] at hk
    rw [wmcAux, wmcElems_sum hS w hw (xor c n) es (fun b => Nat.le_of_eq (hpart b)) ?_ S.zero a,
      sr_zero_add hS]
    · apply wsum_congr; intro b
      rw [evalM_eq (hpart b), eval_dec]
      cases c <;> cases n <;> simp
    · intro e he
      obtain ⟨hind, dp, ds⟩ := hel e he
      have hsz := size_lt_of_mem he
      have sp : ∀ v ∈ e.1.vars, v ∈ vars := fun v hv =>
        hsub v (by simp only [Ptr.vars]; exact mem_varsElems.2 ⟨e, he, Or.inl hv⟩)
      have ss : ∀ v ∈ e.2.vars, v ∈ vars := fun v hv =>
        hsub v (by simp only [Ptr.vars]; exact mem_varsElems.2 ⟨e, he, Or.inr hv⟩)
      refine ⟨hind, fun a => ?_, fun a => ?_⟩
      · rw [wmcAux_dd hS w hw k e.1 (by omega) dp sp false a]
        apply wsum_congr; intro b; simp
      · exact wmcAux_dd hS w hw k e.2 (by omega) ds ss _ a

/-- **C07 for SDDs.**  For a deterministic decomposable pointer, a variable list that contains
its variables and weights with `lo + hi = one` on that list, the weighted model count is the
semiring sum over all assignments of `vars` of `[p holds] · ∏ chosen literal weights`.  Complement
bits anywhere are covered (`Ptr.eval` interprets them). -/
theorem wmc_dd (hS : S.Laws) (w : Weights α) {p : Ptr} (hd : DD p) {vars : List Nat}
    (hsub : ∀ v ∈ p.vars, v ∈ vars) (hw : Normalised S w vars) (a : Assign) :
    wmc S w p = wsum S vars w (fun b => p.eval b) a := by
  rw [wmc, wmcAux_dd hS w hw p.size p (Nat.le_refl _) hd hsub false a]
  apply wsum_congr; intro b; simp

/-- the count of a complemented pointer is the sum for the negated function -/
theorem wmc_neg_dd (hS : S.Laws) (w : Weights α) {p : Ptr} (hd : DD p) {vars : List Nat}
    (hsub : ∀ v ∈ p.vars, v ∈ vars) (hw : Normalised S w vars) (a : Assign) :
    wmc S w p.neg = wsum S vars w (fNot fun b => p.eval b) a := by
  rw [wmc_dd hS w (DD_neg hd) (by rw [vars_neg]; exact hsub) hw a]
  apply wsum_congr; intro b; simp [fNot]

/-! ## the hash is a function of the denoted function; negation -/

/-- two `DD` pointers — of any two vtrees, compressed or not, any construction history — that
denote the same function have the same count -/
theorem wmc_denotational (hS : S.Laws) (w : Weights α) {p q : Ptr} (hp : DD p) (hq : DD q)
    (hw : ∀ v, v ∈ p.vars ∨ v ∈ q.vars → S.add (w v).1 (w v).2 = S.one)
    (heq : ∀ a, p.eval a = q.eval a) : wmc S w p = wmc S w q := by
  have hN : Normalised S w (p.vars ++ q.vars) := fun v hv => hw v (List.mem_append.mp hv)
  rw [wmc_dd hS w hp (fun v hv => List.mem_append_left _ hv) hN (fun _ => false),
      wmc_dd hS w hq (fun v hv => List.mem_append_right _ hv) hN (fun _ => false)]
  exact wsum_congr S w _ _ heq

/-- count + count of the negation = one -/
theorem wmc_add_neg (hS : S.Laws) (w : Weights α) {p : Ptr} (hd : DD p)
    (hw : ∀ v ∈ p.vars, S.add (w v).1 (w v).2 = S.one) :
    S.add (wmc S w p) (wmc S w p.neg) = S.one := by
  have hN : Normalised S w p.vars := hw
  rw [wmc_dd hS w hd (fun v hv => hv) hN (fun _ => false),
    wmc_neg_dd hS w hd (fun v hv => hv) hN (fun _ => false),
    ← wsum_or_disj hS w (f := fun b => p.eval b) (g := fNot fun b => p.eval b)
      (fun b hb => by simp [fNot, hb])]
  have hc := wsum_const hS w true p.vars (fun _ => false) hN
  simp only [if_true] at hc
  rw [← hc]
  apply wsum_congr; intro b; simp [fNot]

/-- with a subtraction that cancels addition (a field, a ring): a negation counts one minus -/
theorem wmc_neg_sub (hS : S.Laws) (sub : α → α → α) (hsub : ∀ x y, sub (S.add x y) x = y)
    (w : Weights α) {p : Ptr} (hd : DD p) (hw : ∀ v ∈ p.vars, S.add (w v).1 (w v).2 = S.one) :
    wmc S w p.neg = sub S.one (wmc S w p) := by
  rw [← wmc_add_neg hS w hd hw, hsub]

/-! ## `WFs → DD` -/

mutual
theorem WFs_DD {vt : VTree} (hnd : vt.leaves.Nodup) : ∀ (p : Ptr), WFs vt p → DD p
  | .tru, _ => trivial
  | .fls, _ => trivial
  | .lit _ _, _ => trivial
  | .bdd c l i lo hi, h => by
    obtain ⟨_, hl, wlo, whi, vlo, vhi, _⟩ := h
    refine ⟨indep_of_not_mem ?_, indep_of_not_mem ?_, WFs_DD hnd lo wlo, WFs_DD hnd hi whi⟩
    · exact fun hm => VTree.left_right_disj hnd hl (vlo l hm)
    · exact fun hm => VTree.left_right_disj hnd hl (vhi l hm)
  | .dec c i es, h => by
    obtain ⟨_, hpart, hok, _⟩ := h
    exact ⟨hpart, WFsElems_DD hnd es hok⟩
theorem WFsElems_DD {vt : VTree} (hnd : vt.leaves.Nodup) {i : Nat} : ∀ (es : List (Ptr × Ptr)),
    WFsElems vt i es → DDElems es
  | [], _ => trivial
  | (p, s) :: r, h => by
    obtain ⟨⟨wp, ws, _, vp, vs⟩, hr⟩ := h
    refine ⟨⟨fun v => ?_, WFs_DD hnd p wp, WFs_DD hnd s ws⟩, WFsElems_DD hnd r hr⟩
    by_cases hv : v ∈ p.vars
    · exact Or.inr (indep_of_not_mem fun hm => VTree.left_right_disj hnd (vp v hv) (vs v hm))
    · exact Or.inl (indep_of_not_mem hv)
end

/-! ## Boolean evaluation: needs the partition property only -/

mutual
/-- every decision node's primes are a partition -/
def Parts : Ptr → Prop
  | .tru => True
  | .fls => True
  | .lit _ _ => True
  | .bdd _ _ _ lo hi => Parts lo ∧ Parts hi
  | .dec _ _ es => Partition es ∧ PartsElems es
def PartsElems : List (Ptr × Ptr) → Prop
  | [] => True
  | (p, s) :: r => (Parts p ∧ Parts s) ∧ PartsElems r
end

theorem partsElems_iff {es : List Elem} : PartsElems es ↔ ∀ e ∈ es, Parts e.1 ∧ Parts e.2 := by
  induction es with
  | nil => simp [PartsElems]
  | cons e l ih =>
    obtain ⟨p, s⟩ := e
    simp only [PartsElems, ih, List.mem_cons, forall_eq_or_imp]

mutual
theorem DD_parts : ∀ (p : Ptr), DD p → Parts p
  | .tru, _ => trivial
  | .fls, _ => trivial
  | .lit _ _, _ => trivial
  | .bdd _ _ _ lo hi, h => ⟨DD_parts lo h.2.2.1, DD_parts hi h.2.2.2⟩
  | .dec _ _ es, h => ⟨h.1, DDElems_parts es h.2⟩
theorem DDElems_parts : ∀ (es : List (Ptr × Ptr)), DDElems es → PartsElems es
  | [], _ => trivial
  | (p, s) :: r, h => ⟨⟨DD_parts p h.1.2.1, DD_parts s h.1.2.2⟩, DDElems_parts r h.2⟩
end

mutual
theorem WF_parts {vt : VTree} : ∀ (p : Ptr), WF vt p → Parts p
  | .tru, _ => trivial
  | .fls, _ => trivial
  | .lit _ _, _ => trivial
  | .bdd _ _ _ lo hi, h => ⟨WF_parts lo h.2.2.2.1, WF_parts hi h.2.2.2.2⟩
  | .dec _ _ es, h => ⟨h.2.1, WFElems_parts es h.2.2⟩
theorem WFElems_parts {vt : VTree} {ow : Option Nat} : ∀ (es : List (Ptr × Ptr)),
    WFElems vt ow es → PartsElems es
  | [], _ => trivial
  | (p, s) :: r, h => ⟨⟨WF_parts p h.1, WF_parts s h.2.1⟩, WFElems_parts r h.2.2.2⟩
end

/-- the weights of `evaluate` -/
def instW (inst : Assign) : Weights Bool := fun v => (!(inst v), inst v)

theorem evalElemsB (inst : Assign) (m : Bool) : ∀ (es : List Elem),
    (∀ e ∈ es, wmcAux boolOps (instW inst) e.1 false = e.1.eval inst ∧
      wmcAux boolOps (instW inst) e.2 m = xor m (e.2.eval inst)) →
    ∀ acc, wmcElems boolOps (instW inst) m es acc = (acc || evalM m inst es)
  | [], _, acc => by simp [wmcElems, evalM]
  | (p, s) :: rest, h, acc => by
    obtain ⟨hp, hs⟩ := h (p, s) List.mem_cons_self
    simp only [wmcElems]
    rw [evalElemsB inst m rest (fun e he => h e (List.mem_cons_of_mem _ he)), hp, hs]
    simp [evalM, boolOps, Bool.or_assoc]

theorem evaluateAux_eq (inst : Assign) : ∀ (k : Nat) (p : Ptr), p.size ≤ k → Parts p → ∀ (n : Bool),
    wmcAux boolOps (instW inst) p n = xor n (p.eval inst)
  | 0, p, hk, _, _ => by have := size_pos p; omega
  | k + 1, .tru, _, _, n => by cases n <;> rfl
  | k + 1, .fls, _, _, n => by cases n <;> rfl
  | k + 1, .lit v pol, _, _, n => by
    simp only [wmcAux, instW, eval_lit]; cases pol <;> cases n <;> cases inst v <;> rfl
  | k + 1, .bdd c l i lo hi, hk, hp, n => by
    simp only [Ptr.size] at hk
    have ihlo := evaluateAux_eq inst k lo (by omega) hp.1
    have ihhi := evaluateAux_eq inst k hi (by omega) hp.2
    rw [wmcAux, ihlo, ihhi]
    simp only [eval_bdd, instW, boolOps]
    cases c <;> cases n <;> cases inst l <;> simp
  | k + 1, .dec c i es, hk, hp, n => by
    obtain ⟨hpart, hel⟩ := hp
    rw [partsElems_iff] at hel
    simp only [Ptr.size] at hk
    rw [wmcAux, evalElemsB inst (xor c n) es ?_, evalM_eq (hpart inst), eval_dec]
    · cases c <;> cases n <;> simp [boolOps]
    · intro e he
      have hsz := size_lt_of_mem he
      have := hel e he
      exact ⟨by rw [evaluateAux_eq inst k e.1 (by omega) this.1]; simp,
        evaluateAux_eq inst k e.2 (by omega) this.2 _⟩

/-- `DDNNFPtr::evaluate` agrees with the denoted function on every SDD whose decision nodes are
partitions (all results of the builder, compressed or not) -/
theorem evaluate_eq {p : Ptr} (hp : Parts p) (a : Assign) : evaluate p a = p.eval a := by
  have := evaluateAux_eq a p.size p (Nat.le_refl _) hp false
  rw [Bool.false_xor] at this
  exact this

end Sdd
