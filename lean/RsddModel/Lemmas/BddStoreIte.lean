import RsddModel.Lemmas.BddStore
/-!
# Lemmas: the store-level `ite` refines the tree-level `ite`

* `IteS.new_map`: `Ite::new` over references, with the order read through the store, unfolds to
  `Bdd.Ite.new` over trees with `Bdd.ordP` (every test of `Ite::new` — `==`, `is_true`, `is_false`,
  `is_neg`, the order closure — gives the same answer on valid references and on their trees; for
  `==` this is injectivity of `unfold`);
* `condEssentialS_map`, `firstEssentialS_map`: cofactors and the first essential variable;
* `CacheSim`: what relates an apply cache keyed by references to an apply cache keyed by trees
  (stated backwards, so that a tree-level cache that must *follow* what the reference-level
  cache forgets — `Props/C02Store.lean`, `Scripted` — is an instance);
* `iteS_refines`: **for every pair of caches related by a `CacheSim`**, a returning call of the
  store-level `iteS` keeps `StoreOK`, only appends to the store, returns a valid reference, and
  the tree-level `Bdd.ite` with the same fuel on the unfolded arguments returns exactly the
  unfolding of that reference;
* the derived operations (`andS`, `orS`, `xorS`, `iffS`, `andLstS`, `orLstS`).
-/
namespace BddStore
open Bdd Scratch Spec

/-! ## triples -/

def IteS.map (u : Ref → Ptr) : IteS → Ite
  | .choice f g h => .choice (u f) (u g) (u h)
  | .complChoice f g h => .complChoice (u f) (u g) (u h)
  | .const p => .const (u p)

def IteS.ValidIn (s : Store) : IteS → Prop
  | .choice f g h | .complChoice f g h => f.ValidIn s ∧ g.ValidIn s ∧ h.ValidIn s
  | .const p => p.ValidIn s

/-- all three components point into the store -/
def V3 (s : Store) (t : Ref × Ref × Ref) : Prop := t.1.ValidIn s ∧ t.2.1.ValidIn s ∧ t.2.2.ValidIn s
/-- componentwise unfolding -/
def u3 (s : Store) (t : Ref × Ref × Ref) : Ptr × Ptr × Ptr := (unfold s t.1, unfold s t.2.1, unfold s t.2.2)

theorem V3.extends {s' s : Store} (he : Extends s' s) {t} (h : V3 s t) : V3 s' t :=
  ⟨validIn_extends he h.1, validIn_extends he h.2.1, validIn_extends he h.2.2⟩

theorem u3_extends {s' s : Store} (he : Extends s' s) {t} (h : V3 s t) : u3 s' t = u3 s t := by
  simp only [u3, unfold_extends he h.1, unfold_extends he h.2.1, unfold_extends he h.2.2]

theorem IteS.ValidIn.extends {s' s : Store} (he : Extends s' s) {k : IteS} (h : k.ValidIn s) : k.ValidIn s' := by
  cases k with
  | choice f g h' => exact V3.extends he (t := (f, g, h')) h
  | complChoice f g h' => exact V3.extends he (t := (f, g, h')) h
  | const p => exact validIn_extends he h

theorem IteS.map_extends {s' s : Store} (he : Extends s' s) {k : IteS} (h : k.ValidIn s) :
    k.map (unfold s') = k.map (unfold s) := by
  cases k with
  | choice f g h' =>
    obtain ⟨h1, h2, h3⟩ := h
    simp only [IteS.map, unfold_extends he h1, unfold_extends he h2, unfold_extends he h3]
  | complChoice f g h' =>
    obtain ⟨h1, h2, h3⟩ := h
    simp only [IteS.map, unfold_extends he h1, unfold_extends he h2, unfold_extends he h3]
  | const p => simp only [IteS.map, unfold_extends he h]

/-! ## the four stages of `Ite::new` -/

set_option linter.unusedSectionVars false
section stages
variable {s : Store} (hs : StoreOK s) {f g h : Ref} (hf : f.ValidIn s) (hg : g.ValidIn s) (hh : h.ValidIn s)
include hs hf hg hh

theorem introConstS_valid : V3 s (introConstS f g h) := by
  simp only [introConstS]
  split
  · exact ⟨hf, hg, validIn_fls s⟩
  · split
    · exact ⟨hf, hg, validIn_tru s⟩
    · split
      · exact ⟨hf, validIn_fls s, hh⟩
      · exact ⟨hf, hg, hh⟩

theorem introConstS_map :
    u3 s (introConstS f g h) = introConst (unfold s f) (unfold s g) (unfold s h) := by
  have e1 : (unfold s f = unfold s h) ↔ f = h := unfold_eq_iff hs hf hh
  have e2 : (unfold s f = (unfold s h).neg) ↔ f = h.neg := by
    rw [← unfold_neg]; exact unfold_eq_iff hs hf (validIn_neg hh)
  have e3 : (unfold s f = (unfold s g).neg) ↔ f = g.neg := by
    rw [← unfold_neg]; exact unfold_eq_iff hs hf (validIn_neg hg)
  simp only [introConst, introConstS, e1, e2, e3, u3]
  split
  · simp
  · split
    · simp
    · split <;> simp

theorem terminalS_valid {r : Ref} (hr : terminalS? f g h = some r) : r.ValidIn s := by
  simp only [terminalS?] at hr
  split at hr
  · cases hr; exact hg
  · split at hr
    · cases hr; exact hh
    · split at hr
      · cases hr; exact hf
      · split at hr
        · cases hr; exact validIn_neg hf
        · split at hr
          · cases hr; exact hg
          · cases hr

theorem terminalS_map :
    (terminalS? f g h).map (unfold s) = terminal? (unfold s f) (unfold s g) (unfold s h) := by
  have e1 : (unfold s h = unfold s g) ↔ h = g := unfold_eq_iff hs hh hg
  simp only [terminal?, terminalS?, isTrue_unfold hs hf, isFalse_unfold hs hf, isTrue_unfold hs hg,
    isFalse_unfold hs hg, isTrue_unfold hs hh, isFalse_unfold hs hh, e1, ← unfold_neg]
  split
  · rfl
  · split
    · rfl
    · split
      · rfl
      · split
        · rfl
        · split <;> rfl

theorem reorderS_valid (ord : Ref → Ref → Bool) : V3 s (reorderS ord f g h) := by
  simp only [reorderS]
  split
  · exact ⟨hh, hg, hf⟩
  · split
    · exact ⟨hg, hf, hh⟩
    · split
      · exact ⟨validIn_neg hg, validIn_neg hf, hh⟩
      · split
        · exact ⟨validIn_neg hh, hg, validIn_neg hf⟩
        · split
          · exact ⟨hg, hf, validIn_neg hf⟩
          · exact ⟨hf, hg, hh⟩

theorem reorderS_map (ordT : Ptr → Ptr → Bool) (ord : Ref → Ref → Bool)
    (hord : ∀ a b, ordT (unfold s a) (unfold s b) = ord a b) :
    u3 s (reorderS ord f g h) = reorder ordT (unfold s f) (unfold s g) (unfold s h) := by
  have e1 : (unfold s g = (unfold s h).neg) ↔ g = h.neg := by
    rw [← unfold_neg]; exact unfold_eq_iff hs hg (validIn_neg hh)
  simp only [reorder, reorderS, isTrue_unfold hs hg, isFalse_unfold hs hg, isTrue_unfold hs hh,
    isFalse_unfold hs hh, e1, hord, u3]
  split
  · rfl
  · split
    · rfl
    · split
      · simp only [unfold_neg]
      · split
        · simp only [unfold_neg]
        · split
          · simp only [unfold_neg]
          · rfl

theorem standardiseS_valid : (standardiseS f g h).ValidIn s := by
  simp only [standardiseS]
  split
  · exact ⟨validIn_neg hf, hh, hg⟩
  · split
    · exact ⟨hf, validIn_neg hg, validIn_neg hh⟩
    · split
      · exact ⟨validIn_neg hf, validIn_neg hh, validIn_neg hg⟩
      · exact ⟨hf, hg, hh⟩

theorem standardiseS_map :
    (standardiseS f g h).map (unfold s) = standardise (unfold s f) (unfold s g) (unfold s h) := by
  simp only [standardise, standardiseS, isNeg_unfold hs hf, isNeg_unfold hs hg, isNeg_unfold hs hh]
  split
  · simp only [IteS.map, unfold_neg]
  · split
    · simp only [IteS.map, unfold_neg]
    · split
      · simp only [IteS.map, unfold_neg]
      · rfl

theorem IteS.new_valid (ord : Ref → Ref → Bool) : (IteS.new ord f g h).ValidIn s := by
  have h1 := introConstS_valid hs hf hg hh
  simp only [IteS.new]
  generalize introConstS f g h = t at h1
  obtain ⟨f1, g1, h1'⟩ := t
  obtain ⟨v1, v2, v3⟩ := h1
  simp only at v1 v2 v3 ⊢
  split
  · rename_i r hr; exact terminalS_valid hs v1 v2 v3 hr
  · have h2 := reorderS_valid hs v1 v2 v3 ord
    generalize reorderS ord f1 g1 h1' = t2 at h2
    obtain ⟨f2, g2, h2'⟩ := t2
    obtain ⟨w1, w2, w3⟩ := h2
    exact standardiseS_valid hs w1 w2 w3

/-- **`Ite::new` on references is `Ite::new` on trees** -/
theorem IteS.new_map (ordT : Ptr → Ptr → Bool) (ord : Ref → Ref → Bool)
    (hord : ∀ a b, ordT (unfold s a) (unfold s b) = ord a b) :
    (IteS.new ord f g h).map (unfold s) = Ite.new ordT (unfold s f) (unfold s g) (unfold s h) := by
  have h1 := introConstS_valid hs hf hg hh
  have m1 := introConstS_map hs hf hg hh
  simp only [IteS.new, Ite.new]
  rw [← m1]
  generalize introConstS f g h = t at h1
  obtain ⟨f1, g1, h1'⟩ := t
  obtain ⟨v1, v2, v3⟩ := h1
  simp only [u3] at v1 v2 v3 ⊢
  rw [← terminalS_map hs v1 v2 v3]
  cases terminalS? f1 g1 h1' with
  | some r => rfl
  | none =>
    simp only [Option.map_none]
    have h2 := reorderS_valid hs v1 v2 v3 ord
    rw [← reorderS_map hs v1 v2 v3 ordT ord hord]
    generalize reorderS ord f1 g1 h1' = t2 at h2
    obtain ⟨f2, g2, h2'⟩ := t2
    obtain ⟨w1, w2, w3⟩ := h2
    simp only [u3]
    exact standardiseS_map hs w1 w2 w3

end stages

/-! ## the order closure, `first_essential`, `condition_essential` -/

theorem ordP_top (lvl : Nat → Nat) (P Q : Ptr) : ordP lvl P Q =
    match P.top?, Q.top? with
    | none, _ => true
    | _, none => false
    | some va, some vb => decide (lvl va < lvl vb) := by
  cases P <;> cases Q <;> rfl

theorem ordS_map (lvl : Nat → Nat) (s : Store) (a b : Ref) :
    ordP lvl (unfold s a) (unfold s b) = ordS lvl s a b := by
  rw [ordP_top, top?_unfold, top?_unfold]; rfl

theorem firstS_map (lvl : Nat → Nat) (s : Store) (a b : Ref) :
    first lvl (unfold s a) (unfold s b) = unfold s (firstS lvl s a b) := by
  simp only [first, firstS, top?_unfold]
  cases varOf s a <;> cases varOf s b <;> simp only []
  split <;> rfl

theorem firstEssentialS_map (lvl : Nat → Nat) (s : Store) (a b c : Ref) :
    firstEssential lvl (unfold s a) (unfold s b) (unfold s c) = firstEssentialS lvl s a b c := by
  simp only [firstEssential, firstEssentialS, firstS_map, top?_unfold]

theorem condEssentialS_valid {s : Store} (hs : StoreOK s) {f : Ref} (hf : f.ValidIn s) (x : Nat) (v : Bool) :
    (condEssentialS s f x v).ValidIn s := by
  simp only [condEssentialS]
  split
  · exact hf
  · split
    · exact hf
    · rename_i i _ n hn
      obtain ⟨cl, ch⟩ := hs.child_valid hn
      split
      · exact hf
      · exact validIn_ite (validIn_neg (validIn_ite ch cl)) (validIn_ite ch cl)

theorem condEssentialS_map {s : Store} (hs : StoreOK s) {f : Ref} (hf : f.ValidIn s) (x : Nat) (v : Bool) :
    condEssential (unfold s f) x v = unfold s (condEssentialS s f x v) := by
  rcases valid_cases hs hf with rfl | rfl | ⟨i, n, hi, hn, _, _, hu⟩
  · simp [condEssential, condEssentialS, Ref.idx?]
  · simp [condEssential, condEssentialS, Ref.idx?]
  · simp only [condEssentialS, hi, hn]
    rw [hu]
    simp only [condEssential]
    split
    · exact hu.symm
    · cases v <;> cases f.isNeg <;> simp [unfold_neg]

/-! ## caches -/

/-- every entry a lookup can return has its key and its value in the store -/
def CacheValid (C : CacheS) (s : Store) (c : C.σ) : Prop :=
  ∀ k v, C.get c k = some v → V3 s k ∧ v.ValidIn s

theorem cacheValid_empty (C : CacheS) (s : Store) : CacheValid C s C.empty := by
  intro k v h; rw [C.empty_get] at h; cases h

theorem CacheValid.extends {C : CacheS} {s' s : Store} (he : Extends s' s) {c : C.σ}
    (h : CacheValid C s c) : CacheValid C s' c :=
  fun k v hk => ⟨(h k v hk).1.extends he, validIn_extends he (h k v hk).2⟩

theorem CacheValid.insert {C : CacheS} {s : Store} {c : C.σ} (h : CacheValid C s c) {k : Ref × Ref × Ref}
    {v : Ref} (hk : V3 s k) (hv : v.ValidIn s) : CacheValid C s (C.insert c k v) := by
  intro k' v' hget
  rcases C.lawful _ _ _ _ _ hget with ⟨rfl, rfl⟩ | hold
  · exact ⟨hk, hv⟩
  · exact h k' v' hold

theorem cacheInsertS_valid {C : CacheS} {s : Store} {c : C.σ} (h : CacheValid C s c) {key : IteS}
    {r : Ref} (hk : key.ValidIn s) (hr : r.ValidIn s) : CacheValid C s (cacheInsertS C c key r) := by
  cases key with
  | choice f g h' => exact h.insert (k := (f, g, h')) hk hr
  | complChoice f g h' => exact h.insert (k := (f, g, h')) hk (validIn_neg hr)
  | const p => exact h

theorem cacheGetS_valid {C : CacheS} {s : Store} {c : C.σ} (h : CacheValid C s c) {key : IteS}
    (hk : key.ValidIn s) {v : Ref} (hv : cacheGetS C c key = some v) : v.ValidIn s := by
  cases key with
  | choice f g h' => exact (h _ _ hv).2
  | complChoice f g h' =>
    simp only [cacheGetS, Option.map_eq_some_iff] at hv
    obtain ⟨w, hw, rfl⟩ := hv
    exact validIn_neg (h _ _ hw).2
  | const p => simp only [cacheGetS, Option.some.injEq] at hv; subst hv; exact hk

/-- A simulation between an apply cache keyed by references (`CS`) and one keyed by trees (`CT`),
relative to a store.  `R s c cT`: in store `s`, the tree-level state `cT` is an image of the
reference-level state `c`.  Lookups agree through `unfold`; an insertion at the reference level
is matched by the insertion of the unfolded key and value (backwards: every image of the state
after is the result of inserting into an image of the state before); growing the store changes
no image. -/
structure CacheSim (CS : CacheS) (CT : CacheImpl) where
  R : Store → CS.σ → CT.σ → Prop
  get_eq : ∀ {s : Store} {c : CS.σ} {cT : CT.σ} {k : Ref × Ref × Ref}, StoreOK s → CacheValid CS s c →
    R s c cT → V3 s k → CT.get cT (u3 s k) = (CS.get c k).map (unfold s)
  insert_back : ∀ {s : Store} {c : CS.σ} {cT' : CT.σ} {k : Ref × Ref × Ref} {v : Ref}, StoreOK s →
    CacheValid CS s c → V3 s k → v.ValidIn s → R s (CS.insert c k v) cT' →
    ∃ cT, R s c cT ∧ CT.insert cT (u3 s k) (unfold s v) = cT'
  mono_back : ∀ {s s' : Store} {c : CS.σ} {cT : CT.σ}, StoreOK s → StoreOK s' → Extends s' s →
    CacheValid CS s c → R s' c cT → R s c cT

section sim
variable {CS : CacheS} {CT : CacheImpl} (sim : CacheSim CS CT)

theorem cacheGet_map {s : Store} {c : CS.σ} {cT : CT.σ} (hs : StoreOK s) (hc : CacheValid CS s c)
    (hR : sim.R s c cT) {key : IteS} (hk : key.ValidIn s) :
    cacheGet CT cT (key.map (unfold s)) = (cacheGetS CS c key).map (unfold s) := by
  cases key with
  | choice f g h => exact sim.get_eq hs hc hR (k := (f, g, h)) hk
  | complChoice f g h =>
    have := sim.get_eq hs hc hR (k := (f, g, h)) hk
    simp only [u3] at this
    simp only [cacheGet, cacheGetS, IteS.map, this, Option.map_map]
    congr 1
    funext v; simp [unfold_neg]
  | const p => rfl

theorem cacheInsert_back {s : Store} {c : CS.σ} {cT' : CT.σ} (hs : StoreOK s) (hc : CacheValid CS s c)
    {key : IteS} (hk : key.ValidIn s) {r : Ref} (hr : r.ValidIn s)
    (hR : sim.R s (cacheInsertS CS c key r) cT') :
    ∃ cT, sim.R s c cT ∧ cacheInsert CT cT (key.map (unfold s)) (unfold s r) = cT' := by
  cases key with
  | choice f g h => exact sim.insert_back hs hc (k := (f, g, h)) hk hr hR
  | complChoice f g h =>
    obtain ⟨cT, h1, h2⟩ := sim.insert_back hs hc (k := (f, g, h)) hk (validIn_neg hr) hR
    refine ⟨cT, h1, ?_⟩
    simp only [cacheInsert, IteS.map, ← unfold_neg]; exact h2
  | const p => exact ⟨cT', hR, rfl⟩

end sim

/-! ## one unfolding of the tree-level `ite` -/

theorem ite_succ_eq {C : CacheImpl} {lvl : Nat → Nat} {fuel : Nat} {cT : C.σ} {F G H : Ptr} {key : Ite}
    (hk : Ite.new (ordP lvl) F G H = key) (hnc : ∀ r, key = .const r → False) :
    ite C lvl (fuel + 1) cT F G H =
      match cacheGet C cT key with
      | some v => some (cT, v)
      | none =>
        match firstEssential lvl F G H with
        | none => none
        | some x =>
          match ite C lvl fuel cT (condEssential F x true) (condEssential G x true) (condEssential H x true) with
          | none => none
          | some (s1, t) =>
            match ite C lvl fuel s1 (condEssential F x false) (condEssential G x false) (condEssential H x false) with
            | none => none
            | some (s2, e) =>
              if t = e then some (s2, t)
              else some (cacheInsert C s2 key (mkNode x e t), mkNode x e t) := by
  subst hk
  simp only [Bdd.ite] <;> rfl

theorem ite_succ_const {C : CacheImpl} {lvl : Nat → Nat} {fuel : Nat} {cT : C.σ} {F G H r : Ptr}
    (hk : Ite.new (ordP lvl) F G H = .const r) : ite C lvl (fuel + 1) cT F G H = some (cT, r) := by
  simp only [Bdd.ite, hk]

/-! ## the refinement -/

/-- what a returning store-level call achieves: the table invariant is kept, the table and so
every old reference is untouched (`Extends`), the cache still points into the table, the result
is a valid reference; and for every tree-level image `cT'` of the final cache state there is an
image `cT` of the initial one from which the tree-level call `call` returns `cT'` and exactly the
unfolding of the result. -/
def Refines {CS : CacheS} {CT : CacheImpl} (sim : CacheSim CS CT) (st st' : Store × CS.σ) (r : Ref)
    (call : CT.σ → Option (CT.σ × Ptr)) : Prop :=
  (StoreOK st'.1 ∧ Extends st'.1 st.1 ∧ CacheValid CS st'.1 st'.2 ∧ r.ValidIn st'.1) ∧
  ∀ cT', sim.R st'.1 st'.2 cT' → ∃ cT, sim.R st.1 st.2 cT ∧ call cT = some (cT', unfold st'.1 r)

/-- **the store-level `ite_helper` refines the tree-level one**, for every pair of caches related
by a `CacheSim`, every level map and every fuel -/
theorem iteS_refines {CS : CacheS} {CT : CacheImpl} (sim : CacheSim CS CT) (lvl : Nat → Nat) :
    ∀ (fuel : Nat) (st : Store × CS.σ) (f g h : Ref) (st' : Store × CS.σ) (r : Ref),
      StoreOK st.1 → CacheValid CS st.1 st.2 → f.ValidIn st.1 → g.ValidIn st.1 → h.ValidIn st.1 →
      iteS CS lvl fuel st f g h = some (st', r) →
      Refines sim st st' r (fun cT => ite CT lvl fuel cT (unfold st.1 f) (unfold st.1 g) (unfold st.1 h)) := by
  intro fuel
  induction fuel with
  | zero => intro st f g h st' r _ _ _ _ _ hrun; simp [iteS] at hrun
  | succ n ih =>
    intro st f g h st' r hs hc hf hg hh hrun
    obtain ⟨s, c⟩ := st
    simp only at hs hc hf hg hh
    unfold Refines
    simp only
    have hkT := IteS.new_map hs hf hg hh (ordP lvl) (ordS lvl s) (ordS_map lvl s)
    have hkV := IteS.new_valid hs hf hg hh (ordS lvl s)
    simp only [iteS] at hrun
    generalize IteS.new (ordS lvl s) f g h = key at hrun hkT hkV
    split at hrun
    · -- constant triple
      rename_i r0
      simp only [Option.some.injEq, Prod.mk.injEq] at hrun
      obtain ⟨rfl, rfl⟩ := hrun
      refine ⟨⟨hs, Extends.refl _, hc, hkV⟩, fun cT' hR => ⟨cT', hR, ?_⟩⟩
      exact ite_succ_const hkT.symm
    · rename_i hnc
      have hncT : ∀ R, key.map (unfold s) = .const R → False := by
        intro R hR
        cases key with
        | const p => exact hnc p rfl
        | choice _ _ _ => cases hR
        | complChoice _ _ _ => cases hR
      split at hrun
      · -- cache hit
        rename_i v hv
        simp only [Option.some.injEq, Prod.mk.injEq] at hrun
        obtain ⟨rfl, rfl⟩ := hrun
        refine ⟨⟨hs, Extends.refl _, hc, cacheGetS_valid hc hkV hv⟩, fun cT' hR => ⟨cT', hR, ?_⟩⟩
        rw [ite_succ_eq hkT.symm hncT, cacheGet_map sim hs hc hR hkV, hv]
        rfl
      · rename_i hmiss
        split at hrun
        · cases hrun
        · rename_i x hx
          split at hrun
          · cases hrun
          · rename_i st1 t ht
            split at hrun
            · cases hrun
            · rename_i st2 e he
              obtain ⟨s1, c1⟩ := st1
              obtain ⟨s2, c2⟩ := st2
              simp only at hx ht he hrun hmiss
              -- the two recursive calls
              have vT := fun (p : Ref) (hp : p.ValidIn s) => condEssentialS_valid hs hp x true
              have vE := fun (p : Ref) (hp : p.ValidIn s) => condEssentialS_valid hs hp x false
              obtain ⟨⟨hs1, ext1, hc1, tv⟩, simT⟩ := ih (s, c) _ _ _ _ _ hs hc (vT f hf) (vT g hg) (vT h hh) ht
              simp only at hs1 ext1 hc1 tv simT
              obtain ⟨⟨hs2, ext2, hc2, ev⟩, simE⟩ := ih (s1, c1) _ _ _ _ _ hs1 hc1
                (validIn_extends ext1 (vE f hf)) (validIn_extends ext1 (vE g hg))
                (validIn_extends ext1 (vE h hh)) he
              simp only at hs2 ext2 hc2 ev simE
              rw [unfold_extends ext1 (vE f hf), unfold_extends ext1 (vE g hg),
                unfold_extends ext1 (vE h hh)] at simE
              simp only [← condEssentialS_map hs hf, ← condEssentialS_map hs hg,
                ← condEssentialS_map hs hh] at simT simE
              have tv2 : t.ValidIn s2 := validIn_extends ext2 tv
              have hte : (unfold s1 t = unfold s2 e) ↔ t = e := by
                rw [← unfold_extends ext2 tv]; exact unfold_eq_iff hs2 tv2 ev
              have hfe : firstEssential lvl (unfold s f) (unfold s g) (unfold s h) = some x := by
                rw [firstEssentialS_map]; exact hx
              split at hrun
              · -- both branches equal: no node
                rename_i hEq
                simp only [Option.some.injEq, Prod.mk.injEq] at hrun
                obtain ⟨rfl, rfl⟩ := hrun
                refine ⟨⟨hs2, ext2.trans ext1, hc2, tv2⟩, fun cT' hR => ?_⟩
                obtain ⟨cT1, hR1, run2⟩ := simE cT' hR
                obtain ⟨cT0, hR0, run1⟩ := simT cT1 hR1
                refine ⟨cT0, hR0, ?_⟩
                rw [ite_succ_eq hkT.symm hncT, cacheGet_map sim hs hc hR0 hkV, hmiss]
                simp only [Option.map_none, hfe, run1, run2, if_pos (hte.2 hEq)]
                rw [unfold_extends ext2 tv]
              · -- a new node
                rename_i hNe
                simp only [Option.some.injEq, Prod.mk.injEq] at hrun
                obtain ⟨rfl, rfl⟩ := hrun
                obtain ⟨hs3, ext3, rv, ru⟩ := getOrInsert_spec hs2 (x := x) ev tv2
                have ext03 := ext3.trans (ext2.trans ext1)
                have hc3 : CacheValid CS (mkNodeS s2 x e t).1 c2 := hc2.extends ext3
                have hkV3 := hkV.extends ext03
                refine ⟨⟨hs3, ext03, cacheInsertS_valid hc3 hkV3 rv, rv⟩, fun cT' hR => ?_⟩
                simp only [mkNodeS] at hR hc3 ⊢
                obtain ⟨cT2, hR2, hins⟩ := cacheInsert_back sim hs3 hc3 hkV3 rv hR
                have hR2' := sim.mono_back hs2 hs3 ext3 hc2 hR2
                obtain ⟨cT1, hR1, run2⟩ := simE cT2 hR2'
                obtain ⟨cT0, hR0, run1⟩ := simT cT1 hR1
                refine ⟨cT0, hR0, ?_⟩
                rw [ite_succ_eq hkT.symm hncT, cacheGet_map sim hs hc hR0 hkV, hmiss]
                simp only [Option.map_none, hfe, run1, run2, if_neg (fun e' => hNe (hte.1 e'))]
                rw [IteS.map_extends ext03 hkV, ru, unfold_extends ext2 tv] at hins
                rw [ru, unfold_extends ext2 tv, hins]

/-- the table stays reduced (`lo ≠ hi`, regular non-false high edge) along `iteS` -/
theorem iteS_red (CS : CacheS) (lvl : Nat → Nat) :
    ∀ (fuel : Nat) (st : Store × CS.σ) (f g h : Ref) (st' : Store × CS.σ) (r : Ref),
      StoreRed st.1 → iteS CS lvl fuel st f g h = some (st', r) → StoreRed st'.1 := by
  intro fuel
  induction fuel with
  | zero => intro st f g h st' r _ hrun; simp [iteS] at hrun
  | succ n ih =>
    intro st f g h st' r hr hrun
    simp only [iteS] at hrun
    split at hrun
    · simp only [Option.some.injEq, Prod.mk.injEq] at hrun; obtain ⟨rfl, rfl⟩ := hrun; exact hr
    · split at hrun
      · simp only [Option.some.injEq, Prod.mk.injEq] at hrun; obtain ⟨rfl, rfl⟩ := hrun; exact hr
      · split at hrun
        · cases hrun
        · split at hrun
          · cases hrun
          · rename_i st1 t ht
            split at hrun
            · cases hrun
            · rename_i st2 e he
              have r2 := ih _ _ _ _ _ _ (ih _ _ _ _ _ _ hr ht) he
              split at hrun
              · simp only [Option.some.injEq, Prod.mk.injEq] at hrun; obtain ⟨rfl, rfl⟩ := hrun; exact r2
              · rename_i hne
                simp only [Option.some.injEq, Prod.mk.injEq] at hrun; obtain ⟨rfl, rfl⟩ := hrun
                exact getOrInsert_red r2 (fun e' => hne e'.symm)

/-! ## the derived operations -/

section ops
variable {CS : CacheS} {CT : CacheImpl} (sim : CacheSim CS CT) (lvl : Nat → Nat) (fuel : Nat)
  {st st' : Store × CS.σ} {f g r : Ref}

theorem andS_refines (hs : StoreOK st.1) (hc : CacheValid CS st.1 st.2) (hf : f.ValidIn st.1)
    (hg : g.ValidIn st.1) (hrun : andS CS lvl fuel st f g = some (st', r)) :
    Refines sim st st' r (fun cT => bAnd CT lvl fuel cT (unfold st.1 f) (unfold st.1 g)) := by
  have := iteS_refines sim lvl fuel st f g .fls st' r hs hc hf hg (validIn_fls _) hrun
  simpa only [unfold_fls, bAnd] using this

theorem iffS_refines (hs : StoreOK st.1) (hc : CacheValid CS st.1 st.2) (hf : f.ValidIn st.1)
    (hg : g.ValidIn st.1) (hrun : iffS CS lvl fuel st f g = some (st', r)) :
    Refines sim st st' r (fun cT => bIff CT lvl fuel cT (unfold st.1 f) (unfold st.1 g)) := by
  have := iteS_refines sim lvl fuel st f g g.neg st' r hs hc hf hg (validIn_neg hg) hrun
  simpa only [unfold_neg, bIff] using this

theorem xorS_refines (hs : StoreOK st.1) (hc : CacheValid CS st.1 st.2) (hf : f.ValidIn st.1)
    (hg : g.ValidIn st.1) (hrun : xorS CS lvl fuel st f g = some (st', r)) :
    Refines sim st st' r (fun cT => bXor CT lvl fuel cT (unfold st.1 f) (unfold st.1 g)) := by
  have := iteS_refines sim lvl fuel st f g.neg g st' r hs hc hf (validIn_neg hg) hg hrun
  simpa only [unfold_neg, bXor] using this

theorem orS_refines (hs : StoreOK st.1) (hc : CacheValid CS st.1 st.2) (hf : f.ValidIn st.1)
    (hg : g.ValidIn st.1) (hrun : orS CS lvl fuel st f g = some (st', r)) :
    Refines sim st st' r (fun cT => bOr CT lvl fuel cT (unfold st.1 f) (unfold st.1 g)) := by
  simp only [orS] at hrun
  split at hrun
  · rename_i st1 r1 h1
    simp only [Option.some.injEq, Prod.mk.injEq] at hrun
    obtain ⟨rfl, rfl⟩ := hrun
    obtain ⟨⟨a1, a2, a3, a4⟩, hsim⟩ := andS_refines sim lvl fuel hs hc (validIn_neg hf) (validIn_neg hg) h1
    refine ⟨⟨a1, a2, a3, validIn_neg a4⟩, fun cT' hR => ?_⟩
    obtain ⟨cT, hR0, hcall⟩ := hsim cT' hR
    refine ⟨cT, hR0, ?_⟩
    simp only [unfold_neg] at hcall
    simp only [bOr, hcall, unfold_neg]
  · cases hrun

theorem andLstS_refines : ∀ (ps : List Ref) {st st' : Store × CS.σ} {acc r : Ref}, StoreOK st.1 →
    CacheValid CS st.1 st.2 → acc.ValidIn st.1 → (∀ p ∈ ps, p.ValidIn st.1) →
    andLstS CS lvl fuel st acc ps = some (st', r) →
    Refines sim st st' r (fun cT => bAndLst CT lvl fuel cT (unfold st.1 acc) (ps.map (unfold st.1)))
  | [], st, st', acc, r, hs, hc, ha, _, hrun => by
    simp only [andLstS, Option.some.injEq, Prod.mk.injEq] at hrun
    obtain ⟨rfl, rfl⟩ := hrun
    exact ⟨⟨hs, Extends.refl _, hc, ha⟩, fun cT' hR => ⟨cT', hR, rfl⟩⟩
  | p :: ps, st, st', acc, r, hs, hc, ha, hps, hrun => by
    simp only [andLstS] at hrun
    split at hrun
    · cases hrun
    · rename_i st1 r1 h1
      obtain ⟨⟨a1, a2, a3, a4⟩, sim1⟩ :=
        andS_refines sim lvl fuel hs hc ha (hps p (List.mem_cons_self ..)) h1
      have hps1 : ∀ q ∈ ps, q.ValidIn st1.1 :=
        fun q hq => validIn_extends a2 (hps q (List.mem_cons_of_mem _ hq))
      obtain ⟨⟨b1, b2, b3, b4⟩, sim2⟩ := andLstS_refines ps a1 a3 a4 hps1 hrun
      refine ⟨⟨b1, b2.trans a2, b3, b4⟩, fun cT' hR => ?_⟩
      obtain ⟨cT1, hR1, run2⟩ := sim2 cT' hR
      obtain ⟨cT0, hR0, run1⟩ := sim1 cT1 hR1
      refine ⟨cT0, hR0, ?_⟩
      have hmap : ps.map (unfold st1.1) = ps.map (unfold st.1) :=
        List.map_congr_left fun q hq => unfold_extends a2 (hps q (List.mem_cons_of_mem _ hq))
      simp only [List.map_cons, bAndLst, run1]
      rw [← hmap]; exact run2

theorem orLstS_refines : ∀ (ps : List Ref) {st st' : Store × CS.σ} {acc r : Ref}, StoreOK st.1 →
    CacheValid CS st.1 st.2 → acc.ValidIn st.1 → (∀ p ∈ ps, p.ValidIn st.1) →
    orLstS CS lvl fuel st acc ps = some (st', r) →
    Refines sim st st' r (fun cT => bOrLst CT lvl fuel cT (unfold st.1 acc) (ps.map (unfold st.1)))
  | [], st, st', acc, r, hs, hc, ha, _, hrun => by
    simp only [orLstS, Option.some.injEq, Prod.mk.injEq] at hrun
    obtain ⟨rfl, rfl⟩ := hrun
    exact ⟨⟨hs, Extends.refl _, hc, ha⟩, fun cT' hR => ⟨cT', hR, rfl⟩⟩
  | p :: ps, st, st', acc, r, hs, hc, ha, hps, hrun => by
    simp only [orLstS] at hrun
    split at hrun
    · cases hrun
    · rename_i st1 r1 h1
      obtain ⟨⟨a1, a2, a3, a4⟩, sim1⟩ :=
        orS_refines sim lvl fuel hs hc ha (hps p (List.mem_cons_self ..)) h1
      have hps1 : ∀ q ∈ ps, q.ValidIn st1.1 :=
        fun q hq => validIn_extends a2 (hps q (List.mem_cons_of_mem _ hq))
      obtain ⟨⟨b1, b2, b3, b4⟩, sim2⟩ := orLstS_refines ps a1 a3 a4 hps1 hrun
      refine ⟨⟨b1, b2.trans a2, b3, b4⟩, fun cT' hR => ?_⟩
      obtain ⟨cT1, hR1, run2⟩ := sim2 cT' hR
      obtain ⟨cT0, hR0, run1⟩ := sim1 cT1 hR1
      refine ⟨cT0, hR0, ?_⟩
      have hmap : ps.map (unfold st1.1) = ps.map (unfold st.1) :=
        List.map_congr_left fun q hq => unfold_extends a2 (hps q (List.mem_cons_of_mem _ hq))
      simp only [List.map_cons, bOrLst, run1]
      rw [← hmap]; exact run2

end ops

/-! ## nodes, variables, negation -/

theorem mkNodeS_spec {s : Store} (hs : StoreOK s) {x : Nat} {lo hi : Ref}
    (hl : lo.ValidIn s) (hh : hi.ValidIn s) :
    StoreOK (mkNodeS s x lo hi).1 ∧ Extends (mkNodeS s x lo hi).1 s ∧
    (mkNodeS s x lo hi).2.ValidIn (mkNodeS s x lo hi).1 ∧
    unfold (mkNodeS s x lo hi).1 (mkNodeS s x lo hi).2 = mkNode x (unfold s lo) (unfold s hi) :=
  getOrInsert_spec hs hl hh

/-- the reducing constructor: the pointer test `lo == hi` is the tree test `lo = hi` -/
theorem mkReducedS_spec {s : Store} (hs : StoreOK s) {x : Nat} {lo hi : Ref}
    (hl : lo.ValidIn s) (hh : hi.ValidIn s) :
    StoreOK (mkReducedS s x lo hi).1 ∧ Extends (mkReducedS s x lo hi).1 s ∧
    (mkReducedS s x lo hi).2.ValidIn (mkReducedS s x lo hi).1 ∧
    unfold (mkReducedS s x lo hi).1 (mkReducedS s x lo hi).2 =
      (if unfold s lo = unfold s hi then unfold s lo else mkNode x (unfold s lo) (unfold s hi)) := by
  simp only [mkReducedS, unfold_eq_iff hs hl hh]
  split
  · exact ⟨hs, Extends.refl _, hl, rfl⟩
  · exact mkNodeS_spec hs hl hh

theorem negS_spec (s : Store) (r : Ref) : unfold s (negS r) = (unfold s r).neg := unfold_neg s r

theorem varS_spec {s : Store} (hs : StoreOK s) (x : Nat) (pol : Bool) :
    StoreOK (varS s x pol).1 ∧ Extends (varS s x pol).1 s ∧ (varS s x pol).2.ValidIn (varS s x pol).1 ∧
    unfold (varS s x pol).1 (varS s x pol).2 = mkVar x pol := by
  obtain ⟨h1, h2, h3, h4⟩ := mkNodeS_spec hs (x := x) (validIn_fls s) (validIn_tru s)
  simp only [unfold_fls, unfold_tru] at h4
  simp only [varS, mkVar]
  refine ⟨h1, h2, ?_, ?_⟩
  · cases pol
    · exact validIn_neg h3
    · exact h3
  · cases pol
    · simp only [Bool.false_eq_true, if_false, unfold_neg, h4]
    · simp only [if_true, h4]

theorem varS_red {s : Store} (hr : StoreRed s) (x : Nat) (pol : Bool) : StoreRed (varS s x pol).1 := by
  simp only [varS, mkNodeS]
  exact getOrInsert_red hr (by decide)

#print axioms unfold_inj
#print axioms refOf_unfold
#print axioms IteS.new_map
#print axioms iteS_refines
end BddStore
