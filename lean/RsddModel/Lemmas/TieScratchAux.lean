import RsddModel.Model.Scratch
/-!
# Support definitions for the translator route of the per-node scratch mechanism
(`tools/gen_scratch.py` ↦ `Model/GenScratch.lean`, tied in `Props/TieScratch.lean`)

The Rust functions of `src/repr/bdd.rs` work on a `BddPtr`, i.e. on a pointer whose node can be
read (`Compl(node) | Reg(node) => … node.low … node.data …`).  The hand-written model
(`Model/Scratch.lean`) addresses nodes by index and resolves them by a structural recursion on the
store.  The bridge used by the generated definitions is

* `PV` — a *resolved* pointer: what `match self { PtrTrue, PtrFalse, Reg(node), Compl(node) }`
  sees, the node together with its index (the index addresses the `data` cell);
* `knot step dflt` — the store recursion of the model with the body of the recursive Rust function
  (`step`, regenerated from the source, recursive calls abstracted as its first argument) plugged in;
* `knot_eq` — a function that satisfies the two defining equations of `knot step dflt` *is*
  `knot step dflt`: every tie of a traversal reduces to two non-recursive equations.

Nothing here mentions the generated definitions.
-/
namespace Scratch.Tr
open Scratch

/-- a `BddPtr` as the Rust sees it: constants, or a node (with the index of its `data` cell) behind
a regular / complemented edge -/
inductive PV where
  | tru | fls
  | reg (n : Node) (i : Nat)
  | compl (n : Node) (i : Nat)
deriving Repr, Inhabited

/-- back to the reference -/
def PV.ref : PV → Ref
  | .tru => .tru | .fls => .fls | .reg _ i => .reg i | .compl _ i => .compl i

/-- the view of a reference whose node is `n` -/
def PV.node (r : Ref) (n : Node) : PV :=
  match r with
  | .tru => .tru | .fls => .fls | .reg i => .reg n i | .compl i => .compl n i

/-- the view of a constant; a dangling reference is read as a constant exactly as in
`Ref.leafPtr` / `Alg.leaf` of the model -/
def PV.const (r : Ref) : PV :=
  match r with
  | .tru | .compl _ => .tru
  | .fls | .reg _ => .fls

/-- The store recursion of `Model/Scratch.lean` (`foldDag`, `bddFoldDag`, `clearScratch`, `countH` all
have this shape) around the body `step` of a recursive Rust function.  `dflt` is what a recursive
call made from a constant would return; no translated body makes such a call. -/
def knot {S R : Type} (step : (Ref → S → R) → PV → S → R) (dflt : Ref → S → R) : Store → Ref → S → R
  | [], r, σ => step dflt (PV.const r) σ
  | n :: rest, r, σ =>
    match r.idx? with
    | none => step dflt (PV.const r) σ
    | some i =>
      if i = rest.length then step (knot step dflt rest) (PV.node r n) σ
      else knot step dflt rest r σ

/-- uniqueness: the two equations determine the function -/
theorem knot_eq {S R : Type} (step : (Ref → S → R) → PV → S → R) (dflt : Ref → S → R)
    (g : Store → Ref → S → R)
    (hnil : ∀ r σ, g [] r σ = step dflt (PV.const r) σ)
    (hcons : ∀ n rest r σ, g (n :: rest) r σ =
      match r.idx? with
      | none => step dflt (PV.const r) σ
      | some i => if i = rest.length then step (g rest) (PV.node r n) σ else g rest r σ) :
    knot step dflt = g := by
  funext s
  induction s with
  | nil => funext r σ; rw [hnil]; rfl
  | cons n rest ih => funext r σ; rw [hcons, ← ih]; rfl

/-- the `VarSet` of a `DDNNF::Or` made by a BDD holds one variable; `DDNNF.or` of the model keeps
that variable.  `VarSet::new()` ↦ `[]`, `insert(x)` ↦ `· ++ [x]`. -/
def theVar (vs : List Nat) : Nat := vs.headD 0

/-! ## the accessors of a resolved pointer (`panic!` on a constant ↦ `default`, outside every
theorem's hypotheses) -/

/-- `BddPtr::is_const` -/
def isConst (r : Ref) : Bool := r.idx?.isNone
/-- `BddPtr::low`: the complement is pushed to the child -/
def low : PV → Ref
  | .compl n _ => n.lo.neg | .reg n _ => n.lo | _ => default
/-- `BddPtr::high` -/
def high : PV → Ref
  | .compl n _ => n.hi.neg | .reg n _ => n.hi | _ => default
/-- `BddPtr::low_raw` -/
def lowRaw : PV → Ref
  | .compl n _ => n.lo | .reg n _ => n.lo | _ => default
/-- `BddPtr::high_raw` -/
def highRaw : PV → Ref
  | .compl n _ => n.hi | .reg n _ => n.hi | _ => default

theorem low_node (r : Ref) (n : Node) (i : Nat) (h : r.idx? = some i) :
    low (PV.node r n) = if r.isNeg then n.lo.neg else n.lo := by cases r <;> simp [Ref.idx?] at h <;> rfl
theorem high_node (r : Ref) (n : Node) (i : Nat) (h : r.idx? = some i) :
    high (PV.node r n) = if r.isNeg then n.hi.neg else n.hi := by cases r <;> simp [Ref.idx?] at h <;> rfl
theorem lowRaw_node (r : Ref) (n : Node) (i : Nat) (h : r.idx? = some i) :
    lowRaw (PV.node r n) = n.lo := by cases r <;> simp [Ref.idx?] at h <;> rfl
theorem highRaw_node (r : Ref) (n : Node) (i : Nat) (h : r.idx? = some i) :
    highRaw (PV.node r n) = n.hi := by cases r <;> simp [Ref.idx?] at h <;> rfl
theorem ref_node (r : Ref) (n : Node) : (PV.node r n).ref = r := by cases r <;> rfl

/-! ## literal mirrors of the four scratch primitives (the model uses `Cell.isSome`, `Cell.asPair`,
`Scr.set` directly on the cell of the node's index) -/

section
variable {Tag : Type} {U : Tag → Type}

/-- `is_scratch_cleared` -/
def isScratchCleared (σ : Scr U) (pv : PV) : Bool :=
  match pv.ref.idx? with
  | some i => !(σ i).isSome
  | none => true

/-- `scratch::<T>()`; `cast` is the downcast to `T` -/
def scratch {X : Type} (cast : Cell U → Option X) (σ : Scr U) (pv : PV) : Option X :=
  match pv.ref.idx? with
  | some i => if (σ i).isSome then cast (σ i) else none
  | none => none

/-- `set_scratch::<T>(v)`; `box` is `Some(Box::new(·))` at type `T` -/
def setScratch {X : Type} (box : X → Cell U) (σ : Scr U) (pv : PV) (v : X) : Scr U :=
  match pv.ref.idx? with
  | some i => σ.set i (box v)
  | none => σ

/-- a downcast never succeeds on an empty cell -/
def CastOK {X : Type} (cast : Cell U → Option X) : Prop := cast .empty = none

theorem scratch_node {X : Type} (cast : Cell U → Option X) (h : CastOK cast) (σ : Scr U) (r : Ref) (n : Node)
    (i : Nat) (hi : r.idx? = some i) : scratch cast σ (PV.node r n) = cast (σ i) := by
  cases r <;> simp [Ref.idx?] at hi <;> subst hi <;> simp only [scratch, PV.node, PV.ref, Ref.idx?]
  all_goals
    cases hc : σ _ <;> simp [Cell.isSome]
    exact h.symm

theorem scratch_reg {X : Type} (cast : Cell U → Option X) (h : CastOK cast) (σ : Scr U) (n : Node) (i : Nat) :
    scratch cast σ (.reg n i) = cast (σ i) := scratch_node cast h σ (.reg i) n i rfl
theorem scratch_compl {X : Type} (cast : Cell U → Option X) (h : CastOK cast) (σ : Scr U) (n : Node) (i : Nat) :
    scratch cast σ (.compl n i) = cast (σ i) := scratch_node cast h σ (.compl i) n i rfl

theorem isScratchCleared_node (σ : Scr U) (r : Ref) (n : Node) (i : Nat) (hi : r.idx? = some i) :
    isScratchCleared σ (PV.node r n) = !(σ i).isSome := by
  cases r <;> simp [Ref.idx?] at hi <;> subst hi <;> rfl

theorem setScratch_node {X : Type} (box : X → Cell U) (σ : Scr U) (r : Ref) (n : Node) (i : Nat) (v : X)
    (hi : r.idx? = some i) : setScratch box σ (PV.node r n) v = σ.set i (box v) := by
  cases r <;> simp [Ref.idx?] at hi <;> subst hi <;> rfl

theorem castOK_asCount : CastOK (Cell.asCount (U := U)) := rfl
theorem castOK_asPtr : CastOK (Cell.asPtr (U := U)) := rfl
theorem castOK_asPair [DecidableEq Tag] (t : Tag) : CastOK (Cell.asPair (U := U) t) := rfl

end

end Scratch.Tr
