import RsddModel.Model.VTree
/-!
# Lemmas: dtrees (`DTree.fromCnf`) and the vtree derived from a dtree (`VTree.fromDtree`), C14
-/
namespace VT
open Spec

/-- `x` occurs in the CNF -/
def Occurs (x : Nat) (cs : Spec.Cnf) : Prop := ∃ c ∈ cs, ∃ l ∈ c, l.var = x

/-- strictly ascending -/
def VarSet.Sorted (l : List Nat) : Prop := l.Pairwise (· < ·)

/-! ## VarSet algebra -/

theorem VarSet.mem_insert {x y : Nat} {s : List Nat} :
    y ∈ VarSet.insert x s ↔ y = x ∨ y ∈ s := by
  induction s with
  | nil => simp [VarSet.insert]
  | cons z zs ih =>
    unfold VarSet.insert
    by_cases h1 : x < z
    · simp [h1]
    · by_cases h2 : x = z
      · subst h2; simp
      · simp only [h1, h2, if_false, List.mem_cons, ih]
        constructor
        · rintro (h | h | h)
          · exact Or.inr (Or.inl h)
          · exact Or.inl h
          · exact Or.inr (Or.inr h)
        · rintro (h | h | h)
          · exact Or.inr (Or.inl h)
          · exact Or.inl h
          · exact Or.inr (Or.inr h)

theorem VarSet.sorted_insert {x : Nat} {s : List Nat} (h : VarSet.Sorted s) :
    VarSet.Sorted (VarSet.insert x s) := by
  unfold VarSet.Sorted at *
  induction s with
  | nil => simp [VarSet.insert]
  | cons z zs ih =>
    have hz := List.pairwise_cons.1 h
    unfold VarSet.insert
    by_cases h1 : x < z
    · simp only [h1, if_true]
      refine List.pairwise_cons.2 ⟨?_, h⟩
      intro a ha
      rcases List.mem_cons.1 ha with rfl | ha
      · exact h1
      · exact Nat.lt_trans h1 (hz.1 a ha)
    · by_cases h2 : x = z
      · subst h2; simpa using h
      · simp only [h1, h2, if_false]
        refine List.pairwise_cons.2 ⟨?_, ih hz.2⟩
        intro a ha
        rcases VarSet.mem_insert.1 ha with rfl | ha
        · omega
        · exact hz.1 a ha

/-- inserting an element that is already there does nothing -/
theorem VarSet.insert_of_mem {x : Nat} {s : List Nat} (h : VarSet.Sorted s) (hx : x ∈ s) :
    VarSet.insert x s = s := by
  unfold VarSet.Sorted at *
  induction s with
  | nil => cases hx
  | cons z zs ih =>
    have hz := List.pairwise_cons.1 h
    unfold VarSet.insert
    by_cases h2 : x = z
    · subst h2; simp
    · have hx' : x ∈ zs := by
        rcases List.mem_cons.1 hx with h' | h'
        · exact absurd h' h2
        · exact h'
      have : z < x := hz.1 x hx'
      have h1 : ¬ x < z := by omega
      simp only [h1, h2, if_false, ih hz.2 hx']

theorem VarSet.mem_union {a b : List Nat} {x : Nat} :
    x ∈ VarSet.union a b ↔ x ∈ a ∨ x ∈ b := by
  unfold VarSet.union
  induction b generalizing a with
  | nil => simp
  | cons y ys ih =>
    simp only [List.foldl_cons, ih, VarSet.mem_insert, List.mem_cons]
    constructor
    · rintro ((h | h) | h)
      · exact Or.inr (Or.inl h)
      · exact Or.inl h
      · exact Or.inr (Or.inr h)
    · rintro (h | h | h)
      · exact Or.inl (Or.inr h)
      · exact Or.inl (Or.inl h)
      · exact Or.inr h

theorem VarSet.sorted_union {a b : List Nat} (h : VarSet.Sorted a) :
    VarSet.Sorted (VarSet.union a b) := by
  unfold VarSet.union
  induction b generalizing a with
  | nil => simpa using h
  | cons y ys ih =>
    simp only [List.foldl_cons]
    exact ih (VarSet.sorted_insert h)

@[simp] theorem VarSet.union_nil (a : List Nat) : VarSet.union a [] = a := rfl

theorem VarSet.mem_inter {a b : List Nat} {x : Nat} :
    x ∈ VarSet.inter a b ↔ x ∈ a ∧ x ∈ b := by
  simp [VarSet.inter, List.mem_filter]

theorem VarSet.mem_minus {a b : List Nat} {x : Nat} :
    x ∈ VarSet.minus a b ↔ x ∈ a ∧ x ∉ b := by
  simp [VarSet.minus, List.mem_filter]

theorem VarSet.sorted_inter {a b : List Nat} (h : VarSet.Sorted a) :
    VarSet.Sorted (VarSet.inter a b) :=
  List.Pairwise.filter _ h

theorem VarSet.sorted_minus {a b : List Nat} (h : VarSet.Sorted a) :
    VarSet.Sorted (VarSet.minus a b) :=
  List.Pairwise.filter _ h

theorem VarSet.Sorted.nodup {l : List Nat} (h : VarSet.Sorted l) : l.Nodup :=
  List.Pairwise.imp (fun {a b} (hab : a < b) => Nat.ne_of_lt hab) h

/-! ## clause variable sets -/

/-- the variable set of a clause, as `init_vars` computes it on a fresh leaf -/
def clauseVars (c : Spec.Clause) : List Nat := c.foldl (fun s l => VarSet.insert l.var s) []

theorem mem_foldl_insert {c : Spec.Clause} {s : List Nat} {x : Nat} :
    x ∈ c.foldl (fun s l => VarSet.insert l.var s) s ↔ x ∈ s ∨ ∃ l ∈ c, l.var = x := by
  induction c generalizing s with
  | nil => simp
  | cons l ls ih =>
    simp only [List.foldl_cons, ih, VarSet.mem_insert, List.mem_cons]
    constructor
    · rintro ((h | h) | ⟨l', h1, h2⟩)
      · exact Or.inr ⟨l, Or.inl rfl, h.symm⟩
      · exact Or.inl h
      · exact Or.inr ⟨l', Or.inr h1, h2⟩
    · rintro (h | ⟨l', h1 | h1, h2⟩)
      · exact Or.inl (Or.inr h)
      · subst h1; exact Or.inl (Or.inl h2.symm)
      · exact Or.inr ⟨l', h1, h2⟩

theorem sorted_foldl_insert {c : Spec.Clause} {s : List Nat} (h : VarSet.Sorted s) :
    VarSet.Sorted (c.foldl (fun s l => VarSet.insert l.var s) s) := by
  induction c generalizing s with
  | nil => simpa using h
  | cons l ls ih => simp only [List.foldl_cons]; exact ih (VarSet.sorted_insert h)

/-- folding in variables that are all already there does nothing -/
theorem foldl_insert_of_subset {c : Spec.Clause} {s : List Nat} (h : VarSet.Sorted s)
    (hs : ∀ l ∈ c, l.var ∈ s) : c.foldl (fun s l => VarSet.insert l.var s) s = s := by
  induction c with
  | nil => rfl
  | cons l ls ih =>
    simp only [List.foldl_cons]
    rw [VarSet.insert_of_mem h (hs l (List.mem_cons_self ..))]
    exact ih (fun l' hl' => hs l' (List.mem_cons_of_mem _ hl'))

theorem mem_clauseVars {c : Spec.Clause} {x : Nat} : x ∈ clauseVars c ↔ ∃ l ∈ c, l.var = x := by
  simp [clauseVars, mem_foldl_insert]

theorem sorted_clauseVars (c : Spec.Clause) : VarSet.Sorted (clauseVars c) :=
  sorted_foldl_insert (List.Pairwise.nil)

theorem foldl_insert_clauseVars (c : Spec.Clause) :
    c.foldl (fun s l => VarSet.insert l.var s) (clauseVars c) = clauseVars c :=
  foldl_insert_of_subset (sorted_clauseVars c) (fun l hl => mem_clauseVars.2 ⟨l, hl, rfl⟩)

/-! ## dtree invariants -/

/-- every leaf's `vars` is its clause's variable set, every node's `vars` is the union of its
children's -/
def DTree.VarsOk : DTree → Prop
  | .leaf c _ vs => vs = clauseVars c
  | .node l r _ vs => vs = VarSet.union l.vars r.vars ∧ DTree.VarsOk l ∧ DTree.VarsOk r

/-- `anc` = union of the cutsets of the proper ancestors; every node's cutset is
`(vars l ∩ vars r) \ anc`, every leaf's is `vars \ anc` (as `gen_cutset` defines it for leaves) -/
def DTree.CutsOk (anc : List Nat) : DTree → Prop
  | .leaf _ cut vs => cut = VarSet.minus vs anc
  | .node l r cut _ => cut = VarSet.minus (VarSet.inter l.vars r.vars) anc ∧
      DTree.CutsOk (VarSet.union anc cut) l ∧ DTree.CutsOk (VarSet.union anc cut) r

/-- every leaf's `vars` is its clause's variable set (nothing is said about inner nodes) -/
def DTree.LeafVarsOk : DTree → Prop
  | .leaf c _ vs => vs = clauseVars c
  | .node l r _ _ => DTree.LeafVarsOk l ∧ DTree.LeafVarsOk r

theorem DTree.VarsOk.leafVarsOk {d : DTree} (h : d.VarsOk) : d.LeafVarsOk := by
  induction d with
  | leaf c cut vs => exact h
  | node l r cut vs ihl ihr => exact ⟨ihl h.2.1, ihr h.2.2⟩

/-! ### `initVars` -/

@[simp] theorem initVars_leaves (d : DTree) : (DTree.initVars d).leaves = d.leaves := by
  induction d with
  | leaf c cut vs => rfl
  | node l r cut vs ihl ihr => simp [DTree.initVars, DTree.leaves, ihl, ihr]

theorem initVars_varsOk {d : DTree} (h : d.LeafVarsOk) : (DTree.initVars d).VarsOk := by
  induction d with
  | leaf c cut vs =>
    have h' : vs = clauseVars c := h
    subst h'
    simp only [DTree.initVars, DTree.VarsOk]
    exact foldl_insert_clauseVars c
  | node l r cut vs ihl ihr =>
    exact ⟨rfl, ihl h.1, ihr h.2⟩

/-- `init_vars` is the identity on a tree whose `vars` are already right -/
theorem initVars_eq_self {d : DTree} (h : d.VarsOk) : DTree.initVars d = d := by
  induction d with
  | leaf c cut vs =>
    have h' : vs = clauseVars c := h
    subst h'
    simp only [DTree.initVars]
    rw [foldl_insert_clauseVars c]
  | node l r cut vs ihl ihr =>
    obtain ⟨h1, h2, h3⟩ := h
    simp only [DTree.initVars, ihl h2, ihr h3]
    rw [h1]

theorem leafOf_varsOk (c : Clause) : (DTree.leafOf c).VarsOk := by
  simp [DTree.leafOf, DTree.initVars, DTree.VarsOk, clauseVars]

@[simp] theorem leafOf_leaves (c : Clause) : (DTree.leafOf c).leaves = [c] := rfl

/-! ### `balanced` -/

/-- `d` is obtained from the non-empty forest `ts` by putting fresh nodes (empty `vars`, empty
cutset) on top, keeping the left-to-right order -/
inductive Built : List DTree → DTree → Prop
  | single (t : DTree) : Built [t] t
  | node {a b : List DTree} {l r : DTree} : Built a l → Built b r → Built (a ++ b) (.node l r [] [])

theorem balancedAux_nil (fuel : Nat) : DTree.balancedAux fuel [] = none := by
  cases fuel <;> rfl

theorem balancedAux_built : ∀ (fuel : Nat) (ts : List DTree), ts ≠ [] → ts.length ≤ fuel →
    ∃ d, DTree.balancedAux fuel ts = some d ∧ Built ts d := by
  intro fuel
  induction fuel with
  | zero =>
    intro ts hne hlen
    cases ts with
    | nil => exact absurd rfl hne
    | cons a as => simp at hlen
  | succ n ih =>
    intro ts hne hlen
    match ts, hne, hlen with
    | [], hne, _ => exact absurd rfl hne
    | [t], _, _ => exact ⟨t, rfl, Built.single t⟩
    | a :: b :: rest, _, hlen =>
      have hlen' : rest.length + 2 ≤ n + 1 := by simpa using hlen
      let ts := a :: b :: rest
      have hts : ts.length = rest.length + 2 := rfl
      have hk1 : 0 < ts.length / 2 := by omega
      have hk2 : ts.length / 2 < ts.length := by omega
      have htake : ts.take (ts.length / 2) ≠ [] := by
        intro h
        have := congrArg List.length h
        simp only [List.length_take, List.length_nil] at this
        omega
      have hdrop : ts.drop (ts.length / 2) ≠ [] := by
        intro h
        have := congrArg List.length h
        simp only [List.length_drop, List.length_nil] at this
        omega
      have hl1 : (ts.take (ts.length / 2)).length ≤ n := by
        simp only [List.length_take]; omega
      have hl2 : (ts.drop (ts.length / 2)).length ≤ n := by
        simp only [List.length_drop]; omega
      obtain ⟨l, hl, bl⟩ := ih _ htake hl1
      obtain ⟨r, hr, br⟩ := ih _ hdrop hl2
      refine ⟨.node l r [] [], ?_, ?_⟩
      · show DTree.balancedAux (n + 1) ts = _
        simp only [ts] at hl hr ⊢
        unfold DTree.balancedAux
        simp only [hl, hr]
      · have := Built.node bl br
        rwa [List.take_append_drop] at this

theorem balanced_nil : DTree.balanced [] = none := rfl

theorem balanced_built {ts : List DTree} (h : ts ≠ []) :
    ∃ d, DTree.balanced ts = some d ∧ Built ts d :=
  balancedAux_built ts.length ts h (Nat.le_refl _)

theorem balanced_some {ts : List DTree} {d : DTree} (h : DTree.balanced ts = some d) :
    Built ts d := by
  by_cases hne : ts = []
  · subst hne; simp [balanced_nil] at h
  · obtain ⟨d', h1, h2⟩ := balanced_built hne
    rw [h1] at h
    cases h
    exact h2

theorem balanced_none {ts : List DTree} (h : DTree.balanced ts = none) : ts = [] := by
  by_cases hne : ts = []
  · exact hne
  · obtain ⟨d', h1, _⟩ := balanced_built hne
    rw [h1] at h
    cases h

/-- all leaf clauses of a forest, left to right -/
def allLeaves (ts : List DTree) : List Clause := ts.flatMap DTree.leaves

theorem Built.leaves {ts : List DTree} {d : DTree} (h : Built ts d) : d.leaves = allLeaves ts := by
  induction h with
  | single t => simp [allLeaves]
  | node _ _ ihl ihr => simp [allLeaves, DTree.leaves, ihl, ihr] at *

theorem Built.ne_nil {ts : List DTree} {d : DTree} (h : Built ts d) : ts ≠ [] := by
  induction h with
  | single t => simp
  | node _ _ ihl ihr => simp [ihl]

theorem Built.leafVarsOk {ts : List DTree} {d : DTree} (h : Built ts d)
    (hts : ∀ t ∈ ts, t.LeafVarsOk) : d.LeafVarsOk := by
  induction h with
  | single t => exact hts t (by simp)
  | node _ _ ihl ihr =>
    exact ⟨ihl (fun t ht => hts t (List.mem_append_left _ ht)),
      ihr (fun t ht => hts t (List.mem_append_right _ ht))⟩

/-! ### `elimStep`, `components` -/

theorem allLeaves_append (a b : List DTree) : allLeaves (a ++ b) = allLeaves a ++ allLeaves b := by
  simp [allLeaves]

theorem allLeaves_filter_perm (p : DTree → Bool) (ts : List DTree) :
    (allLeaves (ts.filter fun d => !p d) ++ allLeaves (ts.filter p)).Perm (allLeaves ts) := by
  rw [← allLeaves_append]
  refine List.Perm.flatMap_right _ ?_
  exact List.perm_append_comm.trans (List.filter_append_perm p ts)

/-- what one round of the elimination loop does -/
theorem elimStep_cases (ts : List DTree) (o : Nat) :
    (ts.filter (fun d => d.vars.contains o) = [] ∧
      DTree.elimStep ts o = ts.filter fun d => !d.vars.contains o) ∨
    (∃ nt, Built (ts.filter fun d => d.vars.contains o) nt ∧
      DTree.elimStep ts o = (ts.filter fun d => !d.vars.contains o) ++ [DTree.initVars nt]) := by
  cases h : DTree.balanced (ts.filter fun d => d.vars.contains o) with
  | none => exact Or.inl ⟨balanced_none h, by simp only [DTree.elimStep, h]⟩
  | some nt => exact Or.inr ⟨nt, balanced_some h, by simp only [DTree.elimStep, h]⟩

theorem elimStep_leaves (ts : List DTree) (o : Nat) :
    (allLeaves (DTree.elimStep ts o)).Perm (allLeaves ts) := by
  have hp := allLeaves_filter_perm (fun d => d.vars.contains o) ts
  rcases elimStep_cases ts o with ⟨h1, h2⟩ | ⟨nt, h1, h2⟩
  · rw [h2]
    rw [h1] at hp
    simpa [allLeaves] using hp
  · rw [h2, allLeaves_append]
    have : allLeaves [DTree.initVars nt] = allLeaves (ts.filter fun d => d.vars.contains o) := by
      simp [allLeaves, h1.leaves]
    rw [this]
    exact hp

theorem elimStep_varsOk {ts : List DTree} (o : Nat) (h : ∀ t ∈ ts, t.VarsOk) :
    ∀ t ∈ DTree.elimStep ts o, t.VarsOk := by
  rcases elimStep_cases ts o with ⟨_, h2⟩ | ⟨nt, h1, h2⟩
  · rw [h2]
    intro t ht
    exact h t (List.mem_filter.1 ht).1
  · rw [h2]
    intro t ht
    rcases List.mem_append.1 ht with ht | ht
    · exact h t (List.mem_filter.1 ht).1
    · have : t = DTree.initVars nt := by simpa using ht
      subst this
      exact initVars_varsOk
        (h1.leafVarsOk fun t' ht' => (h t' (List.mem_filter.1 ht').1).leafVarsOk)

theorem components_leaves (cs : Cnf) (ord : List Nat) :
    (allLeaves (DTree.components cs ord)).Perm cs := by
  unfold DTree.components
  have h0 : (allLeaves (cs.map DTree.leafOf)).Perm cs := by
    have : allLeaves (cs.map DTree.leafOf) = cs := by
      induction cs with
      | nil => rfl
      | cons c cs ih => simp [allLeaves, List.flatMap_cons] at *; exact ih
    rw [this]
  generalize cs.map DTree.leafOf = ts at h0
  induction ord generalizing ts with
  | nil => exact h0
  | cons o os ih => exact ih _ ((elimStep_leaves ts o).trans h0)

theorem components_varsOk (cs : Cnf) (ord : List Nat) :
    ∀ t ∈ DTree.components cs ord, t.VarsOk := by
  unfold DTree.components
  have h0 : ∀ t ∈ cs.map DTree.leafOf, t.VarsOk := by
    intro t ht
    obtain ⟨c, _, rfl⟩ := List.mem_map.1 ht
    exact leafOf_varsOk c
  generalize cs.map DTree.leafOf = ts at h0
  induction ord generalizing ts with
  | nil => exact h0
  | cons o os ih => exact ih _ (elimStep_varsOk o h0)

theorem components_nil (ord : List Nat) : DTree.components [] ord = [] := by
  unfold DTree.components
  simp only [List.map_nil]
  induction ord with
  | nil => rfl
  | cons o os ih => simpa [DTree.elimStep, balanced_nil] using ih

theorem components_ne_nil {cs : Cnf} (h : cs ≠ []) (ord : List Nat) :
    DTree.components cs ord ≠ [] := by
  intro h'
  have := components_leaves cs ord
  rw [h'] at this
  exact h this.nil_eq.symm

/-! ### `genCutset` -/

@[simp] theorem genCutset_vars (anc : List Nat) (d : DTree) :
    (DTree.genCutset anc d).vars = d.vars := by
  cases d <;> rfl

@[simp] theorem genCutset_leaves (anc : List Nat) (d : DTree) :
    (DTree.genCutset anc d).leaves = d.leaves := by
  induction d generalizing anc with
  | leaf c cut vs => rfl
  | node l r cut vs ihl ihr => simp [DTree.genCutset, DTree.leaves, ihl, ihr]

theorem genCutset_varsOk {d : DTree} (anc : List Nat) (h : d.VarsOk) :
    (DTree.genCutset anc d).VarsOk := by
  induction d generalizing anc with
  | leaf c cut vs => exact h
  | node l r cut vs ihl ihr =>
    obtain ⟨h1, h2, h3⟩ := h
    simp only [DTree.genCutset, DTree.VarsOk, genCutset_vars]
    exact ⟨h1, ihl _ h2, ihr _ h3⟩

theorem genCutset_cutsOk (anc : List Nat) (d : DTree) :
    (DTree.genCutset anc d).CutsOk anc := by
  induction d generalizing anc with
  | leaf c cut vs => simp [DTree.genCutset, DTree.CutsOk]
  | node l r cut vs ihl ihr =>
    simp [DTree.genCutset, DTree.CutsOk, ihl, ihr]

/-! ## `fromCnf` -/

/-- what `fromCnf` returns -/
theorem fromCnf_some {cs : Cnf} {ord : List Nat} {d : DTree} (h : DTree.fromCnf cs ord = some d) :
    ∃ res, Built (DTree.components cs ord) res ∧ d = DTree.genCutset [] (DTree.initVars res) := by
  unfold DTree.fromCnf at h
  cases hb : DTree.balanced (DTree.components cs ord) with
  | none => simp [hb] at h
  | some res =>
    simp only [hb, Option.map_some, Option.some.injEq] at h
    exact ⟨res, balanced_some hb, h.symm⟩

/-- what `fromCnfOrig` returns -/
theorem fromCnfOrig_some {cs : Cnf} {ord : List Nat} {d : DTree}
    (h : DTree.fromCnfOrig cs ord = some d) :
    ∃ res, Built (DTree.components cs ord) res ∧ d = DTree.genCutset [] res := by
  unfold DTree.fromCnfOrig at h
  cases hb : DTree.balanced (DTree.components cs ord) with
  | none => simp [hb] at h
  | some res =>
    simp only [hb, Option.map_some, Option.some.injEq] at h
    exact ⟨res, balanced_some hb, h.symm⟩

theorem fromCnf_isSome {cs : Spec.Cnf} (h : cs ≠ []) (ord : List Nat) :
    (DTree.fromCnf cs ord).isSome := by
  obtain ⟨d, hd, _⟩ := balanced_built (components_ne_nil h ord)
  simp [DTree.fromCnf, hd]

theorem fromCnfOrig_isSome {cs : Spec.Cnf} (h : cs ≠ []) (ord : List Nat) :
    (DTree.fromCnfOrig cs ord).isSome := by
  obtain ⟨d, hd, _⟩ := balanced_built (components_ne_nil h ord)
  simp [DTree.fromCnfOrig, hd]

theorem fromCnf_none (ord : List Nat) : DTree.fromCnf [] ord = none := by
  simp [DTree.fromCnf, components_nil, balanced_nil]

theorem fromCnfOrig_none (ord : List Nat) : DTree.fromCnfOrig [] ord = none := by
  simp [DTree.fromCnfOrig, components_nil, balanced_nil]

theorem dtree_leaves {cs : Spec.Cnf} {ord : List Nat} {d : DTree}
    (h : DTree.fromCnf cs ord = some d) : d.leaves.Perm cs := by
  obtain ⟨res, hb, rfl⟩ := fromCnf_some h
  rw [genCutset_leaves, initVars_leaves, hb.leaves]
  exact components_leaves cs ord

theorem dtree_leaves_orig {cs : Spec.Cnf} {ord : List Nat} {d : DTree}
    (h : DTree.fromCnfOrig cs ord = some d) : d.leaves.Perm cs := by
  obtain ⟨res, hb, rfl⟩ := fromCnfOrig_some h
  rw [genCutset_leaves, hb.leaves]
  exact components_leaves cs ord

theorem dtree_vars {cs : Spec.Cnf} {ord : List Nat} {d : DTree}
    (h : DTree.fromCnf cs ord = some d) : d.VarsOk := by
  obtain ⟨res, hb, rfl⟩ := fromCnf_some h
  exact genCutset_varsOk _ (initVars_varsOk
    (hb.leafVarsOk fun t ht => (components_varsOk cs ord t ht).leafVarsOk))

theorem dtree_vars_mem {d : DTree} (h : d.VarsOk) (x : Nat) :
    x ∈ d.vars ↔ ∃ c ∈ d.leaves, ∃ l ∈ c, l.var = x := by
  induction d with
  | leaf c cut vs =>
    have h' : vs = clauseVars c := h
    subst h'
    simp [DTree.vars, DTree.leaves, mem_clauseVars]
  | node l r cut vs ihl ihr =>
    obtain ⟨h1, h2, h3⟩ := h
    subst h1
    show x ∈ VarSet.union l.vars r.vars ↔ _
    rw [VarSet.mem_union, ihl h2, ihr h3]
    simp only [DTree.leaves, List.mem_append]
    constructor
    · rintro (⟨c, hc, hx⟩ | ⟨c, hc, hx⟩)
      · exact ⟨c, Or.inl hc, hx⟩
      · exact ⟨c, Or.inr hc, hx⟩
    · rintro ⟨c, hc | hc, hx⟩
      · exact Or.inl ⟨c, hc, hx⟩
      · exact Or.inr ⟨c, hc, hx⟩

theorem dtree_vars_sorted {d : DTree} (h : d.VarsOk) : VarSet.Sorted d.vars := by
  cases d with
  | leaf c cut vs =>
    have h' : vs = clauseVars c := h
    subst h'
    exact sorted_clauseVars c
  | node l r cut vs =>
    obtain ⟨h1, h2, _⟩ := h
    subst h1
    exact VarSet.sorted_union (dtree_vars_sorted h2)

theorem dtree_cutsets {cs : Spec.Cnf} {ord : List Nat} {d : DTree}
    (h : DTree.fromCnf cs ord = some d) : d.CutsOk [] := by
  obtain ⟨res, _, rfl⟩ := fromCnf_some h
  exact genCutset_cutsOk _ _

theorem dtree_cutsets_orig {cs : Spec.Cnf} {ord : List Nat} {d : DTree}
    (h : DTree.fromCnfOrig cs ord = some d) : d.CutsOk [] := by
  obtain ⟨res, _, rfl⟩ := fromCnfOrig_some h
  exact genCutset_cutsOk _ _

/-- the current Rust leaves the root's `vars` empty for a CNF with two components:
(x1) ∧ (¬x2) with elimination order [2,0,1] — checked against the real library -/
theorem dtree_vars_orig_wrong :
    ∃ d, DTree.fromCnfOrig [[⟨1, true⟩], [⟨2, false⟩]] [2, 0, 1] = some d ∧ ¬ d.VarsOk := by
  refine ⟨_, rfl, ?_⟩
  intro h
  have h1 := h.1
  revert h1
  decide

/-! ## the vtree derived from a dtree -/

/-- leaves of an optional vtree (`[]` for `none`) -/
def optLeaves : Option VTree → List Nat
  | none => []
  | some t => t.leaves

theorem rightLinearC_leaves (cut : List Nat) (sub : Option VTree) :
    optLeaves (VTree.rightLinearC cut sub) = cut ++ optLeaves sub := by
  induction cut with
  | nil => rfl
  | cons v vs ih =>
    unfold VTree.rightLinearC
    cases h : VTree.rightLinearC vs sub with
    | none =>
      rw [h] at ih
      have : vs ++ optLeaves sub = [] := ih.symm
      show [v] = v :: (vs ++ optLeaves sub)
      rw [this]
    | some s =>
      rw [h] at ih
      simp only [optLeaves, VTree.leaves] at ih ⊢
      rw [ih]; rfl

theorem fromDtree_node_leaves (l r : DTree) (cut vs : List Nat) :
    optLeaves (VTree.fromDtree (.node l r cut vs)) =
      cut ++ (optLeaves (VTree.fromDtree l) ++ optLeaves (VTree.fromDtree r)) := by
  have e : VTree.fromDtree (.node l r cut vs) = VTree.rightLinearC cut
      (match VTree.fromDtree l, VTree.fromDtree r with
        | none, none => none
        | some l, none => some l
        | none, some r => some r
        | some l, some r => some (VTree.node l r)) := by
    rw [VTree.fromDtree]
    cases VTree.fromDtree l <;> cases VTree.fromDtree r <;> rfl
  rw [e, rightLinearC_leaves]
  generalize VTree.fromDtree l = a
  generalize VTree.fromDtree r = b
  cases a <;> cases b <;> simp [optLeaves, VTree.leaves]

/-- `match`-free form of `fromDtree_leaves` -/
theorem fromDtree_optLeaves {d : DTree} {anc : List Nat} (hv : d.VarsOk) (hc : d.CutsOk anc) :
    (optLeaves (VTree.fromDtree d)).Nodup ∧
      ∀ x, x ∈ optLeaves (VTree.fromDtree d) ↔ (x ∈ d.vars ∧ x ∉ anc) := by
  induction d generalizing anc with
  | leaf c cut vs =>
    have hc' : cut = VarSet.minus vs anc := hc
    subst hc'
    have hs : VarSet.Sorted vs := dtree_vars_sorted hv
    have e : optLeaves (VTree.fromDtree (.leaf c (VarSet.minus vs anc) vs)) =
        VarSet.minus vs anc := by
      unfold VTree.fromDtree
      rw [rightLinearC_leaves]; simp [optLeaves]
    rw [e]
    exact ⟨(VarSet.sorted_minus hs).nodup, fun x => VarSet.mem_minus⟩
  | node l r cut vs ihl ihr =>
    obtain ⟨hvs, hvl, hvr⟩ := hv
    obtain ⟨hcut, hcl, hcr⟩ := hc
    obtain ⟨nl, ml⟩ := ihl hvl hcl
    obtain ⟨nr, mr⟩ := ihr hvr hcr
    have hcutmem : ∀ x, x ∈ cut ↔ (x ∈ l.vars ∧ x ∈ r.vars) ∧ x ∉ anc := by
      intro x; rw [hcut, VarSet.mem_minus, VarSet.mem_inter]
    have hcutnd : cut.Nodup := by
      rw [hcut]
      exact (VarSet.sorted_minus (VarSet.sorted_inter (dtree_vars_sorted hvl))).nodup
    rw [fromDtree_node_leaves]
    refine ⟨?_, ?_⟩
    · rw [List.nodup_append]
      refine ⟨hcutnd, ?_, ?_⟩
      · rw [List.nodup_append]
        refine ⟨nl, nr, ?_⟩
        intro a ha b hb hab
        subst hab
        have h1 := (ml a).1 ha
        have h2 := (mr a).1 hb
        have hnotcut : a ∉ cut := fun hx => h1.2 (VarSet.mem_union.2 (Or.inr hx))
        have hnotanc : a ∉ anc := fun hx => h1.2 (VarSet.mem_union.2 (Or.inl hx))
        exact hnotcut ((hcutmem a).2 ⟨⟨h1.1, h2.1⟩, hnotanc⟩)
      · intro a ha b hb hab
        subst hab
        have hin : a ∈ VarSet.union anc cut := VarSet.mem_union.2 (Or.inr ha)
        rcases List.mem_append.1 hb with hb | hb
        · exact ((ml a).1 hb).2 hin
        · exact ((mr a).1 hb).2 hin
    · intro x
      show _ ↔ x ∈ vs ∧ x ∉ anc
      rw [hvs, VarSet.mem_union]
      simp only [List.mem_append, ml, mr, VarSet.mem_union, hcutmem]
      constructor
      · rintro (⟨⟨h1, _⟩, h3⟩ | ⟨h1, h2⟩ | ⟨h1, h2⟩)
        · exact ⟨Or.inl h1, h3⟩
        · exact ⟨Or.inl h1, fun h => h2 (Or.inl h)⟩
        · exact ⟨Or.inr h1, fun h => h2 (Or.inl h)⟩
      · rintro ⟨h1, h2⟩
        by_cases hx : (x ∈ l.vars ∧ x ∈ r.vars)
        · exact Or.inl ⟨hx, h2⟩
        · have hn : ¬ (x ∈ anc ∨ ((x ∈ l.vars ∧ x ∈ r.vars) ∧ x ∉ anc)) := by
            rintro (h | ⟨h, _⟩)
            · exact h2 h
            · exact hx h
          rcases h1 with h1 | h1
          · exact Or.inr (Or.inl ⟨h1, hn⟩)
          · exact Or.inr (Or.inr ⟨h1, hn⟩)

/-- general fact about `fromDtree`: for a dtree with correct vars and cutsets, the derived vtree's
leaves are exactly `vars \ anc`, each once (and it is `none` only when that set is empty) -/
theorem fromDtree_leaves {d : DTree} {anc : List Nat} (hv : d.VarsOk) (hc : d.CutsOk anc) :
    match VTree.fromDtree d with
    | some t => t.leaves.Nodup ∧ ∀ x, x ∈ t.leaves ↔ (x ∈ d.vars ∧ x ∉ anc)
    | none => ∀ x, ¬ (x ∈ d.vars ∧ x ∉ anc) := by
  have h := fromDtree_optLeaves hv hc
  cases hd : VTree.fromDtree d with
  | some t => rw [hd] at h; exact h
  | none =>
    rw [hd] at h
    intro x hx
    have := (h.2 x).2 hx
    simp [optLeaves] at this

/-- a vtree has at least one leaf -/
theorem VTree.leaves_ne_nil (t : VTree) : t.leaves ≠ [] := by
  induction t with
  | leaf v => simp [VTree.leaves]
  | node l r ihl _ => simp [VTree.leaves, ihl]

/-- `from_dtree` returns `None` EXACTLY when `vars \ anc` is empty -/
theorem fromDtree_none_iff {d : DTree} {anc : List Nat} (hv : d.VarsOk) (hc : d.CutsOk anc) :
    VTree.fromDtree d = none ↔ ∀ x, ¬ (x ∈ d.vars ∧ x ∉ anc) := by
  have h := fromDtree_optLeaves hv hc
  cases hd : VTree.fromDtree d with
  | some t =>
    rw [hd] at h
    simp only [reduceCtorEq, false_iff]
    intro hall
    cases ht : t.leaves with
    | nil => exact VTree.leaves_ne_nil t ht
    | cons a as =>
      exact hall a ((h.2 a).1 (by simp [optLeaves, ht]))
  | none =>
    rw [hd] at h
    simp only [true_iff]
    intro x hx
    have := (h.2 x).2 hx
    simp [optLeaves] at this

theorem occurs_iff_mem_vars {cs : Spec.Cnf} {ord : List Nat} {d : DTree}
    (h : DTree.fromCnf cs ord = some d) (x : Nat) : x ∈ d.vars ↔ Occurs x cs := by
  rw [dtree_vars_mem (dtree_vars h)]
  unfold Occurs
  constructor
  · rintro ⟨c, hc, hx⟩
    exact ⟨c, (dtree_leaves h).mem_iff.1 hc, hx⟩
  · rintro ⟨c, hc, hx⟩
    exact ⟨c, (dtree_leaves h).mem_iff.2 hc, hx⟩

/-- C14 (reading: "every CNF variable" = every variable OCCURRING in a clause): the vtree derived
from the dtree has every occurring variable as exactly one leaf and no other leaves; `from_dtree`
returns `None` only when no variable occurs -/
theorem vtree_of_dtree_leaves {cs : Spec.Cnf} {ord : List Nat} {d : DTree}
    (h : DTree.fromCnf cs ord = some d) :
    match VTree.fromDtree d with
    | some t => t.leaves.Nodup ∧ ∀ x, x ∈ t.leaves ↔ Occurs x cs
    | none => ∀ x, ¬ Occurs x cs := by
  have hl := fromDtree_leaves (dtree_vars h) (dtree_cutsets h)
  have ho := occurs_iff_mem_vars h
  cases hd : VTree.fromDtree d with
  | some t =>
    rw [hd] at hl
    refine ⟨hl.1, fun x => ?_⟩
    rw [hl.2 x, ← ho x]
    simp
  | none =>
    rw [hd] at hl
    intro x hx
    exact hl x ⟨(ho x).2 hx, by simp⟩

/-- `from_dtree` returns `None` EXACTLY when no variable occurs in the CNF -/
theorem vtree_of_dtree_none_iff {cs : Spec.Cnf} {ord : List Nat} {d : DTree}
    (h : DTree.fromCnf cs ord = some d) :
    VTree.fromDtree d = none ↔ ∀ x, ¬ Occurs x cs := by
  rw [fromDtree_none_iff (dtree_vars h) (dtree_cutsets h)]
  have ho := occurs_iff_mem_vars h
  constructor
  · intro hall x hx
    exact hall x ⟨(ho x).2 hx, by simp⟩
  · intro hall x hx
    exact hall x ((ho x).1 hx.1)

/-! ## the unrepaired `from_cnf` derives the same vtree when the elimination order covers every
occurring variable -/

/-- `a` and `b` share no variable satisfying `P` -/
def DisjOn (P : Nat → Prop) (a b : DTree) : Prop := ∀ x, P x → x ∈ a.vars → x ∈ b.vars → False

theorem DisjOn.symm {P : Nat → Prop} {a b : DTree} (h : DisjOn P a b) : DisjOn P b a :=
  fun x hp hb ha => h x hp ha hb

theorem pairwise_rel_of_mem {α : Type} {R : α → α → Prop} (hs : ∀ a b, R a b → R b a)
    {l : List α} (h : l.Pairwise R) {a b : α} (ha : a ∈ l) (hb : b ∈ l) (hab : a ≠ b) :
    R a b := by
  induction h with
  | nil => cases ha
  | @cons c l hc _ ih =>
    rcases List.mem_cons.1 ha with ha | ha
    · rcases List.mem_cons.1 hb with hb | hb
      · exact absurd (ha.trans hb.symm) hab
      · rw [ha]; exact hc b hb
    · rcases List.mem_cons.1 hb with hb | hb
      · rw [hb]; exact hs _ _ (hc a ha)
      · exact ih ha hb

/-- the stored `vars` of a tree built by `balanced` come from the forest -/
theorem Built.vars_sub {ts : List DTree} {d : DTree} (h : Built ts d) {x : Nat}
    (hx : x ∈ d.vars) : ∃ t ∈ ts, x ∈ t.vars := by
  cases h with
  | single t => exact ⟨d, by simp, hx⟩
  | node _ _ => cases hx

/-- the recomputed `vars` of a tree built by `balanced` come from the forest -/
theorem Built.initVars_vars_sub {ts : List DTree} {d : DTree} (h : Built ts d)
    (hts : ∀ t ∈ ts, t.VarsOk) {x : Nat} (hx : x ∈ (DTree.initVars d).vars) :
    ∃ t ∈ ts, x ∈ t.vars := by
  induction h with
  | single t =>
    rw [initVars_eq_self (hts t (by simp))] at hx
    exact ⟨t, by simp, hx⟩
  | @node a b l r _ _ ihl ihr =>
    have hx' : x ∈ VarSet.union (DTree.initVars l).vars (DTree.initVars r).vars := hx
    rcases VarSet.mem_union.1 hx' with h | h
    · obtain ⟨t, ht, hxt⟩ := ihl (fun t ht => hts t (List.mem_append_left _ ht)) h
      exact ⟨t, List.mem_append_left _ ht, hxt⟩
    · obtain ⟨t, ht, hxt⟩ := ihr (fun t ht => hts t (List.mem_append_right _ ht)) h
      exact ⟨t, List.mem_append_right _ ht, hxt⟩

/-- loop invariant of the elimination loop: once `o` has been processed, at most one subtree
mentions `o` (and it stays that way, because subtrees are only ever merged) -/
theorem elimStep_disj {P : Nat → Prop} {ts : List DTree} (o : Nat) (hv : ∀ t ∈ ts, t.VarsOk)
    (h : ts.Pairwise (DisjOn P)) :
    (DTree.elimStep ts o).Pairwise (DisjOn fun x => P x ∨ x = o) := by
  have hs : (ts.filter fun d => !d.vars.contains o).Pairwise (DisjOn fun x => P x ∨ x = o) := by
    refine List.Pairwise.imp_of_mem ?_ (List.Pairwise.filter _ h)
    intro a b ha _ hab x hp hxa hxb
    rcases hp with hp | rfl
    · exact hab x hp hxa hxb
    · have := (List.mem_filter.1 ha).2
      simp at this
      exact this hxa
  rcases elimStep_cases ts o with ⟨_, h2⟩ | ⟨nt, h1, h2⟩
  · rw [h2]; exact hs
  · rw [h2, List.pairwise_append]
    refine ⟨hs, List.pairwise_singleton _ _, ?_⟩
    intro a ha b hb x hp hxa hxb
    have hb' : b = DTree.initVars nt := by simpa using hb
    subst hb'
    obtain ⟨t, ht, hxt⟩ := h1.initVars_vars_sub (fun t ht => hv t (List.mem_filter.1 ht).1) hxb
    have ha' := List.mem_filter.1 ha
    have ht' := List.mem_filter.1 ht
    have hao : o ∉ a.vars := by simpa using ha'.2
    have hto : o ∈ t.vars := by simpa using ht'.2
    rcases hp with hp | rfl
    · have hne : a ≠ t := by
        intro e; subst e; exact hao hto
      exact pairwise_rel_of_mem (fun _ _ => DisjOn.symm) h ha'.1 ht'.1 hne x hp hxa hxt
    · exact hao hxa

theorem foldl_elimStep_varsOk {ts : List DTree} (ord : List Nat) (hv : ∀ t ∈ ts, t.VarsOk) :
    ∀ t ∈ ord.foldl DTree.elimStep ts, t.VarsOk := by
  induction ord generalizing ts with
  | nil => exact hv
  | cons o os ih => exact ih (elimStep_varsOk o hv)

theorem foldl_elimStep_disj {P : Nat → Prop} {ts : List DTree} (ord : List Nat)
    (hv : ∀ t ∈ ts, t.VarsOk) (h : ts.Pairwise (DisjOn P)) :
    (ord.foldl DTree.elimStep ts).Pairwise (DisjOn fun x => P x ∨ x ∈ ord) := by
  induction ord generalizing ts P with
  | nil =>
    refine List.Pairwise.imp ?_ h
    intro a b hab x hp
    rcases hp with hp | hp
    · exact hab x hp
    · cases hp
  | cons o os ih =>
    have := ih (elimStep_varsOk o hv) (elimStep_disj o hv h)
    refine List.Pairwise.imp ?_ this
    intro a b hab x hp
    refine hab x ?_
    rcases hp with hp | hp
    · exact Or.inl (Or.inl hp)
    · rcases List.mem_cons.1 hp with rfl | hp
      · exact Or.inl (Or.inr rfl)
      · exact Or.inr hp

/-- the subtrees left after the loop share no variable of the elimination order -/
theorem components_disj_partial (cs : Cnf) (ord : List Nat) :
    (DTree.components cs ord).Pairwise (DisjOn fun x => x ∈ ord) := by
  have h0 : ∀ t ∈ cs.map DTree.leafOf, t.VarsOk := by
    intro t ht
    obtain ⟨c, _, rfl⟩ := List.mem_map.1 ht
    exact leafOf_varsOk c
  have := foldl_elimStep_disj (P := fun _ => False) ord h0
    (List.pairwise_of_forall (fun _ _ _ hp => hp.elim))
  refine List.Pairwise.imp ?_ this
  intro a b hab x hp
  exact hab x (Or.inr hp)

/-- every variable of a remaining subtree occurs in the CNF -/
theorem components_vars_occur {cs : Cnf} {ord : List Nat} {t : DTree}
    (ht : t ∈ DTree.components cs ord) {x : Nat} (hx : x ∈ t.vars) : Occurs x cs := by
  obtain ⟨c, hc, hl⟩ := (dtree_vars_mem (components_varsOk cs ord t ht) x).1 hx
  refine ⟨c, (components_leaves cs ord).mem_iff.1 ?_, hl⟩
  exact List.mem_flatMap.2 ⟨t, ht, hc⟩

/-- if the elimination order covers every occurring variable, the remaining subtrees are
variable-disjoint -/
theorem components_disj {cs : Cnf} {ord : List Nat} (hord : ∀ x, Occurs x cs → x ∈ ord) :
    (DTree.components cs ord).Pairwise (DisjOn fun _ => True) := by
  refine List.Pairwise.imp_of_mem ?_ (components_disj_partial cs ord)
  intro a b ha _ hab x _ hxa hxb
  exact hab x (hord x (components_vars_occur ha hxa)) hxa hxb

theorem fromDtree_node_congr {l r l' r' : DTree} (cut vs vs' : List Nat)
    (hl : VTree.fromDtree l = VTree.fromDtree l') (hr : VTree.fromDtree r = VTree.fromDtree r') :
    VTree.fromDtree (.node l r cut vs) = VTree.fromDtree (.node l' r' cut vs') := by
  simp only [VTree.fromDtree, hl, hr]

theorem inter_eq_nil {a b : List Nat} (h : ∀ x, x ∈ a → x ∈ b → False) : VarSet.inter a b = [] := by
  unfold VarSet.inter
  rw [List.filter_eq_nil_iff]
  intro x hx hc
  exact h x hx (by simpa using hc)

/-- on a tree built by `balanced` from variable-disjoint subtrees with correct `vars`, the missing
`init_vars` is invisible to `from_dtree`: all the new nodes get an empty cutset either way -/
theorem Built.fromDtree_genCutset_eq {ts : List DTree} {d : DTree} (h : Built ts d)
    (hv : ∀ t ∈ ts, t.VarsOk) (hd : ts.Pairwise (DisjOn fun _ => True)) (anc : List Nat) :
    VTree.fromDtree (DTree.genCutset anc d) =
      VTree.fromDtree (DTree.genCutset anc (DTree.initVars d)) := by
  induction h with
  | single t => rw [initVars_eq_self (hv t (by simp))]
  | @node a b l r bl br ihl ihr =>
    have hd' := List.pairwise_append.1 hd
    have hva : ∀ t ∈ a, t.VarsOk := fun t ht => hv t (List.mem_append_left _ ht)
    have hvb : ∀ t ∈ b, t.VarsOk := fun t ht => hv t (List.mem_append_right _ ht)
    have e1 : VarSet.inter l.vars r.vars = [] := by
      refine inter_eq_nil fun x hx1 hx2 => ?_
      obtain ⟨t1, ht1, hx1⟩ := bl.vars_sub hx1
      obtain ⟨t2, ht2, hx2⟩ := br.vars_sub hx2
      exact hd'.2.2 t1 ht1 t2 ht2 x trivial hx1 hx2
    have e2 : VarSet.inter (DTree.initVars l).vars (DTree.initVars r).vars = [] := by
      refine inter_eq_nil fun x hx1 hx2 => ?_
      obtain ⟨t1, ht1, hx1⟩ := bl.initVars_vars_sub hva hx1
      obtain ⟨t2, ht2, hx2⟩ := br.initVars_vars_sub hvb hx2
      exact hd'.2.2 t1 ht1 t2 ht2 x trivial hx1 hx2
    have m : VarSet.minus [] anc = [] := rfl
    simp only [DTree.initVars, DTree.genCutset, e1, e2, m, VarSet.union_nil]
    exact fromDtree_node_congr _ _ _ (ihl hva hd'.1) (ihr hvb hd'.2.1)

/-- if every occurring variable is in the elimination order, the vtree derived by the unrepaired
`from_cnf` is the one derived by the repaired `from_cnf` -/
theorem fromDtree_orig_eq {cs : Cnf} {ord : List Nat} (hord : ∀ x, Occurs x cs → x ∈ ord) :
    (DTree.fromCnfOrig cs ord).bind VTree.fromDtree =
      (DTree.fromCnf cs ord).bind VTree.fromDtree := by
  unfold DTree.fromCnfOrig DTree.fromCnf
  cases hb : DTree.balanced (DTree.components cs ord) with
  | none => rfl
  | some res =>
    simp only [Option.map_some, Option.bind_some]
    exact (balanced_some hb).fromDtree_genCutset_eq (components_varsOk cs ord)
      (components_disj hord) []

/-- … so C14 also holds for the unrepaired `from_cnf` under that hypothesis -/
theorem vtree_of_dtree_leaves_orig {cs : Spec.Cnf} {ord : List Nat} {d : DTree}
    (hord : ∀ x, Occurs x cs → x ∈ ord) (h : DTree.fromCnfOrig cs ord = some d) :
    match VTree.fromDtree d with
    | some t => t.leaves.Nodup ∧ ∀ x, x ∈ t.leaves ↔ Occurs x cs
    | none => ∀ x, ¬ Occurs x cs := by
  have hne : cs ≠ [] := by
    rintro rfl
    rw [fromCnfOrig_none] at h
    cases h
  cases h' : DTree.fromCnf cs ord with
  | none =>
    have := fromCnf_isSome hne ord
    rw [h'] at this
    cases this
  | some d' =>
    have e := fromDtree_orig_eq hord
    rw [h, h'] at e
    simp only [Option.bind_some] at e
    rw [e]
    exact vtree_of_dtree_leaves h'

/-! ## non-vacuity -/

section Examples

/-- (x0 ∨ ¬x1) ∧ (x1 ∨ x2) ∧ (¬x2 ∨ x3) -/
def exCnf : Cnf := [[⟨0, true⟩, ⟨1, false⟩], [⟨1, true⟩, ⟨2, true⟩], [⟨2, false⟩, ⟨3, true⟩]]

example : DTree.fromCnf exCnf [0, 1, 2, 3] = some
    (.node
      (.leaf [⟨2, false⟩, ⟨3, true⟩] [3] [2, 3])
      (.node
        (.leaf [⟨1, true⟩, ⟨2, true⟩] [] [1, 2])
        (.leaf [⟨0, true⟩, ⟨1, false⟩] [0] [0, 1])
        [1] [0, 1, 2])
      [2] [0, 1, 2, 3]) := by decide

/-- pre-order `(is_leaf, vars, cutset)` -/
example : (DTree.fromCnf exCnf [0, 1, 2, 3]).map DTree.preorder = some
    [(false, [0, 1, 2, 3], [2]), (true, [2, 3], [3]), (false, [0, 1, 2], [1]),
      (true, [1, 2], []), (true, [0, 1], [0])] := by decide

example : (DTree.fromCnf exCnf [0, 1, 2, 3]).bind VTree.fromDtree = some
    (.node (.leaf 2) (.node (.leaf 3) (.node (.leaf 1) (.leaf 0)))) := by decide

example : ((DTree.fromCnf exCnf [0, 1, 2, 3]).bind VTree.fromDtree).map VTree.leaves =
    some [2, 3, 1, 0] := by decide

/-- here the unrepaired code agrees (the order covers all variables) -/
example : DTree.fromCnfOrig exCnf [0, 1, 2, 3] = DTree.fromCnf exCnf [0, 1, 2, 3] := by decide

/-- the hypothesis of `fromDtree_orig_eq` is needed: with the EMPTY elimination order the unrepaired
code derives a vtree in which variable 1 is a leaf twice, the repaired code does not -/
example : ((DTree.fromCnfOrig exCnf []).bind VTree.fromDtree).map VTree.leaves =
    some [0, 1, 2, 1, 3] := by decide
example : ((DTree.fromCnf exCnf []).bind VTree.fromDtree).map VTree.leaves =
    some [1, 0, 2, 3] := by decide

/-- the `none` branch of C14 is inhabited: clauses without literals -/
example : (DTree.fromCnf [[], []] [0]).isSome ∧
    (DTree.fromCnf [[], []] [0]).bind VTree.fromDtree = none := by decide

/-- the defect instance: the root's `vars` stay empty -/
example : (DTree.fromCnfOrig [[⟨1, true⟩], [⟨2, false⟩]] [2, 0, 1]).map DTree.vars = some [] := by
  decide
example : (DTree.fromCnf [[⟨1, true⟩], [⟨2, false⟩]] [2, 0, 1]).map DTree.vars = some [1, 2] := by
  decide

example : Occurs 3 exCnf := ⟨[⟨2, false⟩, ⟨3, true⟩], by simp [exCnf], ⟨3, true⟩, by simp, rfl⟩

end Examples

#print axioms VarSet.mem_insert
#print axioms VarSet.sorted_insert
#print axioms VarSet.mem_union
#print axioms VarSet.sorted_union
#print axioms VarSet.mem_inter
#print axioms VarSet.mem_minus
#print axioms mem_clauseVars
#print axioms fromCnf_isSome
#print axioms fromCnf_none
#print axioms dtree_leaves
#print axioms dtree_leaves_orig
#print axioms dtree_vars
#print axioms dtree_vars_mem
#print axioms dtree_vars_sorted
#print axioms dtree_cutsets
#print axioms dtree_cutsets_orig
#print axioms dtree_vars_orig_wrong
#print axioms fromDtree_leaves
#print axioms fromDtree_none_iff
#print axioms vtree_of_dtree_leaves
#print axioms vtree_of_dtree_none_iff
#print axioms fromDtree_orig_eq
#print axioms vtree_of_dtree_leaves_orig

end VT
