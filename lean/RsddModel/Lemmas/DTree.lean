import RsddModel.Model.VTree
/-!
# Lemmas: dtrees (`DTree.fromCnf`) and the vtree derived from a dtree (`VTree.fromDtree`), C14
-/
namespace VT
open Spec

/-- `x` occurs in the CNF -/
def Occurs (x : Nat) (cs : Spec.Cnf) : Prop := ∃ c ∈ cs, ∃ l ∈ c, l.var = x

/-- strictly ascending -/
def VarSet.Sorted (l : List Nat) : Prop := l.Pairwise (· < ·)

/-! ## VarSet algebra -/

theorem VarSet.mem_insert {x y : Nat} {s : List Nat} :
    y ∈ VarSet.insert x s ↔ y = x ∨ y ∈ s := by
  induction s with
  | nil => simp [VarSet.insert]
  | cons z zs ih =>
    unfold VarSet.insert
    by_cases h1 : x < z
    · simp [h1]
    · by_cases h2 : x = z
      · subst h2; simp
      · simp only [h1, h2, if_false, List.mem_cons, ih]
        constructor
        · rintro (h | h | h)
          · exact Or.inr (Or.inl h)
          · exact Or.inl h
          · exact Or.inr (Or.inr h)
        · rintro (h | h | h)
          · exact Or.inr (Or.inl h)
          · exact Or.inl h
          · exact Or.inr (Or.inr h)

theorem VarSet.sorted_insert {x : Nat} {s : List Nat} (h : VarSet.Sorted s) :
    VarSet.Sorted (VarSet.insert x s) := by
  unfold VarSet.Sorted at *
  induction s with
  | nil => simp [VarSet.insert]
  | cons z zs ih =>
    have hz := List.pairwise_cons.1 h
    unfold VarSet.insert
    by_cases h1 : x < z
    · simp only [h1, if_true]
      refine List.pairwise_cons.2 ⟨?_, h⟩
      intro a ha
      rcases List.mem_cons.1 ha with rfl | ha
      · exact h1
      · exact Nat.lt_trans h1 (hz.1 a ha)
    · by_cases h2 : x = z
      · subst h2; simpa using h
      · simp only [h1, h2, if_false]
        refine List.pairwise_cons.2 ⟨?_, ih hz.2⟩
        intro a ha
        rcases VarSet.mem_insert.1 ha with rfl | ha
        · omega
        · exact hz.1 a ha

/-- inserting an element that is already there does nothing -/
theorem VarSet.insert_of_mem {x : Nat} {s : List Nat} (h : VarSet.Sorted s) (hx : x ∈ s) :
    VarSet.insert x s = s := by
  unfold VarSet.Sorted at *
  induction s with
  | nil => cases hx
  | cons z zs ih =>
    have hz := List.pairwise_cons.1 h
    unfold VarSet.insert
    by_cases h2 : x = z
    · subst h2; simp
    · have hx' : x ∈ zs := by
        rcases List.mem_cons.1 hx with h' | h'
        · exact absurd h' h2
        · exact h'
      have : z < x := hz.1 x hx'
      have h1 : ¬ x < z := by omega
      simp only [h1, h2, if_false, ih hz.2 hx']

theorem VarSet.mem_union {a b : List Nat} {x : Nat} :
    x ∈ VarSet.union a b ↔ x ∈ a ∨ x ∈ b := by
  unfold VarSet.union
  induction b generalizing a with
  | nil => simp
  | cons y ys ih =>
    simp only [List.foldl_cons, ih, VarSet.mem_insert, List.mem_cons]
    constructor
    · rintro ((h | h) | h)
      · exact Or.inr (Or.inl h)
      · exact Or.inl h
      · exact Or.inr (Or.inr h)
    · rintro (h | h | h)
      · exact Or.inl (Or.inr h)
      · exact Or.inl (Or.inl h)
      · exact Or.inr h

theorem VarSet.sorted_union {a b : List Nat} (h : VarSet.Sorted a) :
    VarSet.Sorted (VarSet.union a b) := by
  unfold VarSet.union
  induction b generalizing a with
  | nil => simpa using h
  | cons y ys ih =>
    simp only [List.foldl_cons]
    exact ih (VarSet.sorted_insert h)

@[simp] theorem VarSet.union_nil (a : List Nat) : VarSet.union a [] = a := rfl

theorem VarSet.mem_inter {a b : List Nat} {x : Nat} :
    x ∈ VarSet.inter a b ↔ x ∈ a ∧ x ∈ b := by
  simp [VarSet.inter, List.mem_filter]

theorem VarSet.mem_minus {a b : List Nat} {x : Nat} :
    x ∈ VarSet.minus a b ↔ x ∈ a ∧ x ∉ b := by
  simp [VarSet.minus, List.mem_filter]

theorem VarSet.sorted_inter {a b : List Nat} (h : VarSet.Sorted a) :
    VarSet.Sorted (VarSet.inter a b) :=
  List.Pairwise.filter _ h

theorem VarSet.sorted_minus {a b : List Nat} (h : VarSet.Sorted a) :
    VarSet.Sorted (VarSet.minus a b) :=
  List.Pairwise.filter _ h

theorem VarSet.Sorted.nodup {l : List Nat} (h : VarSet.Sorted l) : l.Nodup :=
  List.Pairwise.imp (fun {a b} (hab : a < b) => Nat.ne_of_lt hab) h

/-! ## clause variable sets -/

/-- the variable set of a clause, as `init_vars` computes it on a fresh leaf -/
def clauseVars (c : Spec.Clause) : List Nat := c.foldl (fun s l => VarSet.insert l.var s) []

theorem mem_foldl_insert {c : Spec.Clause} {s : List Nat} {x : Nat} :
    x ∈ c.foldl (fun s l => VarSet.insert l.var s) s ↔ x ∈ s ∨ ∃ l ∈ c, l.var = x := by
  induction c generalizing s with
  | nil => simp
  | cons l ls ih =>
    simp only [List.foldl_cons, ih, VarSet.mem_insert, List.mem_cons]
    constructor
    · rintro ((h | h) | ⟨l', h1, h2⟩)
      · exact Or.inr ⟨l, Or.inl rfl, h.symm⟩
      · exact Or.inl h
      · exact Or.inr ⟨l', Or.inr h1, h2⟩
    · rintro (h | ⟨l', h1 | h1, h2⟩)
      · exact Or.inl (Or.inr h)
      · subst h1; exact Or.inl (Or.inl h2.symm)
      · exact Or.inr ⟨l', h1, h2⟩

theorem sorted_foldl_insert {c : Spec.Clause} {s : List Nat} (h : VarSet.Sorted s) :
    VarSet.Sorted (c.foldl (fun s l => VarSet.insert l.var s) s) := by
  induction c generalizing s with
  | nil => simpa using h
  | cons l ls ih => simp only [List.foldl_cons]; exact ih (VarSet.sorted_insert h)

/-- folding in variables that are all already there does nothing -/
theorem foldl_insert_of_subset {c : Spec.Clause} {s : List Nat} (h : VarSet.Sorted s)
    (hs : ∀ l ∈ c, l.var ∈ s) : c.foldl (fun s l => VarSet.insert l.var s) s = s := by
  induction c with
  | nil => rfl
  | cons l ls ih =>
    simp only [List.foldl_cons]
    rw [VarSet.insert_of_mem h (hs l (List.mem_cons_self ..))]
    exact ih (fun l' hl' => hs l' (List.mem_cons_of_mem _ hl'))

theorem mem_clauseVars {c : Spec.Clause} {x : Nat} : x ∈ clauseVars c ↔ ∃ l ∈ c, l.var = x := by
  simp [clauseVars, mem_foldl_insert]

theorem sorted_clauseVars (c : Spec.Clause) : VarSet.Sorted (clauseVars c) :=
  sorted_foldl_insert (List.Pairwise.nil)

theorem foldl_insert_clauseVars (c : Spec.Clause) :
    c.foldl (fun s l => VarSet.insert l.var s) (clauseVars c) = clauseVars c :=
  foldl_insert_of_subset (sorted_clauseVars c) (fun l hl => mem_clauseVars.2 ⟨l, hl, rfl⟩)

/-! ## dtree invariants -/

/-- every leaf's `vars` is its clause's variable set, every node's `vars` is the union of its
children's -/
def DTree.VarsOk : DTree → Prop
  | .leaf c _ vs => vs = clauseVars c
  | .node l r _ vs => vs = VarSet.union l.vars r.vars ∧ DTree.VarsOk l ∧ DTree.VarsOk r

/-- `anc` = union of the cutsets of the proper ancestors; every node's cutset is
`(vars l ∩ vars r) \ anc`, every leaf's is `vars \ anc` (as `gen_cutset` defines it for leaves) -/
def DTree.CutsOk (anc : List Nat) : DTree → Prop
  | .leaf _ cut vs => cut = VarSet.minus vs anc
  | .node l r cut _ => cut = VarSet.minus (VarSet.inter l.vars r.vars) anc ∧
      DTree.CutsOk (VarSet.union anc cut) l ∧ DTree.CutsOk (VarSet.union anc cut) r

/-- every leaf's `vars` is its clause's variable set (nothing is said about inner nodes) -/
def DTree.LeafVarsOk : DTree → Prop
  | .leaf c _ vs => vs = clauseVars c
  | .node l r _ _ => DTree.LeafVarsOk l ∧ DTree.LeafVarsOk r

theorem DTree.VarsOk.leafVarsOk {d : DTree} (h : d.VarsOk) : d.LeafVarsOk := by
  induction d with
  | leaf c cut vs => exact h
  | node l r cut vs ihl ihr => exact ⟨ihl h.2.1, ihr h.2.2⟩

/-! ### `initVars` -/

@[simp] theorem initVars_leaves (d : DTree) : (DTree.initVars d).leaves = d.leaves := by
  induction d with
  | leaf c cut vs => rfl
  | node l r cut vs ihl ihr => simp [DTree.initVars, DTree.leaves, ihl, ihr]

theorem initVars_varsOk {d : DTree} (h : d.LeafVarsOk) : (DTree.initVars d).VarsOk := by
  induction d with
  | leaf c cut vs =>
    have h' : vs = clauseVars c := h
    subst h'
    simp only [DTree.initVars, DTree.VarsOk]
    exact foldl_insert_clauseVars c
  | node l r cut vs ihl ihr =>
    exact ⟨rfl, ihl h.1, ihr h.2⟩

/-- `init_vars` is the identity on a tree whose `vars` are already right -/
theorem initVars_eq_self {d : DTree} (h : d.VarsOk) : DTree.initVars d = d := by
  induction d with
  | leaf c cut vs =>
    have h' : vs = clauseVars c := h
    subst h'
    simp only [DTree.initVars]
    rw [foldl_insert_clauseVars c]
  | node l r cut vs ihl ihr =>
    obtain ⟨h1, h2, h3⟩ := h
    simp only [DTree.initVars, ihl h2, ihr h3]
    rw [h1]

theorem leafOf_varsOk (c : Clause) : (DTree.leafOf c).VarsOk := by
  simp [DTree.leafOf, DTree.initVars, DTree.VarsOk, clauseVars]

@[simp] theorem leafOf_leaves (c : Clause) : (DTree.leafOf c).leaves = [c] := rfl

/-! ### `balanced` -/

/-- `d` is obtained from the non-empty forest `ts` by putting fresh nodes (empty `vars`, empty
cutset) on top, keeping the left-to-right order -/
inductive Built : List DTree → DTree → Prop
  | single (t : DTree) : Built [t] t
  | node {a b : List DTree} {l r : DTree} : Built a l → Built b r → Built (a ++ b) (.node l r [] [])

theorem balancedAux_nil (fuel : Nat) : DTree.balancedAux fuel [] = none := by
  cases fuel <;> rfl

theorem balancedAux_built : ∀ (fuel : Nat) (ts : List DTree), ts ≠ [] → ts.length ≤ fuel →
    ∃ d, DTree.balancedAux fuel ts = some d ∧ Built ts d := by
  intro fuel
  induction fuel with
  | zero =>
    intro ts hne hlen
    cases ts with
    | nil => exact absurd rfl hne
    | cons a as => simp at hlen
  | succ n ih =>
    intro ts hne hlen
    match ts, hne, hlen with
    | [], hne, _ => exact absurd rfl hne
    | [t], _, _ => exact ⟨t, rfl, Built.single t⟩
    | a :: b :: rest, _, hlen =>
      have hlen' : rest.length + 2 ≤ n + 1 := by simpa using hlen
      let ts := a :: b :: rest
      have hts : ts.length = rest.length + 2 := rfl
      have hk1 : 0 < ts.length / 2 := by omega
      have hk2 : ts.length / 2 < ts.length := by omega
      have htake : ts.take (ts.length / 2) ≠ [] := by
        intro h
        have := congrArg List.length h
        simp only [List.length_take, List.length_nil] at this
        omega
      have hdrop : ts.drop (ts.length / 2) ≠ [] := by
        intro h
        have := congrArg List.length h
        simp only [List.length_drop, List.length_nil] at this
        omega
      have hl1 : (ts.take (ts.length / 2)).length ≤ n := by
        simp only [List.length_take]; omega
      have hl2 : (ts.drop (ts.length / 2)).length ≤ n := by
        simp only [List.length_drop]; omega
      obtain ⟨l, hl, bl⟩ := ih _ htake hl1
      obtain ⟨r, hr, br⟩ := ih _ hdrop hl2
      refine ⟨.node l r [] [], ?_, ?_⟩
      · show DTree.balancedAux (n + 1) ts = _
        simp only [ts] at hl hr ⊢
        unfold DTree.balancedAux
        simp only [hl, hr]
      · have := Built.node bl br
        rwa [List.take_append_drop] at this

theorem balanced_nil : DTree.balanced [] = none := rfl

theorem balanced_built {ts : List DTree} (h : ts ≠ []) :
    ∃ d, DTree.balanced ts = some d ∧ Built ts d :=
  balancedAux_built ts.length ts h (Nat.le_refl _)

theorem balanced_some {ts : List DTree} {d : DTree} (h : DTree.balanced ts = some d) :
    Built ts d := by
  by_cases hne : ts = []
  · subst hne; simp [balanced_nil] at h
  · obtain ⟨d', h1, h2⟩ := balanced_built hne
    rw [h1] at h
    cases h
    exact h2

theorem balanced_none {ts : List DTree} (h : DTree.balanced ts = none) : ts = [] := by
  by_cases hne : ts = []
  · exact hne
  · obtain ⟨d', h1, _⟩ := balanced_built hne
    rw [h1] at h
    cases h

/-- all leaf clauses of a forest, left to right -/
def allLeaves (ts : List DTree) : List Clause := ts.flatMap DTree.leaves

theorem Built.leaves {ts : List DTree} {d : DTree} (h : Built ts d) : d.leaves = allLeaves ts := by
  induction h with
  | single t => simp [allLeaves]
  | node _ _ ihl ihr => simp [allLeaves, DTree.leaves, ihl, ihr] at *

theorem Built.ne_nil {ts : List DTree} {d : DTree} (h : Built ts d) : ts ≠ [] := by
  induction h with
  | single t => simp
  | node _ _ ihl ihr => simp [ihl]

theorem Built.leafVarsOk {ts : List DTree} {d : DTree} (h : Built ts d)
    (hts : ∀ t ∈ ts, t.LeafVarsOk) : d.LeafVarsOk := by
  induction h with
  | single t => exact hts t (by simp)
  | node _ _ ihl ihr =>
    exact ⟨ihl (fun t ht => hts t (List.mem_append_left _ ht)),
      ihr (fun t ht => hts t (List.mem_append_right _ ht))⟩

end VT
