import RsddModel.Model.Bdd
/-!
# Lemmas: canonicity of reduced ordered BDDs with complement edges

`Ptr.above lvl k p` : `p` is ordered w.r.t. the level map `lvl` and every variable of `p` sits
at a level `≥ k` (so `above lvl 0` is plain orderedness).
`Ptr.red p` : no node with `lo = hi`, every high edge regular and not `fls`.
`canon` : two well formed diagrams denote the same function iff they are equal.
-/
namespace Bdd
open Spec

def Ptr.size : Ptr → Nat
  | .tru | .fls => 1
  | .node _ _ lo hi => 1 + lo.size + hi.size

/-- `p` is ordered and all its variables have level `≥ k` -/
def Ptr.above (lvl : Nat → Nat) (k : Nat) : Ptr → Prop
  | .tru | .fls => True
  | .node _ v lo hi => k ≤ lvl v ∧ lo.above lvl (lvl v + 1) ∧ hi.above lvl (lvl v + 1)

/-- reduced + normalised high edge -/
def Ptr.red : Ptr → Prop
  | .tru | .fls => True
  | .node _ _ lo hi => lo ≠ hi ∧ hi.isNeg = false ∧ hi ≠ .fls ∧ lo.red ∧ hi.red

/-- well formed ROBDD: ordered, reduced, regular non-false high edges -/
def WF (lvl : Nat → Nat) (p : Ptr) : Prop := p.above lvl 0 ∧ p.red

theorem above_mono {lvl k k'} (h : k' ≤ k) : ∀ {p : Ptr}, p.above lvl k → p.above lvl k'
  | .tru, _ => trivial
  | .fls, _ => trivial
  | .node _ _ _ _, ⟨h1, h2, h3⟩ => ⟨Nat.le_trans h h1, h2, h3⟩

theorem above_zero {lvl k} {p : Ptr} (h : p.above lvl k) : p.above lvl 0 :=
  above_mono (Nat.zero_le _) h

/-- a diagram whose variables all lie strictly after `x` does not depend on `x` -/
theorem eval_upd_of_above {lvl : Nat → Nat} {x : Nat} (b : Bool) (a : Assign) :
    ∀ {p : Ptr} {k}, p.above lvl k → lvl x < k → p.eval (upd a x b) = p.eval a
  | .tru, _, _, _ => rfl
  | .fls, _, _, _ => rfl
  | .node c v lo hi, k, ⟨h1, h2, h3⟩, hx => by
    have hv : v ≠ x := by intro e; subst e; omega
    have hlo := eval_upd_of_above b a h2 (by omega : lvl x < lvl v + 1)
    have hhi := eval_upd_of_above b a h3 (by omega : lvl x < lvl v + 1)
    simp [Ptr.eval, upd, hv, hlo, hhi]

@[simp] theorem size_neg (p : Ptr) : p.neg.size = p.size := by cases p <;> simp [Ptr.neg, Ptr.size]
theorem above_neg {lvl k} {p : Ptr} (h : p.above lvl k) : p.neg.above lvl k := by
  cases p <;> simp_all [Ptr.neg, Ptr.above]
theorem red_neg {p : Ptr} (h : p.red) : p.neg.red := by
  cases p <;> simp_all [Ptr.neg, Ptr.red]
theorem above_of_neg {lvl k} {p : Ptr} (h : p.neg.above lvl k) : p.above lvl k := by
  have := above_neg h; rwa [neg_neg] at this
theorem red_of_neg {p : Ptr} (h : p.neg.red) : p.red := by
  have := red_neg h; rwa [neg_neg] at this
theorem WF_neg {lvl} {p : Ptr} (h : WF lvl p) : WF lvl p.neg := ⟨above_neg h.1, red_neg h.2⟩
theorem WF_tru (lvl) : WF lvl .tru := ⟨trivial, trivial⟩
theorem WF_fls (lvl) : WF lvl .fls := ⟨trivial, trivial⟩

theorem xor_ne_flip {c c' x y : Bool} (h : xor c x = xor c' y) (hc : c ≠ c') : x = !y := by
  cases c <;> cases c' <;> cases x <;> cases y <;> simp_all
theorem xor_cancel {c x y : Bool} (h : xor c x = xor c y) : x = y := by
  cases c <;> cases x <;> cases y <;> simp_all

theorem size_pos (p : Ptr) : 0 < p.size := by cases p <;> simp [Ptr.size] <;> omega

/-- ROBDD canonicity with complement edges, for every injective level map -/
theorem canon_aux (lvl : Nat → Nat) (inj : ∀ x y, lvl x = lvl y → x = y) :
    ∀ n (p q : Ptr) k, p.size + q.size ≤ n → p.above lvl k → q.above lvl k → p.red → q.red →
      (∀ a, p.eval a = q.eval a) → p = q := by
  intro n
  induction n with
  | zero => intro p q k hs; have := size_pos p; omega
  | succ n ih =>
    intro p q k hs hap haq hrp hrq hsem
    -- a reduced ordered node depends on its top variable
    have dep : ∀ c v lo hi j, (Ptr.node c v lo hi).size ≤ n + 1 → (Ptr.node c v lo hi).above lvl j →
        (Ptr.node c v lo hi).red →
        ∃ a, (Ptr.node c v lo hi).eval (upd a v true) ≠ (Ptr.node c v lo hi).eval (upd a v false) := by
      intro c v lo hi j hsz ha hr
      obtain ⟨_, halo, hahi⟩ := ha
      obtain ⟨hne, _, _, hrlo, hrhi⟩ := hr
      have : ¬ ∀ a, lo.eval a = hi.eval a := by
        intro hall
        exact hne (ih lo hi (lvl v + 1) (by simp [Ptr.size] at hsz; omega) halo hahi hrlo hrhi hall)
      obtain ⟨a, ha⟩ := Classical.not_forall.mp this
      refine ⟨a, ?_⟩
      have e1 := eval_upd_of_above (x := v) true a hahi (Nat.lt_succ_self _)
      have e2 := eval_upd_of_above (x := v) false a halo (Nat.lt_succ_self _)
      simp [Ptr.eval, upd, e1, e2]
      intro h; exact ha h.symm
    -- a reduced ordered node is not constant
    have nonconst : ∀ c v lo hi j (b : Bool), (Ptr.node c v lo hi).size ≤ n + 1 →
        (Ptr.node c v lo hi).above lvl j → (Ptr.node c v lo hi).red →
        ¬ ∀ a, (Ptr.node c v lo hi).eval a = b := by
      intro c v lo hi j b hsz ha hr hall
      obtain ⟨a, h⟩ := dep c v lo hi j hsz ha hr
      exact h (by rw [hall, hall])
    cases p with
    | tru =>
      cases q with
      | tru => rfl
      | fls => have := hsem (fun _ => false); simp [Ptr.eval] at this
      | node c v lo hi =>
        have hsz : (Ptr.node c v lo hi).size ≤ n + 1 := by
          have := size_pos Ptr.tru; omega
        exact absurd (fun a => (hsem a).symm) (nonconst c v lo hi k true hsz haq hrq)
    | fls =>
      cases q with
      | fls => rfl
      | tru => have := hsem (fun _ => false); simp [Ptr.eval] at this
      | node c v lo hi =>
        have hsz : (Ptr.node c v lo hi).size ≤ n + 1 := by
          have := size_pos Ptr.fls; omega
        exact absurd (fun a => (hsem a).symm) (nonconst c v lo hi k false hsz haq hrq)
    | node c v lo hi =>
      cases q with
      | tru =>
        have hsz : (Ptr.node c v lo hi).size ≤ n + 1 := by
          have := size_pos Ptr.tru; omega
        exact absurd hsem (nonconst c v lo hi k true hsz hap hrp)
      | fls =>
        have hsz : (Ptr.node c v lo hi).size ≤ n + 1 := by
          have := size_pos Ptr.fls; omega
        exact absurd hsem (nonconst c v lo hi k false hsz hap hrp)
      | node c' v' lo' hi' =>
        have szp : (Ptr.node c v lo hi).size ≤ n + 1 := by
          have := size_pos (Ptr.node c' v' lo' hi'); omega
        have szq : (Ptr.node c' v' lo' hi').size ≤ n + 1 := by
          have := size_pos (Ptr.node c v lo hi); omega
        rcases Nat.lt_trichotomy (lvl v) (lvl v') with hlt | heq | hgt
        · -- q does not depend on v, p does
          obtain ⟨a, ha⟩ := dep c v lo hi k szp hap hrp
          have hq : (Ptr.node c' v' lo' hi').above lvl (lvl v + 1) := by
            obtain ⟨_, h2, h3⟩ := haq; exact ⟨hlt, h2, h3⟩
          have e1 := eval_upd_of_above (x := v) true a hq (Nat.lt_succ_self _)
          have e2 := eval_upd_of_above (x := v) false a hq (Nat.lt_succ_self _)
          exact absurd (by rw [hsem, hsem, e1, e2]) ha
        · have hv : v = v' := inj _ _ heq
          subst hv
          obtain ⟨_, halo, hahi⟩ := hap
          obtain ⟨_, halo', hahi'⟩ := haq
          obtain ⟨hne, hreg, hnf, hrlo, hrhi⟩ := hrp
          obtain ⟨hne', hreg', hnf', hrlo', hrhi'⟩ := hrq
          have hsz : lo.size + lo'.size ≤ n ∧ hi.size + hi'.size ≤ n := by
            simp [Ptr.size] at hs; omega
          -- cofactor equations
          have chi : ∀ a, xor c (hi.eval a) = xor c' (hi'.eval a) := by
            intro a
            have := hsem (upd a v true)
            simpa [Ptr.eval, upd, eval_upd_of_above (x := v) true a hahi (Nat.lt_succ_self _),
              eval_upd_of_above (x := v) true a hahi' (Nat.lt_succ_self _)] using this
          have clo : ∀ a, xor c (lo.eval a) = xor c' (lo'.eval a) := by
            intro a
            have := hsem (upd a v false)
            simpa [Ptr.eval, upd, eval_upd_of_above (x := v) false a halo (Nat.lt_succ_self _),
              eval_upd_of_above (x := v) false a halo' (Nat.lt_succ_self _)] using this
          by_cases hc : c = c'
          · subst hc
            have e1 : hi = hi' := ih hi hi' _ hsz.2 hahi hahi' hrhi hrhi' (by
              intro a; exact xor_cancel (chi a))
            have e2 : lo = lo' := ih lo lo' _ hsz.1 halo halo' hrlo hrlo' (by
              intro a; exact xor_cancel (clo a))
            rw [e1, e2]
          · exfalso
            have e1 : hi = hi'.neg := ih hi hi'.neg _ (by simpa using hsz.2) hahi (above_neg hahi') hrhi
              (red_neg hrhi') (by
                intro a; rw [eval_neg]; exact xor_ne_flip (chi a) hc)
            cases hi' with
            | tru => simp [Ptr.neg] at e1; exact hnf e1
            | fls => exact hnf' rfl
            | node c2 _ _ _ =>
              cases c2 with
              | true => simp [Ptr.isNeg] at hreg'
              | false => rw [e1] at hreg; simp [Ptr.neg, Ptr.isNeg] at hreg
        · obtain ⟨a, ha⟩ := dep c' v' lo' hi' k szq haq hrq
          have hp : (Ptr.node c v lo hi).above lvl (lvl v' + 1) := by
            obtain ⟨_, h2, h3⟩ := hap; exact ⟨hgt, h2, h3⟩
          have e1 := eval_upd_of_above (x := v') true a hp (Nat.lt_succ_self _)
          have e2 := eval_upd_of_above (x := v') false a hp (Nat.lt_succ_self _)
          exact absurd (by rw [← hsem, ← hsem, e1, e2]) ha

/-- canonicity at an arbitrary base level -/
theorem canon_above (lvl : Nat → Nat) (inj : ∀ x y, lvl x = lvl y → x = y) (p q : Ptr) (k : Nat)
    (hp : p.above lvl k) (hq : q.above lvl k) (rp : p.red) (rq : q.red) :
    (∀ a, p.eval a = q.eval a) ↔ p = q :=
  ⟨canon_aux lvl inj _ p q k (Nat.le_refl _) hp hq rp rq, fun h _ => by rw [h]⟩

/-- **Canonicity**: for an injective level map, two well formed diagrams denote the same
Boolean function iff they are (structurally) equal. -/
theorem canon (lvl : Nat → Nat) (inj : ∀ x y, lvl x = lvl y → x = y) {p q : Ptr}
    (hp : WF lvl p) (hq : WF lvl q) : (∀ a, p.eval a = q.eval a) ↔ p = q :=
  canon_above lvl inj p q 0 hp.1 hq.1 hp.2 hq.2

#print axioms canon
end Bdd
