import RsddModel.Model.TopDown
import RsddModel.Lemmas.Wmc
/-!
# Lemmas: top-down compilation to decision-DNNF (C06)

Part 1: node-store contract (`NodeStore.Sound`), the standard store, conditioning (`condHelper_spec`).
Part 2: residual formulas.
Part 3: implied-literal chains, `GoodM` and the cache-reuse lemma `GoodM.transfer`, unfolding of
        `topdownH`, `topdownH_hit_after`.
Part 4: the semantic store under `CollisionFree`.
The solver specification and the main induction are in `Lemmas/TopDownSolver.lean`, the instance
for the reference solver in `Lemmas/TopDownNaive.lean`, the property statements in `Props/C06.lean`.
-/
namespace TopDown
open Spec Bdd

/-! ## Part 1: node stores -/

/-- what the compiler and `cond_helper` need from `get_or_insert`: the returned pointer
denotes the requested node, tests no other variables, and is free when the requested node
is; `inv` is whatever invariant of the store state makes that true. -/
structure NodeStore.Sound (NS : NodeStore) (inv : NS.τ → Prop) : Prop where
  inv_step : ∀ t, inv t → ∀ v lo hi, inv (NS.getOrInsert t v lo hi).2
  eval_eq : ∀ t, inv t → ∀ v lo hi a,
    (NS.getOrInsert t v lo hi).1.eval a = (Ptr.node false v lo hi).eval a
  vars_sub : ∀ t, inv t → ∀ v lo hi, ∀ x ∈ (NS.getOrInsert t v lo hi).1.vars,
    x ∈ (Ptr.node false v lo hi).vars
  free : ∀ t, inv t → ∀ v lo hi, (Ptr.node false v lo hi).free → (NS.getOrInsert t v lo hi).1.free

theorem isNeg_eq_true {p : Ptr} (h : p.isNeg = true) : ∃ v lo hi, p = .node true v lo hi := by
  cases p with
  | tru => simp [Ptr.isNeg] at h
  | fls => simp [Ptr.isNeg] at h
  | node c v lo hi => cases c <;> simp [Ptr.isNeg] at h; exact ⟨v, lo, hi, rfl⟩

theorem dnnfNode_eval (v : Nat) (lo hi : Ptr) (a : Assign) :
    (dnnfNode v lo hi).eval a = (Ptr.node false v lo hi).eval a := by
  unfold dnnfNode
  split
  · simp only [Ptr.eval, eval_neg]; cases a v <;> simp
  · rfl

theorem dnnfNode_vars (v : Nat) (lo hi : Ptr) : (dnnfNode v lo hi).vars = v :: (lo.vars ++ hi.vars) := by
  unfold dnnfNode; split <;> simp [Ptr.vars]

theorem dnnfNode_free {v : Nat} {lo hi : Ptr} (h : (Ptr.node false v lo hi).free) :
    (dnnfNode v lo hi).free := by
  unfold dnnfNode
  split
  · simp only [Ptr.free, vars_neg] at h ⊢
    exact ⟨h.1, h.2.1, free_neg h.2.2.1, free_neg h.2.2.2⟩
  · exact h

/-- the standard store satisfies the contract unconditionally -/
theorem standardStore_sound : standardStore.Sound (fun _ => True) where
  inv_step := fun _ _ _ _ _ => trivial
  eval_eq := fun _ _ v lo hi a => dnnfNode_eval v lo hi a
  vars_sub := fun _ _ v lo hi x hx => by
    have : x ∈ (dnnfNode v lo hi).vars := hx
    rw [dnnfNode_vars] at this; exact this
  free := fun _ _ _ _ _ h => dnnfNode_free h

/-! ### `negIf` -/

@[simp] theorem negIf_eval (c : Bool) (r : Ptr) (a : Assign) : (negIf c r).eval a = xor c (r.eval a) := by
  cases c <;> simp [negIf]
@[simp] theorem negIf_vars (c : Bool) (r : Ptr) : (negIf c r).vars = r.vars := by
  cases c <;> simp [negIf]
theorem negIf_free {c : Bool} {r : Ptr} (h : r.free) : (negIf c r).free := by
  cases c
  · exact h
  · exact free_neg h

theorem free_node_flag {c c' : Bool} {v : Nat} {lo hi : Ptr} (h : (Ptr.node c v lo hi).free) :
    (Ptr.node c' v lo hi).free := h

/-! ### conditioning -/

theorem condHelper_same (NS : NodeStore) (x : Nat) (b c : Bool) (lo hi : Ptr) (t : NS.τ) :
    condHelper NS x b (.node c x lo hi) t = (negIf c (if b then hi else lo), t) := by
  simp [condHelper]

theorem condHelper_other (NS : NodeStore) {x v : Nat} (hvx : v ≠ x) (b c : Bool) (lo hi : Ptr) (t : NS.τ) :
    condHelper NS x b (.node c v lo hi) t =
      if (condHelper NS x b lo t).1 = (condHelper NS x b hi (condHelper NS x b lo t).2).1 then
        (negIf c (condHelper NS x b lo t).1, (condHelper NS x b hi (condHelper NS x b lo t).2).2)
      else if (condHelper NS x b lo t).1 ≠ lo ∨ (condHelper NS x b hi (condHelper NS x b lo t).2).1 ≠ hi then
        (negIf c (NS.getOrInsert (condHelper NS x b hi (condHelper NS x b lo t).2).2 v
            (condHelper NS x b lo t).1 (condHelper NS x b hi (condHelper NS x b lo t).2).1).1,
          (NS.getOrInsert (condHelper NS x b hi (condHelper NS x b lo t).2).2 v
            (condHelper NS x b lo t).1 (condHelper NS x b hi (condHelper NS x b lo t).2).1).2)
      else (.node c v lo hi, (condHelper NS x b hi (condHelper NS x b lo t).2).2) := by
  simp [condHelper, hvx]

/-- everything about `cond_helper` at once: store invariant, denotation, variables, freeness -/
theorem condHelper_spec {NS : NodeStore} {inv : NS.τ → Prop} (hNS : NS.Sound inv) (x : Nat) (b : Bool) :
    ∀ (p : Ptr) (t : NS.τ), inv t → p.free →
      inv (condHelper NS x b p t).2 ∧
      (∀ a, (condHelper NS x b p t).1.eval a = p.eval (upd a x b)) ∧
      (∀ y ∈ (condHelper NS x b p t).1.vars, y ∈ p.vars ∧ y ≠ x) ∧
      (condHelper NS x b p t).1.free
  | .tru, t, ht, _ => ⟨ht, fun _ => rfl, fun y hy => by simp [condHelper, Ptr.vars] at hy, trivial⟩
  | .fls, t, ht, _ => ⟨ht, fun _ => rfl, fun y hy => by simp [condHelper, Ptr.vars] at hy, trivial⟩
  | .node c v lo hi, t, ht, hf => by
    obtain ⟨hvlo, hvhi, hflo, hfhi⟩ := hf
    by_cases hvx : v = x
    · subst hvx
      rw [condHelper_same]
      refine ⟨ht, ?_, ?_, ?_⟩
      · intro a
        simp only [negIf_eval, Ptr.eval, upd_same]
        cases b
        · simp [eval_upd_of_not_mem a v false lo hvlo]
        · simp [eval_upd_of_not_mem a v true hi hvhi]
      · intro y hy
        simp only [negIf_vars] at hy
        cases b
        · simp only [Bool.false_eq_true, if_false] at hy
          exact ⟨by simp [Ptr.vars, hy], fun e => hvlo (e ▸ hy)⟩
        · simp only [if_true] at hy
          exact ⟨by simp [Ptr.vars, hy], fun e => hvhi (e ▸ hy)⟩
      · apply negIf_free; cases b <;> simp [hflo, hfhi]
    · rw [condHelper_other NS hvx]
      have ihl := condHelper_spec hNS x b lo t ht hflo
      generalize condHelper NS x b lo t = rl at ihl ⊢
      obtain ⟨l, t1⟩ := rl
      obtain ⟨ht1, hle, hlv, hlf⟩ := ihl
      have ihh := condHelper_spec hNS x b hi t1 ht1 hfhi
      generalize condHelper NS x b hi t1 = rh at ihh ⊢
      obtain ⟨h, t2⟩ := rh
      obtain ⟨ht2, hhe, hhv, hhf⟩ := ihh
      simp only at hle hlv hlf hhe hhv hhf ht1 ht2 ⊢
      split
      · -- l = h
        rename_i hlh
        refine ⟨ht2, ?_, ?_, negIf_free hlf⟩
        · intro a
          simp only [negIf_eval, Ptr.eval, upd_other a b hvx, ← hle, ← hhe, hlh]
          cases a v <;> simp
        · intro y hy
          simp only [negIf_vars] at hy
          exact ⟨by simp [Ptr.vars, (hlv y hy).1], (hlv y hy).2⟩
      · split
        · -- a new node
          have hfree : (Ptr.node false v l h).free :=
            ⟨fun e => hvlo (hlv v e).1, fun e => hvhi (hhv v e).1, hlf, hhf⟩
          refine ⟨hNS.inv_step t2 ht2 v l h, ?_, ?_, negIf_free (hNS.free t2 ht2 v l h hfree)⟩
          · intro a
            simp only [negIf_eval, hNS.eval_eq t2 ht2, Ptr.eval, upd_other a b hvx, hle, hhe,
              Bool.false_xor]
          · intro y hy
            simp only [negIf_vars] at hy
            have := hNS.vars_sub t2 ht2 v l h y hy
            simp only [Ptr.vars, List.mem_cons, List.mem_append] at this ⊢
            rcases this with e | e | e
            · exact ⟨Or.inl e, e ▸ hvx⟩
            · exact ⟨Or.inr (Or.inl (hlv y e).1), (hlv y e).2⟩
            · exact ⟨Or.inr (Or.inr (hhv y e).1), (hhv y e).2⟩
        · -- unchanged
          rename_i hne
          have hl : l = lo := Classical.byContradiction fun e => hne (Or.inl e)
          have hh : h = hi := Classical.byContradiction fun e => hne (Or.inr e)
          subst hl hh
          refine ⟨ht2, ?_, ?_, ⟨hvlo, hvhi, hflo, hfhi⟩⟩
          · intro a
            simp only [Ptr.eval, upd_other a b hvx, ← hle a, ← hhe a]
          · intro y hy
            simp only [Ptr.vars, List.mem_cons, List.mem_append] at hy ⊢
            rcases hy with e | e | e
            · exact ⟨Or.inl e, e ▸ hvx⟩
            · exact ⟨Or.inr (Or.inl e), (hlv y e).2⟩
            · exact ⟨Or.inr (Or.inr e), (hhv y e).2⟩

/-! ## Part 2: residual formulas -/

/-- `v` occurs in `cs` -/
def InCnf (cs : Cnf) (v : Nat) : Prop := ∃ c ∈ cs, ∃ l ∈ c, l.var = v

/-- `m'` assigns everything `m` assigns, the same way -/
def PExt (m m' : PModel) : Prop := ∀ x b, m x = some b → m' x = some b

theorem PExt.refl (m : PModel) : PExt m m := fun _ _ h => h
theorem PExt.trans {m1 m2 m3 : PModel} (h1 : PExt m1 m2) (h2 : PExt m2 m3) : PExt m1 m3 :=
  fun x b h => h2 x b (h1 x b h)
theorem Extends.of_PExt {a : Assign} {m m' : PModel} (h : PExt m m') (ha : Extends a m') : Extends a m :=
  fun x b hx => ha x b (h x b hx)

theorem PExt_set {m : PModel} {x : Nat} (b : Bool) (h : m x = none) : PExt m (m.set x b) := by
  intro y c hy
  by_cases e : y = x
  · subst e; rw [h] at hy; cases hy
  · simp [PModel.set, e, hy]

theorem clauseSat_congr {a a' : Assign} : ∀ (c : Clause), (∀ l ∈ c, a l.var = a' l.var) →
    clauseSat a c = clauseSat a' c
  | [], _ => rfl
  | l :: c, h => by
    have ih := clauseSat_congr c (fun l' hl' => h l' (List.mem_cons_of_mem _ hl'))
    simp only [clauseSat, List.any_cons] at ih ⊢
    rw [ih]; simp only [litSat, h l List.mem_cons_self]

theorem cnfSat_congr {a a' : Assign} : ∀ (cs : Cnf), (∀ v, InCnf cs v → a v = a' v) →
    cnfSat a cs = cnfSat a' cs
  | [], _ => rfl
  | c :: cs, h => by
    have ih := cnfSat_congr cs (fun v ⟨c', hc', l, hl, e⟩ => h v ⟨c', List.mem_cons_of_mem _ hc', l, hl, e⟩)
    have hc := clauseSat_congr (a := a) (a' := a') c
      (fun l hl => h l.var ⟨c, List.mem_cons_self, l, hl, rfl⟩)
    simp only [cnfSat, List.all_cons] at ih ⊢
    rw [ih, hc]

theorem residual_nil (m : PModel) : residual [] m = [] := rfl

theorem residual_cons (c : Clause) (cs : Cnf) (m : PModel) :
    residual (c :: cs) m =
      if c.any (litTrue m) then residual cs m
      else (c.filter fun l => !litFalse m l) :: residual cs m := by
  simp only [residual, List.filter_cons]
  cases c.any (litTrue m) <;> simp

theorem litTrue_sat {a : Assign} {m : PModel} (ha : Extends a m) {l : Lit} (h : litTrue m l = true) :
    litSat a l = true := by
  simp only [litTrue, beq_iff_eq] at h
  simp [litSat, ha _ _ h]

theorem litFalse_unsat {a : Assign} {m : PModel} (ha : Extends a m) {l : Lit} (h : litFalse m l = true) :
    litSat a l = false := by
  simp only [litFalse, beq_iff_eq] at h
  simp [litSat, ha _ _ h]

theorem clauseSat_of_litTrue {a : Assign} {m : PModel} (ha : Extends a m) {c : Clause}
    (h : c.any (litTrue m) = true) : clauseSat a c = true := by
  simp only [List.any_eq_true] at h
  obtain ⟨l, hl, hlt⟩ := h
  simp only [clauseSat, List.any_eq_true]
  exact ⟨l, hl, litTrue_sat ha hlt⟩

theorem clauseSat_filter_false {a : Assign} {m : PModel} (ha : Extends a m) : ∀ (c : Clause),
    clauseSat a (c.filter fun l => !litFalse m l) = clauseSat a c
  | [] => rfl
  | l :: c => by
    have ih := clauseSat_filter_false ha c
    simp only [clauseSat] at ih
    simp only [clauseSat, List.filter_cons]
    cases hf : litFalse m l
    · simp [ih]
    · simp [ih, litFalse_unsat ha hf]

/-- on the assignments that extend `m`, the residual is the formula -/
theorem residual_sat {a : Assign} {m : PModel} (ha : Extends a m) : ∀ (cs : Cnf),
    cnfSat a (residual cs m) = cnfSat a cs
  | [] => rfl
  | c :: cs => by
    have ih := residual_sat ha cs
    rw [residual_cons]
    cases hc : c.any (litTrue m)
    · simp only [cnfSat, List.all_cons, Bool.false_eq_true, if_false] at ih ⊢
      rw [ih, clauseSat_filter_false ha]
    · simp only [cnfSat, List.all_cons, if_true] at ih ⊢
      rw [ih, clauseSat_of_litTrue ha hc]; rfl

theorem InCnf_cons {c : Clause} {cs : Cnf} {v : Nat} :
    InCnf (c :: cs) v ↔ (∃ l ∈ c, l.var = v) ∨ InCnf cs v := by
  constructor
  · rintro ⟨c', hc', l, hl, e⟩
    rcases List.mem_cons.1 hc' with h | h
    · subst h; exact Or.inl ⟨l, hl, e⟩
    · exact Or.inr ⟨c', h, l, hl, e⟩
  · rintro (⟨l, hl, e⟩ | ⟨c', hc', l, hl, e⟩)
    · exact ⟨c, List.mem_cons_self, l, hl, e⟩
    · exact ⟨c', List.mem_cons_of_mem _ hc', l, hl, e⟩

/-- what an occurrence in the residual means -/
theorem InCnf_residual {cs : Cnf} {m : PModel} {v : Nat} :
    InCnf (residual cs m) v ↔
      ∃ c ∈ cs, c.any (litTrue m) = false ∧ ∃ l ∈ c, litFalse m l = false ∧ l.var = v := by
  induction cs with
  | nil => simp [residual_nil, InCnf]
  | cons c cs ih =>
    rw [residual_cons]
    cases hc : c.any (litTrue m)
    · simp only [Bool.false_eq_true, if_false, InCnf_cons, ih]
      constructor
      · rintro (⟨l, hl, e⟩ | ⟨c', hc', h1, h2⟩)
        · simp only [List.mem_filter, Bool.not_eq_true'] at hl
          exact ⟨c, List.mem_cons_self, hc, l, hl.1, hl.2, e⟩
        · exact ⟨c', List.mem_cons_of_mem _ hc', h1, h2⟩
      · rintro ⟨c', hc', h1, l, hl, hlf, e⟩
        rcases List.mem_cons.1 hc' with h | h
        · subst h
          exact Or.inl ⟨l, by simp [List.mem_filter, hl, hlf], e⟩
        · exact Or.inr ⟨c', h, h1, l, hl, hlf, e⟩
    · simp only [if_true, ih]
      constructor
      · rintro ⟨c', hc', h⟩; exact ⟨c', List.mem_cons_of_mem _ hc', h⟩
      · rintro ⟨c', hc', h1, h2⟩
        rcases List.mem_cons.1 hc' with h | h
        · subst h; rw [hc] at h1; cases h1
        · exact ⟨c', h, h1, h2⟩

/-- the variables of the residual are unassigned -/
theorem residual_unset {cs : Cnf} {m : PModel} {v : Nat} (h : InCnf (residual cs m) v) : m v = none := by
  obtain ⟨c, _, hct, l, hl, hlf, e⟩ := InCnf_residual.1 h
  subst e
  have hlt : litTrue m l = false := by
    cases h' : litTrue m l
    · rfl
    · have : c.any (litTrue m) = true := List.any_eq_true.2 ⟨l, hl, h'⟩
      rw [hct] at this; cases this
  simp only [litTrue, litFalse, beq_eq_false_iff_ne, ne_eq] at hlt hlf
  cases hm : m l.var with
  | none => rfl
  | some b =>
    exfalso
    by_cases hb : b = l.pol
    · exact hlt (by rw [hm, hb])
    · apply hlf; rw [hm]; cases b <;> cases hp : l.pol <;> simp_all

theorem residual_in {cs : Cnf} {m : PModel} {v : Nat} (h : InCnf (residual cs m) v) : InCnf cs v := by
  obtain ⟨c, hc, _, l, hl, _, e⟩ := InCnf_residual.1 h
  exact ⟨c, hc, l, hl, e⟩

/-- the residual shrinks as the model grows -/
theorem residual_mono {cs : Cnf} {m m' : PModel} (hm : PExt m m') {v : Nat}
    (h : InCnf (residual cs m') v) : InCnf (residual cs m) v := by
  obtain ⟨c, hc, hct, l, hl, hlf, e⟩ := InCnf_residual.1 h
  refine InCnf_residual.2 ⟨c, hc, ?_, l, hl, ?_, e⟩
  · cases h' : c.any (litTrue m)
    · rfl
    · obtain ⟨l', hl', hlt⟩ := List.any_eq_true.1 h'
      have : c.any (litTrue m') = true := by
        refine List.any_eq_true.2 ⟨l', hl', ?_⟩
        simp only [litTrue, beq_iff_eq] at hlt ⊢
        exact hm _ _ hlt
      rw [hct] at this; cases this
  · cases h' : litFalse m l
    · rfl
    · have : litFalse m' l = true := by
        simp only [litFalse, beq_iff_eq] at h' ⊢
        exact hm _ _ h'
      rw [hlf] at this; cases this

/-- a diagram only looks at the variables it tests -/
theorem eval_congr_vars {a a' : Assign} : ∀ (p : Ptr), (∀ v ∈ p.vars, a v = a' v) → p.eval a = p.eval a'
  | .tru, _ => rfl
  | .fls, _ => rfl
  | .node c v lo hi, h => by
    have h1 := eval_congr_vars lo (fun x hx => h x (by simp [Ptr.vars, hx]))
    have h2 := eval_congr_vars hi (fun x hx => h x (by simp [Ptr.vars, hx]))
    simp only [Ptr.eval, h1, h2, h v (by simp [Ptr.vars])]

/-- `a` overridden by the partial model `m` -/
def override (a : Assign) (m : PModel) : Assign := fun x => (m x).getD (a x)

theorem override_extends (a : Assign) (m : PModel) : Extends (override a m) m := by
  intro x b h; simp [override, h]

theorem override_unset (a : Assign) {m : PModel} {x : Nat} (h : m x = none) : override a m x = a x := by
  simp [override, h]

/-! ## Part 3a: implied-literal chains -/

theorem implyChain_nil (NS : NodeStore) (t : NS.τ) (sub : Ptr) : implyChain NS t [] sub = (sub, t) := rfl

theorem implyChain_cons (NS : NodeStore) (t : NS.τ) (l : Lit) (ls : List Lit) (sub : Ptr) :
    implyChain NS t (l :: ls) sub =
      implyChain NS
        (if l.pol then NS.getOrInsert t l.var .fls sub else NS.getOrInsert t l.var sub .fls).2 ls
        (if l.pol then NS.getOrInsert t l.var .fls sub else NS.getOrInsert t l.var sub .fls).1 := rfl

/-- the chain is the conjunction of its literals with the diagram underneath -/
theorem implyChain_spec {NS : NodeStore} {inv : NS.τ → Prop} (hNS : NS.Sound inv) :
    ∀ (lits : List Lit) (t : NS.τ) (sub : Ptr), inv t → sub.free → (lits.map (·.var)).Nodup →
      (∀ l ∈ lits, l.var ∉ sub.vars) →
      inv (implyChain NS t lits sub).2 ∧
      (∀ a, (implyChain NS t lits sub).1.eval a = (lits.all (litSat a) && sub.eval a)) ∧
      (∀ x ∈ (implyChain NS t lits sub).1.vars, x ∈ sub.vars ∨ ∃ l ∈ lits, l.var = x) ∧
      (implyChain NS t lits sub).1.free
  | [], t, sub, ht, hf, _, _ => ⟨ht, fun a => by simp [implyChain_nil], fun x hx => Or.inl hx, hf⟩
  | l :: ls, t, sub, ht, hf, hnd, hns => by
    rw [implyChain_cons]
    simp only [List.map_cons, List.nodup_cons] at hnd
    have hl : l.var ∉ sub.vars := hns l List.mem_cons_self
    -- the new node
    have key : ∃ r t', (if l.pol then NS.getOrInsert t l.var .fls sub else NS.getOrInsert t l.var sub .fls) = (r, t') ∧
        inv t' ∧ (∀ a, r.eval a = (litSat a l && sub.eval a)) ∧
        (∀ x ∈ r.vars, x = l.var ∨ x ∈ sub.vars) ∧ r.free := by
      cases hp : l.pol
      · refine ⟨_, _, rfl, hNS.inv_step t ht _ _ _, ?_, ?_, ?_⟩
        · intro a
          simp only [hNS.eval_eq t ht, Ptr.eval, litSat, hp]
          cases a l.var <;> simp
        · intro x hx
          have := hNS.vars_sub t ht _ _ _ x hx
          simpa [Ptr.vars] using this
        · exact hNS.free t ht _ _ _ ⟨hl, by simp [Ptr.vars], hf, trivial⟩
      · refine ⟨_, _, rfl, hNS.inv_step t ht _ _ _, ?_, ?_, ?_⟩
        · intro a
          simp only [hNS.eval_eq t ht, Ptr.eval, litSat, hp]
          cases a l.var <;> simp
        · intro x hx
          have := hNS.vars_sub t ht _ _ _ x hx
          simpa [Ptr.vars] using this
        · exact hNS.free t ht _ _ _ ⟨by simp [Ptr.vars], hl, trivial, hf⟩
    obtain ⟨r, t', e, ht', hre, hrv, hrf⟩ := key
    rw [e]
    have hns' : ∀ l' ∈ ls, l'.var ∉ r.vars := by
      intro l' hl' hx
      rcases hrv _ hx with h | h
      · exact hnd.1 (List.mem_map.2 ⟨l', hl', h⟩)
      · exact hns l' (List.mem_cons_of_mem _ hl') h
    obtain ⟨h1, h2, h3, h4⟩ := implyChain_spec hNS ls t' r ht' hrf hnd.2 hns'
    refine ⟨h1, ?_, ?_, h4⟩
    · intro a
      simp only [h2, hre, List.all_cons]
      cases litSat a l <;> cases ls.all (litSat a) <;> simp
    · intro x hx
      rcases h3 x hx with h | ⟨l', hl', h⟩
      · rcases hrv x h with h | h
        · exact Or.inr ⟨l, List.mem_cons_self, h.symm⟩
        · exact Or.inl h
      · exact Or.inr ⟨l', List.mem_cons_of_mem _ hl', h⟩

theorem isFalse_iff {p : Ptr} : p.isFalse = true ↔ p = .fls := by
  cases p <;> simp [Ptr.isFalse]

/-! ## Part 3b: correct diagrams for a partial model; transfer along equal residuals -/

/-- `r` is what `topdown_h` should return under the partial model `m`: it agrees with the CNF
on every total assignment extending `m`, decides no variable twice on a path, and only tests
variables of the residual formula (which are unassigned in `m`). -/
structure GoodM (cnf : Cnf) (m : PModel) (r : Ptr) : Prop where
  sem : ∀ a, Extends a m → r.eval a = cnfSat a cnf
  free : r.free
  vars : ∀ v ∈ r.vars, InCnf (residual cnf m) v
  /-- anything but the false constant has a model among the extensions of `m` -/
  nonfalse : r ≠ .fls → ∃ a, Extends a m ∧ r.eval a = true

/-- THE cache-reuse lemma: a diagram that is good under `m0` is good under every `m` with the
same residual formula.  (The variable clause of `GoodM` is what makes this true.) -/
theorem GoodM.transfer {cnf : Cnf} {m0 m : PModel} {r : Ptr} (h : GoodM cnf m0 r)
    (hres : residual cnf m = residual cnf m0) : GoodM cnf m r where
  free := h.free
  vars := fun v hv => hres ▸ h.vars v hv
  nonfalse := fun hne => by
    obtain ⟨a, _, he⟩ := h.nonfalse hne
    refine ⟨override a m, override_extends a m, ?_⟩
    rw [← he]
    exact eval_congr_vars r fun v hv => override_unset a (residual_unset (hres ▸ h.vars v hv))
  sem := fun a ha => by
    have h1 : r.eval a = r.eval (override a m0) :=
      eval_congr_vars r fun v hv => (override_unset a (residual_unset (h.vars v hv))).symm
    have h2 : cnfSat a (residual cnf m0) = cnfSat (override a m0) (residual cnf m0) :=
      cnfSat_congr _ fun v hv => (override_unset a (residual_unset hv)).symm
    rw [h1, h.sem _ (override_extends a m0), ← residual_sat (override_extends a m0), ← h2, ← hres,
      residual_sat ha]

theorem GoodM.tru_of {cnf : Cnf} {m : PModel} (h : ∀ a, Extends a m → cnfSat a cnf = true) :
    GoodM cnf m .tru :=
  ⟨fun a ha => (h a ha).symm, trivial, fun v hv => by simp [Ptr.vars] at hv,
   fun _ => ⟨override (fun _ => false) m, override_extends _ m, rfl⟩⟩

/-! ## Part 3c: unfolding `topdownH`; a second run on an observationally equal state hits the cache -/

section
variable (S : Solver) (NS : NodeStore) (varAt : Nat → Nat)

theorem topdownH_zero (level : Nat) (s : S.σ) (c : Cache S.κ) (t : NS.τ) :
    topdownH S NS varAt 0 level s c t = (.tru, s, c, t) := rfl

theorem topdownH_succ (rem level : Nat) (s : S.σ) (c : Cache S.κ) (t : NS.τ) :
    topdownH S NS varAt (rem + 1) level s c t =
      if S.isSat s then (.tru, s, c, t) else
      if S.isSet s (varAt level) then topdownH S NS varAt rem (level + 1) s c t else
      match Cache.get c (S.curHash s) with
      | some v => (v, s, c, t)
      | none => decideNode S NS (fun s c t => topdownH S NS varAt rem (level + 1) s c t)
          (varAt level) (S.curHash s) s c t := rfl

theorem decideNode_cache (recur : S.σ → Cache S.κ → NS.τ → HRes S NS) (v : Nat) (k : S.κ)
    (s : S.σ) (c : Cache S.κ) (t : NS.τ) :
    ∃ c2, (decideNode S NS recur v k s c t).2.2.1 = (k, (decideNode S NS recur v k s c t).1) :: c2 := by
  unfold decideNode
  exact ⟨_, rfl⟩

theorem Cache.get_cons_self {κ : Type} [DecidableEq κ] (k : κ) (r : Ptr) (c : Cache κ) :
    Cache.get ((k, r) :: c) k = some r := by
  simp [Cache.get]

theorem Cache.get_mem {κ : Type} [DecidableEq κ] {c : Cache κ} {k : κ} {r : Ptr}
    (h : Cache.get c k = some r) : (k, r) ∈ c := by
  unfold Cache.get at h
  split at h
  · rename_i e he
    cases h
    have h1 := List.find?_some he
    have h2 := List.mem_of_find?_eq_some he
    simp only [beq_iff_eq] at h1
    rw [← h1]; exact h2
  · cases h

/-- the observations `topdown_h` makes of a solver state before it decides anything -/
def ObsEq (s s' : S.σ) : Prop :=
  S.isSat s = S.isSat s' ∧ (∀ v, S.isSet s v = S.isSet s' v) ∧ S.curHash s = S.curHash s'

/-- after `topdown_h` has run on `s`, running it with the resulting cache on a state that looks
the same returns the same pointer without touching anything -/
theorem topdownH_hit_after : ∀ (rem level : Nat) (s : S.σ) (c : Cache S.κ) (t : NS.τ) (s' : S.σ) (t' : NS.τ),
    ObsEq S s s' →
    topdownH S NS varAt rem level s' (topdownH S NS varAt rem level s c t).2.2.1 t' =
      ((topdownH S NS varAt rem level s c t).1, s', (topdownH S NS varAt rem level s c t).2.2.1, t')
  | 0, level, s, c, t, s', t', _ => rfl
  | rem + 1, level, s, c, t, s', t', h => by
    obtain ⟨h1, h2, h3⟩ := h
    rw [topdownH_succ S NS varAt rem level s c t]
    by_cases hs : S.isSat s = true
    · rw [if_pos hs, topdownH_succ, if_pos (h1 ▸ hs)]
    · rw [if_neg hs]
      by_cases hv : S.isSet s (varAt level) = true
      · rw [if_pos hv, topdownH_succ, if_neg (h1 ▸ hs), if_pos (h2 _ ▸ hv)]
        exact topdownH_hit_after rem (level + 1) s c t s' t' ⟨h1, h2, h3⟩
      · rw [if_neg hv]
        cases hg : Cache.get c (S.curHash s) with
        | some r =>
          simp only
          rw [topdownH_succ, if_neg (h1 ▸ hs), if_neg (h2 _ ▸ hv), ← h3, hg]
        | none =>
          simp only
          obtain ⟨c2, hc2⟩ := decideNode_cache S NS
            (fun s c t => topdownH S NS varAt rem (level + 1) s c t) (varAt level) (S.curHash s) s c t
          rw [topdownH_succ, if_neg (h1 ▸ hs), if_neg (h2 _ ▸ hv), ← h3]
          generalize decideNode S NS _ (varAt level) (S.curHash s) s c t = res at hc2 ⊢
          rw [hc2, Cache.get_cons_self]

end

/-! ## Part 4: the semantic store -/

/-- the pointer `m` may stand in for the requested node `n` -/
def Agrees (n m : Ptr) : Prop :=
  (∀ a, m.eval a = n.eval a) ∧ (∀ x ∈ m.vars, x ∈ n.vars) ∧ (n.free → m.free)

/-- the store state is keyed by the table key of the hash of the stored node -/
def SemInv {H : Type} (semHash : Ptr → H) (key : H → H) (st : List (H × Ptr)) : Prop :=
  ∀ e ∈ st, e.1 = key (semHash e.2)

/-- **H-coll**, the collision hypothesis of the semantic store, in the form the structural
theorems need: a node whose table key is that of the hash (resp. of the negated hash) of a
requested node may stand in for it (resp. for its complement): same function, no further
variables, free if the request is.  By pigeonhole this is false for a hash into a finite field
as soon as there are more functions than field elements; it holds e.g. for injective
`key ∘ semHash` whose range `key ∘ negH ∘ semHash` avoids.  (For the *function* alone the
weaker `CollisionFreeFn` suffices, see `getOrInsertSemantic_eval`.) -/
def CollisionFree {H : Type} (semHash : Ptr → H) (negH key : H → H) : Prop :=
  ∀ n m : Ptr, (key (semHash m) = key (semHash n) → Agrees n m) ∧
    (key (semHash m) = key (negH (semHash n)) → Agrees n m.neg)

/-- function-level collision freedom: equal keys ⇒ equal functions, complementary keys ⇒
complementary functions -/
def CollisionFreeFn {H : Type} (semHash : Ptr → H) (negH key : H → H) : Prop :=
  ∀ n m : Ptr, (key (semHash m) = key (semHash n) → ∀ a, m.eval a = n.eval a) ∧
    (key (semHash m) = key (negH (semHash n)) → ∀ a, m.eval a = !(n.eval a))

theorem Agrees.refl (n : Ptr) : Agrees n n := ⟨fun _ => rfl, fun _ h => h, fun h => h⟩

theorem find?_key {H : Type} [DecidableEq H] {st : List (H × Ptr)} {h : H} {e : H × Ptr}
    (he : st.find? (fun e => e.1 == h) = some e) : e ∈ st ∧ e.1 = h := by
  have h1 := List.find?_some he
  simp only [beq_iff_eq] at h1
  exact ⟨List.mem_of_find?_eq_some he, h1⟩

/-- what `get_or_insert` of the semantic store returns, in terms of `Agrees` -/
theorem getOrInsertSemantic_agrees {H : Type} [DecidableEq H] {semHash : Ptr → H} {negH key : H → H}
    (hcf : CollisionFree semHash negH key) {st : List (H × Ptr)} (hst : SemInv semHash key st)
    (v : Nat) (lo hi : Ptr) :
    Agrees (.node false v lo hi) (getOrInsertSemantic semHash negH key st v lo hi).1 ∧
    SemInv semHash key (getOrInsertSemantic semHash negH key st v lo hi).2 := by
  unfold getOrInsertSemantic
  simp only
  cases h1 : st.find? (fun e => e.1 == key (semHash (.node false v lo hi))) with
  | some e =>
    obtain ⟨hm, hk⟩ := find?_key h1
    exact ⟨(hcf _ e.2).1 ((hst e hm).symm.trans hk), hst⟩
  | none =>
    simp only
    cases h2 : st.find? (fun e => e.1 == key (negH (semHash (.node false v lo hi)))) with
    | some e =>
      obtain ⟨hm, hk⟩ := find?_key h2
      exact ⟨(hcf _ e.2).2 ((hst e hm).symm.trans hk), hst⟩
    | none =>
      refine ⟨Agrees.refl _, ?_⟩
      intro e he
      rcases List.mem_append.1 he with h | h
      · exact hst e h
      · simp only [List.mem_singleton] at h; subst h; rfl

/-- the semantic store satisfies the node-store contract under `CollisionFree` -/
theorem semanticStore_sound {H : Type} [DecidableEq H] {semHash : Ptr → H} {negH key : H → H}
    (hcf : CollisionFree semHash negH key) :
    (semanticStore semHash negH key).Sound (SemInv semHash key) where
  inv_step := fun _ ht v lo hi => (getOrInsertSemantic_agrees hcf ht v lo hi).2
  eval_eq := fun _ ht v lo hi a => (getOrInsertSemantic_agrees hcf ht v lo hi).1.1 a
  vars_sub := fun _ ht v lo hi => (getOrInsertSemantic_agrees hcf ht v lo hi).1.2.1
  free := fun _ ht v lo hi => (getOrInsertSemantic_agrees hcf ht v lo hi).1.2.2

/-- with function-level collision freedom alone the returned pointer denotes the request -/
theorem getOrInsertSemantic_eval {H : Type} [DecidableEq H] {semHash : Ptr → H} {negH key : H → H}
    (hcf : CollisionFreeFn semHash negH key) {st : List (H × Ptr)} (hst : SemInv semHash key st)
    (v : Nat) (lo hi : Ptr) (a : Assign) :
    (getOrInsertSemantic semHash negH key st v lo hi).1.eval a = (Ptr.node false v lo hi).eval a ∧
    SemInv semHash key (getOrInsertSemantic semHash negH key st v lo hi).2 := by
  unfold getOrInsertSemantic
  simp only
  cases h1 : st.find? (fun e => e.1 == key (semHash (.node false v lo hi))) with
  | some e =>
    obtain ⟨hm, hk⟩ := find?_key h1
    exact ⟨(hcf _ e.2).1 ((hst e hm).symm.trans hk) a, hst⟩
  | none =>
    simp only
    cases h2 : st.find? (fun e => e.1 == key (negH (semHash (.node false v lo hi)))) with
    | some e =>
      obtain ⟨hm, hk⟩ := find?_key h2
      refine ⟨?_, hst⟩
      rw [eval_neg, (hcf _ e.2).2 ((hst e hm).symm.trans hk) a, Bool.not_not]
    | none =>
      refine ⟨rfl, ?_⟩
      intro e he
      rcases List.mem_append.1 he with h | h
      · exact hst e h
      · simp only [List.mem_singleton] at h; subst h; rfl

end TopDown
