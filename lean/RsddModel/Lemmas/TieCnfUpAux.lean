import RsddModel.Model.CnfUtil
import RsddModel.Model.UnitProp
/-!
# Control combinators used by the regenerated definitions of `Model/GenCnfUp.lean`

`tools/gen_cnfup.py` compiles Rust loops to these first-order combinators; `Props/TieCnfUp.lean` proves the
regenerated definitions equal to the hand-written models.  Core Lean only.
-/
namespace TieAux

/-- outcome of one loop iteration: next iteration / `break` / leave the loop with a value
(`return`, a panic, or a labelled jump to an outer loop) -/
inductive Step (σ ρ : Type) where
  | go (s : σ)
  | brk (s : σ)
  | ret (r : ρ)

/-- `for x in xs { body }` with early exits -/
def forStep {α σ ρ : Type} : List α → σ → (σ → α → Step σ ρ) → Step σ ρ
  | [], s, _ => .go s
  | x :: xs, s, f =>
    match f s x with
    | .go s' => forStep xs s' f
    | .brk s' => .brk s'
    | .ret r => .ret r

/-- the code after a loop: `k` on the final state, `r` on an escape -/
def Step.fin {σ ρ β : Type} (x : Step σ ρ) (k : σ → β) (r : ρ → β) : β :=
  match x with
  | .go s => k s
  | .brk s => k s
  | .ret v => r v

/-- the code after a loop that has no escape other than `break` -/
def Step.fin' {σ β : Type} (x : Step σ Empty) (k : σ → β) : β :=
  match x with
  | .go s => k s
  | .brk s => k s
  | .ret v => nomatch v

/-- `.iter().enumerate()` -/
def enumFrom {α : Type} : Nat → List α → List (Nat × α)
  | _, [] => []
  | i, x :: xs => (i, x) :: enumFrom (i + 1) xs
def enum {α : Type} (xs : List α) : List (Nat × α) := enumFrom 0 xs

/-- `Vec::dedup_by_key` (keeps the first element of every run of equal keys) -/
def dedupByKey {α κ : Type} [DecidableEq κ] (key : α → κ) : List α → List α
  | [] => []
  | a :: t =>
    let r := dedupByKey key t
    match t with
    | [] => [a]
    | b :: _ => if key a = key b then a :: r.tail else a :: r

/-- stable insertion sort by a `Nat` key (`sort_by_key` with a key other than the label) -/
def insertByKey {α : Type} (key : α → Nat) (a : α) : List α → List α
  | [] => [a]
  | b :: t => if key a ≤ key b then a :: b :: t else b :: insertByKey key a t
def sortByKey {α : Type} (key : α → Nat) : List α → List α
  | [] => []
  | a :: t => insertByKey key a (sortByKey key t)

/-- `slice.windows(n)` (for `n ≥ 1`) -/
def windows {α : Type} (n : Nat) : List α → List (List α)
  | [] => []
  | x :: xs => if (x :: xs).length < n then [] else (x :: xs).take n :: windows n xs

/-- `slice.binary_search(&x).is_ok()`, literally: bisection on positions `lo..hi` -/
def binarySearchGo (xs : List Nat) (x : Nat) : Nat → Nat → Nat → Bool
  | 0, _, _ => false
  | fuel + 1, lo, hi =>
    if lo < hi then
      let mid := lo + (hi - lo) / 2
      let v := xs.getD mid 0
      if v == x then true else if v < x then binarySearchGo xs x fuel (mid + 1) hi else binarySearchGo xs x fuel lo mid
    else false
def binarySearchOk (xs : List Nat) (x : Nat) : Bool := binarySearchGo xs x (xs.length + 1) 0 xs.length

/-- `for i in v.iter_mut().take(n) { *i = f(*i) }` -/
def mapTake {α : Type} (n : Nat) (f : α → α) (v : List α) : List α := (v.take n).map f ++ v.drop n

/-- `.map(|x| …)` whose closure advances a captured iterator (state `σ`) -/
def mapAccum {α β σ : Type} (f : σ → α → β × σ) : σ → List α → List β × σ
  | s, [] => ([], s)
  | s, x :: xs =>
    let r := f s x
    let q := mapAccum f r.2 xs
    (r.1 :: q.1, q.2)

/-! ## generic facts about `forStep` -/

theorem forStep_go_foldl {α σ ρ : Type} (g : σ → α → σ) (f : σ → α → Step σ ρ) (hf : ∀ s x, f s x = .go (g s x)) :
    ∀ (xs : List α) (s : σ), forStep xs s f = .go (xs.foldl g s)
  | [], s => rfl
  | x :: xs, s => by simp only [forStep, hf, List.foldl_cons]; exact forStep_go_foldl g f hf xs (g s x)

/-- a loop that leaves with `r x` at the first element satisfying `p` and otherwise does nothing -/
theorem forStep_find {α ρ : Type} (p : α → Bool) (r : α → ρ) (f : Unit → α → Step Unit ρ)
    (hf : ∀ x, f () x = if p x then .ret (r x) else .go ()) :
    ∀ (xs : List α), forStep xs () f = match xs.find? p with | some x => .ret (r x) | none => .go ()
  | [] => rfl
  | x :: xs => by
    simp only [forStep, hf, List.find?_cons]
    cases h : p x <;> simp [forStep_find p r f hf xs]


/-- `VarSet == VarSet` in the model: equality of the structures (`VarSet` derives `DecidableEq`) -/
def varSetEq (s t : CnfUtil.VarSet) : Bool := decide (s = t)

/-- `SATSolver::new(cnf)` in the model (the code as it is now: `repaired = true`) -/
def solverNewModel (cnf : Spec.Cnf) : Option (Option UnitProp.Solver) := UnitProp.Solver.new cnf true

/-- `UnitPropagate::new(cnf)` in the model, with the watch lists of a `None` result erased (the Rust `None` carries no
propagator; the model keeps whatever watch lists it had at that point): `none` = fuel, `some none` = Rust `None` -/
def upNewModel (cnf : Spec.Cnf) (fuel : Nat) : Option (Option (UnitProp.WL × Spec.PModel)) :=
  match UnitProp.upNew cnf true fuel with
  | none => none
  | some (_, none) => some none
  | some (wl, some m) => some (some (wl, m))

/-! ## `AssignmentIter::next` as a state machine (literal mirror of the Rust) and its relation to the model's
`CnfUtil.assignmentIter` -/
open CnfUtil in
/-- `next`: (returned item, new `self.cur`) -/
def iterNext (cur : Option (List Bool)) (n : Nat) : Option (List Bool) × Option (List Bool) :=
  match cur with
  | none => (some (List.replicate n false), some (List.replicate n false))
  | some c => let r := incr c true; (if r.2 then none else some r.1, some r.1)

/-- at most `k` calls of `next` -/
def drain : Nat → Option (List Bool) → Nat → List (List Bool)
  | 0, _, _ => []
  | k + 1, cur, n =>
    match iterNext cur n with
    | (none, _) => []
    | (some v, cur') => v :: drain k cur' n

open CnfUtil in
theorem drain_some : ∀ (k : Nat) (c : List Bool) (n : Nat), drain k (some c) n = iterFrom k c
  | 0, _, _ => rfl
  | k + 1, c, n => by
    simp only [drain, iterNext, iterFrom]
    cases h : (incr c true).2 <;> simp [drain_some k]

open CnfUtil in
/-- the iterator yields exactly the model's list -/
theorem drain_eq (n : Nat) : drain (2 ^ n + 1) none n = assignmentIter n := by
  simp only [drain, iterNext, assignmentIter, drain_some]

end TieAux
