import RsddModel.Model.Sdd
/-!
# `compress` (src/builder/sdd/compression.rs): literal index-loop mirror and its equality with the model

The Rust works in place on a `Vec`:

    for i in 0..node.len() { let mut j = i + 1;
      while j < node.len() {
        if node[i].sub() == node[j].sub() { node[i] = (or(node[i].prime(), node[j].prime()), node[i].sub()); node.swap_remove(j); }
        else { j += 1 } } }

`compressWhile` / `compressFor` / `compressIdx` mirror this literally (indices, `List.set`, `swapRemove?`; the
`while` takes fuel `wf`, out of fuel = `none`); `tools/gen_sddcore.py` regenerates the same shape from the
source and `Props/TieSddCore.lean` ties the two.  `compressIdx_eq` proves the mirror EQUAL to the model's
list recursion `Sdd.compress` (same elements in the same ORDER: the model's `swapRemoveHead` reproduces the
order `swap_remove` leaves), whenever the fuel is at least the length of the vector.
-/
set_option linter.unusedSimpArgs false
namespace TieSddCoreCompress
open Sdd

/-- `Vec::swap_remove(j)`: the last element takes the place of element `j`; `none` = index panic -/
def swapRemove? (l : List Elem) (j : Nat) : Option (List Elem) :=
  if j < l.length then
    match l.getLast? with
    | some z => some ((l.set j z).dropLast)
    | none => none
  else none

section
variable {σ : Type}

/-- the `while j < node.len()` loop for a fixed `i` -/
def compressWhile (wf : Nat) (andF : AndF σ) (i : Nat) : Nat → σ → List Elem → Nat → Option (σ × (List Elem × Nat))
  | 0, _, _, _ => none
  | fuel + 1, st, node, j =>
    if j < node.length then
      match node[i]? with
      | none => none
      | some e =>
        match node[j]? with
        | none => none
        | some e1 =>
          if e.2 = e1.2 then
            match orF andF st e.1 e1.1 with
            | none => none
            | some (st1, r) =>
              match swapRemove? (node.set i (r, e.2)) j with
              | none => none
              | some node1 => compressWhile wf andF i fuel st1 node1 j
          else compressWhile wf andF i fuel st node (j + 1)
    else some (st, (node, j))

/-- the `for i in 0..node.len()` loop (`k` iterations left) -/
def compressFor (wf : Nat) (andF : AndF σ) : Nat → σ → Nat → List Elem → Option (σ × List Elem)
  | 0, st, _, node => some (st, node)
  | k + 1, st, i, node =>
    match compressWhile wf andF i wf st node (i + 1) with
    | none => none
    | some (st1, (node1, _)) => compressFor wf andF k st1 (i + 1) node1

/-- `compress` with the vector as a list and explicit indices -/
def compressIdx (wf : Nat) (andF : AndF σ) (st : σ) (node : List Elem) : Option (σ × List Elem) :=
  match compressFor wf andF (node.length - 0) st 0 node with
  | none => none
  | some (st1, node1) => some (st1, node1)

/-! ## list facts -/

theorem swapRemoveHead_length (l : List Elem) : (swapRemoveHead l).length = l.length - 1 := by
  rcases l with _ | ⟨a, _ | ⟨b, l⟩⟩ <;> simp [swapRemoveHead]

theorem swapRemove?_append (xs : List Elem) (y : Elem) (rest : List Elem) :
    swapRemove? (xs ++ y :: rest) xs.length = some (xs ++ swapRemoveHead (y :: rest)) := by
  rcases rest with _ | ⟨y2, ys⟩
  · simp [swapRemove?, swapRemoveHead, List.getLast?_append]
  · have hl : (xs ++ y :: y2 :: ys).getLast? = some ((y2 :: ys).getLast (by simp)) := by
      simp [List.getLast?_append, List.getLast?_cons_cons, List.getLast?_eq_some_getLast]
    simp only [swapRemove?, hl, swapRemoveHead]
    simp [List.dropLast_append_cons]

theorem set_mid (pre : List Elem) (x x' : Elem) (tl : List Elem) :
    (pre ++ x :: tl).set pre.length x' = pre ++ x' :: tl := by
  simp

theorem get_mid (pre : List Elem) (x : Elem) (tl : List Elem) : (pre ++ x :: tl)[pre.length]? = some x := by
  simp

theorem get_mid2 (pre : List Elem) (x : Elem) (done : List Elem) (y : Elem) (rest : List Elem) :
    (pre ++ x :: (done ++ y :: rest))[pre.length + 1 + done.length]? = some y := by
  have : pre ++ x :: (done ++ y :: rest) = (pre ++ x :: done) ++ y :: rest := by simp
  rw [this]
  have hl : pre.length + 1 + done.length = (pre ++ x :: done).length := by simp; omega
  rw [hl]; simp

/-! ## the `while` loop is `compressInner` -/

theorem compressWhile_eq (wf : Nat) (andF : AndF σ) (s : Ptr) :
    ∀ (m : Nat) (rem : List Elem), rem.length = m → ∀ (fuel n : Nat), m < fuel → m ≤ n →
    ∀ (st : σ) (pre : List Elem) (p : Ptr) (done : List Elem),
      compressWhile wf andF pre.length fuel st (pre ++ (p, s) :: (done ++ rem)) (pre.length + 1 + done.length) =
        match compressInner andF s n st p done rem with
        | none => none
        | some (st', p', out) => some (st', (pre ++ (p', s) :: out, pre.length + 1 + out.length)) := by
  intro m
  induction m with
  | zero =>
    intro rem hrem fuel n hf hn st pre p done
    have : rem = [] := List.eq_nil_of_length_eq_zero hrem
    subst this
    obtain ⟨f, rfl⟩ : ∃ f, fuel = f + 1 := ⟨fuel - 1, by omega⟩
    have hlt : ¬ (pre.length + 1 + done.length < (pre ++ (p, s) :: (done ++ [])).length) := by simp; omega
    cases n <;> simp [compressWhile, compressInner] <;> (intro h; omega)
  | succ m ih =>
    intro rem hrem fuel n hf hn st pre p done
    obtain ⟨⟨q, t⟩, rest, rfl⟩ : ∃ y rest, rem = y :: rest := by
      cases rem with
      | nil => simp at hrem
      | cons y rest => exact ⟨y, rest, rfl⟩
    have hrest : rest.length = m := by simpa using hrem
    obtain ⟨f, rfl⟩ : ∃ f, fuel = f + 1 := ⟨fuel - 1, by omega⟩
    obtain ⟨n', rfl⟩ : ∃ n', n = n' + 1 := ⟨n - 1, by omega⟩
    have hlt : pre.length + 1 + done.length < (pre ++ (p, s) :: (done ++ (q, t) :: rest)).length := by
      simp; omega
    simp only [compressWhile, compressInner, hlt, if_true, get_mid, get_mid2]
    by_cases hst : s = t
    · subst hst
      simp only [if_true]
      cases hor : orF andF st p q with
      | none => simp
      | some r =>
        obtain ⟨st1, p'⟩ := r
        simp only [set_mid]
        have hsr : swapRemove? (pre ++ (p', s) :: (done ++ (q, s) :: rest)) (pre.length + 1 + done.length) =
            some (pre ++ (p', s) :: (done ++ swapRemoveHead ((q, s) :: rest))) := by
          have h1 : pre ++ (p', s) :: (done ++ (q, s) :: rest) = (pre ++ (p', s) :: done) ++ (q, s) :: rest := by simp
          have h2 : pre.length + 1 + done.length = (pre ++ (p', s) :: done).length := by simp; omega
          rw [h1, h2, swapRemove?_append]; simp
        simp only [hsr]
        have hl : (swapRemoveHead ((q, s) :: rest)).length = m := by
          rw [swapRemoveHead_length]; simp [hrest]
        exact ih _ hl f n' (by omega) (by omega) st1 pre p' done
    · simp only [hst, if_false]
      have h := ih rest hrest f n' (by omega) (by omega) st pre p (done ++ [(q, t)])
      simp only [List.length_append, List.length_singleton, List.append_assoc, List.singleton_append] at h
      have hj : pre.length + 1 + done.length + 1 = pre.length + 1 + (done.length + 1) := by omega
      rw [hj]; exact h

/-! ## the `for` loop is `compressOuter` -/

theorem compressInner_length (andF : AndF σ) (s : Ptr) :
    ∀ (n : Nat) (st : σ) (p : Ptr) (done rem : List Elem) (st' : σ) (p' : Ptr) (out : List Elem),
      compressInner andF s n st p done rem = some (st', p', out) → out.length ≤ done.length + rem.length := by
  intro n
  induction n with
  | zero => intro st p done rem st' p' out h; simp [compressInner] at h; obtain ⟨_, _, rfl⟩ := h; simp
  | succ n ih =>
    intro st p done rem st' p' out h
    cases rem with
    | nil => simp [compressInner] at h; obtain ⟨_, _, rfl⟩ := h; simp
    | cons y rest =>
      obtain ⟨q, t⟩ := y
      simp only [compressInner] at h
      split at h
      · split at h
        · cases h
        · have := ih _ _ _ _ _ _ _ h
          rw [swapRemoveHead_length] at this
          simp at this ⊢; omega
      · have := ih _ _ _ _ _ _ _ h
        simp at this ⊢; omega

theorem compressFor_past (wf : Nat) (andF : AndF σ) :
    ∀ (k : Nat) (st : σ) (i : Nat) (node : List Elem), node.length ≤ i → (k = 0 ∨ 1 ≤ wf) →
      compressFor wf andF k st i node = some (st, node) := by
  intro k
  induction k with
  | zero => intro st i node _ _; rfl
  | succ k ih =>
    intro st i node hi hw
    have hwf : 1 ≤ wf := by
      rcases hw with h | h
      · omega
      · exact h
    obtain ⟨f, rfl⟩ : ∃ f, wf = f + 1 := ⟨wf - 1, by omega⟩
    have hlt : ¬ (i + 1 < node.length) := by omega
    simp only [compressFor, compressWhile, hlt, if_false]
    exact ih st (i + 1) node (by omega) (Or.inr (by omega))

theorem compressFor_eq (wf : Nat) (andF : AndF σ) :
    ∀ (k : Nat) (st : σ) (pre l : List Elem), l.length ≤ k → k ≤ wf →
      compressFor wf andF k st pre.length (pre ++ l) =
        match compressOuter andF k st l with
        | none => none
        | some (st', out) => some (st', pre ++ out) := by
  intro k
  induction k with
  | zero =>
    intro st pre l hl _
    have : l = [] := List.eq_nil_of_length_eq_zero (by omega)
    subst this; simp [compressFor, compressOuter]
  | succ k ih =>
    intro st pre l hl hk
    cases l with
    | nil =>
      rw [compressFor_past wf andF (k + 1) st pre.length (pre ++ []) (by simp) (Or.inr (by omega))]
      simp [compressOuter]
    | cons e rest =>
      obtain ⟨p, s⟩ := e
      have hw := compressWhile_eq wf andF s rest.length rest rfl wf rest.length
        (by simp at hl; omega) (Nat.le_refl _) st pre p []
      simp only [List.nil_append, List.length_nil, Nat.add_zero] at hw
      simp only [compressFor, compressOuter, hw]
      cases hin : compressInner andF s rest.length st p [] rest with
      | none => simp
      | some r =>
        obtain ⟨st1, p', rest'⟩ := r
        have hlen := compressInner_length andF s _ _ _ _ _ _ _ _ hin
        simp only [List.length_nil, Nat.zero_add] at hlen
        have h2 := ih st1 (pre ++ [(p', s)]) rest' (by simp at hl; omega) (by omega)
        simp only [List.length_append, List.length_singleton, List.append_assoc, List.singleton_append] at h2
        simp only [h2]
        cases compressOuter andF k st1 rest' with
        | none => rfl
        | some r2 => obtain ⟨st2, out⟩ := r2; rfl

/-- **the literal index-loop mirror of `compress` IS the model's `compress`** (same elements, same order),
for every fuel at least the length of the vector -/
theorem compressIdx_eq (wf : Nat) (andF : AndF σ) (st : σ) (node : List Elem) (hwf : node.length ≤ wf) :
    compressIdx wf andF st node = compress andF st node := by
  have h := compressFor_eq wf andF node.length st [] node (Nat.le_refl _) hwf
  simp only [List.nil_append, List.length_nil] at h
  simp only [compressIdx, compress, Nat.sub_zero, h]
  cases compressOuter andF node.length st node with
  | none => rfl
  | some r => obtain ⟨st', out⟩ := r; rfl

end
end TieSddCoreCompress

#print axioms TieSddCoreCompress.compressIdx_eq
