import RsddModel.Spec.Basic
import RsddModel.Model.SemiringOps
/-!
# Spec layer: weighted sums over assignments

`wsum S vars w f a` is the semiring sum, over all assignments to the variables in `vars`
(the other variables keep their value in `a`), of `[f holds] · ∏ chosen literal weights`.
It is defined by recursion on the variable list; `allAssignments`/`wsumList` give the
brute-force reading (sum over the explicit list of `2^n` assignments), and the two are
proved equal in `Lemmas/Wmc.lean`.
-/
namespace Spec

/-- weights: `(low, high)` per variable label -/
abbrev Weights (α : Type) := Nat → α × α

def wsum {α : Type} (S : SROps α) : List Nat → Weights α → BoolFn → Assign → α
  | [], _, f, a => if f a then S.one else S.zero
  | v :: vs, w, f, a =>
    S.add (S.mul (w v).1 (wsum S vs w f (upd a v false)))
          (S.mul (w v).2 (wsum S vs w f (upd a v true)))

/-- all extensions of `a` on the variables `vars`, first variable outermost, false first -/
def allAssignments : List Nat → Assign → List Assign
  | [], a => [a]
  | v :: vs, a => allAssignments vs (upd a v false) ++ allAssignments vs (upd a v true)

/-- the weight of an assignment on `vars`: product of the chosen literal weights -/
def assignWeight {α : Type} (S : SROps α) (w : Weights α) (a : Assign) : List Nat → α
  | [] => S.one
  | v :: vs => S.mul (if a v then (w v).2 else (w v).1) (assignWeight S w a vs)

/-- the brute-force sum: over the explicit list of assignments -/
def wsumList {α : Type} (S : SROps α) (vars : List Nat) (w : Weights α) (f : BoolFn) (a : Assign) : α :=
  (allAssignments vars a).foldr (fun b acc => S.add (if f b then assignWeight S w b vars else S.zero) acc) S.zero

/-- low and high weight of every listed variable sum to one -/
def Normalised {α : Type} (S : SROps α) (w : Weights α) (vars : List Nat) : Prop :=
  ∀ v ∈ vars, S.add (w v).1 (w v).2 = S.one

end Spec
