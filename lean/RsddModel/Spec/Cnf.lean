import RsddModel.Spec.Basic
/-!
# Spec layer: CNFs, partial models, entailment, residual formulas

Literals are (variable label, polarity); a clause is a list of literals (disjunction, the
empty clause is false); a CNF is a list of clauses (conjunction, the empty list is true).
-/
namespace Spec

structure Lit where
  var : Nat
  pol : Bool
deriving DecidableEq, Repr, Inhabited, BEq

abbrev Clause := List Lit
abbrev Cnf := List Clause

def Lit.neg (l : Lit) : Lit := ⟨l.var, !l.pol⟩

def litSat (a : Assign) (l : Lit) : Bool := a l.var == l.pol
def clauseSat (a : Assign) (c : Clause) : Bool := c.any (litSat a)
def cnfSat (a : Assign) (cs : Cnf) : Bool := cs.all (clauseSat a)

/-- the Boolean function of a CNF -/
def cnfFn (cs : Cnf) : BoolFn := fun a => cnfSat a cs

/-- number of variables as `Cnf::new` computes it: largest label + 1 (0 for no literals) -/
def cnfNumVars (cs : Cnf) : Nat :=
  cs.foldl (fun m c => c.foldl (fun m l => max m (l.var + 1)) m) 0

/-- partial models -/
abbrev PModel := Nat → Option Bool

def PModel.empty : PModel := fun _ => none
def PModel.set (m : PModel) (x : Nat) (b : Bool) : PModel := fun y => if y = x then some b else m y

/-- a total assignment extends a partial model -/
def Extends (a : Assign) (m : PModel) : Prop := ∀ x b, m x = some b → a x = b

def litTrue (m : PModel) (l : Lit) : Bool := m l.var == some l.pol
def litFalse (m : PModel) (l : Lit) : Bool := m l.var == some (!l.pol)
def litUnset (m : PModel) (l : Lit) : Bool := (m l.var).isNone

/-- `cs` together with `m` entails the literal `l` -/
def Entails (cs : Cnf) (m : PModel) (l : Lit) : Prop :=
  ∀ a, Extends a m → cnfSat a cs = true → litSat a l = true

/-- no total assignment extending `m` satisfies `cs` -/
def UnsatUnder (cs : Cnf) (m : PModel) : Prop :=
  ∀ a, Extends a m → cnfSat a cs = false

/-- residual formula: clauses with a true literal are dropped, false literals are dropped -/
def residual (cs : Cnf) (m : PModel) : Cnf :=
  (cs.filter fun c => !c.any (litTrue m)).map fun c => c.filter fun l => !litFalse m l

/-- a clause is falsified: every literal is false -/
def clauseFalsified (m : PModel) (c : Clause) : Bool := c.all (litFalse m)

/-- a clause is unit: not satisfied, exactly one distinct unassigned literal, the rest false -/
def clauseUnit (m : PModel) (c : Clause) : Bool :=
  !c.any (litTrue m) && ((c.filter (litUnset m)).eraseDups.length == 1)

end Spec
