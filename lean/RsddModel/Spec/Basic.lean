/-!
# Spec layer: Boolean functions over assignments

Everything here is meant to be auditable in minutes: an assignment is a function from
variable labels to Booleans, a Boolean function is a function of assignments, and the
operations the builders implement are given their textbook definitions.
-/
namespace Spec

abbrev Assign := Nat → Bool
abbrev BoolFn := Assign → Bool

/-- `a[x := b]` -/
def upd (a : Assign) (x : Nat) (b : Bool) : Assign := fun y => if y = x then b else a y

@[simp] theorem upd_same (a : Assign) (x b) : upd a x b x = b := by simp [upd]
@[simp] theorem upd_other (a : Assign) {x y : Nat} (b) (h : y ≠ x) : upd a x b y = a y := by simp [upd, h]
theorem upd_eq_self (a : Assign) (x) : upd a x (a x) = a := by
  funext y; by_cases h : y = x <;> simp [upd, h]

def iteB (f g h : Bool) : Bool := if f then g else h

def fTrue : BoolFn := fun _ => true
def fFalse : BoolFn := fun _ => false
def fVar (x : Nat) (pol : Bool) : BoolFn := fun a => if pol then a x else !(a x)
def fNot (f : BoolFn) : BoolFn := fun a => !(f a)
def fAnd (f g : BoolFn) : BoolFn := fun a => f a && g a
def fOr (f g : BoolFn) : BoolFn := fun a => f a || g a
def fXor (f g : BoolFn) : BoolFn := fun a => xor (f a) (g a)
def fIff (f g : BoolFn) : BoolFn := fun a => f a == g a
def fIte (f g h : BoolFn) : BoolFn := fun a => iteB (f a) (g a) (h a)
/-- `f | x = b` -/
def fCond (f : BoolFn) (x : Nat) (b : Bool) : BoolFn := fun a => f (upd a x b)
/-- `∃ x. f` -/
def fExists (f : BoolFn) (x : Nat) : BoolFn := fun a => f (upd a x true) || f (upd a x false)
/-- `compose f x g` as the trait documents it: `∃ x. (x ⇔ g) ∧ f` -/
def fCompose (f : BoolFn) (x : Nat) (g : BoolFn) : BoolFn :=
  fExists (fAnd (fIff (fVar x true) g) f) x
/-- substitution `f[x := g]` -/
def fSubst (f : BoolFn) (x : Nat) (g : BoolFn) : BoolFn := fun a => f (upd a x (g a))

/-- `f` does not depend on `x` -/
def Indep (f : BoolFn) (x : Nat) : Prop := ∀ a b, f (upd a x b) = f a

/-- `compose` is substitution whenever the substituted function ignores the variable -/
theorem fCompose_eq_subst (f g : BoolFn) (x : Nat) (hg : Indep g x) :
    fCompose f x g = fSubst f x g := by
  funext a
  simp only [fCompose, fExists, fAnd, fIff, fVar, fSubst, upd_same, hg a]
  cases h : g a <;> simp

/-- conditioning on a list of (variable, value) pairs, left to right -/
def fCondList (f : BoolFn) : List (Nat × Bool) → BoolFn
  | [] => f
  | (x, b) :: rest => fCondList (fCond f x b) rest

/-! ## truth tables (for the executable oracle) -/

/-- assignment number `i` over variables `0..n-1`, little-endian -/
def assignOfNat (i : Nat) : Assign := fun x => (i >>> x) % 2 == 1

/-- truth table of `f` over variables `0..n-1`: entry `i` is `f (assignOfNat i)` -/
def truthTable (n : Nat) (f : BoolFn) : List Bool := (List.range (2 ^ n)).map (fun i => f (assignOfNat i))

end Spec
