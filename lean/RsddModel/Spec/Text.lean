import RsddModel.Spec.Cnf
/-!
# Spec layer: reading formulas directly from text (C17)

Two small, self-contained readers, written over the characters of the text and independent of
the data flow of the Rust code (which goes through the crates `dimacs` and `serde_sexpr`):

* `parseDimacs` : DIMACS CNF text → `Spec.Cnf` with **0-based** labels (`n ↦ n-1`).
  The text is cut into lines; a line whose first non-blank character is `c` (comment) or `p`
  (the `p cnf V C` header) is dropped; what remains is cut into whitespace separated tokens, each
  token must be a decimal integer; `0` ends a clause (clauses may span lines; a last clause that
  is not closed by `0` is accepted, as every common reader does).
* `SExp` : the tree of an s-expression text (`parseSExp`), and `evalSExp`, which evaluates
  that tree *directly* under an assignment of variable **names**:
  `(Var x)`, `(Not e)`, `(And e e)`, `(Or e e)`, `(Iff e e)`, `(Xor e e)`, `(Ite e e e)`,
  `True`, `False`.  `variableMapping` is the documented numbering of names: the index of a name is
  the number of distinct variable names of the text that are lexicographically smaller.

Everything is executable (core only).
-/
namespace Spec.Text

/-! ## splitting -/

def isWs (c : Char) : Bool := c == ' ' || c == '\t' || c == '\n' || c == '\r'

def isNl (c : Char) : Bool := c == '\n'

/-- cut a character list at every separator character (separators dropped, empty pieces kept) -/
def splitAt (p : Char → Bool) : List Char → List (List Char)
  | [] => [[]]
  | c :: cs =>
    if p c then [] :: splitAt p cs
    else match splitAt p cs with
      | [] => [[c]]
      | l :: ls => (c :: l) :: ls

/-- the whitespace separated tokens of a character list -/
def tokens (l : List Char) : List (List Char) := (splitAt isWs l).filter (fun t => !t.isEmpty)

/-! ## numbers -/

/-- value of a digit string, most significant digit first -/
def digitsVal (cs : List Char) : Nat := cs.foldl (fun n c => 10 * n + (c.toNat - 48)) 0

def parseNat? (cs : List Char) : Option Nat :=
  if !cs.isEmpty && cs.all Char.isDigit then some (digitsVal cs) else none

def parseInt? : List Char → Option Int
  | '-' :: cs => (parseNat? cs).map fun n => -(n : Int)
  | cs => (parseNat? cs).map fun n => (n : Int)

/-! ## DIMACS -/

/-- first non-blank character of a line -/
def firstChar? (line : List Char) : Option Char := (line.dropWhile isWs).head?

/-- comment lines (`c …`) and the problem line (`p cnf V C`) carry no clauses -/
def skipLine (line : List Char) : Bool :=
  match firstChar? line with
  | some c => c == 'c' || c == 'p'
  | none => false

/-- the literal a nonzero DIMACS integer denotes: variable number `n ≥ 1` is label `n - 1` -/
def litOfInt (z : Int) : Lit := if 0 < z then ⟨z.toNat - 1, true⟩ else ⟨(-z).toNat - 1, false⟩

/-- cut an integer sequence at every `0` -/
def clausesOf : List Int → List (List Int)
  | [] => []
  | z :: zs =>
    if z = 0 then [] :: clausesOf zs
    else match clausesOf zs with
      | [] => [[z]]
      | c :: cs => (z :: c) :: cs

/-- the integers of a DIMACS text, clause by clause (what a DIMACS reader hands to its client) -/
def dimacsIntsChars (l : List Char) : Option (List (List Int)) :=
  let body := (splitAt isNl l).filter (fun ln => !skipLine ln)
  ((body.flatMap tokens).mapM parseInt?).map clausesOf

def cnfOfInts (zs : List (List Int)) : Cnf := zs.map (·.map litOfInt)

def parseDimacsChars (l : List Char) : Option Cnf := (dimacsIntsChars l).map cnfOfInts

def dimacsInts (s : String) : Option (List (List Int)) := dimacsIntsChars s.toList

/-- **the DIMACS reader** -/
def parseDimacs (s : String) : Option Cnf := parseDimacsChars s.toList

/-! ## s-expressions -/

inductive SExp where
  | atom (s : String)
  | list (items : List SExp)
deriving Repr, Inhabited

inductive Tok where
  | lp | rp
  | sym (s : List Char)
deriving Repr, DecidableEq

/-- tokens of an s-expression text: parentheses, and maximal runs of other non-blank characters;
`cur` is the symbol being read, reversed -/
def lexS : List Char → List Char → List Tok
  | [], cur => if cur.isEmpty then [] else [.sym cur.reverse]
  | c :: cs, cur =>
    let flush : List Tok := if cur.isEmpty then [] else [.sym cur.reverse]
    if c == '(' then flush ++ .lp :: lexS cs []
    else if c == ')' then flush ++ .rp :: lexS cs []
    else if isWs c then flush ++ lexS cs []
    else lexS cs (c :: cur)

/-- shift-reduce reader: `stack` holds the (reversed) item lists of the open parentheses;
`done` the finished top-level item, if any.  Exactly one top-level item is accepted. -/
def readS : List Tok → List (List SExp) → Option SExp → Option SExp
  | [], [], done => done
  | [], _ :: _, _ => none
  | .lp :: ts, stack, none => readS ts ([] :: stack) none
  | .lp :: _, _, some _ => none
  | .rp :: _, [], _ => none
  | .rp :: ts, [top], none => readS ts [] (some (.list top.reverse))
  | .rp :: ts, top :: next :: rest, none => readS ts ((.list top.reverse :: next) :: rest) none
  | .rp :: _, _ :: _, some _ => none
  | .sym s :: ts, [], none => readS ts [] (some (.atom (String.ofList s)))
  | .sym _ :: _, [], some _ => none
  | .sym s :: ts, top :: rest, d => readS ts ((.atom (String.ofList s) :: top) :: rest) d

def parseSExp (s : String) : Option SExp := readS (lexS s.toList []) [] none

/-- assignment of variable names -/
abbrev NameAssign := String → Bool

/-- **evaluation of the text tree under an assignment of names**; `none` = not a formula of the
grammar -/
def evalSExp (ρ : NameAssign) : SExp → Option Bool
  | .atom "True" => some true
  | .atom "False" => some false
  | .list [.atom "Var", .atom x] => some (ρ x)
  | .list [.atom "Not", e] => (evalSExp ρ e).map (!·)
  | .list [.atom "And", e, f] => do let x ← evalSExp ρ e; let y ← evalSExp ρ f; pure (x && y)
  | .list [.atom "Or", e, f] => do let x ← evalSExp ρ e; let y ← evalSExp ρ f; pure (x || y)
  | .list [.atom "Iff", e, f] => do let x ← evalSExp ρ e; let y ← evalSExp ρ f; pure (x == y)
  | .list [.atom "Xor", e, f] => do let x ← evalSExp ρ e; let y ← evalSExp ρ f; pure (xor x y)
  | .list [.atom "Ite", g, e, f] => do
    let c ← evalSExp ρ g; let x ← evalSExp ρ e; let y ← evalSExp ρ f; pure (if c then x else y)
  | _ => none

/-- the variable names of a formula text, in order of occurrence, with repetitions -/
def namesOf : SExp → List String
  | .list [.atom "Var", .atom x] => [x]
  | .list [.atom "Not", e] => namesOf e
  | .list [.atom "And", e, f] => namesOf e ++ namesOf f
  | .list [.atom "Or", e, f] => namesOf e ++ namesOf f
  | .list [.atom "Iff", e, f] => namesOf e ++ namesOf f
  | .list [.atom "Xor", e, f] => namesOf e ++ namesOf f
  | .list [.atom "Ite", g, e, f] => namesOf g ++ namesOf e ++ namesOf f
  | _ => []

/-- does the text mention a constant (`True` / `False`)?  The tools do not accept those. -/
def hasConst : SExp → Bool
  | .atom "True" => true
  | .atom "False" => true
  | .list [.atom "Not", e] => hasConst e
  | .list [.atom "And", e, f] => hasConst e || hasConst f
  | .list [.atom "Or", e, f] => hasConst e || hasConst f
  | .list [.atom "Iff", e, f] => hasConst e || hasConst f
  | .list [.atom "Xor", e, f] => hasConst e || hasConst f
  | .list [.atom "Ite", g, e, f] => hasConst g || hasConst e || hasConst f
  | _ => false

/-- the names of a list, each once -/
def distinct : List String → List String
  | [] => []
  | x :: xs => if x ∈ xs then distinct xs else x :: distinct xs

/-- **the documented numbering of names**: position in the lexicographic order of the distinct
names, i.e. the number of distinct names that are smaller -/
def indexIn (names : List String) (x : String) : Nat :=
  ((distinct names).filter (fun y => decide (y < x))).length

def variableMapping (e : SExp) (x : String) : Nat := indexIn (namesOf e) x

/-- the name assignment an indexed assignment induces -/
def nameAssign (e : SExp) (a : Assign) : NameAssign := fun x => a (variableMapping e x)

end Spec.Text
