import RsddModel.Spec.Wmc
import RsddModel.Model.Semirings
/-!
# Spec layer: exhaustive maximisation oracles for marginal MAP, MEU and branch and bound

Everything here is brute force and executable (meant for `≤ 8` variables):

* the assignments of the query list `Q` are enumerated with `allAssignments Q (fun _ => false)`
  (all `2^|Q|` of them; a repeated variable just repeats assignments);
* `qWeight` is the product of the chosen literal weights of the *distinct* variables of `Q`;
* `mapValue f Q others w q = qWeight q · wsum others w f q`: the weighted sum over the non-query
  variables `others` of the function with the query variables held at `q`;
* `mapSpec` is the maximum of `mapValue` over all assignments of `Q`;
* `pathCountX` is the order-recursive path count ("sum only over the variables each
  sub-function depends on") with the dependence test done by brute force over `allVars`;
* `meuSpec` / `bbSpec` maximise (utility component / `choose`) the path count of the function
  restricted to the query assignment, times `qWeight`.

Core Lean only.
-/
namespace Spec
open Sem

variable {α : Type}

/-- chosen literal weight -/
def wsel (w : Weights α) (x : Nat) (b : Bool) : α := if b then (w x).2 else (w x).1

/-- product of the chosen literal weights of the distinct variables of the list
(`seen` = variables already accounted for) -/
def qWeight (S : SROps α) (w : Weights α) (q : Assign) : List Nat → List Nat → α
  | [], _ => S.one
  | x :: xs, seen =>
    if seen.contains x then qWeight S w q xs seen
    else S.mul (wsel w x (q x)) (qWeight S w q xs (x :: seen))

/-- the variables of `vars` that are not query variables -/
def nonQuery (vars Q : List Nat) : List Nat := vars.filter fun v => !Q.contains v

/-- all total assignments of the query variables (every other variable is `false`) -/
def queryAssignments (Q : List Nat) : List Assign := allAssignments Q (fun _ => false)

/-- `f` with the variables of `Q` fixed to their value in `q` -/
def restrictTo (Q : List Nat) (q : Assign) (f : BoolFn) : BoolFn :=
  fun a => f (fun x => if Q.contains x then q x else a x)

/-- maximum of a non-empty list -/
def maxOfList : List Rat → Rat
  | [] => 0
  | [x] => x
  | x :: xs => max x (maxOfList xs)

/-! ## marginal MAP -/

/-- value of the query assignment `q`: `(∏_{x ∈ Q} w(x)[q x]) · Σ_{others} [f] ∏ w` -/
def mapValue (f : BoolFn) (Q others : List Nat) (w : Weights Rat) (q : Assign) : Rat :=
  qWeight realOps w q Q [] * wsum realOps others w f q

/-- `max_q mapValue q`, `vars` = all variables (`others = vars ∖ Q`) -/
def mapSpec (f : BoolFn) (Q vars : List Nat) (w : Weights Rat) : Rat :=
  maxOfList ((queryAssignments Q).map (mapValue f Q (nonQuery vars Q) w))

/-- the maximising query assignments -/
def mapArgmax (f : BoolFn) (Q vars : List Nat) (w : Weights Rat) : List Assign :=
  (queryAssignments Q).filter fun q => mapValue f Q (nonQuery vars Q) w q == mapSpec f Q vars w

/-! ## the order-recursive path count, executable -/

/-- brute-force independence test: `f` ignores `v` on every assignment of `allVars` -/
def indepX (allVars : List Nat) (f : BoolFn) (v : Nat) : Bool :=
  (allAssignments allVars (fun _ => false)).all fun a => f (upd a v true) == f (upd a v false)

/-- `pathCount` with the brute-force dependence test (`allVars` must contain every variable `f`
can depend on) -/
def pathCountX (S : SROps α) (w : Weights α) (allVars : List Nat) : List Nat → BoolFn → Assign → α
  | [], f, a => if f a then S.one else S.zero
  | v :: vs, f, a =>
    if indepX allVars f v then pathCountX S w allVars vs f a
    else S.add (S.mul (w v).1 (pathCountX S w allVars vs (fCond f v false) a))
               (S.mul (w v).2 (pathCountX S w allVars vs (fCond f v true) a))

/-! ## maximum expected utility -/

/-- value of the decision `d`: the path count, in the expected-utility semiring, of the function
restricted to `d`, along the variable order `order` -/
def meuValue (f : BoolFn) (D order : List Nat) (w : Weights EU) (d : Assign) : EU :=
  pathCountX euOps w order order (restrictTo D d f) (fun _ => false)

/-- the largest utility component over all decisions -/
def meuSpec (f : BoolFn) (D order : List Nat) (w : Weights EU) : Rat :=
  maxOfList ((queryAssignments D).map fun d => (meuValue f D order w d).u)

/-! ## generic branch and bound -/

/-- value of the query assignment `q` in the semiring `S` -/
def bbValue (S : SROps α) (f : BoolFn) (Q order : List Nat) (w : Weights α) (q : Assign) : α :=
  S.mul (qWeight S w q Q []) (pathCountX S w order order (restrictTo Q q f) (fun _ => false))

/-- `choose`-fold of the values of all query assignments -/
def bbSpec (S : SROps α) (choose : α → α → α) (f : BoolFn) (Q order : List Nat) (w : Weights α) : α :=
  match (queryAssignments Q).map (bbValue S f Q order w) with
  | [] => S.zero
  | x :: xs => xs.foldl choose x

end Spec
