import RsddModel.Spec.Cnf
/-!
# Spec layer for unit propagation (C09): entailment from decisions, naive closure

Additional specification-level definitions on top of `Spec/Cnf.lean`.
-/
namespace Spec

/-- `cs` together with the decision literals `ds` entails `l` -/
def EntailsFrom (cs : Cnf) (ds : List Lit) (l : Lit) : Prop :=
  ∀ a, cnfSat a cs = true → (∀ d, d ∈ ds → litSat a d = true) → litSat a l = true

/-- no total assignment satisfies `cs` and all of `ds` -/
def UnsatFrom (cs : Cnf) (ds : List Lit) : Prop :=
  ∀ a, (∀ d, d ∈ ds → litSat a d = true) → cnfSat a cs = false

/-- the unassigned literal of the first unit clause, if any -/
def findUnit (cs : Cnf) (m : PModel) : Option Lit :=
  ((cs.filter (clauseUnit m)).head?).bind fun c => (c.filter (litUnset m)).head?

/-- result of the naive closure -/
inductive UpResult
  | outOfFuel
  | conflict
  | fixpoint (m : PModel)

/-- naive unit propagation: while no clause is falsified, set the literal of some unit clause -/
def upClosure : Nat → Cnf → PModel → UpResult
  | 0, _, _ => .outOfFuel
  | fuel + 1, cs, m =>
    if cs.any (clauseFalsified m) then .conflict
    else match findUnit cs m with
      | none => .fixpoint m
      | some u => upClosure fuel cs (m.set u.var u.pol)

/-- what "propagated to fixpoint" means: no clause falsified, no clause unit -/
def IsFixpoint (cs : Cnf) (m : PModel) : Prop :=
  ∀ c, c ∈ cs → clauseFalsified m c = false ∧ clauseUnit m c = false

theorem findUnit_none {cs : Cnf} {m : PModel} (h : findUnit cs m = none) :
    ∀ c, c ∈ cs → clauseUnit m c = false := by
  intro c hc
  cases hu : clauseUnit m c with
  | false => rfl
  | true =>
    exfalso
    unfold findUnit at h
    have hmem : c ∈ cs.filter (clauseUnit m) := List.mem_filter.mpr ⟨hc, hu⟩
    match hf : cs.filter (clauseUnit m) with
    | [] => rw [hf] at hmem; cases hmem
    | c0 :: rest =>
      rw [hf] at h
      simp only [List.head?_cons, Option.bind_some] at h
      have hc0 : c0 ∈ cs.filter (clauseUnit m) := by rw [hf]; exact List.mem_cons_self
      have hu0 := (List.mem_filter.mp hc0).2
      unfold clauseUnit at hu0
      simp only [Bool.and_eq_true, beq_iff_eq] at hu0
      match hl : c0.filter (litUnset m) with
      | [] => rw [hl] at hu0; simp [List.eraseDups] at hu0
      | x :: t => rw [hl] at h; simp at h

/-- the naive closure ends in a fixpoint -/
theorem upClosure_fixpoint : ∀ fuel cs m m', upClosure fuel cs m = .fixpoint m' → IsFixpoint cs m'
  | 0, _, _, _, h => by simp [upClosure] at h
  | fuel + 1, cs, m, m', h => by
    unfold upClosure at h
    split at h
    · cases h
    · next hnf =>
      split at h
      · next hu =>
        cases h
        intro c hc
        refine ⟨?_, findUnit_none hu c hc⟩
        cases hcf : clauseFalsified m c with
        | false => rfl
        | true =>
          exact absurd (List.any_eq_true.mpr ⟨c, hc, hcf⟩) hnf
      · exact upClosure_fixpoint fuel cs _ m' h

end Spec
