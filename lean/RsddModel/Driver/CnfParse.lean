import RsddModel.Driver.Parse
import RsddModel.Spec.Cnf
/-! # Driver: CNF text of the line protocol — `<count>:<clause>;<clause>…`, literals `p<label>`/`n<label>` -/
namespace Driver
open Spec

def parseLit (s : String) : Option Lit :=
  match s.toList with
  | 'p' :: r => (String.ofList r).toNat?.map fun v => ⟨v, true⟩
  | 'n' :: r => (String.ofList r).toNat?.map fun v => ⟨v, false⟩
  | _ => none

def parseClause (sep : String) (s : String) : Option Clause :=
  if s.isEmpty then some [] else (s.splitOn sep).mapM parseLit

def parseCnf (s : String) : Option Cnf :=
  match s.splitOn ":" with
  | [k, body] => do
    let k ← k.toNat?
    if k == 0 then some [] else
      let cs ← (body.splitOn ";").mapM (parseClause ",")
      if cs.length == k then some cs else none
  | _ => none

def showLit (l : Lit) : String := (if l.pol then "p" else "n") ++ toString l.var
def showClause (sep : String) (c : Clause) : String := sep.intercalate (c.map showLit)
def showCnf (cs : Cnf) : String := s!"{cs.length}:{";".intercalate (cs.map (showClause ","))}"

def showNats (sep : String) (l : List Nat) : String := sep.intercalate (l.map toString)

end Driver
