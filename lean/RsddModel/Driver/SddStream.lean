import RsddModel.Driver.BddStream
import RsddModel.Model.Sdd
/-!
# Driver: the `sdd` stream (C03, C04)

For one program line: (1) the mirrored model (`Sdd.run`) must print the same canonical forms
as the implementation (with compression on, SDDs are canonical, so a correct implementation can
print only one thing; with compression off only truth tables are compared); (2) every
implementation result is evaluated from its printed form and compared with the specification
(`Bdd.specStep` with tabulation); (3) with compression on, every reachable decision node of
every implementation result is checked for the clauses of C04 — primes non-false, pairwise
exclusive, exhaustive, over the left vtree child's variables; subs over the right child's
variables and pairwise inequivalent; not trimmable — and the implementation's equality
classes are compared with equality of the specified functions.
-/
namespace Driver
open Spec

/-- canonical term as printed by the harness -/
inductive CT where
  | tru | fls
  | lit (v : Nat) (pol : Bool)
  | dec (idx : Nat) (elems : List (CT × CT))

partial def CT.eval (a : Assign) : CT → Bool
  | .tru => true
  | .fls => false
  | .lit v pol => a v == pol
  | .dec _ es => es.any fun (p, s) => p.eval a && s.eval a

mutual
partial def parseCT : List Char → Option (CT × List Char)
  | 'T' :: r => some (.tru, r)
  | 'F' :: r => some (.fls, r)
  | '-' :: r =>
    let (ds, r1) := r.span Char.isDigit
    (String.ofList ds).toNat?.map fun v => (.lit v false, r1)
  | '[' :: r =>
    let (ds, r1) := r.span Char.isDigit
    match (String.ofList ds).toNat? with
    | some idx => (parseElems r1 []).map fun (es, r2) => (.dec idx es, r2)
    | none => none
  | c :: r =>
    if c.isDigit then
      let (ds, r1) := (c :: r).span Char.isDigit
      (String.ofList ds).toNat?.map fun v => (.lit v true, r1)
    else none
  | [] => none
partial def parseElems : List Char → List (CT × CT) → Option (List (CT × CT) × List Char)
  | ']' :: r, acc => some (acc.reverse, r)
  | '_' :: '(' :: r, acc =>
    match parseCT r with
    | some (p, '_' :: r1) =>
      match parseCT r1 with
      | some (s, ')' :: r2) => parseElems r2 ((p, s) :: acc)
      | _ => none
    | _ => none
  | _, _ => none
end

def parseCTString (s : String) : Option CT :=
  match parseCT s.toList with
  | some (t, []) => some t
  | _ => none

partial def parseVTreeAux : List Char → Option (Sdd.VTree × List Char)
  | '(' :: r =>
    match parseVTreeAux r with
    | some (l, ',' :: r1) =>
      match parseVTreeAux r1 with
      | some (rt, ')' :: r2) => some (.node l rt, r2)
      | _ => none
    | _ => none
  | cs =>
    let (ds, r1) := cs.span Char.isDigit
    (String.ofList ds).toNat?.map fun v => (.leaf v, r1)

def parseVTree (s : String) : Option Sdd.VTree :=
  match parseVTreeAux s.toList with
  | some (t, []) => some t
  | _ => none

def toSddOp : Bdd.Op → Option Sdd.Op
  | .const b => some (.const b)
  | .var x p => some (.var x p)
  | .neg i => some (.neg i)
  | .and i j => some (.and i j)
  | .or i j => some (.or i j)
  | .xor i j => some (.xor i j)
  | .iff i j => some (.iff i j)
  | .ite i j k => some (.ite i j k)
  | .cond i x b => some (.cond i x b)
  | .exist i x => some (.exist i x)
  | .compose i x j => some (.compose i x j)
  | _ => none

/-- variables under the vtree node with in-order index `idx`: (left child's, right child's) -/
def vtreeSides (t : Sdd.VTree) (idx : Nat) : Option (List Nat × List Nat) :=
  match t.sub? 0 idx with
  | some (.node l r) => some (l.leaves, r.leaves)
  | _ => none

partial def CT.vars : CT → List Nat
  | .tru | .fls => []
  | .lit v _ => [v]
  | .dec _ es => es.foldl (fun acc (p, s) => acc ++ p.vars ++ s.vars) []

def ctTT (n : Nat) (t : CT) : String := ttString n t.eval

/-- the clauses of C04 on one decision node; `none` = fine -/
def checkNode (n : Nat) (vt : Sdd.VTree) (idx : Nat) (es : List (CT × CT)) : Option String := Id.run do
  let some (lv, rv) := vtreeSides vt idx | return some s!"node index {idx} is not an internal vtree node"
  let rng := List.range (2 ^ n)
  for (p, s) in es do
    if rng.all fun i => !p.eval (assignOfNat i) then return some s!"a prime of node {idx} is false"
    if !(p.vars.all lv.contains) then return some s!"a prime of node {idx} mentions a variable outside the left vtree child {lv}"
    if !(s.vars.all rv.contains) then return some s!"a sub of node {idx} mentions a variable outside the right vtree child {rv}"
  -- exclusive and exhaustive
  for i in rng do
    let a := assignOfNat i
    let k := (es.filter fun (p, _) => p.eval a).length
    if k != 1 then return some s!"primes of node {idx} are not a partition: {k} primes hold on assignment {i}"
  -- subs pairwise inequivalent (compression)
  let subs := es.map fun (_, s) => ctTT n s
  if subs.eraseDups.length != subs.length then return some s!"node {idx} has two equivalent subs (not compressed)"
  -- trimming
  match es with
  | [(p, _)] => if rng.all fun i => p.eval (assignOfNat i) then return some s!"node {idx} is (T,s): not trimmed"
  | [(_, s1), (_, s2)] =>
    let c (s : CT) (b : Bool) := rng.all fun i => s.eval (assignOfNat i) == b
    if (c s1 true && c s2 false) || (c s1 false && c s2 true) then
      return some s!"node {idx} is (p,T),(¬p,F): not trimmed"
  | _ => pure ()
  return none

partial def checkWFs (n : Nat) (vt : Sdd.VTree) : CT → Option String
  | .dec idx es =>
    match checkNode n vt idx es with
    | some e => some e
    | none => es.findSome? fun (p, s) => (checkWFs n vt p).orElse fun _ => checkWFs n vt s
  | _ => none

/-- raw structure of a model pointer in the harness's `raw=` format -/
partial def sddRaw : Sdd.Ptr → String
  | .tru => "T"
  | .fls => "F"
  | .lit v pol => (if pol then "" else "-") ++ toString v
  | .bdd c l i lo hi => s!"B({if c then 1 else 0}.{l}.{i}.{sddRaw lo}.{sddRaw hi})"
  | .dec c i es => s!"D({if c then 1 else 0}.{i}.{".".intercalate (es.map fun (p, s) => sddRaw p ++ ":" ++ sddRaw s)})"

def checkSddLine (kvs : List (String × String)) (rhs : String) : String := Id.run do
  let some n := (lookup kvs "n").bind parseNat? | return "FAIL PARSE n"
  let some vt := (lookup kvs "vtree").bind parseVTree | return "FAIL PARSE vtree"
  let compress := lookup kvs "compress" == some "1"
  let some opsS := lookup kvs "ops" | return "FAIL PARSE ops"
  let some bops := (opsS.splitOn "|").mapM parseOp | return "FAIL PARSE op"
  let some sops := bops.mapM toSddOp | return "FAIL PARSE sdd op"
  let model := Sdd.run ⟨vt, compress⟩ 200 sops
  let spec := specRunTab n (n, []) bops
  if rhs.startsWith "panic:" then
    match model, spec with
    | none, none => return "ok rejected"
    | _, _ => return s!"FAIL SPEC the builder panicked ({rhs}) on a program the specification accepts"
  let okv := splitKV rhs
  let some resS := lookup okv "res" | return "FAIL PARSE res"
  let implS := resS.splitOn "|"
  let some impl := implS.mapM parseCTString | return "FAIL PARSE canonical term"
  let some eqc := (lookup okv "eq").bind parseNatList | return "FAIL PARSE eq"
  let some (_, fns) := spec | return "FAIL SPEC specification rejects a program the implementation accepts"
  if fns.length != impl.length then return "FAIL SPEC pool length"
  for ((t, f), i) in (impl.zip fns).zipIdx do
    if ctTT n t != ttString n f then
      return s!"FAIL SPEC op#{i} denotes {ctTT n t} expected {ttString n f}"
    if compress then
      if let some e := checkWFs n vt t then return s!"FAIL SPEC op#{i}: {e}"
  if compress then
    let tts := fns.map (ttString n)
    for (c, i) in eqc.zipIdx do
      let expect := (List.range (i + 1)).find? (fun j => tts[j]? == tts[i]?)
      if expect != some c then
        return s!"FAIL SPEC eq-class of op#{i}: implementation says {c}, functions say {expect}"
    let some ct := lookup okv "ct" | return "FAIL PARSE ct"
    if (ct.splitOn ",").any (· != "11") then return "FAIL SPEC is_compressed/is_trimmed is false on a result of the compressing builder"
  if lookup okv "numvars" != some (toString n) then
    return s!"FAIL SPEC builder.num_vars() = {lookup okv "numvars"} for a vtree over {n} variables"
  match model with
  | none => return "FAIL MODEL model rejects (or runs out of fuel on) a program the implementation accepts"
  | some pool =>
    if pool.length != impl.length then return "FAIL MODEL pool length"
    for ((p, s), i) in (pool.zip implS).zipIdx do
      if compress then
        let mp := (Sdd.printCanon p).replace " " "_"
        if mp != s then return s!"FAIL MODEL op#{i} model={mp} impl={s}"
        -- stored structure: element order and complement bits of every node
        let rawImpl := (((lookup okv "raw").getD "").splitOn "|").getD i ""
        if sddRaw p != rawImpl then return s!"FAIL MODEL op#{i} stored structure differs: model={sddRaw p} impl={rawImpl}"
      else
        if Sdd.ttString n p != ttString n (fns.getD i fFalse) then return s!"FAIL MODEL op#{i} (uncompressed) model truth table differs"
  let nt := (impl.filter fun t => match t with | .dec _ es => es.any (fun (p, s) => (match p with | .dec .. => true | _ => false) || (match s with | .dec .. => true | _ => false)) | _ => false).length
  return s!"ok nontrivial={nt}"

end Driver
