import RsddModel.Driver.SerLines
import RsddModel.Driver.CompStream
import RsddModel.Driver.RingStream
/-!
# Driver: the `cli` stream (C19)

The three binaries are run on generated files.  Specification: the number of models and the
weighted sum over models computed by brute force from the *text* of the formula (every variable
of the formula, plus variables that only occur in the weights file, which the tool appends),
and the truth table of the text for the converters' JSON.  Model: the composition
text → expression (C17) → compile (C05) → smooth (C08) → count (C07) / serialise (C17) must
reproduce the tool's numbers and JSON.
-/
namespace Driver
open Spec

def toCompileExpr : Ser.LogicalExpr → Compile.LogicalExpr
  | .lit v p => .lit v p
  | .not e => .not (toCompileExpr e)
  | .and l r => .and (toCompileExpr l) (toCompileExpr r)
  | .or l r => .or (toCompileExpr l) (toCompileExpr r)
  | .iff l r => .iff (toCompileExpr l) (toCompileExpr r)
  | .xor l r => .xor (toCompileExpr l) (toCompileExpr r)
  | .ite g t e => .ite (toCompileExpr g) (toCompileExpr t) (toCompileExpr e)

/-- a finite decimal such as `1.875`, `280` or `-0.5` -/
def parseDecimal (s : String) : Option Rat :=
  let (neg, body) := if s.startsWith "-" then (true, (s.drop 1).toString) else (false, s)
  match body.splitOn "." with
  | [i] => (i.toNat?).map fun n => if neg then -(n : Rat) else (n : Rat)
  | [i, f] => do
    let n ← i.toNat?
    let m ← f.toNat?
    let r : Rat := (n : Rat) + mkRat m (10 ^ f.length)
    some (if neg then -r else r)
  | _ => none

def sortedNames (sx : Spec.Text.SExp) : List String :=
  ((Spec.Text.namesOf sx).eraseDups.toArray.qsort (· < ·)).toList

def checkCliWmc (kvs : List (String × String)) (out : String) : String := Id.run do
  let some text := (lookup kvs "text").map unesc | return "FAIL PARSE text"
  let some sx := Spec.Text.parseSExp text | return "FAIL PARSE s-expression"
  let names := sortedNames sx
  let wsS := ((lookup kvs "weights").getD "").splitOn ","
  let ws : List (String × Rat × Rat) := wsS.filterMap fun e => match e.splitOn ":" with
    | [nm, l, h] => do some (nm, mkRat (← l.toNat?) 2, mkRat (← h.toNat?) 2) | _ => none
  let extras := (ws.map (·.1)).filter fun nm => !names.contains nm
  let allNames := names ++ extras
  let n := allNames.length
  let wOf (nm : String) : Rat × Rat := ((ws.find? (·.1 == nm)).map (·.2)).getD (0, 0)
  -- specification: brute force over the text
  let rows := (List.range (2 ^ n)).filter fun i =>
    (Spec.Text.evalSExp (fun x => assignOfNat i (allNames.idxOf x)) sx) == some true
  let count := rows.length
  let weighted : Rat := rows.foldl (fun acc i =>
    acc + (allNames.zipIdx.foldl (fun p (nm, x) => p * (if assignOfNat i x then (wOf nm).2 else (wOf nm).1)) 1)) 0
  let lines := out.splitOn "\n"
  let some mcL := lines.find? (·.startsWith "unweighted model count: ") | return s!"FAIL SPEC no unweighted count in the output: {out.take 80}"
  let some wcL := lines.find? (·.startsWith "weighted model count: ") | return "FAIL SPEC no weighted count in the output"
  let mc := (mcL.drop "unweighted model count: ".length).toString
  let wc := (wcL.drop "weighted model count: ".length).toString
  if mc.toNat? != some count then return s!"FAIL SPEC the tool prints {mc} models, the formula has {count} over its {n} variables"
  if parseDecimal wc != some weighted then return s!"FAIL SPEC the tool prints weighted count {wc}, the exact weighted sum over models is {showRat weighted}"
  -- model: text → expression → compile under the configured order → smooth → count
  let orderS := (lookup kvs "order").getD "none"
  let order : List Nat := if orderS == "none" then List.range n else (orderS.splitOn ",").map allNames.idxOf
  match Ser.exprFromSexprText text with
  | none => return "FAIL MODEL expression"
  | some e =>
    match Bdd.runCompileExpr order (toCompileExpr e) with
    | none => return "FAIL MODEL compile"
    | some d =>
      let lvl := lvlOf order
      let sm := Bdd.smooth lvl (fun i => order.getD i i) d n
      let w : Weights Rat := fun v => wOf (allNames.getD v "")
      if Bdd.wmc Sem.realOps w sm != weighted then return s!"FAIL MODEL weighted count: model {showRat (Bdd.wmc Sem.realOps w sm)}"
      if Bdd.wmc (Sem.ffOps Constants.u64largest) (fun _ => (1, 1)) sm != count then return "FAIL MODEL model count"
  return s!"ok nontrivial={if n > 1 then 1 else 0}"

def checkCliCnf (kvs : List (String × String)) (out : String) : String := Id.run do
  let some text := (lookup kvs "text").map unesc | return "FAIL PARSE text"
  let some spec := Spec.Text.parseDimacs text | return "FAIL PARSE dimacs"
  let n := cnfNumVars spec
  let some tbl := SerStream.parseBddTable out | return s!"FAIL SPEC the tool's output is not a BDD node table: {out.take 60}"
  match SerStream.bddTableTruth tbl 0 n with
  | some bits =>
    if SerStream.showBits bits != ttString n (cnfFn spec) then
      return s!"FAIL SPEC the emitted diagram denotes {SerStream.showBits bits}, the CNF {ttString n (cnfFn spec)}"
  | none => return "FAIL SPEC no root in the emitted JSON"
  -- model: glue → order → dtree → plan → compile → serialise
  match Ser.cnfFromDimacs text with
  | none => return "FAIL MODEL dimacs glue"
  | some cnf =>
    let nv := cnfNumVars cnf
    let ord : Option Orders.VarOrder :=
      if lookup kvs "order" == some "force" then Orders.forceOrderFloat cnf nv else some (Orders.minFillOrder cnf nv)
    match ord with
    | none => return "FAIL MODEL order"
    | some o =>
      match VT.DTree.fromCnf cnf o.posToVar with
      | none => return "FAIL MODEL dtree"
      | some dt =>
        match Bdd.runCompileDtree o.posToVar (dtreeToLocal dt) with
        | none => return "FAIL MODEL compile"
        | some d =>
          if SerStream.showBddTable (Ser.serBdd d) != out then
            return s!"FAIL MODEL emitted JSON: model {SerStream.showBddTable (Ser.serBdd d)} tool {out}"
  return s!"ok nontrivial={if spec.length > 1 then 1 else 0}"

def checkCliFormula (kvs : List (String × String)) (out : String) : String := Id.run do
  let some text := (lookup kvs "text").map unesc | return "FAIL PARSE text"
  let some sx := Spec.Text.parseSExp text | return "FAIL PARSE s-expression"
  let names := sortedNames sx
  let n := names.length
  let tt := String.ofList ((List.range (2 ^ n)).map fun i =>
    match Spec.Text.evalSExp (fun x => assignOfNat i (names.idxOf x)) sx with
    | some true => '1' | some false => '0' | none => '?')
  let some tbl := SerStream.parseBddTable out | return s!"FAIL SPEC the tool's output is not a BDD node table: {out.take 60}"
  match SerStream.bddTableTruth tbl 0 n with
  | some bits => if SerStream.showBits bits != tt then return s!"FAIL SPEC the emitted diagram denotes {SerStream.showBits bits}, the formula {tt}"
  | none => return "FAIL SPEC no root in the emitted JSON"
  let orderS := (lookup kvs "order").getD "linear"
  let order : List Nat := if orderS == "linear" then List.range n else (orderS.splitOn ",").map names.idxOf
  match Ser.exprFromSexprText text with
  | none => return "FAIL MODEL expression"
  | some e =>
    match Bdd.runCompileExpr order (toCompileExpr e) with
    | none => return "FAIL MODEL compile"
    | some d => if SerStream.showBddTable (Ser.serBdd d) != out then return "FAIL MODEL emitted JSON"
  return s!"ok nontrivial={if n > 1 then 1 else 0}"

def checkCliLine (kvs : List (String × String)) (rhs : String) : String :=
  let okv := splitKV rhs
  let out := ((lookup okv "stdout").map unesc).getD ""
  if out.startsWith "panic:" then s!"FAIL SPEC the tool failed: {out}" else
  match lookup kvs "kind" with
  | some "wmc" => checkCliWmc kvs out
  | some "cnf2bdd" => checkCliCnf kvs out
  | some "formula2bdd" => checkCliFormula kvs out
  | _ => "FAIL PARSE kind"

end Driver
