import Lean.Data.Json
import RsddModel.Model.Serialize
/-!
# Driver helpers for the serialisation stream (C17)

Reads the JSON text `serde_json` prints for `BDDSerializer`, `SDDSerializer`, `VTreeSerializer`
into the table types of `Model/Serialize.lean`.  Shapes (serde's externally tagged enums):

* `SerBDDPtr` / `SerSDDPtr`: `"True"`, `"False"`, `{"Ptr":{"index":3,"compl":false}}`,
  `{"Literal":{"label":0,"polarity":true}}`;
* `SerBDD`: `{"topvar":0,"low":…,"high":…}`; `BDDSerializer`: `{"nodes":[…],"roots":[…]}`;
* `SDDAnd`: `{"prime":…,"sub":…}`; `SDDOr` is a newtype, i.e. a bare array of `SDDAnd`;
  `SDDSerializer`: `{"nodes":[[…],…],"roots":[…]}`;
* `SerVTree`: `{"Leaf":0}` or `{"Node":{"left":…,"right":…}}`; `VTreeSerializer`: `{"root":…}`.

Also printers of the model's tables in the same (compressed, field order of the Rust) shape, so
the two sides can be compared as text as well as value by value.
-/
namespace Driver.SerStream
open Lean Ser

def optOf {α : Type} : Except String α → Option α
  | .ok a => some a
  | .error _ => none

def field? (j : Json) (k : String) : Option Json := optOf (j.getObjVal? k)
def nat? (j : Json) : Option Nat := optOf j.getNat?
def bool? (j : Json) : Option Bool := optOf j.getBool?
def arr? (j : Json) : Option (Array Json) := optOf j.getArr?

/-! ## BDD -/

def bddPtrOfJson (j : Json) : Option SerBddPtr :=
  match j with
  | .str "True" => some .tru
  | .str "False" => some .fls
  | _ => do
    let p ← field? j "Ptr"
    let i ← (field? p "index").bind nat?
    let c ← (field? p "compl").bind bool?
    pure (.ptr i c)

def bddNodeOfJson (j : Json) : Option SerBdd := do
  let v ← (field? j "topvar").bind nat?
  let l ← (field? j "low").bind bddPtrOfJson
  let h ← (field? j "high").bind bddPtrOfJson
  pure ⟨v, l, h⟩

def bddTableOfJson (j : Json) : Option BddTable := do
  let ns ← (field? j "nodes").bind arr?
  let rs ← (field? j "roots").bind arr?
  let nodes ← ns.mapM bddNodeOfJson
  let roots ← rs.toList.mapM bddPtrOfJson
  pure ⟨nodes, roots⟩

/-- **JSON text of a `BDDSerializer` → table** -/
def parseBddTable (s : String) : Option BddTable := (optOf (Json.parse s)).bind bddTableOfJson

/-! ## SDD -/

def sddPtrOfJson (j : Json) : Option SerSddPtr :=
  match j with
  | .str "True" => some .tru
  | .str "False" => some .fls
  | _ =>
    match field? j "Ptr" with
    | some p => do
      let i ← (field? p "index").bind nat?
      let c ← (field? p "compl").bind bool?
      pure (.ptr i c)
    | none => do
      let p ← field? j "Literal"
      let l ← (field? p "label").bind nat?
      let b ← (field? p "polarity").bind bool?
      pure (.lit l b)

def sddAndOfJson (j : Json) : Option SddAnd := do
  let p ← (field? j "prime").bind sddPtrOfJson
  let s ← (field? j "sub").bind sddPtrOfJson
  pure ⟨p, s⟩

def sddOrOfJson (j : Json) : Option SddOr := do
  let es ← arr? j
  es.toList.mapM sddAndOfJson

def sddTableOfJson (j : Json) : Option SddTable := do
  let ns ← (field? j "nodes").bind arr?
  let rs ← (field? j "roots").bind arr?
  let nodes ← ns.mapM sddOrOfJson
  let roots ← rs.toList.mapM sddPtrOfJson
  pure ⟨nodes, roots⟩

/-- **JSON text of an `SDDSerializer` → table** -/
def parseSddTable (s : String) : Option SddTable := (optOf (Json.parse s)).bind sddTableOfJson

/-! ## vtree -/

partial def vtreeOfJson (j : Json) : Option SerVTree :=
  match field? j "Leaf" with
  | some v => (nat? v).map .leaf
  | none => do
    let n ← field? j "Node"
    let l ← (field? n "left").bind vtreeOfJson
    let r ← (field? n "right").bind vtreeOfJson
    pure (.node l r)

/-- **JSON text of a `VTreeSerializer` → serialised tree** -/
def parseVtree (s : String) : Option SerVTree :=
  (optOf (Json.parse s)).bind fun j => (field? j "root").bind vtreeOfJson

/-! ## printers (serde_json's compact form, fields in declaration order) -/

def showBool (b : Bool) : String := if b then "true" else "false"

def showBddPtr : SerBddPtr → String
  | .tru => "\"True\""
  | .fls => "\"False\""
  | .ptr i c => "{\"Ptr\":{\"index\":" ++ toString i ++ ",\"compl\":" ++ showBool c ++ "}}"

def showBddTable (t : BddTable) : String :=
  let node (n : SerBdd) := "{\"topvar\":" ++ toString n.topvar ++ ",\"low\":" ++ showBddPtr n.low ++
    ",\"high\":" ++ showBddPtr n.high ++ "}"
  "{\"nodes\":[" ++ ",".intercalate (t.nodes.toList.map node) ++ "],\"roots\":[" ++
    ",".intercalate (t.roots.map showBddPtr) ++ "]}"

def showSddPtr : SerSddPtr → String
  | .tru => "\"True\""
  | .fls => "\"False\""
  | .ptr i c => "{\"Ptr\":{\"index\":" ++ toString i ++ ",\"compl\":" ++ showBool c ++ "}}"
  | .lit l p => "{\"Literal\":{\"label\":" ++ toString l ++ ",\"polarity\":" ++ showBool p ++ "}}"

def showSddTable (t : SddTable) : String :=
  let andS (e : SddAnd) := "{\"prime\":" ++ showSddPtr e.prime ++ ",\"sub\":" ++ showSddPtr e.sub ++ "}"
  let orS (o : SddOr) := "[" ++ ",".intercalate (o.map andS) ++ "]"
  "{\"nodes\":[" ++ ",".intercalate (t.nodes.toList.map orS) ++ "],\"roots\":[" ++
    ",".intercalate (t.roots.map showSddPtr) ++ "]}"

def showVtreeNode : SerVTree → String
  | .leaf v => "{\"Leaf\":" ++ toString v ++ "}"
  | .node l r => "{\"Node\":{\"left\":" ++ showVtreeNode l ++ ",\"right\":" ++ showVtreeNode r ++ "}}"

def showVtree (t : SerVTree) : String := "{\"root\":" ++ showVtreeNode t ++ "}"

/-! ## small conveniences for the stream -/

/-- truth table (variables `0..n-1`, `Spec.truthTable` order) of root number `k` of a BDD table -/
def bddTableTruth (t : BddTable) (k n : Nat) : Option (List Bool) :=
  t.roots[k]?.map fun r => Spec.truthTable n (evalBddTable t r)

def sddTableTruth (t : SddTable) (k n : Nat) : Option (List Bool) :=
  t.roots[k]?.map fun r => Spec.truthTable n (evalSddTable t r)

def showBits (l : List Bool) : String := String.ofList (l.map fun b => if b then '1' else '0')

end Driver.SerStream
