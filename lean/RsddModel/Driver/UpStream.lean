import RsddModel.Driver.CnfParse
import RsddModel.Driver.BddStream
import RsddModel.Model.UnitProp
/-!
# Driver: the `up` stream (C09)

A line is a CNF (as `Cnf::new` stores it) and a decide/pop history with the observation the real
`SATSolver` gave after construction and after every command (result, model, satisfied flag, hash,
stack depth, `difference_iter`, watch lists).  The specification is evaluated by brute force
over all total assignments: soundness of every assigned literal, UNSAT only when no model
extends the decisions, no falsified and no unit clause left, pop restores the earlier
observation, satisfied flag ⇔ every non-tautological clause has a true literal, equal hashes ⇒
equal residual formulas.  The mirrored model must produce exactly the same observations.
-/
namespace Driver
open Spec

structure UpObs where
  tag : String
  model : List (Option Bool)
  sat : Bool
  hash : Nat
  depth : Nat
  diff : String
  wpos : String
  wneg : String

def parseUpObs (s : String) : Option UpObs :=
  match s.splitOn ":" with
  | [tag, m, sat, h, d, diff, wp, wn] => do
    some ⟨tag, parsePM m, sat == "1", (← h.toNat?), (← d.toNat?), diff, wp, wn⟩
  | _ => none
where parsePM (s : String) : List (Option Bool) :=
  s.toList.map fun c => if c == 't' then some true else if c == 'f' then some false else none

def pmOf (m : List (Option Bool)) : PModel := fun x => m.getD x none

def allAssign (n : Nat) : List Assign := (List.range (2 ^ n)).map assignOfNat

def extendsB (n : Nat) (a : Assign) (m : PModel) : Bool :=
  (List.range n).all fun x => match m x with | some b => a x == b | none => true

def isTautC (c : Clause) : Bool := c.any fun l => c.any fun l' => l.var == l'.var && l.pol != l'.pol

def showLists (ls : List (List Nat)) : String := "/".intercalate (ls.map fun l => ".".intercalate (l.map toString))

def residualKey (cs : Cnf) (m : PModel) : String :=
  let r := (cs.filter fun c => !isTautC c).map fun c => (c.eraseDups)
  showCnf (residual r m)

def checkUpLine (kvs : List (String × String)) (rhs : String) : String := Id.run do
  let some n := (lookup kvs "n").bind parseNat? | return "FAIL PARSE n"
  let some cs := (lookup kvs "cnf").bind parseCnf | return "FAIL PARSE cnf"
  let histS := (lookup kvs "hist").getD ""
  let cmdsS := if histS.isEmpty then [] else histS.splitOn ","
  let some cmds := cmdsS.mapM (fun s =>
      if s == "p" then some UnitProp.Cmd.pop
      else match s.toList with
        | 'd' :: r =>
          let pol := r.getLast? == some 't'
          ((String.ofList r.dropLast).toNat?).map fun v => UnitProp.Cmd.decide v pol
        | _ => none) | return "FAIL PARSE hist"
  if rhs.startsWith "panic:" then return s!"FAIL SPEC the solver panicked on a valid history: {rhs.take 40}"
  let okv := splitKV rhs
  let some obsS := lookup okv "obs" | return "FAIL PARSE obs"
  let all := allAssign n
  let models := all.filter fun a => cnfSat a cs
  -- construction
  if obsS == "N" then
    -- initial UNSAT: sound only if the CNF has no model
    if !models.isEmpty then return "FAIL SPEC SATSolver::new reported UNSAT for a satisfiable CNF"
    match UnitProp.runHistoryOn true cs [] with
    | [o] => if o.res != .initUnsat then return "FAIL MODEL model does not report initial UNSAT"
    | _ => return "FAIL MODEL initial observation"
    return "ok nontrivial=0 init_unsat"
  let some obs := (obsS.splitOn "|").mapM parseUpObs | return "FAIL PARSE observation"
  if obs.length != cmds.length + 1 then return "FAIL PARSE observation count"
  -- specification, step by step
  let mut decisions : List (List Lit) := [[]]      -- stack of decision lists
  let mut stack : List UpObs := []                  -- observations at each stack level
  let mut units := 0
  for (o, i) in obs.zipIdx do
    let m := pmOf o.model
    -- the decision context of this observation
    let mut ctx : List Lit := decisions.headD []
    if i > 0 then
      match cmds.getD (i - 1) .pop with
      | .pop =>
        decisions := decisions.tail
        stack := stack.tail
        ctx := decisions.headD []
        -- pop restores exactly the earlier observation
        match stack.head? with
        | some prev =>
          if prev.model != o.model || prev.sat != o.sat || prev.hash != o.hash || prev.depth != o.depth then
            return s!"FAIL SPEC step {i}: pop did not restore the state that held before the matching decision"
        | none => return "FAIL PARSE pop below the initial state"
      | .decide v p =>
        let ctx' := ⟨v, p⟩ :: ctx
        if o.tag == "U" then
          -- UNSAT only when no model extends the decisions
          if models.any fun a => ctx'.all (litSat a) then
            return s!"FAIL SPEC step {i}: UNSAT reported although a model extends the decisions"
          -- state unchanged
          match stack.head? with
          | some prev =>
            if prev.model != o.model || prev.hash != o.hash || prev.depth != o.depth then
              return s!"FAIL SPEC step {i}: an UNSAT decide changed the solver state"
          | none => pure ()
          continue
        decisions := ctx' :: decisions
        ctx := ctx'
        if m v != some p then return s!"FAIL SPEC step {i}: the decided literal is not assigned"
    -- soundness: every assigned literal is entailed by the CNF and the decisions
    let ext := models.filter fun a => ctx.all (litSat a)
    for x in List.range n do
      match m x with
      | some b =>
        if !(ext.all fun a => a x == b) then
          return s!"FAIL SPEC step {i}: variable {x} assigned {b} is not entailed by the CNF and the decisions"
      | none => pure ()
    -- fixpoint: no clause falsified, no clause with exactly one unassigned literal left
    for c in cs do
      if !c.any (litTrue m) then
        let un := (c.filter (litUnset m)).eraseDups
        if un.isEmpty then return s!"FAIL SPEC step {i}: clause {showClause "," c} is falsified but UNSAT was not reported"
        if un.length == 1 then
          return s!"FAIL SPEC step {i}: clause {showClause "," c} is unit (only {showLit (un.headD ⟨0, true⟩)} unassigned) but was not propagated"
    -- satisfied flag
    let allSat := (cs.filter fun c => !isTautC c).all fun c => c.any (litTrue m)
    if o.sat != allSat then return s!"FAIL SPEC step {i}: satisfied flag {o.sat} but 'every non-tautological clause has a true literal' is {allSat}"
    if (o.tag == "S") != allSat && (o.tag == "S" || o.tag == "K") then
      return s!"FAIL SPEC step {i}: decide returned {o.tag} but the satisfied condition is {allSat}"
    if i == 0 || o.tag == "S" || o.tag == "K" then stack := o :: stack
    if (List.range n).any (fun x => (m x).isSome) then units := units + 1
  -- hashes: equal hash ⇒ identical residual formula
  let keyed := obs.map fun o => (o.hash, residualKey cs (pmOf o.model))
  for (h1, r1) in keyed do
    for (h2, r2) in keyed do
      if h1 == h2 && r1 != r2 then
        return s!"FAIL SPEC two states have the same hash {h1} but different residual formulas {r1} / {r2}"
  -- mirrored model: exact observations
  let mobs := UnitProp.runHistoryOn true cs cmds
  if mobs.length != obs.length then return s!"FAIL MODEL {mobs.length} model observations for {obs.length}"
  for ((mo, o), i) in (mobs.zip obs).zipIdx do
    let tagOk := match mo.res with
      | .init => o.tag == "I" | .sat => o.tag == "S" | .unsat => o.tag == "U"
      | .unknown => o.tag == "K" | .popped => o.tag == "P" | _ => false
    if !tagOk then return s!"FAIL MODEL step {i}: result differs (implementation {o.tag})"
    if mo.model != o.model then return s!"FAIL MODEL step {i}: model differs"
    if mo.isSat != o.sat || mo.curHash != o.hash || mo.depth != o.depth then
      return s!"FAIL MODEL step {i}: sat/hash/depth differ: model {mo.isSat},{mo.curHash},{mo.depth} implementation {o.sat},{o.hash},{o.depth}"
    if o.diff != "-" then
      let md := ".".intercalate ((mo.diff.getD []).map fun l => (if l.pol then "p" else "n") ++ toString l.var)
      if md != o.diff then return s!"FAIL MODEL step {i}: difference_iter {md} vs {o.diff}"
    if showLists mo.watchPos != o.wpos || showLists mo.watchNeg != o.wneg then
      return s!"FAIL MODEL step {i}: watch lists differ: model {showLists mo.watchPos}:{showLists mo.watchNeg} implementation {o.wpos}:{o.wneg}"
  return s!"ok nontrivial={if units > 1 && cmds.length > 1 then 1 else 0}"

end Driver
