import RsddModel.Driver.SddStream
import RsddModel.Driver.OrdStream
import RsddModel.Model.BddCompile
import RsddModel.Model.SddCompile
/-!
# Driver: the `comp` stream (C05)

Bottom-up compilation of a CNF, of the CNF under a partial assignment, of a logical expression
and of the plan derived from a dtree, with the BDD builder under a random order and with the
SDD builder under a random vtree (and under the dtree-derived vtree).  Specification: the
truth table of the *input text* (clauses / expression evaluated directly).  Model: the mirrored
compile functions must return exactly the implementation's diagrams.
-/
namespace Driver
open Spec Compile

partial def parseExprAux : List Char → Option (LogicalExpr × List Char)
  | 'L' :: r =>
    let (ds, r1) := r.span Char.isDigit
    match (String.ofList ds).toNat?, r1 with
    | some v, 't' :: r2 => some (.lit v true, r2)
    | some v, 'f' :: r2 => some (.lit v false, r2)
    | _, _ => none
  | 'N' :: '(' :: r =>
    match parseExprAux r with
    | some (e, ')' :: r1) => some (.not e, r1)
    | _ => none
  | 'T' :: '(' :: r =>
    match parseExprAux r with
    | some (g, ',' :: r1) =>
      match parseExprAux r1 with
      | some (t, ',' :: r2) =>
        match parseExprAux r2 with
        | some (e, ')' :: r3) => some (.ite g t e, r3)
        | _ => none
      | _ => none
    | _ => none
  | k :: '(' :: r =>
    match parseExprAux r with
    | some (a, ',' :: r1) =>
      match parseExprAux r1 with
      | some (b, ')' :: r2) =>
        (match k with
          | 'A' => some (LogicalExpr.and a b) | 'O' => some (.or a b)
          | 'I' => some (.iff a b) | 'X' => some (.xor a b) | _ => none).map fun e => (e, r2)
      | _ => none
    | _ => none
  | _ => none

/-- the expression's truth value read directly off the text tree (the specification) -/
def exprTextSem : LogicalExpr → Assign → Bool
  | .lit x p, a => a x == p
  | .not e, a => !(exprTextSem e a)
  | .and l r, a => exprTextSem l a && exprTextSem r a
  | .or l r, a => exprTextSem l a || exprTextSem r a
  | .iff l r, a => exprTextSem l a == exprTextSem r a
  | .xor l r, a => exprTextSem l a != exprTextSem r a
  | .ite g t e, a => if exprTextSem g a then exprTextSem t a else exprTextSem e a

def dtreeToLocal : VT.DTree → Compile.DTree
  | .leaf c _ _ => .leaf c
  | .node l r _ _ => .node (dtreeToLocal l) (dtreeToLocal r)

def checkCompLine (kvs : List (String × String)) (rhs : String) : String := Id.run do
  let some n := (lookup kvs "n").bind parseNat? | return "FAIL PARSE n"
  let some order := (lookup kvs "order").bind parseNatList | return "FAIL PARSE order"
  let some cs := (lookup kvs "cnf").bind parseCnf | return "FAIL PARSE cnf"
  let some pmS := lookup kvs "pm" | return "FAIL PARSE pm"
  let pm := pmS.toList.map fun c => if c == 't' then some true else if c == 'f' then some false else none
  let some (e, []) := (lookup kvs "e").bind (fun s => parseExprAux s.toList) | return "FAIL PARSE e"
  let some elim := (lookup kvs "elim").bind parseNatList | return "FAIL PARSE elim"
  if rhs.startsWith "panic:" then return s!"FAIL SPEC bottom-up compilation panicked: {rhs}"
  let okv := splitKV rhs
  let lvl := lvlOf order
  -- the oracle reads the clauses AS GENERATED (`raw`), before `Cnf::new` normalised them; the
  -- normalised list `cnf` (what the compilers were handed) must denote the same function
  let raw := ((lookup kvs "raw").bind parseCnf).getD cs
  let cnfTT := ttString n (cnfFn raw)
  if ttString n (cnfFn cs) != cnfTT then
    return s!"FAIL SPEC Cnf::new changed the function: the clauses as written denote {cnfTT}, the normalised ones {ttString n (cnfFn cs)}"
  let lits := assignmentIter pm
  let condTT := ttString n (fCondList (cnfFn cs) lits)
  let exprTT := ttString n (exprTextSem e)
  -- BDD side against the text
  let get (k : String) : Option Bdd.Ptr := (lookup okv k).bind parseBdd
  let some c1 := get "cnf" | return "FAIL PARSE cnf result"
  let some wa := get "wa" | return "FAIL PARSE wa"
  let some cc := get "cc" | return "FAIL PARSE cc"
  let some ex := get "expr" | return "FAIL PARSE expr"
  if ttString n c1.eval != cnfTT then return s!"FAIL SPEC compile_cnf denotes {ttString n c1.eval}, the clauses {cnfTT}"
  if ttString n wa.eval != condTT then return s!"FAIL SPEC compile_cnf_with_assignments denotes {ttString n wa.eval}, the restricted clauses {condTT}"
  if wa != cc then return s!"FAIL SPEC compiling under the partial assignment gives {printBdd wa} but compile-then-condition gives {printBdd cc}"
  if ttString n ex.eval != exprTT then return s!"FAIL SPEC compile_logical_expr denotes {ttString n ex.eval}, the expression {exprTT}"
  for p in [c1, wa, ex] do
    if !wfCheck lvl 0 p then return s!"FAIL SPEC a compiled BDD is not ordered/reduced: {printBdd p}"
  let planS := (lookup okv "plan").getD ""
  if planS != "skipped" then
    let some pl := parseBdd planS | return "FAIL PARSE plan"
    if pl != c1 then return s!"FAIL SPEC the dtree plan compiles to {planS}, compile_cnf to {printBdd c1}"
  -- SDD side against the text
  if lookup okv "sctt" != some cnfTT then return s!"FAIL SPEC SDD compile_cnf denotes {lookup okv "sctt"}, the clauses {cnfTT}"
  if lookup okv "sett" != some exprTT then return s!"FAIL SPEC SDD compile_logical_expr denotes {lookup okv "sett"}, the expression {exprTT}"
  let splan := (lookup okv "splan").getD ""
  if splan != "skipped" && some splan != lookup okv "scnf" then
    return s!"FAIL SPEC the SDD dtree plan compiles to {splan}, compile_cnf to {lookup okv "scnf"}"
  let dsdd := (lookup okv "dsdd").getD ""
  if dsdd != "skipped" then
    match dsdd.splitOn ":" with
    | [_, tt] => if tt != cnfTT then return s!"FAIL SPEC compile_cnf under the dtree-derived vtree denotes {tt}, the clauses {cnfTT}"
    | _ => return "FAIL PARSE dsdd"
  -- the twin expression (Iff <-> Xor, Ite branches exchanged) and the expression again, compiled
  -- on the same builders: results must not depend on what was compiled before
  match (lookup okv "twin").bind (fun s => parseExprAux s.toList) with
  | some (e2, []) =>
    let twinTT := ttString n (exprTextSem e2)
    let some etw := get "etw" | return "FAIL PARSE etw"
    if ttString n etw.eval != twinTT then return s!"FAIL SPEC compile_logical_expr of a second expression on the same BDD builder denotes {ttString n etw.eval}, the expression {twinTT}"
    if lookup okv "eagain" != lookup okv "expr" then return "FAIL SPEC compiling the same expression again on the same BDD builder gives a different diagram"
    if lookup okv "stw" != some twinTT then return s!"FAIL SPEC compile_logical_expr of a second expression on the same SDD builder denotes {lookup okv "stw"}, the expression {twinTT}"
    if lookup okv "sagain" != lookup okv "sexpr" then return "FAIL SPEC compiling the same expression again on the same SDD builder gives a different diagram"
  | _ => return "FAIL PARSE twin"
  -- mirrored model
  if Bdd.runCompileCnf order cs != some c1 then return s!"FAIL MODEL compile_cnf: model {(Bdd.runCompileCnf order cs).map printBdd}"
  if Bdd.runCompileCnfWithAssign order cs pm != some wa then return "FAIL MODEL compile_cnf_with_assignments"
  if Bdd.runCompileThenCondition order cs pm != some cc then return "FAIL MODEL compile then condition"
  if Bdd.runCompileExpr order e != some ex then return "FAIL MODEL compile_logical_expr"
  if planS != "skipped" then
    match VT.DTree.fromCnf cs elim with
    | some dt =>
      if (Bdd.runCompileDtree order (dtreeToLocal dt)).map printBdd != some planS then return "FAIL MODEL compile_plan(from_dtree)"
    | none => return "FAIL MODEL dtree"
  -- mirrored SDD compile drivers (compressing builder: canonical prints must coincide)
  match (lookup kvs "vtree").bind parseVTree with
  | none => return "FAIL PARSE vtree"
  | some vt =>
    let canon (p : Option Sdd.Ptr) : Option String := p.map fun q => (Sdd.printCanon q).replace " " "_"
    if canon (Sdd.runCompileCnf vt true cs) != lookup okv "scnf" then
      return s!"FAIL MODEL SDD compile_cnf: model {canon (Sdd.runCompileCnf vt true cs)} implementation {lookup okv "scnf"}"
    if canon (Sdd.runCompileExpr vt true e) != lookup okv "sexpr" then
      return s!"FAIL MODEL SDD compile_logical_expr: model {canon (Sdd.runCompileExpr vt true e)} implementation {lookup okv "sexpr"}"
    if splan != "skipped" then
      match VT.DTree.fromCnf cs elim with
      | some dt =>
        if canon (Sdd.runCompileDtree vt true (dtreeToLocal dt)) != some splan then return "FAIL MODEL SDD compile_plan(from_dtree)"
      | none => return "FAIL MODEL dtree"
  return s!"ok nontrivial={if isNontrivial c1 || isNontrivial ex then 1 else 0}"

end Driver
