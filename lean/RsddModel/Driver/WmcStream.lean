import RsddModel.Driver.BddStream
import RsddModel.Driver.RingStream
/-!
# Driver: the `wmc` stream (C07 BDD part, C08, C11 first claims)

Input of a line: an order, a diagram the real builder produced, a prime and three weight
tables.  The driver recomputes with the mirrored model (`Bdd.wmc`, `Bdd.smooth`) and with the
specification (`Spec.wsum` brute force, the order-recursive path count, the path predicate of
smoothing) everything the implementation reported.
-/
namespace Driver
open Spec

def parsePairs (s : String) : Option (List (Nat × Nat)) :=
  if s.isEmpty then some [] else
  (s.splitOn ",").mapM fun t =>
    match t.splitOn ":" with
    | [a, b] => do some ((← a.toNat?), (← b.toNat?))
    | _ => none

def weightsOf (ws : List (Nat × Nat)) : Weights Nat := fun v => ws.getD v (0, 0)

/-- does `f` (over variables `0..n-1`) depend on `v`? -/
def dependsOn (n : Nat) (f : BoolFn) (v : Nat) : Bool :=
  (List.range (2 ^ n)).any fun i => f (upd (assignOfNat i) v true) != f (upd (assignOfNat i) v false)

/-- executable reading of `Spec.pathCount`: the sum taken only over the variables each
sub-function depends on, following the order -/
def pathCountExec {α : Type} (S : SROps α) (n : Nat) (w : Weights α) : List Nat → BoolFn → α
  | [], f => if f (assignOfNat 0) then S.one else S.zero
  | v :: vs, f =>
    if dependsOn n f v then
      S.add (S.mul (w v).1 (pathCountExec S n w vs (fCond f v false)))
            (S.mul (w v).2 (pathCountExec S n w vs (fCond f v true)))
    else pathCountExec S n w vs f

/-- distinct nodes (ignoring the complement bit of pointers) -/
partial def nodesOf : Bdd.Ptr → List (Nat × Bdd.Ptr × Bdd.Ptr) → List (Nat × Bdd.Ptr × Bdd.Ptr)
  | .tru, acc | .fls, acc => acc
  | .node _ v lo hi, acc =>
    if acc.contains (v, lo, hi) then acc else nodesOf hi (nodesOf lo ((v, lo, hi) :: acc))

def checkWmcLine (kvs : List (String × String)) (rhs : String) : String := Id.run do
  let some n := (lookup kvs "n").bind parseNat? | return "FAIL PARSE n"
  let some order := (lookup kvs "order").bind parseNatList | return "FAIL PARSE order"
  let some d := (lookup kvs "d").bind parseBdd | return "FAIL PARSE d"
  let some P := (lookup kvs "P").bind parseNat? | return "FAIL PARSE P"
  let some wn := (lookup kvs "wn").bind parsePairs | return "FAIL PARSE wn"
  let some wa := (lookup kvs "wa").bind parsePairs | return "FAIL PARSE wa"
  let some wr := (lookup kvs "wr").bind parseNatList | return "FAIL PARSE wr"
  if rhs.startsWith "panic:" then return s!"FAIL SPEC a query panicked: {rhs}"
  let okv := splitKV rhs
  let lvl := lvlOf order
  let varAt (i : Nat) : Nat := order.getD i i
  let vars := List.range n
  let a0 : Assign := fun _ => false
  let big := Constants.u64largest
  let S := Sem.ffOps P
  let SB := Sem.ffOps big
  -- evaluation
  let some tt := lookup okv "tt" | return "FAIL PARSE tt"
  if tt != ttString n d.eval then return s!"FAIL SPEC evaluate disagrees with the denoted function: {tt} vs {ttString n d.eval}"
  let modelTT := String.ofList ((List.range (2 ^ n)).map fun i => if Bdd.evaluate d (assignOfNat i) then '1' else '0')
  if tt != modelTT then return "FAIL MODEL evaluate"
  -- normalised weights in the field: count = brute-force sum
  let some cn := (lookup okv "cn").bind parseNat? | return "FAIL PARSE cn"
  if !(wn.all fun (l, h) => (l + h) % P == 1 % P) then return "FAIL PARSE weights not normalised"
  let specCn := wsum S vars (weightsOf wn) d.eval a0
  if cn != specCn then return s!"FAIL SPEC normalised count {cn}, brute-force sum over models {specCn}"
  if cn != Bdd.wmc S (weightsOf wn) d then return s!"FAIL MODEL normalised count {cn} model {Bdd.wmc S (weightsOf wn) d}"
  -- arbitrary weights: the order-recursive path count
  let some ca := (lookup okv "ca").bind parseNat? | return "FAIL PARSE ca"
  let specCa := pathCountExec SB n (weightsOf wa) (order.take n) d.eval
  if ca != specCa then return s!"FAIL SPEC unsmoothed count with arbitrary weights {ca}, path count of the function {specCa}"
  if ca != Bdd.wmc SB (weightsOf wa) d then return "FAIL MODEL arbitrary-weight count"
  -- smoothing
  let some sm := (lookup okv "sm").bind parseBdd | return "FAIL PARSE sm"
  if ttString n sm.eval != ttString n d.eval then return "FAIL SPEC smoothing changed the function"
  let want := order.take n
  if !(sm.paths.all (· == want)) then
    return s!"FAIL SPEC a path of the smoothed diagram tests {(sm.paths.find? (· != want)).getD []} instead of {want}"
  let some sa := (lookup okv "sa").bind parseNat? | return "FAIL PARSE sa"
  let specSa := wsum SB vars (weightsOf wa) d.eval a0
  if sa != specSa then return s!"FAIL SPEC smoothed count {sa}, brute-force weighted sum {specSa}"
  let some mc := (lookup okv "mc").bind parseNat? | return "FAIL PARSE mc"
  let models := ((List.range (2 ^ n)).filter fun i => d.eval (assignOfNat i)).length
  if mc != models then return s!"FAIL SPEC unweighted smoothed count {mc}, number of models {models}"
  let msm := Bdd.smooth lvl varAt d n
  if msm != sm then return s!"FAIL MODEL smooth: model {printBdd msm} implementation {printBdd sm}"
  if sa != Bdd.wmc SB (weightsOf wa) msm then return "FAIL MODEL smoothed count"
  -- smoothing over every admissible width k (the first k variables of the order)
  let smk := ((lookup okv "smk").getD "").splitOn ";"
  for e in smk do
    if e.isEmpty then continue
    match e.splitOn ":" with
    | [kS, tS, cS] =>
      let some k := kS.toNat? | return "FAIL PARSE smk width"
      let some t := parseBdd tS | return "FAIL PARSE smk tree"
      let some c := cS.toNat? | return "FAIL PARSE smk count"
      if ttString n t.eval != ttString n d.eval then return s!"FAIL SPEC smoothing over the first {k} variables changed the function"
      let wantK := order.take k
      let k0 := ((lookup okv "k0").bind String.toNat?).getD 0
      if k ≥ k0 then
        -- the diagram lives inside the first k levels: every path tests exactly those, in order
        if !(t.paths.all (· == wantK)) then
          return s!"FAIL SPEC smoothing over the first {k} variables: a path tests {(t.paths.find? (· != wantK)).getD []} instead of {wantK}"
        let specK := wsum SB wantK (weightsOf wa) d.eval a0
        if c != specK then return s!"FAIL SPEC count of the diagram smoothed over the first {k} variables is {c}, brute-force weighted sum over those variables {specK}"
      else
        -- the diagram also tests deeper variables: every path tests each of the first k variables
        -- exactly once, in order, and only deeper ones afterwards
        let okPath (p : List Nat) : Bool := p.take k == wantK && (p.drop k).all fun v => decide (lvl v ≥ k)
        if !(t.paths.all okPath) then
          return s!"FAIL SPEC smoothing over the first {k} variables of a deeper diagram: a path tests {(t.paths.find? (fun p => !okPath p)).getD []}, which does not start with {wantK}"
      if Bdd.smooth lvl varAt d k != t then return s!"FAIL MODEL smooth over {k} variables"
    | _ => return "FAIL PARSE smk entry"
  -- reals (dyadic weights k/8, 1-k/8)
  let some cr := (lookup okv "cr").bind parseRat? | return "FAIL PARSE cr"
  let wrW : Weights Rat := fun v => let k : Rat := mkRat (wr.getD v 0) 8; (1 - k, k)
  let specCr := wsum Sem.realOps vars wrW d.eval a0
  if cr != specCr then return s!"FAIL SPEC real count {showRat cr}, brute-force {showRat specCr}"
  if cr != Bdd.wmc Sem.realOps wrW d then return "FAIL MODEL real count"
  -- `assignment_weight`: the product of the chosen literal weights
  match ((lookup okv "aw").getD "").splitOn ":" with
  | [bits, w] =>
    let asg := assignOfNat (bits.toNat?.getD 0)
    let want := assignWeight Sem.realOps wrW asg vars
    if parseRat? w != some want then return s!"FAIL SPEC assignment_weight = {w}, product of the chosen literal weights {showRat want}"
  | _ => return "FAIL PARSE aw"
  -- complex weights in quarters, low + high = 1 (mixed real / non-real)
  let wcS := ((lookup kvs "wc").getD "").splitOn ","
  let wcW : Weights Sem.Cx := fun v =>
    match ((wcS.getD v "").splitOn ":").mapM String.toInt? with
    | some [a, b] => (⟨mkRat a 4, mkRat b 4⟩, ⟨1 - mkRat a 4, - mkRat b 4⟩)
    | _ => (⟨0, 0⟩, ⟨1, 0⟩)
  let specCx := wsum Sem.cxOps vars wcW d.eval a0
  let specCxN := wsum Sem.cxOps vars wcW (fun a => !d.eval a) a0
  let showCx (z : Sem.Cx) : String := s!"{showRat z.re},{showRat z.im}"
  if lookup okv "cx" != some (showCx specCx) then
    return s!"FAIL SPEC complex count {lookup okv "cx"}, brute-force sum over models {showCx specCx}"
  if lookup okv "cxn" != some (showCx specCxN) then
    return s!"FAIL SPEC complex count of the negation {lookup okv "cxn"}, brute-force sum over models {showCx specCxN}"
  if showCx (Bdd.wmc Sem.cxOps wcW d) != showCx specCx then return "FAIL MODEL complex count"
  -- expected-utility weights, normalised: low = (1 - k/8, -u), high = (k/8, u)
  let weuS := ((lookup kvs "weu").getD "").splitOn ","
  let weuW : Weights Sem.EU := fun v =>
    match ((weuS.getD v "").splitOn ":").mapM String.toInt? with
    | some [k, u] => (⟨1 - mkRat k 8, - (u : Rat)⟩, ⟨mkRat k 8, (u : Rat)⟩)
    | _ => (⟨1, 0⟩, ⟨0, 0⟩)
  let showEU (z : Sem.EU) : String := s!"{showRat z.p},{showRat z.u}"
  for (key, f) in [("ce", d.eval), ("cen", fun a => !d.eval a)] do
    let want := wsum Sem.euOps vars weuW f a0
    if lookup okv key != some (showEU want) then
      return s!"FAIL SPEC expected-utility count {key} = {lookup okv key}, brute-force sum over models {showEU want}"
  -- polynomial weights (1 - x^d, x^d) over the reals, truncated at MAX_COEFFS
  let M := Constants.maxCoeffs
  let wpd := ((lookup kvs "wpd").bind parseNatList).getD []
  let PS := Sem.polyOps Sem.realOps M
  let mono (dg : Nat) : Sem.Poly Rat := Sem.polyOfList Sem.realOps M ((List.replicate dg (0 : Rat)) ++ [1])
  let oneMinus (dg : Nat) : Sem.Poly Rat :=
    Sem.polyOfList Sem.realOps M (if dg == 0 then [0] else [(1 : Rat)] ++ List.replicate (dg - 1) 0 ++ [-1])
  let wpW : Weights (Sem.Poly Rat) := fun v => let dg := wpd.getD v 0; (oneMinus dg, mono dg)
  -- compare coefficient lists up to the longer reported length (the `len` field is bookkeeping)
  let coeffsOf (s : String) : Option (List Rat) :=
    match s.splitOn ":" with
    | [_, body] => if body.isEmpty then some [] else (body.splitOn ";").mapM parseRat?
    | _ => none
  let padTo (k : Nat) (l : List Rat) : List Rat := l ++ List.replicate (k - l.length) 0
  for (key, f) in [("cp", d.eval), ("cpn", fun a => !d.eval a)] do
    let want := (wsum PS vars wpW f a0).coeffs
    let some got := (lookup okv key).bind coeffsOf | return s!"FAIL PARSE {key}"
    if padTo M got != padTo M want then
      return s!"FAIL SPEC polynomial count {key} = {got.map showRat}, brute-force sum over models (truncated at {M} coefficients) {(want.map showRat)}"
  -- node count
  let some nodes := (lookup okv "nodes").bind parseNat? | return "FAIL PARSE nodes"
  if nodes != (nodesOf d []).length then return s!"FAIL SPEC count_nodes {nodes}, distinct nodes {(nodesOf d []).length}"
  -- semantic hash
  let some shw := (lookup okv "shw").bind parsePairs | return "FAIL PARSE shw"
  let some sh := (lookup okv "sh").bind parseNat? | return "FAIL PARSE sh"
  let some shn := (lookup okv "shn").bind parseNat? | return "FAIL PARSE shn"
  if !(shw.all fun (l, h) => (l + h) % P == 1 % P) then return "FAIL SPEC semantic-hash weights do not sum to one"
  let specSh := wsum S vars (weightsOf shw) d.eval a0
  if sh != specSh then return s!"FAIL SPEC semantic hash {sh} is not the weighted sum of the function {specSh}"
  if shn != (1 + P - sh) % P then return s!"FAIL SPEC hash of the negation {shn} is not one minus the hash {sh}"
  if sh != Bdd.wmc S (weightsOf shw) d then return "FAIL MODEL semantic hash"
  let skips := decide (sm != d)
  return s!"ok nontrivial={if isNontrivial d then 1 else 0} smoothed_added={if skips then 1 else 0}"

end Driver
