import RsddModel.Driver.CnfParse
import RsddModel.Driver.BddStream
import RsddModel.Model.CnfUtil
import RsddModel.Spec.Wmc
/-!
# Driver: the `cnf` stream (C15)

`kind=util`: construction, evaluation, partial satisfaction, conditioning, brute-force counting
of a CNF against the set-theoretic definitions (evaluated on the RAW clause lists) and against
the mirrored model.  `kind=hasher`: push/decide/pop histories of the residual hasher; pairs of
states of one history are compared: equal positional residual ⇒ equal hash, and — while the
product of all literal primes is below 2^128 — only then.
-/
namespace Driver
open Spec

def signedClauses (cs : List (List (Nat × Bool))) : String :=
  ";".intercalate (cs.map fun c => ",".intercalate (c.map fun (v, p) => (if p then "" else "-") ++ toString v))

def pairsOf (cs : Cnf) : List (List (Nat × Bool)) := cs.map fun c => c.map fun l => (l.var, l.pol)

def parseSigned (s : String) : Option (List (List (Nat × Bool))) :=
  if s.isEmpty then some [[]] else
  (s.splitOn ";").mapM fun c =>
    if c.isEmpty then some [] else (c.splitOn ",").mapM fun t =>
      if t.startsWith "-" then ((t.drop 1).toString.toNat?).map fun v => (v, false)
      else (t.toNat?).map fun v => (v, true)

def checkCnfUtil (kvs okv : List (String × String)) : String := Id.run do
  let some raw := (lookup kvs "raw").bind parseCnf | return "FAIL PARSE raw"
  let some pmS := lookup kvs "pm" | return "FAIL PARSE pm"
  let pm := pmS.toList.map fun c => if c == 't' then some true else if c == 'f' then some false else none
  let some lit := (lookup kvs "lit").bind parseLit | return "FAIL PARSE lit"
  let ws := ((lookup kvs "ws").getD "").splitOn "," |>.filterMap fun p => match p.splitOn ":" with
    | [l, h] => do some ((← l.toNat?), (← h.toNat?)) | _ => none
  let n := cnfNumVars raw
  -- specification on the raw clauses
  if lookup okv "nv" != some (toString n) then return s!"FAIL SPEC num_vars = {lookup okv "nv"}, largest label + 1 = {n}"
  if lookup okv "nc" != some (toString raw.length) then return "FAIL SPEC number of clauses changed by Cnf::new"
  let tt := ttString n (cnfFn raw)
  if lookup okv "tt" != some tt then return s!"FAIL SPEC eval gives {lookup okv "tt"}, the clauses denote {tt}"
  let pmod : PModel := fun x => pm.getD x none
  let satSpec := raw.all fun c => c.any (litTrue pmod)
  if lookup okv "sat" != some (if satSpec then "1" else "0") then
    return s!"FAIL SPEC is_sat_partial = {lookup okv "sat"}, 'every clause has a true literal' = {satSpec}"
  -- conditioning: the printed conditioned clauses denote f | lit
  if n > 0 then
    let some condS := lookup okv "cond" | return "FAIL PARSE cond"
    let cnc := ((lookup okv "cnc").bind String.toNat?).getD 0
    let some cc := (if cnc == 0 then some [] else parseSigned condS) | return "FAIL PARSE cond clauses"
    let ccnf : Cnf := cc.map fun c => c.map fun (v, p) => ⟨v, p⟩
    if ttString n (cnfFn ccnf) != ttString n (fCond (cnfFn raw) lit.var lit.pol) then
      return s!"FAIL SPEC condition({showLit lit}) denotes {ttString n (cnfFn ccnf)}, the restricted formula {ttString n (fCond (cnfFn raw) lit.var lit.pol)}"
  -- brute-force count
  let w : Weights Nat := fun v => ws.getD v (1, 1)
  let natOps : SROps Nat := ⟨0, 1, (· + ·), (· * ·)⟩
  let specW := wsum natOps (List.range n) w (cnfFn raw) (fun _ => false)
  if lookup okv "wmc" != some (toString specW) then return s!"FAIL SPEC wmc = {lookup okv "wmc"}, the sum over satisfying assignments is {specW}"
  -- mirrored model
  let r := CnfUtil.cnfReport (pairsOf raw) pm (lit.var, lit.pol) (ws.map fun (l, h) => ((l : Int), (h : Int)))
  if lookup okv "clauses" != some (signedClauses r.clauses) then return s!"FAIL MODEL Cnf::new: model {signedClauses r.clauses} implementation {lookup okv "clauses"}"
  if lookup okv "tt" != some r.truthTable then return "FAIL MODEL eval"
  if n > 0 then
    if lookup okv "cond" != some (signedClauses r.condClauses) || lookup okv "cnv" != some (toString r.condNumVars) then
      return s!"FAIL MODEL condition: model {signedClauses r.condClauses}/{r.condNumVars} implementation {lookup okv "cond"}/{lookup okv "cnv"}"
  if (lookup okv "wmc") != (r.wmc.map toString) then return "FAIL MODEL wmc"
  let md := (r.dimacs.replace "\n" "|").replace " " "_"
  if lookup okv "dimacs" != some md then return s!"FAIL MODEL to_dimacs: model {md} implementation {lookup okv "dimacs"}"
  return s!"ok nontrivial={if raw.length > 1 && n > 1 then 1 else 0}"

def isPrimeB (n : Nat) : Bool := 2 ≤ n && (List.range' 2 (n - 2)).all fun d => n % d != 0

/-- positional residual (clauses of length > 1 only, as the hasher ignores unit clauses) -/
def residualPos (cs : Cnf) (m : PModel) : List (Option (List (Option Lit))) :=
  cs.map fun c =>
    if decide (c.length > 1) && !c.any (litTrue m)
    then some (c.map fun l => if litUnset m l then some l else none) else none

def checkCnfHasher (kvs okv : List (String × String)) (rhs : String) : String := Id.run do
  let some raw := (lookup kvs "raw").bind parseCnf | return "FAIL PARSE raw"
  let cmdsS := (lookup kvs "cmds").getD ""
  let cmdL := if cmdsS.isEmpty then [] else cmdsS.splitOn ","
  if rhs.startsWith "panic:" then return s!"FAIL SPEC the hasher panicked on a valid history: {rhs.take 30}"
  let some hs := lookup okv "hashes" | return "FAIL PARSE hashes"
  let entries := if hs.isEmpty then [] else hs.splitOn ","
  if entries.length != cmdL.length then return "FAIL PARSE hash count"
  let cnf := (CnfUtil.cnfReport (pairsOf raw) [] (0, true) []).clauses.map fun c => c.map fun (v, p) => (⟨v, p⟩ : Lit)
  -- number of literal occurrences bounds the prime product
  let occ := (cnf.map List.length).sum
  let primes := ((List.range 2000).filter isPrimeB).take occ
  let prod := primes.foldl (· * ·) 1
  -- `m<lit>`: the literal enters the caller's partial model without being announced to the hasher.
  -- The mirrored hasher run keeps model and decisions in lock step, so it is compared only up to
  -- the first such command; the specification part below is about (model, hash) pairs and needs
  -- no mirror.
  let firstM := (cmdL.findIdx? (·.startsWith "m")).getD cmdL.length
  let some cmds := (cmdL.take firstM).mapM (fun s =>
      if s == "u" then some CnfUtil.HCmd.push else if s == "o" then some .pop else if s == "h" then some .hash
      else match s.toList with
        | 'd' :: r => (parseLit (String.ofList r)).map fun l => CnfUtil.HCmd.decide l
        | _ => none) | return "FAIL PARSE cmds"
  let mh := CnfUtil.cnfHasherRun (pairsOf raw) cmds
  let mut states : List (Nat × PModel × String) := []
  for (e, i) in entries.zipIdx do
    match e.splitOn ":" with
    | [h, m] =>
      let some h0 := ((h.splitOn ".").headD "").toNat? | return "FAIL PARSE hash"
      if (h.splitOn ".").getD 1 "" != toString h0 then return "FAIL SPEC the two hash components differ"
      let pm := m.toList.map fun c => if c == 't' then some true else if c == 'f' then some false else none
      let pmod : PModel := fun x => pm.getD x none
      -- only states that falsify no non-unit clause take part in the comparison
      let falsifies := cnf.any fun c => decide (c.length > 1) && c.all (litFalse pmod)
      if !falsifies then states := (h0, pmod, m) :: states
      if i < firstM && mh.getD i none != some h0 then return s!"FAIL MODEL hash after command #{i}: model {mh.getD i none} implementation {h0}"
    | _ => return "FAIL PARSE hash entry"
  for (h1, m1, s1) in states do
    for (h2, m2, s2) in states do
      let same := residualPos cnf m1 == residualPos cnf m2
      if same && h1 != h2 then
        return s!"FAIL SPEC models {s1} and {s2} leave the same unsatisfied non-unit clauses restricted to unassigned literals but hash to {h1} / {h2}"
      if !same && h1 == h2 && prod < 2 ^ 128 then
        return s!"FAIL SPEC models {s1} and {s2} have different residual formulas but the same hash {h1} (prime product fits in 128 bits)"
  return s!"ok nontrivial={if states.length > 2 then 1 else 0}"

/-- `kind=book`: partial-model and variable-set bookkeeping.  Specification: a partial model is
a partial function (last write wins, `unset` erases), a variable set is a set; every observer
is the obvious function of those.  Model: the mirrored `PartialModel` / `VarSet`. -/
def checkCnfBook (kvs okv : List (String × String)) : String := Id.run do
  let some n := (lookup kvs "n").bind parseNat? | return "FAIL PARSE n"
  let cmds := ((lookup kvs "cmds").getD "").splitOn ","
  let obs := ((lookup okv "obs").getD "").splitOn ","
  if cmds.length != obs.length then return "FAIL PARSE book lengths"
  -- reference state: two partial functions, two duplicate-free ascending lists
  let mut pf : List (List (Option Bool)) := [List.replicate n none, List.replicate n none]
  let mut vs : List (List Nat) := [[], []]
  let mut pm : List CnfUtil.PartialModel := [CnfUtil.PartialModel.new n, CnfUtil.PartialModel.new n]
  let mut ms : List CnfUtil.VarSet := [CnfUtil.VarSet.new, CnfUtil.VarSet.newWithNumVars n]
  let showPf (f : List (Option Bool)) : String :=
    String.ofList (f.map fun o => match o with | none => 'n' | some true => 't' | some false => 'f')
  let showLits (ls : List (Nat × Bool)) : String :=
    ".".intercalate (ls.map fun (x, b) => (if b then "p" else "n") ++ toString x)
  let showNats (l : List Nat) : String := ".".intercalate (l.map toString)
  let iterOf (f : List (Option Bool)) : List (Nat × Bool) :=
    (f.zipIdx.filterMap fun (o, i) => if o == some false then some (i, false) else none) ++
    (f.zipIdx.filterMap fun (o, i) => if o == some true then some (i, true) else none)
  let insertS (l : List Nat) (v : Nat) : List Nat := if l.contains v then l else (l.filter (· < v)) ++ [v] ++ (l.filter (· > v))
  let bit (b : Bool) : String := if b then "1" else "0"
  for ((c, o), step) in (cmds.zip obs).zipIdx do
    let some [ob, k, v, bv] := (c.splitOn ".").mapM String.toNat? | return "FAIL PARSE book command"
    let b := bv == 1
    -- update reference and model
    if k ≤ 2 then
      pf := pf.set ob ((pf.getD ob []).set v (some b))
      pm := pm.set ob ((pm.getD ob default).set v b)
    else if k == 3 then
      pf := pf.set ob ((pf.getD ob []).set v none)
      pm := pm.set ob ((pm.getD ob default).unset v)
    else if k ≤ 5 then
      vs := vs.set ob (insertS (vs.getD ob []) v)
      ms := ms.set ob ((ms.getD ob default).insert v)
    else if k == 6 then
      vs := vs.set ob ((vs.getD ob []).filter (· != v))
      ms := ms.set ob ((ms.getD ob default).remove v)
    else
      vs := vs.set ob ((vs.getD (1 - ob) []).foldl insertS (vs.getD ob []))
      ms := ms.set ob ((ms.getD ob default).unionWith (ms.getD (1 - ob) default))
    let fA := pf.getD 0 []
    let fB := pf.getD 1 []
    let s0 := vs.getD 0 []
    let s1 := vs.getD 1 []
    let fo := pf.getD ob []
    let diff (f g : List (Option Bool)) : List (Nat × Bool) := (iterOf f).filter fun l => !(iterOf g).contains l
    let want : List String := [
      showPf fA, showPf fB, String.ofList (fA.map fun o => if o.isSome then '1' else '0'),
      showLits (iterOf fA), showLits (iterOf fB), showLits (diff fA fB), showLits (diff fB fA),
      bit (fo.getD v none == some b) ++ bit (fo.getD v none == some (!b)) ++ "0" ++ "1",
      "11",
      showNats s0, showNats s1, showNats (s1.foldl insertS s0), showNats (s0.filter (!s1.contains ·)),
      showNats (s0.filter (s1.contains ·)), showNats (s0.filter (!s1.contains ·)), showNats (s0.filter (s1.contains ·)),
      toString s0.length,
      bit s0.isEmpty ++ bit (s1.contains v) ++ bit (s0 == s1) ++ bit (fA == fB)]
    let got := o.splitOn "/"
    if got.length != want.length then return s!"FAIL PARSE book observation #{step}"
    let names := ["get(A)", "get(B)", "is_set(A)", "assignment_iter(A)", "assignment_iter(B)", "difference(A,B)",
      "difference(B,A)", "lit_implied/lit_neg_implied/implies_true/implies_false", "from_assignments(get) == model",
      "iter(S)", "iter(T)", "union", "minus", "intersect_varset", "difference", "intersect", "len", "is_empty/contains/==/=="]
    for ((g, w), nm) in (got.zip want).zip names do
      if g != w then return s!"FAIL SPEC after command #{step} ({c}): {nm} is {g}, by definition {w}"
    -- mirrored model
    let mA := pm.getD 0 default
    let mB := pm.getD 1 default
    let t0 := ms.getD 0 default
    let t1 := ms.getD 1 default
    let mlits (ls : List Lit) : String := ".".intercalate (ls.map fun l => (if l.pol then "p" else "n") ++ toString l.var)
    let mwant : List (String × String) := [
      (String.ofList ((List.range n).map fun x => match mA.get x with | none => 'n' | some true => 't' | some false => 'f'), got.getD 0 ""),
      (mlits mA.assignmentIter, got.getD 3 ""), (mlits mB.assignmentIter, got.getD 4 ""),
      (mlits (mA.difference mB), got.getD 5 ""), (mlits (mB.difference mA), got.getD 6 ""),
      (showNats t0.iter, got.getD 9 ""), (showNats t1.iter, got.getD 10 ""), (showNats (t0.union t1).iter, got.getD 11 ""),
      (showNats (t0.minus t1).iter, got.getD 12 ""), (showNats (t0.intersectVarset t1).iter, got.getD 13 ""),
      (showNats (t0.difference t1), got.getD 14 ""), (showNats (t0.intersect t1), got.getD 15 ""), (toString t0.len, got.getD 16 "")]
    for (m, g) in mwant do
      if m != g then return s!"FAIL MODEL bookkeeping after command #{step}: model {m} implementation {g}"
  return s!"ok nontrivial={if cmds.length > 3 then 1 else 0}"

def checkCnfLine (kvs : List (String × String)) (rhs : String) : String :=
  let okv := splitKV rhs
  match lookup kvs "kind" with
  | some "util" => if rhs.startsWith "panic:" then s!"FAIL SPEC a CNF utility panicked: {rhs}" else checkCnfUtil kvs okv
  | some "hasher" => checkCnfHasher kvs okv rhs
  | some "book" => if rhs.startsWith "panic:" then s!"FAIL SPEC a bookkeeping operation panicked: {rhs}" else checkCnfBook kvs okv
  | _ => "FAIL PARSE kind"

end Driver
