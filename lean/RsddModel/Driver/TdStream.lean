import RsddModel.Driver.UpStream
import RsddModel.Driver.WmcStream
import RsddModel.Model.TopDown
import RsddModel.Model.UpSolver
/-!
# Driver: the `td` stream (C06)

Top-down compilation with the standard and the semantic node store.  Specification (brute
force): the result is the false constant iff the CNF is unsatisfiable, its models are exactly
the CNF's models, no path decides a variable twice, and conditioning the result or its negation
on any literal gives exactly the restricted function.  Model: the mirrored compiler
(`TopDown.compileTopdown`) run on the mirrored propagator (`UnitProp.Solver`) must return
exactly the implementation's diagram (standard store).
-/
namespace Driver
open Spec

/-- the mirrored `SATSolver` behind the abstract solver interface of the compiler model
(`Model/UpSolver.lean`; `Props/C06Real.lean` proves the compiler correct on it) -/
abbrev UpSolver : TopDown.Solver := TopDown.UpSolver

def freeB : Bdd.Ptr → Bool
  | .tru | .fls => true
  | .node _ v lo hi =>
    let vars : Bdd.Ptr → List Nat := fun p => (nodesOf p []).map (·.1)
    !(vars lo).contains v && !(vars hi).contains v && freeB lo && freeB hi

def checkTdLine (kvs : List (String × String)) (rhs : String) : String := Id.run do
  let some n := (lookup kvs "n").bind parseNat? | return "FAIL PARSE n"
  let some cs := (lookup kvs "cnf").bind parseCnf | return "FAIL PARSE cnf"
  let some order := (lookup kvs "order").bind parseNatList | return "FAIL PARSE order"
  let sem := lookup kvs "store" == some "sem"
  if rhs.startsWith "panic:" then return s!"FAIL SPEC top-down compilation panicked: {rhs}"
  let okv := splitKV rhs
  let some r := (lookup okv "res").bind parseBdd | return "FAIL PARSE res"
  let some tt := lookup okv "tt" | return "FAIL PARSE tt"
  let cnfTT := ttString n (cnfFn cs)
  -- models are exactly the CNF's models (both through `evaluate` and through the printed diagram)
  if tt != cnfTT then return s!"FAIL SPEC the compiled diagram's models {tt} are not the CNF's models {cnfTT}"
  if ttString n r.eval != cnfTT then return s!"FAIL SPEC the printed diagram denotes {ttString n r.eval}, the CNF {cnfTT}"
  let unsat := !(cnfTT.toList.contains '1')
  if (lookup okv "isfalse" == some "1") != unsat then
    return s!"FAIL SPEC is_false = {lookup okv "isfalse"} but unsatisfiable = {unsat}"
  if (r == .fls) != unsat then return s!"FAIL SPEC result {printBdd r} is the false constant iff unsatisfiable is violated"
  if !freeB r then return s!"FAIL SPEC a path decides a variable twice: {printBdd r}"
  -- conditioning of the result and of its negation
  let some condsS := lookup okv "conds" | return "FAIL PARSE conds"
  let conds := if condsS.isEmpty then [] else condsS.splitOn ","
  if conds.length != 2 * n then return "FAIL PARSE conds length"
  for v in List.range n do
    for (b, k) in [(false, 0), (true, 1)] do
      match (conds.getD (2 * v + k) "").splitOn "." with
      | [c1, c2] =>
        let want := ttString n (fCond (cnfFn cs) v b)
        let wantN := ttString n (fCond (fNot (cnfFn cs)) v b)
        if c1 != want then return s!"FAIL SPEC condition(result, x{v}={b}) denotes {c1}, the restricted function is {want}"
        if c2 != wantN then return s!"FAIL SPEC condition(¬result, x{v}={b}) denotes {c2}, the restricted function is {wantN}"
      | _ => return "FAIL PARSE cond entry"
  -- mirrored compiler on the mirrored propagator
  if !sem then
    let varAt (i : Nat) : Nat := order.getD i i
    let (mr, _) := TopDown.compileTopdown UpSolver TopDown.standardStore varAt cs n ()
    if mr != r then return s!"FAIL MODEL compile: model {printBdd mr} implementation {printBdd r}"
  return s!"ok nontrivial={if isNontrivial r then 1 else 0}"

end Driver
