import RsddModel.Driver.Parse
import RsddModel.Model.RobinHood
import RsddModel.Model.Lru
import RsddModel.Model.Constants
/-!
# Driver: the `tbl` stream (C02, unique table) and the `lru` stream (C16)

`tbl`: the real `BackedRobinhoodTable` is driven with explicit hashes; after every call the
harness prints the returned identity (arena index, hit/new) and the slot array.  The driver
replays the calls on the mirrored model (exact equality of every dump) and on the specification
— a find-or-insert set: a key seen before must come back with the index it got then, as a hit.

`lru`: the real `Lru<u64,u64>`; `get` results and the final slot array against the mirrored
model, and every `get` against the specification: nothing, or the value most recently inserted
under exactly that key.
-/
namespace Driver

def showSlot (s : Option Nat × Nat × Nat) : String :=
  match s with
  | (none, _, _) => "_"
  | (some i, h, p) => s!"{i}.{h}.{p}"

def showDump (d : Nat × Nat × List (Option Nat × Nat × Nat)) : String :=
  s!"{d.1}/{d.2.1}/{",".intercalate (d.2.2.map showSlot)}"

def checkTblLine (kvs : List (String × String)) (rhs : String) : String := Id.run do
  let some cap := (lookup kvs "cap").bind parseNat? | return "FAIL PARSE cap"
  let some opsS := lookup kvs "ops" | return "FAIL PARSE ops"
  let some ops := (opsS.splitOn ",").mapM (fun s =>
      match s.splitOn ":" with
      | [h, k] => do some ((← h.toNat?), (← k.toNat?))
      | _ => none) | return "FAIL PARSE op"
  if rhs.startsWith "panic:" then return s!"FAIL SPEC the table panicked: {rhs}"
  let okv := splitKV rhs
  let some resS := lookup okv "res" | return "FAIL PARSE res"
  let some dumpsS := lookup okv "dumps" | return "FAIL PARSE dumps"
  let res := resS.splitOn ","
  let dumps := dumpsS.splitOn ";"
  if res.length != ops.length || dumps.length != ops.length then return "FAIL PARSE lengths"
  let lf : RH.LoadFactor := ⟨Constants.loadFactorNum, Constants.loadFactorDen⟩
  let mut t := RH.mk cap
  let mut seen : List (Nat × Nat) := []   -- spec: key id ↦ index it was given
  let mut next := 0
  let mut grew := 0
  for ((h, k), i) in ops.zipIdx do
    let r := res[i]!
    let implIdx := (r.dropEnd 1).toString.toNat?
    let implHit := r.endsWith "h"
    -- specification: find-or-insert on a set
    match seen.find? (·.1 == k) with
    | some (_, idx) =>
      if implIdx != some idx || !implHit then
        return s!"FAIL SPEC call #{i} for key {k} (seen before with index {idx}) returned {r}: a duplicate was allocated or a different node returned"
    | none =>
      if implIdx != some next || implHit then
        return s!"FAIL SPEC call #{i} for the fresh key {k} returned {r}, expected {next}n"
      seen := (k, next) :: seen
      next := next + 1
    -- mirrored model
    let capBefore := t.cap
    let (t', mi, found) := RH.getOrInsert lf t h k
    t := t'
    if t.cap != capBefore then grew := grew + 1
    if implIdx != some mi || implHit != found then
      return s!"FAIL MODEL call #{i}: model ({mi},{found}) implementation {r}"
    if showDump (RH.dump t) != dumps[i]! then
      return s!"FAIL MODEL call #{i}: slots differ: model {showDump (RH.dump t)} implementation {dumps[i]!}"
  return s!"ok nontrivial={if grew > 0 then 1 else 0} growths={grew}"

def checkLruLine (kvs : List (String × String)) (rhs : String) : String := Id.run do
  let some cap := (lookup kvs "cap").bind parseNat? | return "FAIL PARSE cap"
  let some opsS := lookup kvs "ops" | return "FAIL PARSE ops"
  if rhs.startsWith "panic:" then return s!"FAIL SPEC the cache panicked: {rhs}"
  let okv := splitKV rhs
  let some resS := lookup okv "res" | return "FAIL PARSE res"
  let some dumpS := lookup okv "dump" | return "FAIL PARSE dump"
  let res := resS.splitOn ","
  let ops := opsS.splitOn ","
  if res.length != ops.length then return "FAIL PARSE lengths"
  let mut t : Lru.Tbl Nat Nat := Lru.new cap
  let mut last : List (Nat × Nat) := []   -- spec: most recent value per key
  let mut hits := 0
  let mut capNow := cap
  for (o, i) in ops.zipIdx do
    let r := res[i]!
    if o.startsWith "i" then
      match ((o.drop 1).toString.splitOn ":").mapM String.toNat? with
      | some [k, v, h] =>
        t := Lru.insert Constants.growRatioNum Constants.growRatioDen t k v h
        last := (k, v) :: last.filter (·.1 != k)
      | _ => return "FAIL PARSE insert"
    else
      match ((o.drop 1).toString.splitOn ":").mapM String.toNat? with
      | some [k, h] =>
        let implV := if r == "n" then none else r.toNat?
        -- specification: nothing, or the value most recently inserted under exactly this key
        match implV with
        | none => pure ()
        | some v =>
          hits := hits + 1
          if (last.find? (·.1 == k)).map (·.2) != some v then
            return s!"FAIL SPEC get #{i} of key {k} returned {v}, most recent insert is {(last.find? (·.1 == k)).map (·.2)}"
        let mv := Lru.get t k h
        if mv != implV then return s!"FAIL MODEL get #{i}: model {mv} implementation {r}"
      | _ => return "FAIL PARSE get"
  let slots := t.tbl.map fun e => match e with
    | none => "_"
    | some e => s!"{e.key}.{e.val}.{e.hash}"
  let md := s!"{t.cap}/{t.numFilled}/{",".intercalate slots}"
  if md != dumpS then return s!"FAIL MODEL final slots: model {md} implementation {dumpS}"
  capNow := t.cap
  return s!"ok nontrivial={if hits > 0 && capNow > cap then 1 else 0} hits={hits} grew={capNow - cap}"

end Driver
