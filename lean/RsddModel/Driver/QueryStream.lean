import RsddModel.Driver.OptStream
import RsddModel.Model.Scratch
/-!
# Driver: the `query` stream (C10)

A builder program followed by a sequence of queries of different result types on diagrams
that share nodes.  Specification: every answer equals the answer of the same query run alone on
a freshly built copy (reported by the harness from a second builder) and equals the tree-level
value of the query; every scratch cell reachable from any pool entry is empty after every
call.  Model: the DAG + scratch model (`Scratch.runQueries`) on the hash-consed store of the
same diagrams must give the same answers and end all-clear.
-/
namespace Driver
open Spec Scratch

inductive QTag | nat | rat | bool
deriving DecidableEq

abbrev QU : QTag → Type
  | .nat => Nat
  | .rat => Rat
  | .bool => Bool

/-- hash-cons a tree into the store (children first) -/
def intern : Store → Bdd.Ptr → Store × Ref
  | s, .tru => (s, .tru)
  | s, .fls => (s, .fls)
  | s, .node c v lo hi =>
    let (s1, rlo) := intern s lo
    let (s2, rhi) := intern s1 hi
    let (s3, idx) := match findNode s2 ⟨v, rlo, rhi⟩ with
      | some i => (s2, i)
      | none => let r := insertRaw s2 ⟨v, rlo, rhi⟩; (r.1, r.2)
    (s3, if c then .compl idx else .reg idx)

/-- `kind=sdd` lines: queries of several result types and weight maps on diagrams of one SDD
builder (and their negations, which share every node).  Specification: every answer equals the
answer on a freshly built copy and the brute-force value computed from the diagram's truth table
(printed per query); every scratch slot reachable from the watched diagrams is empty after every
call. -/
def checkQuerySddLine (kvs : List (String × String)) (rhs : String) : String := Id.run do
  let some n := (lookup kvs "n").bind parseNat? | return "FAIL PARSE n"
  if rhs.startsWith "panic:" then return s!"FAIL SPEC a query panicked: {rhs}"
  let okv := splitKV rhs
  let qs := ((lookup kvs "qs").getD "").splitOn ","
  let ans := ((lookup okv "ans").getD "").splitOn "|"
  let fresh := ((lookup okv "fresh").getD "").splitOn "|"
  let tts := ((lookup okv "tts").getD "").splitOn "|"
  let clear := (lookup okv "clear").getD ""
  if ans.length != qs.length || fresh.length != qs.length || tts.length != qs.length then return "FAIL PARSE lengths"
  if clear.toList.any (· != '1') then
    return s!"FAIL SPEC a scratch slot reachable from a diagram of the SDD builder is occupied after a public call returned (call #{clear.toList.idxOf '0'})"
  let vars := List.range n
  let a0 : Assign := fun _ => false
  let big := Constants.u64largest
  let mut kinds := 0
  for ((q, i), tt) in (qs.zipIdx).zip tts do
    let a := ans.getD i ""
    if a != fresh.getD i "" then
      return s!"FAIL SPEC query #{i} ({q}) answered {a} after earlier queries but {fresh.getD i ""} on a freshly built copy"
    let bits := tt.toList.toArray
    let f : BoolFn := fun asg => bits.getD (assignIndex n asg) '0' == '1'
    let body := match q.splitOn ":" with | [_, b] => b | _ => ""
    let kind := body.take 1 |>.toString
    let arg := (body.drop 1).toString
    if kind == "W" then
      let ws := (arg.splitOn "_").filterMap fun p => match p.splitOn "." with
        | [l, h] => do some ((← l.toNat?), (← h.toNat?)) | _ => none
      let want := wsum (Sem.ffOps big) vars (weightsOf ws) f a0
      -- the fold is unsmoothed: it agrees with the sum over all variables only for normalised
      -- weights; with arbitrary weights it is compared with the fresh copy only
      if ws.all (fun (l, h) => (l + h) % big == 1) && a != toString want then
        return s!"FAIL SPEC query #{i}: count {a}, brute-force sum {want}"
      kinds := kinds + 1
    else if kind == "R" then
      let ks := (arg.splitOn "_").filterMap String.toNat?
      let w : Weights Rat := fun v => let k : Rat := mkRat (ks.getD v 0) 8; (1 - k, k)
      let want := wsum Sem.realOps vars w f a0
      if a != showRat want then return s!"FAIL SPEC query #{i}: real count {a}, brute-force sum over models {showRat want}"
      kinds := kinds + 1
    else if kind == "E" then
      if a != (if f (assignOfNat (arg.toNat?.getD 0)) then "1" else "0") then return s!"FAIL SPEC query #{i}: evaluate {a}"
    else if kind == "N" then pure ()
    else return s!"FAIL PARSE query kind {kind}"
  return s!"ok nontrivial={if kinds > 1 then 1 else 0}"

def checkQueryLine (kvs : List (String × String)) (rhs : String) : String := Id.run do
  if lookup kvs "kind" == some "sdd" then return checkQuerySddLine kvs rhs
  let some n := (lookup kvs "n").bind parseNat? | return "FAIL PARSE n"
  let some order := (lookup kvs "order").bind parseNatList | return "FAIL PARSE order"
  let some qsS := lookup kvs "qs" | return "FAIL PARSE qs"
  -- `kind=dnnf`: the diagrams come from top-down compilation and are conditioned through
  -- `TopDownBuilder::condition`
  let dnnf := lookup kvs "kind" == some "dnnf"
  if rhs.startsWith "panic:" then return s!"FAIL SPEC a query panicked: {rhs}"
  let okv := splitKV rhs
  let some ansS := lookup okv "ans" | return "FAIL PARSE ans"
  let some freshS := lookup okv "fresh" | return "FAIL PARSE fresh"
  let some clear := lookup okv "clear" | return "FAIL PARSE clear"
  let some treesS := lookup okv "trees" | return "FAIL PARSE trees"
  let ans := ansS.splitOn "|"
  let fresh := freshS.splitOn "|"
  let some trees := (treesS.splitOn "|").mapM parseBdd | return "FAIL PARSE tree"
  let qs := qsS.splitOn ","
  if ans.length != qs.length || fresh.length != qs.length || trees.length != qs.length then return "FAIL PARSE lengths"
  if clear.toList.any (· != '1') then
    return s!"FAIL SPEC a scratch slot reachable from the pool is occupied after a public call returned (call #{clear.toList.idxOf '0'})"
  let lvl := lvlOf order
  let varAt (i : Nat) : Nat := order.getD i i
  let big := Constants.u64largest
  let vars := List.range n
  let a0 : Assign := fun _ => false
  -- build one store holding all queried diagrams (shared nodes are shared)
  let mut store : Store := []
  let mut refs : List Ref := []
  for t in trees do
    let (s', r) := intern store t
    store := s'
    refs := refs ++ [r]
  let mut mq : List (Ref × Query QU) := []
  let mut expectModel : List (Option String) := []
  let mut kinds := 0
  for ((q, i), d) in (qs.zipIdx).zip trees do
    let a := ans.getD i ""
    if a != fresh.getD i "" then
      return s!"FAIL SPEC query #{i} ({q}) answered {a} after earlier queries but {fresh.getD i ""} on a freshly built copy"
    let body := match q.splitOn ":" with | [_, b] => b | _ => ""
    let kind := body.take 1 |>.toString
    let arg := (body.drop 1).toString
    let r := refs.getD i .tru
    if kind == "W" then
      let ws := (arg.splitOn "_").filterMap fun p => match p.splitOn "." with
        | [l, h] => do some ((← l.toNat?), (← h.toNat?)) | _ => none
      let w := weightsOf ws
      if a != toString (Bdd.wmc (Sem.ffOps big) w d) then return s!"FAIL SPEC query #{i}: count {a}, tree-level value {Bdd.wmc (Sem.ffOps big) w d}"
      mq := mq ++ [(r, Query.wmc (U := QU) .nat (Sem.ffOps big) w)]
      expectModel := expectModel ++ [some a]
      kinds := kinds + 1
    else if kind == "R" then
      let ks := (arg.splitOn "_").filterMap String.toNat?
      let w : Weights Rat := fun v => let k : Rat := mkRat (ks.getD v 0) 8; (1 - k, k)
      if a != showRat (Bdd.wmc Sem.realOps w d) then return s!"FAIL SPEC query #{i}: real count {a}"
      mq := mq ++ [(r, Query.wmc (U := QU) .rat Sem.realOps w)]
      expectModel := expectModel ++ [some a]
    else if kind == "E" then
      let inst := assignOfNat (arg.toNat?.getD 0)
      if a != (if d.eval inst then "1" else "0") then return s!"FAIL SPEC query #{i}: evaluate {a}"
      mq := mq ++ [(r, Query.evaluate (U := QU) .bool rfl inst)]
      expectModel := expectModel ++ [some a]
    else if kind == "N" then
      if a != toString (nodesOf d []).length then return s!"FAIL SPEC query #{i}: count_nodes {a}, distinct nodes {(nodesOf d []).length}"
      mq := mq ++ [(r, .countNodes)]
      expectModel := expectModel ++ [some a]
    else if kind == "C" then
      match (arg.splitOn ".").mapM String.toNat? with
      | some [x, b] =>
        let some res := parseBdd a | return "FAIL PARSE condition result"
        if ttString n res.eval != ttString n (fCond d.eval x (b == 1)) then return s!"FAIL SPEC query #{i}: condition result denotes the wrong function"
        mq := mq ++ [(r, if dnnf then .dnnfCondition x (b == 1) else .condition (fun u v => decide (lvl u < lvl v)) x (b == 1))]
        expectModel := expectModel ++ [some a]
      | _ => return "FAIL PARSE C"
    else if kind == "S" then
      let some res := parseBdd a | return "FAIL PARSE smooth result"
      if ttString n res.eval != ttString n d.eval then return s!"FAIL SPEC query #{i}: smoothing changed the function"
      mq := mq ++ [(r, .smooth lvl varAt n)]
      expectModel := expectModel ++ [some a]
    else if kind == "T" then
      let k := arg.toNat?.getD n
      let some res := parseBdd a | return "FAIL PARSE smooth result"
      if ttString n res.eval != ttString n d.eval then return s!"FAIL SPEC query #{i}: smoothing over a prefix changed the function"
      mq := mq ++ [(r, .smooth lvl varAt k)]
      expectModel := expectModel ++ [some a]
    else if kind == "M" then
      match arg.splitOn "/" with
      | [qS, wS] =>
        let q := if qS.isEmpty then [] else (qS.splitOn "_").filterMap String.toNat?
        let ws := (wS.splitOn "_").filterMap fun p => match p.splitOn "." with
          | [l, h] => do some ((← l.toNat?), (← h.toNat?)) | _ => none
        let w : Weights Rat := fun v => let (l, h) := ws.getD v (0, 0); (mkRat l 8, mkRat h 8)
        let best := mapSpec d.eval q vars w
        match a.splitOn ":" with
        | [v, _] => if parseRat? v != some best then return s!"FAIL SPEC query #{i}: marginal MAP {v}, optimum {showRat best}"
        | _ => return "FAIL PARSE M answer"
      | _ => return "FAIL PARSE M"
    else if kind == "H" then
      pure ()
    else if kind == "G" then
      -- semantic hash under a hand-made normalised map = the weighted sum in the field
      let ks := (arg.splitOn "_").filterMap String.toNat?
      let w : Weights Nat := fun v => let k := ks.getD v 0; ((big + 1 - k) % big, k % big)
      if a != toString (Bdd.wmc (Sem.ffOps big) w d) then
        return s!"FAIL SPEC query #{i}: semantic hash {a} under the given map, weighted sum of the function {Bdd.wmc (Sem.ffOps big) w d}"
    else return s!"FAIL PARSE query kind {kind}"
  -- the DAG + scratch model on the shared store
  let (mans, st) := runQueries (U := QU) ⟨store, Scr.clear⟩ mq
  if (st.scr.occupied st.store.length).any id then return "FAIL MODEL the scratch model does not end all-clear"
  for ((ma, e), i) in (mans.zip expectModel).zipIdx do
    let s : String := match ma with
      | .val .nat v => toString v
      | .val .rat v => showRat v
      | .val .bool v => if v then "1" else "0"
      | .num k => toString k
      | .ref r => printBdd (unfold st.store r)
    if some s != e then return s!"FAIL MODEL modelled query #{i}: model {s} implementation {e}"
  let _ := a0
  return s!"ok nontrivial={if trees.any isNontrivial && kinds > 0 then 1 else 0}"

end Driver
