import RsddModel.Model.Bdd
/-!
# Driver: parsing of the line protocol (core only)

A line is `<stream> k=v k=v … => k=v k=v …`; values contain no spaces.  Diagrams are printed as
`T`, `F`, `(c,v,lo,hi)`.
-/
namespace Driver

def splitKV (s : String) : List (String × String) :=
  (s.splitOn " ").filterMap fun tok =>
    match tok.splitOn "=" with
    | k :: rest@(_ :: _) => some (k, "=".intercalate rest)
    | _ => none

def lookup (kvs : List (String × String)) (k : String) : Option String :=
  (kvs.find? (·.1 == k)).map (·.2)

def parseNat? (s : String) : Option Nat := s.toNat?

def parseNatList (s : String) : Option (List Nat) :=
  if s.isEmpty then some [] else (s.splitOn ",").mapM (·.toNat?)

def parseInt? (s : String) : Option Int := s.toInt?

/-- recursive-descent parser for `T | F | (c,v,lo,hi)` over a character list -/
partial def parseBddAux : List Char → Option (Bdd.Ptr × List Char)
  | 'T' :: r => some (.tru, r)
  | 'F' :: r => some (.fls, r)
  | '(' :: c :: ',' :: r =>
    let (digits, r1) := r.span Char.isDigit
    match r1 with
    | ',' :: r2 =>
      match parseBddAux r2 with
      | some (lo, ',' :: r3) =>
        match parseBddAux r3 with
        | some (hi, ')' :: r4) =>
          match (String.ofList digits).toNat? with
          | some v => some (.node (c == '1') v lo hi, r4)
          | none => none
        | _ => none
      | _ => none
    | _ => none
  | _ => none

def parseBdd (s : String) : Option Bdd.Ptr :=
  match parseBddAux s.toList with
  | some (p, []) => some p
  | _ => none

partial def printBdd : Bdd.Ptr → String
  | .tru => "T"
  | .fls => "F"
  | .node c v lo hi => s!"({if c then 1 else 0},{v},{printBdd lo},{printBdd hi})"

/-- split a line into (stream, input key/values, output key/values or the raw outcome) -/
def splitLine (line : String) : Option (String × List (String × String) × String) :=
  match line.splitOn " => " with
  | [lhs, rhs] =>
    match lhs.splitOn " " with
    | stream :: _ => some (stream, splitKV lhs, rhs)
    | [] => none
  | _ => none

end Driver
