import RsddModel.Driver.SddStream
import RsddModel.Driver.CnfParse
import RsddModel.Driver.SerStream
import RsddModel.Spec.Text
import RsddModel.Model.Serialize
/-!
# Driver: the `ser` stream (C17)

DIMACS text and s-expressions go through the real parsers (`dimacs`, `serde_sexpr`) and the
library glue; the driver reads the same TEXT with the specification-level readers of
`Spec/Text.lean` and compares models under the documented numbering; the printed DIMACS is
re-parsed.  JSON produced by `serde_json` from the three serialisers is parsed with `Lean.Json`
(independent of serde) and read as a plain node table with complement flags.
-/
namespace Driver
open Spec

def unesc (s : String) : String := (s.replace "\\n" "\n").replace "\\s" " "

/-- `to_dimacs` of a CNF that did not come from a text (no clauses, empty clauses, after
conditioning): the printed clause lines, read by the specification reader, are the CNF's clauses -/
def checkSerToDimacs (okv : List (String × String)) : String := Id.run do
  let some cnf := (lookup okv "cnf").bind parseCnf | return "FAIL PARSE cnf"
  let some printedE := lookup okv "printed" | return "FAIL PARSE printed"
  let printed := unesc printedE
  match Spec.Text.parseDimacs printed with
  | some again =>
    let setOf (c : Clause) := (c.map fun l => (l.var, l.pol)).eraseDups
    let sameSets := again.length == cnf.length &&
      (again.zip cnf).all fun (a, b) => (setOf a).all (setOf b).contains && (setOf b).all (setOf a).contains
    if !sameSets then return s!"FAIL SPEC to_dimacs: the printed clause lines {printedE} do not read back as the {cnf.length} clause(s) of the CNF ({again.length} read)"
  | none => return "FAIL SPEC to_dimacs: the printed clause lines are not parseable"
  if Ser.toDimacs cnf != printed then return "FAIL MODEL to_dimacs text"
  return s!"ok nontrivial={if cnf.length > 1 then 1 else 0}"

def checkSerDimacs (kvs okv : List (String × String)) : String := Id.run do
  let some textE := lookup kvs "text" | return "FAIL PARSE text"
  let text := unesc textE
  let some spec := Spec.Text.parseDimacs text | return "FAIL PARSE the specification reader rejects the generated DIMACS text"
  let some cnf := (lookup okv "cnf").bind parseCnf | return "FAIL PARSE cnf"
  let n := max (cnfNumVars spec) (cnfNumVars cnf)
  -- same models under label = number - 1
  if ttString n (cnfFn cnf) != ttString n (cnfFn spec) then
    return s!"FAIL SPEC Cnf::from_dimacs denotes {ttString n (cnfFn cnf)}, the text {ttString n (cnfFn spec)}"
  if cnf.length != spec.length then return "FAIL SPEC Cnf::from_dimacs changed the number of clauses"
  -- printing and re-parsing returns the same clause sets
  if lookup okv "same" != some "1" then return "FAIL SPEC to_dimacs followed by from_dimacs does not return the same CNF"
  let some printedE := lookup okv "printed" | return "FAIL PARSE printed"
  let printed := unesc printedE
  match Spec.Text.parseDimacs printed with
  | some again =>
    let setOf (c : Clause) := (c.map fun l => (l.var, l.pol)).eraseDups
    let sameSets := again.length == cnf.length &&
      (again.zip cnf).all fun (a, b) => (setOf a).all (setOf b).contains && (setOf b).all (setOf a).contains
    if !sameSets then return s!"FAIL SPEC the printed DIMACS clause lines do not parse back to the same clause sets: {printedE}"
  | none => return "FAIL SPEC the printed DIMACS clause lines are not parseable"
  -- LogicalExpr::from_dimacs: label = DIMACS number (as its doc-test documents)
  let lett := (lookup okv "lett").getD ""
  if !lett.startsWith "panic:" then
    let nv := cnfNumVars spec
    if lett != ttString nv (cnfFn spec) then
      return s!"FAIL SPEC LogicalExpr::from_dimacs denotes {lett}, the text {ttString nv (cnfFn spec)}"
  -- mirrored glue
  match Ser.cnfFromDimacs text with
  | some m => if showCnf m != (lookup okv "cnf").getD "" then return s!"FAIL MODEL from_dimacs glue: model {showCnf m}"
              if Ser.toDimacs m != printed then return "FAIL MODEL to_dimacs text"
  | none => return "FAIL MODEL from_dimacs glue rejects"
  match Ser.exprFromDimacs text with
  | some _ => if lett.startsWith "panic:" then return "FAIL MODEL LogicalExpr::from_dimacs panics but the model accepts"
  | none => if !lett.startsWith "panic:" then return "FAIL MODEL LogicalExpr::from_dimacs accepted but the model rejects"
  return s!"ok nontrivial={if spec.length > 1 then 1 else 0}"

def checkSerSexpr (kvs okv : List (String × String)) : String := Id.run do
  let some textE := lookup kvs "text" | return "FAIL PARSE text"
  let text := unesc textE
  let some sx := Spec.Text.parseSExp text | return "FAIL PARSE the specification reader rejects the s-expression"
  let names := (Spec.Text.namesOf sx)
  let sorted := (names.eraseDups.toArray.qsort (· < ·)).toList
  let n := sorted.length
  -- documented numbering: lexicographic order of the variable names
  let wantMap := ",".intercalate (sorted.zipIdx.map fun (s, i) => s!"{i}:{s}")
  if lookup okv "map" != some wantMap then return s!"FAIL SPEC variable mapping {lookup okv "map"}, lexicographic numbering is {wantMap}"
  -- same models: evaluate the text tree under name assignments
  let tt := String.ofList ((List.range (2 ^ n)).map fun i =>
    let ρ : String → Bool := fun x => assignOfNat i (sorted.idxOf x)
    match Spec.Text.evalSExp ρ sx with | some true => '1' | some false => '0' | none => '?')
  if lookup okv "tt" != some tt then return s!"FAIL SPEC the parsed expression denotes {lookup okv "tt"}, the text {tt}"
  match Ser.exprFromSexprText text with
  | some e =>
    if ttString n (fun a => e.eval a) != tt then return "FAIL MODEL from_sexpr"
  | none => return "FAIL MODEL from_sexpr rejects"
  return s!"ok nontrivial={if n > 1 then 1 else 0}"

def checkSerBdd (kvs okv : List (String × String)) : String := Id.run do
  let some n := (lookup kvs "n").bind parseNat? | return "FAIL PARSE n"
  let some d := (lookup kvs "d").bind parseBdd | return "FAIL PARSE d"
  let some jsE := lookup okv "json" | return "FAIL PARSE json"
  let js := unesc jsE
  let some tbl := SerStream.parseBddTable js | return "FAIL SPEC the BDD JSON is not a node table of the documented shape"
  match SerStream.bddTableTruth tbl 0 n with
  | some bits =>
    if SerStream.showBits bits != ttString n d.eval then
      return s!"FAIL SPEC the JSON node table denotes {SerStream.showBits bits}, the diagram {ttString n d.eval}"
  | none => return "FAIL SPEC the BDD JSON has no root"
  if SerStream.showBddTable (Ser.serBdd d) != js then
    return s!"FAIL MODEL BDD serialiser: model {SerStream.showBddTable (Ser.serBdd d)} implementation {js}"
  return s!"ok nontrivial={if isNontrivial d then 1 else 0}"

def checkSerSdd (kvs okv : List (String × String)) : String := Id.run do
  let some n := (lookup kvs "n").bind parseNat? | return "FAIL PARSE n"
  let some vt := (lookup kvs "vtree").bind parseVTree | return "FAIL PARSE vtree"
  let some tt := lookup kvs "tt" | return "FAIL PARSE tt"
  let some js := (lookup okv "json").map unesc | return "FAIL PARSE json"
  let some vjs := (lookup okv "vjson").map unesc | return "FAIL PARSE vjson"
  let some tbl := SerStream.parseSddTable js | return "FAIL SPEC the SDD JSON is not a node table of the documented shape"
  match SerStream.sddTableTruth tbl 0 n with
  | some bits =>
    if SerStream.showBits bits != tt then return s!"FAIL SPEC the SDD JSON node table denotes {SerStream.showBits bits}, the diagram {tt}"
  | none => return "FAIL SPEC the SDD JSON has no root"
  let some vtbl := SerStream.parseVtree vjs | return "FAIL SPEC the vtree JSON does not have the documented shape"
  if Ser.treeOfVtreeTable vtbl != vt then return "FAIL SPEC the vtree JSON denotes a different tree"
  if SerStream.showVtree (Ser.serVtree vt) != vjs then return "FAIL MODEL vtree serialiser"
  return s!"ok nontrivial={if tbl.nodes.size > 1 then 1 else 0}"

def checkSerLine (kvs : List (String × String)) (rhs : String) : String :=
  if rhs.startsWith "panic:" then s!"FAIL SPEC parsing/serialisation panicked: {rhs}" else
  let okv := splitKV rhs
  match lookup kvs "kind" with
  | some "todimacs" => checkSerToDimacs okv
  | some "dimacs" => checkSerDimacs kvs okv
  | some "sexpr" => checkSerSexpr kvs okv
  | some "bdd" => checkSerBdd kvs okv
  | some "sdd" => checkSerSdd kvs okv
  | _ => "FAIL PARSE kind"

end Driver
