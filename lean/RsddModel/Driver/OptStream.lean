import RsddModel.Driver.WmcStream
import RsddModel.Model.Optim
import RsddModel.Spec.Optim
/-!
# Driver: the `opt` stream (C12)

Marginal MAP, MEU and the generic branch and bound on diagrams the real builder produced.
Specification: exhaustive maximisation over all assignments of the query variables
(`Spec.mapSpec`, `Spec.meuSpec`); the returned assignment must assign exactly the query
variables and attain the optimum.  Model: `Optim.marginalMap`, `Optim.meu`, `Optim.bb` must
return exactly the implementation's value and assignment (tie-breaking included).
-/
namespace Driver
open Spec

def pmString (m : Optim.PM) (n : Nat) : String :=
  String.ofList ((List.range n).map fun x => match m.get x with
    | none => 'n' | some true => 't' | some false => 'f')

def parsePM (s : String) : List (Option Bool) :=
  s.toList.map fun c => if c == 't' then some true else if c == 'f' then some false else none

def splitValPm (s : String) : Option (String × String) :=
  match s.splitOn ":" with
  | [v, m] => some (v, m)
  | _ => none

/-- the assignment a returned partial model denotes on the query variables -/
def asgOfPm (pm : List (Option Bool)) : Assign := fun x => (pm.getD x none).getD false

def checkOptMap (kvs okv : List (String × String)) : String := Id.run do
  let some n := (lookup kvs "n").bind parseNat? | return "FAIL PARSE n"
  let some order := (lookup kvs "order").bind parseNatList | return "FAIL PARSE order"
  let some d := (lookup kvs "d").bind parseBdd | return "FAIL PARSE d"
  let some q := (lookup kvs "q").bind parseNatList | return "FAIL PARSE q"
  let some ws := (lookup kvs "w").bind parsePairs | return "FAIL PARSE w"
  let den := ((lookup kvs "den").bind parseNat?).getD 8
  let w : Weights Rat := fun v => let (l, h) := ws.getD v (0, 0); (mkRat l den, mkRat h den)
  let vars := List.range n
  let best := mapSpec d.eval q vars w
  for (key, isBB) in [("mm", false), ("bb", true)] do
    let some (vS, mS) := (lookup okv key).bind splitValPm | return s!"FAIL PARSE {key}"
    let some v := parseRat? vS | return s!"FAIL PARSE {key} value"
    if v != best then return s!"FAIL SPEC {key} returned {showRat v}, the maximum over all assignments of the query variables is {showRat best}"
    let pm := parsePM mS
    -- exactly the query variables are assigned, and the assignment attains the optimum
    for x in vars do
      if (pm.getD x none).isSome != q.contains x then
        return s!"FAIL SPEC {key} assignment {mS} does not assign exactly the query variables {q}"
    let attained := mapValue d.eval q (nonQuery vars q) w (asgOfPm pm)
    if attained != best then return s!"FAIL SPEC {key} assignment {mS} has value {showRat attained}, not the optimum {showRat best}"
    let (mv, mm) := if isBB then Optim.bb Optim.realBB d q n w else Optim.marginalMap d q n w
    if mv != v || pmString mm n != mS then
      return s!"FAIL MODEL {key}: model {showRat mv}:{pmString mm n} implementation {vS}:{mS}"
  let _ := order
  return s!"ok nontrivial={if q.length > 0 && isNontrivial d then 1 else 0}"

/-- `kind=mapwide`: a manager with more than 64 variables; the function mentions five of them.
Specification: exhaustive maximum over the query variables, summing over the other MENTIONED
variables (every unmentioned variable carries normalised weights and contributes the factor 1). -/
def checkOptMapWide (kvs okv : List (String × String)) : String := Id.run do
  let some vars := (lookup kvs "vars").bind parseNatList | return "FAIL PARSE vars"
  let some q := (lookup kvs "q").bind parseNatList | return "FAIL PARSE q"
  let some d := (lookup okv "d").bind parseBdd | return "FAIL PARSE d"
  let wsS := ((lookup kvs "w").getD "").splitOn ","
  let ws : List (Nat × Nat × Nat) := wsS.filterMap fun e => match (e.splitOn ":").mapM String.toNat? with
    | some [v, l, h] => some (v, l, h) | _ => none
  let w : Weights Rat := fun v => match ws.find? (·.1 == v) with
    | some (_, l, h) => (mkRat l 8, mkRat h 8) | none => (mkRat 1 2, mkRat 1 2)
  -- the diagram denotes the cubes
  let cubesS := ((lookup kvs "cubes").getD "").splitOn ";"
  let cubes : List (List (Nat × Bool)) := cubesS.map fun c =>
    if c.isEmpty then [] else (c.splitOn ".").filterMap fun l =>
      match l.toList with
      | 'p' :: r => (String.ofList r).toNat?.map fun v => (v, true)
      | 'n' :: r => (String.ofList r).toNat?.map fun v => (v, false)
      | _ => none
  let f : Assign → Bool := fun a => cubes.any fun c => c.all fun (v, p) => a v == p
  let asgs := (List.range (2 ^ vars.length)).map fun i => fun (x : Nat) => assignOfNat i (vars.idxOf x)
  if asgs.any (fun a => d.eval a != f a) then return "FAIL SPEC the compiled diagram does not denote the cubes"
  let best := mapSpec d.eval q vars w
  for key in ["mm", "bb"] do
    let some (vS, mS) := (lookup okv key).bind splitValPm | return s!"FAIL PARSE {key}"
    let some v := parseRat? vS | return s!"FAIL PARSE {key} value"
    if v != best then return s!"FAIL SPEC {key} (manager with more than 64 variables) returned {showRat v}, the maximum over all assignments of the query variables is {showRat best}"
    let pm := parsePM mS
    for x in vars do
      if (pm.getD x none).isSome != q.contains x then
        return s!"FAIL SPEC {key} assignment does not assign exactly the query variables {q}"
    let attained := mapValue d.eval q (nonQuery vars q) w (asgOfPm pm)
    if attained != best then return s!"FAIL SPEC {key} assignment has value {showRat attained}, not the optimum {showRat best}"
  return "ok nontrivial=1"

def checkOptMeu (kvs okv : List (String × String)) : String := Id.run do
  let some n := (lookup kvs "n").bind parseNat? | return "FAIL PARSE n"
  let some order := (lookup kvs "order").bind parseNatList | return "FAIL PARSE order"
  let some d := (lookup kvs "d").bind parseBdd | return "FAIL PARSE d"
  let some dec := (lookup kvs "dec").bind parseNatList | return "FAIL PARSE dec"
  let some util := (lookup kvs "util").bind parseNatList | return "FAIL PARSE util"
  let some us := (lookup kvs "us").bind parseNatList | return "FAIL PARSE us"
  let uls := ((lookup kvs "uls").bind parseNatList).getD []
  let ups := ((lookup kvs "ups").bind parseNatList).getD []
  let some pr := (lookup kvs "pr").bind parseNatList | return "FAIL PARSE pr"
  let w : Weights Sem.EU := fun v =>
    if dec.contains v then (⟨1, 0⟩, ⟨1, 0⟩)
    else match util.idxOf? v with
      | some i =>
        let k := ups.getD i 9
        if k == 9 then (⟨1, (uls.getD i 0 : Nat)⟩, ⟨1, (us.getD i 0 : Nat)⟩)
        else (⟨1 - mkRat k 8, (uls.getD i 0 : Nat)⟩, ⟨mkRat k 8, (us.getD i 0 : Nat)⟩)
      | none => let k : Rat := mkRat (pr.getD v 0) 8; (⟨k, 0⟩, ⟨1 - k, 0⟩)
  let vars := List.range n
  let best := meuSpec d.eval dec order w
  for (key, isBB) in [("meu", false), ("bb", true)] do
    let some (vS, mS) := (lookup okv key).bind splitValPm | return s!"FAIL PARSE {key}"
    let some (p, u) := parseRat2 vS | return s!"FAIL PARSE {key} value"
    if u != best then return s!"FAIL SPEC {key} returned utility {showRat u}, the maximum expected utility over all decisions is {showRat best}"
    let pm := parsePM mS
    for x in vars do
      if (pm.getD x none).isSome != dec.contains x then
        return s!"FAIL SPEC {key} assignment {mS} does not assign exactly the decision variables {dec}"
    let attained := (meuValue d.eval dec order w (asgOfPm pm)).u
    if attained != best then return s!"FAIL SPEC {key} assignment {mS} has expected utility {showRat attained}, not the optimum {showRat best}"
    let (mv, mm) := if isBB then Optim.bb Optim.euBB d dec n w else Optim.meu d dec n w
    if mv.p != p || mv.u != u || pmString mm n != mS then
      return s!"FAIL MODEL {key}: model {showRat mv.p},{showRat mv.u}:{pmString mm n} implementation {vS}:{mS}"
  return s!"ok nontrivial={if dec.length > 0 && isNontrivial d then 1 else 0}"

def checkOptLine (kvs : List (String × String)) (rhs : String) : String :=
  if rhs.startsWith "panic:" then s!"FAIL SPEC an optimisation query panicked: {rhs}" else
  let okv := splitKV rhs
  match lookup kvs "kind" with
  | some "mapwide" => checkOptMapWide kvs okv
  | some "map" => checkOptMap kvs okv
  | some "meu" => checkOptMeu kvs okv
  | _ => "FAIL PARSE kind"

end Driver
