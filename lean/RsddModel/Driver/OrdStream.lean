import RsddModel.Driver.CnfParse
import RsddModel.Model.Orders
import RsddModel.Model.VTree
/-!
# Driver: the `ord` stream (C14)

Orders (`linear_order`, `min_fill_order`, `force_order`, `new_last`, `VarOrder::new`), dtrees
and derived vtrees, vtree constructors and the vtree manager.  Each reply of the implementation
is compared with the mirrored model (exact equality) and judged by the specification:
permutation + mutually inverse maps; leaves/vars/cutsets of the dtree by their set-theoretic
definitions; every occurring variable exactly once in the derived vtree; in-order indices,
least common ancestors (deepest common ancestor by root paths), prime relation and variable
count from the shape of the tree.
-/
namespace Driver
open Spec

def isPermInv (n : Nat) (p2v v2p : List Nat) : Bool :=
  p2v.length == n && v2p.length == n &&
  (List.range n).all (fun i => p2v.contains i) &&
  (List.range n).all (fun i => v2p.getD (p2v.getD i n) n == i) &&
  (List.range n).all (fun v => p2v.getD (v2p.getD v n) n == v)

def parseOrderPair (s : String) : Option (List Nat × List Nat) :=
  match s.splitOn "/" with
  | [a, b] => do some ((← parseNatList a), (← parseNatList b))
  | _ => none

def showPair (o : Orders.VarOrder) : String := s!"{showNats "," o.posToVar}/{showNats "," o.varToPos}"

def checkOrders (kvs okv : List (String × String)) : String := Id.run do
  let some n := (lookup kvs "n").bind parseNat? | return "FAIL PARSE n"
  let some cs := (lookup kvs "cnf").bind parseCnf | return "FAIL PARSE cnf"
  let mut nt := 0
  for k in ["linear", "minfill", "force"] do
    let some v := lookup okv k | return s!"FAIL PARSE {k}"
    if v == "skipped" then continue
    if v.startsWith "panic:" then return s!"FAIL SPEC {k} order panicked: {v}"
    let some (p2v, v2p) := parseOrderPair v | return s!"FAIL PARSE {k} value"
    if !isPermInv n p2v v2p then return s!"FAIL SPEC {k} order is not a permutation of the {n} variables with mutually inverse maps: {v}"
    if p2v != List.range n then nt := nt + 1
  let some ext := lookup okv "ext" | return "FAIL PARSE ext"
  match ext.splitOn "," with
  | a :: b :: rest =>
    let some (p2v, v2p) := parseOrderPair (",".intercalate rest) | return "FAIL PARSE ext value"
    if a.toNat? != some n || b.toNat? != some (n + 1) then return s!"FAIL SPEC new_last returned labels {a},{b} for an order on {n} variables"
    if !isPermInv (n + 2) p2v v2p then return "FAIL SPEC extended order is not a permutation with inverse maps"
    if p2v.drop n != [n, n + 1] then return "FAIL SPEC run-time extension did not append the new variables at the end"
  | _ => return "FAIL PARSE ext"
  -- mirrored model
  let lin := Orders.linearOrder n
  if lookup okv "linear" != some (showPair lin) then return s!"FAIL MODEL linear: model {showPair lin}"
  let mf := Orders.minFillOrder cs n
  if lookup okv "minfill" != some (showPair mf) then return s!"FAIL MODEL minfill: model {showPair mf} implementation {lookup okv "minfill"}"
  if lookup okv "force" != some "skipped" then
    match Orders.forceOrderFloat cs n with
    | some fo => if lookup okv "force" != some (showPair fo) then return s!"FAIL MODEL force: model {showPair fo} implementation {lookup okv "force"}"
    | none => return "FAIL MODEL force: model diverges"
  let e2 := (lin.newLast.1).newLast.1
  if ext != s!"{n},{n+1},{showPair e2}" then return s!"FAIL MODEL ext: model {showPair e2}"
  -- run-time extension of the min-fill order
  let mfext := (lookup okv "mfext").getD ""
  if !mfext.startsWith "panic:" && !((lookup okv "minfill").getD "").startsWith "panic:" then
    match mfext.splitOn "," with
    | x :: rest =>
      let some (p2v, v2p) := parseOrderPair (",".intercalate rest) | return "FAIL PARSE mfext"
      if x.toNat? != some n then return s!"FAIL SPEC new_last on the min-fill order returned label {x}, the order had {n} variables"
      if !isPermInv (n + 1) p2v v2p then return s!"FAIL SPEC the extended min-fill order is not a permutation with mutually inverse maps: {mfext}"
      if p2v.take n != mf.posToVar || p2v.drop n != [n] then return "FAIL SPEC run-time extension changed the existing order or did not append the new variable last"
      let me := mf.newLast.1
      if s!"{n},{showPair me}" != mfext then return "FAIL MODEL mfext"
    | _ => return "FAIL PARSE mfext"
  return s!"ok nontrivial={nt}"

def checkPerm (kvs okv : List (String × String)) : String := Id.run do
  let some order := (lookup kvs "order").bind parseNatList | return "FAIL PARSE order"
  let n := order.length
  let some (p2v, v2p) := (lookup okv "order").bind parseOrderPair | return "FAIL PARSE order value"
  if p2v != order then return "FAIL SPEC VarOrder::new does not list the variables in the given order"
  if !isPermInv n p2v v2p then return "FAIL SPEC VarOrder::new maps are not mutually inverse"
  let lt := String.ofList ((List.range n).flatMap fun a => (List.range n).map fun b =>
    if order.idxOf a < order.idxOf b then '1' else '0')
  if lookup okv "lt" != some lt then return "FAIL SPEC lt does not agree with the positions"
  let o := Orders.VarOrder.new order
  if s!"{showNats "," o.posToVar}/{showNats "," o.varToPos}" != (lookup okv "order").getD "" then return "FAIL MODEL VarOrder.new"
  -- two run-time extensions on top of the explicit permutation
  match ((lookup okv "ext").getD "").splitOn "," with
  | a :: b :: rest =>
    let some (ep2v, ev2p) := parseOrderPair (",".intercalate rest) | return "FAIL PARSE ext"
    if a.toNat? != some n || b.toNat? != some (n + 1) then return s!"FAIL SPEC new_last returned labels {a},{b} on an order over {n} variables"
    if !isPermInv (n + 2) ep2v ev2p then return s!"FAIL SPEC the extended order is not a permutation with mutually inverse maps"
    if ep2v.take n != order || ep2v.drop n != [n, n + 1] then return "FAIL SPEC run-time extension changed the existing order or did not append the new variables last"
    let e2 := (o.newLast.1).newLast.1
    if s!"{n},{n+1},{showPair e2}" != (lookup okv "ext").getD "" then return "FAIL MODEL extension of a permutation"
  | _ => return "FAIL PARSE ext"
  -- accessor API against the positions
  let pos (v : Nat) : Nat := order.idxOf v
  let lte := String.ofList ((List.range n).flatMap fun a => (List.range n).map fun b => if pos a ≤ pos b then '1' else '0')
  if lookup okv "lte" != some lte then return "FAIL SPEC lte does not agree with the positions"
  let optS (o : Option Nat) : String := match o with | some v => toString v | none => "-"
  let above := ".".intercalate ((List.range n).map fun v => optS (if pos v == 0 then none else order[pos v - 1]?))
  let below := ".".intercalate ((List.range n).map fun v => optS (order[pos v + 1]?))
  if lookup okv "above" != some above then return s!"FAIL SPEC above = {lookup okv "above"}, by the positions {above}"
  if lookup okv "below" != some below then return s!"FAIL SPEC below = {lookup okv "below"}, by the positions {below}"
  if lookup okv "last" != (order.getLast?.map toString) then return s!"FAIL SPEC last_var = {lookup okv "last"}"
  if lookup okv "fwd" != some (showNats "." order) then return "FAIL SPEC in_order_iter does not list the order"
  if lookup okv "rev" != some (showNats "." order.reverse) then return "FAIL SPEC reverse_in_order_iter does not list the reversed order"
  match ((lookup okv "btw").getD "").splitOn ":" with
  | [lo, hi, vs] =>
    let (lo, hi) := (lo.toNat?.getD 0, hi.toNat?.getD 0)
    let want := showNats "." ((order.drop lo).take (hi - lo)).reverse
    if vs != want then return s!"FAIL SPEC between_iter({lo},{hi}) yields {vs}, the levels [{lo},{hi}) in reverse are {want}"
  | _ => return "FAIL PARSE btw"
  if lookup okv "disp" != some s!"[{showNats "," order}]" then return s!"FAIL SPEC Display prints {lookup okv "disp"}"
  return s!"ok nontrivial={if order != List.range n then 1 else 0}"

/-! ### dtrees -/

def showVT : VT.VTree → String
  | .leaf v => toString v
  | .node l r => s!"({showVT l},{showVT r})"

def showDT : VT.DTree → String
  | .leaf c cut vs => s!"L[{showNats "." cut}/{showNats "." vs}]\{{showClause "." c}}"
  | .node l r cut vs => s!"N[{showNats "." cut}/{showNats "." vs}]({showDT l},{showDT r})"

def sortDedup (l : List Nat) : List Nat := (l.foldl (fun s x => VT.VarSet.insert x s) [])

/-- specification of a dtree (independent of how it was built): vars = union of children /
clause variables; cutset of a node = (vars l ∩ vars r) ∖ ancestors; of a leaf = vars ∖ ancestors -/
def dtreeOk (anc : List Nat) : VT.DTree → Bool
  | .leaf c cut vs =>
    vs == sortDedup (c.map (·.var)) && cut == vs.filter (fun x => !anc.contains x)
  | .node l r cut vs =>
    vs == sortDedup (l.vars ++ r.vars) &&
    cut == (l.vars.filter fun x => r.vars.contains x && !anc.contains x) &&
    dtreeOk (anc ++ cut) l && dtreeOk (anc ++ cut) r

partial def parseDTAux : List Char → Option (VT.DTree × List Char)
  | k :: '[' :: r =>
    let (cutS, r1) := r.span (· != '/')
    let (vsS, r2) := (r1.drop 1).span (· != ']')
    let nats (cs : List Char) : Option (List Nat) :=
      if cs.isEmpty then some [] else ((String.ofList cs).splitOn ".").mapM String.toNat?
    match nats cutS, nats vsS, r2 with
    | some cut, some vs, ']' :: r3 =>
      if k == 'L' then
        match r3 with
        | '{' :: r4 =>
          let (cl, r5) := r4.span (· != '}')
          match parseClause "." (String.ofList cl) with
          | some c => some (.leaf c cut vs, r5.drop 1)
          | none => none
        | _ => none
      else if k == 'N' then
        match r3 with
        | '(' :: r4 =>
          match parseDTAux r4 with
          | some (l, ',' :: r5) =>
            match parseDTAux r5 with
            | some (rt, ')' :: r6) => some (.node l rt cut vs, r6)
            | _ => none
          | _ => none
        | _ => none
      else none
    | _, _, _ => none
  | _ => none

def occurring (cs : Cnf) : List Nat := sortDedup (cs.flatMap fun c => c.map (·.var))

def checkDtree (kvs okv : List (String × String)) (rhs : String) : String := Id.run do
  let some cs := (lookup kvs "cnf").bind parseCnf | return "FAIL PARSE cnf"
  let some elim := (lookup kvs "elim").bind parseNatList | return "FAIL PARSE elim"
  let model := VT.DTree.fromCnf cs elim
  if rhs.startsWith "panic:" then
    -- the library asserts a non-empty clause list
    if cs.isEmpty && model.isNone then return "ok rejected"
    return s!"FAIL SPEC dtree construction panicked: {rhs}"
  let some dtS := lookup okv "dt" | return "FAIL PARSE dt"
  let some (dt, []) := parseDTAux dtS.toList | return "FAIL PARSE dtree term"
  -- specification
  if !(dt.leaves.isPerm cs) then return "FAIL SPEC the dtree's leaves are not exactly the CNF's clauses"
  if !dtreeOk [] dt then return s!"FAIL SPEC variable sets / cutsets of the dtree disagree with their definitions: {dtS}"
  let some vtS := lookup okv "vt" | return "FAIL PARSE vt"
  let occ := occurring cs
  if vtS == "none" then
    if !occ.isEmpty then return "FAIL SPEC no vtree derived although variables occur"
  else
    -- leaves of the printed vtree
    let leaves := ((vtS.toList.map fun c => if c.isDigit then c else ' ') |> String.ofList).splitOn " " |>.filterMap String.toNat?
    if sortDedup leaves != occ || leaves.length != occ.length then
      return s!"FAIL SPEC derived vtree leaves {leaves} are not the occurring variables {occ}, each once"
  -- mirrored model
  match model with
  | none => return "FAIL MODEL model rejects"
  | some m =>
    if showDT m != dtS then return s!"FAIL MODEL dtree: model {showDT m} implementation {dtS}"
    let mv := match VT.VTree.fromDtree m with | some t => showVT t | none => "none"
    if mv != vtS then return s!"FAIL MODEL derived vtree: model {mv} implementation {vtS}"
    if lookup okv "width" != some (toString m.cutwidth) then return "FAIL MODEL cutwidth"
    -- the manager of the derived vtree (sparse labels when the CNF skips variable indices)
    match VT.VTree.fromDtree m, lookup okv "mgr" with
    | some t, some mg =>
      match mg.splitOn ";" with
      | [nvS, idxS] =>
        let some nv := nvS.toNat? | return "FAIL PARSE mgr"
        for v in t.leaves do
          if v ≥ nv then return s!"FAIL SPEC variable {v} is a leaf of the derived vtree but the manager's num_vars() is {nv}"
        let mm := VT.VTreeManager.new t
        if nv != mm.numVars then return s!"FAIL MODEL num_vars of the derived vtree's manager: model {mm.numVars} implementation {nv}"
        let want := ",".intercalate (t.leaves.map fun v => s!"{v}:{mm.getVarlabelIdx v}")
        if idxS != want then return s!"FAIL MODEL var_index on the derived vtree: model {want} implementation {idxS}"
      | _ => return "FAIL PARSE mgr"
    | _, _ => pure ()
  return s!"ok nontrivial={if cs.length > 1 then 1 else 0}"

/-! ### vtrees -/

partial def parseVTAux : List Char → Option (VT.VTree × List Char)
  | '(' :: r =>
    match parseVTAux r with
    | some (l, ',' :: r1) =>
      match parseVTAux r1 with
      | some (rt, ')' :: r2) => some (.node l rt, r2)
      | _ => none
    | _ => none
  | cs =>
    let (ds, r1) := cs.span Char.isDigit
    (String.ofList ds).toNat?.map fun v => (.leaf v, r1)

/-- specification: root path of every in-order index -/
def pathsOf : VT.VTree → List (List Bool)
  | .leaf _ => [[]]
  | .node l r => (pathsOf l).map (false :: ·) ++ [[]] ++ (pathsOf r).map (true :: ·)

def commonPrefix : List Bool → List Bool → List Bool
  | a :: as, b :: bs => if a == b then a :: commonPrefix as bs else []
  | _, _ => []

def checkVtree (kvs okv : List (String × String)) (rhs : String) : String := Id.run do
  if rhs.startsWith "panic:" then return s!"FAIL SPEC vtree construction panicked: {rhs}"
  let some tS := lookup kvs "t" | return "FAIL PARSE t"
  let some (t, []) := parseVTAux tS.toList | return "FAIL PARSE vtree"
  let some labels := (lookup kvs "labels").bind parseNatList | return "FAIL PARSE labels"
  let n := labels.length
  -- constructors
  let ctor := (lookup kvs "ctor").getD ""
  let built : Option VT.VTree :=
    if ctor == "rl" then VT.VTree.rightLinear labels
    else if ctor == "ll" then VT.VTree.leftLinear labels
    else if ctor.startsWith "es" then VT.VTree.evenSplit labels ((ctor.drop 2).toString.toNat?.getD 0)
    else some t
  if built != some t then return s!"FAIL MODEL constructor {ctor}: model {built.map showVT} implementation {tS}"
  if ctor != "gen" && t.leaves != labels then return s!"FAIL SPEC constructor {ctor} does not keep the given leaf order"
  let paths := pathsOf t
  let m := VT.VTreeManager.new t
  -- variable → leaf index
  let some varidx := (lookup okv "varidx").bind parseNatList | return "FAIL PARSE varidx"
  for v in List.range n do
    let i := varidx.getD v 0
    match (paths.getD i []) |> VT.VTree.subtreeAt t with
    | some (.leaf w) => if w != v then return s!"FAIL SPEC var_index({v}) = {i}, which is the leaf of {w}"
    | _ => return s!"FAIL SPEC var_index({v}) = {i} is not a leaf"
    if m.getVarlabelIdx v != i then return "FAIL MODEL var index"
  -- lca and prime relation
  let some lcaS := lookup okv "lca" | return "FAIL PARSE lca"
  for e in lcaS.splitOn "," do
    match (e.splitOn ".").mapM String.toNat? with
    | some [a, b, l, p] =>
      let spec := paths.idxOf (commonPrefix (paths.getD a []) (paths.getD b []))
      if l != spec then return s!"FAIL SPEC lca({a},{b}) = {l}, deepest common ancestor is {spec}"
      if (p == 1) != decide (a < b) then return s!"FAIL SPEC is_prime_index({a},{b})"
      if m.lca a b != l then return s!"FAIL MODEL lca({a},{b}): model {m.lca a b} implementation {l}"
    | _ => return "FAIL PARSE lca entry"
  -- subtrees by index
  let some subs := lookup okv "subs" | return "FAIL PARSE subs"
  for e in subs.splitOn ";" do
    match e.splitOn ":" with
    | [i, s] =>
      let i := i.toNat?.getD 0
      let spec := (VT.VTree.subtreeAt t (paths.getD i [])).map showVT
      if spec != some s then return s!"FAIL SPEC vtree({i}) = {s}, the in-order node {i} is {spec}"
    | _ => return "FAIL PARSE subs entry"
  let maxl := t.leaves.foldl max 0
  if lookup okv "numvars" != some (toString (maxl + 1)) then
    return s!"FAIL SPEC num_vars = {lookup okv "numvars"} for a vtree whose labels are 0..{maxl}"
  if toString m.numVars != (lookup okv "numvars").getD "" then return "FAIL MODEL num_vars"
  return s!"ok nontrivial={if n > 2 then 1 else 0}"

def checkOrdLine (kvs : List (String × String)) (rhs : String) : String :=
  let okv := splitKV rhs
  match lookup kvs "kind" with
  | some "orders" => if rhs.startsWith "panic:" then s!"FAIL SPEC {rhs}" else checkOrders kvs okv
  | some "perm" => if rhs.startsWith "panic:" then s!"FAIL SPEC {rhs}" else checkPerm kvs okv
  | some "dtree" => checkDtree kvs okv rhs
  | some "vtree" => checkVtree kvs okv rhs
  | _ => "FAIL PARSE kind"

end Driver
