import RsddModel.Driver.SerLines
import RsddModel.Driver.WmcStream
import RsddModel.Model.Ffi
import RsddModel.Model.BddCompile
/-!
# Driver: the `ffi` stream (C18)

Every call sequence was run three ways: through the exported C symbols, through the native
Rust API (both by the harness), and here through the model of the handle layer (`Ffi.run`).
Specification: C results equal native results (diagrams as complement-free expansions obtained
through `bdd_topvar/low/high`, the `bdd_eq` classes, model counts, real / complex / polynomial
counts), the diagrams denote the specified functions, `bdd_eq` is semantic equality, the model
count is the number of models, the JSON denotes the last diagram, marshalling truncates at
`MAX_COEFFS`.
-/
namespace Driver
open Spec

/-- complement-free expansion printed as `T`, `F`, `(v,lo,hi)` -/
partial def expand : Bdd.Ptr → Bool → String
  | .tru, n => if n then "F" else "T"
  | .fls, n => if n then "T" else "F"
  | .node c v lo hi, n => s!"({v},{expand lo (n != c)},{expand hi (n != c)})"

partial def parsePlainAux : List Char → Option (Bdd.Ptr × List Char)
  | 'T' :: r => some (.tru, r)
  | 'F' :: r => some (.fls, r)
  | '(' :: r =>
    let (ds, r1) := r.span Char.isDigit
    match (String.ofList ds).toNat?, r1 with
    | some v, ',' :: r2 =>
      match parsePlainAux r2 with
      | some (lo, ',' :: r3) =>
        match parsePlainAux r3 with
        | some (hi, ')' :: r4) => some (.node false v lo hi, r4)
        | _ => none
      | _ => none
    | _, _ => none
  | _ => none

def toCall : Bdd.Op → Option Ffi.Call
  | .const b => some (if b then .tru else .fls)
  | .var x p => some (.var x p)
  | .newVar p => some (.newVar p)
  | .neg i => some (.neg i)
  | .and i j => some (.and i j)
  | .or i j => some (.or i j)
  | .ite i j k => some (.ite i j k)
  | .compose i x j => some (.compose i x j)
  | _ => none

def showPolyRat (p : Sem.Poly Rat) : String :=
  s!"{p.len}:{";".intercalate ((p.coeffs.take p.len).map showRat)}"

/-- `kind=cnf` lines: the CNF / order / dtree / vtree / SDD / decision-DNNF part of the C
interface.  Specification: every observable obtained through the C symbols equals the one the
native API gives for the same arguments, and the compiled diagrams denote the clauses as
written (so an argument lost or altered while crossing the boundary shows even if both sides
agree).  Model: the mirrored bottom-up compiler on the same clauses and order. -/
def checkFfiCnfLine (kvs : List (String × String)) (rhs : String) : String := Id.run do
  let some n := (lookup kvs "n").bind parseNat? | return "FAIL PARSE n"
  let some raw := (lookup kvs "raw").bind parseCnf | return "FAIL PARSE raw"
  let some order := (lookup kvs "order").bind parseNatList | return "FAIL PARSE order"
  if rhs.startsWith "panic:" then return s!"FAIL SPEC a C call sequence panicked: {rhs}"
  let okv := splitKV rhs
  let g (k : String) : String := (lookup okv k).getD "<missing>"
  for (c, nn, what) in [("ccnf", "ncnf", "cnf_new / cnf_from_dimacs"), ("cmf", "nmf", "cnf_min_fill_order"),
      ("cb", "nb", "robdd_builder_compile_cnf"), ("cpr", "npr", "print_bdd"),
      ("cd", "nd", "ddnnf_builder_compile_cnf_topdown"), ("csw", "nsw", "sdd_builder_compile_cnf / sdd_wmc")] do
    if g c != g nn then return s!"FAIL SPEC {what}: through C {g c}, native {g nn}"
  let cnfTT := ttString n (cnfFn raw)
  let some (cb, []) := parsePlainAux (g "cb").toList | return "FAIL PARSE cb"
  if ttString n cb.eval != cnfTT then
    return s!"FAIL SPEC the BDD compiled through C denotes {ttString n cb.eval}, the clauses passed to cnf_new denote {cnfTT}"
  let some (cd, []) := parsePlainAux (g "cd").toList | return "FAIL PARSE cd"
  if ttString n cd.eval != cnfTT then
    return s!"FAIL SPEC the decision-DNNF compiled through C denotes {ttString n cd.eval}, the clauses {cnfTT}"
  let models := (cnfTT.toList.filter (· == '1')).length
  if g "cmc" != toString (models % Constants.u64largest) then
    return s!"FAIL SPEC robdd_model_count = {g "cmc"}, the clauses have {models} models over {n} variables"
  if g "csw" != "skipped" && g "csw" != "null" then
    let ks := ((lookup kvs "w").getD "").splitOn "," |>.filterMap String.toNat?
    let w : Weights Rat := fun v => let k : Rat := mkRat (ks.getD v 0) 8; (1 - k, k)
    let want := wsum Sem.realOps (List.range n) w (cnfFn raw) (fun _ => false)
    if g "csw" != showRat want then return s!"FAIL SPEC sdd_wmc through C = {g "csw"}, weighted sum over models {showRat want}"
  -- mirrored compiler
  match Bdd.runCompileCnf order (Compile.cnfNew raw) with
  | none => return "FAIL MODEL the compiler model rejects the CNF"
  | some m => if expand m false != g "cb" then return s!"FAIL MODEL compile_cnf: model {expand m false} through C {g "cb"}"
  return s!"ok nontrivial={if isNontrivial cb then 1 else 0}"

/-- `kind=wide` lines: model counts on managers with 54–64 variables for diagrams with a closed
form (disjunction, conjunction of the first k variables; one negative literal), modulo the
counting prime -/
def checkFfiWideLine (kvs : List (String × String)) (rhs : String) : String := Id.run do
  let some n := (lookup kvs "n").bind parseNat? | return "FAIL PARSE n"
  let some ks := (lookup kvs "ks").bind parseNatList | return "FAIL PARSE ks"
  if rhs.startsWith "panic:" then return s!"FAIL SPEC a C call sequence panicked: {rhs}"
  let okv := splitKV rhs
  let some cmc := (lookup okv "cmc").bind parseNatList | return "FAIL PARSE cmc"
  let some nmc := (lookup okv "nmc").bind parseNatList | return "FAIL PARSE nmc"
  if cmc != nmc then return s!"FAIL SPEC robdd_model_count through C {cmc}, native counts {nmc}"
  let P := Constants.u64largest
  let want := ks.flatMap fun k => [(2 ^ n - 2 ^ (n - k)) % P, (2 ^ (n - k)) % P, (2 ^ (n - 1)) % P]
  if cmc != want then return s!"FAIL SPEC model counts over {n} variables {cmc}, closed forms modulo the counting prime {want}"
  return "ok nontrivial=1"

def checkFfiLine (kvs : List (String × String)) (rhs : String) : String := Id.run do
  if lookup kvs "kind" == some "cnf" then return checkFfiCnfLine kvs rhs
  if lookup kvs "kind" == some "wide" then return checkFfiWideLine kvs rhs
  let some n := (lookup kvs "n").bind parseNat? | return "FAIL PARSE n"
  let some opsS := lookup kvs "ops" | return "FAIL PARSE ops"
  let some ops := (opsS.splitOn "|").mapM parseOp | return "FAIL PARSE op"
  let some calls := ops.mapM toCall | return "FAIL PARSE call"
  if rhs.startsWith "panic:" then return s!"FAIL SPEC a C call sequence panicked: {rhs}"
  let okv := splitKV rhs
  let g (k : String) := (lookup okv k).getD ""
  -- C == native
  for (c, nk) in [("cw", "nw"), ("ceq", "neq"), ("cmc", "nmc"), ("cr", "nr"), ("cc", "nc"), ("cp", "np"),
      ("xs", "nxs"), ("crc", "nrc"), ("cwb", "nwb"), ("cpb", "npb"),
      -- counts after the weight tables were updated in place (rotated profile), and back
      ("cr2", "nr2"), ("cc2", "nc2"), ("cp2", "np2"), ("cr3", "nr")] do
    if g c != g nk then return s!"FAIL SPEC the C interface returned {c}={g c} but the native operations {nk}={g nk}"
  let nmax := n + countNewVars ops
  if g "nvars" != toString nmax then return "FAIL PARSE nvars"
  -- diagrams denote the specified functions
  let some (_, fns) := specRunTab nmax (n, []) ops | return "FAIL SPEC specification rejects the call sequence"
  let cws := (g "cw").splitOn "|"
  if cws.length != fns.length then return "FAIL PARSE cw length"
  let mut trees : List Bdd.Ptr := []
  for ((s, f), i) in (cws.zip fns).zipIdx do
    let some (t, []) := parsePlainAux s.toList | return "FAIL PARSE plain tree"
    trees := trees ++ [t]
    if ttString nmax t.eval != ttString nmax f then
      return s!"FAIL SPEC the diagram of call #{i}, read through bdd_topvar/low/high, denotes {ttString nmax t.eval}, specified {ttString nmax f}"
  -- bdd_eq is semantic equality
  let tts := fns.map (ttString nmax)
  let some ceq := parseNatList (g "ceq") | return "FAIL PARSE ceq"
  for (c, i) in ceq.zipIdx do
    if (List.range (i + 1)).find? (fun j => tts[j]? == tts[i]?) != some c then
      return s!"FAIL SPEC bdd_eq class of handle #{i} is {c}"
  -- model counts
  let some cmc := parseNatList (g "cmc") | return "FAIL PARSE cmc"
  for ((c, f), i) in (cmc.zip fns).zipIdx do
    let models := ((List.range (2 ^ nmax)).filter fun k => f (assignOfNat k)).length
    if c != models then return s!"FAIL SPEC robdd_model_count of handle #{i} is {c}, number of models over {nmax} variables is {models}"
  -- the count taken right after each call is over the variables the manager had then
  let some mcnow := parseNatList (g "mcnow") | return "FAIL PARSE mcnow"
  let mut nv := n
  for ((c, f), i) in (mcnow.zip fns).zipIdx do
    match ops.getD i (.const true) with
    | .newVar _ => nv := nv + 1
    | _ => pure ()
    let models := ((List.range (2 ^ nv)).filter fun k => f (assignOfNat k)).length
    if c != models then return s!"FAIL SPEC robdd_model_count right after call #{i} is {c}, number of models over the manager's {nv} variables is {models}"
  -- marshalling
  if g "lplen" != toString Constants.maxCoeffs then return s!"FAIL SPEC new_polynomial kept {g "lplen"} coefficients of a longer array, MAX_COEFFS is {Constants.maxCoeffs}"
  let some wr := (lookup kvs "wr").bind parsePairs | return "FAIL PARSE wr"
  let (l0, h0) := wr.headD (0, 0)
  if g "wback" != s!"{showRat (mkRat l0 8)},{showRat (mkRat h0 8)}" then return "FAIL SPEC wmc_param_f64_var_weight does not return the weight that was set"
  -- JSON of the last handle
  match SerStream.parseBddTable (g "json") with
  | some tbl =>
    match SerStream.bddTableTruth tbl 0 nmax with
    | some bits => if SerStream.showBits bits != tts.getLastD "" then return "FAIL SPEC bdd_to_json denotes a different function"
    | none => return "FAIL SPEC bdd_to_json has no root"
  | none => return "FAIL SPEC bdd_to_json is not a node table"
  -- the model of the handle layer
  match Ffi.run Bdd.ListCache (fun v => v) 200 (Ffi.St.init Bdd.ListCache n) calls with
  | none => return "FAIL MODEL the handle-layer model rejects the sequence"
  | some st =>
    let mw := "|".intercalate (st.handles.map fun p => expand p false)
    if mw != g "cw" then return s!"FAIL MODEL diagrams: model {mw} implementation {g "cw"}"
    let last := st.handles.getLastD .tru
    let wrW : Weights Rat := fun v => let (l, h) := wr.getD v (0, 0); (mkRat l 8, mkRat h 8)
    if showRat (Bdd.wmc Sem.realOps wrW last) != g "cr" then return "FAIL MODEL real count"
    let nw := wr.length
    let wrW2 : Weights Rat := fun v => if v < nw then wrW ((v + 1) % nw) else wrW v
    if showRat (Bdd.wmc Sem.realOps wrW2 last) != g "cr2" then
      return s!"FAIL SPEC bdd_wmc after the weight table was updated in place: {g "cr2"}, weighted sum under the updated weights {showRat (Bdd.wmc Sem.realOps wrW2 last)}"
    let wcS := ((lookup kvs "wc").getD "").splitOn ","
    let wcW : Weights Sem.Cx := fun v =>
      match ((wcS.getD v "").splitOn ":").mapM String.toInt? with
      | some [a, b, c, d] => (⟨mkRat a 2, mkRat b 2⟩, ⟨mkRat c 2, mkRat d 2⟩)
      | _ => (⟨0, 0⟩, ⟨0, 0⟩)
    let mc := Bdd.wmc Sem.cxOps wcW last
    if s!"{showRat mc.re},{showRat mc.im}" != g "cc" then return s!"FAIL MODEL complex count: model {showRat mc.re},{showRat mc.im} implementation {g "cc"}"
    let wpS := ((lookup kvs "wp").getD "").splitOn ","
    let M := Constants.maxCoeffs
    let polyOf (s : String) : Sem.Poly Rat :=
      let cs : List Rat := if s.isEmpty then [] else (s.splitOn ".").map fun t => ((t.toNat?.getD 0 : Nat) : Rat)
      Ffi.fromCParts Sem.realOps M cs
    let wpW : Weights (Sem.Poly Rat) := fun v =>
      match (wpS.getD v "/").splitOn "/" with
      | [l, h] => (polyOf l, polyOf h)
      | _ => (polyOf "", polyOf "")
    let mp := Bdd.wmc (Sem.polyOps Sem.realOps M) wpW last
    if showPolyRat mp != g "cp" then return s!"FAIL MODEL polynomial count: model {showPolyRat mp} implementation {g "cp"}"
  return s!"ok nontrivial={if trees.any isNontrivial then 1 else 0}"

end Driver
