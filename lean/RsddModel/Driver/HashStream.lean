import RsddModel.Driver.WmcStream
import RsddModel.Driver.CnfParse
import RsddModel.Driver.SddStream
import RsddModel.Model.SddWmc
import RsddModel.Model.SddSemantic
/-!
# Driver: the `hash` stream (C11)

One function, many representations: the semantic hash reported for a BDD under two orders, a
compressed and an uncompressed SDD under two vtrees, a top-down decision-DNNF and the
semantic-hash SDD builder's own node must all equal the defining sum `wsum` of the *function*
in the field, computed here from the exported weights; the hash of a negation is one minus the
hash; cached hashes equal recomputed ones; the semantic builder's results denote the specified
functions and it never judges two equal functions different.
-/
namespace Driver
open Spec

def checkHashProg (kvs okv : List (String × String)) : String := Id.run do
  let some n := (lookup kvs "n").bind parseNat? | return "FAIL PARSE n"
  let some opsS := lookup kvs "ops" | return "FAIL PARSE ops"
  let some ops := (opsS.splitOn "|").mapM parseOp | return "FAIL PARSE op"
  let some P := (lookup okv "P").bind parseNat? | return "FAIL PARSE P"
  let some ws := (lookup okv "w").bind parsePairs | return "FAIL PARSE w"
  let some picks := (lookup okv "picks").bind parseNatList | return "FAIL PARSE picks"
  let some (_, fns) := specRunTab n (n, []) ops | return "FAIL SPEC specification rejects the program"
  if !(ws.all fun (l, h) => (l + h) % P == 1 % P) then return "FAIL SPEC the semantic-hash weights of a variable do not sum to one"
  let S := Sem.ffOps P
  let vars := List.range n
  let want := picks.map fun i => wsum S vars (weightsOf ws) (fns.getD i fFalse) (fun _ => false)
  let wantNeg := want.map fun h => (1 + P - h) % P
  -- The semantic-hash builder identifies nodes by hash.  Its results are promised correct over
  -- the 64-bit field only, and "equal functions are never judged different" rests on "equal
  -- functions hash equally", which holds for well-formed diagrams: after a hash COLLISION the
  -- builder may hand out diagrams that are not partitions any more (their hash is then not the
  -- weighted sum of their function).  The mirrored builder with its collision detector on
  -- (`SddSem.runChecked`, `Props/C11.lean`: `semantic_correct_partial`,
  -- `detector_reports_collisions`) says whether a collision happened in this program; if it did
  -- and the field is a small one, nothing is required of this builder's results.
  let collided : Bool :=
    match (lookup okv "vt1").bind parseVTree, ops.mapM toSddOp with
    | some vt1, some sops =>
      (SddSem.run vt1 P ws 200 sops).isSome && (SddSem.runChecked vt1 P ws 200 sops).isNone
    | _, _ => false
  let semFree := collided && P != Constants.u64largest
  for (k, what) in ([("hb1", "BDD under the first order"), ("hb2", "BDD under the second order"),
      ("hs1", "compressed SDD under the first vtree"), ("hs2", "uncompressed SDD under the second vtree"),
      ("cb", "cached BDD hash"), ("cs", "cached SDD hash"), ("csm", "smoothed BDD (cached)"), ("hsm", "smoothed BDD (recomputed)"),
      ("semh", "node of the semantic-hash builder")].filter fun (k, _) => !(semFree && k == "semh")) do
    let some got := (lookup okv k).bind parseNatList | return s!"FAIL PARSE {k}"
    if got != want then return s!"FAIL SPEC the semantic hash of the {what} is {got}, the weighted sum of the function is {want}"
  for k in ["hneg", "hsneg", "csmneg"] do
    let some got := (lookup okv k).bind parseNatList | return s!"FAIL PARSE {k}"
    if got != wantNeg then return s!"FAIL SPEC the hash of a negation {got} is not one minus the hash {wantNeg}"
  -- the semantic-hash builder
  let tts := fns.map (ttString n)
  if semFree then return "ok nontrivial=0 collision_small_field"
  if (lookup okv "semtt") != some ("|".intercalate tts) then
    return s!"FAIL SPEC a diagram returned by the semantic-hash SDD builder denotes the wrong function ({if collided then "64-bit field" else "no hash collision occurred in this program"})"
  let some semeq := (lookup okv "semeq").bind parseNatList | return "FAIL PARSE semeq"
  for (c, i) in semeq.zipIdx do
    let first := ((List.range (i + 1)).find? fun j => tts[j]? == tts[i]?).getD i
    if c > first then return s!"FAIL SPEC the semantic-hash builder judges results #{first} and #{i} different although they denote the same function"
    if c < first then return s!"FAIL SPEC the semantic-hash builder judges results #{c} and #{i} equal although they denote different functions"
  -- mirrored models: the SDD fold on the model's own results, and the semantic-hash builder
  match (lookup okv "vt1").bind parseVTree, ops.mapM toSddOp with
  | some vt1, some sops =>
    match Sdd.run ⟨vt1, true⟩ 200 sops with
    | some pool =>
      let mh := picks.map fun i => Sdd.semanticHash P (weightsOf ws) (pool.getD i .tru)
      if some mh != (lookup okv "hs1").bind parseNatList then return s!"FAIL MODEL SDD semantic hash: model {mh}"
    | none => return "FAIL MODEL sdd model rejects the program"
    match SddSem.run vt1 P ws 200 sops with
    | some pool =>
      if "|".intercalate (pool.map (Sdd.ttString n)) != (lookup okv "semtt").getD "" then
        return "FAIL MODEL semantic-hash builder: results differ from the mirrored builder"
      let mh := picks.map fun i => Sdd.hashTree P (weightsOf ws) (pool.getD i .tru)
      if some mh != (lookup okv "semh").bind parseNatList then return "FAIL MODEL semantic-hash builder: cached hashes differ"
    | none => return "FAIL MODEL semantic-hash builder model rejects the program"
  | _, _ => return "FAIL PARSE vt1/ops"
  let distinct := (want.eraseDups.filter fun h => h > 1).length
  return s!"ok nontrivial={if distinct > 1 then 1 else 0}"

def checkHashTd (kvs okv : List (String × String)) : String := Id.run do
  let some n := (lookup kvs "n").bind parseNat? | return "FAIL PARSE n"
  let some cs := (lookup kvs "cnf").bind parseCnf | return "FAIL PARSE cnf"
  let some P := (lookup okv "P").bind parseNat? | return "FAIL PARSE P"
  let some ws := (lookup okv "w").bind parsePairs | return "FAIL PARSE w"
  let want := wsum (Sem.ffOps P) (List.range n) (weightsOf ws) (cnfFn cs) (fun _ => false)
  for (k, what) in [("hb", "bottom-up BDD"), ("ht", "top-down decision-DNNF")] do
    if (lookup okv k).bind parseNat? != some want then
      return s!"FAIL SPEC the semantic hash of the {what} is {lookup okv k}, the weighted sum of the CNF's function is {want}"
  -- the store that identifies nodes by semantic hash: over the 64-bit field its result must
  -- denote the CNF (twice in a row on one builder); in any field a result that does denote the
  -- CNF must hash to the weighted sum
  let cnfTT := ttString n (cnfFn cs)
  for k in ["stt", "stt2"] do
    match lookup okv k with
    | some tt =>
      if tt != cnfTT && P == Constants.u64largest then
        return s!"FAIL SPEC top-down compilation with the hash-identified node store (64-bit field) denotes {tt}, the CNF {cnfTT}"
    | none => pure ()
  -- conditioning the hash-identified store's result and its negation (64-bit field)
  if P == Constants.u64largest && lookup okv "stt" == some cnfTT then
    let conds := ((lookup okv "sconds").getD "").splitOn ","
    if conds.length == 2 * n then
      for v in List.range n do
        for (b, k) in [(false, 0), (true, 1)] do
          match (conds.getD (2 * v + k) "").splitOn "." with
          | [c1, c2] =>
            let want1 := ttString n (fCond (cnfFn cs) v b)
            let want2 := ttString n (fCond (fNot (cnfFn cs)) v b)
            if c1 != want1 then return s!"FAIL SPEC hash-identified store: condition(result, x{v}={b}) denotes {c1}, the restricted function is {want1}"
            if c2 != want2 then return s!"FAIL SPEC hash-identified store: condition(¬result, x{v}={b}) denotes {c2}, the restricted function is {want2}"
          | _ => return "FAIL PARSE sconds entry"
  if lookup okv "stt" == some cnfTT then
    if let some hs := (lookup okv "hsem").bind parseNat? then
      if hs != want then return s!"FAIL SPEC the semantic hash of the hash-identified store's result is {hs}, the weighted sum of the CNF's function is {want}"
  return s!"ok nontrivial={if want > 1 then 1 else 0}"

def checkHashLine (kvs : List (String × String)) (rhs : String) : String :=
  if rhs.startsWith "panic:" then s!"FAIL SPEC semantic hashing panicked: {rhs}" else
  let okv := splitKV rhs
  match lookup kvs "kind" with
  | some "prog" => checkHashProg kvs okv
  | some "td" => checkHashTd kvs okv
  | _ => "FAIL PARSE kind"

end Driver
