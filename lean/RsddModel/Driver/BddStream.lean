import RsddModel.Driver.Parse
import RsddModel.Model.CacheList
import RsddModel.Model.BddWmc
import RsddModel.Model.BddStore
/-!
# Driver: the `bdd` stream (C01, C02 builder half, C16 builder half)

For one program line the driver
1. re-executes the program on the *model* (`Bdd.run` with the list cache) and compares the
   resulting pool with the pool printed by the implementation (structural equality of raw
   diagrams: ROBDDs are canonical, so a correct implementation can print only one thing);
2. independently evaluates the *specification* (`Bdd.specStep`, functions tabulated as truth
   tables after every step) and compares the truth table of every implementation result;
3. checks the shape clauses of C02 on every implementation result and the equality classes
   reported by the implementation against equality of the specified functions.
-/
namespace Driver
open Spec

/-- level map of an order given as `pos_to_var`; labels outside the order sit at their own
index (`new_last`) -/
def lvlOf (order : List Nat) (v : Nat) : Nat :=
  match order.idxOf? v with
  | some i => i
  | none => v

/-- `PartialModel::assignment_iter`: false literals ascending, then true literals ascending -/
def assignmentIter (m : List (Option Bool)) : List (Nat × Bool) :=
  let idx := m.zipIdx
  (idx.filterMap fun (o, i) => if o == some false then some (i, false) else none) ++
  (idx.filterMap fun (o, i) => if o == some true then some (i, true) else none)

def parseOp (s : String) : Option Bdd.Op :=
  match s.splitOn ":" with
  | [name, args] =>
    let as := args.splitOn ","
    let n (i : Nat) : Option Nat := (as[i]?).bind String.toNat?
    let b (i : Nat) : Option Bool := (as[i]?).map (· == "1")
    match name with
    | "const" => (b 0).map Bdd.Op.const
    | "var" => do some (.var (← n 0) (← b 1))
    | "newvar" => (b 0).map Bdd.Op.newVar
    | "neg" => (n 0).map Bdd.Op.neg
    | "and" => do some (.and (← n 0) (← n 1))
    | "or" => do some (.or (← n 0) (← n 1))
    | "xor" => do some (.xor (← n 0) (← n 1))
    | "iff" => do some (.iff (← n 0) (← n 1))
    | "ite" => do some (.ite (← n 0) (← n 1) (← n 2))
    | "cond" => do some (.cond (← n 0) (← n 1) (← b 2))
    | "condm" => do
      let i ← n 0
      let m := ((as[1]?).getD "").toList.map fun c =>
        if c == 't' then some true else if c == 'f' then some false else none
      some (.condModel i (assignmentIter m))
    | "exist" => do some (.exist (← n 0) (← n 1))
    | "compose" => do some (.compose (← n 0) (← n 1) (← n 2))
    | "andl" => (parseNatList args).map Bdd.Op.andLst
    | "orl" => (parseNatList args).map Bdd.Op.orLst
    | _ => none
  | _ => none

/-- index of an assignment restricted to variables `0..n-1` -/
def assignIndex (n : Nat) (a : Assign) : Nat :=
  (List.range n).foldl (fun acc x => if a x then acc + 2 ^ x else acc) 0

/-- the truth table of `f` over variables `0..n-1` as an array -/
def mkTable (n : Nat) (f : BoolFn) : Array Bool :=
  (Array.range (2 ^ n)).map fun i => f (assignOfNat i)

/-- the function denoted by a table (the array is captured, not recomputed) -/
def fnOfTable (n : Nat) (tt : Array Bool) : BoolFn :=
  fun a => tt.getD (assignIndex n a) false

def ttString (n : Nat) (f : BoolFn) : String :=
  String.ofList ((List.range (2 ^ n)).map fun i => if f (assignOfNat i) then '1' else '0')

/-- specification run with tabulation after every step -/
def specRunTab (n : Nat) (st : Nat × List BoolFn) : List Bdd.Op → Option (Nat × List BoolFn)
  | [] => some st
  | op :: ops =>
    match Bdd.specStep st op with
    | none => none
    | some (k, fs) =>
      let fs' := match fs.reverse with
        | [] => []
        | f :: rest =>
          let tt := mkTable n f
          (fnOfTable n tt :: rest).reverse
      specRunTab n (k, fs') ops

/-- executable shape check of C02: ordered w.r.t. `lvl`, no node with equal children, high
edge regular and not the false constant -/
def wfCheck (lvl : Nat → Nat) : Nat → Bdd.Ptr → Bool
  | _, .tru | _, .fls => true
  | k, .node _ v lo hi =>
    decide (k ≤ lvl v) && decide (lo ≠ hi) && !hi.isNeg && !hi.isFalse
      && wfCheck lvl (lvl v + 1) lo && wfCheck lvl (lvl v + 1) hi

def countNewVars (ops : List Bdd.Op) : Nat :=
  (ops.filter fun o => match o with | .newVar _ => true | _ => false).length

def isNontrivial : Bdd.Ptr → Bool
  | .node _ _ (.node ..) _ | .node _ _ _ (.node ..) => true
  | _ => false

def checkBddLine (kvs : List (String × String)) (rhs : String) : String := Id.run do
  let some n := (lookup kvs "n").bind parseNat? | return "FAIL PARSE n"
  let some order := (lookup kvs "order").bind parseNatList | return "FAIL PARSE order"
  let some opsS := lookup kvs "ops" | return "FAIL PARSE ops"
  let some ops := (opsS.splitOn "|").mapM parseOp | return "FAIL PARSE op"
  let lvl := lvlOf order
  let model := Bdd.run Bdd.ListCache lvl 200 (Bdd.St.init Bdd.ListCache n) ops
  let nmax := n + countNewVars ops
  let spec := specRunTab nmax (n, []) ops
  if rhs.startsWith "panic:" then
    -- the implementation rejected the program: model and spec must reject it too
    match model, spec with
    | none, none => return "ok rejected"
    | _, _ => return s!"FAIL MODEL implementation rejected ({rhs}) but model/spec accept"
  let okv := splitKV rhs
  let some resS := lookup okv "res" | return "FAIL PARSE res"
  let some impl := (resS.splitOn "|").mapM parseBdd | return "FAIL PARSE tree"
  let some eqc := (lookup okv "eq").bind parseNatList | return "FAIL PARSE eq"
  let some (_, fns) := spec | return "FAIL SPEC specification rejects a program the implementation accepts"
  if fns.length != impl.length then return "FAIL SPEC pool length"
  -- (2) implementation against the specification
  for (p, f, i) in (impl.zip fns).zipIdx.map (fun ((p, f), i) => (p, f, i)) do
    if ttString nmax p.eval != ttString nmax f then
      return s!"FAIL SPEC op#{i} denotes {ttString nmax p.eval} expected {ttString nmax f}"
    if !wfCheck lvl 0 p then
      return s!"FAIL SPEC op#{i} result is not an ordered reduced diagram with regular high edges: {printBdd p}"
  -- (3) equality classes
  let tts := fns.map (ttString nmax)
  for (c, i) in eqc.zipIdx do
    let expect := (List.range (i + 1)).find? (fun j => tts[j]? == tts[i]?)
    if expect != some c then
      return s!"FAIL SPEC eq-class of op#{i}: implementation says {c}, functions say {expect}"
  -- (1) model against implementation
  match model with
  | none => return "FAIL MODEL model rejects (or runs out of fuel on) a program the implementation accepts"
  | some st =>
    if st.pool.length != impl.length then return "FAIL MODEL pool length"
    for ((p, q), i) in (st.pool.zip impl).zipIdx do
      if p != q then
        return s!"FAIL MODEL op#{i} model={printBdd p} impl={printBdd q}"
  -- (4) the store-level model (references into a hash-consed node list, `Props/C02Store.lean`):
  -- its references unfold to the implementation's diagrams and are equal exactly when the
  -- implementation's pointers are
  match BddStore.runS BddStore.ListCacheS lvl 200 (BddStore.StS.init BddStore.ListCacheS n) ops with
  | none => return "FAIL MODEL the store-level model rejects a program the implementation accepts"
  | some ss =>
    if ss.pool.length != impl.length then return "FAIL MODEL store-level pool length"
    for ((r, q), i) in (ss.pool.zip impl).zipIdx do
      if Scratch.unfold ss.store r != q then
        return s!"FAIL MODEL op#{i} store-level model={printBdd (Scratch.unfold ss.store r)} impl={printBdd q}"
    for (c, i) in eqc.zipIdx do
      let cls := (List.range (i + 1)).find? (fun j => ss.pool[j]? == ss.pool[i]?)
      if cls != some c then
        return s!"FAIL MODEL op#{i}: the implementation's pointer is first equal to #{c}, the store-level reference to #{cls}"
  let nt := (impl.filter isNontrivial).eraseDups.length
  return s!"ok nontrivial={nt}"

end Driver
