import RsddModel.Driver.Parse
import RsddModel.Model.Semirings
import RsddModel.Model.Constants
/-!
# Driver: the `ring` stream (C13)

Each line carries a triple `(a, b, c)` of one weight type and what the implementation returned
for `a+b`, `a*b`, `a-b`, the two bracketings of sums and products, both sides of
distributivity, the identities, and (where the type has them) join/meet/choose/partial order.
The driver (1) recomputes every value with the mirrored model, (2) recomputes it with plain
exact arithmetic (`Nat` modulo `P`, `Rat`) — the specification — and (3) checks the laws on the
implementation's own outputs.
-/
namespace Driver
open Sem

def parseRat? (s : String) : Option Rat :=
  match s.splitOn "/" with
  | [n, d] => do
    let n ← n.toInt?
    let d ← d.toNat?
    if d == 0 then none else some (mkRat n d)
  | [n] => (n.toInt?).map fun i => (i : Rat)
  | _ => none

def showRat (r : Rat) : String := s!"{r.num}/{r.den}"

def expect (okv : List (String × String)) (items : List (String × String)) (tag : String) : Option String :=
  items.findSome? fun (k, v) =>
    match lookup okv k with
    | none => some s!"FAIL PARSE missing {k}"
    | some w => if w == v then none else some s!"FAIL {tag} {k}: implementation={w} expected={v}"

def lawsOn (okv : List (String × String)) (pairs : List (String × String)) : Option String :=
  pairs.findSome? fun (k1, k2) =>
    if lookup okv k1 == lookup okv k2 then none
    else some s!"FAIL SPEC law {k1} = {k2} violated by the implementation: {lookup okv k1} vs {lookup okv k2}"

def semiringLaws : List (String × String) :=
  [("addab_c", "adda_bc"), ("mulab_c", "mula_bc"), ("mula_bpc", "ab_p_ac")]

def checkFF (kvs okv : List (String × String)) (rhs : String) : String := Id.run do
  let some P := (lookup kvs "P").bind parseNat? | return "FAIL PARSE P"
  let some a0 := (lookup kvs "a").bind parseNat? | return "FAIL PARSE a"
  let some b0 := (lookup kvs "b").bind parseNat? | return "FAIL PARSE b"
  let some c0 := (lookup kvs "c").bind parseNat? | return "FAIL PARSE c"
  -- `FiniteField<P>` is generic in `P`: besides the exported primes the stream samples three
  -- moduli the crate does not export, inside the range (1, 2^127) all theorems are stated for
  let extra : List Nat := [2 ^ 96 + 61, 2 ^ 107 - 1, 2 ^ 126 - 137]
  if !(Constants.exportedPrimes.contains P) && !(extra.contains P) then
    return s!"FAIL MODEL prime {P} is not in the generated list of exported primes"
  let (a, b, c) := (a0 % P, b0 % P, c0 % P)
  -- the model, in its checked (u128) reading: `none` = the Rust overflows/underflows
  let m : Option (List (String × String)) := do
    let ab ← ffAddC P a b; let mab ← ffMulC P a b; let sab ← ffSubC P a b; let na ← ffNegateC P a
    let abc ← ffAddC P ab c; let bc ← ffAddC P b c; let a_bc ← ffAddC P a bc
    let mabc ← ffMulC P mab c; let mbc ← ffMulC P b c; let ma_bc ← ffMulC P a mbc
    let d1 ← ffMulC P a bc; let mac ← ffMulC P a c; let d2 ← ffAddC P mab mac
    let sa ← ffAddC P sab b
    some [("new", s!"{a},{b},{c}"), ("add", toString ab), ("mul", toString mab), ("sub", toString sab),
      ("neg", toString na), ("addab_c", toString abc), ("adda_bc", toString a_bc),
      ("mulab_c", toString mabc), ("mula_bc", toString ma_bc), ("mula_bpc", toString d1),
      ("ab_p_ac", toString d2), ("zero", toString (ffNew P 0)), ("one", toString (ffNew P 1)),
      ("subadd", toString sa)]
  if rhs.startsWith "panic:" then
    return s!"FAIL SPEC finite-field arithmetic panicked ({rhs}) on reduced operands of a modulus below 2^127"
  -- specification: integer arithmetic modulo P
  let spec : List (String × String) :=
    [("new", s!"{a},{b},{c}"), ("add", toString ((a + b) % P)), ("mul", toString (a * b % P)),
     ("sub", toString ((a + P - b) % P)), ("neg", toString ((1 + P - a) % P)),
     ("addab_c", toString ((a + b + c) % P)), ("mulab_c", toString (a * b * c % P)),
     ("mula_bpc", toString (a * (b + c) % P)), ("zero", "0"), ("one", toString (1 % P)),
     ("subadd", toString a)]
  if let some e := expect okv spec "SPEC" then return e
  if let some e := lawsOn okv semiringLaws then return e
  match m with
  | none => return "FAIL MODEL the checked model overflows where the implementation does not"
  | some items => if let some e := expect okv items "MODEL" then return e
  return s!"ok nontrivial={if a > 1 && b > 1 then 1 else 0}"

def checkReal (kvs okv : List (String × String)) : String := Id.run do
  let some a := (lookup kvs "a").bind parseRat? | return "FAIL PARSE a"
  let some b := (lookup kvs "b").bind parseRat? | return "FAIL PARSE b"
  let some c := (lookup kvs "c").bind parseRat? | return "FAIL PARSE c"
  let cmpS (o : Option Ordering) := match o with
    | none => "none" | some .lt => "lt" | some .eq => "eq" | some .gt => "gt"
  let items : List (String × String) :=
    [("add", showRat (realAdd a b)), ("mul", showRat (realMul a b)), ("sub", showRat (realSub a b)),
     ("join", showRat (realJoin a b)), ("meet", showRat (realMeet a b)), ("choose", showRat (realChoose a b)),
     ("cmp", cmpS (realPartialCmp a b)),
     ("addab_c", showRat (realAdd (realAdd a b) c)), ("adda_bc", showRat (realAdd a (realAdd b c))),
     ("mulab_c", showRat (realMul (realMul a b) c)), ("mula_bc", showRat (realMul a (realMul b c))),
     ("mula_bpc", showRat (realMul a (realAdd b c))), ("ab_p_ac", showRat (realAdd (realMul a b) (realMul a c))),
     ("zero", showRat 0), ("one", showRat 1), ("subadd", showRat (realAdd (realSub a b) b))]
  let spec : List (String × String) :=
    [("add", showRat (a + b)), ("mul", showRat (a * b)), ("sub", showRat (a - b)),
     ("join", showRat (if a ≤ b then b else a)), ("meet", showRat (if a ≤ b then a else b)),
     ("choose", showRat (if a ≤ b then b else a)),
     ("cmp", if a < b then "lt" else if a == b then "eq" else "gt"),
     ("addab_c", showRat (a + b + c)), ("mulab_c", showRat (a * b * c)), ("mula_bpc", showRat (a * (b + c))),
     ("subadd", showRat a), ("zero", "0/1"), ("one", "1/1")]
  if let some e := expect okv spec "SPEC" then return e
  if let some e := lawsOn okv semiringLaws then return e
  if let some e := expect okv items "MODEL" then return e
  return "ok nontrivial=1"

def parseRat2 (s : String) : Option (Rat × Rat) :=
  match s.splitOn "," with
  | [x, y] => do some ((← parseRat? x), (← parseRat? y))
  | _ => none

def checkEU (kvs okv : List (String × String)) : String := Id.run do
  let some (a1, a2) := (lookup kvs "a").bind parseRat2 | return "FAIL PARSE a"
  let some (b1, b2) := (lookup kvs "b").bind parseRat2 | return "FAIL PARSE b"
  let some (c1, c2) := (lookup kvs "c").bind parseRat2 | return "FAIL PARSE c"
  let (a, b, c) : EU × EU × EU := (⟨a1, a2⟩, ⟨b1, b2⟩, ⟨c1, c2⟩)
  let sh (e : EU) := s!"{showRat e.p},{showRat e.u}"
  let cmpS (o : Option Ordering) := match o with
    | none => "none" | some .lt => "lt" | some .eq => "eq" | some .gt => "gt"
  let items : List (String × String) :=
    [("add", sh (euAdd a b)), ("mul", sh (euMul a b)), ("sub", sh (euSub a b)),
     ("join", sh (euJoin a b)), ("meet", sh (euMeet a b)), ("choose", sh (euChoose a b)),
     ("cmp", cmpS (euPartialCmp a b)),
     ("addab_c", sh (euAdd (euAdd a b) c)), ("adda_bc", sh (euAdd a (euAdd b c))),
     ("mulab_c", sh (euMul (euMul a b) c)), ("mula_bc", sh (euMul a (euMul b c))),
     ("mula_bpc", sh (euMul a (euAdd b c))), ("ab_p_ac", sh (euAdd (euMul a b) (euMul a c))),
     ("zero", sh euZero), ("one", sh euOne), ("subadd", sh (euAdd (euSub a b) b))]
  -- specification-level facts checked on the implementation's outputs
  let spec : List (String × String) :=
    [("add", s!"{showRat (a1 + b1)},{showRat (a2 + b2)}"),
     ("mul", s!"{showRat (a1 * b1)},{showRat (a1 * b2 + a2 * b1)}"),
     ("subadd", sh a)]
  if let some e := expect okv spec "SPEC" then return e
  if let some e := lawsOn okv semiringLaws then return e
  -- declared order ⇒ join/choose return the larger, meet the smaller
  let cmp := lookup okv "cmp"
  if cmp == some "lt" then
    if lookup okv "join" != some (sh b) || lookup okv "choose" != some (sh b) || lookup okv "meet" != some (sh a) then
      return "FAIL SPEC order compatibility (a < b) violated by join/choose/meet"
  if cmp == some "gt" then
    if lookup okv "join" != some (sh a) || lookup okv "choose" != some (sh a) || lookup okv "meet" != some (sh b) then
      return "FAIL SPEC order compatibility (a > b) violated by join/choose/meet"
  if let some e := expect okv items "MODEL" then return e
  return "ok nontrivial=1"

/-- units times a wide-range complex value: `x·1 = 1·x = x`, `x·i = i·x = (−im, re)`, `x·(−1) = −x`,
`x·2 = 2·x = (2re, 2im)`, compared as printed exact rationals -/
def checkCxUnits (okv : List (String × String)) : String := Id.run do
  let g (k : String) := (lookup okv k).getD ""
  let some (re, im) := (match (g "x").splitOn "," with
    | [a, b] => do some ((← parseRat? a), (← parseRat? b))
    | _ => none) | return "FAIL PARSE x"
  let sh (a b : Rat) : String := s!"{showRat a},{showRat b}"
  for (k, want) in [("x1", sh re im), ("1x", sh re im), ("xi", sh (-im) re), ("ix", sh (-im) re),
      ("xm", sh (-re) (-im)), ("x2", sh (2 * re) (2 * im)), ("2x", sh (2 * re) (2 * im))] do
    if g k != want then return s!"FAIL SPEC complex product {k} = {g k}, exact value {want} (x = {g "x"})"
  return "ok nontrivial=1"

def checkCx (kvs okv : List (String × String)) : String := Id.run do
  let some (a1, a2) := (lookup kvs "a").bind parseRat2 | return "FAIL PARSE a"
  let some (b1, b2) := (lookup kvs "b").bind parseRat2 | return "FAIL PARSE b"
  let some (c1, c2) := (lookup kvs "c").bind parseRat2 | return "FAIL PARSE c"
  let (a, b, c) : Cx × Cx × Cx := (⟨a1, a2⟩, ⟨b1, b2⟩, ⟨c1, c2⟩)
  let sh (e : Cx) := s!"{showRat e.re},{showRat e.im}"
  let items : List (String × String) :=
    [("add", sh (cxAdd a b)), ("mul", sh (cxMul a b)), ("sub", sh (cxSub a b)),
     ("addab_c", sh (cxAdd (cxAdd a b) c)), ("adda_bc", sh (cxAdd a (cxAdd b c))),
     ("mulab_c", sh (cxMul (cxMul a b) c)), ("mula_bc", sh (cxMul a (cxMul b c))),
     ("mula_bpc", sh (cxMul a (cxAdd b c))), ("ab_p_ac", sh (cxAdd (cxMul a b) (cxMul a c))),
     ("zero", sh cxZero), ("one", sh cxOne), ("subadd", sh (cxAdd (cxSub a b) b))]
  let spec : List (String × String) :=
    [("add", s!"{showRat (a1 + b1)},{showRat (a2 + b2)}"),
     ("mul", s!"{showRat (a1 * b1 - a2 * b2)},{showRat (a1 * b2 + a2 * b1)}"),
     ("subadd", sh a)]
  if let some e := expect okv spec "SPEC" then return e
  if let some e := lawsOn okv semiringLaws then return e
  if let some e := expect okv items "MODEL" then return e
  return "ok nontrivial=1"

def checkBool (kvs okv : List (String × String)) : String := Id.run do
  let g (k : String) := lookup kvs k == some "1"
  let (a, b, c) := (g "a", g "b", g "c")
  let sh (x : Bool) := if x then "1" else "0"
  let items : List (String × String) :=
    [("add", sh (boolAdd a b)), ("mul", sh (boolMul a b)),
     ("addab_c", sh (boolAdd (boolAdd a b) c)), ("adda_bc", sh (boolAdd a (boolAdd b c))),
     ("mulab_c", sh (boolMul (boolMul a b) c)), ("mula_bc", sh (boolMul a (boolMul b c))),
     ("mula_bpc", sh (boolMul a (boolAdd b c))), ("ab_p_ac", sh (boolAdd (boolMul a b) (boolMul a c))),
     ("zero", "0"), ("one", "1")]
  if let some e := expect okv [("add", sh (a || b)), ("mul", sh (a && b))] "SPEC" then return e
  if let some e := lawsOn okv semiringLaws then return e
  if let some e := expect okv items "MODEL" then return e
  return "ok nontrivial=1"

def parsePoly (P M : Nat) (s : String) : Option (Poly Nat) :=
  match s.splitOn ":" with
  | [l, cs] => do
    let len ← l.toNat?
    let cs ← parseNatList cs
    -- mirror of how the harness fills the public fields: `len` leading coefficients, zeros after
    some ⟨(cs.map (· % P)) ++ List.replicate (M - cs.length) 0, len⟩
  | _ => none

def showPoly (p : Poly Nat) : String := s!"{p.len}:{",".intercalate (p.coeffs.map toString)}"

def checkPoly (kvs okv : List (String × String)) : String := Id.run do
  let some P := (lookup kvs "P").bind parseNat? | return "FAIL PARSE P"
  let M := Constants.maxCoeffs
  let some a := (lookup kvs "a").bind (parsePoly P M) | return "FAIL PARSE a"
  let some b := (lookup kvs "b").bind (parsePoly P M) | return "FAIL PARSE b"
  let some c := (lookup kvs "c").bind (parsePoly P M) | return "FAIL PARSE c"
  let S := ffOps P
  let add := polyAdd S M
  let mul := polyMul S M
  let items : List (String × String) :=
    [("add", showPoly (add a b)), ("mul", showPoly (mul a b)),
     ("addab_c", showPoly (add (add a b) c)), ("adda_bc", showPoly (add a (add b c))),
     ("mulab_c", showPoly (mul (mul a b) c)), ("mula_bc", showPoly (mul a (mul b c))),
     ("mula_bpc", showPoly (mul a (add b c))), ("ab_p_ac", showPoly (add (mul a b) (mul a c))),
     ("zero", showPoly (polyZero S M)), ("one", showPoly (polyOne S M))]
  -- specification: coefficient k of the product is the truncated convolution
  let conv (k : Nat) : Nat :=
    ((List.range (k + 1)).foldl (fun acc i => acc + a.coeffs.getD i 0 * b.coeffs.getD (k - i) 0) 0) % P
  let specMul := (List.range M).map conv
  match lookup okv "mul" with
  | some s =>
    match (s.splitOn ":")[1]? |>.bind parseNatList with
    | some cs => if cs != specMul then return s!"FAIL SPEC polynomial product coefficients {cs} expected {specMul}"
    | none => return "FAIL PARSE mul"
  | none => return "FAIL PARSE mul"
  if let some e := lawsOn okv semiringLaws then return e
  if let some e := expect okv items "MODEL" then return e
  return s!"ok nontrivial={if a.len > 1 && b.len > 1 then 1 else 0}"

def checkRingLine (kvs : List (String × String)) (rhs : String) : String :=
  let okv := splitKV rhs
  -- `BBRing::choose` is the same operation as `BBSemiring::choose`
  if (lookup okv "choose2").isSome && lookup okv "choose2" != lookup okv "choose" then
    s!"FAIL SPEC BBRing::choose = {lookup okv "choose2"} differs from BBSemiring::choose = {lookup okv "choose"}" else
  match lookup kvs "type" with
  | some "ff" => checkFF kvs okv rhs
  | some "real" => if rhs.startsWith "panic:" then s!"FAIL SPEC {rhs}" else checkReal kvs okv
  | some "eu" => if rhs.startsWith "panic:" then s!"FAIL SPEC {rhs}" else checkEU kvs okv
  | some "cx" => if rhs.startsWith "panic:" then s!"FAIL SPEC {rhs}" else checkCx kvs okv
  | some "cxu" => if rhs.startsWith "panic:" then s!"FAIL SPEC {rhs}" else checkCxUnits okv
  | some "bool" => checkBool kvs okv
  | some "poly" => if rhs.startsWith "panic:" then s!"FAIL SPEC {rhs}" else checkPoly kvs okv
  | _ => "FAIL PARSE type"

end Driver
